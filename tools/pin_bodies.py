#!/usr/bin/env python3
"""Re-pin lean/Proofs/Bridge/Bodies.lean from the CURRENT Generated/Bodies.lean.

Developer tool, never run by a check: the pinned literals are the snapshot of each function's canonical statement text
that the hand-written model (and its correspondence run) was validated against.  Re-pin only after re-validating."""
import os
import re
import subprocess

HERE = os.path.dirname(os.path.abspath(__file__))
subprocess.run(["python3", os.path.join(HERE, "extract.py")], check=True)
src = open(os.path.join(HERE, "..", "lean", "BLDFM", "Generated", "Bodies.lean")).read()
out = ["/-\n  Bridge for the whole-function statement tables (Generated/Bodies.lean, regenerated from the AST on every run):\n"
       "  the canonical statement text of each function is the snapshot the hand-written model was validated against.\n"
       "  Pinned by tools/pin_bodies.py; a textual change of a function breaks exactly its own theorem.\n-/\n"
       "import BLDFM.Generated.Bodies\n\nnamespace BLDFM.Bridge\n\nopen BLDFM.Generated.Bodies\n"]
for m in re.finditer(r"^def (\w+) : List String := (\[.*\])$", src, re.M):
    name, lit = m.group(1), m.group(2)
    # break the literal over lines for readability
    items = re.findall(r'"(?:[^"\\]|\\.)*"', lit)
    body = ",\n     ".join(items)
    out.append("theorem body_%s :\n    (%s : List String) =\n    [%s] := rfl\n" % (name, name, body))
out.append("end BLDFM.Bridge\n")
open(os.path.join(HERE, "..", "lean", "Proofs", "Bridge", "Bodies.lean"), "w").write("\n".join(out))
print("pinned %d tables" % (len(out) - 2))
