#!/bin/sh
# tools/mkround.sh <suffix> "<props>" "<trigger text>"  - prepare scratch worktrees + prompts for a round of seeded changes
# (developer tool; nothing registered in MANIFEST.json depends on it). Worktrees live under /tmp/mut and are removed after the round.
suf=$1; props=$2; trig=$3
mkdir -p /tmp/mut
for p in $props; do
  id=$p$suf
  git -C /repo worktree add --detach /tmp/mut/$id HEAD -q 2>/dev/null || git -C /repo worktree add --detach /tmp/mut/$id HEAD
  mkdir -p /tmp/mut/$id-scratch/out
  python3 - "$p" "$id" "$trig" <<'PY'
import json,sys,glob
p,id_,trig=sys.argv[1:4]
for l in open('/verif/properties.jsonl'):
    d=json.loads(l)
    if d.get('id')==p: json.dump(d,open('/tmp/mut/%s-scratch/property.json'%id_,'w'),indent=1)
out=[]
for m in sorted(glob.glob('/verif/seeded/%s*/meta.json'%p)):
    try:
        d=json.load(open(m)); out.append('- %s || needs: %s'%(str(d.get('summary',''))[:600].replace('\n',' '), str(d.get('needs',''))[:300].replace('\n',' ')))
    except Exception: pass
open('/tmp/mut/%s-scratch/avoid.txt'%id_,'w').write('\n'.join(out)+'\n')
t=open('/verif/tools/seed_prompt_template.txt').read().replace('@ID@',id_).replace('@PROP@',p).replace('@TRIGGER@',trig)
open('/tmp/mut/%s-scratch/prompt.txt'%id_,'w').write(t)
PY
done
ls -d /tmp/mut/*$suf
