#!/usr/bin/env python3
"""Translator: /repo/src/bldfm/*.py  ->  lean/BLDFM/Generated/*.lean

A small symbolic executor over the Python AST.  It walks a function body in
program order keeping an environment `name -> symbolic expression`; local names
are eliminated by substitution, so renaming a temporary, hoisting a factor or
reordering independent statements changes the emitted term but not its value
(the bridge proofs are `ring`/`field_simp`-style and survive that).

* `if`   : both branches are walked with a copy of the environment; a name that
           ends up with different values becomes opaque afterwards.
* `for`  : names assigned in the body become *state variables* (their value at
           loop entry) while walking the body once; the loop index is a symbolic
           natural number.  The body's final values are recorded as the loop's
           transition function.
* every assignment is recorded as a *probe* (function, target text, branch
  path, value), and the kernels below are read off the probes.

Emitted definitions are generic in the scalar types exactly like the
hand-written model (`BLDFM/Scalar.lean`), so the same text is run on Floats by
the driver and reasoned about over ℝ/ℂ by the bridge theorems.

Types: N (natural number), R (real), C (complex), B (bool).  Python numeric
literals adapt to their context (N < R < C).

Exit status 0 always; per-kernel failures are reported in
lean/BLDFM/Generated/report.json (a missing kernel breaks its bridge).
"""
import ast
import re
import json
import os
import sys

VERIF = os.path.dirname(os.path.dirname(os.path.abspath(__file__)))
REPO_SRC = os.environ.get("BLDFM_SRC", "/repo/src/bldfm")
OUT = os.path.join(VERIF, "lean", "BLDFM", "Generated")


class TranslateError(Exception):
    pass


# ----------------------------------------------------------------- expressions

class E:
    """symbolic expression"""
    __slots__ = ("k", "ty", "a", "name")

    def __init__(self, k, ty, a=(), name=None):
        self.k, self.ty, self.a, self.name = k, ty, tuple(a), name

    def __repr__(self):
        return "E(%s,%s,%s,%s)" % (self.k, self.ty, self.name, list(self.a))


def num(v):
    # literal: python int or float; ty chosen by context ('L' = literal int, 'LF' = literal float)
    if isinstance(v, bool):
        raise TranslateError("bool literal")
    if isinstance(v, int):
        return E("num", "N", (), name=str(v)) if v >= 0 else neg(num(-v))
    if isinstance(v, float):
        return E("num", "R", (), name=repr(v))
    if isinstance(v, complex):
        if v.real == 0.0:
            return mul(E("imag", "C"), num(v.imag)) if v.imag != 1.0 else E("imag", "C")
    raise TranslateError("literal %r" % (v,))


def var(name, ty):
    return E("var", ty, (), name=name)


RANK = {"N": 0, "R": 1, "C": 2}


def join(t1, t2):
    if t1 not in RANK or t2 not in RANK:
        raise TranslateError("arithmetic on %s/%s" % (t1, t2))
    return t1 if RANK[t1] >= RANK[t2] else t2


def cast(e, ty):
    """coerce e to numeric type ty (N -> R -> C)"""
    if e.ty == ty:
        return e
    if e.ty not in RANK or ty not in RANK or RANK[e.ty] > RANK[ty]:
        raise TranslateError("cannot cast %s to %s" % (e.ty, ty))
    if e.k == "num" and e.ty == "N":
        # integer literal in a real/complex context
        return E("num", ty, (), name=e.name + ".0")
    if e.k == "num" and e.ty == "R" and ty == "C":
        return E("num", "C", (), name=e.name)
    if e.k == "neg" and e.a[0].k == "num":
        return E("neg", ty, (cast(e.a[0], ty),))
    if e.ty == "N":
        r = E("natcast", "R", (e,))
        return r if ty == "R" else E("ofreal", "C", (r,))
    return E("ofreal", "C", (e,))


def binop(op, a, b):
    if op == "/":
        ty = join(join(a.ty, b.ty), "R")
    else:
        ty = join(a.ty, b.ty)
    return E(op, ty, (cast(a, ty), cast(b, ty)))


def mul(a, b):
    return binop("*", a, b)


def neg(a):
    if a.ty == "N":
        a = cast(a, "R") if a.k == "num" else a
    if a.ty == "N":
        raise TranslateError("negation of a natural-number expression")
    return E("neg", a.ty, (a,))


# ----------------------------------------------------------------- Lean printing

PREC = {"+": 65, "-": 65, "*": 70, "/": 70}


def lean(e, p=0):
    k = e.k
    if k == "num":
        s = e.name
        if e.ty == "N":
            return s
        if "e" in s or "E" in s or "inf" in s or "nan" in s:
            # scientific notation: 1e9 -> 1.0e9 is fine for OfScientific
            if "." not in s and ("e" in s or "E" in s) and "inf" not in s:
                m, ex = s.lower().split("e")
                s = m + ".0e" + ex
            elif "inf" in s or "nan" in s:
                raise TranslateError("non-finite literal")
        return "(%s : %s)" % (s, e.ty)
    if k == "var":
        return e.name
    if k == "imag":
        return "F.I"
    if k in PREC:
        pr = PREC[k]
        s = "%s %s %s" % (lean(e.a[0], pr), k, lean(e.a[1], pr + 1))
        return "(%s)" % s if p > pr else s
    if k == "ndiv":
        return "(%s / %s)" % (lean(e.a[0], 70), lean(e.a[1], 71))
    if k == "nmod":
        return "(%s %% %s)" % (lean(e.a[0], 70), lean(e.a[1], 71))
    if k == "neg":
        return "(-%s)" % lean(e.a[0], 100)
    if k == "pownat":
        return "(%s ^ (%s : Nat))" % (lean(e.a[0], 100), e.name)
    if k == "natcast":
        return "(F.natCast %s)" % lean(e.a[0], 100)
    if k == "ofreal":
        return "(F.ofReal %s)" % lean(e.a[0], 100)
    if k == "call":
        return "(F.%s %s)" % (e.name, " ".join(lean(x, 100) for x in e.a))
    if k == "app":  # profile array applied to an index, or a symbolic function applied to its arguments
        return "(%s %s)" % (e.name, " ".join(lean(x, 100) for x in e.a))
    if k == "ite":
        return "(if %s then %s else %s)" % (lean(e.a[0]), lean(e.a[1]), lean(e.a[2]))
    if k == "cmp":
        return "(%s %s %s)" % (lean(e.a[0], 51), e.name, lean(e.a[1], 51))
    if k == "tuple":
        return "(%s)" % ", ".join(lean(x) for x in e.a)
    raise TranslateError("cannot print %s" % k)


def free_vars(e, acc=None):
    acc = acc if acc is not None else {}
    if e.k == "var":
        acc[e.name] = e.ty
    if e.k == "app":
        acc[e.name] = "A" if (len(e.a) == 1 and e.a[0].ty == "N") else "G%d" % len(e.a)
    for x in e.a:
        if isinstance(x, E):
            free_vars(x, acc)
    return acc


# ----------------------------------------------------------------- symbolic executor

FN1 = {"sqrt": "sqrt", "exp": "exp", "log": "log", "sin": "sin", "cos": "cos", "arctan": "arctan"}


class Arr:
    """a 1-D array indexed by a natural-number expression (profiles, z, dz)"""

    def __init__(self, fn):
        self.fn = fn  # E(index) -> E


class Opaque:
    def __init__(self, why):
        self.why = why


# (name, regex of the right-hand side) of statements that PRODUCE a declared kernel input
REBIND_OK = [
    (r"tfft[pq]m?[12]", r"ivp_solver\(.*\)"),
    ("tfftq0", r"fftq0\[dly:dly \+ nly, dlx:dlx \+ nlx\]"), ("tfftq0", r"ifftshift\(tfftq0\)"),
    (r"fft[pq]0", r"fftpq"),
    (r"grid_[xy]", r"np\.meshgrid\(.*\)"),
]
REBIND_OK = [(None, None)] and [(nm, pat) for nm, pat in REBIND_OK]
# (declared input, test text) pairs where one branch only supplies the input's default
BRANCH_OK = {
    ("halo", "halo is None"), ("nlx", "nlx > nxe or nly > nye"), ("nly", "nlx > nxe or nly > nye"), ("tfftq0", "footprint"),
    ("z", "cache is not None and footprint"),
    ("z0", "z0 is None"), ("z0", "closure == 'OAAHOC'"), ("z0", "closure == 'CONSTANT' or closure == 'MOST' or closure == 'MOSTM'"),
    ("ustar", "z0 is None"), ("ustar", "ustar is None"), ("ustar", "closure == 'CONSTANT' or closure == 'MOST' or closure == 'MOSTM'"),
    ("tke", "tke is None"), ("tke", "closure == 'OAAHOC'"), ("tke", "closure == 'CONSTANT' or closure == 'MOST' or closure == 'MOSTM'"),
}

MODULE_NAMES = {"np", "numpy", "math", "scipy", "spsp", "special", "config", "fft_manager", "pyfftw", "numba", "os", "sys"}


class Exec:
    def __init__(self, fn_node, env, aliases=None, frozen=()):
        self.fn = fn_node
        self.env = dict(env)
        self.env0 = dict(env)
        self.aliases = aliases or {}
        self.frozen = set(frozen)   # names whose re-assignment is ignored (kept as input symbols)
        self.probes = []   # (target_text, path, value)
        self.inplace = []  # (base name, target text, path) of element/masked/attribute stores
        self.loops = []    # dict(index=..., state=[names], final={name: E}, path=...)
        self.tests = []    # (path, test_text, E or None)

    # -- expressions
    def ev(self, n):
        txt = ast.unparse(n)
        if txt in self.aliases:
            return self.aliases[txt]
        if isinstance(n, ast.Constant):
            return num(n.value)
        if isinstance(n, ast.Name):
            if n.id in self.env:
                v = self.env[n.id]
                if isinstance(v, Opaque):
                    raise TranslateError("name %s is opaque here (%s)" % (n.id, v.why))
                return v
            raise TranslateError("unknown name %s" % n.id)
        if isinstance(n, ast.UnaryOp):
            if isinstance(n.op, ast.USub):
                return neg(self.ev(n.operand))
            if isinstance(n.op, ast.UAdd):
                return self.ev(n.operand)
            raise TranslateError("unary %s" % txt)
        if isinstance(n, ast.BinOp):
            a = self.ev(n.left)
            op = type(n.op)
            if op is ast.Pow:
                return self.power(a, n.right)
            b = self.ev(n.right)
            if isinstance(a, Arr) or isinstance(b, Arr):
                raise TranslateError("whole-array arithmetic on an indexed array: %s" % txt)
            if op is ast.Add:
                return binop("+", a, b)
            if op is ast.Sub:
                if a.ty == "N" and b.ty == "N":
                    return E("-", "N", (a, b))   # truncated subtraction; sizes only
                return binop("-", a, b)
            if op is ast.Mult:
                return binop("*", a, b)
            if op is ast.Div:
                return binop("/", a, b)
            if op is ast.FloorDiv:
                if a.ty == "N" and b.ty == "N":
                    return E("ndiv", "N", (a, b))
                raise TranslateError("floor division on non-integers")
            if op is ast.Mod:
                if a.ty == "N" and b.ty == "N":
                    return E("nmod", "N", (a, b))
                raise TranslateError("mod on non-integers")
            raise TranslateError("binop %s" % txt)
        if isinstance(n, ast.Tuple):
            return E("tuple", "T", [self.ev(x) for x in n.elts])
        if isinstance(n, ast.Name) and False:
            pass
        if isinstance(n, ast.List) and len(n.elts) == 1:
            return self.ev(n.elts[0])
        if isinstance(n, ast.Subscript):
            return self.subscript(n)
        if isinstance(n, ast.Attribute):
            if n.attr == "real":
                base = n.value
                # np.power(a, b, dtype=complex).real  ->  real power (base >= 0 on the branch that is used)
                if isinstance(base, ast.Call) and ast.unparse(base.func) in ("np.power", "numpy.power") and any(
                        kw.arg == "dtype" for kw in base.keywords):
                    a = self.ev(base.args[0])
                    b = self.ev(base.args[1])
                    return E("call", "R", (cast(a, "R"), cast(b, "R")), name="rpow")
                v = self.ev(base)
                if v.ty == "C":
                    return E("call", "R", (v,), name="re")
                return v
            if txt in ("np.pi", "math.pi", "numpy.pi"):
                return E("var", "R", (), name="F.pi")
            if txt in ("np.nan", "numpy.nan", "math.nan"):
                return E("var", "R", (), name="F.nan")
            raise TranslateError("attribute %s" % txt)
        if isinstance(n, ast.Call):
            return self.call(n)
        if isinstance(n, ast.Compare) and len(n.ops) == 1:
            a = self.ev(n.left)
            b = self.ev(n.comparators[0])
            ops = {ast.Gt: ">", ast.Lt: "<", ast.GtE: "≥", ast.LtE: "≤"}
            if type(n.ops[0]) in ops:
                ty = join(a.ty, b.ty)
                if ty == "C":
                    raise TranslateError("complex comparison")
                return E("cmp", "B", (cast(a, ty), cast(b, ty)), name=ops[type(n.ops[0])])
            raise TranslateError("comparison %s" % txt)
        raise TranslateError("expression %s" % txt)

    def power(self, a, rnode):
        if isinstance(a, Arr):
            raise TranslateError("power of array")
        # literal non-negative integer exponent -> natural power
        if isinstance(rnode, ast.Constant) and isinstance(rnode.value, int) and rnode.value >= 0:
            if a.ty == "N":
                a = cast(a, "R")
            return E("pownat", a.ty, (a,), name=str(rnode.value))
        b = self.ev(rnode)
        if a.ty == "C" or b.ty == "C":
            raise TranslateError("complex power")
        return E("call", "R", (cast(a, "R"), cast(b, "R")), name="rpow")

    def subscript(self, n):
        base = n.value
        txt = ast.unparse(n)
        if isinstance(base, ast.Name) and base.id in self.env and isinstance(self.env[base.id], Arr):
            idx = self.ev(n.slice)
            if idx.ty != "N":
                raise TranslateError("index %s is not a natural number" % ast.unparse(n.slice))
            return self.env[base.id].fn(idx)
        # X[msk], X[:, msk], X[0, msk] on element-wise arrays: the element itself
        sl = ast.unparse(n.slice)
        if sl in ("msk", ":, msk", "...", "(..., np.newaxis)", "..., np.newaxis", "sflag"):
            return self.ev(base)
        if sl == "0" and isinstance(base, ast.Call) and ast.unparse(base.func) in getattr(self, "user_fns", {}):
            return self.ev(base)
        if isinstance(base, ast.Name) and base.id == "mxy":
            if sl in ("0", "1"):
                return var("m" + "xy"[int(sl)], "R")
        raise TranslateError("subscript %s" % txt)

    def call(self, n):
        f = ast.unparse(n.func)
        short = f.split(".")[-1]
        args = n.args
        if short == "item" and isinstance(n.func, ast.Attribute) and not args:
            return self.ev(n.func.value)
        if f in ("np.arange", "numpy.arange") and len(args) == 3:
            trip = E("tuple", "T", [cast(self.ev(a), "R") for a in args])
            self.probes.append(("arange", tuple(self.path), trip))
            return var("zeta", "R")
        if f.startswith(("np.", "numpy.", "math.")) or f in ("abs", "max", "int", "float", "len"):
            if short in FN1 and len(args) == 1:
                a = self.ev(args[0])
                if a.ty == "C":
                    cm = {"sqrt": "csqrt", "exp": "cexp"}
                    if short not in cm:
                        raise TranslateError("complex %s" % short)
                    return E("call", "C", (a,), name=cm[short])
                return E("call", "R", (cast(a, "R"),), name=FN1[short])
            if short == "arctan2":
                return E("call", "R", (cast(self.ev(args[0]), "R"), cast(self.ev(args[1]), "R")), name="arctan2")
            if short in ("deg2rad", "radians"):
                return binop("*", cast(self.ev(args[0]), "R"), binop("/", E("var", "R", (), name="F.pi"), num(180.0)))
            if short in ("degrees", "rad2deg"):
                return binop("*", cast(self.ev(args[0]), "R"), binop("/", num(180.0), E("var", "R", (), name="F.pi")))
            if short in ("abs", "fabs"):
                a = cast(self.ev(args[0]), "R")
                return E("ite", "R", (E("cmp", "B", (a, num(0.0)), name="<"), neg(a), a))
            if short == "max" and len(args) == 2:
                a, b = self.ev(args[0]), self.ev(args[1])
                ty = join(a.ty, b.ty)
                a, b = cast(a, ty), cast(b, ty)
                # Python max(a, b): b if b > a else a
                return E("ite", ty, (E("cmp", "B", (a, b), name="<"), b, a))
            if short == "int":
                a = self.ev(args[0])
                if a.ty == "N":
                    return a
                return E("call", "N", (cast(a, "R"),), name="truncNat")
            if short == "float":
                return cast(self.ev(args[0]), "R")
            if short == "where" and len(args) == 3:
                c = self.ev(args[0])
                a, b = self.ev(args[1]), self.ev(args[2])
                ty = join(a.ty, b.ty)
                return E("ite", ty, (c, cast(a, ty), cast(b, ty)))
            if short == "power" and len(args) == 2 and not n.keywords:
                return self.power(self.ev(args[0]), args[1])
            if short == "diff" and len(args) == 1:
                a = self.ev(args[0])
                if isinstance(a, Arr):
                    return Arr(lambda i, a=a: binop("-", a.fn(binop("+", i, num(1))), a.fn(i)))
            if short == "ones":
                cplx = any(kw.arg == "dtype" and "complex" in ast.unparse(kw.value) for kw in n.keywords)
                return cast(num(1.0), "C") if cplx else num(1.0)
            if short == "zeros_like":
                return num(0.0)
            if short == "zeros":
                cplx = any(kw.arg == "dtype" and "complex" in ast.unparse(kw.value) for kw in n.keywords)
                return cast(num(0.0), "C") if cplx else num(0.0)
            if short in ("asarray", "array", "squeeze") and len(args) == 1:
                return self.ev(args[0])
        if f in getattr(self, "user_fns", {}):
            return E("app", "R", tuple(cast(self.ev(a), "R") for a in args), name=self.user_fns[f])
        if f in ("spsp.gamma", "special.gamma", "scipy.special.gamma") and len(args) == 1:
            return E("app", "R", (cast(self.ev(args[0]), "R"),), name="Γ")
        raise TranslateError("call %s" % ast.unparse(n))

    # -- statements
    def assign(self, target, value, path):
        if isinstance(target, ast.Tuple):
            if isinstance(value, E) and value.k == "tuple" and len(value.a) == len(target.elts):
                for t, v in zip(target.elts, value.a):
                    self.assign(t, v, path)
            else:
                for t in target.elts:
                    self.assign(t, Opaque("tuple-unpack of non-tuple"), path)
            return
        txt = ast.unparse(target)
        if isinstance(target, ast.Name) and target.id in self.frozen:
            return
        if isinstance(target, ast.Name):
            if isinstance(value, Opaque) and target.id in self.env0:
                # a declared input re-bound to something the translator cannot follow: it stays the declared input
                # symbol ONLY for the known producer statements below (the kernel's inputs are DEFINED as the results
                # of those calls); any other re-binding makes the name opaque, so a kernel that uses it fails to translate
                rhs = getattr(self, "cur_rhs", "")
                if any(re.fullmatch(nm, target.id) and re.fullmatch(pat, rhs) for nm, pat in REBIND_OK):
                    value = self.env0[target.id]
                else:
                    value = Opaque("declared input `%s` re-bound by `%s`" % (target.id, rhs[:60]))
            self.env[target.id] = value
        elif isinstance(target, (ast.Subscript, ast.Attribute)):
            # an element / masked / attribute store changes the value the base name denotes: every later
            # use of that name is no longer the expression bound to it (unless the kernel declares the
            # store as its output slot, see `store_slots`)
            base = target
            while isinstance(base, (ast.Subscript, ast.Attribute)):
                base = base.value
            if isinstance(base, ast.Name) and base.id not in getattr(self, "store_slots", ()):
                self.env[base.id] = Opaque("modified in place by `%s = ...`" % txt)
                self.inplace.append((base.id, txt, tuple(path)))
        self.probes.append((txt, tuple(path), value))

    def try_ev(self, n):
        try:
            return self.ev(n)
        except TranslateError as e:
            return Opaque(str(e))

    def walk(self, body, path):
        self.path = path
        for s in body:
            self.path = path
            if isinstance(s, ast.Assign):
                v = self.try_ev(s.value)
                self.cur_rhs = ast.unparse(s.value)
                for t in s.targets:
                    self.assign(t, v, path)
            elif isinstance(s, ast.AugAssign):
                bop = ast.BinOp(left=s.target, op=s.op, right=s.value)
                ast.copy_location(bop, s)
                ast.fix_missing_locations(bop)
                self.cur_rhs = ast.unparse(bop)
                self.assign(s.target, self.try_ev(bop), path)
            elif isinstance(s, ast.If):
                ttxt = ast.unparse(s.test)
                self.tests.append((tuple(path), ttxt, self.try_ev(s.test)))
                before = dict(self.env)
                self.walk(s.body, path + ["if:" + ttxt])
                env_a = self.env
                self.env = dict(before)
                self.walk(s.orelse, path + ["else:" + ttxt])
                env_b = self.env
                merged = {}
                for k in set(env_a) | set(env_b):
                    va, vb = env_a.get(k), env_b.get(k)
                    if va is vb or (isinstance(va, E) and isinstance(vb, E) and repr(va) == repr(vb)):
                        merged[k] = va
                    elif k not in env_a or k not in env_b:
                        # defined on one path only: any later use is on that path (else Python raises NameError)
                        merged[k] = va if k in env_a else vb
                    elif k in self.env0 and (k, ttxt) in BRANCH_OK:
                        # a declared input given a default in one branch: the kernels are stated on the resolved value
                        merged[k] = self.env0[k]
                    elif k in self.env0:
                        merged[k] = Opaque("declared input `%s` assigned in a branch of `if %s`" % (k, ttxt))
                    else:
                        merged[k] = Opaque("assigned differently in the branches of `if %s`" % ttxt)
                self.env = merged
            elif isinstance(s, ast.For):
                assigned = set()
                for sub in ast.walk(s):
                    if isinstance(sub, (ast.Assign, ast.AugAssign)):
                        ts = sub.targets if isinstance(sub, ast.Assign) else [sub.target]
                        for t in ts:
                            for nm in ast.walk(t):
                                if isinstance(nm, ast.Name) and isinstance(nm.ctx, ast.Store):
                                    assigned.add(nm.id)
                before = dict(self.env)
                idx = ast.unparse(s.target)
                self.env[idx] = var(idx, "N")
                state = {}
                for nm in assigned:
                    old = before.get(nm)
                    ty = old.ty if isinstance(old, E) else None
                    if ty in ("R", "C", "N"):
                        state[nm] = ty
                        self.env[nm] = var(nm + "_in", ty)
                self.walk(s.body, path + ["for:" + idx + " in " + ast.unparse(s.iter)])
                final = {nm: self.env.get(nm) for nm in state}
                # a `continue` / `break` / `return` anywhere in the body makes some iterations skip (part of) the update: the
                # straight-line reading of the body is then not what the loop computes
                jumps = [type(sub).__name__.lower() for sub in ast.walk(s) if isinstance(sub, (ast.Continue, ast.Break, ast.Return))]
                if jumps:
                    final = {nm: Opaque("the loop over %s contains `%s`: its body is not executed as a whole on every iteration" % (idx, jumps[0]))
                             for nm in state}
                self.loops.append(dict(index=idx, iter=ast.unparse(s.iter), state=state, final=final, path=tuple(path)))
                self.env = dict(before)
                for nm in assigned:
                    self.env[nm] = Opaque("assigned in loop over %s" % idx)
            elif isinstance(s, (ast.Expr, ast.Raise, ast.Return, ast.Pass, ast.Import, ast.ImportFrom)):
                if isinstance(s, ast.Return):
                    self.probes.append(("return", tuple(path), self.try_ev(s.value) if s.value else None))
                elif isinstance(s, ast.Expr) and isinstance(s.value, ast.Call):
                    # a call evaluated for its side effect: anything it can reach through its receiver or its
                    # arguments (x.fill(0), x.sort(), np.copyto(x, y), np.multiply(x, 2, out=x), helper(x)) may have
                    # been modified in place.  Logging / warnings are the only calls taken to be pure.
                    ftxt = ast.unparse(s.value.func)
                    if not ftxt.startswith(("logger.", "logging.", "warnings.", "print", "log.")):
                        for sub in ast.walk(s.value):
                            if isinstance(sub, ast.Name) and isinstance(sub.ctx, ast.Load) and sub.id in self.env \
                                    and sub.id not in MODULE_NAMES and sub.id not in self.frozen:
                                self.env[sub.id] = Opaque("possibly modified in place by the call `%s`" % ast.unparse(s.value)[:60])
                                self.inplace.append((sub.id, ast.unparse(s.value)[:80], tuple(path)))
            else:
                # with/try/while...: not part of any kernel; names assigned inside become opaque
                for sub in ast.walk(s):
                    if isinstance(sub, ast.Name) and isinstance(sub.ctx, ast.Store):
                        self.env[sub.id] = Opaque("assigned in unsupported statement")

    def run(self):
        self.walk(self.fn.body, [])
        return self

    # -- queries
    def probe(self, target, path_has=(), path_not=(), which=-1):
        def seg_match(h, seg):
            # "text$" = the whole segment must equal text; otherwise substring
            return seg == h[:-1] if h.endswith("$") else h in seg
        hits = [(t, p, v) for (t, p, v) in self.probes if t == target
                and all(any(seg_match(h, seg) for seg in p) for h in path_has)
                and not any(any(seg_match(h, seg) for seg in p) for h in path_not)]
        if not hits:
            raise TranslateError("no assignment to `%s` found (path %s)" % (target, path_has))
        v = hits[which][2]
        if isinstance(v, Opaque):
            raise TranslateError("`%s`: %s" % (target, v.why))
        if isinstance(v, Arr):
            raise TranslateError("`%s` is an array" % target)
        return v

    def loop(self, state_name):
        for lp in self.loops:
            if state_name in lp["state"]:
                return lp
        raise TranslateError("no loop updating `%s`" % state_name)


def load_fn(path, name):
    tree = ast.parse(open(path).read())
    for n in ast.walk(tree):
        if isinstance(n, ast.FunctionDef) and n.name == name:
            return n
    raise TranslateError("function %s not found in %s" % (name, path))


# ----------------------------------------------------------------- Lean emission

HEADER = """/- GENERATED by tools/extract.py from %s — do not edit.  Regenerated on every run. -/
import BLDFM.Scalar
import BLDFM.Column

namespace BLDFM.Generated

section
variable {R C : Type}
variable [Add R] [Sub R] [Mul R] [Div R] [Neg R] [OfScientific R] [HPow R Nat R]
variable [LT R] [DecidableLT R] [LE R] [DecidableLE R]
variable [Add C] [Sub C] [Mul C] [Div C] [Neg C] [OfScientific C] [HPow C Nat C]

"""
FOOTER = """
end

end BLDFM.Generated
"""

TY = {"N": "Nat", "R": "R", "C": "C", "A": "Nat → R", "G": "R → R", "G1": "R → R", "G2": "R → R → R",
      "G4": "R → R → R → R → R"}


class Group:
    def __init__(self, name, src):
        self.name, self.src = name, src
        self.defs = []
        self.report = {}

    def kernel(self, kname, params, build):
        """params: list of (name, tycode); build: () -> E (may raise TranslateError)"""
        try:
            e = build()
            body = lean(e)
            fv = free_vars(e)
            declared = {p for p, _ in params}
            for v in fv:
                if v not in declared and not v.startswith("F."):
                    raise TranslateError("kernel %s reads `%s`, which is not one of its inputs %s" % (kname, v, sorted(declared)))
            ret = {"N": "Nat", "R": "R", "C": "C", "B": "Bool"}.get(e.ty)
            if e.ty == "B":
                body = "decide " + body
            if e.k == "tuple":
                ret = " × ".join({"N": "Nat", "R": "R", "C": "C"}[x.ty] for x in e.a)
            ps = " ".join("(%s : %s)" % (p, TY[t]) for p, t in params)
            self.defs.append("def %s (F : Fns R C) %s : %s :=\n  %s\n" % (kname, ps, ret, body))
            self.report[kname] = "ok"
        except TranslateError as ex:
            self.report[kname] = "FAILED: %s" % ex
        except Exception as ex:  # noqa: BLE001
            self.report[kname] = "FAILED: internal %r" % (ex,)

    def write_raw(self):
        os.makedirs(OUT, exist_ok=True)
        text = ("/- GENERATED by tools/extract.py from %s — do not edit. -/\nimport BLDFM.Cache\nimport BLDFM.CacheProto\nimport BLDFM.Dtype\nnamespace BLDFM.Generated.Tables\n\n" % self.src
                + "\n".join(self.defs) + "\nend BLDFM.Generated.Tables\n")
        path = os.path.join(OUT, self.name + ".lean")
        old = open(path).read() if os.path.exists(path) else None
        if old != text:
            tmp = path + ".%d.tmp" % os.getpid()
            with open(tmp, "w") as f:
                f.write(text)
            os.replace(tmp, path)

    def write(self):
        os.makedirs(OUT, exist_ok=True)
        text = HEADER % self.src + "\n".join(self.defs) + FOOTER
        # the section variable F is unused by some definitions; silence the linter
        text = text.replace("namespace BLDFM.Generated\n", "namespace BLDFM.Generated\nset_option linter.unusedVariables false\n")
        path = os.path.join(OUT, self.name + ".lean")
        old = open(path).read() if os.path.exists(path) else None
        if old != text:
            tmp = path + ".%d.tmp" % os.getpid()
            with open(tmp, "w") as f:
                f.write(text)
            os.replace(tmp, path)


def prof_arr(name):
    return Arr(lambda i, name=name: E("app", "R", (i,), name=name))


# ----------------------------------------------------------------- kernel groups

def solver_group():
    src = os.path.join(REPO_SRC, "solver.py")
    g = Group("SolverK", "src/bldfm/solver.py")
    profs = {n: prof_arr(n) for n in ("u", "v", "Kx", "Ky", "Kz", "z")}

    # --- ivp_solver loop body
    try:
        fn = load_fn(src, "ivp_solver")
        env = dict(profs)
        env.update(Lx=var("Lx", "R"), Ly=var("Ly", "R"), fftp0=var("p0", "C"), fftq0=var("q0", "C"),
                   nz=var("nz", "N"), nlvls=var("nlvls", "N"))
        aliases = {"len(z)": var("nz", "N"), "len(levels)": var("nlvls", "N"),
                   "np.copy(fftp0)": var("p0", "C"), "np.copy(fftq0)": var("q0", "C"),
                   "profiles": E("tuple", "T", [profs[k] for k in ("u", "v", "Kx", "Ky", "Kz")])}
        ex = Exec(fn, env, aliases).run()
        ivp_exec = ex
    except TranslateError as e:
        ivp_exec = None
        ivp_err = str(e)

    P6 = [("u", "A"), ("v", "A"), ("Kx", "A"), ("Ky", "A"), ("Kz", "A"), ("z", "A")]

    def ivp_body():
        if ivp_exec is None:
            raise TranslateError(ivp_err)
        # the loop that advances the (p, q) pair: find a loop with exactly two complex state variables
        for lp in ivp_exec.loops:
            cs = [n for n, t in lp["state"].items() if t == "C"]
            if len(cs) >= 2 and lp["iter"].replace(" ", "") == "range(nz-1)":
                # order: the pair returned first by the function
                ret = [p for p in ivp_exec.probes if p[0] == "return"]
                order = None
                for nme in ast.walk(ivp_exec.fn):
                    if isinstance(nme, ast.Return) and isinstance(nme.value, ast.Tuple):
                        order = [ast.unparse(x) for x in nme.value.elts[:2]]
                if order is None or not all(o in lp["final"] for o in order):
                    raise TranslateError("cannot identify the (p, q) state of the sweep")
                vals = []
                for o in order:
                    v = lp["final"][o]
                    if not isinstance(v, E):
                        raise TranslateError("loop state %s: %s" % (o, getattr(v, "why", v)))
                    vals.append(v)
                e = E("tuple", "T", vals)
                # rename state inputs to p q
                return rename(e, {order[0] + "_in": "p", order[1] + "_in": "q", lp["index"]: "i"})
        raise TranslateError("sweep loop `for i in range(nz - 1)` with a complex (p, q) state not found")

    g.kernel("ivpBody", P6 + [("Lx", "R"), ("Ly", "R"), ("i", "N"), ("p", "C"), ("q", "C")], ivp_body)

    # --- steady_state_transport_solver
    try:
        fn = load_fn(src, "steady_state_transport_solver")
        env = dict(profs)
        env.update(xmx=var("xmx", "R"), ymx=var("ymx", "R"), nlx=var("nlx", "N"), nly=var("nly", "N"),
                   xm=var("xm", "R"), ym=var("ym", "R"), p000=var("bg", "C"), srf_bg_conc=var("bg", "C"),
                   nx=var("nx", "N"), ny=var("ny", "N"), nz=var("nz", "N"), halo=var("halo", "R"),
                   Lx=var("Lx", "R"), Ly=var("Ly", "R"), tfftq0=var("qh", "C"),
                   ilx=var("fx", "R"), ily=var("fy", "R"), nlvls=var("nlvls", "N"))
        aliases = {"len(z)": var("nz", "N"), "q0.shape": E("tuple", "T", [var("ny", "N"), var("nx", "N")]),
                   "profiles": E("tuple", "T", [profs[k] for k in ("u", "v", "Kx", "Ky", "Kz")]),
                   "domain": E("tuple", "T", [var("xmx", "R"), var("ymx", "R")]),
                   "modes": E("tuple", "T", [var("nlx", "N"), var("nly", "N")]),
                   "meas_pt": E("tuple", "T", [var("xm", "R"), var("ym", "R")]),
                   "tfftq0[0, 0]": var("q00", "C"), "tfftq0[msk]": var("qh", "C"),
                   "np.meshgrid(lx, ly)": E("tuple", "T", [var("Lx", "R"), var("Ly", "R")]),
                   "z[levels]": var("zl", "R"),
                   "h[:, 0]": E("-", "R", (var("zl", "R"), E("app", "R", (num(0),), name="z"))),
                   "(z[levels] - z[0])[:, np.newaxis]": E("-", "R", (var("zl", "R"), E("app", "R", (num(0),), name="z"))),
                   "len(levels)": var("nlvls", "N"),
                   "fftfreq(nlx, d=1.0 / nlx)": var("fx", "R"), "fftfreq(nly, d=1.0 / nly)": var("fy", "R"),
                   }
        # results of the two auxiliary sweeps
        for k, nm in (("1", "1"), ("2", "2")):
            env["tfftp" + k] = var("p" + nm, "C")
            env["tfftq" + k] = var("q" + nm, "C")
            env["tfftpm" + k] = var("pm" + nm, "C")
            env["tfftqm" + k] = var("qm" + nm, "C")
        ex = Exec(fn, env, aliases)
        # keep the halo default out of the size kernels: `halo` stays the symbol after `if halo is None`
        ex.run()
        sol = ex
        sol_err = None
    except TranslateError as e:
        sol, sol_err = None, str(e)

    def sp(target, **kw):
        def f():
            if sol is None:
                raise TranslateError(sol_err)
            return sol.probe(target, **kw)
        return f

    g.kernel("eigval", P6 + [("nz", "N"), ("Lx", "R"), ("Ly", "R")], sp("eigval"))
    g.kernel("alpha", P6 + [("nz", "N"), ("lam", "C"), ("p1", "C"), ("q1", "C"), ("p2", "C"), ("q2", "C")],
             lambda: refreeze(sol, sol_err, "alpha", {"eigval": var("lam", "C")}))
    g.kernel("combineP", [("al", "C"), ("pm1", "C"), ("pm2", "C")],
             lambda: refreeze(sol, sol_err, "tfftp[:, msk]", {"alpha": var("al", "C")}, path_has=("else:analytic",)))
    g.kernel("combineQ", [("al", "C"), ("qm1", "C"), ("qm2", "C")],
             lambda: refreeze(sol, sol_err, "tfftq[:, msk]", {"alpha": var("al", "C")}, path_has=("else:analytic",)))

    def mean_step():
        if sol is None:
            raise TranslateError(sol_err)
        lp = sol.loop("tfftp00")
        if lp["iter"].replace(" ", "") != "range(nz-1)":
            raise TranslateError("mean-mode loop runs over `%s`, not over all nz-1 layers" % lp["iter"])
        v = lp["final"]["tfftp00"]
        if not isinstance(v, E):
            raise TranslateError("mean-mode update: %s" % getattr(v, "why", v))
        return rename(v, {"tfftp00_in": "p00", lp["index"]: "i"})
    g.kernel("meanStep", P6 + [("i", "N"), ("p00", "C"), ("q00", "C")], mean_step)

    g.kernel("anaQ", [("qh", "C"), ("lam", "C"), ("zl", "R")] + P6,
             lambda: refreeze(sol, sol_err, "tfftq[:, msk]", {"eigval": var("lam", "C")}, path_has=("if:analytic",)))
    g.kernel("anaP", [("tq", "C"), ("lam", "C"), ("nz", "N")] + P6,
             lambda: refreeze(sol, sol_err, "tfftp[:, msk]", {"eigval": var("lam", "C")}, path_has=("if:analytic",),
                              extra_aliases={"tfftq[:, msk]": var("tq", "C")}))
    g.kernel("anaMean", [("bg", "C"), ("q00", "C"), ("zl", "R"), ("nz", "N")] + P6,
             sp("tfftp[:, 0, 0]", path_has=("if:analytic",)))
    g.kernel("shiftFootprint", [("Lx", "R"), ("Ly", "R"), ("xm", "R"), ("ym", "R"), ("xmx", "R"), ("ymx", "R"),
                                ("nx", "N"), ("ny", "N"), ("halo", "R")],
             sp("shift", path_has=("if:footprint",), path_not=("analytic",)))
    g.kernel("shiftRecentre", [("Lx", "R"), ("Ly", "R"), ("xm", "R"), ("ym", "R"), ("xmx", "R"), ("ymx", "R")],
             sp("shift", path_has=("else:footprint",), path_not=("analytic",)))

    def recentre_guard():
        if sol is None:
            raise TranslateError(sol_err)
        for (p, t, v) in sol.tests:
            if any("else:footprint" in seg for seg in p) and "xm" in t:
                if isinstance(v, Opaque):
                    raise TranslateError(v.why)
                return v
        raise TranslateError("re-centring guard not found")
    g.kernel("recentreGuard", [("xm", "R"), ("ym", "R")], recentre_guard)

    SZ = [("xmx", "R"), ("ymx", "R"), ("nx", "N"), ("ny", "N"), ("halo", "R")]
    g.kernel("dxK", SZ, sp("dx"))
    g.kernel("dyK", SZ, sp("dy"))
    g.kernel("haloDefault", [("xmx", "R"), ("ymx", "R")], sp("halo", path_has=("if:halo is None",)))
    g.kernel("padX", SZ, sp("px"))
    g.kernel("padY", SZ, sp("py"))
    g.kernel("extX", SZ, sp("nxe"))
    g.kernel("extY", SZ, sp("nye"))
    g.kernel("fpSpectrum", SZ + [("nlx", "N"), ("nly", "N")], sp("tfftq0", path_has=("if:footprint",)))
    g.kernel("waveX", SZ + [("fx", "R")], sp("lx"))
    g.kernel("waveY", SZ + [("fy", "R")], sp("ly"))

    # slices, pads and crops are compared structurally (index expressions)
    def slices():
        if sol is None:
            raise TranslateError(sol_err)
        out = {}
        for n in ast.walk(sol.fn):
            if isinstance(n, ast.Assign):
                t = ast.unparse(n.targets[0])
                v = ast.unparse(n.value)
                if t == "tfftq0" and v.startswith("fftq0["):
                    out["truncSlice"] = v
                if t in ("conc", "flx") and "[" in v:
                    out["crop_" + t] = v
                if t == "pad_width":
                    out["padWidth"] = v
                if t in ("dlx, dly",):
                    out["dl"] = v
                if t in ("p", "q") and ("fft2(" in v):
                    out.setdefault("transform_" + t, []).append(v)
                if t in ("fftp", "fftq", "tfftp", "tfftq", "fftq0", "tfftq0") and ("shift(" in v or "np.pad(" in v):
                    out.setdefault("plumb_" + t, []).append(v)
        return out
    try:
        g.report["_static"] = slices()
    except TranslateError as e:
        g.report["_static"] = "FAILED: %s" % e

    # clamp rule
    def clamp():
        if sol is None:
            raise TranslateError(sol_err)
        for (p, t, v) in sol.tests:
            if "nlx > nxe" in t or "nly > nye" in t:
                return t
        raise TranslateError("clamp test not found")
    try:
        g.report["_clampTest"] = clamp()
    except TranslateError as e:
        g.report["_clampTest"] = "FAILED: %s" % e
    g.write()
    return g


def simple_fn(path, name, params, aliases=None):
    """symbolically execute a straight-line function whose parameters are scalars;
    params: dict python-name -> E.  Returns the Exec (probe "return" for the result)."""
    fn = load_fn(path, name)
    return Exec(fn, params, aliases or {}).run()


def ret_component(ex, k=None):
    v = ex.probe("return")
    if k is None:
        return v
    if v.k != "tuple" or k >= len(v.a):
        raise TranslateError("return value is not a tuple with component %d" % k)
    return v.a[k]


def misc_group():
    g = Group("MiscK", "src/bldfm/utils.py, config_parser.py, plotting/_geo.py")
    # compute_wind_fields
    def wind(k):
        def f():
            ex = simple_fn(os.path.join(REPO_SRC, "utils.py"), "compute_wind_fields",
                           dict(u_rot=var("s", "R"), wind_dir=var("wd", "R")))
            return ret_component(ex, k)
        return f
    g.kernel("windU", [("s", "R"), ("wd", "R")], wind(0))
    g.kernel("windV", [("s", "R"), ("wd", "R")], wind(1))

    def earth_radius():
        tree = ast.parse(open(os.path.join(REPO_SRC, "config_parser.py")).read())
        for n in tree.body:
            if isinstance(n, ast.Assign) and ast.unparse(n.targets[0]) == "_EARTH_RADIUS":
                return num(float(ast.literal_eval(n.value)))
        raise TranslateError("_EARTH_RADIUS not found")

    def ll(k):
        def f():
            ex = simple_fn(os.path.join(REPO_SRC, "config_parser.py"), "latlon_to_xy",
                           dict(lat=var("lat", "R"), lon=var("lon", "R"), ref_lat=var("refLat", "R"), ref_lon=var("refLon", "R"),
                                _EARTH_RADIUS=earth_radius()))
            return ret_component(ex, k)
        return f
    P4 = [("lat", "R"), ("lon", "R"), ("refLat", "R"), ("refLon", "R")]
    g.kernel("ll2x", P4, ll(0))
    g.kernel("ll2y", P4, ll(1))

    def xy(k):
        def f():
            ex = simple_fn(os.path.join(REPO_SRC, "plotting", "_geo.py"), "xy_to_latlon",
                           dict(x=var("x", "R"), y=var("y", "R"), ref_lat=var("refLat", "R"), ref_lon=var("refLon", "R")))
            return ret_component(ex, k)
        return f
    Q4 = [("x", "R"), ("y", "R"), ("refLat", "R"), ("refLon", "R")]
    g.kernel("xy2lat", Q4, xy(0))
    g.kernel("xy2lon", Q4, xy(1))

    # source-area base functions (element-wise in X, Y)
    def base(name, has_wind):
        def f():
            env = dict(X=var("x", "R"), Y=var("y", "R"))
            al = {"meas_pt": E("tuple", "T", [var("xm", "R"), var("ym", "R")])}
            if has_wind:
                al["wind"] = E("tuple", "T", [var("u", "R"), var("v", "R")])
            ex = simple_fn(os.path.join(REPO_SRC, "utils.py"), name, env, al)
            return ret_component(ex)
        return f
    B4 = [("x", "R"), ("y", "R"), ("xm", "R"), ("ym", "R")]
    g.kernel("baseCircular", B4, base("source_area_circular", False))
    g.kernel("baseUpwind", B4 + [("u", "R"), ("v", "R")], base("source_area_upwind", True))
    g.kernel("baseCrosswind", B4 + [("u", "R"), ("v", "R")], base("source_area_crosswind", True))
    g.kernel("baseSector", B4 + [("u", "R"), ("v", "R")], base("source_area_sector", True))

    # TowerConfig.compute_local_xy forwards (lat, lon, ref_lat, ref_lon) in this order
    try:
        tree = ast.parse(open(os.path.join(REPO_SRC, "config_parser.py")).read())
        call = None
        for n in ast.walk(tree):
            if isinstance(n, ast.FunctionDef) and n.name == "compute_local_xy":
                for s_ in n.body:
                    if isinstance(s_, ast.Assign):
                        call = (ast.unparse(s_.targets[0]), ast.unparse(s_.value))
        g.report["_static"] = {"compute_local_xy": call}
    except Exception as e:  # noqa: BLE001
        g.report["_static"] = "FAILED: %r" % (e,)
    g.write()
    return g


def pbl_group():
    src = os.path.join(REPO_SRC, "pbl_model.py")
    g = Group("PblK", "src/bldfm/pbl_model.py")

    def fn1(name):
        def f():
            ex = simple_fn(src, name, dict(x=var("x", "R")))
            return ret_component(ex)
        return f
    g.kernel("psi", [("x", "R")], fn1("psi"))
    g.kernel("phi", [("x", "R")], fn1("phi"))

    # vertical_profiles: psi/phi calls stay symbolic applications of the generated psi/phi
    try:
        fn = load_fn(src, "vertical_profiles")
        env = dict(n=var("n", "N"), meas_height=var("zm", "R"), ustar=var("ustar", "R"), z0=var("z0", "R"),
                   mol=var("mol", "R"), prsc=var("prsc", "R"), domain_height=var("dh", "R"), stretch=var("st", "R"),
                   tke=var("tke", "R"))
        aliases = {"wind": E("tuple", "T", [var("um", "R"), var("vm", "R")])}
        ex = Exec(fn, env, aliases)
        ex.user_fns = {"psi": "psiG", "phi": "phiG"}
        ex.run()
        vp, vp_err = ex, None
    except TranslateError as e:
        vp, vp_err = None, str(e)

    def vq(target, **kw):
        def f():
            if vp is None:
                raise TranslateError(vp_err)
            return vp.probe(target, **kw)
        return f
    MOSTF = "if:closure == 'CONSTANT' or closure == 'MOST' or closure == 'MOSTM'$"
    BASE = [("zm", "R"), ("um", "R"), ("vm", "R"), ("ustar", "R"), ("z0", "R"), ("mol", "R"), ("prsc", "R"),
            ("dh", "R"), ("st", "R"), ("tke", "R"), ("n", "N"), ("zeta", "R"), ("psiG", "G"), ("phiG", "G")]
    g.kernel("absum", BASE, vq("absum", which=0))
    g.kernel("z0FromUstar", BASE, vq("z0", path_has=(MOSTF, "if:z0 is None$")))
    g.kernel("ustarFromZ0", BASE, vq("ustar", path_has=(MOSTF, "if:ustar is None$")))
    g.kernel("z0Oaahoc", BASE, vq("z0", path_has=("if:closure == 'OAAHOC'$",), path_not=("if:closure == 'MOSTM'$",), which=0))
    g.kernel("hDefault", BASE, vq("h", path_has=("if:stretch is None$",)))
    g.kernel("zmxDefault", BASE, vq("zmx", path_has=("if:domain_height is None$",)))

    # the grid: evaluated with (z0, ustar, h, zmx) as the resolved input symbols
    def grid(target, freeze_z=False, **kw):
        def f():
            if vp is None:
                raise TranslateError(vp_err)
            env = dict(vp.env0)
            env.update(h=var("h", "R"), zmx=var("zmx", "R"))
            fr = {"h", "zmx", "z0", "ustar", "tke"}
            if freeze_z:
                env["z"] = var("zk", "R")
                fr.add("z")
            e2 = Exec(vp.fn, env, vp.aliases, frozen=fr)
            e2.user_fns = {"psi": "psiG", "phi": "phiG"}
            e2.run()
            return e2.probe(target, **kw)
        return f
    GR = [("zm", "R"), ("um", "R"), ("vm", "R"), ("ustar", "R"), ("z0", "R"), ("mol", "R"), ("prsc", "R"),
          ("h", "R"), ("zmx", "R"), ("tke", "R"), ("n", "N"), ("zeta", "R"), ("psiG", "G"), ("phiG", "G")]
    g.kernel("gridBB", GR, grid("bb"))
    g.kernel("gridAA", GR, grid("aa"))
    g.kernel("gridZetaMax", GR, grid("zetamx"))
    g.kernel("dzeta", GR, grid("dzeta"))
    g.kernel("arange", GR, grid("arange"))
    g.kernel("gridZ", GR, grid("z"))
    for clo, tag in (("Const", "if:closure == 'CONSTANT'$"), ("Most", "if:closure == 'MOST'$"),
                     ("Mostm", "if:closure == 'MOSTM'$"), ("Oaahoc", "if:closure == 'OAAHOC'$")):
        for nm in ("u", "v", "Kx", "Ky", "Kz"):
            # second if-chain (profiles): the first chain (closure parameters) does not assign u, v, K*
            g.kernel("%s%s" % (nm, clo), GR + [("zk", "R")], grid(nm, freeze_z=True, path_has=(tag,), which=-1))
    # structure of the argument checks
    try:
        st = {}
        for (p, t, v) in (vp.tests if vp else []):
            st.setdefault("tests", []).append(t)
        raises = []
        for nd in ast.walk(vp.fn):
            if isinstance(nd, ast.Raise):
                raises.append(ast.unparse(nd.exc)[:60])
        st["raises"] = raises
        g.report["_static"] = st
    except Exception as e:  # noqa: BLE001
        g.report["_static"] = "FAILED: %r" % (e,)
    g.write()
    return g


def tables_group():
    """static extracts consumed by `decide`-style bridge theorems"""
    g = Group("Tables", "src/bldfm/config_parser.py, interface.py, cache.py, solver.py (static extracts)")
    lines = []

    def lean_strs(xs):
        return "[" + ", ".join('"%s"' % x.replace('"', "'") for x in xs) + "]"
    # C16: fields inspected by n_timesteps / validate
    try:
        tree = ast.parse(open(os.path.join(REPO_SRC, "config_parser.py")).read())
        met = [n for n in ast.walk(tree) if isinstance(n, ast.ClassDef) and n.name == "MetConfig"][0]
        fns = {n.name: n for n in met.body if isinstance(n, ast.FunctionDef)}

        def attrs_in(fn):
            out = []
            for n in ast.walk(fn):
                if isinstance(n, ast.Attribute) and isinstance(n.value, ast.Name) and n.value.id == "self" and n.attr not in out:
                    out.append(n.attr)
                if isinstance(n, ast.Constant) and isinstance(n.value, str) and n.value in ("ustar", "mol", "wind_speed", "wind_dir") and n.value not in out:
                    out.append(n.value)
            return out
        nt = [a for a in attrs_in(fns["n_timesteps"]) if a in ("ustar", "mol", "wind_speed", "wind_dir")]
        va = [a for a in attrs_in(fns["validate"]) if a in ("ustar", "mol", "wind_speed", "wind_dir", "z0", "timestamps")]
        lines.append("def metFieldsNTimesteps : List String := %s" % lean_strs(sorted(nt)))
        lines.append("def metFieldsValidate : List String := %s" % lean_strs(sorted(va)))
        g.report["metFields"] = "ok"
    except Exception as e:  # noqa: BLE001
        g.report["metFields"] = "FAILED: %r" % (e,)
    # C10: level bookkeeping pattern of the two loops (store by position vs running counter)
    try:
        tree = ast.parse(open(os.path.join(REPO_SRC, "solver.py")).read())
        pat = []
        for fn in ast.walk(tree):
            if isinstance(fn, ast.FunctionDef) and fn.name in ("ivp_solver", "steady_state_transport_solver"):
                for n in ast.walk(fn):
                    if isinstance(n, ast.If):
                        t = ast.unparse(n.test).replace(" ", "")
                        if t in ("levels[lvl]==i", "levels[lvl]==nz-1", "i==levels[lvl]", "nz-1==levels[lvl]"):
                            pat.append("by-position")
                        elif "inlevels" in t:
                            pat.append("membership+counter")
        lines.append("def levelStorePattern : List String := %s" % lean_strs(sorted(set(pat))))
        lines.append("def levelStoreSites : Nat := %d" % len(pat))
        g.report["levelStore"] = "ok"
    except Exception as e:  # noqa: BLE001
        g.report["levelStore"] = "FAILED: %r" % (e,)
    # C19: the direction-window smoothing of estimateZ0 (statement text)
    try:
        ktree = ast.parse(open(os.path.join(REPO_SRC, "ffm_kormann_meixner.py")).read())
        ez = [n for n in ast.walk(ktree) if isinstance(n, ast.FunctionDef) and n.name == "estimateZ0"][0]
        loop = [n for n in ez.body if isinstance(n, ast.For)]
        txt = []
        for st in ez.body:
            if isinstance(st, ast.Expr) and isinstance(st.value, ast.Constant):
                continue
            txt.extend(l.strip() for l in ast.unparse(st).split("\n"))
        lines.append("def estimateZ0Steps : List String := %s" % lean_strs(txt))
        g.report["estimateZ0Steps"] = "ok"
    except Exception as e:  # noqa: BLE001
        g.report["estimateZ0Steps"] = "FAILED: %r" % (e,)
    # C08/C17: the guard under which tower coordinates are converted (`is not None`, not truthiness)
    try:
        ctree3 = ast.parse(open(os.path.join(REPO_SRC, "config_parser.py")).read())
        pi = [n for n in ast.walk(ctree3) if isinstance(n, ast.FunctionDef) and n.name == "__post_init__"][0]
        guards = [ast.unparse(n.test) for n in ast.walk(pi) if isinstance(n, ast.If)]
        calls3 = [ast.unparse(n) for n in ast.walk(pi) if isinstance(n, ast.Call) and "compute_local_xy" in ast.unparse(n.func)]
        clx = [n for n in ast.walk(ctree3) if isinstance(n, ast.FunctionDef) and n.name == "compute_local_xy"][0]
        lines.append("def towerLocalXY : List String := %s" % lean_strs(guards + calls3 + [ast.unparse(x) for x in clx.body if not (isinstance(x, ast.Expr) and isinstance(x.value, ast.Constant))]))
        g.report["towerLocalXY"] = "ok"
    except Exception as e:  # noqa: BLE001
        g.report["towerLocalXY"] = "FAILED: %r" % (e,)
    # C14: statement structure of the serial and parallel drivers (canonical text, docstrings and logging dropped)
    try:
        itree2 = ast.parse(open(os.path.join(REPO_SRC, "interface.py")).read())

        def body_lines(fn):
            out = []

            def rec(body, depth):
                for st in body:
                    if isinstance(st, ast.Expr) and isinstance(st.value, ast.Constant):
                        continue
                    if isinstance(st, ast.Expr) and isinstance(st.value, ast.Call) and ast.unparse(st.value.func).startswith("logger."):
                        continue
                    if isinstance(st, (ast.If, ast.For, ast.With, ast.While, ast.Try)):
                        head = ast.unparse(st).split("\n")[0]
                        out.append("  " * depth + head)
                        rec(st.body, depth + 1)
                        if getattr(st, "orelse", None):
                            out.append("  " * depth + "else:")
                            rec(st.orelse, depth + 1)
                    else:
                        out.append("  " * depth + ast.unparse(st).replace("\n", " "))
            rec(fn.body, 0)
            return out
        for name in ("run_bldfm_timeseries", "run_bldfm_multitower", "_worker_single", "_worker_timeseries", "run_bldfm_parallel", "_make_cache"):
            fn = [n for n in ast.walk(itree2) if isinstance(n, ast.FunctionDef) and n.name == name][0]
            lines.append("def driver_%s : List String := %s" % (name.strip("_"), lean_strs(body_lines(fn))))
        g.report["driverTables"] = "ok"
    except Exception as e:  # noqa: BLE001
        g.report["driverTables"] = "FAILED: %r" % (e,)
    # C11 / C06: the array plumbing of the solver (slices, pads, shifts, transforms, crop), as text
    try:
        stree2 = ast.parse(open(os.path.join(REPO_SRC, "solver.py")).read())
        sfn2 = [n for n in ast.walk(stree2) if isinstance(n, ast.FunctionDef) and n.name == "steady_state_transport_solver"][0]
        plumb = []
        for n in ast.walk(sfn2):
            if isinstance(n, (ast.Assign, ast.AugAssign)):
                tg = n.targets[0] if isinstance(n, ast.Assign) else n.target
                t = ast.unparse(tg)
                v = ast.unparse(n.value) if isinstance(n, ast.Assign) else "%s= %s" % (type(n.op).__name__, ast.unparse(n.value))
                # every in-place (element, slice or masked) store of the function is plumbing
                if any(k in v for k in ("fftshift(", "ifftshift(", "np.pad(", "fft2(", "ifft2(", "np.linspace(", "np.meshgrid(", "np.squeeze(")) or \
                        t in ("conc", "flx", "pad_width", "dlx, dly", "tfftq0") or isinstance(tg, (ast.Subscript, ast.Attribute)):
                    plumb.append((t, v))
        # statements evaluated for their side effect only (x.fill(..), np.copyto(..), out= calls): none in the pinned source;
        # logging and warnings are the only calls taken to be pure
        for n in ast.walk(sfn2):
            if isinstance(n, ast.Expr) and isinstance(n.value, ast.Call):
                ftxt = ast.unparse(n.value.func)
                if not ftxt.startswith(("logger.", "logging.", "warnings.", "print", "log.")):
                    plumb.append(("<side-effect call>", ast.unparse(n.value)))
            if isinstance(n, (ast.Delete, ast.Global, ast.Nonlocal, ast.With, ast.While, ast.Try)):
                plumb.append(("<%s>" % type(n).__name__, ast.unparse(n).split("\n")[0]))
        plumb.sort()
        lines.append("def solverPlumbing : List (String × String) := [%s]" % ", ".join('("%s", "%s")' % (a.replace('"', "'"), b.replace('"', "'")) for a, b in plumb))
        g.report["solverPlumbing"] = "ok"
    except Exception as e:  # noqa: BLE001
        g.report["solverPlumbing"] = "FAILED: %r" % (e,)
    # C12: process-global mutable state on the solve path (module-level singletons, `global` statements,
    # mutable closure cells and mutable default arguments)
    try:
        found = []
        for fname in ("solver.py", "utils.py", "fft_manager.py", "config.py", "cache.py", "pbl_model.py"):
            t = ast.parse(open(os.path.join(REPO_SRC, fname)).read())
            for n in t.body:
                if isinstance(n, ast.Assign):
                    for tg in n.targets:
                        nm = ast.unparse(tg)
                        v = n.value
                        mutable = isinstance(v, (ast.Dict, ast.List, ast.Set)) or (isinstance(v, ast.Call) and ast.unparse(v.func) in ("dict", "list", "set"))
                        if fname == "config.py" or mutable or (isinstance(v, ast.Constant) and v.value is None):
                            found.append("%s:%s" % (fname, nm))
            for n in ast.walk(t):
                if isinstance(n, ast.Global):
                    for nm in n.names:
                        found.append("%s:global %s" % (fname, nm))
                if isinstance(n, ast.FunctionDef):
                    for dflt in n.args.defaults + [d for d in n.args.kw_defaults if d is not None]:
                        if isinstance(dflt, (ast.Dict, ast.List, ast.Set)):
                            found.append("%s:%s mutable default" % (fname, n.name))
                    # mutable cells captured by a nested function (memo tables)
                    inner = [m for m in n.body if isinstance(m, ast.FunctionDef)]
                    if inner:
                        for m in n.body:
                            if isinstance(m, ast.Assign) and isinstance(m.value, (ast.Dict, ast.List, ast.Set)):
                                found.append("%s:%s.%s closure cell" % (fname, n.name, ast.unparse(m.targets[0])))
                if isinstance(n, ast.Attribute) and ast.unparse(n) in ("pyfftw.config.NUM_THREADS",) and isinstance(n.ctx, ast.Store):
                    found.append("%s:writes pyfftw.config.NUM_THREADS" % fname)
                if isinstance(n, ast.Call) and ast.unparse(n.func) in ("set_num_threads", "numba.set_num_threads"):
                    found.append("%s:calls set_num_threads" % fname)
        lines.append("def globalState : List String := %s" % lean_strs(sorted(set(found))))
        g.report["globalState"] = "ok"
    except Exception as e:  # noqa: BLE001
        g.report["globalState"] = "FAILED: %r" % (e,)
    # C13: keyword -> expression tables of run_bldfm_single (local names inlined)
    try:
        itree = ast.parse(open(os.path.join(REPO_SRC, "interface.py")).read())
        fn = [n for n in ast.walk(itree) if isinstance(n, ast.FunctionDef) and n.name == "run_bldfm_single"][0]
        env = {}

        class Inl(ast.NodeTransformer):
            def visit_Name(self, node):
                if isinstance(node.ctx, ast.Load) and node.id in env:
                    return env[node.id]
                return node

        def inl(node):
            import copy
            return ast.unparse(Inl().visit(copy.deepcopy(node)))
        tables = {}
        params = [a.arg for a in fn.args.args]

        def walk(body, path):
            for st in body:
                if isinstance(st, ast.Assign) and len(st.targets) == 1:
                    t = st.targets[0]
                    if isinstance(st.value, ast.Call) and ast.unparse(st.value.func) in (
                            "vertical_profiles", "ideal_source", "steady_state_transport_solver"):
                        call = st.value
                        name = ast.unparse(call.func) + ("@" + "/".join(path) if path else "")
                        tables[name] = [("%d" % i, inl(a)) for i, a in enumerate(call.args)] + [(kw.arg, inl(kw.value)) for kw in call.keywords]
                        continue
                    if isinstance(t, ast.Name) and not path and t.id not in params:
                        import copy
                        env[t.id] = ast.parse(inl(st.value), mode="eval").body
                    elif isinstance(t, ast.Tuple) and not path and isinstance(st.value, ast.Call):
                        for k, e in enumerate(t.elts):
                            if isinstance(e, ast.Name):
                                env[e.id] = ast.parse("%s[%d]" % (inl(st.value), k), mode="eval").body
                    elif isinstance(t, ast.Name) and path:
                        tables.setdefault("assign@" + "/".join(path), []).append((t.id, inl(st.value)))
                elif isinstance(st, ast.If):
                    test = inl(st.test)
                    walk(st.body, path + ["if " + test])
                    walk(st.orelse, path + ["else " + test])
                elif isinstance(st, ast.Return) and isinstance(st.value, ast.Dict):
                    tables["return"] = [(ast.literal_eval(k), inl(v)) for k, v in zip(st.value.keys, st.value.values)]
        walk(fn.body, [])

        def lean_pairs(ps):
            return "[" + ", ".join('("%s", "%s")' % (a.replace('"', "'"), b.replace('"', "'")) for a, b in ps) + "]"
        for name in sorted(tables):
            ident = "single_" + "".join(ch if ch.isalnum() else "_" for ch in name)
            lines.append("def %s : List (String × String) := %s" % (ident, lean_pairs(tables[name])))
        g.report["singleTables"] = "ok"
        g.report["_singleTables"] = {k: v for k, v in tables.items()}
        # load_config = parse_config_dict(yaml.safe_load(f))
        lc = [n for n in ast.walk(ast.parse(open(os.path.join(REPO_SRC, "config_parser.py")).read()))
              if isinstance(n, ast.FunctionDef) and n.name == "load_config"][0]
        body = [ast.unparse(x).replace("\n", " ") for x in lc.body if not (isinstance(x, ast.Expr) and isinstance(x.value, ast.Constant))]
        lines.append("def loadConfigBody : List String := %s" % lean_strs(body))
    except Exception as e:  # noqa: BLE001
        g.report["singleTables"] = "FAILED: %r" % (e,)
    # C15: cache key fields, halo resolution at the two call sites, write protocol, guarded load
    try:
        ctree = ast.parse(open(os.path.join(REPO_SRC, "cache.py")).read())
        cls = [n for n in ast.walk(ctree) if isinstance(n, ast.ClassDef) and n.name == "GreensFunctionCache"][0]
        cf = {n.name: n for n in cls.body if isinstance(n, ast.FunctionDef)}
        ck = cf["_compute_key"]
        params = [a.arg for a in ck.args.args if a.arg != "self"]
        hashed = set()
        loop_alias = {}
        for n in ast.walk(ck):
            if isinstance(n, ast.For) and isinstance(n.iter, ast.Name):
                loop_alias[ast.unparse(n.target)] = n.iter.id
        extra_names = []
        for n in ast.walk(ck):
            if isinstance(n, ast.Assign) and isinstance(n.targets[0], ast.Tuple) and ast.unparse(n.value) == "extra":
                extra_names = [ast.unparse(e) for e in n.targets[0].elts]
        for n in ast.walk(ck):
            if isinstance(n, ast.Call) and ast.unparse(n.func).endswith(".update"):
                for nm in ast.walk(n):
                    if isinstance(nm, ast.Name):
                        hashed.add(loop_alias.get(nm.id, nm.id))
        pos_fields = {"z": "z", "profiles": "profiles", "domain": "domain", "modes": "modes", "meas_pt": "measPt",
                      "halo": "halo", "precision": "precision"}
        key_fields = [pos_fields[p_] for p_ in params if p_ in pos_fields and p_ in hashed]
        key_params = list(params)
        # call sites in the solver
        stree = ast.parse(open(os.path.join(REPO_SRC, "solver.py")).read())
        sfn = [n for n in ast.walk(stree) if isinstance(n, ast.FunctionDef) and n.name == "steady_state_transport_solver"][0]
        extra_at_site = None
        resolved_names = set()
        halo_resolution_line = None
        calls = {}
        for n in ast.walk(sfn):
            if isinstance(n, ast.Assign):
                t = ast.unparse(n.targets[0])
                v = ast.unparse(n.value)
                if "max(" in v and "halo" in v and "None" in v:
                    resolved_names.add(t)
                if isinstance(n.value, ast.Tuple) and t.startswith("cache"):
                    extra_at_site = [ast.unparse(e) for e in n.value.elts]
            if isinstance(n, ast.If) and ast.unparse(n.test) == "halo is None":
                halo_resolution_line = n.lineno
            if isinstance(n, ast.Call) and ast.unparse(n.func) in ("cache.get", "cache.put"):
                calls[ast.unparse(n.func)] = n
        def halo_resolved(call):
            arg = ast.unparse(call.args[5])
            if arg in resolved_names:
                return True
            return arg == "halo" and halo_resolution_line is not None and call.lineno > halo_resolution_line
        def has_extra(call):
            return any(kw.arg == "extra" for kw in call.keywords)
        site_map = {"levels": "levels", "np.shape(srf_flx)": "shape", "srf_flx.shape": "shape", "q0.shape": "shape",
                    "analytic": "analytic", "srf_bg_conc": "bg", "p000": "bg"}
        if extra_names and extra_at_site and has_extra(calls["cache.get"]) and has_extra(calls["cache.put"]) and "extra" in params:
            for nm, site in zip(extra_names, extra_at_site):
                if nm in hashed and site in site_map:
                    key_fields.append(site_map[site])
        # the positional arguments at both call sites must be the solver's own parameters (the halo may be the
        # resolved name): a field whose slot is fed by anything else is NOT a key field
        def site_args(call):
            return [ast.unparse(a) for a in call.args]
        solver_name = {"z": "z", "profiles": "profiles", "domain": "domain", "modes": "modes", "meas_pt": "meas_pt",
                       "halo": "halo", "precision": "precision"}
        for cname in ("cache.get", "cache.put"):
            sa = site_args(calls[cname])
            for idx, p_ in enumerate([q for q in key_params if q in pos_fields]):
                if idx >= len(sa):
                    continue
                ok_ = sa[idx] == solver_name[p_] or (p_ == "halo" and sa[idx] in resolved_names)
                if not ok_ and pos_fields[p_] in key_fields:
                    key_fields.remove(pos_fields[p_])
        # the call sites and the definitions of the derived names they use, as text
        defs_used = []
        for n in ast.walk(sfn):
            if isinstance(n, ast.Assign):
                t = ast.unparse(n.targets[0])
                if t in resolved_names or t.startswith("cache") or any(t == a for cn in calls.values() for a in site_args(cn)):
                    if t not in ("cached",):
                        defs_used.append("%s = %s" % (t, ast.unparse(n.value)))
        site_lines = sorted(set(defs_used)) + ["%s(%s)" % (cn, ", ".join(site_args(calls[cn]) + ["%s=%s" % (kw.arg, ast.unparse(kw.value)) for kw in calls[cn].keywords]))
                                               for cn in ("cache.get", "cache.put")]
        lines.append("def cacheCallSites : List String := %s" % lean_strs(site_lines))
        put = cf["put"]
        atomic = any(isinstance(n, ast.Call) and ast.unparse(n.func) in ("os.replace", "os.rename") for n in ast.walk(put))
        get = cf["get"]
        guarded = False
        for n in ast.walk(get):
            if isinstance(n, ast.Try):
                if any(isinstance(m, ast.Call) and ast.unparse(m.func) in ("np.load", "numpy.load") for m in ast.walk(n)):
                    guarded = True
        cfgd = dict(keyFields=key_fields, haloResolvedAtGet=bool(halo_resolved(calls["cache.get"])),
                    haloResolvedAtPut=bool(halo_resolved(calls["cache.put"])), atomicWrite=bool(atomic), guardedLoad=bool(guarded))
        lines.append("def cacheCfg : BLDFM.CacheCfg := { keyFields := [%s], haloResolvedAtGet := %s, haloResolvedAtPut := %s, atomicWrite := %s, guardedLoad := %s }" % (
            ", ".join(".%s" % f for f in key_fields), str(cfgd["haloResolvedAtGet"]).lower(), str(cfgd["haloResolvedAtPut"]).lower(),
            str(atomic).lower(), str(guarded).lower()))
        g.report["cacheCfg"] = "ok"
        g.report["_cacheCfg"] = cfgd
        # C15 (concurrency): the write protocol as seen by OTHER processes sharing the directory
        rep_calls = [n for n in ast.walk(put) if isinstance(n, ast.Call) and ast.unparse(n.func) in ("os.replace", "os.rename")]
        temp_per_process = False
        if rep_calls:
            src_name = ast.unparse(rep_calls[0].args[0])
            for n in ast.walk(put):
                if isinstance(n, ast.Assign) and ast.unparse(n.targets[0]) == src_name:
                    v = ast.unparse(n.value)
                    if any(t in v for t in ("getpid()", "uuid", "mkstemp", "NamedTemporaryFile", "token_hex")):
                        temp_per_process = True
        destructive = ("unlink", "remove", "rmtree", "rmdir", "rename", "replace", "clear", "truncate", "write_bytes", "write_text")
        removes = False
        for fname in ("__init__", "get", "_compute_key"):
            for n in ast.walk(cf[fname]):
                if isinstance(n, ast.Call) and isinstance(n.func, ast.Attribute) and n.func.attr in destructive:
                    removes = True
        lines.append("def protoCfg : BLDFM.ProtoCfg := { atomicWrite := %s, tempPerProcess := %s, initRemovesTemps := %s, guardedLoad := %s }" % (
            str(atomic).lower(), str(temp_per_process).lower(), str(removes).lower(), str(guarded).lower()))
        g.report["protoCfg"] = "ok"
    except Exception as e:  # noqa: BLE001
        g.report["cacheCfg"] = "FAILED: %r" % (e,)
    # C20: the statement sequences of get_source_area and extract_percentile_contour (canonical text)
    try:
        def body_text(path, name):
            fn = load_fn(path, name)
            out = []
            for st in fn.body:
                if isinstance(st, ast.Expr) and isinstance(st.value, ast.Constant):
                    continue  # docstring
                out.append(ast.unparse(st).replace("\n", " "))
            return out
        lines.append("def sourceAreaSteps : List String := %s" % lean_strs(body_text(os.path.join(REPO_SRC, "utils.py"), "get_source_area")))
        lines.append("def percentileSteps : List String := %s" % lean_strs(
            body_text(os.path.join(REPO_SRC, "plotting", "footprint.py"), "extract_percentile_contour")))
        g.report["sourceAreaSteps"] = "ok"
    except Exception as e:  # noqa: BLE001
        g.report["sourceAreaSteps"] = "FAILED: %r" % (e,)
    # C19 / C20 dtype clause: how the masked-store helpers allocate their results
    try:
        ktree = ast.parse(open(os.path.join(REPO_SRC, "ffm_kormann_meixner.py")).read())
        allocs = []
        for fn in ktree.body:
            if isinstance(fn, ast.FunctionDef) and fn.name in ("_phiM", "_phiC", "_psiM", "_nParam"):
                kinds = []
                for n in ast.walk(fn):
                    if isinstance(n, ast.Call) and ast.unparse(n.func) in ("np.zeros_like", "np.empty_like", "np.ones_like", "np.full_like", "np.zeros", "np.empty"):
                        fl = any(kw.arg == "dtype" and ast.unparse(kw.value) in ("float", "np.float64", "np.double", "'float64'", "'float'") for kw in n.keywords)
                        if ast.unparse(n.func) in ("np.zeros", "np.empty"):
                            fl = not any(kw.arg == "dtype" for kw in n.keywords) or fl
                        kinds.append(fl)
                allocs.append((fn.name, bool(kinds) and all(kinds)))
        lines.append("def kmAlloc : List (String × BLDFM.AllocKind) := [%s]" % ", ".join('("%s", %s)' % (n, ".float" if f else ".inherit") for n, f in allocs))
        sfn = load_fn(os.path.join(REPO_SRC, "utils.py"), "get_source_area")
        sa = []
        for n in ast.walk(sfn):
            if isinstance(n, ast.Assign) and isinstance(n.value, ast.Call) and ast.unparse(n.value.func) in ("np.empty_like", "np.zeros_like"):
                tgt = ast.unparse(n.targets[0])
                arg0 = ast.unparse(n.value.args[0]) if n.value.args else ""
                dk = [ast.unparse(kw.value) for kw in n.value.keywords if kw.arg == "dtype"]
                # fixed = the result type does not come from the base field g
                fixed = ("g" not in re.findall(r"[A-Za-z_]+", arg0)[0:1] and not arg0.startswith("g")) or (bool(dk) and not any(re.match(r"g(_|\\b)", d) for d in dk))
                sa.append((tgt, fixed))
        lines.append("def sourceAreaAlloc : List (String × BLDFM.AllocKind) := [%s]" % ", ".join('("%s", %s)' % (n, ".float" if f else ".inherit") for n, f in sa))
        g.report["allocTables"] = "ok"
    except Exception as e:  # noqa: BLE001
        g.report["allocTables"] = "FAILED: %r" % (e,)
    g.defs = [l + "\n" for l in lines]
    g.write_raw()
    return g


def km_group():
    src = os.path.join(REPO_SRC, "ffm_kormann_meixner.py")
    g = Group("KMK", "src/bldfm/ffm_kormann_meixner.py")
    vk = None
    tree = ast.parse(open(src).read())
    for n in tree.body:
        if isinstance(n, ast.Assign) and ast.unparse(n.targets[0]) == "von_karman":
            vk = num(float(ast.literal_eval(n.value)))

    def helper(name, target, params):
        """masked two-branch helper: target[sflag] = a  (sflag = cond0);  target[sflag] = b  (sflag = cond1)"""
        def f():
            env = dict(params)
            env["von_karman"] = vk
            ex = Exec(load_fn(src, name), env)
            ex.user_fns = {"_phiM": "phiMG"}
            ex.run()
            conds = [v for (t, p, v) in ex.probes if t == "sflag"]
            vals = [v for (t, p, v) in ex.probes if t == target + "[sflag]"]
            if len(conds) != 2 or len(vals) != 2:
                raise TranslateError("%s: expected two masked assignments, found %d/%d" % (name, len(conds), len(vals)))
            for v in conds + vals:
                if not isinstance(v, E):
                    raise TranslateError("%s: %s" % (name, getattr(v, "why", v)))
            init = ex.probe(target, which=0)
            return E("ite", "R", (conds[0], cast(vals[0], "R"), E("ite", "R", (conds[1], cast(vals[1], "R"), cast(init, "R")))))
        return f
    ZL = dict(zm=var("zm", "R"), mo_len=var("L", "R"))
    g.kernel("phiM", [("zm", "R"), ("L", "R")], helper("_phiM", "phi_m", ZL))
    g.kernel("phiC", [("zm", "R"), ("L", "R")], helper("_phiC", "phi_c", ZL))
    g.kernel("psiM", [("zm", "R"), ("L", "R")], helper("_psiM", "psi_m", ZL))
    g.kernel("nParam", [("zm", "R"), ("L", "R")], helper("_nParam", "n", ZL))

    def m_param():
        env = dict(zm=var("zm", "R"), ws=var("ws", "R"), ustar=var("ustar", "R"), mo_len=var("L", "R"), von_karman=vk)
        ex = Exec(load_fn(src, "_mParam"), env)
        ex.user_fns = {"_phiM": "phiMG"}
        ex.run()
        return ret_component(ex)
    g.kernel("mParam", [("zm", "R"), ("ws", "R"), ("ustar", "R"), ("L", "R"), ("phiMG", "G2")], m_param)

    # estimateFootprint
    try:
        env = dict(zm=var("zm", "R"), z0=var("z0", "R"), ws=var("ws", "R"), ustar=var("ustar", "R"), mo_len=var("L", "R"),
                   sigma_v=var("sigmaV", "R"), grid_res=var("res", "R"), von_karman=vk, wd=var("wd", "R"),
                   grid_x=var("gx", "R"), grid_y=var("gy", "R"))
        ex = Exec(load_fn(src, "estimateFootprint"), env, {"tuple(grid_domain)": E("tuple", "T", [var("xmin", "R"), var("xmax", "R"), var("ymin", "R"), var("ymax", "R")])})
        ex.user_fns = {"_phiM": "phiMG", "_phiC": "phiCG", "_psiM": "psiMG", "_mParam": "mG", "_nParam": "nG"}
        ex.run()
        ef, ef_err = ex, None
    except TranslateError as e:
        ef, ef_err = None, str(e)

    def eq(target, frozen=None, **kw):
        def f():
            if ef is None:
                raise TranslateError(ef_err)
            if not frozen:
                return ef.probe(target, **kw)
            env = dict(ef.env0)
            env.update(frozen)
            e2 = Exec(ef.fn, env, ef.aliases, frozen=set(frozen))
            e2.user_fns = ef.user_fns
            e2.run()
            return e2.probe(target, **kw)
        return f
    FN = [("phiMG", "G2"), ("phiCG", "G2"), ("psiMG", "G2"), ("mG", "G4"), ("nG", "G2"), ("Γ", "G1")]
    IN = [("zm", "R"), ("z0", "R"), ("ws", "R"), ("ustar", "R"), ("L", "R"), ("sigmaV", "R"), ("res", "R")]
    PAR = {k: var(k, "R") for k in ("m", "n", "kappa", "U", "r", "mu", "Xi", "gmm", "mr", "A", "num")}
    PP = [(k, "R") for k in PAR]
    g.kernel("efM", IN + FN, eq("m"))
    g.kernel("efN", IN + FN, eq("n"))
    g.kernel("efKappa", IN + FN + PP, eq("kappa", frozen={k: PAR[k] for k in ("m", "n")}))
    g.kernel("efU", IN + FN + PP, eq("U", frozen={k: PAR[k] for k in ("m", "n")}))
    g.kernel("efR", IN + FN + PP, eq("r", frozen={k: PAR[k] for k in ("m", "n")}))
    g.kernel("efMu", IN + FN + PP, eq("mu", frozen={k: PAR[k] for k in ("m", "n", "r")}))
    g.kernel("efXi", IN + FN + PP, eq("Xi", frozen={k: PAR[k] for k in ("m", "n", "r", "U", "kappa")}))
    g.kernel("efGmm", IN + FN + PP, eq("gmm", frozen={k: PAR[k] for k in ("mu",)}))
    g.kernel("efMr", IN + FN + PP, eq("mr", frozen={k: PAR[k] for k in ("m", "r")}))
    g.kernel("efA", IN + FN + PP, eq("A", frozen={k: PAR[k] for k in ("m", "n", "r", "U", "kappa", "mr")}))
    g.kernel("efNum", IN + FN + PP, eq("num", frozen={k: PAR[k] for k in ("Xi", "mu")}))
    XY = [("gx", "R"), ("gy", "R"), ("mx", "R"), ("my", "R"), ("wd", "R")]
    g.kernel("efXplain", XY, eq("x", path_has=("if:wd is None$",)))
    g.kernel("efYplain", XY, eq("y", path_has=("if:wd is None$",)))
    g.kernel("efXrot", XY, eq("x", path_has=("else:wd is None$",)))
    g.kernel("efYrot", XY, eq("y", path_has=("else:wd is None$",)))
    g.kernel("efUpwind", [("x", "R")], eq("sflag", frozen=dict(x=var("x", "R"), y=var("y", "R"))))
    g.kernel("efCell", [("res", "R"), ("x", "R"), ("y", "R")] + PP,
             eq("grid_ffm[sflag]", frozen=dict(PAR, x=var("x", "R"), y=var("y", "R"))))

    def u_guard():
        if ef is None:
            raise TranslateError(ef_err)
        for (p, t, v) in ef.tests:
            if t.replace(" ", "") == "U<0":
                return "U < 0"
        raise TranslateError("U < 0 guard not found")
    try:
        g.report["_static"] = {"uGuard": u_guard()}
    except TranslateError as e:
        g.report["_static"] = "FAILED: %s" % e

    # estimateZ0: raw z0
    def z0raw():
        env = dict(zm=var("zm", "R"), ws=var("ws", "R"), ustar=var("ustar", "R"), mo_len=var("L", "R"), von_karman=vk)
        ex = Exec(load_fn(src, "estimateZ0"), env)
        ex.user_fns = {"_psiM": "psiMG"}
        ex.run()
        return ex.probe("z0", which=0)
    g.kernel("z0raw", [("zm", "R"), ("ws", "R"), ("ustar", "R"), ("L", "R"), ("psiMG", "G2")], z0raw)
    # dtype of the helper allocations (C19 'integers or floats alike')
    try:
        allocs = {}
        for fn in ast.walk(tree):
            if isinstance(fn, ast.FunctionDef) and fn.name in ("_phiM", "_phiC", "_psiM", "_nParam"):
                for n in ast.walk(fn):
                    if isinstance(n, ast.Call) and ast.unparse(n.func) in ("np.zeros_like", "np.empty_like", "np.zeros"):
                        allocs[fn.name] = "float" if any(kw.arg == "dtype" and "float" in ast.unparse(kw.value) for kw in n.keywords) else "inherit"
        g.report["_alloc"] = allocs
    except Exception as e:  # noqa: BLE001
        g.report["_alloc"] = "FAILED: %r" % (e,)
    g.write()
    return g


def rename(e, m):
    if not isinstance(e, E):
        raise TranslateError(getattr(e, "why", "not an expression"))
    if e.k == "var" and e.name in m:
        return E("var", e.ty, (), name=m[e.name])
    return E(e.k, e.ty, [rename(x, m) if isinstance(x, E) else x for x in e.a], name=e.name)


def refreeze(sol, sol_err, target, frozen, path_has=(), extra_aliases=None):
    """evaluate `target` again with some intermediate names kept as input symbols
    (`frozen`: python name -> symbol), so that a kernel is emitted in terms of
    the previous kernel's result instead of its expansion"""
    if sol is None:
        raise TranslateError(sol_err)
    env = dict(sol.env0)
    env.update(frozen)
    aliases = dict(sol.aliases)
    aliases.update(extra_aliases or {})
    ex = Exec(sol.fn, env, aliases, frozen=set(frozen)).run()
    return ex.probe(target, path_has=path_has)


# ------------------------------------------------------------------ whole-function body tables
# (file, qualified name, table name).  The canonical statement text of each function the hand-written model covers
# only through the correspondence run; pinned literally in Proofs/Bridge/Bodies.lean (regenerate the pins with
# tools/pin_bodies.py AFTER re-validating the model against the edited function).
BODY_SPECS = [
    ("io.py", "save_footprints_to_netcdf", "io_save"),
    ("io.py", "load_footprints_from_netcdf", "io_load"),
    ("config_parser.py", "MetConfig.n_timesteps", "met_n_timesteps"),
    ("config_parser.py", "MetConfig.get_step", "met_get_step"),
    ("config_parser.py", "MetConfig.validate", "met_validate"),
    ("config_parser.py", "BLDFMConfig.__post_init__", "config_post_init"),
    ("config_parser.py", "TowerConfig.compute_local_xy", "tower_compute_local_xy"),
    ("config_parser.py", "parse_config_dict", "parse_config_dict"),
    ("config_parser.py", "_parse_tower", "cfg_parse_tower"),
    ("config_parser.py", "_parse_domain", "cfg_parse_domain"),
    ("config_parser.py", "_parse_met", "cfg_parse_met"),
    ("config_parser.py", "_parse_solver", "cfg_parse_solver"),
    ("config_parser.py", "_parse_parallel", "cfg_parse_parallel"),
    ("config_parser.py", "load_config", "cfg_load_config"),
    ("cli.py", "cmd_run", "cli_cmd_run"),
    ("fft_manager.py", "get_fft_manager", "fft_get_manager"),
    ("fft_manager.py", "reset_fft_manager", "fft_reset_manager"),
    ("fft_manager.py", "fft2", "fft_fft2"),
    ("fft_manager.py", "ifft2", "fft_ifft2"),
    ("fft_manager.py", "FFTManager.__init__", "fftmgr_init"),
    ("fft_manager.py", "FFTManager.fft2", "fftmgr_fft2"),
    ("fft_manager.py", "FFTManager.ifft2", "fftmgr_ifft2"),
    ("utils.py", "parallelize", "utils_parallelize"),
    ("utils.py", "ideal_source", "utils_ideal_source"),
    ("utils.py", "point_measurement", "utils_point_measurement"),
    ("utils.py", "compute_wind_fields", "utils_compute_wind_fields"),
    ("cache.py", "GreensFunctionCache.__init__", "cache_init"),
    ("cache.py", "GreensFunctionCache._compute_key", "cache_compute_key"),
    ("cache.py", "GreensFunctionCache.get", "cache_get"),
    ("cache.py", "GreensFunctionCache.put", "cache_put"),
    ("pbl_model.py", "vertical_profiles", "pbl_vertical_profiles"),
    ("ffm_kormann_meixner.py", "estimateFootprint", "km_estimateFootprint"),
    ("plotting/_common.py", "_maybe_slice_level", "plot_maybe_slice_level"),
    ("plotting/_geo.py", "xy_to_latlon", "geo_xy_to_latlon"),
    ("config_parser.py", "latlon_to_xy", "cfg_latlon_to_xy"),
    ("utils.py", "get_source_area", "utils_get_source_area"),
    ("ffm_kormann_meixner.py", "estimateZ0", "km_estimateZ0"),
    ("interface.py", "run_bldfm_single", "iface_run_single"),
    ("solver.py", "steady_state_transport_solver", "solver_steady_state"),
    ("solver.py", "ivp_solver", "solver_ivp"),
    # session 4: the remaining functions on the paths of the properties that no table or kernel covered
    ("fft_manager.py", "FFTManager._load_wisdom", "fftmgr_load_wisdom"),
    ("fft_manager.py", "FFTManager._save_wisdom", "fftmgr_save_wisdom"),
    ("fft_manager.py", "FFTManager.clear_cache", "fftmgr_clear_cache"),
    ("fft_manager.py", "FFTManager._cleanup", "fftmgr_cleanup"),
    ("cache.py", "GreensFunctionCache.clear", "cache_clear"),
    ("config_parser.py", "_parse_output", "cfg_parse_output"),
    ("utils.py", "source_area_contribution", "utils_sa_contribution"),
    ("utils.py", "source_area_circular", "utils_sa_circular"),
    ("utils.py", "source_area_upwind", "utils_sa_upwind"),
    ("utils.py", "source_area_crosswind", "utils_sa_crosswind"),
    ("utils.py", "source_area_sector", "utils_sa_sector"),
    ("plotting/footprint.py", "extract_percentile_contour", "plot_extract_percentile_contour"),
    ("ffm_kormann_meixner.py", "_phiM", "km_phiM"),
    ("ffm_kormann_meixner.py", "_phiC", "km_phiC"),
    ("ffm_kormann_meixner.py", "_psiM", "km_psiM"),
    ("ffm_kormann_meixner.py", "_mParam", "km_mParam"),
    ("ffm_kormann_meixner.py", "_nParam", "km_nParam"),
    ("pbl_model.py", "psi", "pbl_psi"),
    ("pbl_model.py", "phi", "pbl_phi"),
    ("interface.py", "_make_cache", "iface_make_cache"),
    ("interface.py", "run_bldfm_timeseries", "iface_run_timeseries"),
    ("interface.py", "run_bldfm_multitower", "iface_run_multitower"),
    ("interface.py", "_worker_single", "iface_worker_single"),
    ("interface.py", "_worker_timeseries", "iface_worker_timeseries"),
    ("interface.py", "run_bldfm_parallel", "iface_run_parallel"),
]


def canonical_body(fn):
    """canonical statement text of a function body: docstrings and logger calls dropped, compound statements by
    header + indented children (every clause: else / except / finally included)"""
    out = []

    def is_log(st):
        return (isinstance(st, ast.Expr) and isinstance(st.value, ast.Call)
                and re.match(r"(logger|logging|log)\.", ast.unparse(st.value.func)) is not None)

    def rec(body, depth):
        for st in body:
            if isinstance(st, ast.Expr) and isinstance(st.value, ast.Constant):
                continue
            if is_log(st):
                continue
            ind = "  " * depth
            if isinstance(st, (ast.If, ast.For, ast.While, ast.With, ast.AsyncFor, ast.AsyncWith)):
                out.append(ind + ast.unparse(st).split("\n")[0])
                rec(st.body, depth + 1)
                if getattr(st, "orelse", None):
                    out.append(ind + "else:")
                    rec(st.orelse, depth + 1)
            elif isinstance(st, ast.Try):
                out.append(ind + "try:")
                rec(st.body, depth + 1)
                for h in st.handlers:
                    out.append(ind + "except %s%s:" % (ast.unparse(h.type) if h.type else "", " as " + h.name if h.name else ""))
                    rec(h.body, depth + 1)
                if st.orelse:
                    out.append(ind + "else:")
                    rec(st.orelse, depth + 1)
                if st.finalbody:
                    out.append(ind + "finally:")
                    rec(st.finalbody, depth + 1)
            elif isinstance(st, (ast.FunctionDef, ast.AsyncFunctionDef, ast.ClassDef)):
                out.append(ind + ast.unparse(st).split("\n")[0])
                rec(st.body, depth + 1)
            else:
                out.append(ind + " ".join(ast.unparse(st).split()))
    rec(fn.body, 0)
    return out


def find_qual(tree, qual):
    parts = qual.split(".")
    scope = tree.body
    node = None
    for pn in parts:
        node = None
        for n in scope:
            if isinstance(n, (ast.FunctionDef, ast.ClassDef, ast.AsyncFunctionDef)) and n.name == pn:
                node = n
        if node is None:
            raise TranslateError("%s not found" % qual)
        scope = node.body
    return node


def lean_str(x):
    return '"%s"' % x.replace("\\", "\\\\").replace('"', "'")


def bodies_group():
    g = Group("Bodies", "whole-function statement tables (io, config_parser, cli, fft_manager, utils, cache, pbl_model, KM, interface)")
    lines = []
    for (rel, qual, tname) in BODY_SPECS:
        try:
            tree = ast.parse(open(os.path.join(REPO_SRC, rel)).read())
            fn = find_qual(tree, qual)
            sig = "def %s(%s)" % (fn.name, ast.unparse(fn.args))
            deco = ["@" + ast.unparse(d) for d in fn.decorator_list]
            body = deco + [sig] + canonical_body(fn)
            lines.append("def %s : List String := [%s]" % (tname, ", ".join(lean_str(b) for b in body)))
            g.report[tname] = "ok"
        except Exception as e:  # noqa: BLE001
            lines.append("def %s : List String := [\"<extraction failed>\"]" % tname)
            g.report[tname] = "FAILED: %r" % (e,)
    g.defs = [l + "\n" for l in lines]
    os.makedirs(OUT, exist_ok=True)
    text = ("/- GENERATED by tools/extract.py from %s — do not edit. -/\nnamespace BLDFM.Generated.Bodies\n\n" % g.src
            + "\n".join(g.defs) + "\nend BLDFM.Generated.Bodies\n")
    path = os.path.join(OUT, g.name + ".lean")
    old = open(path).read() if os.path.exists(path) else None
    if old != text:
        tmp = path + ".%d.tmp" % os.getpid()
        with open(tmp, "w") as f:
            f.write(text)
        os.replace(tmp, path)
    return g


def main():
    os.makedirs(OUT, exist_ok=True)
    report = {}
    groups = [solver_group, misc_group, pbl_group, km_group, tables_group, bodies_group]
    for mk in groups:
        try:
            g = mk()
            report[g.name] = g.report
        except Exception as e:  # noqa: BLE001
            report[mk.__name__] = {"_group": "FAILED: %r" % (e,)}
    tmp = os.path.join(OUT, "report.json.%d.tmp" % os.getpid())
    with open(tmp, "w") as f:
        json.dump(report, f, indent=1, sort_keys=True)
    os.replace(tmp, os.path.join(OUT, "report.json"))
    bad = [(g, k, v) for g, r in report.items() for k, v in r.items() if isinstance(v, str) and v.startswith("FAILED")]
    for g, k, v in bad:
        print("extract: %s.%s %s" % (g, k, v))
    print("extract: %d kernels ok, %d failed" % (
        sum(1 for r in report.values() for v in r.values() if v == "ok"), len(bad)))


if __name__ == "__main__":
    main()
