from props.solverfam import run_C07 as run, replay  # noqa: F401
