"""C12 — a solve is a pure function: history, threads and precision do not matter.

Histories run in FRESH subprocesses (one per history); after every operation the real process-global
state is compared with the Lean state machine, and every solve's output with (i) the first occurrence of
the same solve at the same thread setting in the same process (bit-identical), (ii) the same solve in a
fresh process, and at one thread (relative 1e-12 in double, 1e-5 of the field maximum single vs double).
"""
import hashlib
import json
import os
import subprocess
import sys
from concurrent.futures import ThreadPoolExecutor

import numpy as np

from common import run_driver, VERIF
from props.scalarfam import new_stats, finish, budget, run_oracle, oracle, fail, replay  # noqa: F401

# request shapes: sizes (even and odd), footprint/dispersion, analytic, single/double
REQS = [
    dict(nx=8, ny=6, nz=6, fp=False, an=False, prec="double", seed=1),
    dict(nx=10, ny=10, nz=8, fp=True, an=False, prec="double", seed=2),
    dict(nx=6, ny=8, nz=5, fp=False, an=True, prec="double", seed=3),
    dict(nx=8, ny=8, nz=6, fp=True, an=False, prec="single", seed=4),
    dict(nx=12, ny=6, nz=7, fp=False, an=False, prec="single", seed=5),
    dict(nx=6, ny=6, nz=5, fp=True, an=True, prec="double", seed=6),
    # odd grid sizes: the padded size minus the (even) mode count is odd, the spectrum is re-inserted asymmetrically
    dict(nx=9, ny=7, nz=6, fp=False, an=False, prec="double", seed=7),
    dict(nx=7, ny=11, nz=5, fp=True, an=False, prec="single", seed=8),
    # production-size padded grids that are not powers of two (36 x 36, 143 x 143, 77 x 62 after the 25 m halo): the sizes at which a
    # threaded FFT library may choose another plan than the one-thread library
    dict(nx=28, ny=26, nz=6, fp=False, an=False, prec="double", seed=9),
    dict(nx=109, ny=101, nz=6, fp=False, an=False, prec="double", seed=10),
    dict(nx=59, ny=44, nz=6, fp=True, an=False, prec="double", seed=11),
]
N_SMALL = 8


N_VARIANTS = 13     # variant 12 = the profiles of variant 9 delivered by re-filling the BASE request's z / profile arrays in place; variant 10 = the source of variant 5 delivered by re-filling the BASE request's array object in place;
                    # variant 11 = measurement point at the origin (no re-centring product: the spectral arrays reach the FFT layer
                    # in their STORAGE precision)


def build_request(i, prec=None, variant=0):
    """request shape i; `variant` changes exactly ONE argument of the base request (0 = base): a solve must not depend on
    what an earlier solve that shared all the OTHER arguments left behind"""
    kw = _build_base(i, prec)
    nz = REQS[i]["nz"]
    if variant == 1:
        kw["levels"] = [1, nz - 2]
    elif variant == 2:
        kw["levels"] = [2]
    elif variant == 3:
        kw["meas_pt"] = (60.0, 50.0)
    elif variant == 4:
        kw["srf_bg_conc"] = 1.7
    elif variant == 5:
        kw["srf_flx"] = np.random.default_rng(1000 + i).uniform(0, 2, kw["srf_flx"].shape)
    elif variant == 6:
        kw["modes"] = (6, 4)
    elif variant == 7:
        kw["halo"] = 40.0
    elif variant == 8:
        kw["domain"] = (200.0, 90.0)
    elif variant == 11:
        kw["meas_pt"] = (0.0, 0.0)
    elif variant == 9:
        u, v, Kx, Ky, Kz = kw["profiles"]
        kw["profiles"] = (1.3 * u, 0.7 * v, Kx, 1.5 * Ky, Kz)
    return kw


def _build_base(i, prec=None):
    r = REQS[i]
    rng = np.random.default_rng(r["seed"])
    nz = r["nz"]
    z = np.linspace(0.2, 5.0, nz)
    zr = z / z[-1]
    if r["an"]:
        prof = (np.full(nz, 2.0), np.full(nz, -1.0), np.full(nz, 1.2), np.full(nz, 0.8), np.full(nz, 1.0))
    else:
        prof = (2.0 * (0.3 + zr) ** 0.3, -1.0 * (0.3 + zr) ** 0.3, 1.2 * (0.1 + zr), 0.8 * (0.1 + zr), 1.0 * (0.1 + zr))
    q = rng.uniform(0, 1, (r["ny"], r["nx"]))
    return dict(srf_flx=q, z=z, profiles=prof, domain=(160.0, 120.0), levels=[nz - 1, 1], modes=(8, 8), meas_pt=(40.0, 30.0),
                srf_bg_conc=0.3, footprint=r["fp"], analytic=r["an"], halo=25.0, precision=prec or r["prec"])


WORKER = r'''
import sys, json, hashlib, os
sys.path[:0] = %(paths)r
import logging; logging.disable(logging.CRITICAL)
import numpy as np
from props import C12
from bldfm import config
from bldfm import fft_manager, utils
from bldfm.solver import steady_state_transport_solver, ivp_solver
import pyfftw
hist = json.loads(sys.argv[1])
out = []
_kw = {}
def request(i, prec, variant):
    # a caller keeps its input arrays and passes the SAME objects again when it repeats a request: a solve that modifies
    # its inputs in place is not a function of its arguments
    key = (i, prec, variant)
    if key not in _kw:
        _kw[key] = C12.build_request(i, prec, variant)
    return _kw[key]
def state():
    cell = [c.cell_contents for c in ivp_solver.__closure__ if isinstance(c.cell_contents, dict)]
    comp = cell[0] if cell else {}
    m = fft_manager._fft_manager
    return [config.NUM_THREADS, None if m is None else m.num_threads, pyfftw.config.NUM_THREADS, bool(False in comp), bool(True in comp)]
for op in hist:
    rec = {}
    if op[0] == "T":
        config.NUM_THREADS = op[1]
    elif op[0] == "S":
        variant = op[3] if len(op) > 3 else 0
        saved = None
        if variant == 10:
            # a caller that keeps ONE work array and re-fills it in place between solves (a time series of surface fluxes):
            # the solve must see the array's current VALUES, whatever it remembers about the object
            kw = request(op[1], op[2] if len(op) > 2 else None, 0)
            saved = kw["srf_flx"].copy()
            kw["srf_flx"][...] = C12.build_request(op[1], op[2] if len(op) > 2 else None, 5)["srf_flx"]
        elif variant == 12:
            # the same for the profile arrays (a time loop that refills its meteorological buffers)
            kw = request(op[1], op[2] if len(op) > 2 else None, 0)
            saved12 = [p_.copy() for p_ in kw["profiles"]]
            for p_, n_ in zip(kw["profiles"], C12.build_request(op[1], op[2] if len(op) > 2 else None, 9)["profiles"]):
                p_[...] = n_
        else:
            kw = request(op[1], op[2] if len(op) > 2 else None, variant)
        try:
            grid, conc, flx = steady_state_transport_solver(**kw)
            a = np.ascontiguousarray(np.asarray(conc)); b = np.ascontiguousarray(np.asarray(flx))
            rec["sha"] = hashlib.sha256(a.tobytes() + b.tobytes() + str(a.dtype).encode()).hexdigest()
            rec["conc"] = np.asarray(conc, dtype=float).ravel().tolist()
            rec["flx"] = np.asarray(flx, dtype=float).ravel().tolist()
        except Exception as e:
            rec["error"] = type(e).__name__ + ": " + str(e)[:200]
            rec["sha"] = "error"
        if saved is not None:
            kw["srf_flx"][...] = saved
        if variant == 12:
            for p_, n_ in zip(kw["profiles"], saved12):
                p_[...] = n_
    elif op[0] == "P":
        # two solves of the same shape and precision IN FLIGHT AT ONCE (two Python threads): a solve must be re-entrant
        import threading
        res = {}
        def one(tag, variant):
            kw = request(op[1], op[2], variant)
            try:
                grid, conc, flx = steady_state_transport_solver(**kw)
                res[tag] = dict(conc=np.asarray(conc, dtype=float).ravel().tolist(), flx=np.asarray(flx, dtype=float).ravel().tolist())
            except Exception as e:
                res[tag] = dict(error=type(e).__name__ + ": " + str(e)[:200])
        ts = [threading.Thread(target=one, args=("a", op[3])), threading.Thread(target=one, args=("b", op[4]))]
        for t in ts: t.start()
        for t in ts: t.join()
        rec["pair"] = [res.get("a"), res.get("b")]
    elif op[0] == "E":
        # a transient resource fault in the FFT layer: the op[1]-th transform of a 3-D stack from now on raises MemoryError, once
        import pyfftw.interfaces.numpy_fft as _nf
        _st = {"left": int(op[1])}
        def _wrap(orig_f):
            def f(a, *args, **kw):
                if np.ndim(a) == 3 and _st["left"] is not None:
                    _st["left"] -= 1
                    if _st["left"] <= 0:
                        _st["left"] = None
                        raise MemoryError("injected by the harness")
                return orig_f(a, *args, **kw)
            return f
        if not hasattr(_nf, "_verif_orig"):
            _nf._verif_orig = (_nf.fft2, _nf.ifft2)
        _nf.fft2, _nf.ifft2 = _wrap(_nf._verif_orig[0]), _wrap(_nf._verif_orig[1])
    elif op[0] == "F":
        fft_manager.fft2(np.ones((4, 4)))
    elif op[0] == "Z":
        fft_manager.reset_fft_manager()
    elif op[0] == "W":
        config.NUM_THREADS = 1
        fft_manager.reset_fft_manager()
    rec["state"] = state()
    out.append(rec)
print("RESULT " + json.dumps(out))
'''


def run_real(hist, wisdom=None):
    wd = os.path.join(os.getcwd(), "rt-%d-%s" % (os.getpid(), hashlib.md5(json.dumps(hist).encode()).hexdigest()[:10]))
    os.makedirs(wd, exist_ok=True)
    if wisdom == "corrupt":
        open(os.path.join(wd, "fftw_wisdom.pkl"), "wb").write(b"not a pickle")
    code = WORKER % dict(paths=[os.path.join(VERIF, "tools"), os.path.join(VERIF, "tools", "harness")])
    env = dict(os.environ)
    env.pop("NUMBA_NUM_THREADS", None)
    r = subprocess.run([sys.executable, "-c", code, json.dumps(hist)], capture_output=True, text=True, timeout=900, cwd=wd, env=env)
    import shutil
    shutil.rmtree(wd, ignore_errors=True)
    for l in r.stdout.splitlines():
        if l.startswith("RESULT "):
            return json.loads(l[7:])
    raise RuntimeError("history failed: rc=%d %s" % (r.returncode, r.stderr[-1500:]))


def model_line(hist):
    toks = ["rt", str(len(hist))]
    for op in hist:
        if op[0] == "T":
            toks += ["T", str(op[1])]
        elif op[0] == "S":
            r = REQS[op[1]]
            toks += ["S", str(op[1]), str(int(r["fp"])), str(int(r["an"]))]
        elif op[0] == "P":
            r = REQS[op[1]]
            toks += ["S", str(op[1]), str(int(r["fp"])), str(int(r["an"]))] * 2
        else:
            toks.append(op[0])
    toks[1] = str(sum(2 if op[0] == "P" else 1 for op in hist))
    return " ".join(toks)


def gen_history(rng, length):
    hist = []
    for _ in range(length):
        x = rng.random()
        if x < 0.55:
            prev = [o for o in hist if o[0] == "S"]
            if prev and rng.random() < 0.55:
                # the previous request with exactly ONE argument changed (or the precision): a memo / workspace keyed on a
                # subset of the arguments is hit by a request that differs only in the rest
                op = ["S", prev[-1][1], prev[-1][2], int(rng.integers(N_VARIANTS))]
                if rng.random() < 0.25:
                    op[2] = str(rng.choice(["single", "double"]))
            else:
                op = ["S", int(rng.integers(N_SMALL)) if rng.random() < 0.85 else int(rng.integers(N_SMALL, len(REQS))), None, 0]
                if rng.random() < 0.5:
                    # the same request shape at the other (or the same) storage precision: shared per-grid state must not
                    # carry anything precision-dependent from one solve to the next
                    op[2] = str(rng.choice(["single", "double"]))
                if rng.random() < 0.3:
                    op[3] = int(rng.integers(N_VARIANTS))
            hist.append(op)
        elif x < 0.8:
            hist.append(["T", int(rng.integers(1, 9))])
        elif x < 0.9:
            hist.append(["Z"])
        elif x < 0.96:
            hist.append(["F"])
        else:
            hist.append(["W"])
    # close with repeats so that every history compares at least one repeated solve
    k = int(rng.integers(N_SMALL))
    hist += [["S", k], ["S", k]]
    return hist


def op_key(op):
    """(request shape, precision, variant) of a solve op"""
    v = op[3] if len(op) > 3 else 0
    return (op[1], (op[2] if len(op) > 2 and op[2] else REQS[op[1]]["prec"]), 5 if v == 10 else 9 if v == 12 else v)


def fresh_reference(keys=(), cache={}):
    """every requested (shape, precision, variant) in a fresh process at one thread; the base requests at both precisions always"""
    ref = cache.setdefault("ref", {})
    want = set(keys) | {(i, p, 0) for i in range(len(REQS)) for p in ("single", "double")}
    todo = sorted(k for k in want if k not in ref)
    if todo:
        jobs = [[["S", k[0], k[1], k[2]]] for k in todo]
        with ThreadPoolExecutor(max_workers=8) as ex:
            outs = list(ex.map(run_real, jobs))
        for k, o in zip(todo, outs):
            ref[k] = o[0]
    return ref


def check_history(hist, real):
    """returns failure dict or None"""
    ref = fresh_reference([op_key(op) for op in hist if op[0] == "S"]
                          + [(op[1], op[2] or REQS[op[1]]["prec"], v) for op in hist if op[0] == "P" for v in op[3:5]])
    first = {}
    threads = 1
    armed = False
    for op, rec in zip(hist, real):
        if op[0] == "E":
            armed = True
            continue
        if op[0] == "S" and armed:
            armed = False
            if "error" in rec and "MemoryError" in rec["error"]:
                continue      # under the injected fault the solve may give up with the error; fields it RETURNS must be the reference fields
        if op[0] == "T":
            threads = op[1]
        if op[0] == "W":
            threads = 1
        if op[0] == "P":
            for tag, variant, got in zip("ab", op[3:5], rec["pair"]):
                r0 = ref[(op[1], op[2] or REQS[op[1]]["prec"], variant)]
                if got is None or ("error" in got) != ("error" in r0):
                    return fail("C12/concurrent/error", "a solve running concurrently with another solve of the same shape fails / succeeds unlike the same solve alone",
                                None, r0.get("error", "fields"), (got or {}).get("error", "fields"), 0)
                if "error" in got:
                    continue
                for name in ("conc", "flx"):
                    a, b = np.array(got[name]), np.array(r0[name])
                    e = float(np.max(np.abs(a - b))) / max(float(np.max(np.abs(b))), 1e-300)
                    tol = 1e-12 if (op[2] or REQS[op[1]]["prec"]) == "double" else 1e-6
                    if not e <= tol:
                        return fail("C12/concurrent/%s" % name, "a solve differs from the same solve alone when another solve of the same shape is in flight in "
                                    "the same process (request %d, variants %d and %d, threads=%d)" % (op[1], op[3], op[4], threads), None, "<= %g" % tol, e, tol)
            continue
        if op[0] != "S":
            continue
        i, prec, variant = op_key(op)
        key = (i, threads, prec, variant)
        r0 = ref[(i, prec, variant)]
        if ("error" in rec) != ("error" in r0):
            return fail("C12/history-dependence/error", "a solve after a history %s while the same solve in a fresh process %s (request %d, variant %d)"
                        % ("raises " + rec["error"] if "error" in rec else "returns", "raises" if "error" in r0 else "returns", i, variant),
                        None, r0.get("error", "fields"), rec.get("error", "fields"), 0)
        if "error" in rec:
            continue
        if key in first and first[key] != rec["sha"]:
            return fail("C12/repeat-not-bit-identical", "repeating a solve with the same thread setting in one process is not bit-identical",
                        None, first[key][:16], rec["sha"][:16], 0)
        first.setdefault(key, rec["sha"])
        for name in ("conc", "flx"):
            a, b = np.array(rec[name]), np.array(r0[name])
            sc = max(float(np.max(np.abs(b))), 1e-300)
            tol = 1e-12 if prec == "double" else 1e-6
            e = float(np.max(np.abs(a - b))) / sc
            if not e <= tol:
                return fail("C12/history-dependence/%s" % name, "a solve after a history differs from the same solve in a fresh single-threaded process "
                            "(threads=%d, request %d, variant %d)" % (threads, i, variant), None, "<= %g" % tol, e, tol)
    return None


@oracle
def o_history(case):
    hist = case["hist"]
    real = run_real(hist, case.get("wisdom"))
    return check_history(hist, real)


@oracle
def o_precision(case):
    """single precision differs from double only by storage rounding: relative 1e-5 of the field maximum"""
    ref = fresh_reference()
    for i in range(len(REQS)):
        for name in ("conc", "flx"):
            a, b = np.array(ref[(i, "single", 0)][name]), np.array(ref[(i, "double", 0)][name])
            e = float(np.max(np.abs(a - b))) / max(float(np.max(np.abs(b))), 1e-300)
            if not e <= 1e-5:
                return fail("C12/precision", "single precision differs from double by more than storage rounding (request %d, %s)" % (i, name),
                            None, "<= 1e-5", e, 1e-5)
    return None


def run(rng, tier, deep):
    st = new_stats()
    hists = [gen_history(rng, int(rng.integers(2, 11))) for _ in range(budget(tier, deep, 10, 60))]
    hists.append([["T", 4], ["S", 0], ["T", 1], ["S", 0], ["Z"], ["S", 0], ["T", 8], ["S", 1], ["S", 1], ["W"], ["S", 1]])
    # one-argument-apart neighbours, both orders, for a numeric dispersion, a numeric footprint and an analytic request
    for i in (0, 1) if tier == "quick" else (0, 1, 2, 4):
        vs = [10] + [int(v) for v in rng.permutation(np.arange(1, 10))[: 3 if tier == "quick" else 9]]
        h = [["S", i, None, 0]]
        for v in vs:
            h += [["S", i, None, v], ["S", i, None, 0]]
        hists.append(h)
    hists.append([["S", 6], ["S", 0], ["T", 2], ["S", 6], ["S", 7], ["Z"], ["S", 6], ["S", 7], ["S", 6, "single"], ["S", 6]])
    for i in (1, 0) if tier == "quick" else (1, 0, 3, 4):
        hists.append([["S", i, None, 0], ["S", i, None, 12], ["S", i, None, 0], ["S", i, None, 9], ["S", i, None, 12]])
    # storage precision reaching the FFT layer (dispersion mode, measurement point at the origin), then the other precision on the
    # same grid: nothing the FFT layer keeps may depend on the first caller's element type
    for i in (0, 4) if tier == "quick" else (0, 2, 4, 6):
        hists.append([["S", i, "single", 11], ["S", i, "double", 0], ["S", i, "double", 11], ["S", i, "single", 0], ["S", i, "single", 11]])
        hists.append([["S", i, "double", 11], ["S", i, "single", 11], ["S", i, "double", 11]])
    for i in (0, 1, 5) if tier == "quick" else range(N_SMALL):
        hists.append([["S", i, "single"], ["S", i, "double"], ["S", i, "single"], ["S", i, "double"]])
        hists.append([["S", i, "double"], ["S", i, "single"], ["S", i, "double"]])
    # thread setting x production-size grid: a one-thread solve before and after a T-thread solve of the same request (whatever the
    # T-thread solve leaves in the FFT layer must not reach the next one-thread solve)
    big = list(range(N_SMALL, len(REQS)))
    for i in big:
        for t in ([int(rng.integers(2, 9))] if (tier == "quick" and not deep) else range(2, 9)):
            hists.append([["S", i], ["T", t], ["S", i], ["T", 1], ["S", i], ["S", i]])
    if deep:
        # re-entrancy: pairs of solves of one shape in flight at once (only in the failing-input search: thread timing is not
        # reproducible, so this never runs on a tree whose obligations all check)
        for i in (0, 1, 3, 4):
            for _ in range(3):
                v1, v2 = int(rng.integers(10)), int(rng.choice([3, 4, 5]))
                hists.append([["T", int(rng.choice([1, 2]))], ["P", i, None, v1, v2], ["P", i, None, v2, v1], ["S", i, None, v1]])
    with ThreadPoolExecutor(max_workers=8) as ex:
        reals = list(ex.map(run_real, hists))
    outs = run_driver([model_line(h) for h in hists])
    for h, real, o in zip(hists, reals, outs):
        st["corr_cases"] += 1
        allsteps = o.split(" | ")[1:]
        steps, pos = [], 0
        for op in h:
            pos += 2 if op[0] == "P" else 1
            steps.append(allsteps[pos - 1] if pos - 1 < len(allsteps) else "0 N N false false")
        for k, (op, rec, ms) in enumerate(zip(h, real, steps)):
            st["branches"]["op=" + op[0]] = st["branches"].get("op=" + op[0], 0) + 1
            t = ms.split()
            model_state = [int(t[0]), None if t[1] == "N" else int(t[1]), None if t[2] == "N" else int(t[2]), t[3] == "true", t[4] == "true"]
            real_state = list(rec["state"])
            # pyfftw's own default (before any manager) is not BLDFM state: compare only once a manager has set it
            if model_state[2] is None:
                real_state[2] = None
            if model_state != real_state:
                st["disagreements"].append(dict(what="runtime state after op %d %s: impl %s vs model %s" % (k, op, real_state, model_state), op=model_line(h)))
                break
        f = check_history(h, real)
        st["oracle_evaluations"] += 1
        st["seen"].add(json.dumps(h))
        if len(st["samples"]) < 3:
            st["samples"].append(dict(history=h))
        if f:
            f["input"] = dict(oracle="o_history", case=dict(hist=h))
            st["oracle_failures"].append(f)
    run_oracle(st, o_precision, dict())
    # a transient MemoryError in one of the transforms of a solve, then the same solve again: whatever is returned is the reference result
    for k in range(budget(tier, deep, 2, 8)):
        i = [1, 0, 3, 4][k % 4]
        run_oracle(st, o_history, dict(hist=[["S", i, None, 0], ["E", 1 + k % 2], ["S", i, None, 0], ["S", i, None, 0]]))
    for w in (["corrupt"] if tier == "quick" else ["corrupt", None]):
        run_oracle(st, o_history, dict(hist=gen_history(rng, 4), wisdom=w))
    return finish(st, "one-thread solves before and after a T-thread solve (T = 2..8) on production-size padded grids (36 x 36, 143 x 143, 77 x 62); histories (length 4..12) over {solve of 8 small request shapes (sizes, footprint/dispersion, analytic, single/double) and their one-argument variations (levels, level count, meas_pt, background, source, modes, halo, domain, profiles), set threads 1..8, "
                  "reset_fft_manager, module-level fft2, worker reset}, each in a fresh subprocess with its own cwd (FFTW wisdom absent or corrupt); "
                  "correspondence: (config.NUM_THREADS, manager threads, pyfftw threads, compiled variants) after every operation vs the Lean state machine; "
                  "oracle: repeats with the same thread setting bit-identical (SHA-256), every solve within 1e-12 (double) of the same solve in a fresh "
                  "single-threaded process, single vs double within 1e-5 of the field maximum", deep, 1e-12)
