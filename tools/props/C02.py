from props.solverfam import run_C02 as run, replay  # noqa: F401
