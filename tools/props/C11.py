from props.solverfam import run_C11 as run, replay  # noqa: F401
