from props.solverfam import run_C06 as run, replay  # noqa: F401
