from props.solverfam import run_C04 as run, replay  # noqa: F401
