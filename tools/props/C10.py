from props.solverfam import run_C10 as run, replay  # noqa: F401
