"""C19 — Kormann-Meixner reference vs its published closed form."""
import warnings

import numpy as np

from common import fhex
from props.scalarfam import (op_line, correspond_scalar, new_stats, finish, budget, run_oracle, oracle, fail, replay)  # noqa: F401

warnings.filterwarnings("ignore")


def gen_par(rng, typed=False, wide=True):
    zm = float(rng.uniform(1.5, 30))
    z0 = float(zm * 10 ** rng.uniform(-3, -1))
    ustar = float(rng.uniform(0.1, 0.8))
    # stability zm/L from strongly unstable (-8) through near-neutral to strongly stable (+5): the published formulas are stated for every zm/L
    x = float(rng.choice([-10 ** rng.uniform(-2.5, 0.9), 10 ** rng.uniform(-2.5, 0.7)])) if wide else \
        float(rng.choice([-10 ** rng.uniform(-2.5, 0.2), 10 ** rng.uniform(-2.5, 0.0)]))
    L = float(zm / x)
    if rng.random() < 0.08:
        L = float(rng.choice([np.inf, -np.inf]))     # exactly neutral stratification given as an infinite Obukhov length
    # wind speed consistent with the diabatic log law (positive U)
    from bldfm.pbl_model import psi
    ws = float(ustar / 0.4 * (np.log(zm / z0) + float(psi(zm / L))) * rng.uniform(0.8, 1.25))
    if ws <= 0.2:
        return gen_par(rng, typed, wide)
    sv = float(rng.uniform(0.2, 1.5))
    res = float(rng.choice([1.0, 2.0, 5.0, 2.5]))
    return dict(zm=zm, z0=z0, ws=ws, ustar=ustar, L=L, sigma_v=sv, res=res)


def real_fp(p, domain, mxy, wd):
    from bldfm.ffm_kormann_meixner import estimateFootprint
    return estimateFootprint(p["zm"], p["z0"], p["ws"], p["ustar"], p["L"], p["sigma_v"], domain, p["res"], mxy, wd=wd)


def published(p, x, y):
    """the paper's equations written independently, with scipy.special"""
    from scipy import special as sp
    k = 0.4
    zm, z0, ws, us, L, sv = p["zm"], p["z0"], p["ws"], p["ustar"], p["L"], p["sigma_v"]
    if L < 0:
        zeta = (1 - 16 * zm / L) ** 0.25
        phim, phic = 1 / zeta, 1 / zeta ** 2
        psim = -2 * np.log((1 + zeta) / 2) - np.log((1 + zeta ** 2) / 2) + 2 * np.arctan(zeta) - np.pi / 2
        n = (1 - 24 * zm / L) / (1 - 16 * zm / L)
    else:
        phim = phic = 1 + 5 * zm / L
        psim = 5 * zm / L
        n = 1 / (1 + 5 * zm / L)
    m = us * phim / (k * ws)
    kappa = k * us * zm / (phic * zm ** n)
    U = us * (np.log(zm / z0) + psim) / (k * zm ** m)
    r = 2 + m - n
    mu = (1 + m) / r
    xi = U * zm ** r / (r ** 2 * kappa)
    out = np.zeros_like(x, dtype=float)
    up = x > 0
    xx, yy = x[up], y[up]
    fy = xi ** mu * np.exp(-xi / xx) / (sp.gamma(mu) * xx ** (1 + mu))
    ubar = U * sp.gamma(mu) / sp.gamma(1 / r) * (kappa * r ** 2 * xx / U) ** (m / r)
    sig = sv * xx / ubar
    Dy = np.exp(-yy ** 2 / (2 * sig ** 2)) / (np.sqrt(2 * np.pi) * sig)
    out[up] = fy * Dy * p["res"] ** 2
    return out, dict(mu=mu, xi=xi, U=U)


@oracle
def o_km(case):
    from scipy import special as sp
    p = case["p"]
    res = p["res"]
    ext = case["ext"]
    dom = [-ext * res * 0.25, ext * res, -ext * res * 0.5, ext * res * 0.5]
    # the receptor at the origin, or displaced by whole multiples of HALF a cell: exactly on a cell centre or exactly on a cell edge, in
    # floating point (the comparisons x > 0 / x >= 0 and any search for "the first upwind column" differ only there)
    hx, hy = case.get("half_cells", (0, 0))
    mxy = [0.5 * res * hx, 0.5 * res * hy]
    gx, gy, f = real_fp(p, dom, mxy, None)
    exp, q = published(p, gx - mxy[0], gy - mxy[1])
    sc = max(exp.max(), 1e-300)
    if q["U"] <= 0:
        return None
    if not np.max(np.abs(f - exp)) <= 1e-10 * sc:
        return fail("C19/closed-form", "footprint differs cell by cell from f^y * D_y * cell area", None, "equal", float(np.max(np.abs(f - exp)) / sc), 1e-10)
    if not f.min() >= 0:
        return fail("C19/nonneg", "negative footprint value", None, ">= 0", float(f.min()), 0)
    if np.any(f[(gx - mxy[0]) <= 0] != 0):
        return fail("C19/downwind", "non-zero footprint in a downwind cell", None, 0, float(np.abs(f[(gx - mxy[0]) <= 0]).max()), 0)
    if not np.all(np.isfinite(f)):
        return fail("C19/finite", "footprint has non-finite cells (receptor %s half-cells from the origin)" % ([hx, hy],), None, "finite", int(np.sum(~np.isfinite(f))), 0)
    if hy == 0 and not np.allclose(f, f[::-1, :], rtol=1e-12, atol=1e-300):
        return fail("C19/symmetry", "footprint is not symmetric about the wind axis", None, "symmetric", "asymmetric", 1e-12)
    # integer-typed inputs give the same footprint
    ip = dict(p)
    zi = int(round(p["zm"]))
    if zi >= 2:
        fp_float = real_fp(dict(p, zm=float(zi)), dom, mxy, None)[2]
        for typ in (int, np.int64, np.float32):
            fp_int = real_fp(dict(p, zm=typ(zi)), dom, mxy, None)[2]
            scf = max(float(fp_float.max()), 1e-300)
            if not np.max(np.abs(fp_int - fp_float)) <= (1e-4 if typ is np.float32 else 1e-12) * scf:
                return fail("C19/int-dtype", "integer-typed measurement height changes the footprint (%s)" % typ.__name__, None,
                            float(fp_float.sum()), float(fp_int.sum()), 1e-12)
    # rotation by multiples of 90 degrees on a grid symmetric about the receptor: exact cell permutation
    h = case["half"] * res
    sym = [-h, h, -h, h]
    base = real_fp(p, sym, [0.0, 0.0], 90.0)[2]     # wd=90: along-wind = +x
    for wd, rot in ((180.0, 1), (270.0, 2), (0.0, 3), (360.0, 3)):
        fr = real_fp(p, sym, [0.0, 0.0], wd)[2]
        expd = np.rot90(base, -rot)
        scb = max(base.max(), 1e-300)
        if not np.max(np.abs(fr - expd)) <= 1e-9 * scb:
            return fail("C19/rotation", "rotating the wind direction by a multiple of 90 degrees does not rotate the footprint about the receptor (wd=%g)" % wd,
                        None, "rot90", float(np.max(np.abs(fr - expd)) / scb), 1e-9)
    # arbitrary angle, pointwise: F_wd(p) = F_none(Rot(p - m))
    wd = case["wd"]
    m2 = case["mxy"]
    gx2, gy2, f2 = real_fp(p, sym, m2, wd)
    a = np.radians(wd) - np.pi / 2
    xr = (gx2 - m2[0]) * np.cos(a) - (gy2 - m2[1]) * np.sin(a)
    yr = (gx2 - m2[0]) * np.sin(a) + (gy2 - m2[1]) * np.cos(a)
    exp2, _ = published(p, xr, yr)
    # cells within rounding of the wind-perpendicular line may fall on either side
    ok = np.abs(xr) > 1e-9 * h
    if not np.max(np.abs(f2 - exp2)[ok], initial=0.0) <= 1e-9 * max(exp2.max(), 1e-300):
        return fail("C19/rotation-pointwise", "with a wind direction the footprint is not the aligned footprint of the rotated coordinates", None,
                    "equal", float(np.max(np.abs(f2 - exp2)[ok])), 1e-9)
    return None


@oracle
def o_mass(case):
    """the sum tends to the regularised incomplete gamma mass within the upwind extent as the grid is refined
    (upwind extent an exact multiple of every cell size, crosswind extent 8 sigma(X))"""
    from scipy import special as sp
    p = dict(case["p"])
    res0 = case["res0"]
    X = res0 * case["N"]
    _, q = published(p, np.array([X]), np.array([0.0]))
    target = float(sp.gammaincc(q["mu"], q["xi"] / X))
    errs = []
    for res in (res0, res0 / 2, res0 / 4):
        p["res"] = res
        e0, _ = published(p, np.array([X]), np.array([0.0]))
        fyX = q["xi"] ** q["mu"] * np.exp(-q["xi"] / X) / (sp.gamma(q["mu"]) * X ** (1 + q["mu"]))
        sig = fyX * res ** 2 / (e0[0] * np.sqrt(2 * np.pi))
        W = 8 * sig
        gx, gy, f = real_fp(p, [0.0, X, -W, W], [0.0, 0.0], None)
        errs.append(abs(float(f.sum()) - target))
    if not (errs[2] <= 5e-5 and errs[2] <= max(errs[0], 5e-6)):
        return fail("C19/mass", "the footprint sum does not tend to the regularised incomplete gamma mass Q(mu, xi/X) as the grid is refined", None,
                    "decreasing, final <= 5e-5", [float(e) for e in errs], None)
    return None


@oracle
def o_z0(case):
    from bldfm.ffm_kormann_meixner import estimateZ0, _psiM
    rng = np.random.default_rng(case["seed"])
    n = case["n"]
    zm = np.full(n, case["zm"])
    ws = rng.uniform(2, 8, n)
    wd = rng.uniform(0, 360, n)
    if case.get("whole_degrees"):
        # whole-degree directions (as written by most loggers): observations sit exactly on bin and window edges
        wd = np.floor(wd)
        if case.get("int_wd"):
            wd = wd.astype(int)
    us = rng.uniform(0.15, 0.7, n)
    L = np.where(rng.random(n) < 0.5, -rng.uniform(20, 500, n), rng.uniform(30, 800, n))
    if case.get("outliers"):
        # very stable, nearly calm records: the raw inversion gives a finite roughness length of kilometres, which the
        # function discards (> 1000 m); the smoothing must then go on WITHOUT those records
        k = rng.choice(n, size=min(case["outliers"], n), replace=False)
        L[k], us[k], ws[k] = 5.0, 0.4, 1.0
    z0 = estimateZ0(zm, ws, wd, us, L, half_wd_win=0)
    psim = _psiM(zm, L)
    back = us / 0.4 * (np.log(zm / z0) + psim)
    okm = np.isfinite(z0)
    if not np.allclose(back[okm], ws[okm], rtol=1e-10):
        return fail("C19/z0-loglaw", "the roughness-length estimate does not invert the diabatic log law", None, "ws", "differs", 1e-10)
    a = estimateZ0(zm, ws, wd, us, L)
    # independent reference: median of the raw z0 over the circular window [kk - h, kk + 1 + h) of the observation's 1-degree bin
    h = 22
    wdf = np.asarray(wd, dtype=float)
    ref = np.full(n, np.nan)
    for j in range(n):
        kk = np.floor(wdf[j])
        d = (wdf - (kk - h)) % 360.0
        sel = d < (2 * h + 1)
        ref[j] = np.nanmedian(z0[sel])
    same0 = np.isclose(a, ref, rtol=1e-12, atol=0) | (np.isnan(a) & np.isnan(ref))
    if not np.all(same0):
        return fail("C19/z0-window", "the smoothed roughness length is not the median over the circular +-22 degree window of the observation's bin",
                    None, float(ref[~same0][0]), float(a[~same0][0]), 1e-12)
    # the same argument arrays again after their contents changed in place (a processing loop that refills its buffers), and the arguments
    # themselves left untouched by the call
    keep = [np.array(x, copy=True) for x in (zm, ws, wd, us, L)]
    estimateZ0(zm, ws, wd, us, L)
    if not all(np.array_equal(x, y, equal_nan=True) for x, y in zip(keep, (zm, ws, wd, us, L))):
        return fail("C19/z0-mutates-input", "estimateZ0 modifies its argument arrays", None, "unchanged", "changed", 0)
    ws2, us2 = ws.copy(), us.copy()
    estimateZ0(zm, ws2, wd, us2, L)
    ws2 *= 1.07
    us2[...] = np.roll(us2, 3)
    a_in = estimateZ0(zm, ws2, wd, us2, L)
    a_cp = estimateZ0(zm.copy(), ws2.copy(), np.array(wd, copy=True), us2.copy(), L.copy())
    if not np.array_equal(a_in, a_cp, equal_nan=True):
        return fail("C19/z0-inplace", "the estimate for argument arrays whose contents were changed in place is not the estimate of their current values", None,
                    "equal", int(np.sum(~(np.isclose(a_in, a_cp, rtol=0, atol=0) | (np.isnan(a_in) & np.isnan(a_cp))))), 0)
    rho = case["rho"]
    b = estimateZ0(zm, ws, (wd + rho) % 360.0, us, L)
    same = np.isclose(a, b, rtol=1e-12, atol=0) | (np.isnan(a) & np.isnan(b))
    if not np.all(same):
        return fail("C19/z0-rotation", "the smoothed roughness length changes under a common whole-degree rotation of all wind directions", None,
                    "invariant", int((~same).sum()), 1e-12)
    # integer-typed inputs
    zi = estimateZ0(np.full(n, int(round(case["zm"]))), ws, wd, us, L, half_wd_win=0)
    zf = estimateZ0(np.full(n, float(int(round(case["zm"])))), ws, wd, us, L, half_wd_win=0)
    if not np.allclose(zi, zf, rtol=1e-12, equal_nan=True):
        return fail("C19/int-dtype", "integer-typed heights change the roughness-length estimate", None, "equal", "differs", 1e-12)
    return None


def run(rng, tier, deep):
    from bldfm import ffm_kormann_meixner as km
    st = new_stats()
    items = []
    for _ in range(budget(tier, deep, 80, 800)):
        p = gen_par(rng)
        wdk = rng.random()
        wd = None if wdk < 0.3 else float(rng.choice([rng.uniform(0, 360), 90.0, 180.0, 270.0, 0.0]))
        mxy = [float(rng.normal() * 5), float(rng.normal() * 5)]
        ext = 8
        dom = [-ext * p["res"], ext * p["res"], -ext * p["res"], ext * p["res"]]
        try:
            gx, gy, f = real_fp(p, dom, mxy, wd)
        except Exception as e:  # noqa: BLE001
            st["disagreements"].append(dict(what="km: the implementation raised %s: %s" % (type(e).__name__, str(e)[:120]), op=str(p)))
            continue
        idx = rng.choice(gx.size, size=12, replace=False)
        pts = np.column_stack([gx.ravel()[idx], gy.ravel()[idx]]).ravel()
        A = np.asarray([p["zm"]])
        Lr = np.asarray([p["L"]])
        try:
            with np.errstate(all="ignore"):
                _probe = 0.4 * p["zm"] * p["ustar"] / (float(km._phiC(A, Lr)[0]) * p["zm"] ** float(km._nParam(A, Lr)[0]))
        except Exception as e:  # noqa: BLE001
            st["disagreements"].append(dict(what="km: the implementation's helper values cannot be combined (%s: %s) for L = %r"
                                            % (type(e).__name__, str(e)[:80], p["L"]), op=str(p)))
            continue
        m = float(km._mParam(A, np.asarray([p["ws"]]), np.asarray([p["ustar"]]), Lr)[0])
        n = float(km._nParam(A, Lr)[0])
        kappa = 0.4 * p["zm"] * p["ustar"] / (float(km._phiC(A, Lr)[0]) * p["zm"] ** n)
        U = p["ustar"] * (np.log(p["zm"] / p["z0"]) + float(km._psiM(A, Lr)[0])) / (0.4 * p["zm"] ** m)
        r = 2 + m - n
        mu = (1 + m) / r
        Xi = U * p["zm"] ** r / (r ** 2 * kappa)
        from scipy import special as sp
        Aco = U / (sp.gamma(1 / r) * p["sigma_v"]) * (kappa * r ** 2 / U) ** (m / r)
        vals = np.concatenate([[m, n, kappa, U, r, mu, Xi, Aco], f.ravel()[idx]])
        line = "km %s %s %s %s %s %s %s %s %s %s %d %s" % (fhex(p["zm"]), fhex(p["z0"]), fhex(p["ws"]), fhex(p["ustar"]), fhex(p["L"]),
                                                          fhex(p["sigma_v"]), fhex(p["res"]), fhex(mxy[0]), fhex(mxy[1]),
                                                          "none" if wd is None else fhex(wd), 12, " ".join(fhex(v) for v in pts))
        items.append((line, ("ok", vals)))
        z0r = float(km.estimateZ0(A, np.asarray([p["ws"]]), np.asarray([10.0]), np.asarray([p["ustar"]]), Lr, half_wd_win=0)[0])
        items.append((op_line("kmz0", p["zm"], p["ws"], p["ustar"], p["L"]),
                      ("ok", np.array([z0r, float(km._phiM(A, Lr)[0]), float(km._phiC(A, Lr)[0]), float(km._psiM(A, Lr)[0]), m, n]))))
    correspond_scalar(items, st, tol=1e-9)
    for _ in range(budget(tier, deep, 40, 500)):
        run_oracle(st, o_km, dict(p=gen_par(rng), ext=int(rng.integers(6, 14)), half=int(rng.integers(4, 9)),
                                  half_cells=[(0, 0), (int(rng.integers(-3, 9)), 0), (int(rng.integers(-3, 9)), int(rng.integers(-4, 5)))][int(rng.integers(3))],
                                  wd=float(rng.uniform(0, 360)), mxy=[float(rng.normal() * 3), float(rng.normal() * 3)]))
    for _ in range(budget(tier, deep, 6, 60)):
        p = gen_par(rng, wide=False)     # the refinement sequence and its 5e-5 target are tuned to moderate stability (|zm/L| <= 1.6)
        run_oracle(st, o_mass, dict(p=p, N=int(rng.integers(25, 75)), res0=float(p["zm"] * 0.8)))
    for _ in range(budget(tier, deep, 10, 100)):
        run_oracle(st, o_z0, dict(outliers=int(rng.choice([0, 0, 1, 3, 8])), seed=int(rng.integers(1 << 30)), n=int(rng.integers(50, 400)), zm=float(rng.uniform(2, 30)),
                                  rho=float(rng.integers(1, 360)), whole_degrees=bool(rng.random() < 0.6), int_wd=bool(rng.random() < 0.5)))
    return finish(st, "physically consistent (zm, z0, ws, ustar, L, sigma_v) with both stabilities, Python int / float / numpy int64 / float32 heights, "
                  "resolutions and extents, receptor positions, wind directions (multiples of 90 degrees exactly, arbitrary pointwise); correspondence of the "
                  "power-law parameters and of 12 random cells per case (1e-9; the model's Gamma is a Lanczos approximation); oracle written from the paper's "
                  "equations with scipy.special: cell-by-cell closed form, sign/downwind/symmetry, dtype, rotations, refinement of the mass towards "
                  "gammaincc, z0 inverts the log law and is invariant under whole-degree rotations", deep, 1e-9)
