from props.solverfam import run_C05 as run, replay  # noqa: F401
