"""Shared helpers for properties whose tie is a scalar-kernel correspondence."""
import numpy as np

from common import run_driver, fhex, unhex
from props.solverfam import new_stats, finish, budget, run_oracle, ORACLES, oracle, fail, jsonable  # noqa: F401


def op_line(name, *vals):
    return name + " " + " ".join(v if isinstance(v, str) else fhex(v) for v in vals)


def parse_ok(line):
    t = line.split()
    if t[0] == "err":
        return ("err", t[1])
    if t[0] != "ok":
        return ("bad", line[:60])
    return ("ok", np.array([unhex(x) for x in t[1:]]))


def correspond_scalar(items, stats, tol=1e-12, label="scalar"):
    """items: list of (op_line, impl_result) with impl_result = ('ok', array) | ('err', kind)"""
    if not items:
        return
    outs = run_driver([it[0] for it in items])
    for (line, impl), o in zip(items, outs):
        m = parse_ok(o)
        stats["corr_cases"] += 1
        name = line.split()[0]
        stats["branches"]["op=" + name] = stats["branches"].get("op=" + name, 0) + 1
        if impl[0] == "err" or m[0] != "ok":
            if impl[0] == "err" and m[0] == "err" and impl[1] == m[1]:
                stats["branches"]["err=" + impl[1]] = stats["branches"].get("err=" + impl[1], 0) + 1
                continue
            stats["disagreements"].append(dict(what="%s: impl %s vs model %s" % (name, impl[:2], m[:2]), op=line[:400]))
            continue
        a, b = np.asarray(impl[1], dtype=float).ravel(), m[1]
        if a.shape != b.shape:
            stats["disagreements"].append(dict(what="%s: %d values vs %d" % (name, a.size, b.size), op=line[:400]))
            continue
        both_nan = np.isnan(a) & np.isnan(b)
        sc = np.maximum(1.0, np.abs(a))
        with np.errstate(invalid="ignore"):
            gap = np.where(both_nan, 0.0, np.abs(a - b) / sc)
            gap = np.where((a == b), 0.0, gap)
        g = float(np.nanmax(gap)) if gap.size else 0.0
        if np.isnan(gap).any():
            g = float("inf")
        if np.isfinite(g):
            stats["worst_gap"] = max(stats["worst_gap"], g)
        if not g <= tol:
            stats["disagreements"].append(dict(what="%s: values differ, gap %.3e > %.1e" % (name, g, tol), op=line[:400],
                                               impl=a.tolist()[:8], model=b.tolist()[:8]))


def replay(rep):
    inp = rep["input"]
    return ORACLES[inp["oracle"]](inp["case"])
