"""C13 — config-driven single run == the explicit wind -> profiles -> source -> solver pipeline."""
import inspect
import os
import tempfile

import numpy as np

from common import run_driver
from props.scalarfam import new_stats, finish, budget, run_oracle, oracle, fail, replay, correspond_scalar, op_line  # noqa: F401

CLOSURES = ["MOST", "MOSTM", "CONSTANT", "OAAHOC"]
PRECS = ["single", "double"]
SHAPES = ["diamond", "circle", "point"]


MODES = [4, 6, 8, 8, 10, 14, 20, 512]


def gen_cfg(rng):
    """a valid configuration as a plain dict (parse_config_dict input) + bookkeeping"""
    nx, ny = int(rng.choice([8, 10, 12])), int(rng.choice([8, 10, 12]))
    nz = int(rng.choice([4, 5, 6]))
    xmax, ymax = float(rng.uniform(80, 200)), float(rng.uniform(80, 200))
    ntw = int(rng.integers(1, 4))
    nstep = int(rng.integers(1, 4))
    closure = str(rng.choice(CLOSURES))
    forcing = "ustar" if closure == "OAAHOC" else str(rng.choice(["ustar", "z0", "both"]))
    lst = rng.random() < 0.6

    def series(lo, hi, unstable=False):
        v = [float(rng.uniform(lo, hi)) for _ in range(nstep)]
        return v if lst else v[0]
    met = dict(wind_speed=series(2, 6), wind_dir=series(0, 360), mol=(series(-300, -40) if rng.random() < 0.5 else series(80, 500)))
    if forcing in ("z0", "both"):
        # ordinary land surfaces, and the ends of the scale: open water / ice (a tenth of a millimetre) and tall canopies (metres)
        met["z0"] = float(rng.choice([rng.uniform(0.02, 0.12), rng.uniform(0.02, 0.12), 1e-4, 5e-4, 2.2]))
    if forcing in ("ustar", "both"):
        met["ustar"] = series(0.3, 0.5)     # with both given, the roughness length takes precedence
    if not lst:
        nstep = 1
    if rng.random() < 0.5:
        met["timestamps"] = ["2024-01-01T%02d:00" % k for k in range(nstep)]
    dom = dict(nx=nx, ny=ny, xmax=xmax, ymax=ymax, nz=nz, modes=[int(rng.choice(MODES)), int(rng.choice(MODES))],      # below / between / above the two padded sizes (8..20 cells)
               ref_lat=float(rng.uniform(-50, 50)), ref_lon=float(rng.uniform(-100, 100)))
    hk = rng.random()
    if hk < 0.5:
        dom["halo"] = float(rng.uniform(5, 40))
    elif hk < 0.65:
        dom["halo"] = 0.0          # a legitimate setting: no zero padding at all
    lk = rng.choice(["default", "full", "levels", "empty"])
    if lk == "full":
        dom["full_output"] = True
    elif lk == "levels":
        dom["output_levels"] = [int(x) for x in rng.choice(nz + 1, size=int(rng.integers(1, 4)), replace=False)]
    elif lk == "empty":
        dom["output_levels"] = []
        dom["full_output"] = bool(rng.random() < 0.5)
    sol = dict(closure=closure, precision=str(rng.choice(PRECS)), footprint=bool(rng.random() < 0.6), analytic=bool(rng.random() < 0.25),    # the closed form with the top-level values, for ANY closure (the solver accepts it)
              
               surface_flux_shape=str(rng.choice(SHAPES)))
    if rng.random() < 0.3:
        sol["src_loc"] = [float(xmax * rng.uniform(0.3, 0.7)), float(ymax * rng.uniform(0.3, 0.7))]
    towers = []
    for k in range(ntw):
        # towers inside the domain, different heights
        towers.append(dict(name="T%d" % k, lat=dom["ref_lat"] + float(rng.uniform(1e-4, 6e-4)), lon=dom["ref_lon"] + float(rng.uniform(1e-4, 8e-4)),
                           z_m=float(rng.uniform(2.5, 6.0))))
    if met.get("z0") is not None and met["z0"] > 1.0:
        for t_ in towers:
            t_["z_m"] = float(rng.uniform(25.0, 40.0))      # a mast above the canopy
    if rng.random() < 0.25:
        # a tower exactly at the reference origin (x = y = 0.0), or due north / east of it (one coordinate exactly 0.0)
        kk = int(rng.integers(ntw))
        which = int(rng.integers(3))
        if which in (0, 1):
            towers[kk]["lon"] = dom["ref_lon"]
        if which in (0, 2):
            towers[kk]["lat"] = dom["ref_lat"]
    return dict(domain=dom, towers=towers, met=met, solver=sol), nstep


class Recorder:
    """replaces the four primitives in bldfm.interface by recorders that also call the originals"""

    def __init__(self):
        import bldfm.interface as itf
        self.itf = itf
        self.calls = {}
        self.orig = {n: getattr(itf, n) for n in ("compute_wind_fields", "vertical_profiles", "ideal_source", "steady_state_transport_solver")}

    def __enter__(self):
        for n, f in self.orig.items():
            def mk(n=n, f=f):
                def w(*a, **k):
                    out = f(*a, **k)
                    # the effective call: every parameter by name, defaults applied (an omitted keyword
                    # and the same keyword passed with its default value are the same call)
                    try:
                        b = inspect.signature(f).bind(*a, **k)
                        b.apply_defaults()
                        kk = dict(b.arguments)
                    except (TypeError, ValueError):
                        kk = dict(k)
                    self.calls.setdefault(n, []).append((a, kk, out))
                    return out
                return w
            setattr(self.itf, n, mk())
        return self

    def __exit__(self, *a):
        for n, f in self.orig.items():
            setattr(self.itf, n, f)


def ids():
    """value -> small integer identifiers shared with the model"""
    table = {}

    def f(v):
        key = repr(v)
        if key not in table:
            table[key] = len(table) + 10
        return table[key]
    return f


def enc_met(met, nstep, ident):
    def ev(v):
        if v is None:
            return "N"
        if isinstance(v, list):
            return "L:" + ",".join(str(ident(("met", x))) for x in v)
        return "S:%d" % ident(("met", v))
    ts = met.get("timestamps")
    return " ".join([ev(met.get("ustar")), ev(met.get("mol", 1e9)), ev(met.get("wind_speed", 5.0)), ev(met.get("wind_dir", 270.0)),
                     ev(met.get("z0")), "N" if ts is None else "L:" + ",".join(str(ident(("ts", t))) for t in ts)])


def model_and_impl(raw, nstep, tw_i, mi, flux, cache_obj):
    """returns (model op line, impl canonical line) for one run_bldfm_single"""
    from bldfm.config_parser import parse_config_dict
    from bldfm.interface import run_bldfm_single
    cfg = parse_config_dict(raw)
    tower = cfg.towers[tw_i]
    ident = ids()
    dom, sol = cfg.domain, cfg.solver
    ol = dom.output_levels
    line = " ".join(str(x) for x in [
        "single", ident(dom.nx), ident(dom.ny), ident(dom.xmax), ident(dom.ymax), dom.nz, ident(tuple(dom.modes)),
        "N" if dom.halo is None else ident(dom.halo), "N" if ol is None else "L:" + ",".join(str(l) for l in ol), int(bool(dom.full_output)),
        ident(sol.closure), ident(sol.precision), int(sol.footprint), int(sol.analytic), ident(sol.surface_flux_shape),
        "N" if sol.src_loc is None else ident(tuple(sol.src_loc)),
        ident(tower.name), ident(tower.x), ident(tower.y), ident(tower.z_m),
        enc_met(raw["met"], nstep, ident), mi, "N" if flux is None else ident(("flux", id(flux))), "N" if cache_obj is None else ident(("cache", id(cache_obj)))])
    with Recorder() as rec:
        try:
            res = run_bldfm_single(cfg, tower, met_index=mi, surface_flux=flux, cache=cache_obj)
        except IndexError:
            return line, "err IndexError", None, None
    c = rec.calls

    def so(v, tag=None):
        if v is None:
            return "N"
        return str(ident((tag, v)) if tag else ident(v))
    (wa, wk, wout) = c["compute_wind_fields"][0]
    (pa, pk, pout) = c["vertical_profiles"][0]
    (sa, sk, sout) = c["steady_state_transport_solver"][0]
    if c.get("ideal_source"):
        (ia, ik, iout) = c["ideal_source"][0]
        src = "ideal %d %d %d %d %s %d" % (ident(ik["nxy"][0]), ident(ik["nxy"][1]), ident(ik["domain"][0]), ident(ik["domain"][1]),
                                           "N" if ik.get("src_loc") is None else str(ident(tuple(ik["src_loc"]))), ident(ik["shape"]))
        src_ok = sk["srf_flx"] is iout
    else:
        src = "user"
        src_ok = sk["srf_flx"] is flux
    lv = sk["levels"]
    lvs = "S:%d" % lv if np.ndim(lv) == 0 else "L:" + ",".join(str(int(l)) for l in lv)
    step = res["params"]
    ts = res["timestamp"]
    impl = ("ok wind %s %s prof %d %d %s %s %s %d src %s %s sol %d %d %s %d %d %d %s %s %s %d %s lab %d %d %d %s %s %s %s %s %s" % (
        so(wk["u_rot"], "met"), so(wk["wind_dir"], "met"), pk["n"], ident(pk["meas_height"]), so(pk.get("ustar"), "met"), so(pk.get("z0"), "met"),
        so(pk["mol"], "met"), ident(pk["closure"]), src, "N" if flux is None else str(ident(("flux", id(flux)))),
        ident(sk["domain"][0]), ident(sk["domain"][1]), lvs, ident(tuple(sk["modes"])), ident(sk["meas_pt"][0]), ident(sk["meas_pt"][1]),
        str(bool(sk["footprint"])).lower(), str(bool(sk["analytic"])).lower(), "N" if sk["halo"] is None else str(ident(sk["halo"])),
        ident(sk["precision"]), "N" if sk["cache"] is None else str(ident(("cache", id(sk["cache"])))),
        ident(res["tower_name"]), ident(res["tower_xy"][0]), ident(res["tower_xy"][1]),
        ("t%d" % ident(("ts", ts))) if isinstance(ts, str) else "i%d" % ts,
        so(step.get("ustar"), "met"), so(step.get("mol"), "met"), so(step.get("wind_speed"), "met"), so(step.get("wind_dir"), "met"),
        so(step.get("z0"), "met")))
    # dataflow between the primitives: profiles get the wind the decomposition returned, the solver gets the profiles' outputs
    wired = (pk["wind"][0] is wout[0] or pk["wind"][0] == wout[0]) and (pk["wind"][1] == wout[1]) and sk["z"] is pout[0] and sk["profiles"] is pout[1] \
        and src_ok and res["grid"] is sout[0] and res["conc"] is sout[1] and res["flx"] is sout[2]
    return line, impl, wired, (cfg, tower, res)


@oracle
def o_pipeline(case):
    """run_bldfm_single == the by-hand pipeline on the real code, bit-exact"""
    from bldfm.config_parser import parse_config_dict
    from bldfm.interface import run_bldfm_single
    from bldfm.utils import compute_wind_fields, ideal_source
    from bldfm.pbl_model import vertical_profiles
    from bldfm.solver import steady_state_transport_solver
    raw, tw_i, mi = case["raw"], case["tower"], case["step"]
    if case.get("before") is not None:
        # an earlier run in the same process whose configuration differs in exactly one entry: whatever it leaves behind
        # (memo, reused array, module state) must not reach the run under test
        try:
            cfg0 = parse_config_dict(case["before"])
            run_bldfm_single(cfg0, cfg0.towers[min(tw_i, len(cfg0.towers) - 1)], met_index=0)
        except Exception:  # noqa: BLE001
            pass
    cfg = parse_config_dict(raw)
    how = case.get("derive")
    if how and case.get("before") is not None and not case.get("explicit_xy") and "cfg0" in dir():
        # the configuration under test DERIVED from the one that has just been run, the way a parameter sweep does it: the differing entries
        # assigned on the existing object, or dataclasses.replace() on its sections (the repository's own convergence scripts).  Fields
        # whose change re-derives other fields in __post_init__ (reference origin, towers) are left to freshly parsed configurations.
        import dataclasses
        try:
            same_geo = (cfg0.domain.ref_lat, cfg0.domain.ref_lon) == (cfg.domain.ref_lat, cfg.domain.ref_lon) and \
                [dataclasses.astuple(t) for t in cfg0.towers] == [dataclasses.astuple(t) for t in cfg.towers]
        except Exception:  # noqa: BLE001
            same_geo = False
        if same_geo:
            secs = {}
            for sec in ("domain", "met", "solver", "parallel"):
                a0, a1 = getattr(cfg0, sec, None), getattr(cfg, sec, None)
                if a0 is None or a1 is None or not dataclasses.is_dataclass(a0):
                    continue
                # only entries a user writes in that section (the keys of the two dictionaries): a sweep passes `nz=...`, not whatever else
                # the object happens to carry
                named = set(raw.get(sec) or {}) | set(case["before"].get(sec) or {})
                diff = {f.name: getattr(a1, f.name) for f in dataclasses.fields(a1)
                        if f.init and f.name in named and getattr(a0, f.name) != getattr(a1, f.name)}
                if how == "assign":
                    for k_, v_ in diff.items():
                        setattr(a0, k_, v_)
                else:
                    secs[sec] = dataclasses.replace(a0, **diff)
            cfg = cfg0 if how == "assign" else dataclasses.replace(cfg0, **secs)
    if case.get("explicit_xy"):
        # the configuration built from dataclasses, its towers carrying lat/lon AND explicitly written local coordinates: whatever the
        # configuration makes of them, the single run uses the tower's (x, y) of the configuration it is handed
        import dataclasses
        from bldfm.config_parser import TowerConfig
        ex, ey = case["explicit_xy"]
        cfg = dataclasses.replace(cfg, towers=[TowerConfig(name=t.name, lat=t.lat, lon=t.lon, z_m=t.z_m, x=ex + 7.0 * k, y=ey - 3.0 * k)
                                               for k, t in enumerate(cfg.towers)])
    tower = cfg.towers[tw_i]
    flux = None
    if case.get("flux_seed") is not None:
        flux = np.random.default_rng(case["flux_seed"]).uniform(0, 1, (cfg.domain.ny, cfg.domain.nx))
    res = run_bldfm_single(cfg, tower, met_index=mi, surface_flux=flux)
    met = raw["met"]

    def at(v, i):
        return v[i] if isinstance(v, list) else v
    u, v = compute_wind_fields(at(met.get("wind_speed", 5.0), mi), at(met.get("wind_dir", 270.0), mi))
    kw = dict(mol=at(met.get("mol", 1e9), mi), closure=raw["solver"]["closure"])
    if met.get("z0") is not None:
        kw["z0"] = met["z0"]
    else:
        kw["ustar"] = at(met["ustar"], mi)
    z, prof = vertical_profiles(raw["domain"]["nz"], tower.z_m, (u, v), **kw)
    d = raw["domain"]
    if flux is None:
        src = ideal_source((d["nx"], d["ny"]), (d["xmax"], d["ymax"]), src_loc=None if raw["solver"].get("src_loc") is None else tuple(raw["solver"]["src_loc"]),
                           shape=raw["solver"]["surface_flux_shape"])
    else:
        src = flux
    ol = d.get("output_levels")
    levels = ol if ol else (list(range(d["nz"] + 1)) if d.get("full_output") else d["nz"])
    grid, conc, flx = steady_state_transport_solver(src, z, prof, (d["xmax"], d["ymax"]), levels, modes=tuple(d["modes"]), meas_pt=(tower.x, tower.y),
                                                    footprint=raw["solver"]["footprint"], analytic=raw["solver"]["analytic"], halo=d.get("halo"),
                                                    precision=raw["solver"]["precision"])
    for name, a, b in (("conc", res["conc"], conc), ("flx", res["flx"], flx), ("X", res["grid"][0], grid[0]), ("Z", res["grid"][2], grid[2])):
        if not (np.shape(a) == np.shape(b) and np.array_equal(a, b)):
            return fail("C13/pipeline/%s" % name, "run_bldfm_single differs from the by-hand pipeline", None, "bit-identical", "differs", 0)
    exp_ts = met["timestamps"][mi] if met.get("timestamps") is not None else mi
    if res["timestamp"] != exp_ts or res["tower_name"] != tower.name or res["tower_xy"] != (tower.x, tower.y):
        return fail("C13/labels", "result does not carry the step's timestamp / the tower's name and coordinates", None,
                    [exp_ts, tower.name], [res["timestamp"], res["tower_name"]], 0)
    p = res["params"]
    for k in ("ustar", "mol", "wind_speed", "wind_dir"):
        exp = at(met.get(k, {"mol": 1e9, "wind_speed": 5.0, "wind_dir": 270.0}.get(k)), mi) if (k in met or k != "ustar") else None
        if p.get(k) != exp:
            return fail("C13/params", "result parameters are not that step's (%s)" % k, None, exp, p.get(k), 0)
    return None


@oracle
def o_yaml(case):
    """a YAML file and the equivalent dictionary parse to the same configuration"""
    import yaml
    from bldfm.config_parser import parse_config_dict, load_config
    raw = case["raw"]
    a = parse_config_dict(raw)
    fd, path = tempfile.mkstemp(suffix=".yaml", dir=os.getcwd())
    os.close(fd)
    try:
        with open(path, "w") as f:
            yaml.safe_dump(raw, f)
        b = load_config(path)
    finally:
        os.remove(path)
    if a != b:
        return fail("C13/yaml", "load_config(yaml) differs from parse_config_dict(dict)", None, "equal dataclasses", "differs", 0)
    return None


def sibling(rng, raw, which=None):
    """a copy of the configuration with exactly ONE entry changed"""
    import copy
    r = copy.deepcopy(raw)
    d, sol = r["domain"], r["solver"]
    k = int(rng.integers(11)) if which is None else which
    if k == 0:
        sol["src_loc"] = None if sol.get("src_loc") is not None else [0.4 * d["xmax"], 0.6 * d["ymax"]]
    elif k == 1:
        sol["surface_flux_shape"] = [x for x in SHAPES if x != sol["surface_flux_shape"]][int(rng.integers(len(SHAPES) - 1))]
    elif k == 2:
        d["modes"] = [d["modes"][0] + 2, d["modes"][1]]
    elif k == 3:
        d["halo"] = (d.get("halo") or 10.0) + 7.5
    elif k == 4:
        d["output_levels"] = [0, d["nz"]]
        d.pop("full_output", None)
    elif k == 5:
        sol["precision"] = [x for x in PRECS if x != sol["precision"]][0]
    elif k == 6:
        sol["footprint"] = not sol["footprint"]
    elif k == 7:
        d["xmax"] = d["xmax"] * 1.25
    elif k == 9:
        d["nz"] = d["nz"] + int(rng.choice([1, 2]))          # the vertical resolution (the default output level is node nz)
    elif k == 10:
        d["full_output"] = not d.get("full_output", False)
        if d.get("output_levels"):
            d.pop("output_levels")
    else:
        r["towers"][0]["z_m"] = r["towers"][0]["z_m"] + 0.5
    return r


def run(rng, tier, deep):
    st = new_stats()
    lines, impls, wires = [], [], []
    for _ in range(budget(tier, deep, 30, 300)):
        raw, nstep = gen_cfg(rng)
        for tw_i in range(len(raw["towers"])):
            mi = int(rng.integers(0, nstep + (1 if rng.random() < 0.1 else 0)))
            flux = None
            if rng.random() < 0.3:
                flux = rng.uniform(0, 1, (raw["domain"]["ny"], raw["domain"]["nx"]))
            cache_obj = None
            try:
                line, impl, wired, _ = model_and_impl(raw, nstep, tw_i, mi, flux, cache_obj)
            except Exception as e:  # noqa: BLE001
                # the recorded run itself failed on the implementation's behaviour (an exception out of run_bldfm_single or out of the
                # bookkeeping around it): a disagreement on THIS configuration; the oracle below still runs on it
                st["disagreements"].append(dict(what="single: the recorded run raised %s: %s" % (type(e).__name__, str(e)[:160]), op=repr(raw)[:600]))
                continue
            lines.append(line)
            impls.append(impl)
            wires.append(wired)
            for k in ("closure", "precision"):
                key = "%s=%s" % (k, raw["solver"][k])
                st["branches"][key] = st["branches"].get(key, 0) + 1
            key = "forcing=%s" % ("both" if (raw["met"].get("z0") is not None and raw["met"].get("ustar") is not None)
                                  else ("z0" if raw["met"].get("z0") is not None else "ustar"))
            st["branches"][key] = st["branches"].get(key, 0) + 1
    outs = run_driver(lines)
    for l, i, o, w in zip(lines, impls, outs, wires):
        st["corr_cases"] += 1
        if i != o.strip():
            st["disagreements"].append(dict(what="single: impl `%s` vs model `%s`" % (i[:300], o[:300]), op=l))
        if w is False:
            st["disagreements"].append(dict(what="single: outputs of one primitive are not handed unchanged to the next", op=l))
    # the source primitive of the pipeline (`ideal_source`) and `point_measurement`, cell by cell
    from bldfm.utils import ideal_source, point_measurement
    items = []
    for k in range(budget(tier, deep, 40, 400)):
        nx, ny = int(rng.integers(1, 14)), int(rng.integers(1, 14))
        xmx, ymx = float(rng.uniform(20, 400)), float(rng.uniform(20, 400))
        shape = str(rng.choice(["diamond", "circle", "point", "square"], p=[0.35, 0.3, 0.3, 0.05]))
        loc = None if rng.random() < 0.4 else (float(xmx * rng.uniform(-0.1, 1.1)), float(ymx * rng.uniform(-0.1, 1.1)))
        if k % 10 == 3:
            # a single column or row (the axis is `linspace(0, max, 1) = [0]`), off-centre source, a shape that sees it
            if rng.random() < 0.5:
                nx = 1
            else:
                ny = 1
            shape = "point"
            loc = (float(xmx * rng.uniform(0.55, 0.95)), float(ymx * rng.uniform(0.55, 0.95)))
        if k % 9 == 0 and nx > 2 and ny > 2:
            # a centre exactly on a node, and the radius reaching exactly to neighbouring nodes (ties of `R < R0`)
            xmx = 12.0 * (nx - 1)
            ymx = 12.0 * (ny - 1)
            loc = (12.0 * int(rng.integers(nx)), 12.0 * int(rng.integers(ny)))
        line = op_line("src", str(nx), str(ny), xmx, ymx, *(["N"] if loc is None else [loc[0], loc[1]]), shape)
        items.append((line, ("ok", np.asarray(ideal_source((nx, ny), (xmx, ymx), src_loc=loc, shape=shape), dtype=float))))
        st["branches"]["src=" + shape] = st["branches"].get("src=" + shape, 0) + 1
    for k in range(budget(tier, deep, 20, 200)):
        ny, nx = int(rng.integers(1, 9)), int(rng.integers(1, 9))
        f, g = rng.normal(size=(ny, nx)), rng.normal(size=(ny, nx)) * 10.0 ** rng.uniform(-6, 3)
        line = op_line("pm", str(ny), str(nx), *[float(x) for x in f.ravel()], *[float(x) for x in g.ravel()])
        items.append((line, ("ok", np.array([float(point_measurement(f, g))]))))
    correspond_scalar(items, st, tol=1e-12)
    for _ in range(budget(tier, deep, 14, 150)):
        raw, nstep = gen_cfg(rng)
        tw = int(rng.integers(len(raw["towers"])))
        before, fseed = None, (int(rng.integers(1 << 30)) if rng.random() < 0.3 else None)
        if rng.random() < 0.6:
            which = int(rng.integers(11))
            if which in (0, 1):
                # the earlier run differs in the configured SOURCE: only a dispersion run with the configured source can see it
                raw["solver"]["footprint"] = False
                fseed = None
            before = sibling(rng, raw, which)
        exy = [float(rng.uniform(10, 0.8 * raw["domain"]["xmax"])), float(rng.uniform(10, 0.8 * raw["domain"]["ymax"]))] if rng.random() < 0.25 else None
        run_oracle(st, o_pipeline, dict(raw=raw, tower=tw, step=int(rng.integers(nstep)), flux_seed=fseed, before=before, explicit_xy=exy,
                                        derive=[None, "assign", "replace"][int(rng.integers(3))] if before is not None else None))
        run_oracle(st, o_yaml, dict(raw=raw))
    return finish(st, "configurations over closures x precisions x footprint/dispersion x default/explicit halo and modes x output_levels / empty list / "
                  "full_output / default level x z0-only and ustar forcing x scalar and list forcing x 1-3 towers with different heights x every time index "
                  "(+ out-of-range) x user-supplied flux; correspondence: recorded arguments of the four primitives (which also call the originals) and the "
                  "returned labels vs the Lean call record, plus object identity of the values handed from one primitive to the next; oracle: bit-exact "
                  "equality with the by-hand pipeline, also right after a run whose configuration differs in exactly one entry (source location / shape, modes, halo, levels, precision, mode flag, domain, tower height); YAML file == dictionary", deep, 0)
