"""C20 — source-area rescaling and percentile contours."""
import numpy as np

from common import fhex
from props.scalarfam import (op_line, correspond_scalar, new_stats, finish, budget, run_oracle, oracle, fail, replay)  # noqa: F401


def gen_field(rng, n, kind):
    if kind == "random":
        return rng.uniform(0, 1, n)
    if kind == "sparse":
        f = np.zeros(n)
        idx = rng.choice(n, size=max(1, n // 5), replace=False)
        f[idx] = rng.uniform(0.1, 2, len(idx))
        return f
    if kind == "ties":
        return rng.integers(0, 4, n).astype(float)
    return np.exp(-np.linspace(0, 5, n)) * rng.uniform(0.5, 2)


@oracle
def o_rescale(case):
    from bldfm.utils import get_source_area
    f = np.array(case["f"], dtype=float).reshape(case["shape"])
    g = np.array(case["g"], dtype=case["gdtype"]).reshape(case["shape"])
    # the same numbers in another memory layout (Fortran order, a transposed view: data read with swapped dimensions, the
    # output of another library): "a cell" is an index, not a memory position

    def relayout(a, how):
        if how == "F":
            return np.asfortranarray(a)
        if how == "T":
            return np.ascontiguousarray(np.moveaxis(a, -1, 0)).transpose(*range(1, a.ndim), 0) if a.ndim > 1 else a
        if how == "S":
            big = np.zeros(tuple(2 * n for n in a.shape), dtype=a.dtype)
            big[tuple(slice(None, None, 2) for _ in a.shape)] = a
            return big[tuple(slice(None, None, 2) for _ in a.shape)]
        return a
    lay = case.get("layout") or ["C", "C"]
    f, g = relayout(f, lay[0]), relayout(g, lay[1])
    out = get_source_area(f, g)
    if out.shape != g.shape:
        return fail("C20/shape", "rescaled field does not have the shape of g", None, list(g.shape), list(out.shape), 0)
    if not np.issubdtype(out.dtype, np.floating):
        return fail("C20/int-dtype", "rescaled field is integer-typed for an integer-typed base field (sums truncated)", None, "float", str(out.dtype), 0)
    ff, gg, oo = f.ravel(), g.ravel().astype(float), out.ravel().astype(float)
    total = ff.sum()
    tol = 1e-12 * max(total, 1.0)
    for c in range(len(ff)):
        lo = ff[gg > gg[c]].sum()
        hi = ff[(gg >= gg[c])].sum() - ff[c]
        if not (lo - tol <= oo[c] <= hi + tol):
            return fail("C20/defining-sum", "rescaled value is not the sum of f over the cells whose g is larger (ties free)", None,
                        [float(lo), float(hi)], float(oo[c]), tol)
        if ff[c] > 0 and not oo[c] < total - 0.5 * ff[c]:
            return fail("C20/range", "rescaled value of a weighted cell is not below the total", None, "< total", float(oo[c]), 0)
    order = np.argsort(gg, kind="stable")
    if not np.all(np.diff(oo[order][::-1]) >= -tol) and len(set(gg)) == len(gg):
        return fail("C20/antitone", "rescaled value increases with g", None, "non-increasing in g", "increases", tol)
    # strictly increasing transformation of g (no ties so the permutation is unique)
    if len(set(gg.tolist())) == len(gg):
        # exactly order-preserving in floating point: the rank transform, then an affine map with exact arithmetic
        ranks = np.argsort(np.argsort(gg)).astype(float).reshape(g.shape)
        out2 = get_source_area(f, 2.0 * ranks - 7.0)
        if not np.allclose(out2, out, rtol=0, atol=tol):
            return fail("C20/increasing-map", "a strictly increasing transformation of g changed the result", None, "equal", "differs", tol)
        perm = np.array(case["perm"])
        out3 = get_source_area(ff[perm].reshape(-1), gg[perm].reshape(-1))
        if not np.allclose(out3, oo[perm], rtol=0, atol=tol):
            return fail("C20/permutation", "a common permutation of the cells does not permute the result", None, "equal", "differs", tol)
    # the same array OBJECTS again after their contents changed in place: the result belongs to the current values
    fb, gb = np.array(f, dtype=float), np.array(g, dtype=float)
    get_source_area(fb, gb)
    for step in ("f", "g", "both"):
        if step in ("f", "both"):
            fb[...] = np.roll(fb.ravel(), 3).reshape(fb.shape) * 1.5
        if step in ("g", "both"):
            gb[...] = -gb + 0.25 * np.roll(gb.ravel(), 1).reshape(gb.shape)
        a_ = np.asarray(get_source_area(fb, gb), dtype=float)
        b_ = np.asarray(get_source_area(fb.copy(), gb.copy()), dtype=float)
        if not np.array_equal(a_, b_):
            return fail("C20/inplace", "rescaling arrays whose contents were changed in place (%s) is not the rescaling of their current values" % step, None,
                        "equal", float(np.max(np.abs(a_ - b_))), 0)
    return None


@oracle
def o_percentile(case):
    from bldfm.plotting.footprint import extract_percentile_contour
    f = np.array(case["f"], dtype=float).reshape(case["shape"])
    dx, dy = case["dx"], case["dy"]
    ny, nx = case["shape"][-2:]
    x, y = np.arange(nx) * dx, np.arange(ny) * dy
    if case["coords"] == "2d":
        X, Y = np.meshgrid(x, y)
        grid = (X, Y, np.zeros_like(X))
    else:
        grid = (x, y, np.zeros(1))
    lvl = case.get("level", 0)
    if len(case["shape"]) == 3:
        X3 = np.broadcast_to(np.meshgrid(x, y)[0], case["shape"])
        Y3 = np.broadcast_to(np.meshgrid(x, y)[1], case["shape"])
        # real output heights (not 0, 1, 2, ...: "level" is an INDEX into the stack, whatever type of integer carries it)
        hts = np.array([0.0, 4.0, 8.0, 16.0, 32.0])[: case["shape"][0]]
        Z3 = np.broadcast_to(hts[:, None, None], case["shape"]).copy()
        grid = (X3, Y3, Z3 if case.get("zkind", "3d") == "3d" else hts)
        f2 = f[case["level"]]
        lvl = {"int": int, "int64": np.int64, "int32": np.int32, "intp": np.intp}[case.get("level_type", "int")](case["level"])
    else:
        f2 = f
    cell = dx * dy
    res = []
    for p in case["ps"]:
        level, area = extract_percentile_contour(f, grid, pct=p, level=lvl)
        vals = np.sort(f2.ravel())[::-1]
        total = vals.sum()
        cs = np.cumsum(vals)
        k = int(np.argmax(cs >= p * total - 1e-12 * total)) if total > 0 else 0
        # fewest highest-valued cells whose sum reaches p of the total
        kk = int(round(area / cell)) - 1
        if not (0 <= kk < len(vals)):
            return fail("C20/percentile-count", "cell count of the contour out of range", None, "0..n-1", kk, 0)
        if not abs(area - (kk + 1) * cell) <= 1e-12 * (kk + 1) * cell:
            return fail("C20/percentile-area", "the returned area is not (number of selected cells) x dx x dy (dx = %r, dy = %r)" % (dx, dy), None, float((kk + 1) * cell), float(area), 1e-12)
        if not cs[kk] >= p * total * (1 - 1e-9):
            return fail("C20/percentile-reach", "the returned cells do not reach p of the total", None, float(p * total), float(cs[kk]), 1e-9)
        if kk > 0 and not cs[kk - 1] < p * total * (1 + 1e-9):
            return fail("C20/percentile-fewest", "fewer cells would already reach p of the total", None, kk - 1, kk, 1e-9)
        if not abs(level - vals[kk]) <= 1e-12 * max(1, abs(vals[kk])):
            return fail("C20/percentile-level", "level is not the smallest of the selected cells", None, float(vals[kk]), level, 1e-12)
        res.append((level, area))
    for (l1, a1), (l2, a2) in zip(res, res[1:]):
        if not (a2 >= a1 - 1e-12 and l2 <= l1 + 1e-12):
            return fail("C20/percentile-mono", "area decreases or level increases with p", None, "monotone", [res], 0)
    lam = case["lam"]
    l3, a3 = extract_percentile_contour(lam * f, grid, pct=case["ps"][0], level=lvl)
    if not (abs(l3 - lam * res[0][0]) <= 1e-12 * max(1.0, abs(l3)) and abs(a3 - res[0][1]) <= 1e-9 * cell):
        return fail("C20/percentile-scale", "scaling f does not scale the level / keep the area", None, [lam * res[0][0], res[0][1]], [l3, a3], 1e-12)
    # the SAME array object evaluated again after its contents changed in place (a running-mean buffer, `f *= c`, a masked update): the result
    # is that of the values it holds NOW - compared with a fresh copy of those values
    buf = np.array(f, dtype=float)
    extract_percentile_contour(buf, grid, pct=case["ps"][0], level=lvl)
    for step in ("scale", "refill", "mask"):
        if step == "scale":
            buf *= lam
        elif step == "refill":
            buf[...] = np.roll(buf, 5, axis=-1)[..., ::-1, :] ** 2
        else:
            buf[..., ::2, 1::3] = 0.0
        for p in case["ps"][:2]:
            a_ = extract_percentile_contour(buf, grid, pct=p, level=lvl)
            b_ = extract_percentile_contour(buf.copy(), grid, pct=p, level=lvl)
            if not (a_[0] == b_[0] and a_[1] == b_[1]):
                return fail("C20/percentile-inplace", "the contour of an array whose contents were changed in place (%s) is not the contour of its current values (p=%g)" % (step, p),
                            None, [float(b_[0]), float(b_[1])], [float(a_[0]), float(a_[1])], 0)
    return None


@oracle
def o_base_grid(case):
    """the four geometric base fields on a whole grid: finite everywhere (a NaN sorts FIRST in the descending order and adds its
    weight to every other cell), equal to their level-set geometry, and a rescaling through them obeys the defining sum.  Towers ON
    grid nodes and winds along lattice directions of the grid put many cells EXACTLY on the wind axis / its normal."""
    from bldfm.utils import (get_source_area, source_area_circular, source_area_upwind, source_area_crosswind, source_area_sector)
    ny, nx, dx, dy = case["ny"], case["nx"], case["dx"], case["dy"]
    xm, ym = case["meas_pt"]
    u, v = case["wind"]
    X, Y = np.meshgrid(np.arange(nx) * dx, np.arange(ny) * dy)
    rx, ry = X - xm, Y - ym
    sp = np.hypot(u, v)
    along = (u * rx + v * ry) / sp                     # signed distance along the wind (positive downwind)
    cross = (-v * rx + u * ry) / sp
    ref = dict(circular=-(rx ** 2 + ry ** 2), upwind=along, crosswind=-(cross ** 2),
               sector=-np.abs(np.arctan2(-cross, -along)))          # angle between r and the UPWIND direction
    got = dict(circular=source_area_circular(X, Y, (xm, ym)), upwind=source_area_upwind(X, Y, (xm, ym), (u, v)),
               crosswind=source_area_crosswind(X, Y, (xm, ym), (u, v)), sector=source_area_sector(X, Y, (xm, ym), (u, v)))
    f = np.array(case["f"], dtype=float).reshape(ny, nx)
    scale = max(float(np.hypot(nx * dx, ny * dy)), 1.0)
    away = (rx ** 2 + ry ** 2) > 0                     # the direction of the tower's own cell is undefined
    for kind in ("circular", "upwind", "crosswind", "sector"):
        g = np.asarray(got[kind], dtype=float)
        if g.shape != (ny, nx):
            return fail("C20/base-shape", "base field %s does not have the grid's shape" % kind, None, [ny, nx], list(g.shape), 0)
        if not np.all(np.isfinite(g)):
            j, i = [int(k[0]) for k in np.where(~np.isfinite(g))]
            return fail("C20/base-nonfinite", "base field %s is not finite at cell (%d, %d) (%d cells in all): a NaN is ranked first by the "
                        "descending sort and its weight is added to every other cell" % (kind, j, i, int(np.sum(~np.isfinite(g)))), None, "finite", float(g[j, i]), 0)
        tol = 1e-9 * (scale ** 2 if kind in ("circular", "crosswind") else scale if kind == "upwind" else 1.0)
        d = np.abs(g - ref[kind])
        if kind == "sector":
            d = np.where(away, np.minimum(d, np.abs(d - 2 * np.pi)), 0.0)
            # a cell exactly downwind has angle pi from either side
        if not np.all(d <= tol):
            j, i = [int(k) for k in np.unravel_index(int(np.argmax(d)), d.shape)]
            return fail("C20/base-geometry", "base field %s is not its level-set geometry at cell (%d, %d)" % (kind, j, i), None,
                        float(ref[kind][j, i]), float(g[j, i]), tol)
        out = np.asarray(get_source_area(f, g), dtype=float)
        ff, gg, oo = f.ravel(), g.ravel(), out.ravel()
        total = ff.sum()
        tl = 1e-12 * max(total, 1.0)
        for c in range(len(ff)):
            lo = ff[gg > gg[c]].sum()
            hi = ff[gg >= gg[c]].sum() - ff[c]
            if not (lo - tl <= oo[c] <= hi + tl):
                return fail("C20/defining-sum", "rescaled value through the %s base field is not the sum of f over the cells whose g is larger" % kind,
                            None, [float(lo), float(hi)], float(oo[c]), tl)
    return None


def gen_base_grid(rng):
    ny, nx = int(rng.integers(3, 12)), int(rng.integers(3, 12))
    dx = float(rng.choice([1.0, 6.25, 20.0, 100.0 / 64, float(rng.uniform(0.5, 30))]))
    dy = dx if rng.random() < 0.5 else float(rng.choice([1.0, 4.0, 6.25, float(rng.uniform(0.5, 30))]))
    if rng.random() < 0.7:
        xm, ym = float(int(rng.integers(0, nx)) * dx), float(int(rng.integers(0, ny)) * dy)      # exactly on a grid node
    else:
        xm, ym = float(rng.uniform(0, nx * dx)), float(rng.uniform(0, ny * dy))
    k = rng.random()
    if k < 0.6:
        a, b = 0, 0
        while a == 0 and b == 0:
            a, b = int(rng.integers(-3, 4)), int(rng.integers(-3, 4))
        sfac = float(rng.choice([1.0, 3.0, 0.5, 2.5, float(rng.uniform(0.1, 9))]))
        u, v = sfac * a * dx, sfac * b * dy                 # along a lattice direction of the grid
        if rng.random() < 0.4:
            u, v = sfac * a, sfac * b                       # ... or of the unit lattice (45 degrees on square cells)
    else:
        u, v = float(rng.normal() * 4), float(rng.normal() * 4)
    if u == 0.0 and v == 0.0:
        u = 1.0
    return dict(ny=ny, nx=nx, dx=dx, dy=dy, meas_pt=[xm, ym], wind=[float(u), float(v)], f=gen_field(rng, ny * nx, str(rng.choice(["random", "sparse", "smooth"]))).tolist())


def run(rng, tier, deep):
    from bldfm.utils import (get_source_area, source_area_circular, source_area_upwind, source_area_crosswind,
                             source_area_sector, source_area_contribution)
    from bldfm.plotting.footprint import extract_percentile_contour
    st = new_stats()
    items = []
    for _ in range(budget(tier, deep, 120, 1200)):
        n = int(rng.integers(1, 30))
        f = gen_field(rng, n, str(rng.choice(["random", "sparse", "ties", "smooth"])))
        g = rng.choice([rng.normal(size=n), f, rng.integers(0, 5, n).astype(float)])
        g = np.asarray(g, dtype=float)
        perm = np.argsort(g.ravel())[::-1]   # the permutation numpy actually returns is handed to the model
        out = get_source_area(f, g)
        items.append(("sa %d %s %s" % (n, " ".join(fhex(x) for x in f), " ".join(str(int(p)) for p in perm)), ("ok", out)))
        nn = int(rng.integers(2, 40))
        ff = gen_field(rng, nn, str(rng.choice(["random", "sparse", "ties", "smooth"])))
        if ff.sum() <= 0:
            ff[0] = 1.0
        dx, dy = float(rng.uniform(0.5, 20)), float(rng.uniform(0.5, 20))
        p = float(rng.choice([rng.uniform(0.01, 1.0), 1.0, 0.5]))
        x = np.arange(nn) * dx
        X, Y = np.meshgrid(x, np.arange(2) * dy)
        f2 = np.vstack([ff, np.zeros(nn)])
        level, area = extract_percentile_contour(f2, (X, Y, None), pct=p)
        srt = np.sort(f2.ravel())[::-1]
        cell = abs(X[0, 1] - X[0, 0]) * abs(Y[1, 0] - Y[0, 0])
        items.append(("pct %d %s %s %s" % (len(srt), " ".join(fhex(v) for v in srt), fhex(cell), fhex(p)), ("ok", np.array([level, area]))))
        xy = rng.normal(size=6) * 50
        u, v = float(xy[4] / 10) or 1.0, float(xy[5] / 10)
        X1, Y1 = np.array([[xy[0]]]), np.array([[xy[1]]])
        mp, wd = (float(xy[2]), float(xy[3])), (u, v)
        for kind, val in (("circular", source_area_circular(X1, Y1, mp)), ("upwind", source_area_upwind(X1, Y1, mp, wd)),
                          ("crosswind", source_area_crosswind(X1, Y1, mp, wd)), ("sector", source_area_sector(X1, Y1, mp, wd))):
            items.append((op_line("base", kind, float(xy[0]), float(xy[1]), mp[0], mp[1], u, v), ("ok", np.array([float(val[0, 0])]))))
    correspond_scalar(items, st, tol=1e-12)
    for _ in range(budget(tier, deep, 150, 2000)):
        three_d = rng.random() < 0.25
        ny, nx = int(rng.integers(2, 7)), int(rng.integers(2, 7))
        shape = [2, ny, nx] if three_d else [ny, nx]
        n = int(np.prod(shape))
        f = gen_field(rng, n, str(rng.choice(["random", "sparse", "ties", "smooth"])))
        gk = str(rng.choice(["float", "f", "int", "base"]))
        if gk == "float":
            g, gd = rng.normal(size=n), "float64"
        elif gk == "f":
            # the "contribution" base function: g = the footprint itself (a COPY: rescaling must not alias its input)
            f_in = f.reshape(shape).copy()
            g = np.asarray(source_area_contribution(f_in), dtype=float)
            if g.shape != tuple(shape) or not np.array_equal(g, f.reshape(shape)) or np.shares_memory(g, f_in):
                st["oracle_failures"].append(dict(key="C20/contribution", what="source_area_contribution is not a copy of the footprint",
                                                  input=dict(oracle="o_rescale", case=dict(f=f.tolist(), g=f.tolist(), gdtype="float64", shape=shape,
                                                                                           perm=list(range(n)))), expected="copy of f", observed="differs"))
            g, gd = g.ravel(), "float64"
        elif gk == "int":
            g, gd = rng.permutation(n).astype(float) if rng.random() < 0.5 else rng.integers(0, 4, n).astype(float), "int64"
        else:
            yy, xx = np.meshgrid(np.arange(ny) * 3.0, np.arange(nx) * 2.0, indexing="ij")
            fn = [lambda: source_area_circular(xx, yy, (2.0, 3.0)), lambda: source_area_upwind(xx, yy, (2.0, 3.0), (1.0, -2.0)),
                  lambda: source_area_crosswind(xx, yy, (2.0, 3.0), (1.0, -2.0)), lambda: source_area_sector(xx, yy, (2.1, 3.2), (1.0, -2.0))][int(rng.integers(4))]
            g2 = fn().ravel()
            g = np.tile(g2, 2) if three_d else g2
            gd = "float64"
        run_oracle(st, o_rescale, dict(f=f.tolist(), g=np.asarray(g).tolist(), gdtype=gd, shape=shape, perm=rng.permutation(n).tolist(),
                                       layout=[str(x) for x in rng.choice(["C", "C", "F", "T", "S"], size=2)]))
        if f.sum() > 0:
            ps = sorted(float(x) for x in rng.uniform(0.02, 1.0, 3)) + [1.0]
            run_oracle(st, o_percentile, dict(f=f.tolist(), shape=shape, dx=float(rng.uniform(0.5, 10)), dy=float(rng.uniform(0.5, 10)),
                                              coords=str(rng.choice(["2d", "1d"])) if not three_d else "3d", ps=ps, level=int(rng.integers(0, 2)) if three_d else 0,
                                              level_type=str(rng.choice(["int", "int64", "int32", "intp"])), zkind=str(rng.choice(["3d", "1d"])),
                                              lam=float(rng.uniform(0.1, 10))))
    for _ in range(budget(tier, deep, 120, 1500)):
        run_oracle(st, o_base_grid, gen_base_grid(rng))
    # the reported instance: square cells, a 45-degree wind, the tower on a node
    run_oracle(st, o_base_grid, dict(ny=9, nx=9, dx=100.0 / 64, dy=100.0 / 64, meas_pt=[4 * 100.0 / 64, 4 * 100.0 / 64], wind=[-3.0, -3.0],
                                     f=gen_field(rng, 81, "smooth").tolist()))
    return finish(st, "whole-grid base fields with the tower on / off a grid node and winds along lattice directions (finite, level-set geometry, defining sum through each); "
                  "non-negative fields (random, sparse, with ties and zeros, smooth), base fields random / f itself / integer-typed / the built-in "
                  "geometric ones, 2-D and 3-D, C / Fortran / transposed-view / strided memory layouts of f and g, 1-D and 2-D coordinates, fractions in (0,1]; correspondence (1e-12) of get_source_area with numpy's own "
                  "argsort permutation handed to the model, of extract_percentile_contour and of the four geometric base functions; oracle: O(n^2) "
                  "brute-force defining sums with the tie freedom, antitone, increasing map, common permutation, dtype, fewest-cells / monotone / scaling", deep, 1e-12)
