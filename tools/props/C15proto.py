"""C15 (concurrency clause) — several processes sharing one cache directory.

The real `GreensFunctionCache` is driven through arbitrary interleavings of the micro-steps of its write protocol:
every emulated process is a thread with its own pid (`os.getpid` patched to a thread-local value); `np.savez` and
`os.replace` are wrapped by gates, so that the controller decides when a writer's file appears (half written), when it
is complete and when it is renamed, and what the other processes do in between (construct a cache object, look an entry
up, store the same or another key, die).  A process that "dies" is simply never released from its gate, like a killed
process it runs no clean-up code.
"""
import io
import os
import shutil
import tempfile
import threading

import numpy as np

WAIT = 20.0


class _Proc:
    def __init__(self, pid):
        self.pid = pid
        self.thread = None
        self.gate = threading.Semaphore(0)      # controller -> process: proceed past the next gate
        self.at = threading.Semaphore(0)        # process -> controller: reached a gate / finished
        self.exc = None
        self.done = False
        self.stage = "idle"                     # idle / writing / written
        self.dead = False


class ProtoRunner:
    """runs one step list on the real code; returns one token per step, as the Lean driver's `proto` op"""

    def __init__(self, workdir):
        from bldfm import cache as cmod
        self.cmod = cmod
        self.dir = tempfile.mkdtemp(prefix="c15p-", dir=workdir)
        self.procs = {}
        self.tl = threading.local()
        self.caches = {}

    # request / result encoding: key k <-> the `halo` argument; result res <-> the stored arrays' contents
    def args(self, k):
        z = np.array([0.1, 1.0, 2.0])
        prof = tuple(np.full(3, 1.0 + i) for i in range(5))
        return (z, prof, (40.0, 30.0), (4, 4), (10.0, 5.0), float(k), "double")

    def arrays(self, res):
        g = np.full((2, 2), float(res))
        return (g, g + 1, g + 2), g + 3, g + 4

    def cache(self, pid):
        if pid not in self.caches:
            self.caches[pid] = self.cmod.GreensFunctionCache(self.dir)
        return self.caches[pid]

    # ---- patched primitives (called on the emulated process's thread)
    def _getpid(self):
        return getattr(self.tl, "pid", self.real_getpid())

    def _savez(self, file, *a, **kw):
        pr = getattr(self.tl, "proc", None)
        if pr is None:
            return self.real_savez(file, *a, **kw)
        buf = io.BytesIO()
        self.real_savez(buf, *a, **kw)
        data = buf.getvalue()
        path = os.fspath(file)
        if not path.endswith(".npz"):
            path += ".npz"
        pr.at.release()                      # reached gate "begin"
        pr.gate.acquire()
        f = open(path, "wb")                 # the file appears, half written
        f.write(data[: len(data) // 2])
        f.flush()
        pr.stage = "writing"
        pr.at.release()                      # begin done
        pr.gate.acquire()                    # wait for "end"
        f.write(data[len(data) // 2:])       # goes to the inode the writer opened, whatever happened to the name
        f.close()
        pr.stage = "written"
        pr.at.release()                      # end done

    def _replace(self, src, dst, *a, **kw):
        pr = getattr(self.tl, "proc", None)
        if pr is None:
            return self.real_replace(src, dst, *a, **kw)
        pr.gate.acquire()                    # wait for "rename"
        return self.real_replace(src, dst, *a, **kw)

    def __enter__(self):
        import numpy
        self.real_getpid, self.real_savez, self.real_replace = os.getpid, numpy.savez, os.replace
        os.getpid, numpy.savez, os.replace = self._getpid, self._savez, self._replace
        self.real_rename = os.rename
        os.rename = self._replace
        return self

    def __exit__(self, *exc):
        import numpy
        os.getpid, numpy.savez, os.replace, os.rename = self.real_getpid, self.real_savez, self.real_replace, self.real_rename
        for pr in self.procs.values():      # release abandoned writers so that their threads end
            pr.dead = True
            for _ in range(4):
                pr.gate.release()
        for pr in self.procs.values():
            if pr.thread is not None:
                pr.thread.join(timeout=2.0)
        shutil.rmtree(self.dir, ignore_errors=True)

    def _on_thread(self, pid, fn):
        """run fn on a short-lived thread carrying the pid (init / get: atomic steps)"""
        box = {}

        def body():
            self.tl.pid = pid
            self.tl.proc = None
            try:
                box["v"] = fn()
            except BaseException as e:  # noqa: BLE001
                box["e"] = e
        t = threading.Thread(target=body, daemon=True)
        t.start()
        t.join(WAIT)
        if t.is_alive():
            return "stuck", None
        if "e" in box:
            return "fail", box["e"]
        return "ok", box.get("v")

    def step(self, s):
        kind = s[0]
        if kind == "I":
            pid = s[1]
            self.caches.pop(pid, None)
            st, _ = self._on_thread(pid, lambda: self.cache(pid))
            return st
        if kind == "G":
            pid, k = s[1], s[2]
            st, v = self._on_thread(pid, lambda: self.cache(pid).get(*self.args(k)))
            if st != "ok":
                return st
            if v is None:
                return "miss"
            grid, conc, flx = v
            r = float(np.asarray(conc).ravel()[0]) - 3
            exp = self.arrays(int(round(r)))
            okv = (np.array_equal(conc, exp[1]) and np.array_equal(flx, exp[2]) and all(np.array_equal(a, b) for a, b in zip(grid, exp[0])))
            return "hit:%d" % int(round(r)) if okv else "hit:garbled"
        if kind == "B":
            pid, k, res = s[1], s[2], s[3]
            pr = self.procs.get(pid)
            if pr is not None and pr.stage != "idle" and not pr.dead:
                return "stuck"
            pr = self.procs[pid] = _Proc(pid)

            def body():
                self.tl.pid = pid
                self.tl.proc = pr
                try:
                    grid, conc, flx = self.arrays(res)
                    self.cache(pid).put(*self.args(k), grid, conc, flx)
                except BaseException as e:  # noqa: BLE001
                    pr.exc = e
                pr.done = True
                pr.stage = "idle"
                pr.at.release()
            pr.thread = threading.Thread(target=body, daemon=True)
            pr.thread.start()
            if not pr.at.acquire(timeout=WAIT):     # reached the begin gate (or finished without calling savez)
                return "stuck"
            if pr.done:
                return "fail" if pr.exc else "stuck"
            pr.gate.release()
            if not pr.at.acquire(timeout=WAIT):
                return "stuck"
            return "ok"
        if kind == "E":
            pr = self.procs.get(s[1])
            if pr is None or pr.stage != "writing" or pr.dead:
                return "stuck"
            pr.gate.release()
            if not pr.at.acquire(timeout=WAIT):
                return "stuck"
            return "ok"
        if kind == "N":
            pr = self.procs.get(s[1])
            if pr is None or pr.stage != "written" or pr.dead:
                return "stuck"
            pr.gate.release()                        # pass the rename gate (if the code has one)
            pr.thread.join(WAIT)
            if pr.thread.is_alive():
                return "stuck"
            return "fail" if pr.exc else "ok"
        if kind == "K":
            pr = self.procs.get(s[1])
            if pr is not None:
                pr.dead = True                       # never released again: no clean-up code runs
                pr.stage = "idle"
            self.caches.pop(s[1], None)
            return "ok"
        return "stuck"

    def entries(self):
        """what a fresh reader sees for every key 0..9"""
        out = []
        c = self.cmod.GreensFunctionCache.__new__(self.cmod.GreensFunctionCache)
        from pathlib import Path
        c.cache_dir = Path(self.dir)
        for k in range(10):
            key = c._compute_key(*self.args(k))
            p = os.path.join(self.dir, key + ".npz")
            if os.path.exists(p):
                try:
                    with np.load(p) as d:
                        out.append("%d=%d" % (k, int(round(float(d["conc"].ravel()[0]) - 3))))
                except Exception:  # noqa: BLE001
                    out.append("%d=torn" % k)
        return out


def run_real(steps, workdir):
    with ProtoRunner(workdir) as r:
        toks = [r.step(s) for s in steps]
        ent = r.entries()
    return "ok " + " ".join(toks) + " | entries" + ("".join(" " + e for e in ent))


def model_line(steps, cfg=(1, 1, 0, 1)):
    return "proto %d %d %d %d %d %s" % (cfg + (len(steps), " ".join(" ".join(str(x) for x in s) for s in steps)))


def gen_steps(rng, n):
    """a well-formed interleaving: every process follows B -> E -> N (or dies); others act in between"""
    steps = []
    stage = {}
    pids = [1, 2, 3, 4]
    keys = [int(k) for k in rng.choice(10, size=int(rng.integers(1, 4)), replace=False)]
    for _ in range(n):
        pid = int(rng.choice(pids))
        stg = stage.get(pid, "idle")
        x = rng.random()
        if stg == "idle":
            if x < 0.45:
                k = int(rng.choice(keys))
                steps.append(("B", pid, k, 10 * k + int(rng.integers(1, 4)) if rng.random() < 0.3 else 10 * k))
                stage[pid] = "writing"
            elif x < 0.7:
                steps.append(("G", pid, int(rng.choice(keys))))
            else:
                steps.append(("I", pid))
        elif stg == "writing":
            if x < 0.8:
                steps.append(("E", pid))
                stage[pid] = "written"
            else:
                steps.append(("K", pid))
                stage[pid] = "idle"
        else:
            if x < 0.85:
                steps.append(("N", pid))
                stage[pid] = "idle"
            else:
                steps.append(("K", pid))
                stage[pid] = "idle"
    # drain: finish every open writer, then read every key
    for pid, stg in sorted(stage.items()):
        if stg == "writing":
            steps += [("E", pid), ("N", pid)]
        elif stg == "written":
            steps.append(("N", pid))
    for k in keys:
        steps.append(("G", 9, k))
    return steps


FIXED = [
    # a constructor between another process's savez and os.replace
    [("I", 1), ("B", 1, 7, 70), ("E", 1), ("I", 2), ("N", 1), ("G", 2, 7)],
    [("I", 1), ("B", 1, 7, 70), ("I", 2), ("E", 1), ("I", 3), ("N", 1), ("G", 3, 7)],
    # two writers of the same key, fully interleaved, reader in between
    [("B", 1, 7, 70), ("B", 2, 7, 70), ("E", 1), ("G", 3, 7), ("E", 2), ("N", 2), ("G", 3, 7), ("N", 1), ("G", 3, 7)],
    [("B", 1, 7, 70), ("E", 1), ("B", 2, 7, 70), ("N", 1), ("G", 3, 7), ("E", 2), ("N", 2), ("G", 3, 7)],
    # a writer dies half way; a reader and a second writer follow
    [("B", 1, 4, 40), ("K", 1), ("G", 2, 4), ("B", 2, 4, 40), ("E", 2), ("G", 3, 4), ("N", 2), ("G", 3, 4)],
    [("B", 1, 4, 40), ("E", 1), ("K", 1), ("I", 2), ("G", 2, 4), ("B", 1, 4, 40), ("E", 1), ("N", 1), ("G", 2, 4)],
]
