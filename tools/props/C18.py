"""C18 — NetCDF export/import is lossless and keeps every label attached to its data."""
import os
import struct
import tempfile

import numpy as np

from common import run_driver
from props.scalarfam import new_stats, finish, budget, run_oracle, oracle, fail, replay  # noqa: F401


def mk_config(names, z0_forcing=False, nsteps=1):
    from bldfm.config_parser import BLDFMConfig, DomainConfig, TowerConfig, MetConfig
    towers = [TowerConfig(name="T%d" % n, lat=float(n * 3 + 1), lon=float(n * 3 + 2), z_m=float(n * 3 + 3)) for n in names]
    met = MetConfig(ustar=None if z0_forcing else 0.3, z0=0.05 if z0_forcing else None)
    return BLDFMConfig(domain=DomainConfig(nx=5, ny=4, xmax=50.0, ymax=40.0, nz=3), towers=towers, met=met)


def coded_results(names, nsteps, z0_forcing, gk=0):
    """gk: 0 = 2-D meshgrids, 1 = 3-D output (levels listed top-down), 2 = plain coordinate vectors"""
    ny, nx, nz = 4, 5, 3
    x = np.arange(nx) * 10.0
    y = np.arange(ny) * 10.0 + 1.0
    z = 302.0 - 100.0 * np.arange(nz)
    out = {}
    for n in names:
        series = []
        for t in range(nsteps):
            if gk == 1:
                cells = np.arange(nz * ny * nx, dtype=float)
                flx = (n * 10000 + t * 100 + cells).reshape(nz, ny, nx)
                Z, Y, X = np.meshgrid(z, y, x, indexing="ij")
                grid = (X, Y, Z)
            else:
                cells = np.arange(ny * nx, dtype=float)
                flx = (n * 10000 + t * 100 + cells).reshape(ny, nx)
                X, Y = np.meshgrid(x, y)
                grid = (X, Y, np.full((ny, nx), 2.5)) if gk == 0 else (x.copy(), y.copy(), np.full((ny, nx), 2.5))
            conc = -flx
            series.append(dict(grid=grid, conc=conc, flx=flx, tower_name="T%d" % n, timestamp="ts%d" % (500 + t),
                               params=dict(ustar=None if z0_forcing else float(7000 + t), mol=float(8000 + t), wind_speed=float(9000 + t),
                                           wind_dir=float(9500 + t), **({"z0": 0.05} if z0_forcing else {}))))
        out["T%d" % n] = series
    return out


def impl_line(names, nsteps, cfgnames, z0_forcing, gk=0):
    from bldfm.io import save_footprints_to_netcdf, load_footprints_from_netcdf
    res = coded_results(names, nsteps, z0_forcing, gk)
    cfg = mk_config(cfgnames, z0_forcing)
    fd, path = tempfile.mkstemp(suffix=".nc", dir=os.getcwd())
    os.close(fd)
    try:
        save_footprints_to_netcdf(res, cfg, path)
        ds = load_footprints_from_netcdf(path)
        ds.load()
        ds.close()
    finally:
        os.remove(path)

    def num(v):
        return "N" if np.isnan(v) else str(int(round(float(v))))
    out = "ok towers " + " ".join(str(int(str(s)[1:])) for s in ds["tower"].values)
    out += " times " + " ".join(str(int(str(s)[2:])) for s in ds["time"].values)
    fp, cc = ds["footprint"].values, ds["concentration"].values
    out += " cells"
    for t in range(nsteps):
        for ti in range(len(names)):
            f = fp[t, ti].ravel()
            c = cc[t, ti].ravel()
            out += " %d,%d,%d" % (f[0], f[3], c[1])
    out += " met"
    for t in range(nsteps):
        out += " %s,%s,%s,%s" % (num(ds["ustar"].values[t]), num(ds["mol"].values[t]), num(ds["wind_speed"].values[t]), num(ds["wind_dir"].values[t]))
    out += " meta"
    for ti in range(len(names)):
        if ti < len(cfgnames):
            out += " %d,%d,%d" % (ds["tower_lat"].values[ti], ds["tower_lon"].values[ti], ds["tower_z"].values[ti])
        else:
            out += " N,N,N"
    # label-based selection: which (tower, step) does ds.sel(...) return for every label, and for an absent one

    def pick(kind, label):
        try:
            sub = ds.sel(**{kind: label})
        except KeyError:
            return "N"
        v = int(np.asarray(sub["footprint"].values).ravel()[0])
        if kind == "tower":
            return str(names.index(v // 10000))
        return str((v % 10000) // 100)
    out += " seltower " + " ".join(pick("tower", str(s)) for s in list(ds["tower"].values) + ["T99999"])
    out += " seltime " + " ".join(pick("time", str(s)) for s in list(ds["time"].values) + ["ts99999"])
    out += " dims %d %d x %s y %s z %s" % (ds.sizes["time"], ds.sizes["tower"], " ".join(num(v) for v in ds["x"].values), " ".join(num(v) for v in ds["y"].values),
                                         " ".join(num(v) for v in ds["z"].values) if "z" in ds.variables else "none")
    return out


def adversarial(rng, shape):
    """float64 bit patterns: +-0, denormals, +-1e308, negatives, ordinary values (NaN-free)"""
    n = int(np.prod(shape))
    # ... and the numbers that file formats and data conventions use as "missing value" sentinels: as ordinary field values they
    # must come back as themselves (-9999 FLUXNET/AmeriFlux, -999, -32767/-32768 packed shorts, 1e20 / 1e36 / 9.969e36 netCDF & friends)
    pool = [0.0, -0.0, 5e-324, -5e-324, 2.2250738585072014e-308, 1e308, -1e308, 1.7976931348623157e308, 1e-300, -3.5, 1 / 3, 9.96920996838687e36,
            -9999.0, -999.0, -32767.0, -32768.0, 1e20, 1e36, 9999.0, -9999.9, 65535.0, -1.0]
    v = np.where(rng.random(n) < 0.4, rng.choice(pool, n), rng.normal(size=n) * 10 ** rng.uniform(-20, 20, n))
    return v.reshape(shape)


def bits(a):
    return np.ascontiguousarray(np.asarray(a, dtype=np.float64)).view(np.uint64)


@oracle
def o_roundtrip(case):
    from bldfm.io import save_footprints_to_netcdf, load_footprints_from_netcdf
    rng = np.random.default_rng(case["seed"])
    nt, ns, three_d = case["towers"], case["steps"], case["three_d"]
    ny, nx, nzo = 4, 5, 3
    x, y, z = np.arange(nx) * 7.5, np.arange(ny) * 2.5, np.array([0.1, 1.7, 4.2])
    if case.get("z_order") is not None:
        # output levels requested top-down or in mixed order (output_levels = [8, 4, 1]): the solver returns Z in that order
        z = z[np.array(case["z_order"])]
    pool = ["north", "east", "annex", "T10", "T9", "zeta", "Mast B", "mast a"]
    names = [str(x) for x in rng.permutation(pool)[:nt]]
    z0f = case["z0_forcing"]
    results = {}
    for k, n in enumerate(names):
        series = []
        for t in range(ns):
            if three_d:
                Z, Y, X = np.meshgrid(z, y, x, indexing="ij")
                shape = (nzo, ny, nx)
            else:
                X, Y = np.meshgrid(x, y)
                Z = np.full((ny, nx), 2.0)
                shape = (ny, nx)
            # integer labels: the step index, hours relative to an event (negative, zero in the middle), a countdown, hour of day across midnight
            # string labels: naive ISO (16 characters), timezone-aware ISO with fractional seconds (32), a descriptive label (40+)
            ts = ({"tz": "2024-03-%02dT%02d:00:00.250000+00:00" % (1 + t, k), "long": "campaign B / flight %02d / leg %02d / downwind transect" % (k, t)}
                  .get(case.get("str_kind"), "2024-03-%02dT%02d:00" % (1 + t, k))) if case["str_ts"] else {"relative": t - 2, "countdown": ns - 1 - t, "hours": (22 + t) % 24}.get(case.get("int_kind"), t)
            conc_a, flx_a = adversarial(rng, shape), adversarial(rng, shape)
            if case.get("mixed_dtype"):
                # the solver returns float32 fields for precision="single" whenever no complex128 phase factor promoted them
                # (e.g. a tower at the origin in dispersion mode): result sets mixing float32 and float64 entries are ordinary
                with np.errstate(over="ignore"):
                    if rng.random() < (0.7 if (k == 0 and t == 0) else 0.4):
                        conc_a = np.nan_to_num(conc_a.astype(np.float32), posinf=3e38, neginf=-3e38)
                    if rng.random() < (0.7 if (k == 0 and t == 0) else 0.4):
                        flx_a = np.nan_to_num(flx_a.astype(np.float32), posinf=3e38, neginf=-3e38)
            series.append(dict(grid=(X, Y, Z), conc=conc_a, flx=flx_a, tower_name=n, timestamp=ts,
                               params=dict(ustar=None if z0f else float(rng.uniform(0.1, 1)),
                                           mol=float(rng.choice([rng.normal() * 100, -9999.0, 1e20, -999.0])), wind_speed=float(rng.uniform(1, 9)),
                                           wind_dir=float(rng.uniform(0, 360)), **({"z0": 0.07} if z0f else {}))))
        if case.get("np_params") and k == 0:
            # met series that came out of numpy arrays / data frames: the per-step values are numpy scalars of various types, 0-d
            # arrays or Python ints - still the same NUMBERS (all exactly representable, so that the stored float64 is equal)
            for t in range(ns):
                pr = series[t]["params"]
                pr["mol"] = [np.float32(-128.5), np.float64(250.25), np.array(64.0), int(-9999)][(t + case["seed"]) % 4]
                pr["wind_speed"] = [np.array(3.5), np.float32(2.25), int(4), np.int64(6)][(t + case["seed"]) % 4]
                pr["wind_dir"] = [np.int64(280), int(45), np.float32(112.5), np.array(7.0)][(t + case["seed"]) % 4]
                if not z0f:
                    pr["ustar"] = [np.float32(0.375), np.float64(0.5), np.array(0.25), np.float32(0.75)][(t + case["seed"]) % 4]
        if case.get("dup_ts") and case["str_ts"] and k == 0 and ns >= 2:
            # a repeated label (the hour that occurs twice when daylight saving ends): arrays stay where they were put
            series[ns - 1]["timestamp"] = series[0]["timestamp"]
        # all towers share the time axis labels of the first tower
        if k > 0:
            for t in range(ns):
                series[t]["timestamp"] = results[names[0]][t]["timestamp"]
                for kk in ("ustar", "mol", "wind_speed", "wind_dir"):
                    series[t]["params"][kk] = results[names[0]][t]["params"][kk]
        results[n] = series
    from bldfm.config_parser import BLDFMConfig, DomainConfig, TowerConfig, MetConfig
    towers = [TowerConfig(name=n, lat=float(rng.uniform(-60, 60)), lon=float(rng.uniform(-180, 180)), z_m=float(rng.uniform(2, 40))) for n in names]
    cfg = BLDFMConfig(domain=DomainConfig(nx=nx, ny=ny, xmax=37.5, ymax=10.0, nz=3), towers=towers,
                      met=MetConfig(ustar=None if z0f else 0.3, z0=0.07 if z0f else None))
    if case.get("f32_prelude"):
        # an earlier export in the same process whose fields are ALL float32 (single-precision dispersion runs): nothing of it may
        # decide how the next set is stored
        pre = {n: [dict(r, conc=np.ones(r["conc"].shape, dtype=np.float32), flx=np.full(r["flx"].shape, 0.5, dtype=np.float32)) for r in ser]
               for n, ser in results.items()}
        fd0, path0 = tempfile.mkstemp(suffix=".nc", dir=os.getcwd())
        os.close(fd0)
        try:
            save_footprints_to_netcdf(pre, cfg, path0)
        except Exception:  # noqa: BLE001
            pass
        finally:
            os.remove(path0)
    fd, path = tempfile.mkstemp(suffix=".nc", dir=os.getcwd())
    os.close(fd)
    try:
        save_footprints_to_netcdf(results, cfg, path)
        ds = load_footprints_from_netcdf(path)
        ds.load()
        ds.close()
    finally:
        os.remove(path)
    for k, n in enumerate(names):
        for t in range(ns):
            r = results[n][t]
            for var, key in (("footprint", "flx"), ("concentration", "conc")):
                got = ds[var].values[t, k]
                if got.shape != r[key].shape or not np.array_equal(bits(got), bits(r[key])):
                    return fail("C18/array/%s" % var, "loaded %s at (time %d, tower %d) is not bit-identical to the saved one" % (var, t, k), None, "bit-identical", "differs", 0)
            if [str(x["timestamp"]) for x in results[n]].count(str(r["timestamp"])) > 1:
                continue        # a repeated label selects several steps: only the positional clauses apply
            try:
                sel = ds.sel(tower=n, time=str(r["timestamp"]))
            except KeyError:
                return fail("C18/select-label", "tower %r / step label %r cannot be selected in the loaded dataset (time labels there: %s)" % (n, str(r["timestamp"]), [str(v) for v in ds["time"].values][:4]),
                            None, str(r["timestamp"]), "KeyError", 0)
            if not np.array_equal(bits(sel["footprint"].values), bits(r["flx"])):
                return fail("C18/select", "selecting tower %s / step %s does not return that tower's and step's fields" % (n, r["timestamp"]), None, "that result", "another", 0)
        if not (ds["tower_lat"].sel(tower=n).item() == towers[k].lat and ds["tower_lon"].sel(tower=n).item() == towers[k].lon
                and ds["tower_z"].sel(tower=n).item() == towers[k].z_m):
            return fail("C18/tower-metadata", "latitude/longitude/height stored for tower %s are not its own" % n, None,
                        [towers[k].lat, towers[k].lon, towers[k].z_m], [ds["tower_lat"].sel(tower=n).item()], 0)
    if list(ds["tower"].values) != names:
        return fail("C18/tower-names", "tower names not preserved in order", None, names, list(ds["tower"].values), 0)
    if [str(v) for v in ds["time"].values] != [str(r["timestamp"]) for r in results[names[0]]]:
        return fail("C18/timestamps", "timestamps not preserved", None, [str(r["timestamp"]) for r in results[names[0]]], [str(v) for v in ds["time"].values], 0)
    if not (np.array_equal(ds["x"].values, x) and np.array_equal(ds["y"].values, y)):
        return fail("C18/coords", "x / y coordinates not preserved", None, "equal", "differs", 0)
    if three_d and not np.array_equal(ds["z"].values, z):
        return fail("C18/z-coord", "z coordinate not preserved", None, list(z), list(ds["z"].values), 0)
    for t in range(ns):
        p = results[names[0]][t]["params"]
        for var, key in (("ustar", "ustar"), ("mol", "mol"), ("wind_speed", "wind_speed"), ("wind_dir", "wind_dir")):
            got = ds[var].values[t]
            if p[key] is None:
                if not np.isnan(got):
                    return fail("C18/met-none", "%s of a roughness-length forcing is not stored as missing" % var, None, "NaN", float(got), 0)
            elif not got == float(p[key]):
                return fail("C18/met", "per-step %s not preserved (saved %r of type %s)" % (var, p[key], type(p[key]).__name__), None, float(p[key]), float(got), 0)
    return None


@oracle
def o_big_export(case):
    """a LARGE export (hundreds of megabytes per variable: many towers and steps on a fine grid): every slot of both variables bit-identical"""
    from bldfm.io import save_footprints_to_netcdf, load_footprints_from_netcdf
    from bldfm.config_parser import BLDFMConfig, DomainConfig, TowerConfig, MetConfig
    ny, nx, nt, ns = case["ny"], case["nx"], case["towers"], case["steps"]
    rng = np.random.default_rng(case["seed"])
    x, y = np.arange(nx) * 2.0, np.arange(ny) * 3.0
    X, Y = np.meshgrid(x, y)
    names = ["tw%d" % k for k in range(nt)]
    results = {n: [dict(grid=(X, Y, np.full((ny, nx), 2.0)), conc=rng.normal(size=(ny, nx)) + 10.0 * (k + 1), flx=rng.normal(size=(ny, nx)) - 7.0 * (t + 1),
                        tower_name=n, timestamp=t, params=dict(ustar=0.3, mol=-50.0, wind_speed=3.0, wind_dir=200.0)) for t in range(ns)]
               for k, n in enumerate(names)}
    cfg = BLDFMConfig(domain=DomainConfig(nx=nx, ny=ny, xmax=2.0 * nx, ymax=3.0 * ny, nz=3),
                      towers=[TowerConfig(name=n, lat=1.0 + k, lon=2.0 + k, z_m=3.0) for k, n in enumerate(names)], met=MetConfig(ustar=0.3))
    fd, path = tempfile.mkstemp(suffix=".nc", dir=os.getcwd())
    os.close(fd)
    try:
        save_footprints_to_netcdf(results, cfg, path)
        ds = load_footprints_from_netcdf(path)
        for k, n in enumerate(names):
            for t in range(ns):
                for var, key in (("footprint", "flx"), ("concentration", "conc")):
                    got = np.asarray(ds[var][t, k].values)
                    if got.shape != (ny, nx) or not np.array_equal(bits(got), bits(results[n][t][key])):
                        return fail("C18/array/%s/large" % var, "loaded %s at (time %d, tower %d) of a %d MiB-per-variable export is not the saved one"
                                    % (var, t, k, ny * nx * nt * ns * 8 // 2 ** 20), None, "bit-identical", "differs", 0)
        ds.close()
    finally:
        os.remove(path)
    return None


def run(rng, tier, deep):
    st = new_stats()
    lines, impls = [], []
    for _ in range(budget(tier, deep, 30, 250)):
        nres = int(rng.integers(1, 5))
        names = [int(x) for x in rng.choice(9, size=nres, replace=False) + 1]
        nsteps = int(rng.integers(1, 5))
        cfgnames = list(names)       # driver output: result keys are the config's tower names in config order
        z0f = bool(rng.random() < 0.3)
        gk = int(rng.integers(0, 3))
        lines.append("nc %d %s %d %d %s %d %d" % (nres, " ".join(map(str, names)), nsteps, len(cfgnames), " ".join(map(str, cfgnames)), int(z0f), gk))
        impls.append(impl_line(names, nsteps, cfgnames, z0f, gk))
        st["branches"]["grid=%s" % ("2-D meshgrid", "3-D meshgrid, levels top-down", "coordinate vectors")[gk]] = st["branches"].get("grid=%s" % ("2-D meshgrid", "3-D meshgrid, levels top-down", "coordinate vectors")[gk], 0) + 1
        st["branches"]["shape=%dx%d" % (nres, nsteps)] = st["branches"].get("shape=%dx%d" % (nres, nsteps), 0) + 1
    outs = run_driver(lines)
    for l, i, o in zip(lines, impls, outs):
        st["corr_cases"] += 1
        if i.split() != o.split():
            st["disagreements"].append(dict(what="netcdf layout: impl `%s` vs model `%s`" % (i[:400], o[:400]), op=l))
    for nt in range(1, 5):
        for ns in range(1, 5):
            for three_d in (False, True):
                if tier == "quick" and (nt + ns + three_d) % 2 == 1:
                    continue
                run_oracle(st, o_roundtrip, dict(towers=nt, steps=ns, three_d=three_d, seed=int(rng.integers(1 << 30)),
                                                 int_kind=[None, "relative", "countdown", "hours"][int(rng.integers(4))],
                                                 str_kind=[None, "tz", "long"][int(rng.integers(3))],
                                                 str_ts=bool(rng.random() < 0.5), z0_forcing=bool(rng.random() < 0.4),
                                                 mixed_dtype=bool(rng.random() < 0.5), dup_ts=bool(rng.random() < 0.35), np_params=bool(rng.random() < 0.4), f32_prelude=bool(rng.random() < 0.4),
                                                 z_order=[int(v) for v in rng.permutation(3)] if (three_d and rng.random() < 0.6) else None))
    if deep or tier == "thorough":
        # one export of 160 MiB per variable (only in the thorough tier and in the failing-input search: ~20 s, ~1 GB)
        run_oracle(st, o_big_export, dict(ny=1024, nx=1280, towers=4, steps=4, seed=int(rng.integers(1 << 30))))
    return finish(st, "result sets over towers 1..4 x steps 1..4 x 2-D/3-D, values from adversarial float64 bit patterns (+-0, denormals, +-1e308, the default "
                  "netCDF fill value, negatives), string and integer timestamps (incl. a repeated label; integer labels that are the index, relative hours through zero, a countdown, hours across midnight), ustar or z0 forcing, per-step met values given as Python floats / ints / numpy scalars / 0-d arrays, result sets mixing float32 and float64 entries, 3-D outputs whose levels are not listed bottom-up; correspondence: which (tower, step) every dataset cell, label "
                  "and metadata slot holds, vs the Lean assembly model; oracle: bit-identical arrays, ds.sel by name and label, coordinates, metadata, NaN for "
                  "missing ustar", deep, 0)
