"""C14 — timeseries / multi-tower / parallel drivers == the individual single runs."""
import hashlib
import json
import os
import shutil
import subprocess
import sys
from concurrent.futures import ThreadPoolExecutor

import numpy as np

from common import run_driver, VERIF
from props.scalarfam import new_stats, finish, budget, run_oracle, oracle, fail, replay  # noqa: F401


# tower names in CONFIGURATION order that are neither in ascending string order nor in ascending numeric order ("T10" < "T2" as strings)
TN = [7, 10, 2, 31, 4, 12, 1, 5, 22, 3]


def tname(k):
    return "T%d" % TN[k]


def tindex(name):
    return TN.index(int(name[1:]))


def make_raw(case):
    nt, ns = case["towers"], case["steps"]
    rng = np.random.default_rng(case["cseed"])
    ws = [float(x) for x in rng.uniform(2, 5, ns)]
    wd = [float(x) for x in rng.uniform(0, 360, ns)]
    us = [float(x) for x in rng.uniform(0.3, 0.5, ns)]
    mol = [float(x) for x in rng.choice([-80.0, -200.0, 150.0], ns)]
    # exact round values a series holds as a matter of course: a wind from due north (0 degrees, float or int), whole-number speeds
    k0 = int(rng.integers(ns))
    if case["cseed"] % 3 == 0:
        wd[k0] = [0.0, 0, 360.0, 180][case["cseed"] % 4]
    if case["cseed"] % 5 == 0:
        ws[int(rng.integers(ns))] = 3
    if case.get("repeat_met") and ns >= 2:
        ws[-1], wd[-1], us[-1], mol[-1] = ws[0], wd[0], us[0], mol[0]   # repeated met conditions within a series
    met = dict(wind_speed=ws, wind_dir=wd, ustar=us, mol=mol) if ns > 1 else dict(wind_speed=ws[0], wind_dir=wd[0], ustar=us[0], mol=mol[0])
    tk = case.get("timestamps")
    if tk is True or tk == "ascending":
        met["timestamps"] = ["s%d" % k for k in range(ns)]
    elif tk == "wrap":          # time-of-day labels crossing midnight: not ascending under string comparison
        met["timestamps"] = ["%02d:30" % ((22 + k) % 24) for k in range(ns)]
    elif tk == "descending":
        met["timestamps"] = ["d%d" % (9 - k) for k in range(ns)]
    elif tk == "duplicate":     # a repeated label (e.g. the DST fall-back hour)
        met["timestamps"] = ["2024-10-27T02:30"] * ns
    # towers of one height at different places (a transect of identical masts) or of different heights
    towers = [dict(name=tname(k), lat=50.0 + 1e-4 * (k + 1), lon=11.0 + 2e-4 * (k + 1), z_m=3.0 + (0.0 if case.get("same_height") else 0.7 * k)) for k in range(nt)]
    dom = dict(nx=8, ny=8, xmax=80.0, ymax=80.0, nz=4, modes=[8, 8], halo=20.0, ref_lat=50.0, ref_lon=11.0)
    if case.get("no_ref"):
        # a configuration without a reference origin: the towers' lat/lon are carried along but every tower sits at the local origin
        del dom["ref_lat"], dom["ref_lon"]
    return dict(domain=dom,
                towers=towers, met=met, solver=dict(closure="MOST", footprint=case["footprint"], precision="double"),
                parallel=dict(use_cache=bool(case["cache"]), max_workers=case["workers"]))


WORKER = r'''
import sys, json, hashlib, os, time
sys.path[:0] = %(paths)r
import logging; logging.disable(logging.CRITICAL)
import numpy as np
from props import C14
from bldfm import config as gcfg
import bldfm.interface as itf
from bldfm.config_parser import parse_config_dict
case = json.loads(sys.argv[1])
raw = C14.make_raw(case)
cfg = parse_config_dict(raw)
if case.get("stub"):
    # shape sweep: the transport solver is replaced (before any fork) by a cheap function of ITS ARGUMENTS, so that every (tower, step)
    # still has its own distinguishable result and only the drivers' bookkeeping is exercised
    def _stub(srf_flx, z, profiles, domain, levels, **kw):
        key = (np.asarray(z).tobytes() + b"".join(np.asarray(p_).tobytes() for p_ in profiles)
               + repr((tuple(domain), np.asarray(levels).tolist(), sorted((k, repr(v)) for k, v in kw.items() if k != "cache"))).encode())
        val = int.from_bytes(hashlib.sha256(key).digest()[:6], "big") / 2.0 ** 48
        ny_, nx_ = np.shape(srf_flx)
        X_, Y_ = np.meshgrid(np.arange(nx_) * 1.0, np.arange(ny_) * 1.0)
        return (X_, Y_, np.zeros_like(X_)), np.full((ny_, nx_), val), np.full((ny_, nx_), val + 1.0)
    itf.steady_state_transport_solver = _stub

def canon(r):
    def sha(a):
        a = np.ascontiguousarray(np.asarray(a))
        return hashlib.sha256(a.tobytes() + str(a.dtype).encode() + str(a.shape).encode()).hexdigest()[:20]
    return [r["tower_name"], r["timestamp"], {k: v for k, v in r["params"].items()}, sha(r["conc"]), sha(r["flx"]),
            sha(r["grid"][0]), sha(r["grid"][1]), sha(r["grid"][2]), list(r["tower_xy"])]

# reference: individual single runs, fresh single-threaded state
gcfg.NUM_THREADS = 1
ref = {t.name: [canon(itf.run_bldfm_single(cfg, t, met_index=i)) for i in range(cfg.met.n_timesteps)] for t in cfg.towers}
out = dict(ref=ref)
# serial drivers
out["multitower"] = [[name, [canon(r) for r in series]] for name, series in itf.run_bldfm_multitower(cfg).items()]
out["timeseries"] = [canon(r) for r in itf.run_bldfm_timeseries(cfg, cfg.towers[-1])]
if os.path.isdir(".bldfm_cache"):
    import shutil; shutil.rmtree(".bldfm_cache")
# parent state the workers inherit
gcfg.NUM_THREADS = case["parent_threads"]
if case["parent_threads"] > 1:
    itf.run_bldfm_single(cfg, cfg.towers[0], met_index=0)
# random per-task delays (derived from seed, tower, step), injected before the pool forks
orig = itf.run_bldfm_single
def delayed(config, tower, met_index=0, surface_flux=None, cache=None):
    time.sleep(C14.task_delay(case, tower.name, met_index))
    flt = case.get("fault")
    if flt and tower.name == C14.tname(flt[0]) and met_index == flt[1]:
        # a transient fault in ONE task (a worker colliding on a cache / wisdom file): the first attempt at this (tower, step) raises,
        # exactly once across all processes (O_EXCL marker file)
        try:
            os.close(os.open(os.path.join(os.getcwd(), "fault.marker"), os.O_CREAT | os.O_EXCL | os.O_WRONLY))
            raise OSError(11, "Resource temporarily unavailable")
        except FileExistsError:
            pass
    return orig(config, tower, met_index=met_index, surface_flux=surface_flux, cache=cache)
itf.run_bldfm_single = delayed
try:
    if case.get("prelude_flux"):
        # an earlier parallel run in the same process that was handed a surface flux (documented: ignored by the workers);
        # nothing of it may reach the run under test
        try:
            itf.run_bldfm_parallel(cfg, max_workers=2, parallel_over="time",
                                   surface_flux=np.full((cfg.domain.ny, cfg.domain.nx), 7.0))
        except Exception:
            pass
    res = itf.run_bldfm_parallel(cfg, max_workers=case["workers"], parallel_over=case["strategy"])
    out["parallel"] = [[name, [canon(r) for r in series]] for name, series in res.items()]
except ValueError as e:
    out["parallel"] = "ValueError"
except Exception as e:
    out["parallel"] = "raised:" + type(e).__name__
finally:
    itf.run_bldfm_single = orig
print("RESULT " + json.dumps(out))
'''


def task_delay(case, tower_name, step):
    """per-task delay that shapes the completion order of the pool's tasks.  order = "hash": pseudo-random from
    (seed, tower, step); "reverse": later steps (and later towers) finish first; "perm": the tasks finish in a chosen
    permutation (seeded); with at least as many workers as tasks the completion order is exactly the chosen one"""
    nt, ns = case["towers"], case["steps"]
    k = tindex(tower_name)
    order = case.get("order", "hash")
    if order == "reverse":
        rank = ((ns - 1 - step) * nt + (nt - 1 - k)) / max(nt * ns - 1, 1)
    elif order == "perm":
        perm = np.random.default_rng(case["dseed"]).permutation(nt * ns)
        rank = float(perm[k * ns + step]) / max(nt * ns - 1, 1)
    else:
        h = int(hashlib.md5(("%d-%s-%d" % (case["dseed"], tower_name, step)).encode()).hexdigest()[:6], 16)
        rank = (h % 100) / 100.0
    return rank * case["max_delay"]


def run_real(case):
    wd = os.path.join(os.getcwd(), "par-%d-%s" % (os.getpid(), hashlib.md5(json.dumps(case, sort_keys=True).encode()).hexdigest()[:10]))
    os.makedirs(wd, exist_ok=True)
    code = WORKER % dict(paths=[os.path.join(VERIF, "tools"), os.path.join(VERIF, "tools", "harness")])
    env = dict(os.environ)
    env.pop("NUMBA_NUM_THREADS", None)
    try:
        r = subprocess.run([sys.executable, "-c", code, json.dumps(case)], capture_output=True, text=True, timeout=1200, cwd=wd, env=env)
    finally:
        shutil.rmtree(wd, ignore_errors=True)
    for l in r.stdout.splitlines():
        if l.startswith("RESULT "):
            return json.loads(l[7:])
    raise RuntimeError("parallel case failed: rc=%d %s" % (r.returncode, r.stderr[-1500:]))


def judge(case, out):
    ref = out["ref"]
    names = [tname(k) for k in range(case["towers"])]
    exp = [[n, ref[n]] for n in names]
    if out["multitower"] != exp:
        return fail("C14/multitower", "run_bldfm_multitower differs from the individual single runs (content, key order or time order)", None, "equal", diff(exp, out["multitower"]), 0)
    if out["timeseries"] != ref[names[-1]]:
        return fail("C14/timeseries", "run_bldfm_timeseries differs from the individual single runs", None, "equal", "differs", 0)
    if case["strategy"] not in ("towers", "time", "both"):
        if out["parallel"] != "ValueError":
            return fail("C14/invalid-strategy", "an unknown parallel strategy was not rejected", None, "ValueError", "accepted", 0)
        return None
    if case.get("fault") and isinstance(out["parallel"], str) and out["parallel"].startswith("raised:"):
        return None      # under an injected fault the driver may give up with an error; what it RETURNS must be the single runs
    if out["parallel"] != exp:
        return fail("C14/parallel/%s" % case["strategy"], "run_bldfm_parallel differs from the individual single runs (content, key order or time order)",
                    None, "equal", diff(exp, out["parallel"]), 0)
    return None


def diff(exp, got):
    if not isinstance(got, list):
        return str(got)[:200]
    if [g[0] for g in got] != [e[0] for e in exp]:
        return "keys %s vs %s" % ([g[0] for g in got], [e[0] for e in exp])
    for (n, es), (_, gs) in zip(exp, got):
        if len(es) != len(gs):
            return "tower %s: %d steps vs %d" % (n, len(gs), len(es))
        for i, (e, g) in enumerate(zip(es, gs)):
            if e != g:
                bad = [k for k, (a, b) in enumerate(zip(e, g)) if a != b]
                return "tower %s step %d: fields %s differ (tower/timestamp got %s/%s)" % (n, i, bad, g[0], g[1])
    return "differs"


@oracle
def o_parallel(case):
    return judge(case, run_real(case))


def gen_case(rng, k):
    strategy = ["towers", "time", "both"][k % 3] if rng.random() < 0.93 else "bogus"
    return dict(towers=int(rng.integers(1, 4)), steps=int(rng.integers(1, 6)), strategy=strategy, workers=int(rng.choice([1, 2, 3, 4, 5, 8, 12])),
                order=str(rng.choice(["hash", "reverse", "perm", "perm"])), prelude_flux=bool(rng.random() < 0.3),
                parent_threads=int(rng.choice([1, 4])), cache=bool(rng.random() < 0.5), footprint=bool(rng.random() < 0.7),
                same_height=bool(rng.random() < 0.45), no_ref=bool(rng.random() < 0.25), repeat_met=bool(rng.random() < 0.5), timestamps=str(rng.choice(["none", "ascending", "wrap", "descending", "duplicate"])), cseed=int(rng.integers(1 << 30)),
                dseed=int(rng.integers(1 << 30)), max_delay=float(rng.choice([0.0, 0.3, 0.6])))


def run(rng, tier, deep):
    st = new_stats()
    # correspondence of the scheduling model: every completion order of small task sets (exhaustive), labels in nested order
    import itertools
    lines, expect = [], []
    for strategy in ("towers", "time", "both", "bogus"):
        for nt in (1, 2, 3):
            for ntime in (1, 2, 3):
                ntask = max(nt * ntime, nt, ntime)
                perms = list(itertools.permutations(range(ntask)))
                if len(perms) > 30:
                    perms = [perms[int(i)] for i in rng.choice(len(perms), size=30, replace=False)]
                for p in perms:
                    lines.append("par %s %d %d %d %s" % (strategy, nt, ntime, len(p), " ".join(str(x) for x in p)))
                    expect.append("err ValueError" if strategy == "bogus" else
                                  "ok " + " ".join("[%d %s]" % (100 + k, " ".join("%d:%d" % (100 + k, i) for i in range(ntime))) for k in range(nt)))
    outs = run_driver(lines)
    for l, e, o in zip(lines, expect, outs):
        st["corr_cases"] += 1
        if e.split() != o.split():
            st["disagreements"].append(dict(what="pool model: `%s` gives `%s`, serial order is `%s`" % (l, o[:200], e[:200]), op=l))
    cases = [gen_case(rng, k) for k in range(budget(tier, deep, 9, 60))]
    cases[0].update(towers=1, steps=1)
    if len(cases) > 2:
        cases[1].update(towers=2, steps=4, workers=8, strategy="both", max_delay=0.9, timestamps="wrap", order="reverse")
        cases[2].update(towers=2, steps=4, workers=4, strategy="time", parent_threads=4, timestamps="wrap", max_delay=0.6, order="reverse")
    if len(cases) > 4:
        cases[3].update(towers=2, steps=3, workers=3, strategy="time", timestamps="duplicate", max_delay=0.6, repeat_met=False)
        cases[4].update(towers=3, steps=2, workers=4, strategy="towers", timestamps="descending", max_delay=0.6, order="reverse", same_height=True, cache=True,
                        footprint=True)
    if len(cases) > 6:
        cases[5].update(towers=3, steps=3, workers=12, strategy="both", max_delay=0.9, order="perm", timestamps="none")
        cases[6].update(towers=1, steps=5, workers=5, strategy="both", max_delay=0.8, order="reverse", timestamps="ascending")
    # shape sweep with a stubbed solver (cheap): every (towers, steps, workers, strategy) of a box - the regrouping arithmetic of the
    # drivers depends on divisibility relations between the three numbers
    box = [dict(towers=nt, steps=ns, strategy=stg, workers=w, order="perm", prelude_flux=False, parent_threads=1, cache=False, footprint=True,
                repeat_met=False, timestamps="none", cseed=11 * nt + ns, dseed=7 * w + ns, max_delay=0.02 * min(w, 4), stub=True,
                no_ref=bool((nt + ns + w) % 5 == 0))
           for nt in (1, 2, 3, 4, 5) for ns in (1, 2, 3, 4) for w in (1, 2, 3, 4, 5, 6, 8) for stg in ("towers", "time", "both")]
    # one task fails once with a transient OSError: either the driver raises, or every slot still holds its own single run
    for k in range(budget(tier, deep, 3, 12)):
        nt, ns = int(rng.integers(1, 4)), int(rng.integers(2, 5))
        box.append(dict(towers=nt, steps=ns, strategy=["time", "both", "towers"][k % 3], workers=int(rng.integers(1, 5)), order="hash", prelude_flux=False,
                        parent_threads=1, cache=False, footprint=True, repeat_met=False, timestamps="ascending", cseed=50 + k, dseed=60 + k, max_delay=0.0,
                        stub=True, fault=[int(rng.integers(nt)), int(rng.integers(1, ns))], _always=True))
    if deep or tier == "thorough":
        sweep = box
    else:
        plain = [b for b in box if not b.get("_always")]
        sweep = [plain[int(i)] for i in rng.choice(len(plain), size=14, replace=False)] + [b for b in box if b.get("_always")]
    cases = cases + sweep
    with ThreadPoolExecutor(max_workers=8) as ex:
        outs = list(ex.map(run_real, cases))
    for c, o in zip(cases, outs):
        st["oracle_evaluations"] += 1
        st["seen"].add(json.dumps(c, sort_keys=True))
        for k in ("strategy", "workers", "parent_threads", "cache"):
            key = "%s=%s" % (k, c[k])
            st["branches"][key] = st["branches"].get(key, 0) + 1
        st["branches"]["shape=%dx%d" % (c["towers"], c["steps"])] = st["branches"].get("shape=%dx%d" % (c["towers"], c["steps"]), 0) + 1
        if len(st["samples"]) < 3:
            st["samples"].append(c)
        f = judge(c, o)
        if f:
            f["input"] = dict(oracle="o_parallel", case=c)
            st["oracle_failures"].append(f)
    return finish(st, "(towers x steps) in {1..3}x{1..5} incl. 1x1, the three strategies (+ an invalid one), workers 1..12 (more than tasks included), per-task "
                  "delays injected before the pool forks that force the completion order (pseudo-random, exactly reversed, or a chosen permutation of the tasks), parent NUM_THREADS 1 and 4 (with a parent-side solve so that workers "
                  "inherit a non-trivial state), cache on/off, repeated met conditions within a series, index / ascending / midnight-wrapping / descending / duplicate timestamp labels; correspondence: the Lean pool model "
                  "under EVERY completion order of the small task sets; oracle: every slot's (tower, timestamp, params, sha of conc/flx/grid) bit-exact against "
                  "real single runs, key order and time order; plus a shape sweep with a stubbed solver over towers 1..5 x steps 1..4 x workers 1..8 x strategies "
                  "(a random sample in the quick tier, the whole box in the thorough tier and in the failing-input search)", deep, 0)
