"""C15 — result cache: transparent, complete, effective, crash-safe.

Correspondence on HISTORIES: the model (Lean, driven with the cache configuration extracted from the
source) predicts the hit/miss/error trace of every request; the real GreensFunctionCache is driven
through the same history.  The oracle asserts the property itself on the real code.
"""
import inspect
import io
import json
import os
import shutil
import subprocess
import sys
import tempfile

import numpy as np

from common import run_driver, VERIF
from props.scalarfam import new_stats, finish, budget, run_oracle, oracle, fail, replay  # noqa: F401

FLD = ["z", "profiles", "domain", "modes", "measPt", "halo", "precision", "levels", "shape", "analytic", "bg", "q"]


def variants():
    """value tables: index 0 is the base request; every solver parameter has at least one variation"""
    nz = 5
    z0 = np.linspace(0.1, 4.0, nz)
    z1 = np.linspace(0.1, 5.0, nz)
    u = np.full(nz, 2.0)
    v = np.full(nz, 1.0)
    K = np.full(nz, 1.5)
    prof0 = (u, v, K, K, K)
    prof1 = (u * 1.5, v, K, K, K)
    rng = np.random.default_rng(7)
    # the last entry of every float-valued table differs from the base value only in a LATE significant digit (for the halo: just
    # below a whole number of cells, so that one cell less is padded): a key that formats or rounds its arguments serves the neighbour
    prof2 = (u * (1.0 + 1e-9), v, K, K, K)
    return dict(
        z=[z0, z1, z0 + 1e-9], profiles=[prof0, prof1, prof2], domain=[(60.0, 48.0), (72.0, 48.0), (60.000004, 48.0)],
        modes=[(6, 6), (4, 6), (8, 4), (6, 4), (8, 8)],
        measPt=[(20.0, 16.0), (30.0, 16.0), (20.000002, 16.0)], halo=[10.0, 20.0, 60.0, 72.0, 0.0, 60.000004, 9.999998], precision=["double", "single"],
        levels=[2, [2], [1, 3], 3, -1, [0, -1], [3, 1], [1, 1, 3]], shape=[(6, 6), (8, 6)], analytic=[True, False], bg=[0.0, 1.5, 1e-9],
        q=[0, 1],
    )


def cfg_bits():
    rep = json.load(open(os.path.join(VERIF, "lean", "BLDFM", "Generated", "report.json")))
    c = rep["Tables"].get("_cacheCfg")
    if not isinstance(c, dict):
        # the cache configuration could not be extracted from the current source (the check reports that as a broken obligation): drive the
        # model with the configuration the pinned tree has, so that the histories still run and the search can find a failing input
        c = dict(keyFields=["z", "profiles", "domain", "modes", "measPt", "halo", "precision", "levels", "shape", "analytic", "bg"],
                 haloResolvedAtGet=True, haloResolvedAtPut=True, atomicWrite=True, guardedLoad=True)
    bits = ["1" if f in c["keyFields"] else "0" for f in FLD]
    return " ".join(bits + [str(int(c[k])) for k in ("haloResolvedAtGet", "haloResolvedAtPut", "atomicWrite", "guardedLoad")]), c


def req_tokens(r, V):
    vals = []
    for f in FLD:
        if f == "halo":
            vals.append(0 if r["halo"] is None else r["halo"])
        elif f == "levels":
            # a scalar level and the one-element list hold the same request (the solver wraps scalars)
            vals.append({0: 0, 1: 0, 2: 2, 3: 3, 4: 4, 5: 5, 6: 6, 7: 7}[r["levels"]])     # 4, 5: Python-style negative indices, requests of their own
        else:
            vals.append(r[f])
    return " ".join(str(v) for v in vals) + (" 1" if r["halo"] is None else " 0")


def dflt_table(V):
    # domain id -> halo value id of max(domain)
    out = []
    for di, dom in enumerate(V["domain"]):
        hv = max(dom)
        out.append((di, V["halo"].index(hv)))
    return out


def kwargs_of(r, V):
    ny, nx = V["shape"][r["shape"]]
    q = np.zeros((ny, nx))
    q[1, 1] = 1.0 + r["q"]
    return dict(srf_flx=q, z=V["z"][r["z"]], profiles=V["profiles"][r["profiles"]], domain=V["domain"][r["domain"]],
                levels=V["levels"][r["levels"]], modes=V["modes"][r["modes"]], meas_pt=V["measPt"][r["measPt"]],
                srf_bg_conc=V["bg"][r["bg"]], footprint=True, analytic=V["analytic"][r["analytic"]],
                halo=None if r["halo"] is None else V["halo"][r["halo"]], precision=V["precision"][r["precision"]])


def base_req():
    return dict(z=0, profiles=0, domain=0, modes=0, measPt=0, halo=0, precision=0, levels=0, shape=0, analytic=0, bg=0, q=0)


def flat(res):
    grid, conc, flx = res
    return [np.asarray(a) for a in (grid[0], grid[1], grid[2], conc, flx)]


def same(a, b):
    return all(x.shape == y.shape and x.dtype == y.dtype and np.array_equal(x, y) for x, y in zip(flat(a), flat(b)))


class Crash(BaseException):
    pass


def run_history_real(ops, V, cache_dir, inplace=False):
    """drive the real cache; returns trace tokens and the list of (answer == uncached answer).
    inplace: the caller keeps ONE set of argument arrays (z, the five profiles, the surface flux) for the whole history and overwrites their
    contents before every request (a time loop that refills its buffers): same objects, different values - each request still is what its
    VALUES say"""
    from bldfm.solver import steady_state_transport_solver
    import bldfm.cache as cmod
    live = {}

    def through_live(kw):
        if not inplace:
            return kw
        kw = dict(kw)
        for name in ("z", "srf_flx"):
            a = np.asarray(kw[name], dtype=float)
            key = (name, a.shape)
            if key not in live:
                live[key] = np.empty_like(a)
            live[key][...] = a
            kw[name] = live[key]
        prof = []
        for i, a in enumerate(kw["profiles"]):
            a = np.asarray(a, dtype=float)
            key = ("p%d" % i, a.shape)
            if key not in live:
                live[key] = np.empty_like(a)
            live[key][...] = a
            prof.append(live[key])
        if ("ptuple", len(prof)) not in live:
            live[("ptuple", len(prof))] = tuple(prof)
        kw["profiles"] = live[("ptuple", len(prof))]
        return kw

    def mk():
        class Rec(cmod.GreensFunctionCache):
            def get(self, *a, **k):
                out = super().get(*a, **k)
                self.last = "H" if out is not None else "M"
                return out
        return Rec(cache_dir)
    cache = mk()
    trace, transparent = [], []
    for op in ops:
        kind = op[0]
        if kind == "X":
            cache = mk()
            continue
        r = op[1]
        kw = through_live(kwargs_of(r, V))
        if kind == "R":
            cache.last = None
            try:
                got = steady_state_transport_solver(cache=cache, **kw)
            except Exception as e:  # noqa: BLE001
                trace.append("E")
                transparent.append("exception %r" % (e,))
                continue
            ref = steady_state_transport_solver(cache=None, **kw)
            ok = same(got, ref)
            trace.append(cache.last if ok or cache.last != "H" else "H!")
            transparent.append(True if ok else "differs")
            # what a caller ordinarily does next: post-process the returned arrays in place (normalise, subtract the
            # background, shift the coordinates).  Nothing the cache hands out later may be affected by it.
            try:
                grid, conc, flx = got
                for a in (conc, flx) + tuple(grid):
                    a = np.asarray(a)
                    if a.flags.writeable and a.size:
                        a += 1.0
                        a *= 3.0
            except Exception:  # noqa: BLE001
                pass
        elif kind == "C":
            # interrupt the store: np.savez writes a prefix of the intended bytes, then the process dies
            real_savez = np.savez
            cut = op[2]

            def broken(path, **arrs):
                buf = io.BytesIO()
                real_savez(buf, **arrs)
                data = buf.getvalue()
                p = str(path) if str(path).endswith(".npz") else str(path) + ".npz"
                with open(p, "wb") as f:
                    f.write(data[:int(len(data) * cut)])
                raise Crash()
            cmod.np.savez = broken
            try:
                steady_state_transport_solver(cache=cache, **kw)
            except Crash:
                pass
            except Exception:  # noqa: BLE001
                pass
            finally:
                cmod.np.savez = real_savez
        elif kind == "T":
            # truncate the stored entry of r from outside
            kw2 = dict(kw)
            rec = {}
            orig = cache._compute_key

            def spy(*a, **k):
                rec["key"] = orig(*a, **k)
                return rec["key"]
            cache._compute_key = spy
            try:
                steady_state_transport_solver(cache=cache, **kw2)   # a hit or a re-store; records the key
            except Exception:  # noqa: BLE001
                pass
            cache._compute_key = orig
            path = os.path.join(cache_dir, rec.get("key", "none") + ".npz")
            if os.path.exists(path):
                n = os.path.getsize(path)
                with open(path, "r+b") as f:
                    f.truncate(int(n * op[2]))
    return trace, transparent


def gen_history(rng, V, length):
    """base request + single-argument variations, restarts, interrupted stores, truncations"""
    ops = []
    pool = [base_req()]
    for f in FLD:
        for k in range(1, len(V[f])):
            r = base_req()
            r[f] = k
            pool.append(r)
    r = base_req()
    r["halo"] = None
    pool.append(r)
    chosen = [pool[int(i)] for i in rng.integers(0, len(pool), size=3)]
    for _ in range(length):
        x = rng.random()
        r = chosen[int(rng.integers(len(chosen)))]
        if x < 0.68:
            ops.append(("R", r))
        elif x < 0.8:
            ops.append(("X",))
        elif x < 0.9:
            ops.append(("C", r, float(rng.choice([0.0, 0.02, 0.3, 0.7, 0.999]))))
        else:
            ops.append(("T", r, float(rng.choice([0.0, 0.01, 0.5, 0.98]))))
    ops.append(("R", chosen[0]))
    ops.append(("R", chosen[0]))
    return ops


def model_line(ops, V, bits):
    toks = ["cachehist", bits]
    tb = dflt_table(V)
    toks.append(str(len(tb)))
    for a, b in tb:
        toks += [str(a), str(b)]
    enc = []
    for op in ops:
        if op[0] == "X":
            enc.append("X")
        elif op[0] == "T":
            # the harness performs a request (hit or re-store) before truncating, so that the entry exists
            enc.append("R " + req_tokens(op[1], V))
            enc.append("T " + req_tokens(op[1], V))
        else:
            enc.append("%s %s" % (op[0], req_tokens(op[1], V)))
    toks.append(str(len(enc)))
    return " ".join(toks + enc)


@oracle
def o_cache(case):
    """the property itself on the real code, for one history"""
    V = variants()
    ops = [tuple(o) for o in case["ops"]]
    d = tempfile.mkdtemp(prefix="c15-", dir=os.getcwd())
    try:
        trace, transparent = run_history_real(ops, V, d, inplace=bool(case.get("inplace")))
    finally:
        shutil.rmtree(d, ignore_errors=True)
    reqs = [o for o in ops if o[0] == "R"]
    for i, (t, ok) in enumerate(zip(trace, transparent)):
        fld = [f for f in FLD if reqs[i][1][f] != base_req()[f]]
        if t == "E":
            return fail("C15/fatal", "a cached solve raised (%s)" % ok, None, "no exception", ok, 0)
        if ok is not True:
            return fail("C15/stale/%s" % ("+".join(fld) or "base"), "a cached footprint solve returned something else than the uncached solve", None,
                        "bit-identical to the uncached result", "differs (request %d, %s)" % (i, t), 0)
    # effectiveness: the final two identical requests: the second must be a hit
    if trace[-1] != "H":
        return fail("C15/ineffective", "repeating an identical request was not served from the cache", None, "H", trace[-1], 0)
    return None


@oracle
def o_truncation(case):
    """every truncation point of a stored entry is a miss: never returned, never fatal"""
    from bldfm.solver import steady_state_transport_solver
    import bldfm.cache as cmod
    V = variants()
    r = base_req()
    r.update(case["req"])
    kw = kwargs_of(r, V)
    d = tempfile.mkdtemp(prefix="c15t-", dir=os.getcwd())
    try:
        cache = cmod.GreensFunctionCache(d)
        ref = steady_state_transport_solver(cache=cache, **kw)
        files = [f for f in os.listdir(d) if f.endswith(".npz")]
        if len(files) != 1:
            return fail("C15/store", "a footprint solve with a cache stored %d entries" % len(files), None, 1, len(files), 0)
        path = os.path.join(d, files[0])
        data = open(path, "rb").read()
        n = len(data)
        cuts = range(0, n) if case["all"] else sorted(set([0, 1, 3, 4, 29, 30, 31, 60, n // 4, n // 2, n - 23, n - 22, n - 2, n - 1]
                                                         + [int(x) for x in np.linspace(0, n - 1, 40)]))
        for c in cuts:
            with open(path, "wb") as f:
                f.write(data[:c])
            try:
                got = steady_state_transport_solver(cache=cmod.GreensFunctionCache(d), **kw)
            except Exception as e:  # noqa: BLE001
                return fail("C15/truncated-fatal", "a cache entry truncated to %d of %d bytes makes the solve raise" % (c, n), None, "miss", repr(e)[:120], 0)
            if not same(got, ref):
                return fail("C15/truncated-returned", "a truncated cache entry was returned", None, "recomputed", "differs", 0)
        # corrupt (bit-flipped) entry
        bad = bytearray(data)
        for pos in (10, n // 3, n // 2):
            bad[pos] ^= 0xFF
        with open(path, "wb") as f:
            f.write(bytes(bad))
        try:
            got = steady_state_transport_solver(cache=cmod.GreensFunctionCache(d), **kw)
        except Exception as e:  # noqa: BLE001
            return fail("C15/corrupt-fatal", "a corrupt cache entry makes the solve raise", None, "miss", repr(e)[:120], 0)
    finally:
        shutil.rmtree(d, ignore_errors=True)
    return None


@oracle
def o_signature(case):
    """every parameter of the solver signature is enumerated by the harness (a new parameter is not silently skipped)"""
    from bldfm.solver import steady_state_transport_solver
    params = list(inspect.signature(steady_state_transport_solver).parameters)
    known = {"srf_flx", "z", "profiles", "domain", "levels", "modes", "meas_pt", "srf_bg_conc", "footprint", "analytic", "halo", "precision", "cache"}
    extra = [p for p in params if p not in known]
    if extra:
        return fail("C15/new-parameter", "the solver has a parameter the cache check does not vary: %s" % extra, None, sorted(known), params, 0)
    return None


@oracle
def o_cross_process(case):
    """a cache directory written by one process is read by another"""
    V = variants()
    d = tempfile.mkdtemp(prefix="c15p-", dir=os.getcwd())
    code = ("import sys, json; sys.path[:0] = %r\n"
            "from props import C15\n"
            "V = C15.variants()\n"
            "ops = [tuple(o) for o in json.loads(sys.argv[2])]\n"
            "print(json.dumps(C15.run_history_real(ops, V, sys.argv[1])))\n") % ([os.path.join(VERIF, "tools"), os.path.join(VERIF, "tools", "harness")],)
    try:
        ops = [tuple(o) for o in case["ops"]]
        half = len(ops) // 2
        out = []
        for part in (ops[:half], ops[half:]):
            r = subprocess.run([sys.executable, "-c", code, d, json.dumps(part)], capture_output=True, text=True, timeout=600, cwd=os.getcwd())
            if r.returncode != 0:
                return fail("C15/cross-process/exception", "history half failed in a subprocess", None, "rc 0", r.stderr[-300:], 0)
            out.append(json.loads(r.stdout.strip().splitlines()[-1]))
        trace = out[0][0] + out[1][0]
        oks = out[0][1] + out[1][1]
        for t, ok in zip(trace, oks):
            if t == "E" or ok is not True:
                return fail("C15/cross-process/stale", "a request served from a cache written by an earlier process is wrong", None, "transparent", [t, ok], 0)
        # requests of the second half that were completed in the first half must hit
        first = [json.dumps(o[1], sort_keys=True) for o in ops[:half] if o[0] == "R"]
        k = 0
        reqs2 = [o for o in ops[half:] if o[0] == "R"]
        for o, t in zip(reqs2, out[1][0]):
            if json.dumps(o[1], sort_keys=True) in first and t != "H" and case.get("clean"):
                return fail("C15/cross-process/ineffective", "a request completed by an earlier process was not served from the cache", None, "H", t, 0)
    finally:
        shutil.rmtree(d, ignore_errors=True)
    return None


@oracle
def o_proto(case):
    """several processes sharing the cache directory, any interleaving of their file-system steps: no operation raises,
    a hit returns exactly what was stored for that key, no half-written entry is ever visible"""
    from props import C15proto
    steps = [tuple(s) for s in case["steps"]]
    out = C15proto.run_real(steps, os.getcwd())
    toks = out.split(" | ")[0].split()[1:]
    for i, (s, t) in enumerate(zip(steps, toks)):
        if t == "fail":
            return fail("C15/concurrent/fatal", "step %d %s of an interleaving of several processes sharing the cache directory raises" % (i, list(s)),
                        None, "no exception", out, 0)
        if t == "stuck":
            return fail("C15/concurrent/stuck", "step %d %s did not complete" % (i, list(s)), None, "completes", out, 0)
        if s[0] == "G" and t.startswith("hit:"):
            if t == "hit:garbled" or int(t[4:]) // 10 != s[2]:
                return fail("C15/concurrent/wrong-hit", "a lookup of key %d returned an entry that was not stored for it (step %d)" % (s[2], i), None,
                            "a result stored for key %d" % s[2], t, 0)
    if "=torn" in out.split(" | ")[1]:
        return fail("C15/concurrent/torn-entry", "a half-written entry is visible under a final name", None, "complete entries only", out, 0)
    return None


@oracle
def o_chdir(case):
    """the per-series cache of the high-level drivers lives in the CURRENT working directory (interface.py 21-27): cached runs before and after
    a change of directory within one process return the cache-less results, never raise, and a repeated request in the new directory is a hit"""
    import bldfm.cache as cmod
    import bldfm.interface as itf
    from bldfm.config_parser import parse_config_dict
    raw = dict(domain=dict(nx=8, ny=6, xmax=80.0, ymax=60.0, nz=4, modes=[8, 6], halo=10.0, ref_lat=50.0, ref_lon=11.0),
               towers=[dict(name="T", lat=50.0002, lon=11.0003, z_m=3.0)],
               met=dict(ustar=[0.3, 0.4][: case["steps"]] if case["steps"] > 1 else 0.3, mol=-100.0, wind_speed=3.0, wind_dir=240.0),
               solver=dict(closure="MOST", footprint=True, precision="double"), parallel=dict(use_cache=True))
    events = []
    real = cmod.GreensFunctionCache

    class Rec(real):
        def get(self, *a, **k):
            out = super().get(*a, **k)
            events.append("H" if out is not None else "M")
            return out
    here = os.getcwd()
    dirs = [tempfile.mkdtemp(prefix="c15w-", dir=here) for _ in range(2)]
    cmod.GreensFunctionCache = Rec
    old_itf = getattr(itf, "GreensFunctionCache", None)
    if old_itf is not None:
        itf.GreensFunctionCache = Rec
    try:
        cfg_nc = parse_config_dict(dict(raw, parallel=dict(use_cache=False)))
        ref = [itf.run_bldfm_single(cfg_nc, cfg_nc.towers[0], met_index=i) for i in range(cfg_nc.met.n_timesteps)]
        for d_i, d_ in enumerate(dirs):
            os.chdir(d_)
            for rep in range(2):
                del events[:]
                cfg = parse_config_dict(raw)
                try:
                    ser = itf.run_bldfm_timeseries(cfg, cfg.towers[0])
                except Exception as e:  # noqa: BLE001
                    return fail("C15/cwd/fatal", "a cached time-series run raises after the working directory changed (directory %d, run %d)" % (d_i + 1, rep + 1),
                                None, "a result", repr(e)[:160], 0)
                for i, (a, b) in enumerate(zip(ser, ref)):
                    if not (np.array_equal(np.asarray(a["flx"]), np.asarray(b["flx"])) and np.array_equal(np.asarray(a["conc"]), np.asarray(b["conc"]))):
                        return fail("C15/cwd/stale", "a cached run in directory %d (run %d, step %d) differs from the cache-less run" % (d_i + 1, rep + 1, i), None,
                                    "bit-identical", "differs", 0)
                if rep == 1 and events and "H" not in events:
                    return fail("C15/cwd/ineffective", "a repeated cached run in directory %d was not served from the cache" % (d_i + 1), None, "H", "".join(events), 0)
    finally:
        os.chdir(here)
        cmod.GreensFunctionCache = real
        if old_itf is not None:
            itf.GreensFunctionCache = old_itf
        for d_ in dirs:
            shutil.rmtree(d_, ignore_errors=True)
    return None


def seed_mix(rng):
    return int(rng.integers(3))


def run(rng, tier, deep):
    st = new_stats()
    V = variants()
    bits, cfg = cfg_bits()
    st["branches"]["cfg=" + json.dumps(cfg, sort_keys=True)] = 1
    hists = [gen_history(rng, V, int(rng.integers(3, 9))) for _ in range(budget(tier, deep, 14, 120))]
    # every single-argument variation, ordered pairs with the base request
    for f in FLD:
        for k in range(1, len(V[f])):
            r = base_req()
            r[f] = k
            hists.append([("R", base_req()), ("R", r), ("R", base_req()), ("R", r), ("R", r)])
    rn = base_req()
    rn["halo"] = None
    hists.append([("R", rn), ("R", rn), ("X",), ("R", rn), ("R", rn)])
    # default halo vs every explicit halo value (incl. 0.0 and the value the default resolves to), both orders
    for k in range(len(V["halo"])):
        r = base_req()
        r["halo"] = k
        hists.append([("R", r), ("R", rn), ("R", r), ("R", rn), ("R", rn)])
        hists.append([("R", rn), ("R", r), ("R", rn), ("R", r), ("R", r)])
    # mode counts around the clamp (above / at / below the padded size on one or both axes) under every halo
    for hk in range(len(V["halo"])):
        for m1 in range(len(V["modes"])):
            for m2 in range(m1 + 1, len(V["modes"])):
                if tier == "quick" and not deep and (hk + m1 + m2 + seed_mix(rng)) % 3:
                    continue
                r1, r2 = base_req(), base_req()
                r1["halo"] = r2["halo"] = hk
                r1["modes"], r2["modes"] = m1, m2
                hists.append([("R", r1), ("R", r2), ("R", r1), ("R", r2)])
    # arbitrary request pairs that differ in exactly one argument (not only variations of the base request)
    for _ in range(budget(tier, deep, 12, 100)):
        r1 = {f: int(rng.integers(len(V[f]))) for f in FLD}
        r2 = dict(r1)
        f = FLD[int(rng.integers(len(FLD)))]
        r2[f] = int((r1[f] + 1 + rng.integers(len(V[f]) - 1)) % len(V[f]))
        hists.append([("R", r1), ("R", r2), ("R", r1), ("R", r2), ("X",), ("R", r2), ("R", r1)])
    lines = [model_line(h, V, bits) for h in hists]
    outs = run_driver(lines)
    for h, l, o in zip(hists, lines, outs):
        st["corr_cases"] += 1
        d = tempfile.mkdtemp(prefix="c15c-", dir=os.getcwd())
        try:
            inpl = bool(rng.random() < 0.4)
            st["branches"]["argument arrays=%s" % ("one set of buffers overwritten in place" if inpl else "fresh per value")] = \
                st["branches"].get("argument arrays=%s" % ("one set of buffers overwritten in place" if inpl else "fresh per value"), 0) + 1
            trace, _ = run_history_real(h, V, d, inplace=inpl)
        finally:
            shutil.rmtree(d, ignore_errors=True)
        # the model line holds an extra request before every truncation (the harness' probe request): drop those answers
        mt = o.split()[1:] if o.startswith("ok") else [o]
        keep, i = [], 0
        for op in h:
            if op[0] == "T":
                i += 1
            elif op[0] == "R":
                keep.append(mt[i] if i < len(mt) else "?")
                i += 1
        for op in h:
            st["branches"]["op=" + op[0]] = st["branches"].get("op=" + op[0], 0) + 1
        if keep != trace:
            st["disagreements"].append(dict(what="cache history: impl trace %s vs model %s" % (" ".join(trace), " ".join(keep)), op=l[:600]))
        run_oracle(st, o_cache, dict(ops=[list(o) for o in h], inplace=inpl))
    run_oracle(st, o_signature, dict())
    for k in range(budget(tier, deep, 1, 3)):
        run_oracle(st, o_chdir, dict(steps=1 + k % 2))
    for k in range(budget(tier, deep, 3, 12)):
        r = {}
        if k % 3 == 1:
            r = dict(levels=2, precision=1)
        if k % 3 == 2:
            r = dict(shape=1, halo=None)
        run_oracle(st, o_truncation, dict(req=r, all=(tier == "thorough" and k == 0)))
    for k in range(budget(tier, deep, 2, 8)):
        h = [o for o in gen_history(rng, V, 6) if o[0] in ("R", "X")]
        run_oracle(st, o_cross_process, dict(ops=[list(o) for o in h], clean=True))
    # concurrency: interleavings of the write protocol's micro-steps across processes, model vs real code + oracle
    from props import C15proto
    plans = [list(p) for p in C15proto.FIXED] + [C15proto.gen_steps(rng, int(rng.integers(4, 14))) for _ in range(budget(tier, deep, 12, 120))]
    pouts = run_driver([C15proto.model_line(p) for p in plans])
    for p, mo in zip(plans, pouts):
        st["corr_cases"] += 1
        ro = C15proto.run_real(p, os.getcwd())
        for s_ in p:
            st["branches"]["proto=" + s_[0]] = st["branches"].get("proto=" + s_[0], 0) + 1
        if ro.split() != mo.split():
            st["disagreements"].append(dict(what="cache write protocol under interleaving: impl `%s` vs model `%s`" % (ro[:300], mo[:300]),
                                            op=C15proto.model_line(p)[:600]))
        run_oracle(st, o_proto, dict(steps=[list(x) for x in p]))
    return finish(st, "argument arrays passed as fresh objects or as ONE set of buffers overwritten in place between requests; histories over the base request and EVERY single-argument variation (the solver signature is enumerated with inspect.signature), "
                  "default and explicit halo, restarts (new cache object on the same directory), stores interrupted after a prefix of the bytes, entries "
                  "truncated from outside, two-process histories, interleavings of the write protocol's file-system steps (savez starts / completes, os.replace, constructor, lookup, process death) across up to four emulated processes sharing the directory; correspondence: hit/miss/error trace of every request vs the Lean state machine driven "
                  "with the cache configuration extracted from the source; oracle: answer bit-identical to the uncached solve, repeat = hit, every truncation "
                  "class (thorough: every byte length) of a stored entry = miss without exception", deep, 0)
