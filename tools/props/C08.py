"""C08 — meteorological wind-direction convention end to end."""
import numpy as np

from props.scalarfam import (op_line, correspond_scalar, new_stats, finish, budget, run_oracle, oracle, fail, replay)  # noqa: F401


@oracle
def o_wind_decomp(case):
    from bldfm.utils import compute_wind_fields
    s, wd = case["speed"], case["wd"]
    u, v = compute_wind_fields(s, wd)
    if not abs(np.hypot(u, v) - abs(s)) <= 1e-12 * max(1.0, abs(s)):
        return fail("C08/speed", "wind decomposition does not preserve the speed", None, abs(s), float(np.hypot(u, v)), 1e-12)
    th = np.radians(wd)
    if not (abs(u + s * np.sin(th)) <= 1e-12 * max(1, abs(s)) and abs(v + s * np.cos(th)) <= 1e-12 * max(1, abs(s))):
        return fail("C08/convention", "(u, v) is not -s*(sin wd, cos wd)", None, [-s * np.sin(th), -s * np.cos(th)], [float(u), float(v)], 1e-12)
    # "for every wind direction": whole-degree directions and speeds arrive as Python ints, numpy integers, float32, 0-d arrays and
    # integer-typed series (a YAML `wind_dir: 280`, a column of a data frame) - the decomposition is the same function of the NUMBER
    wi, si = int(round(wd)) % 360, int(s) + 1
    ru, rv = compute_wind_fields(float(si), float(wi))
    for nm, (aw, asp) in dict(pyint=(wi, si), npint=(np.int64(wi), np.int32(si)), f32=(np.float32(wi), np.float32(si)),
                              zerod=(np.array(wi), np.array(float(si))), mixed=(wi, float(si)), mixed2=(float(wi), si)).items():
        gu, gv = compute_wind_fields(asp, aw)
        if not (abs(float(gu) - ru) <= 1e-6 * si and abs(float(gv) - rv) <= 1e-6 * si) or (nm != "f32" and not (abs(float(gu) - ru) <= 1e-12 * si and abs(float(gv) - rv) <= 1e-12 * si)):
            return fail("C08/dtype", "wind decomposition of speed %r, direction %r (%s) differs from the same numbers given as floats" % (asp, aw, nm),
                        None, [float(ru), float(rv)], [float(gu), float(gv)], 1e-12)
    dirs = np.array([wi, (wi + 37) % 360, 90, 280], dtype=np.int64)
    for arr in (dirs, dirs.astype(float), dirs.astype(np.int32)):
        gu, gv = compute_wind_fields(float(si), arr)
        for k, dk in enumerate(dirs):
            eu, ev = compute_wind_fields(float(si), float(dk))
            if not (abs(float(np.asarray(gu)[k]) - eu) <= 1e-12 * si and abs(float(np.asarray(gv)[k]) - ev) <= 1e-12 * si):
                return fail("C08/dtype", "wind decomposition of a %s series of directions differs from the element-wise one at %d degrees" % (arr.dtype, int(dk)),
                            None, [float(eu), float(ev)], [float(np.asarray(gu)[k]), float(np.asarray(gv)[k])], 1e-12)
    # a direction / speed series held in ONE array that is refilled in place between calls; the arguments themselves are left untouched
    darr, sarr = dirs.astype(float), np.full(len(dirs), float(si))
    compute_wind_fields(sarr, darr)
    darr[...] = (darr * 1.5 + 11.0) % 360.0
    sarr *= 1.25
    keep = (sarr.copy(), darr.copy())
    g1 = compute_wind_fields(sarr, darr)
    g2 = compute_wind_fields(sarr.copy(), darr.copy())
    if not (np.array_equal(sarr, keep[0]) and np.array_equal(darr, keep[1])):
        return fail("C08/mutates-input", "compute_wind_fields modifies its argument arrays", None, "unchanged", "changed", 0)
    if not (np.array_equal(np.asarray(g1[0]), np.asarray(g2[0])) and np.array_equal(np.asarray(g1[1]), np.asarray(g2[1]))):
        return fail("C08/inplace", "the decomposition of a series whose array was refilled in place is not that of its current values", None, "equal", "differs", 0)
    for d, (eu, ev) in {0.0: (0, -1), 90.0: (-1, 0), 180.0: (0, 1), 270.0: (1, 0)}.items():
        uu, vv = compute_wind_fields(s, d)
        if not (abs(uu - eu * s) <= 1e-12 * abs(s) + 1e-15 and abs(vv - ev * s) <= 1e-12 * abs(s) + 1e-15):
            return fail("C08/cardinal", "cardinal direction %g does not map to the expected wind" % d, None, [eu * s, ev * s], [float(uu), float(vv)], 1e-12)
    return None


@oracle
def o_footprint_upwind(case):
    """config-driven footprint lies upwind of the tower: centroid bearing == wind_dir within 6 degrees"""
    from bldfm.config_parser import parse_config_dict
    from bldfm.interface import run_bldfm_single
    from bldfm.plotting._geo import xy_to_latlon
    nx, ny = case["nx"], case["ny"]
    xmax, ymax = case["xmax"], case["ymax"]
    rlat, rlon = case["ref_lat"], case["ref_lon"]
    tlat, tlon = xy_to_latlon(xmax / 2, ymax / 2, rlat, rlon)
    met = dict(wind_speed=case["speed"], wind_dir=case["wd"], mol=case["mol"])
    met_index = 0
    if case.get("series"):
        # a time series of directions (each in [0, 360)): the step under test is the LAST entry, run with its own index - whatever the
        # earlier entries are (a wind backing or veering through north, jumps of more than 180 degrees), step i is entry i
        met["wind_dir"] = [float(x) for x in case["series"]] + [case["wd"]]
        met_index = len(case["series"])
        if case.get("series_speed"):
            met["wind_speed"] = [case["speed"]] * (met_index + 1)
    if case.get("int_typed"):
        # whole numbers as a YAML file delivers them: Python ints
        met["wind_dir"] = int(case["wd"])
        met["wind_speed"] = int(case["speed"])
    if case["forcing"] == "z0":
        met["z0"] = case["z0"]
    else:
        met["ustar"] = case["ustar"]
    cfg = parse_config_dict(dict(
        domain=dict(nx=nx, ny=ny, xmax=xmax, ymax=ymax, nz=case["nz"], modes=[nx, ny], ref_lat=rlat, ref_lon=rlon, halo=case.get("halo")),
        towers=[dict(name="T", lat=float(tlat), lon=float(tlon), z_m=case["zm"])],
        met=met, solver=dict(closure=case["closure"], footprint=True, precision="double")))
    if case.get("rerun"):
        # a sweep over wind directions on ONE configuration object: run it, assign the next direction, run it again
        want = cfg.met.wind_dir
        first = (case["wd"] + 137.0) % 360.0
        if isinstance(want, list):
            keep_ = want[met_index]
            want[met_index] = first
            run_bldfm_single(cfg, cfg.towers[0], met_index=met_index)
            want[met_index] = keep_
        else:
            cfg.met.wind_dir = first
            run_bldfm_single(cfg, cfg.towers[0], met_index=met_index)
            cfg.met.wind_dir = want
    r = run_bldfm_single(cfg, cfg.towers[0], met_index=met_index)
    if r["params"]["wind_dir"] != (cfg.met.wind_dir[met_index] if isinstance(cfg.met.wind_dir, list) else cfg.met.wind_dir):
        return fail("C08/params-dir", "the result's reported wind direction is not the configured one", None, case["wd"], r["params"]["wind_dir"], 0)
    f = np.asarray(r["flx"], dtype=float)
    X, Y = np.asarray(r["grid"][0]), np.asarray(r["grid"][1])
    tx, ty = cfg.towers[0].x, cfg.towers[0].y
    w = np.clip(f, 0, None)
    # the returned grid x = i*dx, i < nx, reaches one cell further to the west / south of a tower at the domain centre than
    # to the east / north: the centre of mass is taken over the largest sub-window that is CENTRED ON THE TOWER (the
    # property's "domain centred on the tower"); an unmatched edge column / row would pull the centroid across the wind
    # axis by its whole lever arm (under-resolved footprints ring out to the edges)
    rx = min(float(tx - X.min()), float(X.max() - tx))
    ry = min(float(ty - Y.min()), float(Y.max() - ty))
    w = w * ((np.abs(X - tx) <= rx * (1 + 1e-9)) & (np.abs(Y - ty) <= ry * (1 + 1e-9)))
    tot = w.sum()
    if not tot > 0:
        return fail("C08/empty", "footprint has no positive mass", None, "> 0", float(tot), 0)
    cx, cy = float((w * X).sum() / tot) - tx, float((w * Y).sum() / tot) - ty
    brg = float(np.degrees(np.arctan2(cx, cy)) % 360.0)
    d = abs((brg - case["wd"] + 180.0) % 360.0 - 180.0)
    if case.get("_debug"):
        return dict(d=d)
    if not d <= 8.0:
        return fail("C08/upwind-bearing", "bearing from the tower to the footprint's centre of mass differs from the wind direction by more than 8 degrees",
                    None, case["wd"], brg, 8.0)
    return None


def upwind_case(rng, wd=None):
    n = int(rng.choice([48, 64]))
    oblong = rng.random() < 0.3
    nx, ny = (n, n) if not oblong else (n, int(n * 0.75))
    dx = float(rng.uniform(6, 14))
    zm = float(rng.uniform(2.5, 6.0))
    closure = str(rng.choice(["MOST", "MOSTM", "CONSTANT", "OAAHOC"]))
    forcing = "ustar" if closure == "OAAHOC" else str(rng.choice(["ustar", "z0"]))
    speed = float(rng.uniform(2, 7))
    z0 = float(rng.uniform(0.02, 0.2))
    ustar = float(rng.uniform(0.25, 0.6))
    if closure == "OAAHOC":
        # physically consistent friction velocity for the one-and-a-half order closure
        # (default tke = 1): z0 = zm exp(-cm cl |U| sqrt(tke) / ustar^2)  with z0 in [0.02, 0.2]
        ustar = float(np.sqrt(0.0856 * 0.845 * speed / np.log(zm / z0)))
    return dict(nx=nx, ny=ny, xmax=nx * dx, ymax=ny * dx, nz=int(rng.choice([8, 12])), zm=zm,
                ref_lat=float(rng.choice([rng.uniform(-60, 60), 0.0, rng.uniform(-0.002, 0.002)], p=[0.7, 0.2, 0.1])),
                ref_lon=float(rng.choice([rng.uniform(-180, 180), 0.0, rng.uniform(-0.003, 0.003)], p=[0.7, 0.2, 0.1])),
                speed=speed, wd=float(rng.uniform(0, 360)) if wd is None else float(wd),
                mol=float(rng.choice([-30.0, -100.0, 1e9, 150.0, 60.0])), ustar=ustar,
                z0=z0, forcing=forcing, closure=closure, halo=None)


def run(rng, tier, deep):
    from bldfm.utils import compute_wind_fields
    st = new_stats()
    items = []
    for _ in range(budget(tier, deep, 200, 3000)):
        s = float(rng.uniform(0.1, 20))
        wd = float(rng.choice([rng.uniform(0, 360), rng.integers(0, 8) * 45.0, rng.uniform(-360, 720)]))
        items.append((op_line("wind", s, wd), ("ok", np.array(compute_wind_fields(s, wd), dtype=float))))
    correspond_scalar(items, st, tol=1e-13)
    for _ in range(budget(tier, deep, 100, 1000)):
        run_oracle(st, o_wind_decomp, dict(speed=float(rng.uniform(0.1, 20)), wd=float(rng.uniform(0, 360))))
    nd = budget(tier, deep, 18, 180)
    off = float(rng.uniform(0, 360))
    for k in range(nd):
        c = upwind_case(rng, wd=(off + k * 360.0 / nd) % 360.0)
        if k % 4 == 1:
            c["rerun"] = True
        run_oracle(st, o_footprint_upwind, c)
    # the four cardinal directions EXACTLY (0.0 is falsy in Python), 360.0, and a negative / wrapped equivalent
    for wd in (0.0, 90.0, 180.0, 270.0, 360.0, -90.0, 450.0)[: (7 if (deep or tier == "thorough") else 5)]:
        run_oracle(st, o_footprint_upwind, upwind_case(rng, wd=wd))
    for _ in range(budget(tier, deep, 2, 12)):
        c = upwind_case(rng, wd=float(int(rng.integers(1, 360))))
        if c["wd"] % 90 == 0:
            c["wd"] += 10.0
        c.update(int_typed=True, speed=float(int(rng.integers(2, 8))))
        if c["closure"] == "OAAHOC":
            c["ustar"] = float(np.sqrt(0.0856 * 0.845 * c["speed"] / np.log(c["zm"] / c["z0"])))
        run_oracle(st, o_footprint_upwind, c)
    for k in range(budget(tier, deep, 3, 16)):
        c = upwind_case(rng)
        wd = c["wd"]
        kinds = [[(wd + 140.0) % 360.0], [(wd + 220.0) % 360.0], [(wd + 30.0) % 360.0, (wd + 10.0) % 360.0],
                 [(wd - 20.0) % 360.0, (wd + 180.0) % 360.0, (wd + 181.0) % 360.0], [5.0, 355.0], [350.0, 20.0]]
        c.update(series=kinds[k % len(kinds)], series_speed=bool(k % 2))
        run_oracle(st, o_footprint_upwind, c)
    return finish(st, "direction SERIES run at their own step index (backing / veering through north, jumps beyond 180 degrees); wind decomposition: speeds 0.1..20, whole-degree directions and speeds as int / numpy int / float32 / 0-d array / integer series, directions incl. cardinals and out-of-range angles (correspondence 1e-13); "
                  "end-to-end: configs built with parse_config_dict, tower at the domain centre given by lat/lon, 48..64 cells, square and oblong, "
                  "all four closures, stable/neutral/unstable, ustar and z0 forcing, wind directions evenly covering [0,360); oracle: bearing of the "
                  "footprint centroid vs wind_dir (8 degrees; worst observed on the clean tree 5.1)", deep, 1e-13)
