"""C09 — closure profiles self-consistent with similarity theory and the grid."""
import numpy as np

from common import fhex, err_kind
from props.scalarfam import (op_line, correspond_scalar, new_stats, finish, budget, run_oracle, oracle, fail, replay)  # noqa: F401


def opt(x):
    return "none" if x is None else fhex(x)


def profiles_op(c):
    return " ".join(["profiles", c["closure"], str(c["n"]), fhex(c["zm"]), fhex(c["um"]), fhex(c["vm"]), opt(c.get("ustar")),
                     opt(c.get("z0")), fhex(c["mol"]), fhex(c["prsc"]), opt(c.get("dh")), opt(c.get("st")), opt(c.get("tke"))])


def real_profiles(c):
    from bldfm.pbl_model import vertical_profiles
    kw = dict(ustar=c.get("ustar"), z0=c.get("z0"), mol=c["mol"], prsc=c["prsc"], closure=c["closure"],
              domain_height=c.get("dh"), stretch=c.get("st"), tke=c.get("tke"))
    return vertical_profiles(c["n"], c["zm"], (c["um"], c["vm"]), **kw)


def real_profiles_canon(c):
    try:
        z, prof = real_profiles(c)
    except Exception as e:  # noqa: BLE001
        return ("err", err_kind(e))
    z = np.asarray(z, dtype=float).ravel()
    out = [np.array([float(len(z))]), z]
    for p in prof:
        p = np.asarray(p, dtype=float).ravel()
        if p.shape != z.shape:
            return ("err", "shape")
        out.append(p)
    return ("ok", np.concatenate(out))


def gen_case(rng, malformed=False):
    """physically consistent inputs: the (given or derived) roughness length lies below the measurement height"""
    while True:
        c = gen_case0(rng, malformed)
        if malformed or c["closure"] == "OAAHOC" or c.get("z0") is not None:
            return c
        from bldfm.pbl_model import psi
        z0 = c["zm"] * np.exp(-0.4 * np.hypot(c["um"], c["vm"]) / c["ustar"] + float(psi(c["zm"] / c["mol"])))
        if 1e-4 * c["zm"] < z0 < min(0.4 * c["zm"], 0.02 * abs(c["mol"])):
            return c


def gen_case0(rng, malformed=False):
    closure = str(rng.choice(["MOST", "MOSTM", "CONSTANT", "OAAHOC"]))
    # measurement heights from a short mast to a tall tower (300 m towers exist): log-uniform, so that any absolute height hidden in the
    # code (a surface-layer depth, a blending height) is crossed
    zm = float(rng.uniform(1.5, 30)) if rng.random() < 0.6 else float(10.0 ** rng.uniform(np.log10(1.5), np.log10(400.0)))
    wd = rng.uniform(0, 2 * np.pi)
    sp = float(rng.uniform(0.8, 12))
    um, vm = float(sp * np.cos(wd)), float(sp * np.sin(wd))
    # stability zm/L from strongly unstable (-2) through neutral to stable (+1.5)
    x = float(rng.choice([-10 ** rng.uniform(-3, 0.3), 10 ** rng.uniform(-3, 0.17), 0.0]))
    mol = 1e9 if x == 0.0 else float(zm / x)
    c = dict(closure=closure, n=int(rng.integers(1, 40)), zm=zm, um=um, vm=vm, mol=mol, prsc=float(rng.choice([1.0, 0.74, 1.3])))
    z0 = float(zm * 10 ** rng.uniform(-3.5, -0.4))
    # similarity theory presupposes a roughness length far below |L| (the log law omits psi(z0/L))
    z0 = min(z0, 0.02 * abs(mol))
    if closure == "OAAHOC":
        tke = float(rng.uniform(0.3, 3.0))
        c["ustar"] = float(np.sqrt(0.0856 * 0.845 * sp * np.sqrt(tke) / np.log(zm / z0)))
        if rng.random() < 0.6:
            c["tke"] = tke
        else:
            c["ustar"] = float(np.sqrt(0.0856 * 0.845 * sp / np.log(zm / z0)))
        if rng.random() < 0.3:
            # a roughness length handed over as well (a configuration that carries both): this closure derives its own from ustar and tke, so
            # that the log law closes at the measurement height whatever else is supplied
            c["z0"] = float(zm * 10 ** rng.uniform(-3.0, -0.5))
    elif rng.random() < 0.5:
        c["z0"] = z0
    else:
        c["ustar"] = float(rng.uniform(0.08, 0.9))
    k = rng.random()
    if k < 0.2:
        # user-chosen stretch / domain height, kept inside the grid's valid range (last zeta < aa)
        c["st"] = float(zm * rng.uniform(1.5, 4.0))
        c["dh"] = float(zm * rng.uniform(1.0, 2.0))
    elif k < 0.3:
        # only one of the two given: the other keeps its own default (2 zm each, independently)
        c["st"] = float(zm * rng.uniform(1.6, 4.0))
    elif k < 0.4:
        c["dh"] = float(zm * rng.uniform(1.0, 2.3))
    if malformed:
        k = rng.integers(0, 3)
        if k == 0:
            c["closure"] = "KEPS"
        elif k == 1 and closure != "OAAHOC":
            c["z0"], c["ustar"] = z0, 0.3
        else:
            c.pop("z0", None)
            c.pop("ustar", None)
    return c


@oracle
def o_profiles(c):
    from bldfm.pbl_model import psi, phi
    z, (u, v, Kx, Ky, Kz) = real_profiles(c)
    z = np.asarray(z, dtype=float)
    n, zm = c["n"], c["zm"]
    tol = 1e-9
    absum = np.hypot(c["um"], c["vm"])
    u, v, Kx, Ky, Kz = [np.asarray(p, dtype=float).ravel() for p in (u, v, Kx, Ky, Kz)]
    if not (len(z) > n and abs(z[n] - zm) <= tol * zm):
        return fail("C09/meas-node", "the measurement height is not the grid node with index n", None, zm, float(z[n]) if len(z) > n else None, tol)
    if not np.all(np.diff(z) > 0):
        return fail("C09/monotone", "vertical grid is not strictly increasing", None, "increasing", "not", 0)
    top = c.get("dh") or 2 * zm
    if not z[-1] >= top * (1 - 1e-9):
        return fail("C09/top", "vertical grid does not reach the domain height", None, top, float(z[-1]), 1e-9)
    if not (abs(u[n] - c["um"]) <= tol * absum and abs(v[n] - c["vm"]) <= tol * absum):
        return fail("C09/wind-at-meas", "profiles do not reproduce the supplied wind vector at the measurement height", None,
                    [c["um"], c["vm"]], [float(u[n]), float(v[n])], tol)
    if not np.all(np.abs(u * c["vm"] - v * c["um"]) <= 1e-9 * absum * np.maximum(np.hypot(u, v), 1e-300)):
        return fail("C09/direction", "wind direction is not constant with height", None, "parallel", "not parallel", 1e-9)
    dotp = u[1:] * c["um"] + v[1:] * c["vm"]
    if not np.all(dotp > 0):
        # known finding F2 (known_findings.json): in UNSTABLE stratification the implemented profile shape
        # ln(z/z0) + psi(z/L) is itself negative in a thin layer above the roughness length (the log law omits
        # psi(z0/L)), so grids that place nodes there return a reversed wind.  Anything else keeps the unlisted key.
        if c["closure"] in ("MOST", "MOSTM") and c["mol"] < 0:
            shape = np.log(z[1:] / z[0]) + np.asarray(psi(z[1:] / c["mol"]), dtype=float)
            if np.array_equal(dotp > 0, shape > 0) and dotp[-1] > 0:
                k = int(np.sum(dotp <= 0))
                return fail("C09/reversal/unstable-surface-layer",
                            "the wind is reversed at the %d lowest node(s) above z0 (z/z0 <= %.4f), where ln(z/z0) + psi(z/L) <= 0 (L = %.1f, z0 = %.3g)"
                            % (k, float(z[k] / z[0]), c["mol"], float(z[0])), None, "> 0", "<= 0", 0)
        return fail("C09/reversal", "wind reverses with height", None, "> 0", "<= 0", 0)
    if not np.all(Kz > 0):
        return fail("C09/Kz-positive", "vertical diffusivity is not strictly positive", None, "> 0", float(Kz.min()), 0)
    if c["closure"] in ("MOST", "CONSTANT", "OAAHOC"):
        if not (np.array_equal(Kx, Kz) and np.array_equal(Ky, Kz)):
            return fail("C09/isotropy", "Kx, Ky, Kz differ for an isotropic closure", None, "equal", "differ", 0)
    if c["closure"] == "MOSTM":
        if not (np.all(Kx >= 0) and np.all(Ky >= 0) and np.allclose(Kx + Ky, Kz, rtol=1e-12)):
            return fail("C09/mostm-split", "MOSTM horizontal diffusivities are not the cross-wind projection of K", None, "Kx+Ky=Kz", "differs", 1e-12)
    # grid bottom = roughness length; similarity formula for K; z0 <-> ustar round trip
    if c["closure"] in ("MOST", "MOSTM", "CONSTANT"):
        kap = 0.4
        if c.get("z0") is not None:
            z0 = c["z0"]
            ustar = absum * kap / (np.log(zm / z0) + float(psi(zm / c["mol"])))
        else:
            ustar = c["ustar"]
            z0 = zm * np.exp(-kap * absum / ustar + float(psi(zm / c["mol"])))
        if not abs(z[0] - z0) <= 1e-9 * zm:
            return fail("C09/bottom", "vertical grid does not start at the roughness length", None, float(z0), float(z[0]), 1e-9)
        if c["closure"] != "CONSTANT":
            Kexp = kap * ustar * z / np.asarray(phi(z / c["mol"]), dtype=float) / c["prsc"]
            if not np.allclose(Kz, Kexp, rtol=1e-10):
                return fail("C09/K-formula", "Kz is not kappa*ustar*z/(phi(z/L)*Pr)", None, "formula", "differs", 1e-10)
        # round trip: same profiles from the other forcing
        c2 = {k: w for k, w in c.items() if k not in ("z0", "ustar")}
        if c.get("z0") is not None:
            c2["ustar"] = float(ustar)
        else:
            c2["z0"] = float(z0)
        z2, p2 = real_profiles(c2)
        if len(z2) == len(z):
            for a, b in zip((z, u, v, Kx, Ky, Kz), (z2,) + tuple(p2)):
                if not np.allclose(a, np.asarray(b, dtype=float).ravel(), rtol=1e-8, atol=1e-12):
                    return fail("C09/roundtrip", "deriving z0 from ustar and ustar back from z0 does not return identical profiles", None, "equal", "differs", 1e-8)
    return None


@oracle
def o_stability(c):
    """psi is the integral of (phi_M - 1)/x; continuity through neutral; agreement with the reference model's copies"""
    from bldfm.pbl_model import psi, phi
    from bldfm import ffm_kormann_meixner as km
    from scipy.integrate import quad
    x = c["x"]
    if x < 0:
        phim = lambda t: (1 - 16 * t) ** -0.25  # noqa: E731
    else:
        phim = lambda t: 1 + 5 * t  # noqa: E731
    val, _ = quad(lambda t: (phim(t) - 1) / t if t != 0 else 0.0, 0, x, epsabs=1e-13, epsrel=1e-12)
    got = float(psi(x))
    if not abs(got - val) <= 1e-9 * max(1.0, abs(val)):
        return fail("C09/psi-integral", "psi is not the integral of (phi_M - 1)/x from neutral", None, val, got, 1e-9)
    eps = 1e-9
    if not (abs(float(psi(eps))) <= 1e-8 and abs(float(psi(-eps))) <= 1e-8 and abs(float(phi(eps)) - 1) <= 1e-8 and abs(float(phi(-eps)) - 1) <= 1e-8):
        return fail("C09/neutral-continuity", "psi/phi are not continuous through neutral stratification", None, [0, 1], [float(psi(-eps)), float(phi(-eps))], 1e-8)
    # the documented argument is "float or numpy.ndarray": an array holding stable AND unstable values (a z/L series, a
    # sweep through neutral) must give, element by element, what the scalar calls give
    others = c.get("others")
    if others:
        arr = np.array([x] + list(others), dtype=float)
        for fn, name in ((psi, "psi"), (phi, "phi")):
            whole = np.asarray(fn(arr), dtype=float)
            single = np.array([float(fn(float(v))) for v in arr])
            if whole.shape != arr.shape or not np.allclose(whole, single, rtol=1e-13, atol=1e-15):
                return fail("C09/array-vs-scalar/%s" % name, "%s of an array differs from %s of its elements (mixed stable / unstable values)" % (name, name),
                            None, [float(v) for v in single], [float(v) for v in whole.ravel()], 1e-13)
    zm, L = c["zm"], c["zm"] / x
    a = float(km._psiM(np.asarray([zm]), np.asarray([L]))[0])
    b = float(km._phiC(np.asarray([zm]), np.asarray([L]))[0])
    if not (abs(a - got) <= 1e-12 * max(1, abs(got)) and abs(b - float(phi(x))) <= 1e-12 * max(1, abs(b))):
        return fail("C09/reference-copies", "psi/phi disagree with the Kormann-Meixner module's copies", None, [got, float(phi(x))], [a, b], 1e-12)
    return None


@oracle
def o_arg_types(c):
    """the profiles are a function of the NUMBERS supplied: whole-number heights, wind components, Obukhov length, roughness length given as
    Python ints, numpy integers, float32 or 0-d arrays, and the wind pair as a tuple, a list or an array, give the profiles of the floats"""
    from bldfm.pbl_model import vertical_profiles
    kw = dict(ustar=c.get("ustar"), z0=c.get("z0"), mol=c["mol"], prsc=c["prsc"], closure=c["closure"], domain_height=c.get("dh"), stretch=c.get("st"), tke=c.get("tke"))
    try:
        zr, pr = vertical_profiles(c["n"], float(c["zm"]), (float(c["um"]), float(c["vm"])), **kw)
    except Exception:  # noqa: BLE001
        return None       # the float request itself is rejected (inconsistent forcing): nothing to compare
    ref = np.concatenate([np.asarray(zr, dtype=float).ravel()] + [np.asarray(p_, dtype=float).ravel() for p_ in pr])
    if not np.all(np.isfinite(ref)):
        return None       # an inconsistent forcing (the float request itself is not finite): nothing to compare
    scale = max(float(np.max(np.abs(ref))), 1e-300)
    casts = dict(pyint=int, npint64=np.int64, npint32=np.int32, float32=np.float32, zerod=lambda x: np.array(float(x)), zerod_int=lambda x: np.array(int(x)))
    variants = []
    for nm, f in casts.items():
        variants.append(("zm:" + nm, dict(zm=f(c["zm"]))))
        variants.append(("wind:" + nm, dict(wind=(f(c["um"]), f(c["vm"])))))
        variants.append(("mol:" + nm, dict(mol=f(c["mol"]))))
        if c.get("z0") is not None:
            variants.append(("z0:" + nm, dict(z0=f(c["z0"]))))
        variants.append(("all:" + nm, dict(zm=f(c["zm"]), wind=(f(c["um"]), f(c["vm"])), mol=f(c["mol"]))))
    variants += [("wind:list", dict(wind=[float(c["um"]), float(c["vm"])])), ("wind:array", dict(wind=np.array([float(c["um"]), float(c["vm"])]))),
                 ("wind:int-array", dict(wind=np.array([int(c["um"]), int(c["vm"])]))), ("n:npint64", dict(n=np.int64(c["n"]))), ("n:npint32", dict(n=np.int32(c["n"])))]
    for nm, ch in variants:
        k2 = dict(kw)
        for key in ("mol", "z0"):
            if key in ch:
                k2[key] = ch[key]
        try:
            z2, p2 = vertical_profiles(ch.get("n", c["n"]), ch.get("zm", float(c["zm"])), ch.get("wind", (float(c["um"]), float(c["vm"]))), **k2)
        except Exception:  # noqa: BLE001
            continue          # a rejected argument type is not a wrong result
        got = np.concatenate([np.asarray(z2, dtype=float).ravel()] + [np.asarray(p_, dtype=float).ravel() for p_ in p2])
        tol = 1e-5 if "float32" in nm else 1e-12
        if got.shape != ref.shape or not np.all(np.abs(got - ref) <= tol * scale):
            e = float(np.max(np.abs(got - ref))) / scale if got.shape == ref.shape else float("inf")
            return fail("C09/arg-type", "the profiles for %s differ from those of the same numbers given as floats" % nm, None, "equal", e, tol)
    return None


def _load_corpus(name):
    import json
    import os
    p = os.path.join(os.path.dirname(os.path.abspath(__file__)), "..", "..", "corpus", name)
    try:
        return json.load(open(p))
    except OSError:
        return []


C09_CORPUS = _load_corpus("C09.json")      # minimised past failures: run first, every time


def run(rng, tier, deep):
    from bldfm.pbl_model import psi, phi
    st = new_stats()
    items = []
    for _ in range(budget(tier, deep, 150, 2000)):
        x = float(rng.choice([rng.normal() * 2, rng.uniform(-50, 0), rng.uniform(0, 20), 0.0, 10 ** rng.uniform(-9, -2), -10 ** rng.uniform(-9, -2)]))
        items.append((op_line("psi", x), ("ok", np.array([float(psi(x))]))))
        items.append((op_line("phi", x), ("ok", np.array([float(phi(x))]))))
    correspond_scalar(items, st, tol=1e-12)
    items = []
    for i in range(budget(tier, deep, 120, 1500)):
        c = gen_case(rng, malformed=(i % 12 == 11))
        st["branches"]["closure=" + c["closure"]] = st["branches"].get("closure=" + c["closure"], 0) + 1
        st["branches"]["stab=" + ("unstable" if c["mol"] < 0 else "stable")] = st["branches"].get("stab=" + ("unstable" if c["mol"] < 0 else "stable"), 0) + 1
        items.append((profiles_op(c), real_profiles_canon(c)))
    correspond_scalar(items, st, tol=5e-9)
    for c in C09_CORPUS:
        run_oracle(st, o_profiles, dict(c))
    for _ in range(budget(tier, deep, 150, 2000)):
        run_oracle(st, o_profiles, gen_case(rng))
    for _ in range(budget(tier, deep, 12, 100)):
        c = gen_case(rng)
        # whole numbers, so that every type tried holds the same values exactly
        c.update(zm=float(int(rng.integers(3, 30))), um=float(int(rng.integers(1, 7)) * int(rng.choice([-1, 1]))), vm=float(int(rng.integers(0, 6))),
                 mol=float(int(rng.choice([-200, -50, -20, 40, 150, 1000]))))
        if c.get("z0") is not None:
            c["z0"] = 1.0
        c["dh"], c["st"] = None, None
        run_oracle(st, o_arg_types, c)
    for _ in range(budget(tier, deep, 60, 800)):
        others = [float(v) for v in rng.choice([rng.uniform(-40, -1e-3), rng.uniform(1e-3, 15), 0.0], size=int(rng.integers(1, 5)))] if rng.random() < 0.5 else None
        if others:
            others = [float(rng.uniform(-30, 10)) for _ in others]
        run_oracle(st, o_stability, dict(x=float(rng.choice([rng.uniform(-40, -1e-3), rng.uniform(1e-3, 15), -10.0 ** rng.uniform(-6, 1.6), 10.0 ** rng.uniform(-6, 1.2)])),   # incl. near-neutral magnitudes
                                          zm=float(rng.uniform(1, 40)), others=others))
    return finish(st, "closures MOST/MOSTM/CONSTANT/OAAHOC x ustar/z0 forcing x stability of both signs up to neutral x 1..40 layers x Prandtl numbers x "
                  "default and user-chosen stretch/domain height (inside the valid range) + a malformed stream (bad closure, both/neither of z0, ustar); "
                  "correspondence of psi, phi and the whole vertical_profiles output incl. the grid length (5e-9; worst gap observed on the clean tree 2e-11, from log cancellation); oracle: grid/wind/K identities, "
                  "z0<->ustar round trip, psi vs quad of (phi_M-1)/x, continuity at neutral, array arguments mixing stable and unstable values vs element-wise calls, agreement with the KM module's copies, whole-number arguments as int / numpy integer / float32 / 0-d array and the wind pair as tuple / list / array", deep, 5e-9)
