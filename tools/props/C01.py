from props.solverfam import run_C01 as run, replay  # noqa: F401
