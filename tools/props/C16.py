"""C16 — met time series: exhaustive correspondence on the stated space + oracle."""
import itertools

import numpy as np

from common import run_driver
from props.scalarfam import new_stats, finish, run_oracle, oracle, fail, replay  # noqa: F401

FIELDS = ("ustar", "mol", "wind_speed", "wind_dir")


def enc(v):
    if v is None:
        return "N"
    if isinstance(v, list):
        return "L:" + ",".join(str(int(x)) for x in v)
    return "S:%d" % int(v)


def mk_cfg(case):
    from bldfm.config_parser import MetConfig
    if case.get("prev") is not None:
        # the SAME MetConfig object re-used: built and consulted for an earlier forcing, then given the fields of this one
        # (it is a plain mutable dataclass); what it says must be about the fields it holds now
        m = mk_cfg(case["prev"])
        try:
            m.validate()
        except ValueError:
            pass
        try:
            m.n_timesteps
            m.get_step(0)
        except Exception:  # noqa: BLE001
            pass
        fresh = mk_cfg({k: v for k, v in case.items() if k != "prev"})
        for f in tuple(FIELDS) + ("z0", "timestamps"):
            setattr(m, f, getattr(fresh, f))
        return m
    kw = {}
    for f in FIELDS:
        v = case[f]
        kw[f] = [float(x) for x in v] if isinstance(v, list) else (None if v is None else float(v))
    kw["z0"] = None if case["z0"] is None else float(case["z0"])
    kw["timestamps"] = None if case["ts"] is None else ts_container(["t%d" % t for t in case["ts"]], case.get("ts_kind"))
    return MetConfig(**kw)


def ts_container(labels, kind):
    """the timestamps in the container a caller may hold them in: a list (YAML), a tuple, a numpy array of strings (the values of a
    data-frame index); which one it is does not change what the i-th timestamp is or how many there are"""
    if kind == "tuple":
        return tuple(labels)
    if kind == "ndarray":
        return np.array(labels)
    return labels


def impl_line(case, nq):
    m = mk_cfg(case)
    try:
        m.validate()
        ok = 1
    except ValueError:
        ok = 0
    out = "ok %d %d" % (ok, m.n_timesteps)
    for i in range(nq):
        try:
            s = m.get_step(i)
        except IndexError:
            out += " | E"
            continue

        def sh(x):
            return "N" if x is None else str(int(x))
        ts = s["timestamp"]
        if isinstance(ts, str):
            tss = str(ts)
        elif isinstance(ts, (int, np.integer)) and not isinstance(ts, bool):
            tss = "i%d" % ts
        else:
            tss = "X:" + repr(ts)[:40].replace(" ", "")      # neither a label nor an index: whatever it is, the model will not agree
        z0 = sh(s["z0"]) if "z0" in s else "N"
        out += " | %s %s %s %s %s %s" % (sh(s["ustar"]), sh(s["mol"]), sh(s["wind_speed"]), sh(s["wind_dir"]), z0, tss)
    return out


def op(case, nq):
    return "met %s %s %s %s %s %s %d" % (enc(case["ustar"]), enc(case["mol"]), enc(case["wind_speed"]), enc(case["wind_dir"]),
                                         enc(case["z0"]), "N" if case["ts"] is None else enc(list(case["ts"])), nq)


def enumerate_cases():
    """2^4 list/scalar patterns x lengths 1..4 (+ one mismatched length per list field) x timestamps absent/right/wrong x ustar/z0 presence"""
    cases = []
    vid = itertools.count(10)
    for pattern in itertools.product([False, True], repeat=4):
        for n in (1, 2, 3, 4):
            base_lens = [n if p else None for p in pattern]
            variants = [base_lens]
            for k, p in enumerate(pattern):
                if p and sum(pattern) >= 2:
                    v = list(base_lens)
                    v[k] = n + 1
                    variants.append(v)
            for lens in variants:
                for tsk in ("none", "right", "wrong", "one"):
                    for forcing in ("ustar", "z0", "both", "neither"):
                        c = {}
                        for f, L in zip(FIELDS, lens):
                            c[f] = [next(vid) for _ in range(L)] if L is not None else next(vid)
                        if forcing in ("z0", "neither"):
                            c["ustar"] = None
                        c["z0"] = next(vid) if forcing in ("z0", "both") else None
                        nn = n if any(pattern) else 1
                        c["ts"] = {"none": None, "right": list(range(100, 100 + nn)), "wrong": list(range(100, 100 + nn + 1)),
                                   "one": [100]}[tsk]
                        if len(cases) % 3 == 0:
                            # wind from due north: the value 0 is an ordinary entry / scalar, not a missing one
                            if isinstance(c["wind_dir"], list):
                                c["wind_dir"][len(cases) % len(c["wind_dir"])] = 0
                            else:
                                c["wind_dir"] = 0
                        cases.append(c)
                if not any(pattern):
                    break
            if not any(pattern) and n >= 1:
                pass
    return cases


def spec(case):
    """the property's own statement, written independently of the code"""
    lens = [len(case[f]) for f in FIELDS if isinstance(case[f], list)]
    has_forcing = case["ustar"] is not None or case["z0"] is not None
    common = len(set(lens)) <= 1
    n = lens[0] if lens else 1
    ts_ok = case["ts"] is None or len(case["ts"]) == n
    return (has_forcing and common and ts_ok), n


@oracle
def o_met(case):
    from bldfm.config_parser import parse_config_dict
    accept, n = spec(case)
    m = mk_cfg(case)
    try:
        m.validate()
        got = True
    except ValueError:
        got = False
    if got != accept:
        return fail("C16/validate", "forcing %s but should be %s" % ("accepted" if got else "rejected", "accepted" if accept else "rejected"),
                    None, accept, got, 0)
    # the same through the dictionary parser
    raw = dict(domain=dict(nx=4, ny=4, xmax=10.0, ymax=10.0, nz=4), towers=[dict(name="T", lat=0.0, lon=0.0, z_m=2.0)],
               met={k: ([float(x) for x in case[k]] if isinstance(case[k], list) else (None if case[k] is None else float(case[k])))
                    for k in FIELDS})
    raw["met"] = {k: v for k, v in raw["met"].items() if v is not None or k == "ustar"}
    if case["z0"] is not None:
        raw["met"]["z0"] = float(case["z0"])
    if case["ts"] is not None:
        raw["met"]["timestamps"] = ts_container(["t%d" % t for t in case["ts"]], case.get("ts_kind"))
    try:
        cfg = parse_config_dict(raw)
        got2 = True
    except ValueError:
        got2 = False
    if got2 != accept:
        return fail("C16/validate-dict", "parse_config_dict %s a forcing that should be %s" % ("accepted" if got2 else "rejected", "accepted" if accept else "rejected"),
                    None, accept, got2, 0)
    if not accept:
        return None
    if m.n_timesteps != n:
        return fail("C16/n_timesteps", "number of time steps is not the common length of the list-valued fields", None, n, m.n_timesteps, 0)
    for i in range(n):
        s = m.get_step(i)
        for f in FIELDS:
            exp = case[f][i] if isinstance(case[f], list) else case[f]
            if (s[f] is None) != (exp is None) or (exp is not None and s[f] != float(exp)):
                return fail("C16/get_step", "step %d does not take entry %d of %s" % (i, i, f), None, exp, s[f], 0)
        exp_ts = ("t%d" % case["ts"][i]) if case["ts"] is not None else i
        if s["timestamp"] != exp_ts:
            return fail("C16/timestamp", "step %d does not carry its timestamp / index" % i, None, exp_ts, s["timestamp"], 0)
        if ("z0" in s) != (case["z0"] is not None):
            return fail("C16/z0", "roughness length presence wrong in step", None, case["z0"] is not None, "z0" in s, 0)
    # the drivers loop exactly n times
    if case.get("driver"):
        from bldfm import interface
        calls = []
        orig = interface.run_bldfm_single
        interface.run_bldfm_single = lambda config, tower, met_index=0, surface_flux=None, cache=None: calls.append(met_index) or {"i": met_index}
        try:
            res = interface.run_bldfm_timeseries(cfg, cfg.towers[0])
        finally:
            interface.run_bldfm_single = orig
        if calls != list(range(n)) or len(res) != n:
            return fail("C16/driver-loop", "run_bldfm_timeseries does not run one single-run per step, in order", None, list(range(n)), calls, 0)
    return None


@oracle
def o_numeric_labels(case):
    """time axes labelled with NUMBERS (1-based record numbers, hour of day across midnight, decimal hours, a countdown, epoch
    seconds): step i takes the i-th list entries and the i-th label, through MetConfig and through a parsed configuration"""
    from bldfm.config_parser import MetConfig, parse_config_dict
    n = case["n"]
    labels = {"one-based": list(range(1, n + 1)), "midnight": [(23 + k) % 24 for k in range(n)], "decimal": [0.5 * k for k in range(n)],
              "countdown": list(range(n - 1, -1, -1)), "epoch": [1700000000 + 1800 * k for k in range(n)],
              "float-index": [float((k + 1) % n) for k in range(n)], "neg": [k - 2 for k in range(n)]}[case["kind"]]
    lists = case["lists"]
    vals = dict(ustar=[0.2 + 0.01 * k for k in range(n)], mol=[-100.0 - k for k in range(n)], wind_speed=[3.0 + k for k in range(n)],
                wind_dir=[10.0 * (k + 1) for k in range(n)])
    kw = {f: (vals[f] if f in lists else vals[f][0]) for f in FIELDS}
    if case.get("z0_only"):
        kw["ustar"] = None
    for build in ("dataclass", "dict"):
        if build == "dataclass":
            m = MetConfig(z0=0.05 if case.get("z0_only") else None, timestamps=list(labels), **kw)
        else:
            met = dict(kw, timestamps=list(labels))
            if case.get("z0_only"):
                met.pop("ustar")
                met["z0"] = 0.05
            m = parse_config_dict(dict(domain=dict(nx=4, ny=4, xmax=10.0, ymax=10.0, nz=3), towers=[dict(name="t", lat=0.0, lon=0.0, z_m=2.0)], met=met)).met
        m.validate()
        if m.n_timesteps != (n if lists else 1):
            return fail("C16/numeric-labels/count", "n_timesteps of a forcing with %s labels" % case["kind"], None, n if lists else 1, m.n_timesteps, 0)
        for i in range(n if lists else 1):
            s_ = m.get_step(i)
            exp = {f: (vals[f][i] if f in lists else vals[f][0]) for f in FIELDS}
            if case.get("z0_only"):
                exp["ustar"] = None
            got = {f: s_[f] for f in FIELDS}
            if got != exp or s_["timestamp"] != labels[i] or type(s_["timestamp"]) is not type(labels[i]):
                return fail("C16/numeric-labels/step", "step %d of a forcing whose time axis is labelled %s (%s labels, built as %s) is not the %d-th entries with the %d-th label"
                            % (i, labels, case["kind"], build, i, i), None, [exp, labels[i]], [got, s_["timestamp"]], 0)
    return None


def run(rng, tier, deep):
    st = new_stats()
    for kind in ("one-based", "midnight", "decimal", "countdown", "epoch", "float-index", "neg"):
        for n in (2, 3, 4):
            for lists in (("wind_dir",), FIELDS, ("ustar", "mol")):
                run_oracle(st, o_numeric_labels, dict(kind=kind, n=n, lists=list(lists), z0_only=bool((n + len(lists)) % 2) and "ustar" not in lists))
    cases = enumerate_cases()
    nq = 6
    lines = [op(c, nq) for c in cases]
    outs = run_driver(lines)
    for c, l, o in zip(cases, lines, outs):
        st["corr_cases"] += 1
        imp = impl_line(c, nq)
        pat = "".join("L" if isinstance(c[f], list) else ("N" if c[f] is None else "S") for f in FIELDS)
        st["branches"]["pattern=" + pat] = st["branches"].get("pattern=" + pat, 0) + 1
        if imp != o.strip():
            st["disagreements"].append(dict(what="met: impl `%s` vs model `%s`" % (imp[:120], o[:120]), op=l))
    for k, c in enumerate(cases):
        cc = dict(c, driver=(k % 7 == 0))
        run_oracle(st, o_met, cc)
    # timestamps held in a tuple / a numpy array instead of a list: every case that has timestamps once more (alternating kinds)
    withts = [c for c in cases if c["ts"] is not None]
    for k, c in enumerate(withts):
        cc = dict(c, ts_kind=("tuple", "ndarray")[k % 2])
        imp = impl_line(cc, nq)
        o = outs[cases.index(c)] if k % 5 == 0 else None
        if o is not None:
            st["corr_cases"] += 1
            if imp != o.strip():
                st["disagreements"].append(dict(what="met (%s timestamps): impl `%s` vs model `%s`" % (cc["ts_kind"], imp[:120], o[:120]), op=op(c, nq)))
        run_oracle(st, o_met, cc)
    # object re-use: every 3rd case once more, on a MetConfig object that held another forcing before
    for k in range(0, len(cases), 3):
        prev = cases[int(rng.integers(len(cases)))]
        cc = dict(cases[k], prev={kk: vv for kk, vv in prev.items() if kk != "prev"})
        run_oracle(st, o_met, cc)
    res = finish(st, "time axes labelled with numbers (1-based, across midnight, decimal hours, countdown, epoch seconds) x lengths 2..4; EXHAUSTIVE on the stated space: 2^4 list/scalar patterns x lengths 1..4 (+ one mismatched length per list field) x timestamps "
                 "absent/right/wrong/length-1 (as a list, and again as a tuple / numpy array) x ustar/z0/both/neither; correspondence of validate, n_timesteps and get_step(0..5) incl. IndexError; "
                 "oracle: independent statement of the property through MetConfig and parse_config_dict, the timeseries driver's loop count, and MetConfig objects re-used for a second forcing", deep, 0)
    res["exhaustive"] = True
    return res
