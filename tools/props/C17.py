"""C17 — tower geolocation."""
import numpy as np

from props.scalarfam import (op_line, correspond_scalar, new_stats, finish, budget, run_oracle, oracle, fail, replay)  # noqa: F401


def haversine(lat1, lon1, lat2, lon2, R=6371000.0):
    p1, p2 = np.radians(lat1), np.radians(lat2)
    dphi, dl = p2 - p1, np.radians(lon2 - lon1)
    a = np.sin(dphi / 2) ** 2 + np.cos(p1) * np.cos(p2) * np.sin(dl / 2) ** 2
    d = 2 * R * np.arcsin(np.sqrt(a))
    brg = np.degrees(np.arctan2(np.sin(dl) * np.cos(p2), np.cos(p1) * np.sin(p2) - np.sin(p1) * np.cos(p2) * np.cos(dl)))
    return d, brg % 360.0


@oracle
def o_geo(case):
    from bldfm.config_parser import latlon_to_xy, TowerConfig
    from bldfm.plotting._geo import xy_to_latlon
    rlat, rlon, d, brg = case["ref_lat"], case["ref_lon"], case["dist"], case["bearing"]
    # target point by local offset
    x0, y0 = d * np.sin(np.radians(brg)), d * np.cos(np.radians(brg))
    lat, lon = xy_to_latlon(x0, y0, rlat, rlon)
    x, y = latlon_to_xy(float(lat), float(lon), rlat, rlon)
    if not (abs(x - x0) <= 1e-6 and abs(y - y0) <= 1e-6):
        return fail("C17/roundtrip-xy", "local metres -> lat/lon -> local metres does not return the original position", None, [x0, y0], [x, y], 1e-6)
    lat2, lon2 = xy_to_latlon(x, y, rlat, rlon)
    if not (abs(lat2 - lat) <= 1e-11 and abs(lon2 - lon) <= 1e-11):
        return fail("C17/roundtrip-ll", "lat/lon -> local metres -> lat/lon does not return the original position", None, [float(lat), float(lon)], [float(lat2), float(lon2)], 1e-11)
    ox, oy = latlon_to_xy(rlat, rlon, rlat, rlon)
    if ox != 0.0 or oy != 0.0:
        return fail("C17/origin", "the reference origin does not map to (0, 0)", None, [0, 0], [ox, oy], 0)
    # orientation
    xe, _ = latlon_to_xy(rlat, rlon + 1e-3, rlat, rlon)
    _, yn = latlon_to_xy(rlat + 1e-3, rlon, rlat, rlon)
    if not (xe > 0 and yn > 0):
        return fail("C17/orientation", "x does not grow eastward / y northward", None, "x(east)>0, y(north)>0", [xe, yn], 0)
    # great circle
    dgc, bgc = haversine(rlat, rlon, float(lat), float(lon))
    dloc = float(np.hypot(x, y))
    bloc = float(np.degrees(np.arctan2(x, y)) % 360.0)
    if d >= 1.0:
        if not abs(dloc / dgc - 1.0) <= 1e-3:
            return fail("C17/distance", "local distance differs from the great-circle distance by more than 0.1 %", None, float(dgc), dloc, 1e-3)
        db = abs((bloc - bgc + 180.0) % 360.0 - 180.0)
        if not db <= 0.1:
            return fail("C17/bearing", "local bearing differs from the initial great-circle bearing by more than 0.1 degree", None, float(bgc), bloc, 0.1)
    # arrays
    xs = np.array([x0, -x0, 0.5 * x0])
    ys = np.array([y0, 0.3 * y0, -y0])
    la, lo = xy_to_latlon(xs, ys, rlat, rlon)
    for k in range(3):
        l1, l2 = xy_to_latlon(float(xs[k]), float(ys[k]), rlat, rlon)
        if not (l1 == la[k] and l2 == lo[k]):
            return fail("C17/array", "array-valued conversion differs from the scalar one", None, [float(l1), float(l2)], [float(la[k]), float(lo[k])], 0)
    # array layouts: the inverse transform is element-wise for ANY pair of equally shaped (or broadcastable) arrays - scattered
    # offsets, 'ij' and 'xy' meshgrids, rotated grids, 3-D stacks, a scalar against an array
    ax = np.array([x0, -0.7 * x0, 0.2 * x0 + 11.0, 3.0])
    ay = np.array([y0, 0.4 * y0 - 7.0, -y0])
    c, s_ = np.cos(0.5), np.sin(0.5)
    Gx, Gy = np.meshgrid(ax, ay)
    layouts = [("scattered 2-D", np.array([[x0, -x0, 5.0], [0.1 * x0, 2.0, -0.3 * x0]]), np.array([[y0, 0.3 * y0, -y0], [1.0, -0.6 * y0, 0.2 * y0]])),
               ("ij meshgrid",) + tuple(np.meshgrid(ax, ay, indexing="ij")),
               ("xy meshgrid", Gx, Gy),
               ("rotated grid", c * Gx - s_ * Gy, s_ * Gx + c * Gy),
               ("3-D stack", np.stack([Gx, -Gx]), np.stack([Gy, 0.5 * Gy])),
               ("scalar x, array y", float(x0), ay), ("array x, scalar y", ax, float(y0)),
               ("column against row", ax[:, None], ay[None, :])]
    for (nm, XX, YY) in layouts:
        la, lo = xy_to_latlon(XX, YY, rlat, rlon)
        XB, YB = np.broadcast_arrays(np.asarray(XX, dtype=float), np.asarray(YY, dtype=float))
        la, lo = np.asarray(la, dtype=float), np.asarray(lo, dtype=float)
        try:
            # latitude depends on y only and longitude on x only: each may come back in the shape of its own argument
            la, lo = np.broadcast_to(la, XB.shape), np.broadcast_to(lo, XB.shape)
        except ValueError:
            pass
        if la.shape != XB.shape or lo.shape != XB.shape:
            return fail("C17/array", "array-valued conversion (%s) returns shapes %s / %s for inputs broadcast to %s" % (nm, la.shape, lo.shape, XB.shape),
                        None, list(XB.shape), [list(la.shape), list(lo.shape)], 0)
        for idx in np.ndindex(XB.shape):
            l1, l2 = xy_to_latlon(float(XB[idx]), float(YB[idx]), rlat, rlon)
            if not (l1 == la[idx] and l2 == lo[idx]):
                return fail("C17/array", "array-valued conversion (%s) differs from the scalar one at %s" % (nm, (idx,)), None,
                            [float(l1), float(l2)], [float(la[idx]), float(lo[idx])], 0)
    # the same coordinate arrays refilled in place between calls (a loop over scenes that keeps its buffers); arguments left untouched
    bx, by = Gx.copy(), Gy.copy()
    xy_to_latlon(bx, by, rlat, rlon)
    bx *= -0.75
    by[...] = by[::-1, :] + 3.0
    kx, ky = bx.copy(), by.copy()
    r1 = xy_to_latlon(bx, by, rlat, rlon)
    r2 = xy_to_latlon(bx.copy(), by.copy(), rlat, rlon)
    if not (np.array_equal(bx, kx) and np.array_equal(by, ky)):
        return fail("C17/mutates-input", "xy_to_latlon modifies its argument arrays", None, "unchanged", "changed", 0)
    if not all(np.array_equal(np.asarray(a_), np.asarray(b_)) for a_, b_ in zip(r1, r2)):
        return fail("C17/inplace", "the conversion of arrays refilled in place is not the conversion of their current values", None, "equal", "differs", 0)
    # TowerConfig.compute_local_xy = forward transform with the domain's reference
    t = TowerConfig(name="t", lat=float(lat), lon=float(lon), z_m=2.0)
    t.compute_local_xy(rlat, rlon)
    if (t.x, t.y) != (x, y):
        return fail("C17/tower-local-xy", "TowerConfig.compute_local_xy is not latlon_to_xy with the reference origin", None, [x, y], [t.x, t.y], 0)
    # ... and a configuration built from a dictionary places its towers the same way, whatever the origin
    from bldfm.config_parser import parse_config_dict
    cfg = parse_config_dict(dict(domain=dict(nx=4, ny=4, xmax=10.0, ymax=10.0, nz=3, ref_lat=rlat, ref_lon=rlon),
                                 towers=[dict(name="t", lat=float(lat), lon=float(lon), z_m=2.0)], met=dict(ustar=0.3)))
    if (cfg.towers[0].x, cfg.towers[0].y) != (x, y):
        return fail("C17/config-tower-xy", "a configuration does not convert its tower's lat/lon to local coordinates with the domain's reference origin",
                    None, [x, y], [cfg.towers[0].x, cfg.towers[0].y], 0)
    # the SAME tower objects under another reference origin (a configuration re-centred on another tower with dataclasses.replace,
    # towers handed to a second configuration, compute_local_xy called again): local coordinates follow the origin they are asked for
    import dataclasses
    lat_b, lon_b = xy_to_latlon(-0.6 * x0 + 40.0, 0.8 * y0 - 25.0, rlat, rlon)
    cfg2 = parse_config_dict(dict(domain=dict(nx=4, ny=4, xmax=10.0, ymax=10.0, nz=3, ref_lat=rlat, ref_lon=rlon),
                                  towers=[dict(name="a", lat=float(lat), lon=float(lon), z_m=2.0), dict(name="b", lat=float(lat_b), lon=float(lon_b), z_m=3.0)],
                                  met=dict(ustar=0.3)))
    new_ref = (float(lat_b), float(lon_b))
    cfg3 = dataclasses.replace(cfg2, domain=dataclasses.replace(cfg2.domain, ref_lat=new_ref[0], ref_lon=new_ref[1]))
    for tw in cfg3.towers:
        ex, ey = latlon_to_xy(tw.lat, tw.lon, new_ref[0], new_ref[1])
        if (tw.x, tw.y) != (ex, ey):
            return fail("C17/tower-rewired", "tower %s of a configuration re-centred on another origin keeps local coordinates of the old origin" % tw.name,
                        None, [ex, ey], [tw.x, tw.y], 0)
    # several towers, the FIRST exactly at the reference origin (the flux tower the domain is centred on), then the others
    cfg4 = parse_config_dict(dict(domain=dict(nx=4, ny=4, xmax=10.0, ymax=10.0, nz=3, ref_lat=rlat, ref_lon=rlon),
                                  towers=[dict(name="o", lat=rlat, lon=rlon, z_m=2.0), dict(name="a", lat=float(lat), lon=float(lon), z_m=2.0),
                                          dict(name="b", lat=float(lat_b), lon=float(lon_b), z_m=3.0)], met=dict(ustar=0.3)))
    for tw in cfg4.towers:
        ex, ey = latlon_to_xy(tw.lat, tw.lon, rlat, rlon)
        if (tw.x, tw.y) != (ex, ey) or not isinstance(tw.x, float) or not isinstance(tw.y, float):
            return fail("C17/tower-after-origin", "tower %s of a configuration whose first tower sits on the reference origin is not at latlon_to_xy of its position" % tw.name,
                        None, [float(ex), float(ey)], [tw.x, tw.y], 0)
    # a CLUSTER of masts a few metres apart (a profile mast next to the flux tower, two instruments whose positions differ in the fifth
    # decimal, the same position listed twice under two names): every tower is at the transform of ITS OWN latitude / longitude
    rr = np.random.default_rng(int(abs(lat * 1e6 + lon * 1e3)) % (1 << 31))
    cl = [dict(name="a", lat=float(lat), lon=float(lon), z_m=2.0)]
    for nm in "bcde":
        mag = float(10.0 ** rr.uniform(-7, -4.05))
        cl.append(dict(name=nm, lat=float(lat + mag * rr.uniform(-1, 1)), lon=float(lon + mag * rr.uniform(-1, 1)), z_m=3.0))
    cl.append(dict(name="twin", lat=float(lat), lon=float(lon), z_m=9.0))
    cfg5 = parse_config_dict(dict(domain=dict(nx=4, ny=4, xmax=10.0, ymax=10.0, nz=3, ref_lat=rlat, ref_lon=rlon), towers=cl, met=dict(ustar=0.3)))
    for tw, dd in zip(cfg5.towers, cl):
        ex, ey = latlon_to_xy(dd["lat"], dd["lon"], rlat, rlon)
        if (tw.x, tw.y) != (ex, ey) or (tw.lat, tw.lon) != (dd["lat"], dd["lon"]):
            return fail("C17/tower-cluster", "tower %s of a cluster of masts a few metres apart (%.7f, %.7f) is not at the transform of its own position" % (tw.name, dd["lat"], dd["lon"]),
                        None, [float(ex), float(ey)], [tw.x, tw.y], 0)
    t.compute_local_xy(new_ref[0], new_ref[1])
    if (t.x, t.y) != tuple(latlon_to_xy(t.lat, t.lon, new_ref[0], new_ref[1])):
        return fail("C17/tower-rewired", "compute_local_xy called for a second origin does not give the coordinates relative to that origin", None,
                    list(latlon_to_xy(t.lat, t.lon, new_ref[0], new_ref[1])), [t.x, t.y], 0)
    return None


def run(rng, tier, deep):
    from bldfm.config_parser import latlon_to_xy
    from bldfm.plotting._geo import xy_to_latlon
    st = new_stats()
    items = []
    for _ in range(budget(tier, deep, 150, 2000)):
        rlat = float(rng.choice([rng.uniform(-60, 60), 0.0, rng.uniform(-0.02, 0.02)], p=[0.7, 0.1, 0.2]))
        rlon = float(rng.choice([rng.uniform(-180, 180), 0.0, rng.uniform(-0.03, 0.03)], p=[0.7, 0.1, 0.2]))
        lat, lon = rlat + float(rng.normal() * 0.03), rlon + float(rng.normal() * 0.05)
        items.append((op_line("ll2xy", lat, lon, rlat, rlon), ("ok", np.array(latlon_to_xy(lat, lon, rlat, rlon)))))
        x, y = float(rng.normal() * 3000), float(rng.normal() * 3000)
        items.append((op_line("xy2ll", x, y, rlat, rlon), ("ok", np.array(xy_to_latlon(x, y, rlat, rlon), dtype=float))))
    correspond_scalar(items, st, tol=1e-13)
    for _ in range(budget(tier, deep, 300, 5000)):
        case = dict(ref_lat=float(rng.choice([rng.uniform(-60, 60), 0.0, rng.uniform(-0.02, 0.02)], p=[0.7, 0.1, 0.2])),
                    ref_lon=float(rng.choice([rng.uniform(-180, 180), 0.0, rng.uniform(-0.03, 0.03), 179.99, -179.99], p=[0.6, 0.1, 0.2, 0.05, 0.05])),
                    dist=float(rng.choice([rng.uniform(1, 5000), rng.uniform(4000, 5000), 5000.0])), bearing=float(rng.uniform(0, 360)))
        run_oracle(st, o_geo, case)
    return finish(st, "reference points |lat| <= 60, any lon, offsets up to 5 km in any direction; correspondence of both transforms "
                  "(1e-13 relative); oracle: round trips, origin, orientation, haversine distance (0.1 %) and initial bearing (0.1 deg), "
                  "array == scalar, TowerConfig.compute_local_xy", deep, 1e-13)
