"""Correspondence + property oracles for the solver family (C01-C07, C10, C11).

Every oracle is a function  case(dict, JSON-able) -> None | failure dict  that
runs ONLY the real code; `replay` re-runs it on a stored case.
"""
import hashlib
import json
import time

import numpy as np

from common import (real_solve, real_solve_canon, solve_op, run_driver, parse_solve_answer, compare_solve,
                    random_case, case_to_json, case_from_json, power_profiles, uniform_profiles, zgrid,
                    random_source)

TOL = {"double": 1e-9, "single": 2e-5}


def digest(obj):
    return hashlib.sha256(json.dumps(obj, sort_keys=True, default=str).encode()).hexdigest()[:16]


def fail(key, what, case, expected, observed, tol):
    return dict(key=key, what=what, input=case, expected=expected, observed=observed, tolerance=tol)


def solve3(case):
    """real solver -> (conc, flx) as (nlv, ny, nx) float64 arrays + Z"""
    grid, conc, flx = real_solve(case)
    q = np.asarray(case["q"])
    ny, nx = q.shape
    lv = case["levels"]
    nlv = 1 if np.ndim(lv) == 0 else len(lv)
    conc = np.asarray(conc, dtype=float).reshape(nlv, ny, nx)
    flx = np.asarray(flx, dtype=float).reshape(nlv, ny, nx)
    Z = np.asarray(grid[2], dtype=float).reshape(nlv, ny, nx)[:, 0, 0]
    return conc, flx, Z


def relerr(a, b):
    a = np.asarray(a, dtype=float)
    b = np.asarray(b, dtype=float)
    if a.shape != b.shape:
        return float("inf")
    if not (np.all(np.isfinite(a)) and np.all(np.isfinite(b))):
        return float("inf")
    sc = max(float(np.max(np.abs(a))), float(np.max(np.abs(b))), 1e-300)
    return float(np.max(np.abs(a - b))) / sc


# ------------------------------------------------------------ correspondence

def correspond(cases, stats):
    """run the real solver and the Lean Float model on the same requests"""
    if not cases:
        return
    t = time.time()
    impl = [real_solve_canon(c) for c in cases]
    model = [parse_solve_answer(l) for l in run_driver([solve_op(c) for c in cases])]
    for c, i, m in zip(cases, impl, model):
        tol = TOL.get(c["precision"], 1e-9)
        ok, gap, what = compare_solve(i, m, tol)
        stats["corr_cases"] += 1
        if np.isfinite(gap):
            stats["worst_gap"] = max(stats["worst_gap"], gap)
        for k, v in c.get("_kinds", {}).items():
            stats["branches"]["%s=%s" % (k, v)] = stats["branches"].get("%s=%s" % (k, v), 0) + 1
        for k in ("footprint", "analytic", "precision"):
            key = "%s=%s" % (k, c[k])
            stats["branches"][key] = stats["branches"].get(key, 0) + 1
        if i[0] == "err":
            key = "err=%s" % i[1]
            stats["branches"][key] = stats["branches"].get(key, 0) + 1
        if not ok:
            stats["disagreements"].append(dict(what="solve: " + what, gap=gap, input=case_to_json(strip(c))))
    stats["corr_wall"] = stats.get("corr_wall", 0) + time.time() - t


def strip(c):
    return {k: v for k, v in c.items() if not k.startswith("_") and k != "par"}


def new_stats():
    return dict(corr_cases=0, worst_gap=0.0, disagreements=[], branches={}, oracle_evaluations=0,
                oracle_failures=[], samples=[], seen=set())


def jsonable(o):
    if isinstance(o, dict):
        return {k: jsonable(v) for k, v in o.items()}
    if isinstance(o, (list, tuple)):
        return [jsonable(v) for v in o]
    if isinstance(o, np.ndarray):
        return o.tolist()
    if isinstance(o, (np.floating, np.integer, np.bool_)):
        return o.item()
    return o


def run_oracle(stats, fn, case, nontrivial=True):
    if "q" in case:
        cj = case_to_json(strip(case))
        cj["par"] = jsonable(case.get("par", {}))
    else:
        cj = jsonable(case)
    stats["oracle_evaluations"] += 1
    d = digest(cj)
    if nontrivial:
        stats["seen"].add(d)
    if len(stats["samples"]) < 4:
        stats["samples"].append(dict(oracle=fn.__name__, input=summ(cj)))
    try:
        f = fn(case_from_json(cj) if "q" in cj else cj)
    except Exception as e:  # noqa: BLE001
        f = fail("%s/exception" % fn.__name__, "oracle %s raised %r" % (fn.__name__, e), cj, "no exception", repr(e)[:300], None)
    if f:
        f["input"] = dict(oracle=fn.__name__, case=cj)
        stats["oracle_failures"].append(f)
    return f


def summ(cj):
    if "q" not in cj:
        return cj
    s = {k: v for k, v in cj.items() if k not in ("q", "z", "profiles")}
    s["q_shape"] = [len(cj["q"]), len(cj["q"][0])]
    s["nz"] = len(cj["z"])
    return s


def finish(stats, rule, deep, tol):
    return dict(evaluations=stats["corr_cases"] + stats["oracle_evaluations"],
                distinct_nontrivial=len(stats["seen"]), rule=rule, samples=stats["samples"],
                corr_cases=stats["corr_cases"], disagreements=stats["disagreements"][:5],
                worst_gap=stats["worst_gap"], tolerance=tol,
                oracle_evaluations=stats["oracle_evaluations"], oracle_failures=stats["oracle_failures"][:5],
                branches=stats["branches"], deep=deep)


def budget(tier, deep, quick, thorough):
    n = quick if tier == "quick" else thorough
    return n * 4 if deep else n


ORACLES = {}


def oracle(fn):
    ORACLES[fn.__name__] = fn
    return fn


def replay(rep):
    inp = rep["input"]
    fn = ORACLES[inp["oracle"]]
    cj = inp["case"]
    return fn(case_from_json(cj) if "q" in cj else cj)


# ------------------------------------------------------------ C04 linearity

@oracle
def o_linearity(case):
    """solver(a q1 + b q2, a c1 + b c2) = a solver(q1,c1) + b solver(q2,c2)"""
    par = case["par"]
    a, b = par["a"], par["b"]
    q1, q2 = np.array(case["q"]), np.array(par["q2"])
    c1, c2 = case["bg"], par["bg2"]
    base = {k: v for k, v in case.items() if k != "par"}
    base["footprint"] = False   # in footprint mode the source is the unit impulse by construction
    r1 = solve3(dict(base, q=q1, bg=c1))
    r2 = solve3(dict(base, q=q2, bg=c2))
    r3 = solve3(dict(base, q=a * q1 + b * q2, bg=a * c1 + b * c2))
    tol = 1e-10 if case["precision"] == "double" else 3e-5
    for name, k in (("conc", 0), ("flx", 1)):
        exp = a * r1[k] + b * r2[k]
        sc = max(np.max(np.abs(a * r1[k])), np.max(np.abs(b * r2[k])), 1e-300)
        err = float(np.max(np.abs(r3[k] - exp)) / sc)
        if not err <= tol:
            return fail("C04/linearity/%s" % name, "%s of a linear combination of inputs is not the combination of outputs" % name,
                        None, "relative error <= %g" % tol, err, tol)
    return None


@oracle
def o_bg_offset(case):
    """background adds a uniform offset to conc and never changes flx"""
    base = {k: v for k, v in case.items() if k != "par"}
    c2 = case["par"]["bg2"]
    r1 = solve3(base)
    r2 = solve3(dict(base, bg=c2))
    tol = 1e-11 if case["precision"] == "double" else 3e-5
    if case["precision"] == "double" and not np.array_equal(r1[1], r2[1]):
        e = relerr(r1[1], r2[1])
        if e > 1e-13:
            return fail("C04/bg-changes-flux", "flux changes with the background concentration", None, "identical flux", e, 1e-13)
    off = r2[0] - r1[0]
    sc = max(abs(c2 - case["bg"]), 1e-300)
    err = float(np.max(np.abs(off - (c2 - case["bg"]))) / max(sc, np.max(np.abs(r1[0])) * 1e-3 + 1e-300))
    if not err <= max(tol, 1e-9):
        return fail("C04/bg-offset", "background is not a uniform offset of the concentration", None,
                    "conc shifts by exactly the background difference", err, tol)
    return None


@oracle
def o_fp_indep_q(case):
    """footprint mode ignores the values of the source array"""
    base = {k: v for k, v in case.items() if k != "par"}
    base["footprint"] = True
    r1 = solve3(base)
    r2 = solve3(dict(base, q=np.array(case["par"]["q2"])))
    if not (np.array_equal(r1[0], r2[0]) and np.array_equal(r1[1], r2[1])):
        return fail("C04/footprint-depends-on-source", "footprint-mode result depends on the values of the surface-flux array",
                    None, "bit-identical", relerr(r1[1], r2[1]), 0)
    return None


def run_C04(rng, tier, deep):
    st = new_stats()
    n = budget(tier, deep, 24, 240)
    cases = [random_case(rng) for _ in range(n)]
    correspond(cases, st)
    for _ in range(budget(tier, deep, 30, 300)):
        c = random_case(rng, precision=str(rng.choice(["double", "double", "double", "single"])))
        ny, nx = c["q"].shape
        c["q"] = random_source(rng, ny, nx, "signed")
        c["bg"] = float(rng.normal())
        c["par"] = dict(q2=random_source(rng, ny, nx, rng.choice(["signed", "sparse", "random"])),
                        a=float(rng.normal() * 3), b=float(rng.normal() * 3), bg2=float(rng.normal() * 5))
        run_oracle(st, o_linearity, c)
        if rng.random() < 0.5:
            run_oracle(st, o_bg_offset, c)
        if rng.random() < 0.5:
            run_oracle(st, o_fp_indep_q, c)
    return finish(st, "random structured solver requests (sizes 2..8, halo none/zero/commensurate/incommensurate, levels scalar/asc/shuffled/repeated/top, "
                  "uniform/varying profiles, both precisions, both modes, analytic/numeric); distinct = distinct canonical request; "
                  "oracle: three real solves per linearity case with sign-changing sources", deep, TOL)
