"""Correspondence + property oracles for the solver family (C01-C07, C10, C11).

Every oracle is a function  case(dict, JSON-able) -> None | failure dict  that
runs ONLY the real code; `replay` re-runs it on a stored case.
"""
import hashlib
import json
import time

import os

import numpy as np

from common import (real_solve, real_solve_canon, solve_op, run_driver, parse_solve_answer, compare_solve,
                    random_case, case_to_json, case_from_json, power_profiles, uniform_profiles, zgrid,
                    random_source, limit_growth, field_floor, big_cases)

TOL = {"double": 1e-9, "single": 2e-5}


def digest(obj):
    return hashlib.sha256(json.dumps(obj, sort_keys=True, default=str).encode()).hexdigest()[:16]


def fail(key, what, case, expected, observed, tol):
    return dict(key=key, what=what, input=case, expected=expected, observed=observed, tolerance=tol)


def solve3(case, cache=None):
    """real solver -> (conc, flx) as (nlv, ny, nx) float64 arrays + Z"""
    grid, conc, flx = real_solve(case, cache=cache)
    q = np.asarray(case["q"])
    ny, nx = q.shape
    lv = case["levels"]
    nlv = 1 if np.ndim(lv) == 0 else len(lv)
    conc = np.asarray(conc, dtype=float).reshape(nlv, ny, nx)
    flx = np.asarray(flx, dtype=float).reshape(nlv, ny, nx)
    Z = np.asarray(grid[2], dtype=float).reshape(nlv, ny, nx)[:, 0, 0]
    return conc, flx, Z


def relerr(a, b, scale=None):
    a = np.asarray(a, dtype=float)
    b = np.asarray(b, dtype=float)
    if a.shape != b.shape:
        return float("inf")
    if not (np.all(np.isfinite(a)) and np.all(np.isfinite(b))):
        return float("inf")
    sc = max(float(np.max(np.abs(a))), float(np.max(np.abs(b))), 1e-300)
    if scale is not None:
        sc = max(sc, float(scale))
    return float(np.max(np.abs(a - b))) / sc


# ------------------------------------------------------------ correspondence

def correspond(cases, stats):
    """run the real solver and the Lean Float model on the same requests"""
    if not cases:
        return
    t = time.time()
    impl = [real_solve_canon(c) for c in cases]
    model = [parse_solve_answer(l) for l in run_driver([solve_op(c) for c in cases])]
    for c, i, m in zip(cases, impl, model):
        tol = TOL.get(c["precision"], 1e-9)
        ok, gap, what = compare_solve(i, m, tol, field_floor(c))
        stats["corr_cases"] += 1
        if np.isfinite(gap):
            stats["worst_gap"] = max(stats["worst_gap"], gap)
            kk = "worst_gap_%s" % c["precision"]
            stats["branches"][kk] = max(stats["branches"].get(kk, 0.0), gap)
        for k, v in c.get("_kinds", {}).items():
            stats["branches"]["%s=%s" % (k, v)] = stats["branches"].get("%s=%s" % (k, v), 0) + 1
        for k in ("footprint", "analytic", "precision"):
            key = "%s=%s" % (k, c[k])
            stats["branches"][key] = stats["branches"].get(key, 0) + 1
        if i[0] == "err":
            key = "err=%s" % i[1]
            stats["branches"][key] = stats["branches"].get(key, 0) + 1
        if not ok:
            stats["disagreements"].append(dict(what="solve: " + what, gap=gap, input=case_to_json(strip(c))))
    stats["corr_wall"] = stats.get("corr_wall", 0) + time.time() - t


def strip(c):
    return {k: v for k, v in c.items() if not k.startswith("_") and k != "par"}


def new_stats():
    return dict(corr_cases=0, worst_gap=0.0, disagreements=[], branches={}, oracle_evaluations=0,
                oracle_failures=[], samples=[], seen=set())


def jsonable(o):
    if isinstance(o, dict):
        return {k: jsonable(v) for k, v in o.items()}
    if isinstance(o, (list, tuple)):
        return [jsonable(v) for v in o]
    if isinstance(o, np.ndarray):
        return o.tolist()
    if isinstance(o, (np.floating, np.integer, np.bool_)):
        return o.item()
    return o


def run_oracle(stats, fn, case, nontrivial=True):
    if "q" in case:
        cj = case_to_json(strip(case))
        cj["par"] = jsonable(case.get("par", {}))
    else:
        cj = jsonable(case)
    stats["oracle_evaluations"] += 1
    d = digest(cj)
    if nontrivial:
        stats["seen"].add(d)
    if len(stats["samples"]) < 4:
        stats["samples"].append(dict(oracle=fn.__name__, input=summ(cj)))
    try:
        f = fn(case_from_json(cj) if "q" in cj else cj)
    except Exception as e:  # noqa: BLE001
        f = fail("%s/exception" % fn.__name__, "oracle %s raised %r" % (fn.__name__, e), cj, "no exception", repr(e)[:300], None)
    if f:
        f["input"] = dict(oracle=fn.__name__, case=cj)
        stats["oracle_failures"].append(f)
    return f


def summ(cj):
    if "q" not in cj:
        return cj
    s = {k: v for k, v in cj.items() if k not in ("q", "z", "profiles")}
    s["q_shape"] = [len(cj["q"]), len(cj["q"][0])]
    s["nz"] = len(cj["z"])
    return s


def finish(stats, rule, deep, tol):
    return dict(evaluations=stats["corr_cases"] + stats["oracle_evaluations"],
                distinct_nontrivial=len(stats["seen"]), rule=rule, samples=stats["samples"],
                corr_cases=stats["corr_cases"], disagreements=stats["disagreements"][:5],
                worst_gap=stats["worst_gap"], tolerance=tol,
                oracle_evaluations=stats["oracle_evaluations"], oracle_failures=stats["oracle_failures"][:5],
                branches=stats["branches"], deep=deep)


def budget(tier, deep, quick, thorough):
    n = quick if tier == "quick" else thorough
    return n * 4 if deep else n


ORACLES = {}


def oracle(fn):
    ORACLES[fn.__name__] = fn
    return fn


def replay(rep):
    inp = rep["input"]
    fn = ORACLES[inp["oracle"]]
    cj = inp["case"]
    return fn(case_from_json(cj) if "q" in cj else cj)


# ------------------------------------------------------------ C04 linearity

@oracle
def o_linearity(case):
    """solver(a q1 + b q2, a c1 + b c2) = a solver(q1,c1) + b solver(q2,c2)"""
    par = case["par"]
    a, b = par["a"], par["b"]
    q1, q2 = np.array(case["q"]), np.array(par["q2"])
    c1, c2 = case["bg"], par["bg2"]
    base = {k: v for k, v in case.items() if k != "par"}
    base["footprint"] = False   # in footprint mode the source is the unit impulse by construction
    r1 = solve3(dict(base, q=q1, bg=c1))
    r2 = solve3(dict(base, q=q2, bg=c2))
    r3 = solve3(dict(base, q=a * q1 + b * q2, bg=a * c1 + b * c2))
    tol = 1e-10 if case["precision"] == "double" else 3e-5
    # a window emptied by the re-centring (the sources end up in the halo) holds rounding noise of the natural response
    # scale, not a field: errors are measured against that scale at least
    fl1 = field_floor(dict(base, q=q1, bg=c1))
    fl2 = field_floor(dict(base, q=q2, bg=c2))
    for name, k in (("conc", 0), ("flx", 1)):
        exp = a * r1[k] + b * r2[k]
        sc = max(np.max(np.abs(a * r1[k])), np.max(np.abs(b * r2[k])), abs(a) * fl1[k] + abs(b) * fl2[k], 1e-300)
        err = float(np.max(np.abs(r3[k] - exp)) / sc)
        if not err <= tol:
            return fail("C04/linearity/%s" % name, "%s of a linear combination of inputs is not the combination of outputs" % name,
                        None, "relative error <= %g" % tol, err, tol)
    return None


@oracle
def o_homogeneity(case):
    """solver(s q, s c) = s solver(q, c) for scale factors over eighteen decades: nothing in the response may
    depend on the absolute magnitude of the inputs (absolute thresholds, `isclose`, noise flushing, dtype limits)"""
    s = case["par"]["s"]
    base = {k: v for k, v in case.items() if k != "par"}
    base["footprint"] = False
    base["precision"] = "double"
    r1 = solve3(base)
    r2 = solve3(dict(base, q=s * np.array(base["q"]), bg=s * base["bg"]))
    for name, k in (("conc", 0), ("flx", 1)):
        sc = max(float(np.max(np.abs(r1[k]))), 1e-300)
        err = float(np.max(np.abs(r2[k] / s - r1[k]))) / sc
        if not err <= 1e-10:
            return fail("C04/homogeneity/%s" % name, "%s of inputs scaled by %.3e is not the scaled %s" % (name, s, name),
                        None, "relative error <= 1e-10", err, 1e-10)
    return None


@oracle
def o_bg_offset(case):
    """background adds a uniform offset to conc and never changes flx"""
    base = {k: v for k, v in case.items() if k != "par"}
    c2 = case["par"]["bg2"]
    if case["par"].get("shared_cache") and base["footprint"]:
        # the same two requests through ONE result cache (the documented way to run many towers / steps): the linearity
        # statement is about what the solver returns, with or without a cache attached
        import shutil
        import tempfile
        from bldfm.cache import GreensFunctionCache
        d = tempfile.mkdtemp(prefix="c04cache-", dir=os.getcwd())
        try:
            cache = GreensFunctionCache(d)
            r1 = solve3(base, cache=cache)
            r2 = solve3(dict(base, bg=c2), cache=cache)
            r1b = solve3(base, cache=cache)
        finally:
            shutil.rmtree(d, ignore_errors=True)
        if not (np.array_equal(r1[0], r1b[0]) and np.array_equal(r1[1], r1b[1])):
            return fail("C04/bg-offset/cache-repeat", "repeating a footprint request through a shared cache after a request with another background changes the result",
                        None, "identical", relerr(r1[0], r1b[0]), 0)
    else:
        r1 = solve3(base)
        r2 = solve3(dict(base, bg=c2))
    tol = 1e-11 if case["precision"] == "double" else 3e-5
    if case["precision"] == "double" and not np.array_equal(r1[1], r2[1]):
        e = relerr(r1[1], r2[1])
        if e > 1e-13:
            return fail("C04/bg-changes-flux", "flux changes with the background concentration", None, "identical flux", e, 1e-13)
    off = r2[0] - r1[0]
    sc = max(abs(c2 - case["bg"]), 1e-300)
    if case["precision"] == "single":
        # both fields are stored in float32: the difference carries the storage rounding of the larger of them
        sc = max(sc, float(np.max(np.abs(r1[0]))), float(np.max(np.abs(r2[0]))))
    err = float(np.max(np.abs(off - (c2 - case["bg"]))) / max(sc, np.max(np.abs(r1[0])) * 1e-3 + 1e-300))
    if not err <= max(tol, 1e-9):
        return fail("C04/bg-offset", "background is not a uniform offset of the concentration", None,
                    "conc shifts by exactly the background difference", err, tol)
    return None


@oracle
def o_fp_indep_q(case):
    """footprint mode ignores the values of the source array"""
    base = {k: v for k, v in case.items() if k != "par"}
    base["footprint"] = True
    r1 = solve3(base)
    r2 = solve3(dict(base, q=np.array(case["par"]["q2"])))
    if not (np.array_equal(r1[0], r2[0]) and np.array_equal(r1[1], r2[1])):
        return fail("C04/footprint-depends-on-source", "footprint-mode result depends on the values of the surface-flux array",
                    None, "bit-identical", relerr(r1[1], r2[1]), 0)
    return None


@oracle
def o_input_types(case):
    """the fields are a function of the VALUES of (surface flux, background): the same whole numbers delivered as an integer array, float32,
    a Fortran-ordered / transposed-view / strided / read-only array, and a background given as a Python int, numpy integer, float32 or 0-d
    array give the result of the float64 C-contiguous request"""
    from bldfm.solver import steady_state_transport_solver
    base = base_of(case)
    q = np.asarray(base["q"], dtype=float)
    bg = float(base.get("bg", 0.0))
    ref = solve3(base)
    kw = dict(z=np.asarray(base["z"], dtype=float), profiles=tuple(np.asarray(p_, dtype=float) for p_ in base["profiles"]),
              domain=tuple(base["domain"]), levels=base["levels"], modes=tuple(base["modes"]), meas_pt=tuple(base["meas_pt"]),
              footprint=base["footprint"], analytic=base["analytic"], halo=base.get("halo"), precision=base["precision"])
    big = np.zeros((2 * q.shape[0], 3 * q.shape[1]))
    big[::2, ::3] = q
    ro = q.copy()
    ro.setflags(write=False)
    qs = dict(int64=q.astype(np.int64), int32=q.astype(np.int32), float32=q.astype(np.float32), fortran=np.asfortranarray(q),
              transposed_view=np.ascontiguousarray(q.T).T, strided=big[::2, ::3], readonly=ro)
    bgs = dict(pyint=int(bg), npint64=np.int64(bg), npint32=np.int32(bg), float32=np.float32(bg), zerod=np.array(bg), zerod_int=np.array(int(bg)))
    tol = 1e-11 if base["precision"] == "double" else 3e-5
    fl = field_floor(base)
    variants = [("q:" + k, v, bg) for k, v in qs.items()] + [("bg:" + k, q, v) for k, v in bgs.items()] + [("q:int64+bg:pyint", qs["int64"], int(bg))]
    for nm, qv, bv in variants:
        try:
            grid, conc, flx = steady_state_transport_solver(qv, srf_bg_conc=bv, **kw)
        except Exception:  # noqa: BLE001
            # an input type the code REJECTS is not a wrong result (on the pinned tree a float32 source makes the compiled sweep raise a numba
            # TypingError in numerical dispersion mode: complex64 spectrum against complex128 work arrays - recorded in DESIGN.md as an
            # observation outside the property); the clause is about the results that ARE returned
            continue
        nlv = ref[0].shape[0]
        got = (np.asarray(conc, dtype=float).reshape(ref[0].shape), np.asarray(flx, dtype=float).reshape(ref[1].shape))
        for name, k in (("conc", 0), ("flx", 1)):
            e = relerr(got[k], ref[k], scale=fl[k])
            # a float32 array is transformed in single precision by the FFT layer: rounding at the level of that storage type is not a
            # different function of the values (measured on the pinned tree: 6e-8)
            if not e <= (max(tol, 3e-5) if "float32" in nm else tol):
                return fail("C04/input-type/%s" % name, "the %s of the request with %s differs from that of the same numbers given as float64" % (name, nm),
                            None, "equal", e, tol)
    return None


def run_C04(rng, tier, deep):
    st = new_stats()
    n = budget(tier, deep, 24, 240)
    cases = [random_case(rng) for _ in range(n)]
    correspond(cases + big_cases(rng, tier, deep), st)
    for _ in range(budget(tier, deep, 30, 300)):
        c = random_case(rng, precision=str(rng.choice(["double", "double", "double", "single"])))
        ny, nx = c["q"].shape
        c["q"] = random_source(rng, ny, nx, str(rng.choice(["signed", "signed", "dipole", "zero"])))
        c["bg"] = float(rng.normal())
        c["par"] = dict(q2=random_source(rng, ny, nx, rng.choice(["signed", "sparse", "random", "dipole"])),
                        a=float(rng.normal() * 3), b=float(rng.normal() * 3), bg2=float(rng.normal() * 5))
        if rng.random() < 0.2:
            # an EXACTLY cancelling combination (q2 = -q1 / 2, a = 1, b = 2; exact in binary): the combined source is identically zero
            # while the two solves just before had structured sources - its fields must be the background and nothing else
            c["par"].update(q2=-0.5 * np.asarray(c["q"], dtype=float), a=1.0, b=2.0)
        elif rng.random() < 0.1:
            # ... or cancelling everywhere except the mean (a uniform remainder)
            c["par"].update(q2=-0.5 * np.asarray(c["q"], dtype=float) + 0.25, a=1.0, b=2.0)
        run_oracle(st, o_linearity, c)
        if rng.random() < 0.7:
            if c["footprint"] and rng.random() < 0.5:
                c["par"]["shared_cache"] = True
            run_oracle(st, o_bg_offset, c)
        if rng.random() < 0.5:
            run_oracle(st, o_fp_indep_q, c)
    for _ in range(budget(tier, deep, 16, 160)):
        c = random_case(rng)
        ny, nx = c["q"].shape
        c["q"] = random_source(rng, ny, nx, str(rng.choice(["signed", "random", "sparse", "smooth"])))
        c["bg"] = float(rng.choice([0.0, rng.normal()]))
        c["par"] = dict(s=float(10.0 ** rng.uniform(-12, 6)))
        run_oracle(st, o_homogeneity, c)
    for _ in range(budget(tier, deep, 6, 40)):
        c = random_case(rng)
        ny, nx = c["q"].shape
        c["q"] = rng.integers(-3, 5, size=(ny, nx)).astype(float)        # whole numbers: exactly representable in every dtype tried
        c["bg"] = float(rng.integers(-4, 9))
        if c["analytic"] and rng.random() < 0.5:
            c["analytic"] = False
            c["profiles"] = power_profiles(rng, len(c["z"]), c["z"])
            limit_growth(c)
        run_oracle(st, o_input_types, c)
    return finish(st, "random structured solver requests (sizes 2..8, halo none/zero/commensurate/incommensurate, levels scalar/asc/shuffled/repeated/top, "
                  "uniform/varying profiles, both precisions, both modes, analytic/numeric); distinct = distinct canonical request; "
                  "oracle: three real solves per linearity case with sign-changing sources; background offset also through a shared result cache (footprint mode); whole-number sources / backgrounds delivered in integer / float32 dtypes, Fortran / transposed / strided / read-only layouts, Python and numpy scalars", deep, TOL)


# ------------------------------------------------------------ shared helpers

def base_of(case):
    return {k: v for k, v in case.items() if k != "par"}


def ongrid_point(rng, case):
    ny, nx = case["q"].shape
    dx, dy = case["domain"][0] / nx, case["domain"][1] / ny
    im, jm = int(rng.integers(0, nx)), int(rng.integers(0, ny))
    return im, jm, (float(im * dx), float(jm * dy))


def resist(z, Kz, l):
    z = np.asarray(z, dtype=float)
    Kz = np.asarray(Kz, dtype=float)
    return float(np.sum(np.diff(z)[:l] * (0.5 / Kz[:l] + 0.5 / Kz[1:l + 1])))


def pads_of(case):
    ny, nx = np.asarray(case["q"]).shape
    xmx, ymx = case["domain"]
    dx, dy = xmx / nx, ymx / ny
    halo = case.get("halo")
    if halo is None:
        halo = max(xmx, ymx)
    return int(halo / dx), int(halo / dy), dx, dy


# ------------------------------------------------------------ C02 reciprocity

@oracle
def o_reciprocity(case):
    """sum q*footprint = flux at the tower; sum q*(G - bg) = conc - bg there"""
    par = case["par"]
    im, jm = par["im"], par["jm"]
    base = base_of(case)
    ny, nx = base["q"].shape
    dx, dy = base["domain"][0] / nx, base["domain"][1] / ny
    disp = solve3(dict(base, footprint=False, meas_pt=(0.0, 0.0)))
    fp = solve3(dict(base, footprint=True, meas_pt=(im * dx, jm * dy)))
    q = np.asarray(base["q"], dtype=float)
    tol = 1e-9 if base["precision"] == "double" else 2e-4
    bg = base.get("bg", 0.0)
    for k in range(disp[0].shape[0]):
        f_pt = disp[1][k, jm, im]
        c_pt = disp[0][k, jm, im] - bg
        sf = float(np.sum(q * fp[1][k]))
        sc = float(np.sum(q * (fp[0][k] - bg)))
        if not np.any(q):
            return None   # an identically zero source: both sides vanish
        # the package's own helper for this sum, with the source as its caller may hold it (C order, Fortran order, a transposed view of
        # data stored [x, y], a strided view, integer-typed whole numbers): the sum pairs the cells by INDEX
        from bldfm.utils import point_measurement
        big = np.zeros((2 * ny, 3 * nx))
        big[::2, ::3] = q
        for lay, qv in (("C", q), ("fortran", np.asfortranarray(q)), ("transposed-view", np.ascontiguousarray(q.T).T), ("strided", big[::2, ::3])):
            for nm, fld, ref in (("footprint", np.ascontiguousarray(fp[1][k]), sf), ("concentration", np.ascontiguousarray(fp[0][k] - bg), sc)):
                for order in ((qv, fld), (fld, qv)):
                    pm = float(point_measurement(*order))
                    den = max(float(np.sum(np.abs(q * fld))), 1e-300)
                    if not abs(pm - ref) / den <= 1e-12:
                        return fail("C02/point-measurement", "point_measurement(source [%s layout], %s) is not the cell-by-cell sum" % (lay, nm), None, ref, pm, 1e-12)
        scale_f = max(float(np.max(np.abs(disp[1][k]))), 1e-300)
        scale_c = max(float(np.max(np.abs(disp[0][k] - bg))), abs(bg) * 1e-2, 1e-300)
        ef = abs(sf - f_pt) / scale_f
        ec = abs(sc - c_pt) / scale_c
        if not ef <= tol:
            return fail("C02/reciprocity/flux", "sum(q*footprint) differs from the dispersion-run flux at the tower", None,
                        float(f_pt), sf, tol)
        if not ec <= tol:
            return fail("C02/reciprocity/conc", "sum(q*(G-bg)) differs from the dispersion-run concentration above background at the tower",
                        None, float(c_pt), sc, tol)
    return None


def run_C02(rng, tier, deep):
    st = new_stats()
    correspond([random_case(rng, footprint=bool(i % 2)) for i in range(budget(tier, deep, 24, 200))] + big_cases(rng, tier, deep), st)
    for _ in range(budget(tier, deep, 40, 500)):
        c = random_case(rng)
        im, jm, pt = ongrid_point(rng, c)
        c["par"] = dict(im=im, jm=jm)
        c["meas_pt"] = pt
        run_oracle(st, o_reciprocity, c)
    for k in range(budget(tier, deep, 4, 16)):
        c = random_case(rng)
        c["par"] = dict(variation=["mode", "source", "levels", "precision"][k % 4])
        run_oracle(st, o_result_lifetime, c)
    return finish(st, "result lifetime (earlier results intact after later solves, no shared memory, in-place post-processing does not reach later solves); random requests (all halo kinds incl. incommensurate and default, dx != dy, all source kinds, truncation 2..512 modes, "
                  "uniform/varying profiles, both precisions, 1-3 levels); oracle: one dispersion and one footprint solve per case at a random on-grid tower",
                  deep, TOL)


# ------------------------------------------------------------ C03 conservation / halo = padding

@oracle
def o_conservation(case):
    base = dict(base_of(case), halo=0.0, meas_pt=(0.0, 0.0))
    q = np.asarray(base["q"], dtype=float)
    z, Kz = base["z"], base["profiles"][4]
    lv = [int(base["levels"])] if np.ndim(base["levels"]) == 0 else [int(l) for l in base["levels"]]
    tol = 1e-11 if base["precision"] == "double" else 3e-5
    bg = base.get("bg", 0.0)
    d = solve3(dict(base, footprint=False))
    f = solve3(dict(base, footprint=True))
    mq = float(np.mean(q))
    for k, l in enumerate(lv):
        R = (float(z[l] - z[0]) / float(Kz[-1])) if base["analytic"] else resist(z, Kz, l)
        mf = float(np.mean(d[1][k]))
        sc = max(float(np.max(np.abs(d[1][k]))), abs(mq), 1e-300)
        if not abs(mf - mq) / sc <= tol:
            return fail("C03/mean-flux", "horizontal mean of the flux differs from the mean surface flux", None, mq, mf, tol)
        mc = float(np.mean(d[0][k]))
        exp = bg - mq * R
        sc = max(abs(bg), abs(mq * R), float(np.max(np.abs(d[0][k]))), 1e-300)
        if not abs(mc - exp) / sc <= max(tol, 1e-10):
            return fail("C03/mean-conc", "horizontal-mean concentration differs from bg - mean(q)*resistance", None, exp, mc, tol)
        s = float(np.sum(f[1][k]))
        if not abs(s - 1.0) <= max(tol, 1e-10):
            return fail("C03/unit-sum", "footprint weights over the periodic domain do not sum to one", None, 1.0, s, tol)
    if (case.get("par") or {}).get("cached"):
        # the same identities for footprints served through a result cache: first solve, repeats on the same cache object, a re-opened one -
        # with the returned arrays post-processed in place by the caller in between, as a caller may
        import tempfile
        import shutil
        import bldfm.cache as cmod
        ny, nx = q.shape
        d_ = tempfile.mkdtemp(prefix="c03c-", dir=os.getcwd())
        try:
            cache = cmod.GreensFunctionCache(d_)
            for rep in range(4):
                if rep == 3:
                    cache = cmod.GreensFunctionCache(d_)
                ff = solve3(dict(base, footprint=True), cache=cache)
                for k, l in enumerate(lv):
                    R = (float(z[l] - z[0]) / float(Kz[-1])) if base["analytic"] else resist(z, Kz, l)
                    s = float(np.sum(ff[1][k]))
                    if not abs(s - 1.0) <= max(tol, 1e-10):
                        return fail("C03/unit-sum/cached", "footprint weights served through a cache (call %d) do not sum to one" % (rep + 1), None, 1.0, s, tol)
                    mc = float(np.mean(ff[0][k]))
                    exp = bg - R / (nx * ny)
                    sc = max(abs(bg), abs(R / (nx * ny)), float(np.max(np.abs(ff[0][k]))), 1e-300)
                    if not abs(mc - exp) / sc <= max(tol, 1e-10):
                        return fail("C03/mean-conc/cached", "mean concentration Green's function served through a cache (call %d) differs from bg - resistance / cells" % (rep + 1),
                                    None, exp, mc, tol)
        finally:
            shutil.rmtree(d_, ignore_errors=True)
    return None


@oracle
def o_halo_padding(case):
    """halo of width h == zero-pad by (py,px) cells, enlarge the domain, halo=0, crop"""
    base = base_of(case)
    q = np.asarray(base["q"], dtype=float)
    ny, nx = q.shape
    px, py, dx, dy = pads_of(base)
    xmx, ymx = base["domain"]
    xm, ym = base["meas_pt"]
    big = dict(base, q=np.pad(q, ((py, py), (px, px))), domain=(xmx + 2 * px * dx, ymx + 2 * py * dy), halo=0.0)
    if base["footprint"]:
        big["meas_pt"] = (xm + px * dx, ym + py * dy)
    else:
        # dispersion mode: a non-zero measurement point re-centres on the ORIGINAL domain; compare un-centred
        base = dict(base, meas_pt=(0.0, 0.0))
        big["meas_pt"] = (0.0, 0.0)
    if (case.get("par") or {}).get("prelude_full"):
        # an EARLIER solve whose source fills the whole extended grid (the larger scene the sub-domain was cut from, non-zero up to its
        # edges): the halo of the next solve is zeros, not whatever occupied those cells before
        try:
            solve3(dict(big, q=np.random.default_rng(int(abs(xmx * 1000)) % (1 << 31)).uniform(0.5, 2.0, big["q"].shape), footprint=False, meas_pt=(0.0, 0.0)))
        except Exception:  # noqa: BLE001
            pass
    a = solve3(base)
    b = solve3(big)
    tol = 1e-9 if base["precision"] == "double" else 3e-5
    for name, k in (("conc", 0), ("flx", 1)):
        crop = b[k][:, py:py + ny, px:px + nx]
        e = relerr(a[k], crop, scale=field_floor(base)[k])
        if not e <= tol:
            return fail("C03/halo-padding/%s" % name, "halo result differs from explicit zero-padding + crop", None, "equal", e, tol)
    return None


def tall_column_case(rng):
    """thousands of thin layers, a background concentration that is large against the drop across one layer (420 ppm, 1900 ppb), both
    storage precisions: the mean mode is accumulated over every layer, whatever is rounded per layer instead of once shows here"""
    nz = int(rng.choice([1500, 4000]))
    z = np.geomspace(0.1, 20.0, nz)
    Kz = 0.16 * z
    sp = 1.0 + np.log(z / 0.05)
    ny, nx = int(rng.choice([4, 6])), int(rng.choice([4, 6]))
    c = dict(q=rng.uniform(0.5, 1.5, (ny, nx)), z=z, profiles=(0.9 * sp, 0.3 * sp, Kz.copy(), 1.3 * Kz, Kz), domain=(400.0, 300.0),
             levels=[int(nz // 8), int(nz // 2), int(nz - 1), 0], modes=(4, 4), meas_pt=(0.0, 0.0), bg=float(rng.choice([420.0, 1900.0])),
             footprint=False, analytic=False, halo=0.0, precision=str(rng.choice(["single", "single", "double"])))
    c["_kinds"] = dict(halo="zero", levels="tall", meas="origin", prof="varying")
    return c


def smooth_surface_case(rng):
    """a very smooth surface (water, ice, snow: roughness length 1e-5 .. 1e-4 m): K = kappa u* z is of the order of 1e-6 m2/s at the lowest
    nodes - far below anything a land surface gives - and those layers carry most of the vertical resistance.  The law of the mean
    concentration is stated for the caller's Kz, whatever its magnitude."""
    nz = int(rng.integers(12, 40))
    z0 = float(10.0 ** rng.uniform(-5.3, -4.0))
    z = np.geomspace(z0, float(rng.uniform(4, 20)), nz)
    ust = float(rng.uniform(0.05, 0.4))
    Kz = 0.4 * ust * z
    sp = (ust / 0.4) * np.log(z / (0.5 * z0))
    wd = float(rng.uniform(0, 2 * np.pi))
    ny, nx = int(rng.choice([4, 6, 5])), int(rng.choice([4, 6, 7]))
    c = dict(q=rng.uniform(0.5, 1.5, (ny, nx)), z=z, profiles=(np.cos(wd) * sp, np.sin(wd) * sp, 1.2 * Kz, 0.8 * Kz, Kz), domain=(400.0, 300.0),
             levels=[1, int(nz // 2), int(nz - 1), 0], modes=(4, 4), meas_pt=(0.0, 0.0), bg=float(rng.choice([0.0, 420.0])),
             footprint=bool(rng.random() < 0.5), analytic=False, halo=0.0, precision="double")
    limit_growth(c)
    c["_kinds"] = dict(halo="zero", levels="smooth surface (Kz ~ 1e-6 at the lowest nodes)", meas="origin", prof="varying")
    return c


def run_C03(rng, tier, deep):
    st = new_stats()
    correspond([random_case(rng, halo=0.0 if i % 3 == 0 else random_case(rng)["halo"]) for i in range(budget(tier, deep, 24, 200))] + big_cases(rng, tier, deep), st)
    for _ in range(budget(tier, deep, 30, 400)):
        c = random_case(rng)
        if rng.random() < 0.3:
            c["par"] = dict(c.get("par") or {}, cached=True)
            if c["bg"] == 0.0:
                c["bg"] = float(rng.choice([2.5, -1.25, 400.0]))
        run_oracle(st, o_conservation, c)
        c2 = random_case(rng)
        im, jm, pt = ongrid_point(rng, c2)
        c2["meas_pt"] = pt
        if c2["halo"] is None and max(c2["q"].shape) > 6:
            continue
        if rng.random() < 0.4:
            c2["par"] = dict(c2.get("par") or {}, prelude_full=True)
        run_oracle(st, o_halo_padding, c2)
    for _ in range(budget(tier, deep, 2, 6)):
        run_oracle(st, o_conservation, tall_column_case(rng))
    for _ in range(budget(tier, deep, 3, 12)):
        run_oracle(st, o_conservation, smooth_surface_case(rng))
    return finish(st, "smooth surfaces (z0 1e-5..1e-4 m, Kz ~ 1e-6 m2/s at the lowest nodes); random requests and tall columns (1500-4000 geometric layers, background 420 / 1900, single and double); conservation oracle with halo=0 (periodic domain observed through the API), "
                  "halo-equivalence oracle with explicit np.pad, enlarged domain, halo=0 and crop", deep, TOL)


# ------------------------------------------------------------ C05 closed form / third order

def spec_fields(case, coef_fn):
    """Independent spectral synthesis: out[k,j,i] = Re sum_{retained (fa,fb)} c_k(fa,fb) * phase.
    coef_fn(fa, fb, Lx, Ly, qhat, k) -> (p, q) complex for non-DC; DC handled by caller via (0,0)."""
    q = np.asarray(case["q"], dtype=float)
    ny, nx = q.shape
    px, py, dx, dy = pads_of(case)
    Nx, Ny = nx + 2 * px, ny + 2 * py
    nlx, nly = case["modes"]
    if nlx > Nx or nly > Ny:
        nlx, nly = Nx, Ny

    def freqs(nl):
        return np.array([a if a < (nl + 1) // 2 else a - nl for a in range(nl)])
    fa, fb = freqs(nly), freqs(nlx)
    qpad = np.pad(q, ((py, py), (px, px)))
    jj, ii = np.arange(Ny), np.arange(Nx)
    Ey = np.exp(-2j * np.pi * np.outer(fa, jj) / Ny)   # (nly, Ny)
    Ex = np.exp(-2j * np.pi * np.outer(fb, ii) / Nx)   # (nlx, Nx)
    xm, ym = case["meas_pt"]
    if case["footprint"]:
        qhat = np.ones((nly, nlx), dtype=complex) / (Nx * Ny)
    else:
        qhat = Ey @ qpad @ Ex.T / (Nx * Ny)
    Lx = 2 * np.pi * fb / (dx * Nx)
    Ly = 2 * np.pi * fa / (dy * Ny)
    lv = [int(case["levels"])] if np.ndim(case["levels"]) == 0 else [int(l) for l in case["levels"]]
    outs_p, outs_q = [], []
    for k, l in enumerate(lv):
        cp = np.zeros((nly, nlx), dtype=complex)
        cq = np.zeros((nly, nlx), dtype=complex)
        for a in range(nly):
            for b in range(nlx):
                cp[a, b], cq[a, b] = coef_fn(a, b, Lx[b], Ly[a], qhat[a, b], l)
        if case["footprint"]:
            sh = np.exp(1j * (Lx[None, :] * (xm + px * dx) + Ly[:, None] * (ym + py * dy)))
            sgn = -1.0
        else:
            sh = np.exp(1j * (Lx[None, :] * (xm - case["domain"][0] / 2) + Ly[:, None] * (ym - case["domain"][1] / 2))) \
                if xm ** 2 + ym ** 2 > 0 else 1.0
            sgn = 1.0
        cp, cq = cp * sh, cq * sh
        Sy = np.exp(sgn * 2j * np.pi * np.outer(jj, fa) / Ny)  # (Ny, nly)
        Sx = np.exp(sgn * 2j * np.pi * np.outer(fb, ii) / Nx)  # (nlx, Nx)
        outs_p.append((Sy @ cp @ Sx).real[py:py + ny, px:px + nx])
        outs_q.append((Sy @ cq @ Sx).real[py:py + ny, px:px + nx])
    return np.array(outs_p), np.array(outs_q)


def closed_form_coef(case):
    u, v, Kx, Ky, Kz = [float(np.asarray(p)[-1]) for p in case["profiles"]]
    z = np.asarray(case["z"], dtype=float)
    bg = case.get("bg", 0.0)

    def coef(a, b, Lx, Ly, qh, l):
        h = z[l] - z[0]
        if a == 0 and b == 0:
            return bg - qh * h / Kz, qh
        mu = np.sqrt(complex((Kx * Lx ** 2 + Ky * Ly ** 2) / Kz, (u * Lx + v * Ly) / Kz))
        Q = qh * np.exp(-mu * h)
        return Q / (Kz * mu), Q
    return coef


@oracle
def o_closed_form(case):
    """analytic mode == independently written closed form (half-space exponential decay, linear mean)"""
    base = dict(base_of(case), analytic=True, precision="double")
    pre = (case.get("par") or {}).get("prelude_grid")
    if pre:
        # a resolution study: the same domain, halo and mode counts on ANOTHER grid just before (whatever that solve leaves
        # behind - wavenumber tables, workspaces - must not reach this one)
        ny0, nx0 = np.asarray(base["q"]).shape
        try:
            solve3(dict(base, q=np.ones((max(ny0 + pre[0], 2), max(nx0 + pre[1], 2)))))
        except Exception:  # noqa: BLE001
            pass
    a = solve3(base)
    p, q = spec_fields(base, closed_form_coef(base))
    tol = 1e-10
    fl = field_floor(base)
    for name, got, exp, f0 in (("conc", a[0], p, fl[0]), ("flx", a[1], q, fl[1])):
        e = relerr(got, exp, scale=f0)
        if not e <= tol:
            return fail("C05/closed-form/%s" % name, "analytic mode differs from the closed-form half-space solution", None, "equal", e, tol)
    if (case.get("par") or {}).get("cached") and base["footprint"]:
        # the closed form also for footprints served through a result cache: first solve, two repeats on the same cache object, a re-opened one
        import tempfile
        import shutil
        import bldfm.cache as cmod
        d_ = tempfile.mkdtemp(prefix="c05c-", dir=os.getcwd())
        try:
            cache = cmod.GreensFunctionCache(d_)
            for rep in range(4):
                if rep == 3:
                    cache = cmod.GreensFunctionCache(d_)
                b_ = solve3(base, cache=cache)
                for name, got, exp, f0 in (("conc", b_[0], p, max(fl[0], abs(base.get("bg", 0.0)))), ("flx", b_[1], q, fl[1])):
                    e = relerr(got, exp, scale=f0)
                    if not e <= tol:
                        return fail("C05/closed-form/cached/%s" % name, "analytic footprint served through a cache (call %d) differs from the closed form" % (rep + 1),
                                    None, "equal", e, tol)
        finally:
            shutil.rmtree(d_, ignore_errors=True)
    return None


@oracle
def o_third_order(case):
    """numeric -> analytic at third order: error ratio >= 6 per halving in the resolved regime"""
    par = case["par"]
    base = dict(base_of(case), precision="double")
    n0 = par["n0"]
    z0, zm = par["z0"], par["zm"]
    errs = []
    for n in (n0, 2 * n0, 4 * n0):
        zz = np.linspace(z0, zm, n + 1)
        prof = tuple(np.full(n + 1, float(np.asarray(p)[0])) for p in base["profiles"])
        cc = dict(base, z=zz, profiles=prof, levels=n)
        num = solve3(dict(cc, analytic=False))
        ana = solve3(dict(cc, analytic=True))
        errs.append(max(relerr(num[0], ana[0]), relerr(num[1], ana[1])))
    for e0, e1 in zip(errs, errs[1:]):
        if e0 > 1e-9 and e1 > 1e-11:
            ratio = e0 / e1
            if not ratio >= 6.0:
                return fail("C05/order", "uniform-profile error shrinks by less than 6x per halving of the layer thickness (third order expected ~8x)",
                            None, ">= 6", [float(x) for x in errs], None)
    if not errs[-1] <= max(errs[0], 1e-12):
        return fail("C05/order", "refinement does not reduce the error", None, "decreasing", [float(x) for x in errs], None)
    return None


@oracle
def o_numeric_levels(case):
    """numeric vs analytic for an arbitrary level set (any order, repeats allowed): the error in every
    output slot is the error of that level in the bottom-to-top request of all levels"""
    par = case["par"]
    base = dict(base_of(case), precision="double")
    n = par["n0"]
    allv = list(range(n + 1))
    fn, fa = solve3(dict(base, levels=allv, analytic=False)), solve3(dict(base, levels=allv, analytic=True))
    lv = [int(x) for x in par["levels"]]
    num, ana = solve3(dict(base, levels=lv, analytic=False)), solve3(dict(base, levels=lv, analytic=True))
    fl = field_floor(base)
    for name, k in (("conc", 0), ("flx", 1)):
        sc = max(float(np.max(np.abs(fa[k]))), fl[k], 1e-300)
        for slot, l in enumerate(lv):
            ref = float(np.max(np.abs(fn[k][l] - fa[k][l]))) / sc
            e = float(np.max(np.abs(num[k][slot] - ana[k][slot]))) / sc
            if not e <= 2.0 * ref + 1e-9:
                return fail("C05/level-set/%s" % name, "numeric and closed form disagree in output slot %d (level %d of the request %s) by more than that level's "
                            "discretisation error" % (slot, l, lv), None, "<= %.3e" % (2 * ref + 1e-9), e, None)
    return None


def resolved_uniform_case(rng, n0=None):
    c = random_case(rng, analytic=False)
    ny, nx = c["q"].shape
    n0 = n0 or int(rng.integers(6, 14))
    z0, zm = float(rng.uniform(0.05, 0.5)), float(rng.uniform(4, 10))
    c["z"] = np.linspace(z0, zm, n0 + 1)
    c["profiles"] = uniform_profiles(rng, n0 + 1)
    # resolved regime: keep |mu dz| <= 0.5 for the highest retained mode by enlarging the domain
    u, v, Kx, Ky, Kz = [float(p[0]) for p in c["profiles"]]
    dz = (zm - z0) / n0
    while True:
        px, py, dx, dy = pads_of(c)
        Lmax = np.pi / min(dx, dy)
        mu = np.sqrt(abs(complex((max(Kx, Ky) * 2 * Lmax ** 2) / Kz, (abs(u) + abs(v)) * Lmax / Kz)))
        if mu * dz <= 0.5:
            break
        c["domain"] = (c["domain"][0] * 1.5, c["domain"][1] * 1.5)
        if c["halo"] is not None:
            c["halo"] = c["halo"] * 1.5
        c["meas_pt"] = (c["meas_pt"][0] * 1.5, c["meas_pt"][1] * 1.5)
    c["levels"] = n0
    c["par"] = dict(n0=n0, z0=z0, zm=zm)
    return c


def stretch_for_decay(c, target):
    """rescale the heights of a uniform-profile request so that the fastest-decaying retained component has Re(mu) * h = target at the
    top node: beyond ~745 the factor exp(-mu h) underflows to zero (and exp(+mu h) overflows) - the closed form is simply 0 there"""
    px, py, dx, dy = pads_of(c)
    ny, nx = np.asarray(c["q"]).shape
    Nx, Ny = nx + 2 * px, ny + 2 * py
    nlx, nly = c["modes"]
    if nlx > Nx or nly > Ny:
        nlx, nly = Nx, Ny
    u, v, Kx, Ky, Kz = [float(np.asarray(p)[-1]) for p in c["profiles"]]
    Lx = 2 * np.pi * (nlx // 2) / (dx * Nx)
    Ly = 2 * np.pi * (nly // 2) / (dy * Ny)
    mu = np.sqrt(complex((Kx * Lx ** 2 + Ky * Ly ** 2) / Kz, (abs(u) * Lx + abs(v) * Ly) / Kz))
    z = np.asarray(c["z"], dtype=float)
    fac = target / max(mu.real * (z[-1] - z[0]), 1e-300)
    c["z"] = z[0] + (z - z[0]) * fac
    return c


def run_C05(rng, tier, deep):
    st = new_stats()
    cases = []
    for i in range(budget(tier, deep, 24, 200)):
        c = random_case(rng, analytic=bool(i % 2))
        c["profiles"] = uniform_profiles(rng, len(c["z"]))
        c["_kinds"]["prof"] = "uniform"
        limit_growth(c)
        cases.append(c)
    correspond(cases + big_cases(rng, tier, deep), st)
    for _ in range(budget(tier, deep, 30, 300)):
        c = random_case(rng, analytic=True)
        c["profiles"] = uniform_profiles(rng, len(c["z"]))
        if rng.random() < 0.4:
            c["par"] = dict(c.get("par") or {}, prelude_grid=[int(rng.integers(-2, 4)) or 1, int(rng.integers(-2, 4)) or 2])
            if rng.random() < 0.6:
                c["modes"] = (2, 2)      # not clipped on either grid
        if rng.random() < 0.25:
            # very high levels / very fine grids: the decay factor of the short waves underflows
            stretch_for_decay(c, float(rng.choice([400.0, 800.0, 2000.0, 1e4])))
        if c["footprint"] and rng.random() < 0.4:
            c["par"] = dict(c.get("par") or {}, cached=True)
            if c["bg"] == 0.0:
                c["bg"] = float(rng.choice([2.5, -1.25, 400.0]))
        run_oracle(st, o_closed_form, c)
    for _ in range(budget(tier, deep, 8, 60)):
        run_oracle(st, o_third_order, resolved_uniform_case(rng))
    for _ in range(budget(tier, deep, 10, 80)):
        c = resolved_uniform_case(rng)
        n = c["par"]["n0"]
        k = int(rng.integers(2, 5))
        c["par"]["levels"] = [int(x) for x in (rng.permutation(n + 1)[:k] if rng.random() < 0.7 else rng.integers(0, n + 1, size=k))]
        run_oracle(st, o_numeric_levels, c)
    return finish(st, "uniform-profile requests (analytic and numeric, all halo/level/mode kinds); closed-form oracle = independent direct spectral synthesis "
                  "in numpy (also right after the same domain / halo / modes on another grid, and at heights where exp(-mu h) underflows); order oracle = numeric vs analytic at n, 2n, 4n layers in the resolved regime (|mu dz| <= 0.5)", deep, TOL)


# ------------------------------------------------------------ C06 translation equivariance

@oracle
def o_source_shift(case):
    par = case["par"]
    cy, cx = par["cy"], par["cx"]
    base = dict(base_of(case), halo=0.0, footprint=False, meas_pt=(0.0, 0.0))
    a = solve3(base)
    b = solve3(dict(base, q=np.roll(np.asarray(base["q"]), (cy, cx), axis=(0, 1))))
    tol = 1e-10 if base["precision"] == "double" else 3e-5
    for name, k in (("conc", 0), ("flx", 1)):
        e = relerr(np.roll(a[k], (cy, cx), axis=(1, 2)), b[k], scale=field_floor(base)[k])
        if not e <= tol:
            return fail("C06/source-shift/%s" % name, "translating the source by whole cells does not translate the %s" % name, None, "equal", e, tol)
    return None


@oracle
def o_tower_shift(case):
    par = case["par"]
    cy, cx, im, jm = par["cy"], par["cx"], par["im"], par["jm"]
    base = dict(base_of(case), halo=0.0, footprint=True)
    ny, nx = base["q"].shape
    dx, dy = base["domain"][0] / nx, base["domain"][1] / ny
    ps = par.get("prelude_scale")
    if ps:
        # the same request on a domain of another extent, with the SAME measurement points in metres, solved just before:
        # nothing it leaves behind (a phase table keyed on metres, a workspace keyed on shapes) may reach the solves below
        for pt in ((im * dx, jm * dy), ((im + cx) * dx, (jm + cy) * dy)):
            try:
                solve3(dict(base, domain=(base["domain"][0] * ps, base["domain"][1] * ps), meas_pt=pt))
            except Exception:  # noqa: BLE001
                pass
    a = solve3(dict(base, meas_pt=(im * dx, jm * dy)))
    b = solve3(dict(base, meas_pt=((im + cx) * dx, (jm + cy) * dy)))
    tol = 1e-10 if base["precision"] == "double" else 3e-5
    for name, k in (("conc", 0), ("flx", 1)):
        e = relerr(np.roll(a[k], (cy, cx), axis=(1, 2)), b[k], scale=field_floor(base)[k])
        if not e <= tol:
            return fail("C06/tower-shift/%s" % name, "moving the measurement point by whole cells does not translate the footprint", None, "equal", e, tol)
    # point reflection: footprint[j,i] = response to a unit source at the tower, evaluated at (2jm-j, 2im-i)
    delta = np.zeros((ny, nx))
    delta[jm % ny, im % nx] = 1.0
    d = solve3(dict(base, footprint=False, q=delta, meas_pt=(0.0, 0.0)))
    jj = (2 * jm - np.arange(ny)) % ny
    ii = (2 * im - np.arange(nx)) % nx
    bg = base.get("bg", 0.0)
    for name, k in (("conc", 0), ("flx", 1)):
        refl = d[k][:, jj][:, :, ii]
        e = relerr(a[k], refl, scale=field_floor(base)[k])
        if not e <= tol:
            return fail("C06/point-reflection/%s" % name, "footprint is not the point reflection of the unit-source response about the tower", None, "equal", e, tol)
    return None


@oracle
def o_recentre(case):
    par = case["par"]
    im, jm = par["im"], par["jm"]
    base = dict(base_of(case), footprint=False)
    ny, nx = base["q"].shape
    dx, dy = base["domain"][0] / nx, base["domain"][1] / ny
    if par.get("prelude_scale"):
        try:
            solve3(dict(base, domain=(base["domain"][0] * par["prelude_scale"], base["domain"][1] * par["prelude_scale"]), meas_pt=(im * dx, jm * dy)))
        except Exception:  # noqa: BLE001
            pass
    a = solve3(dict(base, meas_pt=(0.0, 0.0)))
    pt = (im * dx, jm * dy)
    image = par.get("image")
    if image:
        # a periodic image of the origin cell, given EXACTLY as whole multiples of the (halo = 0) period: a non-zero
        # measurement point, so the output is re-centred on the origin cell
        pt = (image[0] * base["domain"][0], image[1] * base["domain"][1])
    b = solve3(dict(base, meas_pt=pt))
    tol = 1e-9 if base["precision"] == "double" else 3e-5
    for name, k in (("conc", 0), ("flx", 1)):
        sc = max(float(np.max(np.abs(a[k]))), 1e-300)
        if im == 0 and jm == 0 and not image:
            if not relerr(a[k], b[k]) <= tol:
                return fail("C06/recentre/origin", "a zero measurement point changed the output", None, "equal", relerr(a[k], b[k]), tol)
            continue
        got = b[k][:, ny // 2, nx // 2]
        exp = a[k][:, jm, im]
        e = float(np.max(np.abs(got - exp))) / sc
        if not e <= tol:
            return fail("C06/recentre/%s" % name, "value at the domain centre is not the field value at the measurement point", None,
                        [float(x) for x in exp], [float(x) for x in got], tol)
        if base.get("halo") == 0.0:
            e = relerr(np.roll(a[k], (ny // 2 - jm, nx // 2 - im), axis=(1, 2)), b[k], scale=field_floor(base)[k])
            if not e <= tol:
                return fail("C06/recentre-roll/%s" % name, "re-centred output is not the periodic translate of the un-centred one", None, "equal", e, tol)
    return None


@oracle
def o_recentre_any(case):
    """any grid parity, periodic domain: a measurement point at the domain centre leaves the output un-shifted, and
    moving it by whole cells (k, m) translates the output by the same cells (the value that was at centre + (m, k)
    comes to the centre)"""
    par = case["par"]
    k, m = par["k"], par["m"]
    base = dict(base_of(case), footprint=False, halo=0.0)
    ny, nx = base["q"].shape
    xmx, ymx = base["domain"]
    dx, dy = xmx / nx, ymx / ny
    a = solve3(dict(base, meas_pt=(0.0, 0.0)))
    c0 = solve3(dict(base, meas_pt=(xmx / 2, ymx / 2)))
    if xmx / 2 + k * dx == 0.0 and ymx / 2 + m * dy == 0.0:
        k += 1          # (0, 0) is the documented "no re-centring" request, not a point to centre on
    # when the point is a whole number of metres on both axes it is handed over as integers (`meas_pt=(45, 21)`); on a lattice with
    # dx = j/2, j odd, and nx = 2 mod 4 the centre is fractional, the point whole and the translation k dx fractional (k odd)
    c1 = solve3(dict(base, meas_pt=(xmx / 2 + k * dx, ymx / 2 + m * dy), ints=par.get("ints")))
    tol = 1e-9 if base["precision"] == "double" else 3e-5
    fl = field_floor(base)
    for name, i in (("conc", 0), ("flx", 1)):
        e = relerr(a[i], c0[i], scale=fl[i])
        if not e <= tol:
            return fail("C06/recentre-centre/%s" % name, "a measurement point at the domain centre changes the %s (grid %dx%d)" % (name, nx, ny),
                        None, "equal", e, tol)
        e = relerr(np.roll(a[i], (-m, -k), axis=(1, 2)), c1[i], scale=fl[i])
        if not e <= tol:
            return fail("C06/recentre-cells/%s" % name, "moving the measurement point by whole cells (%d, %d) from the centre does not translate the %s by "
                        "those cells (grid %dx%d)" % (k, m, name, nx, ny), None, "equal", e, tol)
    return None


def even_case(rng, **kw):
    while True:
        c = random_case(rng, **kw)
        ny, nx = c["q"].shape
        if nx % 2 == 0 and ny % 2 == 0:
            return c


def run_C06(rng, tier, deep):
    st = new_stats()
    cases = []
    for i in range(budget(tier, deep, 24, 200)):
        c = random_case(rng)
        im, jm, pt = ongrid_point(rng, c)
        if not c.get("ints"):       # whole-metre, integer-typed points stay as they are (usually off the grid)
            c["meas_pt"] = pt
        cases.append(c)
    correspond(cases + big_cases(rng, tier, deep), st)
    for _ in range(budget(tier, deep, 25, 300)):
        c = random_case(rng)
        ny, nx = c["q"].shape
        im, jm, _ = ongrid_point(rng, c)
        c["par"] = dict(cy=int(rng.integers(-ny, 2 * ny)), cx=int(rng.integers(-nx, 2 * nx)), im=im, jm=jm)
        if rng.random() < 0.3:
            c["par"]["prelude_scale"] = float(rng.choice([0.5, 2.0, 1.25]))
        run_oracle(st, o_source_shift, c)
        run_oracle(st, o_tower_shift, c)
        c2 = even_case(rng)
        im, jm, _ = ongrid_point(rng, c2)
        if rng.random() < 0.15:
            im, jm = 0, 0
        c2["par"] = dict(im=im, jm=jm)
        if rng.random() < 0.3:
            c2["par"]["prelude_scale"] = float(rng.choice([0.5, 2.0]))
        if rng.random() < 0.4:
            c2["halo"] = 0.0
        if rng.random() < 0.2:
            img = [int(rng.integers(-1, 3)), int(rng.integers(-1, 3))]
            if img != [0, 0]:
                c2["par"] = dict(im=0, jm=0, image=img)
                c2["halo"] = 0.0
        run_oracle(st, o_recentre, c2)
        c3 = random_case(rng)
        ny3, nx3 = c3["q"].shape
        c3["par"] = dict(k=int(rng.integers(-nx3, nx3 + 1)), m=int(rng.integers(-ny3, ny3 + 1)))
        if rng.random() < 0.3:
            # half-metre lattice: spacing j/2 (j odd), 2 mod 4 cells per axis, odd whole-cell offsets -> whole-metre points, integer-typed
            nx3, ny3 = int(rng.choice([2, 6, 10])), int(rng.choice([2, 6, 10]))
            jx = 2 * int(round(c3["domain"][0] / c3["q"].shape[1] - 0.5)) + 1
            jy = 2 * int(round(c3["domain"][1] / c3["q"].shape[0] - 0.5)) + 1
            c3["q"] = random_source(rng, ny3, nx3)
            c3["domain"] = (nx3 * 0.5 * jx, ny3 * 0.5 * jy)
            limit_growth(c3, bound=11.0)
            if c3["domain"] == (nx3 * 0.5 * jx, ny3 * 0.5 * jy):
                c3["par"] = dict(k=2 * int(rng.integers(-2, 3)) + 1, m=2 * int(rng.integers(-2, 3)) + 1, ints=str(rng.choice(["py", "np"])))
                st["branches"]["recentre=whole-metre integer-typed point on a half-metre lattice"] = st["branches"].get("recentre=whole-metre integer-typed point on a half-metre lattice", 0) + 1
        run_oracle(st, o_recentre_any, c3)
    return finish(st, "random requests with on-grid towers; oracles: np.roll of the source / of the tower position (incl. wrap-around, shifts in [-n, 2n)), "
                  "point reflection against a unit-source dispersion run, re-centring value and full periodic roll (halo=0), measurement points that are exact periodic images of the origin, the same points in metres solved on a domain of another extent just before", deep, TOL)


# ------------------------------------------------------------ C07 symmetries

def lowpass_strict(f, nlx, nly):
    """keep only components strictly inside the cut-off (|freq| < nl/2) of a periodic field (nlv, ny, nx)"""
    F = np.fft.fft2(f, axes=(1, 2))
    ny, nx = f.shape[1:]
    fy = np.abs(np.fft.fftfreq(ny, 1.0 / ny))
    fx = np.abs(np.fft.fftfreq(nx, 1.0 / nx))
    nlx, nly = min(nlx, nx), min(nly, ny)
    F[:, fy >= nly / 2, :] = 0
    F[:, :, fx >= nlx / 2] = 0
    return np.fft.ifft2(F, axes=(1, 2)).real


@oracle
def o_mirror(case):
    par = case["par"]
    axis = par["axis"]   # "x" or "y"
    base = dict(base_of(case), halo=0.0)
    ny, nx = base["q"].shape
    dx, dy = base["domain"][0] / nx, base["domain"][1] / ny
    im, jm = par["im"], par["jm"]
    u, v, Kx, Ky, Kz = base["profiles"]
    q = np.asarray(base["q"])
    if axis == "x":
        m = dict(base, q=q[:, ::-1].copy(), profiles=(-np.asarray(u), v, Kx, Ky, Kz))
        im2, jm2 = nx - 1 - im, jm
        flip = lambda f: f[:, :, ::-1]  # noqa: E731
    else:
        m = dict(base, q=q[::-1, :].copy(), profiles=(u, -np.asarray(v), Kx, Ky, Kz))
        im2, jm2 = im, ny - 1 - jm
        flip = lambda f: f[:, ::-1, :]  # noqa: E731
    if base["footprint"]:
        # the receptor on a node, or displaced by a fraction of a cell (0.5 = exactly half-way between two nodes, in floating point:
        # the point where any rounding of the position to a node has to break a tie); the array flip j -> n-1-j maps x to (n-1) dx - x
        fx, fy = par.get("frac", (0.0, 0.0))
        base["meas_pt"] = ((im + fx) * dx, (jm + fy) * dy)
        m["meas_pt"] = ((nx - 1 - im - fx) * dx, (jm + fy) * dy) if axis == "x" else ((im + fx) * dx, (ny - 1 - jm - fy) * dy)
    else:
        base["meas_pt"] = (0.0, 0.0)
        m["meas_pt"] = (0.0, 0.0)
    a = solve3(base)
    b = solve3(m)
    tol = 1e-9 if base["precision"] == "double" else 3e-5
    nlx, nly = base["modes"]
    for name, k in (("conc", 0), ("flx", 1)):
        e = relerr(lowpass_strict(flip(a[k]), nlx, nly), lowpass_strict(b[k], nlx, nly), scale=np.max(np.abs(a[k])))
        if not e <= tol:
            return fail("C07/mirror-%s/%s" % (axis, name), "mirroring the problem in %s does not mirror the %s (Nyquist components removed)" % (axis, name),
                        None, "equal", e, tol)
    return None


@oracle
def o_transpose(case):
    base = base_of(case)
    u, v, Kx, Ky, Kz = base["profiles"]
    xm, ym = base["meas_pt"]
    halo = base.get("halo")
    t = dict(base, q=np.asarray(base["q"]).T.copy(), profiles=(v, u, Ky, Kx, Kz), domain=(base["domain"][1], base["domain"][0]),
             modes=(base["modes"][1], base["modes"][0]), meas_pt=(ym, xm))
    a = solve3(base)
    b = solve3(t)
    tol = 1e-9 if base["precision"] == "double" else 3e-5
    for name, k in (("conc", 0), ("flx", 1)):
        e = relerr(np.transpose(a[k], (0, 2, 1)), b[k], scale=field_floor(base)[k])
        if not e <= tol:
            return fail("C07/transpose/%s" % name, "exchanging the x and y axes does not transpose the %s" % name, None, "equal", e, tol)
    return None


@oracle
def o_similarity(case):
    par = case["par"]
    s = par["s"]
    base = base_of(case)
    u, v, Kx, Ky, Kz = [np.asarray(p, dtype=float) for p in base["profiles"]]
    tol = 1e-8 if base["precision"] == "double" else 5e-5
    a = solve3(base)
    if par["kind"] == "length":
        halo = base.get("halo")
        t = dict(base, z=np.asarray(base["z"]) * s, domain=(base["domain"][0] * s, base["domain"][1] * s),
                 meas_pt=(base["meas_pt"][0] * s, base["meas_pt"][1] * s), halo=None if halo is None else halo * s,
                 profiles=(u, v, Kx * s, Ky * s, Kz * s))
        b = solve3(t)
        for name, k in (("conc", 0), ("flx", 1)):
            bgk = base.get("bg", 0.0) if k == 0 else 0.0
            e = relerr(a[k], b[k], scale=field_floor(base)[k])
            if not e <= tol:
                return fail("C07/length-similarity/%s" % name, "scaling all lengths and diffusivities by a common factor changed the %s" % name,
                            None, "equal", e, tol)
    else:
        t = dict(base, profiles=(u * s, v * s, Kx * s, Ky * s, Kz * s), bg=base.get("bg", 0.0) / s)
        b = solve3(t)
        e = relerr(a[1], b[1], scale=field_floor(base)[1])
        if not e <= tol:
            return fail("C07/velocity-similarity/flx", "scaling winds and diffusivities by a common factor changed the flux", None, "equal", e, tol)
        e = relerr(a[0] / s, b[0], scale=field_floor(base)[0] / s)
        if not e <= tol:
            return fail("C07/velocity-similarity/conc", "scaling winds and diffusivities by s did not divide the concentration by s", None, "equal", e, tol)
    return None


def run_C07(rng, tier, deep):
    st = new_stats()
    correspond([random_case(rng) for _ in range(budget(tier, deep, 24, 200))] + big_cases(rng, tier, deep), st)
    for _ in range(budget(tier, deep, 20, 250)):
        c = random_case(rng)
        im, jm, pt = ongrid_point(rng, c)
        fr = [(0.0, 0.0), (0.5, 0.5), (0.5, 0.0), (0.0, 0.5), (float(rng.uniform(0, 1)), float(rng.uniform(0, 1)))][int(rng.integers(5))]
        c["par"] = dict(axis=str(rng.choice(["x", "y"])), im=im, jm=jm, frac=fr)
        st["branches"]["receptor offset (cells)=%s" % ("node" if fr == (0.0, 0.0) else "half-cell tie" if 0.5 in fr and set(fr) <= {0.0, 0.5} else "generic")] = \
            st["branches"].get("receptor offset (cells)=%s" % ("node" if fr == (0.0, 0.0) else "half-cell tie" if 0.5 in fr and set(fr) <= {0.0, 0.5} else "generic"), 0) + 1
        run_oracle(st, o_mirror, c)
        c = random_case(rng)
        if c["analytic"] and rng.random() < 0.6:
            # closed form on a column between "decays to 1e-4" and "decays beyond underflow" over its height, Kx != Ky: whatever the code
            # decides from an ESTIMATE of the decay must treat the two horizontal axes alike
            make_tall(c, rng, st, lo=0.9, hi=2.2, aniso=True)
        run_oracle(st, o_transpose, c)
        c = random_case(rng)
        if c["halo"] is not None and c["_kinds"]["halo"] == "comm":
            c["halo"] = c["halo"] * 1.37   # avoid int(halo/dx) sitting on a float-rounding tie
        if c["halo"] is None:
            # the default halo max(xmax, ymax) is a whole number of cells along the longer axis, so int(halo/dx) sits
            # exactly on a float-rounding tie that a rescaling of all lengths can flip; use an explicit halo off the tie
            c["halo"] = 0.93 * max(c["domain"])
        if c["_kinds"]["meas"] == "grid":
            pass
        # a similarity law has no preferred scale: most factors within 1e-3..1e3, some as far as 1e-7 / 1e7 (millimetre flumes, molecular
        # diffusivities: any absolute threshold in metres, m/s or m2/s hidden in the code is crossed by one of them)
        ex = float(rng.uniform(-3, 3)) if rng.random() < 0.65 else float(rng.uniform(-7, 7))
        c["par"] = dict(kind=str(rng.choice(["length", "velocity"])), s=float(10 ** ex))
        run_oracle(st, o_similarity, c)
    return finish(st, "random requests with Kx != Ky != Kz, oblique sheared winds, nx != ny; oracles: x/y mirror (halo=0, components at or beyond "
                  "the cut-off removed by FFT), transpose with swapped winds/diffusivities/domain/modes, length and velocity similarity with "
                  "scale factors 1e-3..1e3 (a third of them out to 1e-7..1e7)", deep, TOL)


# ------------------------------------------------------------ C10 levels

@oracle
def o_levels(case):
    base = base_of(case)
    lv = base["levels"]
    lvl = [int(lv)] if np.ndim(lv) == 0 else [int(l) for l in lv]
    form = case["par"]["form"]
    if np.ndim(lv) == 0:
        # a single level: Python int, numpy integer scalars, a 0-d array
        arg = {"npint64": np.int64, "npint32": np.int32, "zerod": np.array, "intp": np.intp}.get(form, int)(lvl[0])
    else:
        arg = {"array": lambda v: np.array(v), "array32": lambda v: np.array(v, dtype=np.int32), "nplist": lambda v: [np.int64(x) for x in v],
               "arrayu8": lambda v: np.array(v, dtype=np.uint8), "tuple": tuple}.get(form, list)(lvl)
    base = dict(base, _cont=case["par"].get("cont"))
    z = np.asarray(base["z"], dtype=float)
    grid, conc, flx = real_solve(dict(base, levels=arg))
    ny, nx = np.asarray(base["q"]).shape
    nlv = len(lvl)
    if np.asarray(conc).size != nlv * ny * nx:
        return fail("C10/shape", "multi-level result has the wrong number of slices", None, [nlv, ny, nx], list(np.shape(conc)), 0)
    conc = np.asarray(conc, dtype=float).reshape(nlv, ny, nx)
    flx = np.asarray(flx, dtype=float).reshape(nlv, ny, nx)
    Z = np.asarray(grid[2], dtype=float).reshape(nlv, ny, nx)
    tol = 1e-12 if base["precision"] == "double" else 1e-6
    full = solve3(dict(base, levels=list(range(len(z))))) if case["par"].get("full") else None
    fl = field_floor(base)
    for k, l in enumerate(lvl):
        if not np.all(Z[k] == z[l]):
            return fail("C10/height-label", "returned height of slice %d is not the height of the requested level" % k, None, float(z[l]), float(Z[k, 0, 0]), 0)
        one = solve3(dict(base, levels=int(l)))
        for name, got, exp, f0 in (("conc", conc[k], one[0][0], fl[0]), ("flx", flx[k], one[1][0], fl[1])):
            e = relerr(got, exp, scale=f0)
            if not e <= tol:
                return fail("C10/slice-vs-single/%s" % name, "slice %d of a multi-level request differs from the single-level request for that level" % k,
                            None, "equal", e, tol)
        if full is not None:
            for name, got, exp, f0 in (("conc", conc[k], full[0][l], fl[0]), ("flx", flx[k], full[1][l], fl[1])):
                e = relerr(got, exp, scale=f0)
                if not e <= tol:
                    return fail("C10/slice-vs-column/%s" % name, "slice %d differs from the corresponding slice of a full-column request" % k,
                                None, "equal", e, tol)
    return None


@oracle
def o_levels_big(case):
    """a LARGE multi-level request (levels x retained modes well above 2^22 array elements; a full column of a fine vertical grid on a
    128 x 128 spectrum): every slice against the same level taken from requests of at most `chunk` levels.  Sizes of this order are what
    production runs use (default modes 512 x 512, a dozen output levels); the small grids of the other cases never reach them."""
    rng = np.random.default_rng(case["seed"])
    n, nz, chunk = case["n"], case["nz"], case["chunk"]
    c = random_case(rng, small=True)
    z = zgrid(rng, nz)
    c.update(q=random_source(rng, n, n, "random"), z=z, profiles=power_profiles(rng, nz, z), modes=(n, n), halo=0.0, analytic=False,
             precision="double", footprint=bool(case["footprint"]), domain=(float(n * 4.0), float(n * 4.0)), meas_pt=(float(4.0 * (n // 3)), float(4.0 * (n // 2))))
    limit_growth(c)
    base = base_of(c)
    order = {"asc": list(range(nz)), "desc": list(range(nz - 1, -1, -1)), "shuf": [int(x) for x in rng.permutation(nz)]}[case["order"]]
    order = order[: case.get("take", nz)]
    grid, conc, flx = real_solve(dict(base, levels=order))
    nlv = len(order)
    if np.asarray(conc).shape != (nlv, n, n):
        return fail("C10/big/shape", "a %d-level request on a %dx%d spectrum returns the wrong shape" % (nlv, n, n), None, [nlv, n, n], list(np.shape(conc)), 0)
    Z = np.asarray(grid[2], dtype=float)
    for k, l in enumerate(order):
        if not np.all(Z[k] == z[l]):
            return fail("C10/big/height-label", "slot %d of a %d-level request reports a height other than that of level %d" % (k, nlv, l), None, float(z[l]), float(Z[k, 0, 0]), 0)
    fl = field_floor(base)
    for a in range(0, nlv, chunk):
        part = order[a:a + chunk]
        pc, pf = solve3(dict(base, levels=part))[:2]
        for kk, l in enumerate(part):
            for name, got, exp, f0 in (("conc", conc[a + kk], pc[kk], fl[0]), ("flx", flx[a + kk], pf[kk], fl[1])):
                e = relerr(np.asarray(got, dtype=float), np.asarray(exp, dtype=float), scale=f0)
                if not e <= 1e-12:
                    return fail("C10/big/slice/%s" % name, "slot %d (level %d) of a %d-level request on a %dx%d spectrum differs from the same level requested in a group of %d"
                                % (a + kk, l, nlv, n, n, len(part)), None, "equal", e, 1e-12)
    return None


@oracle
def o_result_lifetime(case):
    """what a solve RETURNS belongs to the caller: a later solve (the same request, other levels, another source, the other mode) neither changes
    arrays returned earlier nor shares memory with them, and post-processing a result in place does not reach any later solve"""
    base = base_of(case)
    var = case["par"]["variation"]
    nz = len(base["z"])
    other = dict(base)
    if var == "levels":
        other["levels"] = [int(nz - 1), 0] if np.ndim(base["levels"]) == 0 else int(np.ravel(base["levels"])[0])
    elif var == "source":
        other["q"] = np.asarray(base["q"], dtype=float)[::-1, ::-1] * 1.5 + 0.25
    elif var == "mode":
        other["footprint"] = not base["footprint"]
    elif var == "precision":
        other["precision"] = "single" if base["precision"] == "double" else "double"
    r1 = real_solve(base)
    a1 = [np.asarray(x) for x in (r1[0][0], r1[0][1], r1[0][2], r1[1], r1[2])]
    snap = [x.copy() for x in a1]
    r2 = real_solve(other)
    a2 = [np.asarray(x) for x in (r2[0][0], r2[0][1], r2[0][2], r2[1], r2[2])]
    names = ("X", "Y", "Z", "conc", "flx")
    for nm, x, s0 in zip(names, a1, snap):
        if x.shape != s0.shape or not np.array_equal(x, s0):
            return fail("result-lifetime/overwritten/%s" % nm, "the %s array returned by a solve was changed by a later solve (%s varied)" % (nm, var), None, "unchanged", "changed", 0)
    for nm, x, y in zip(names, a1, a2):
        if x.size and y.size and np.shares_memory(x, y):
            return fail("result-lifetime/shared/%s" % nm, "the %s arrays returned by two solves share memory (%s varied)" % (nm, var), None, "separate", "shared", 0)
    for y in a2:
        if y.flags.writeable and y.size:
            y *= -3.0
            y += 7.0
    for x in a1[3:]:
        if x.flags.writeable and x.size:
            x += 1.0
    r3 = real_solve(base)
    a3 = [np.asarray(x) for x in (r3[0][0], r3[0][1], r3[0][2], r3[1], r3[2])]
    for nm, x, s0 in zip(names, a3, snap):
        if x.shape != s0.shape or not np.array_equal(x, s0):
            return fail("result-lifetime/postprocessing/%s" % nm, "after earlier results were post-processed in place, the same request returns another %s" % nm, None, "bit-identical", "differs", 0)
    return None


@oracle
def o_levels_interface(case):
    """the same clause through the configuration-driven interface: `domain.output_levels` = any list of nodes (a permutation of ALL nodes, a
    descending list, repeats, a single level) - slice k of the single run is the single-level run for the k-th requested node, with its height"""
    from bldfm.config_parser import parse_config_dict
    from bldfm.interface import run_bldfm_single
    nz = case["nz"]
    lv = [int(x) for x in case["levels"]]

    def cfg_for(levels):
        return parse_config_dict(dict(
            domain=dict(nx=8, ny=6, xmax=80.0, ymax=60.0, nz=nz, modes=[8, 6], halo=10.0, output_levels=levels),
            towers=[dict(name="T", lat=0.0, lon=0.0, x=30.0, y=20.0, z_m=4.0)],
            met=dict(ustar=0.35, mol=-80.0, wind_speed=3.0, wind_dir=250.0),
            solver=dict(closure="MOST", footprint=bool(case["footprint"]), precision="double")))
    cfg = cfg_for(lv)
    r = run_bldfm_single(cfg, cfg.towers[0])
    conc, flx = np.asarray(r["conc"], dtype=float), np.asarray(r["flx"], dtype=float)
    Z = np.asarray(r["grid"][2], dtype=float)
    if conc.ndim == 2:
        conc, flx, Z = conc[None], flx[None], Z[None] if Z.ndim == 2 else Z.reshape(1, *conc.shape[-2:])
    if conc.shape[0] != len(lv):
        return fail("C10/interface/count", "a single run with output_levels %s returns %d slices" % (lv, conc.shape[0]), None, len(lv), int(conc.shape[0]), 0)
    for k, l in enumerate(lv):
        c1 = cfg_for([l])
        r1 = run_bldfm_single(c1, c1.towers[0])
        one_c, one_f = np.asarray(r1["conc"], dtype=float), np.asarray(r1["flx"], dtype=float)
        z1 = float(np.asarray(r1["grid"][2], dtype=float).ravel()[0])
        if not np.all(Z[k] == z1):
            return fail("C10/interface/height", "slice %d of a single run with output_levels %s reports height %r, level %d lies at %r" % (k, lv, float(np.ravel(Z[k])[0]), l, z1),
                        None, z1, float(np.ravel(Z[k])[0]), 0)
        for name, got, exp in (("conc", conc[k], one_c), ("flx", flx[k], one_f)):
            sc = max(float(np.max(np.abs(exp))), 1e-300)
            e = float(np.max(np.abs(got - exp.reshape(got.shape)))) / sc
            if not e <= 1e-12:
                return fail("C10/interface/%s" % name, "slice %d of a single run with output_levels %s is not the single-level run for level %d" % (k, lv, l), None, "equal", e, 1e-12)
    return None


def make_tall(c, rng, st, lo=2.3, hi=3.5, aniso=False):
    """a column that is TALL against the horizontal cell (100 m mast over a metre-scale grid): the shortest retained waves decay by
    exp(-200) .. exp(-3000) over the column and underflow to exactly zero aloft - legitimate for the closed form (analytic mode), which has
    no shooting growth to bound"""
    if aniso:
        # strongly anisotropic horizontal diffusivities (a factor 3 .. 30 between along-x and along-y; user-supplied profiles)
        u_, v_, Kx_, Ky_, Kz_ = c["profiles"]
        f_ = float(10.0 ** rng.uniform(0.5, 1.5))
        c["profiles"] = (u_, v_, Kx_ * f_, Ky_, Kz_) if rng.random() < 0.5 else (u_, v_, Kx_, Ky_ * f_, Kz_)
    ny_, nx_ = c["q"].shape
    h_ = float(c["z"][-1] - c["z"][0])
    d_ = float(np.pi * h_ / (10.0 ** rng.uniform(lo, hi)))
    c["domain"] = (nx_ * d_, ny_ * d_ * float(rng.uniform(0.8, 1.25)))
    c["meas_pt"] = (float(int(rng.integers(nx_)) * d_), 0.0)
    if c["halo"] is not None:
        c["halo"] = float(c["halo"] != 0.0) * 1.5 * d_
    st["branches"]["column=tall against the cell (decay beyond underflow)"] = st["branches"].get("column=tall against the cell (decay beyond underflow)", 0) + 1
    return c


def run_C10(rng, tier, deep):
    st = new_stats()
    cases = []
    for i in range(budget(tier, deep, 30, 250)):
        c = random_case(rng)
        cases.append(c)
    correspond(cases + big_cases(rng, tier, deep), st)
    for i in range(budget(tier, deep, 40, 400)):
        c = random_case(rng, small=(i % 5 != 0))
        nz = len(c["z"])
        kind = rng.choice(["asc", "desc", "shuf", "rep", "top", "scalar", "all"])
        k = int(rng.integers(1, min(nz, 5) + 1))
        if kind == "asc":
            lv = sorted(int(x) for x in rng.choice(nz, size=k, replace=False))
        elif kind == "desc":
            lv = sorted((int(x) for x in rng.choice(nz, size=k, replace=False)), reverse=True)
        elif kind == "shuf":
            lv = [int(x) for x in rng.permutation(nz)[:k]]
        elif kind == "rep":
            lv = [int(x) for x in rng.integers(0, nz, size=k)]
        elif kind == "top":
            lv = [nz - 1] + [int(x) for x in rng.integers(0, nz, size=k - 1)]
        elif kind == "scalar":
            lv = int(rng.integers(0, nz))
        else:
            lv = list(range(nz))
        c["levels"] = lv
        if c["analytic"]:
            c["profiles"] = uniform_profiles(rng, nz)
            if rng.random() < 0.35:
                make_tall(c, rng, st)
        forms = ["pyint", "npint64", "npint32", "zerod", "intp"] if kind == "scalar" else ["list", "array", "array32", "nplist", "arrayu8"]
        c["par"] = dict(form=str(rng.choice(forms)), full=bool(rng.random() < 0.3), cont=str(rng.choice(["tuple", "list", "array"])))
        st["branches"]["levels=%s" % kind] = st["branches"].get("levels=%s" % kind, 0) + 1
        run_oracle(st, o_levels, c)
    for k in range(budget(tier, deep, 4, 16)):
        c = random_case(rng)
        c["par"] = dict(variation=["levels", "source", "mode", "precision"][k % 4])
        run_oracle(st, o_result_lifetime, c)
    for k in range(budget(tier, deep, 4, 16)):
        nz = int(rng.integers(4, 8))
        kind = ["full-perm", "full-desc", "partial", "rep"][k % 4]
        if kind == "full-perm":
            lv = [int(x) for x in rng.permutation(nz + 1)]
        elif kind == "full-desc":
            lv = list(range(nz, -1, -1))
        elif kind == "partial":
            lv = [int(x) for x in rng.permutation(nz + 1)[: int(rng.integers(1, nz))]]
        else:
            lv = [int(x) for x in rng.integers(0, nz + 1, size=3)]
        run_oracle(st, o_levels_interface, dict(nz=nz, levels=lv, footprint=bool(rng.random() < 0.5)))
    if deep or tier == "thorough":
        # size thresholds: result arrays of 4-6 million complex entries (about 10 s, 0.5 GB)
        for k in range(2):
            nzb = int(rng.integers(257, 300)) if k == 0 else int(rng.integers(320, 360))
            run_oracle(st, o_levels_big, dict(seed=int(rng.integers(1 << 30)), n=128, nz=nzb, chunk=int(rng.integers(40, 64)), footprint=bool(k),
                                              order=["asc", "desc"][k], take=nzb if k == 0 else int(rng.integers(258, 300))))
    return finish(st, "LARGE requests in the thorough tier / failing-input search (257..360 levels on a 128 x 128 spectrum, each slice vs the same level from groups of <= 64); the same through run_bldfm_single with domain.output_levels (permutations of the full column, descending, partial, repeated); "
                  "level selections ascending / descending / shuffled / repeated / with top node / scalar / full column, given as list, list of numpy integers, int64 / int32 / uint8 ndarray, Python int, numpy integer "
                  "scalar or 0-d array; domain / modes / measurement point as tuple, list or ndarray; numeric and analytic, both modes and precisions; oracle: each slice vs the single-level request and the full-column request, "
                  "height label exact", deep, TOL)


# ------------------------------------------------------------ C11 shapes / registration / low-pass / clamp

@oracle
def o_shape_registration(case):
    base = base_of(case)
    q = np.asarray(base["q"], dtype=float)
    ny, nx = q.shape
    xmx, ymx = base["domain"]
    try:
        grid, conc, flx = real_solve(base)
    except Exception as e:  # noqa: BLE001
        return None   # raising is allowed; silently wrong is not
    lv = base["levels"]
    nlv = 1 if np.ndim(lv) == 0 else len(lv)
    want = (ny, nx) if nlv == 1 else (nlv, ny, nx)
    if tuple(np.shape(conc)) != want or tuple(np.shape(flx)) != want:
        return fail("C11/shape", "returned field does not have the shape of the surface-flux field", None, list(want), list(np.shape(flx)), 0)
    X, Y = np.asarray(grid[0]), np.asarray(grid[1])
    for nm, g in (("X", grid[0]), ("Y", grid[1]), ("Z", grid[2])):
        if tuple(np.shape(g)) != want:
            return fail("C11/grid-shape", "returned coordinate array %s does not have the shape of the returned fields (grid %dx%d, domain %s)" % (nm, nx, ny, (xmx, ymx)),
                        None, list(want), list(np.shape(g)), 0)
    X2 = X.reshape(nlv, ny, nx)[0]
    Y2 = Y.reshape(nlv, ny, nx)[0]
    ex = np.arange(nx) * (xmx / nx)
    ey = np.arange(ny) * (ymx / ny)
    if not (np.allclose(X2, ex[None, :], rtol=1e-12, atol=0) and np.allclose(Y2, ey[:, None], rtol=1e-12, atol=0)):
        return fail("C11/coords", "returned coordinates are not x=i*dx, y=j*dy", None, "i*dx, j*dy", "differs", 1e-12)
    # registration: against the independent closed-form synthesis (uniform profiles, analytic) when applicable
    if base["analytic"]:
        p, qq = spec_fields(base, closed_form_coef(base))
        tol = 1e-9 if base["precision"] == "double" else 3e-5
        fl = field_floor(base)
        for name, got, exp, f0 in (("conc", conc, p, fl[0]), ("flx", flx, qq, fl[1])):
            e = relerr(np.asarray(got, dtype=float).reshape(nlv, ny, nx), exp, scale=f0)
            if not e <= tol:
                return fail("C11/registration/%s" % name, "returned %s is not registered on the input grid (differs from the closed-form field at the same cells)" % name,
                            None, "equal", e, tol)
    return None


@oracle
def o_lowpass_clamp(case):
    base = dict(base_of(case), halo=0.0, precision="double")
    ny, nx = np.asarray(base["q"]).shape
    nlx, nly = base["modes"]
    try:
        a = solve3(base)
    except Exception:  # noqa: BLE001
        return None
    if nx % 2 == 0 and ny % 2 == 0:
        full = solve3(dict(base, modes=(nx, ny)))
        tol = 1e-9
        if nlx > nx or nly > ny:
            for name, k in (("conc", 0), ("flx", 1)):
                e = relerr(a[k], full[k], scale=field_floor(base)[k])
                if not e <= tol:
                    return fail("C11/clamp/%s" % name, "requesting more modes than the grid holds differs from requesting exactly as many", None, "equal", e, tol)
        else:
            for name, k in (("conc", 0), ("flx", 1)):
                e = relerr(lowpass_strict(a[k], nlx, nly), lowpass_strict(full[k], nlx, nly), scale=np.max(np.abs(full[k])))
                if not e <= tol:
                    return fail("C11/lowpass/%s" % name, "truncation changed a component strictly inside the cut-off", None, "equal", e, tol)
                # and nothing at or beyond the cut-off survives
                F = np.fft.fft2(a[k], axes=(1, 2))
                fy = np.abs(np.fft.fftfreq(ny, 1.0 / ny))
                fx = np.abs(np.fft.fftfreq(nx, 1.0 / nx))
                out = np.abs(F[:, fy > nly / 2, :]).max(initial=0.0) + np.abs(F[:, :, fx > nlx / 2]).max(initial=0.0)
                if not out <= 1e-9 * max(np.abs(F).max(), 1e-300):
                    return fail("C11/lowpass-leak/%s" % name, "components beyond the cut-off are present in the truncated result", None, 0.0, float(out), 1e-9)
    return None


def run_C11(rng, tier, deep):
    st = new_stats()
    cases = []
    sizes = list(range(2, 8))
    n = budget(tier, deep, 40, 300)
    for i in range(n):
        nx, ny = int(rng.choice(sizes)), int(rng.choice(sizes))
        c = random_case(rng)
        c["q"] = random_source(rng, ny, nx)
        c["modes"] = (int(rng.choice([2, 4, 6, 8, 10, 512])), int(rng.choice([2, 4, 6, 8, 10, 512])))
        if rng.random() < 0.08:
            c["modes"] = (c["modes"][0] + 1, c["modes"][1])   # odd: must be rejected
        dx = c["domain"][0] / nx
        c["halo"] = [0.0, None, 0.37 * c["domain"][0], float(rng.uniform(0.2, 2.7) * dx)][int(rng.integers(4))]
        if c["halo"] is None:
            c["domain"] = (c["domain"][0], c["domain"][0] * float(rng.uniform(0.7, 1.4)))
        im, jm = int(rng.integers(0, nx)), int(rng.integers(0, ny))
        c["meas_pt"] = (im * c["domain"][0] / nx, jm * c["domain"][1] / ny)
        if c["analytic"]:
            c["profiles"] = uniform_profiles(rng, len(c["z"]))
        c["_kinds"] = dict(parity="%s%s" % ("e" if nx % 2 == 0 else "o", "e" if ny % 2 == 0 else "o"))
        limit_growth(c)
        im, jm = int(rng.integers(0, nx)), int(rng.integers(0, ny))
        c["meas_pt"] = (im * c["domain"][0] / nx, jm * c["domain"][1] / ny)
        cases.append(c)
    correspond(cases + big_cases(rng, tier, deep), st)
    # oracle: exhaustive small sweep in thorough, sampled in quick
    combos = [(nx, ny, mx, my, h, fp) for nx in range(2, 8) for ny in range(2, 8) for mx in (2, 4, 6, 512) for my in (2, 4, 8, 512)
              for h in ("zero", "none", "incomm") for fp in (False, True)]
    idx = rng.permutation(len(combos))[:budget(tier, deep, 120, 1500)]
    for t in idx:
        nx, ny, mx, my, h, fp = combos[int(t)]
        c = random_case(rng, footprint=fp, analytic=True, precision="double")
        c["q"] = random_source(rng, ny, nx)
        c["profiles"] = uniform_profiles(rng, len(c["z"]))
        c["modes"] = (mx, my)
        xmx = c["domain"][0]
        c["domain"] = (xmx, xmx * float(rng.uniform(0.7, 1.4)))
        c["halo"] = {"zero": 0.0, "none": None, "incomm": 0.37 * xmx}[h]
        im, jm = int(rng.integers(0, nx)), int(rng.integers(0, ny))
        c["meas_pt"] = (im * c["domain"][0] / nx, jm * c["domain"][1] / ny) if fp else (0.0, 0.0)
        st["branches"]["parity=%s%s" % ("e" if nx % 2 == 0 else "o", "e" if ny % 2 == 0 else "o")] = \
            st["branches"].get("parity=%s%s" % ("e" if nx % 2 == 0 else "o", "e" if ny % 2 == 0 else "o"), 0) + 1
        run_oracle(st, o_shape_registration, c)
        if rng.random() < 0.4:
            c2 = dict(c, analytic=False, profiles=power_profiles(rng, len(c["z"]), c["z"]), meas_pt=(0.0, 0.0), footprint=False, halo=0.0)
            limit_growth(c2)
            run_oracle(st, o_lowpass_clamp, c2)
    # sizes x ROUND extents: every cell count 2..64 against the extents people type (30, 50, 64, 100, 150, 300, 1000, ...): the spacing xmax / n
    # is a rounded float, and anything that re-derives a count or a coordinate from it (arange, floor, ceil, int) sits on a tie for a few pairs
    EXT = [1.0, 30.0, 50.0, 60.0, 64.0, 100.0, 120.0, 128.0, 150.0, 200.0, 256.0, 300.0, 400.0, 500.0, 512.0, 600.0, 800.0, 1000.0, 1024.0]
    pairs = [(n, e) for n in range(2, 65) for e in EXT]
    sel = range(len(pairs)) if (deep or tier == "thorough") else rng.permutation(len(pairs))[:160]
    zz = zgrid(rng, 4)
    pr = uniform_profiles(rng, 4)
    for t in sel:
        n, e = pairs[int(t)]
        other = int(rng.integers(2, 6))
        xfirst = bool(rng.random() < 0.5)
        nx, ny = (n, other) if xfirst else (other, n)
        dom = (e, float(rng.choice(EXT))) if xfirst else (float(rng.choice(EXT)), e)
        c = dict(q=random_source(rng, ny, nx, "random"), z=zz, profiles=pr, domain=dom, levels=1, modes=(4, 2), meas_pt=(0.0, 0.0), bg=0.0,
                 footprint=bool(rng.random() < 0.5), analytic=True, halo=[0.0, None, 0.37 * e][int(rng.integers(3))], precision="double")
        if c["halo"] is None and max(nx, ny) > 24:
            c["halo"] = 0.0
        run_oracle(st, o_shape_registration, c)
    return finish(st, "cell counts 2..64 x round extents (30, 50, 64, 100, 150, 300, 1000 ... m) on either axis; grid sizes 2..7 in both parities x mode counts below/at/above the padded size x halo 0/None/incommensurate x both modes; "
                  "oracle: shape, coordinates, registration against an independent closed-form synthesis at the same cells, low-pass and clamp by FFT of halo=0 outputs",
                  deep, TOL)


# ------------------------------------------------------------ C01 convergence to the exact BVP solution

def profile_family(par):
    """height-dependent profile functions from a JSON-able parameter dict"""
    kind_u, kind_k = par["wind"], par["diff"]
    z0, H = par["z0"], par["H"]
    sp, wd = par["speed"], par["wdir"]
    ax, ay = par["ax"], par["ay"]
    k0 = par["k0"]
    L = par.get("L", -50.0)

    def absu(z):
        if kind_u == "log":
            return sp * np.log(z / (0.5 * z0)) / np.log(H / (0.5 * z0))
        return sp * (z / H) ** par.get("pw", 0.25)

    def K(z):
        if kind_k == "linear":
            return k0 * (0.2 + z / H)
        if kind_k == "power":
            return k0 * (z / H + 0.05) ** par.get("pk", 0.8)
        if kind_k == "surface":
            return 0.4 * k0 * z            # neutral surface layer: proportional to height, millimetres small at the roughness length
        # MOST-like: kappa u* z / phi(z/L)
        x = z / L
        phi = np.where(x > 0, 1 + 5 * x, (1 - 16 * np.minimum(x, 0.0)) ** -0.5)
        return 0.4 * k0 * z / phi + 0.02 * k0
    veer = par.get("veer", 0.0)       # the wind direction turns linearly with height by `veer` radians over the column

    def wdir(z):
        return wd + veer * (z - z0) / (H - z0)
    return (lambda z: absu(z) * np.cos(wdir(z)), lambda z: absu(z) * np.sin(wdir(z)),
            lambda z: ax * K(z), lambda z: ay * K(z), K)


def exact_transfer(fns, Lx, Ly, z0, H, zout):
    """exact (p, q) response at heights zout to unit spectral surface flux, via the Riccati form"""
    from scipy.integrate import solve_ivp
    u, v, Kx, Ky, Kz = fns

    def T(z):
        return -(Kx(z) * Lx ** 2 + Ky(z) * Ly ** 2) - 1j * (u(z) * Lx + v(z) * Ly)
    lam = np.sqrt(-T(H) / Kz(H))
    R_H = 1.0 / (Kz(H) * lam)
    sol = solve_ivp(lambda z, R: -1.0 / Kz(z) - T(z) * R * R, (H, z0), [complex(R_H)], method="DOP853",
                    rtol=1e-11, atol=1e-14, dense_output=True)
    Rf = lambda z: sol.sol(z)[0]  # noqa: E731
    sol2 = solve_ivp(lambda z, lq: T(z) * Rf(z), (z0, H), [0j], method="DOP853", rtol=1e-11, atol=1e-14, dense_output=True)
    out = []
    for zz in zout:
        qv = np.exp(sol2.sol(zz)[0])
        out.append((Rf(zz) * qv, qv))
    return out


@oracle
def o_convergence(par):
    """error vs the exact BVP solution at n, 4n, 16n layers: O(dz/z), ratio >= 2.5 per quartering"""
    fns = profile_family(par)
    z0, H = par["z0"], par["H"]
    nx, ny = par["nx"], par["ny"]
    xmx, ymx = par["domain"]
    rng = np.random.default_rng(par["qseed"])
    q = rng.normal(size=(ny, nx))
    n0 = par["n0"]
    gam = par["gamma"]
    frac = par["out_frac"]
    dx, dy = xmx / nx, ymx / ny
    fa = np.fft.fftfreq(ny, 1.0 / ny)
    fb = np.fft.fftfreq(nx, 1.0 / nx)
    Ly = 2 * np.pi * fa / (dy * ny)
    Lx = 2 * np.pi * fb / (dx * nx)
    errs = []
    resolved = None
    worst_first = 0.0
    for n in (n0, 4 * n0, 16 * n0):
        s = np.linspace(0, 1, n + 1)
        if par.get("grid") == "geom":
            z = z0 * (H / z0) ** s          # geometric grid: constant RELATIVE thickness, very thin layers next to the surface
            z[0], z[-1] = z0, H
        else:
            z = z0 + (H - z0) * s ** gam
        lout = int(round(frac * n0)) * (n // n0)
        prof = tuple(f(z) for f in fns)
        case = dict(q=q, z=z, profiles=prof, domain=(xmx, ymx), levels=[lout, n, 0], modes=(nx, ny) if (nx % 2 == 0 and ny % 2 == 0) else (512, 512), meas_pt=(0.0, 0.0),
                    bg=0.0, footprint=False, analytic=False, halo=0.0, precision="double")
        if par.get("prelude"):
            # an earlier solve on the same grid whose source has EXACT spectral zeros (a crosswind-uniform strip, a single harmonic, nothing at
            # all): whatever it leaves behind per grid must not reach the next solve
            jj, ii = np.meshgrid(np.arange(ny), np.arange(nx), indexing="ij")
            pre = dict(strip=np.tile((np.arange(nx) % 3 == 0).astype(float), (ny, 1)), zero=np.zeros((ny, nx)),
                       harmonic=np.cos(2 * np.pi * ii / nx) + 0.0 * jj)[par["prelude"]]
            try:
                solve3(dict(case, q=pre))
            except Exception:  # noqa: BLE001
                pass
        conc, flx, Z = solve3(case)
        Fq = np.fft.fft2(q)
        Wq = np.fft.fft2(flx, axes=(1, 2)) / Fq
        Wp = np.fft.fft2(conc, axes=(1, 2)) / Fq
        if resolved is None:
            dz = np.diff(z)
            resolved = np.zeros((ny, nx), dtype=bool)
            for a in range(ny):
                for b in range(nx):
                    if a == 0 and b == 0:
                        continue
                    if abs(fa[a]) * 2 >= ny or abs(fb[b]) * 2 >= nx:
                        continue   # Nyquist rows/columns of a real field are not a single complex mode
                    Tn = -(prof[2] * Lx[b] ** 2 + prof[3] * Ly[a] ** 2) - 1j * (prof[0] * Lx[b] + prof[1] * Ly[a])
                    if np.all(np.abs(Tn[:-1]) * dz ** 2 / prof[4][:-1] <= 1.0):
                        lamz = np.sqrt(-Tn / prof[4])
                        if np.sum(lamz.real[:-1] * dz) <= 18.0:
                            resolved[a, b] = True
            if par.get("sample"):
                # production-size spectra: the exact solution is integrated for a SAMPLE of the resolved components - those stored first and
                # last in either axis order (where a blocked / chunked sweep has its remainders) plus random ones
                keep = np.zeros((ny, nx), dtype=bool)
                ii = np.flatnonzero(resolved.ravel())
                jj = np.flatnonzero(resolved.T.ravel())
                for flat, shp, tr in ((ii, (ny, nx), False), (jj, (nx, ny), True)):
                    for t in list(flat[:6]) + list(flat[-6:]):
                        a_, b_ = np.unravel_index(int(t), shp)
                        keep[(b_, a_) if tr else (a_, b_)] = True
                pick = rng.permutation(ii)[: int(par["sample"])]
                keep.ravel()[pick] = True
                resolved &= keep
            if not resolved.any():
                return None
            exact = {}
            for a in range(ny):
                for b in range(nx):
                    if resolved[a, b]:
                        exact[(a, b)] = exact_transfer(fns, Lx[b], Ly[a], z0, H, [z[lout], H, z0])
            rel_dz = float(np.max(np.diff(z)[1:] / z[1:-1])) if n > 1 else 1.0
            # the lowest layer starts at the roughness length, where the similarity profiles are logarithmic: its relative thickness is
            # measured as ln(z1/z0) (= dz/z for a thin layer, and >= (z1 - z0)/z1 always).  The surface concentration carries the whole
            # resistance integral of 1/Kz, whose one-layer quadrature error on Kz ~ z grows like r/(2 ln r), r = z1/z0, while (z1 - z0)/z1
            # stays below 1 (false alarm of the thorough tier, seed 4, after the surface level had been added to the compared levels)
            rel_dz = max(rel_dz, float(np.log(z[1] / z[0])))
        e = 0.0
        for (a, b), ex in exact.items():
            for k in range(3):      # an interior level, the top node, and the surface (whose concentration carries the whole resistance)
                pe, qe = ex[k]
                e = max(e, abs(Wq[k, a, b] - qe) / max(abs(qe), 1e-300) if abs(qe) > 1e-9 else 0.0)
                e = max(e, abs(Wp[k, a, b] - pe) / max(abs(pe), 1e-300) if abs(pe) > 1e-9 * abs(ex[0][0]) else 0.0)
        errs.append(float(e))
    if par.get("_debug"):
        return dict(errs=errs, rel_dz=rel_dz, nres=int(resolved.sum()))
    if not errs[0] <= 3.0 * rel_dz:
        return fail("C01/error-size", "error on a resolving grid exceeds a small multiple (3x) of the relative layer thickness", None,
                    "<= %g" % (3 * rel_dz), errs, None)
    for i, (e0, e1) in enumerate(zip(errs, errs[1:])):
        if e0 > 1e-7 and e1 > 1e-9:
            if not e0 / e1 >= 2.5:
                # known finding F1 (known_findings.json): on a coarsest grid whose layers are thicker than 0.5 x their own
                # height (strongly stretched grids), the FIRST quartering gains only 2.0-2.5x although the grid
                # "resolves" the component in the property's sense; the next quartering gains the full ~4x
                nxt = errs[1] / errs[2] if errs[2] > 0 else float("inf")
                if i == 0 and rel_dz > 0.5 and e0 / e1 >= 2.0 and nxt >= 3.5:
                    return fail("C01/ratio/coarse-stretched-first-quartering",
                                "first quartering of a grid with relative layer thickness %.2f gains %.2fx (< 2.5); the next one %.2fx" % (rel_dz, e0 / e1, nxt),
                                None, ">= 2.5", errs, None)
                return fail("C01/ratio", "error shrinks by less than 2.5x when the layer thickness is quartered", None, ">= 2.5", errs, None)
    return None


def conv_par(rng):
    z0 = float(rng.uniform(0.02, 0.3))
    H = float(rng.uniform(4, 15))
    nx, ny = int(rng.choice([4, 6, 8, 5, 7, 9])), int(rng.choice([4, 6, 5, 7]))      # both parities (an odd size has no Nyquist component)
    xmx = float(rng.uniform(150, 600))
    return dict(wind=str(rng.choice(["log", "power"])), diff=str(rng.choice(["linear", "power", "most"])), z0=z0, H=H,
                speed=float(rng.uniform(1.5, 6)), wdir=float(rng.uniform(0, 2 * np.pi)), ax=float(rng.uniform(0.5, 2)),
                ay=float(rng.uniform(0.5, 2)), k0=float(rng.uniform(0.3, 2.0)), L=float(rng.choice([-30.0, -100.0, 80.0, 400.0])),
                pw=float(rng.uniform(0.1, 0.4)), pk=float(rng.uniform(0.5, 1.2)), nx=nx, ny=ny,
                domain=[xmx, float(xmx * rng.uniform(0.6, 1.5))], qseed=int(rng.integers(1 << 30)),
                n0=int(rng.choice([8, 12, 16])), gamma=float(rng.choice([1.0, 1.5, 2.0])), out_frac=float(rng.choice([0.25, 0.5, 0.75])),
                veer=float(rng.choice([0.0, 1.0]) * rng.uniform(-1.0, 1.0)),
                prelude=[None, None, "strip", "zero", "harmonic"][int(rng.integers(5))])


def conv_par_geom(rng, n0):
    """a geometric grid from a millimetre-scale roughness length: the layers next to the surface are thinner than 1e-6 of the
    column at the finer resolutions although each carries its share of the vertical resistance"""
    par = conv_par(rng)
    par.update(grid="geom", z0=float(rng.choice([1e-3, 2e-3, 5e-3, 2e-4, 5e-5])), H=float(rng.uniform(10, 25)), n0=int(n0), gamma=1.0,
               diff=str(rng.choice(["surface", "surface", "most"])), veer=0.0)
    return par


def _load_corpus(name):
    import json
    import os
    p = os.path.join(os.path.dirname(os.path.abspath(__file__)), "..", "..", "corpus", name)
    try:
        return json.load(open(p))
    except OSError:
        return []


C01_CORPUS = _load_corpus("C01.json")      # minimised past failures: run first, every time


def run_C01(rng, tier, deep):
    st = new_stats()
    cases = []
    for i in range(budget(tier, deep, 24, 200)):
        c = random_case(rng, analytic=False, small=(i % 4 != 0))
        c["profiles"] = power_profiles(rng, len(c["z"]), c["z"])
        limit_growth(c)
        cases.append(c)
    correspond(cases + big_cases(rng, tier, deep), st)
    for par in C01_CORPUS:
        run_oracle(st, o_convergence, dict(par))
    for _ in range(budget(tier, deep, 6, 60)):
        run_oracle(st, o_convergence, conv_par(rng))
    for k in range(budget(tier, deep, 1, 6)):
        par = conv_par_geom(rng, 32 if not deep and tier == "quick" else [64, 128][k % 2])
        if deep or tier == "thorough":
            par["z0"] = [2e-4, 1e-3, 5e-5, 5e-3, 2e-3, 2e-4][k % 6]        # every decade of roughness length, the smooth ones first
        run_oracle(st, o_convergence, par)
    if deep or tier == "thorough":
        # size thresholds: one production-size spectrum (9 000 - 17 000 components), exact solution for a sample of ~50 of them
        par = conv_par(rng)
        nxb, nyb = [(96, 96), (132, 128), (100, 90), (110, 84)][int(rng.integers(4))]
        par.update(nx=nxb, ny=nyb, domain=[nxb * 40.0, nyb * 40.0 * float(rng.uniform(0.8, 1.2))], n0=8, sample=30, prelude=None, gamma=float(rng.choice([1.0, 1.5])))
        run_oracle(st, o_convergence, par)
    return finish(st, "correspondence on height-dependent profiles; thorough tier / failing-input search: one 9 000 - 17 000 component spectrum with the exact solution for a sample of components (first / last stored + random); oracle: per-mode transfer functions fft2(out)/fft2(src) at n, 4n, 16n layers "
                  "against an independent Riccati integration of the exact BVP (scipy DOP853, rtol 1e-11) for log/power wind x linear/power/MOST "
                  "diffusivity x anisotropy x wind angle x wind veering with height x uniform/stretched/geometric (mm-scale z0, up to 2048 layers in the deep search) grids, resolved components only", deep, TOL)
