from props.solverfam import run_C03 as run, replay  # noqa: F401
