"""Verdict rule of DESIGN.md §2.5 + evidence and replay writers."""
import json
import os
import time

VERIF = os.path.dirname(os.path.dirname(os.path.abspath(__file__)))


def load_known():
    p = os.path.join(VERIF, "known_findings.json")
    if not os.path.exists(p):
        return []
    return json.load(open(p))


def decide(pid, spec, tier, seed, obligations, broken, res, wall, log):
    from registry import TRUSTED_BASE
    known = [k for k in load_known() if k.get("property") == pid and k.get("status") == "open"]
    known_keys = {k["key"]: k for k in known}
    failures = res.get("oracle_failures", [])        # each: {key, what, input, expected, observed}
    disagreements = res.get("disagreements", [])     # correspondence: {op, what, gap}
    new_fail = [f for f in failures if f.get("key") not in known_keys]
    old_fail = [f for f in failures if f.get("key") in known_keys]
    seen = set()
    for f in old_fail:
        if f["key"] not in seen:
            seen.add(f["key"])
            print("KNOWN-FINDING: property=%s %s" % (pid, known_keys[f["key"]].get("what", f["key"])))
    for b in disagreements:
        if b.get("what"):
            broken.append("correspondence:%s" % b["what"][:160])
    violation = bool(new_fail) or bool(broken)
    replay_path = None
    if violation:
        os.makedirs(os.path.join(VERIF, "replays"), exist_ok=True)
        replay_path = os.path.join("replays", "%s-%d-%d.json" % (pid, seed, int(time.time())))
        if new_fail:
            f = new_fail[0]
            rep = dict(property=pid, kind="failing-input", broken=broken, key=f.get("key"), what=f.get("what"),
                       input=f.get("input"), expected=f.get("expected"), observed=f.get("observed"),
                       tolerance=f.get("tolerance"), command="./check %s --replay %s" % (pid, replay_path))
        else:
            rep = dict(property=pid, kind="no-failing-input-found", broken=broken,
                       disagreements=disagreements[:3],
                       note="a proof obligation, translated kernel or correspondence case no longer checks; "
                            "the failing-input search on the real code (deep budget) found no input violating the property",
                       command="./check %s --replay %s" % (pid, replay_path))
        json.dump(rep, open(os.path.join(VERIF, replay_path), "w"), indent=1, default=str)
    n_ob = len(obligations)
    n_ok = sum(1 for ob in obligations if ob["ok"])
    cov = dict(
        obligations=n_ob, discharged=n_ok,
        checker_cmd="python3 tools/extract.py && cd lean && lake build %s && lake env lean <#print axioms of each theorem>" % " ".join(
            dict.fromkeys(m for (_, m, _) in spec["theorems"])),
        trusted_base=TRUSTED_BASE + spec.get("trusted_extra", []),
        theorems=[dict(name=ob["name"], kind=ob["kind"], module=ob["module"], ok=ob["ok"], axioms=ob["axioms"], why=ob["why"])
                  for ob in obligations],
        evaluations=int(res.get("evaluations", 0)),
        distinct_nontrivial=int(res.get("distinct_nontrivial", 0)),
        rule=res.get("rule", ""),
        samples=res.get("samples", [])[:6] or ["(none)"],
        traces_validated_against_impl=int(res.get("corr_cases", 0)),
        correspondence=dict(cases=int(res.get("corr_cases", 0)), disagreements=len(disagreements),
                            worst_gap=res.get("worst_gap"), tolerance=res.get("tolerance")),
        oracle=dict(evaluations=int(res.get("oracle_evaluations", 0)), failures=len(failures),
                    known=len(old_fail), deep=bool(res.get("deep"))),
        branches=res.get("branches", {}),
        partial_clauses=spec.get("partial_clauses", []),
        exhaustive=bool(res.get("exhaustive", False)),
        broken=broken,
        log=log[-12:],
    )
    ev = dict(property_id=pid, tier=tier, seed=seed, level="proof", coverage=cov,
              assumptions=spec.get("assumptions", []), wall_s=round(wall, 2),
              violations=len(new_fail) + (1 if (broken and not new_fail) else 0))
    # VERIF_EVIDENCE_DIR (developer aid): tools/mutcheck.sh / reseed.sh run the checks against a tree with a seeded change applied
    # and must not overwrite the evidence of the unchanged tree; the registered commands never set it
    evdir = os.environ.get("VERIF_EVIDENCE_DIR") or os.path.join(VERIF, "evidence")
    os.makedirs(evdir, exist_ok=True)
    json.dump(ev, open(os.path.join(evdir, pid + ".json"), "w"), indent=1, default=str)
    if violation:
        tail = "" if new_fail else " no-failing-input-found"
        if broken:
            print("broken: %s" % "; ".join(broken)[:600])
        print("VIOLATION property=%s replay=%s%s" % (pid, replay_path, tail))
        return 1
    print("OK property=%s obligations=%d/%d corr=%d oracle=%d wall=%.1fs" % (
        pid, n_ok, n_ob, cov["traces_validated_against_impl"], cov["oracle"]["evaluations"], wall))
    return 0
