#!/bin/bash
# usage: tools/mutcheck.sh <mutant-id> <property> [more properties to run]
# Confirms a seeded change produced in /tmp/mut/<mutant-id> (suite passes with it, demo FAILs with it and PASSes
# without it), stores it under seeded/<mutant-id>/, then applies it to /repo, runs the checks and reverts.
set -u
id=$1; shift
props="$@"
wt=/tmp/mut/$id; sc=/tmp/mut/$id-scratch
cd /verif
export VERIF_EVIDENCE_DIR=/verif/work/evidence-seeded
mkdir -p seeded/$id
git -C $wt diff > seeded/$id/patch.diff
cp $sc/out/demo.py seeded/$id/demo.py 2>/dev/null
cp $sc/out/meta.json seeded/$id/agent_meta.json 2>/dev/null
cd $sc
PYTHONPATH=$wt/src NUMBA_CACHE_DIR=$sc/nb /venv/bin/python out/demo.py > $sc/demo_changed.log 2>&1; rc_changed=$?
PYTHONPATH=/repo/src NUMBA_CACHE_DIR=$sc/nb0 /venv/bin/python out/demo.py > $sc/demo_orig.log 2>&1; rc_orig=$?
PYTHONPATH=$wt/src NUMBA_CACHE_DIR=$sc/nb /venv/bin/python -m pytest $wt/tests -q -p no:cacheprovider -n 6 --timeout=900 > $sc/suite.log 2>&1
suite=$(grep -E "passed|failed" $sc/suite.log | tail -1)
echo "[$id] demo changed rc=$rc_changed ($(grep -m1 -E 'FAIL|PASS' $sc/demo_changed.log | cut -c1-80)) | demo original rc=$rc_orig ($(grep -m1 -E 'FAIL|PASS' $sc/demo_orig.log | cut -c1-40)) | suite: $suite"
cd /verif
if ! git -C /repo diff --quiet; then echo "/repo is dirty, refusing"; exit 2; fi
git -C /repo apply /verif/seeded/$id/patch.diff || { echo "patch does not apply"; exit 2; }
results=""
for p in $props; do
  out=$(./check $p 2>&1 | grep -v '^KNOWN-FINDING' | tail -3 | tr '\n' ' ' | cut -c1-900)
  results="$results\n  $p: $out"
done
git -C /repo checkout -- .
echo -e "[$id] checks with the change applied:$results"
python3 - "$id" "$rc_changed" "$rc_orig" "$suite" "$props" <<'PY'
import json, sys, os, glob
id_, rcc, rco, suite, props = sys.argv[1:6]
d = "/verif/seeded/%s" % id_
am = {}
try:
    am = json.load(open(os.path.join(d, "agent_meta.json")))
except Exception:
    pass
meta = dict(id=id_, property=am.get("property", id_[:3]), summary=am.get("summary"), needs=am.get("needs"),
            confirmed=dict(demo_on_changed_rc=int(rcc), demo_on_original_rc=int(rco), suite_with_change=suite),
            ran="tools/mutcheck.sh %s %s (git -C /repo apply patch.diff; ./check <prop>; git -C /repo checkout -- .)" % (id_, props))
json.dump(meta, open(os.path.join(d, "meta.json"), "w"), indent=1)
PY
