"""Shared helpers for the correspondence harnesses and property oracles.

Runs under /venv/bin/python (the interpreter that has /repo/src installed in
editable mode, i.e. it imports the CURRENT working tree of /repo).
The process must never run with cwd inside /repo (FFT wisdom, .bldfm_cache and
logs/ are written to the cwd).
"""
import os
import struct
import subprocess
import sys
import logging

VERIF = os.path.dirname(os.path.dirname(os.path.dirname(os.path.abspath(__file__))))
LEAN_DIR = os.path.join(VERIF, "lean")
DRIVER = os.environ.get("BLDFM_DRIVER") or os.path.join(LEAN_DIR, ".lake", "build", "bin", "driver")   # override: tools/modelmut.py only

os.environ.setdefault("BLDFM_VERIF", "1")

import numpy as np  # noqa: E402

logging.disable(logging.CRITICAL)


def fhex(x):
    return struct.pack(">d", float(x)).hex()


def unhex(s):
    return struct.unpack(">d", bytes.fromhex(s))[0]


def arr_hex(a):
    return " ".join(fhex(x) for x in np.asarray(a, dtype=float).ravel())


def run_driver(lines, timeout=3600):
    """Pipe request lines to the compiled Lean driver; return the answer lines."""
    inp = "\n".join(lines) + "\n"
    r = subprocess.run([DRIVER], input=inp, capture_output=True, text=True, timeout=timeout)
    if r.returncode != 0:
        raise RuntimeError("driver failed: rc=%d %s" % (r.returncode, r.stderr[:2000]))
    out = r.stdout.split("\n")
    if out and out[-1] == "":
        out.pop()
    if len(out) != len(lines):
        raise RuntimeError("driver answered %d lines for %d requests" % (len(out), len(lines)))
    return out


def err_kind(e):
    if isinstance(e, ValueError):
        return "ValueError"
    if isinstance(e, IndexError):
        return "IndexError"
    return "Other"


# ---------------------------------------------------------------- solver ops

def solve_op(case):
    """Encode a solver request (dict) as one protocol line."""
    q = np.asarray(case["q"], dtype=float)
    ny, nx = q.shape
    z = np.asarray(case["z"], dtype=float)
    nz = len(z)
    u, v, Kx, Ky, Kz = [np.asarray(p, dtype=float) for p in case["profiles"]]
    xmx, ymx = case["domain"]
    levels = case["levels"]
    lv = [int(levels)] if np.ndim(levels) == 0 else [int(l) for l in levels]
    nlx, nly = case["modes"]
    xm, ym = case["meas_pt"]
    halo = case.get("halo")
    parts = ["solve", "1" if case["footprint"] else "0", "1" if case["analytic"] else "0",
             str(case["precision"]), str(nx), str(ny), str(nz), fhex(xmx), fhex(ymx),
             "none" if halo is None else fhex(halo), str(int(nlx)), str(int(nly)),
             fhex(xm), fhex(ym), fhex(case.get("bg", 0.0)), str(len(lv))]
    parts += [str(l) for l in lv]
    for a in (z, u, v, Kx, Ky, Kz):
        parts.append(arr_hex(a))
    parts.append(arr_hex(q))
    return " ".join(parts)


_WORK = {}


def _work(name, a):
    """the harness behaves like a caller that keeps ONE work array per argument and shape and re-fills it in place between
    solves (a time series of surface fluxes, a resolution study): every real solve of this process receives the same array
    OBJECTS again and again with new VALUES - a solve must depend on the values only"""
    a = np.asarray(a, dtype=float)
    buf = _WORK.get((name, a.shape))
    if buf is None:
        buf = _WORK[(name, a.shape)] = np.empty(a.shape, dtype=float)
    buf[...] = a
    return buf


def _seq(case, tup, ints=False, keep_tuple=False):
    """the pair arguments (domain, modes, measurement point; the profile 5-tuple) in the container the caller holds them in: a tuple
    (default), a list, a numpy array - `case["_cont"]` selects"""
    cont = case.get("_cont") or case.get("cont")
    whole = False
    if case.get("ints") and not keep_tuple and not ints and all(float(v).is_integer() and abs(v) < 2 ** 31 for v in tup):
        # whole-number coordinates / extents written without a decimal point (a YAML `meas_pt: [45, 21]`, grid indices times an
        # integer spacing): Python ints or numpy integers - the same NUMBERS
        whole = True
        tup = tuple((int(v) if case["ints"] == "py" else np.int64(v)) for v in tup)
    if cont == "list":
        return list(tup)
    if cont == "array" and not keep_tuple:
        return np.array(tup, dtype=int if (ints or whole) else float)
    return tup


def real_solve(case, cache=None):
    """Call the real solver with the request."""
    from bldfm.solver import steady_state_transport_solver
    args = dict(q=_work("q", case["q"]), z=_work("z", case["z"]),
                prof=_seq(case, tuple(_work("prof%d" % k, p) for k, p in enumerate(case["profiles"])), keep_tuple=True),
                domain=_seq(case, tuple(case["domain"])), levels=case["levels"], modes=_seq(case, tuple(case["modes"]), ints=True),
                meas_pt=_seq(case, tuple(case["meas_pt"])))
    # every array handed over is compared with a snapshot afterwards: the caller's arrays (source, grid, profiles, measurement point, level
    # selection ...) are the caller's - a solve that writes into them changes what the NEXT call with the same objects computes
    snap = {k: ([np.array(x, copy=True) for x in v] if k == "prof" else np.array(v, copy=True)) for k, v in args.items()
            if isinstance(v, np.ndarray) or k == "prof"}
    out = steady_state_transport_solver(
        args["q"], args["z"], args["prof"], args["domain"], args["levels"], modes=args["modes"],
        meas_pt=args["meas_pt"], srf_bg_conc=case.get("bg", 0.0),
        footprint=case["footprint"], analytic=case["analytic"], halo=case.get("halo"),
        precision=case["precision"], cache=cache)
    for k, v in snap.items():
        now = args[k]
        same_ = all(np.array_equal(a_, b_) for a_, b_ in zip(now, v)) if k == "prof" else np.array_equal(now, v)
        if not same_:
            raise AssertionError("the solver modified its argument `%s` in place (before %r, after %r)" % (k, np.ravel(v if k != "prof" else v[0])[:4].tolist(), np.ravel(now if k != "prof" else now[0])[:4].tolist()))
    return out


def real_solve_canon(case):
    """Real solver -> canonical ('ok', nlv, ny, nx, Z, X, Y, conc, flx) or ('err', kind)."""
    try:
        grid, conc, flx = real_solve(case)
    except Exception as e:  # noqa: BLE001
        return ("err", err_kind(e), repr(e)[:200])
    try:
        return _canon(case, grid, conc, flx)
    except Exception as e:  # noqa: BLE001
        # whatever was returned cannot be brought into the canonical form (wrong container, wrong element type, ragged): a disagreement on
        # THIS input, not a tooling failure
        return ("shape", "uncanonicalisable result: %r" % (e,), None)


def _canon(case, grid, conc, flx):
    q = np.asarray(case["q"])
    ny, nx = q.shape
    levels = case["levels"]
    nlv = 1 if np.ndim(levels) == 0 else len(levels)
    X, Y, Z = grid
    conc = np.asarray(conc, dtype=float)
    flx = np.asarray(flx, dtype=float)
    shape_ok = conc.shape in ((nlv, ny, nx), (ny, nx)) and (nlv == 1 or conc.ndim == 3)
    if not shape_ok or conc.size != nlv * ny * nx:
        return ("shape", conc.shape, flx.shape)
    if not all(np.asarray(g).size == nlv * ny * nx for g in (X, Y, Z)) or flx.size != nlv * ny * nx:
        # coordinate arrays whose shape differs from the fields' ("shape" is compared against the model's answer and never agrees)
        return ("shape", conc.shape, flx.shape, tuple(np.shape(X)), tuple(np.shape(Y)), tuple(np.shape(Z)))
    conc = conc.reshape(nlv, ny, nx)
    flx = flx.reshape(nlv, ny, nx)
    Z3 = np.asarray(Z, dtype=float).reshape(nlv, ny, nx)
    X3 = np.asarray(X, dtype=float).reshape(nlv, ny, nx)
    Y3 = np.asarray(Y, dtype=float).reshape(nlv, ny, nx)
    return ("ok", nlv, ny, nx, Z3[:, 0, 0].copy(), X3[0, 0, :].copy(), Y3[0, :, 0].copy(), conc, flx)


def parse_solve_answer(line):
    t = line.split()
    if t[0] == "err":
        return ("err", t[1])
    if t[0] != "ok":
        return ("bad", line[:80])
    nlv, ny, nx = int(t[1]), int(t[2]), int(t[3])
    vals = np.array([unhex(s) for s in t[4:]])
    o = 0
    Z = vals[o:o + nlv]; o += nlv
    X = vals[o:o + nx]; o += nx
    Y = vals[o:o + ny]; o += ny
    n = nlv * ny * nx
    conc = vals[o:o + n].reshape(nlv, ny, nx); o += n
    flx = vals[o:o + n].reshape(nlv, ny, nx); o += n
    assert o == len(vals)
    return ("ok", nlv, ny, nx, Z, X, Y, conc, flx)


def rel_gap(a, b):
    a = np.asarray(a, dtype=float)
    b = np.asarray(b, dtype=float)
    if a.shape != b.shape:
        return float("inf")
    if not (np.all(np.isfinite(a)) and np.all(np.isfinite(b))):
        return 0.0 if np.array_equal(np.isnan(a), np.isnan(b)) and np.allclose(
            np.nan_to_num(a), np.nan_to_num(b), rtol=1e-9, atol=0) else float("inf")
    scale = max(1.0, float(np.max(np.abs(a))) if a.size else 1.0)
    return float(np.max(np.abs(a - b))) / scale if a.size else 0.0


def field_floor(case):
    """absolute floors (conc, flx) below which a returned field is rounding noise: 1e-4 of the natural
    magnitude of the response (source magnitude, or the unit-impulse weight in footprint mode)"""
    q = np.asarray(case["q"], dtype=float)
    ny, nx = q.shape
    if case["footprint"]:
        px = py = 0
        try:
            xmx, ymx = case["domain"]
            halo = case.get("halo")
            halo = max(xmx, ymx) if halo is None else halo
            px, py = int(halo / (xmx / nx)), int(halo / (ymx / ny))
        except Exception:  # noqa: BLE001
            pass
        fs = 1.0 / ((nx + 2 * px) * (ny + 2 * py))
    else:
        fs = float(np.max(np.abs(q))) if q.size else 1.0
    z = np.asarray(case["z"], dtype=float)
    Kz = np.asarray(case["profiles"][4], dtype=float)
    R = float((z[-1] - z[0]) / max(np.min(np.abs(Kz)), 1e-300)) if len(z) > 1 else 1.0
    cs = max(fs * max(R, 1e-3), abs(case.get("bg", 0.0)))
    return 1e-4 * cs, 1e-4 * fs


def compare_solve(impl, model, tol, floors=(1e-300, 1e-300)):
    """Return (agree: bool, gap: float, what: str)."""
    if impl[0] == "err":
        if model[0] == "err" and model[1] == impl[1]:
            return True, 0.0, "err"
        return False, float("inf"), "impl raised %s, model %s" % (impl[1], model[:2])
    if impl[0] == "shape":
        return False, float("inf"), "impl returned shape %s" % (impl[1],)
    if model[0] != "ok":
        return False, float("inf"), "model %s, impl ok" % (model[:2],)
    if impl[1:4] != model[1:4]:
        return False, float("inf"), "shape %s vs %s" % (impl[1:4], model[1:4])
    worst = 0.0
    what = ""
    for name, k, t in (("Z", 4, 1e-12), ("X", 5, 1e-12), ("Y", 6, 1e-12), ("conc", 7, tol), ("flx", 8, tol)):
        g = rel_gap(impl[k], model[k])
        # relative to the field's own max for conc/flx
        if name in ("conc", "flx"):
            sc = max(float(np.max(np.abs(impl[k]))), floors[0 if name == "conc" else 1])
            g = float(np.max(np.abs(impl[k] - model[k]))) / max(sc, 1e-300) if np.all(np.isfinite(impl[k])) and np.all(np.isfinite(model[k])) else float("inf")
        if g > t:
            return False, g, "%s differs: gap %.3e > %.1e" % (name, g, t)
        if name in ("conc", "flx"):
            worst = max(worst, g)
    return True, worst, what


# ------------------------------------------------------------ generators

def power_profiles(rng, nz, z, kind=None):
    """Smooth positive height-dependent profiles on nodes z."""
    z = np.asarray(z, dtype=float)
    wd = rng.uniform(0, 2 * np.pi)
    sp = rng.uniform(1.0, 6.0)
    pw = rng.uniform(0.1, 0.4)
    zr = z / z[-1]
    absu = sp * (0.2 + zr) ** pw
    if rng.random() < 0.5:
        # the wind turns with height (Ekman-like veering): u(z) and v(z) are not proportional.  No closure of pbl_model
        # produces this, user-supplied profiles do; the solver's horizontal operator takes u_i and v_i separately
        wd = wd + rng.uniform(-1.2, 1.2) * zr
    u = absu * np.cos(wd)
    v = absu * np.sin(wd)
    kk = rng.uniform(0.2, 2.0)
    K = kk * (0.1 + zr) ** rng.uniform(0.5, 1.2)
    ax, ay = rng.uniform(0.5, 2.0, size=2)
    Kx, Ky = ax * K, ay * K
    if rng.random() < 0.5:
        # the anisotropy ratio Kx/Ky itself depends on height (user-supplied profiles; no closure produces this)
        Kx = Kx * (0.3 + zr) ** rng.uniform(-0.6, 0.6)
        Ky = Ky * (0.3 + zr) ** rng.uniform(-0.6, 0.6)
    return (u, v, Kx, Ky, K.copy())


def uniform_profiles(rng, nz):
    wd = rng.uniform(0, 2 * np.pi)
    sp = rng.uniform(1.0, 6.0)
    u = sp * np.cos(wd) * np.ones(nz)
    v = sp * np.sin(wd) * np.ones(nz)
    Kx, Ky, Kz = rng.uniform(0.3, 3.0, size=3)
    return (u, v, Kx * np.ones(nz), Ky * np.ones(nz), Kz * np.ones(nz))


def zgrid(rng, nz, stretched=None):
    z0 = rng.uniform(0.01, 0.5)
    zm = rng.uniform(3.0, 12.0)
    if stretched is None:
        stretched = rng.random() < 0.5
    if stretched:
        s = np.linspace(0, 1, nz) ** rng.uniform(1.2, 2.0)
    else:
        s = np.linspace(0, 1, nz)
    return z0 + (zm - z0) * s


def random_source(rng, ny, nx, kind=None):
    """a surface-flux field; a quarter of them at a magnitude far from one (the model is exactly linear, so
    nothing in the response may depend on the absolute size of the source: trace-gas fluxes are ~1e-8)"""
    q = _random_source(rng, ny, nx, kind)
    if rng.random() < 0.25:
        q = q * float(10.0 ** rng.uniform(-17, 6))
    return q


def _random_source(rng, ny, nx, kind=None):
    kind = kind or rng.choice(["random", "sparse", "smooth", "signed", "dipole", "zero", "single"], p=[0.25, 0.2, 0.2, 0.15, 0.1, 0.05, 0.05])
    if kind == "zero":
        return np.zeros((ny, nx))
    if kind == "single":
        # a point source: exactly one emitting cell
        q = np.zeros((ny, nx))
        q[int(rng.integers(ny)), int(rng.integers(nx))] = float(rng.uniform(0.5, 2.0))
        return q
    if kind == "dipole":
        # exactly zero net emission
        q = np.zeros((ny, nx))
        a = (int(rng.integers(ny)), int(rng.integers(nx)))
        b = a
        while b == a:
            b = (int(rng.integers(ny)), int(rng.integers(nx)))
        v = float(rng.uniform(0.5, 2.0))
        q[a], q[b] = v, -v
        return q
    if kind == "random":
        return rng.uniform(0, 1, size=(ny, nx))
    if kind == "signed":
        return rng.normal(size=(ny, nx))
    if kind == "sparse":
        q = np.zeros((ny, nx))
        for _ in range(max(1, (nx * ny) // 8)):
            q[rng.integers(ny), rng.integers(nx)] = rng.uniform(0.5, 2.0)
        return q
    yy, xx = np.meshgrid(np.arange(ny), np.arange(nx), indexing="ij")
    return np.exp(-((xx - nx / 2.3) ** 2 + (yy - ny / 1.7) ** 2) / (0.1 * nx * ny + 1))


def random_case(rng, small=True, **over):
    """A structured, mostly-valid solver request."""
    nx = int(rng.integers(2, 9 if small else 13))
    ny = int(rng.integers(2, 9 if small else 13))
    nz = int(rng.integers(3, 10 if small else 33))
    xmx = float(rng.uniform(20, 200))
    ymx = float(rng.uniform(20, 200))
    z = zgrid(rng, nz)
    analytic = bool(rng.random() < 0.25)
    prof = uniform_profiles(rng, nz) if (analytic or rng.random() < 0.15) else power_profiles(rng, nz, z)
    dx, dy = xmx / nx, ymx / ny
    hk = rng.choice(["none", "zero", "comm", "incomm"], p=[0.15, 0.25, 0.25, 0.35])
    if hk == "none":
        halo = None
        # keep the default halo (max(xmax, ymax)) from blowing up the padded grid
        ymx = float(xmx * rng.uniform(0.6, 1.6))
        dy = ymx / ny
    elif hk == "zero":
        halo = 0.0
    elif hk == "comm":
        halo = float(rng.integers(1, 4) * dx)
    else:
        halo = float(rng.uniform(0.3, 3.7) * min(dx, dy))
    modes_choices = [2, 4, 6, 8, 10, 512]
    nlx = int(rng.choice(modes_choices))
    nly = int(rng.choice(modes_choices))
    footprint = bool(rng.random() < 0.5)
    nlv = int(rng.integers(1, 4))
    lk = rng.choice(["scalar", "asc", "shuf", "rep", "top"])
    if lk == "scalar":
        levels = int(rng.integers(0, nz))
    elif lk == "asc":
        levels = sorted(int(l) for l in rng.choice(nz, size=min(nlv, nz), replace=False))
    elif lk == "shuf":
        levels = [int(l) for l in rng.choice(nz, size=min(nlv, nz), replace=False)]
    elif lk == "rep":
        levels = [int(l) for l in rng.integers(0, nz, size=nlv)]
    else:
        levels = [int(nz - 1)] + [int(l) for l in rng.integers(0, nz, size=nlv - 1)]
    mk = rng.choice(["origin", "grid", "offgrid"], p=[0.2, 0.6, 0.2])
    if mk == "origin":
        xm, ym = 0.0, 0.0
    elif mk == "grid":
        xm, ym = float(rng.integers(0, nx) * dx), float(rng.integers(0, ny) * dy)
    else:
        xm, ym = float(rng.uniform(0, xmx)), float(rng.uniform(0, ymx))
    case = dict(q=random_source(rng, ny, nx), z=z, profiles=prof, domain=(xmx, ymx), levels=levels,
                modes=(nlx, nly), meas_pt=(xm, ym), bg=float(rng.choice([0.0, rng.normal(), rng.normal() * 10.0 ** rng.uniform(-12, 0)])),
                footprint=footprint, analytic=analytic, halo=halo,
                precision=str(rng.choice(["double", "double", "single"])))
    wk = "oblique"
    if "profiles" not in over:
        x_ = rng.random()
        if x_ < 0.15:
            # exact zeros among the wind components: a wind exactly along one grid axis, or no wind at all (pure diffusion)
            u_, v_, Kx_, Ky_, Kz_ = case["profiles"]
            wk = "along x (v = 0)" if x_ < 0.06 else "along y (u = 0)" if x_ < 0.12 else "calm (u = v = 0)"
            if wk.startswith("along x"):
                case["profiles"] = (np.hypot(u_, v_), np.zeros_like(v_), Kx_, Ky_, Kz_)
            elif wk.startswith("along y"):
                case["profiles"] = (np.zeros_like(u_), -np.hypot(u_, v_), Kx_, Ky_, Kz_)
            else:
                case["profiles"] = (np.zeros_like(u_), np.zeros_like(v_), Kx_, Ky_, Kz_)
    case.update(over)
    limit_growth(case)
    case["_kinds"] = dict(halo=hk, levels=lk, meas=mk, prof="uniform" if prof[0][0] == prof[0][-1] else "varying", wind=wk)
    if rng.random() < 0.3:
        # the pair arguments (domain, mode counts, measurement point) in the container the caller happens to hold them in
        case["cont"] = str(rng.choice(["array", "array", "list"]))
        case["_kinds"]["containers"] = case["cont"]
    if rng.random() < 0.12 and "meas_pt" not in over:
        # whole-metre measurement point handed over as integers (the extents usually are not whole: xmax / 2, the padding, dx stay fractional)
        case["ints"] = str(rng.choice(["py", "np"]))
        case["meas_pt"] = (float(int(case["meas_pt"][0])), float(int(case["meas_pt"][1])))
        case["_kinds"]["meas"] = "whole metres, integer-typed"
    return case


def big_cases(rng, tier, deep, k=3):
    """requests of PRODUCTION size for the correspondence run (thorough tier and failing-input search only): 70..140 cells per axis, not
    powers of two, one axis possibly odd, 5 000 - 20 000 retained modes, optionally a halo - the sizes at which blocked / chunked /
    threaded code paths and size thresholds become active.  The Lean Float model runs them in 1-3 s each."""
    if not (deep or tier == "thorough"):
        return []
    out = []
    for i in range(k):
        c = random_case(rng, small=True)
        nx, ny = int(rng.integers(70, 141)), int(rng.integers(70, 141))
        if i == 0:
            nx, ny = int(rng.choice([96, 132, 100])), int(rng.choice([96, 128, 90]))
        nz = int(rng.integers(6, 15))
        z = zgrid(rng, nz)
        d = float(rng.uniform(3.0, 8.0))
        xmx, ymx = nx * d, ny * d * float(rng.uniform(0.8, 1.25))
        analytic = bool(rng.random() < 0.25)
        halo = float(rng.choice([0.0, 0.0, 2 * d, 3.3 * d]))
        c.update(q=random_source(rng, ny, nx), z=z, profiles=uniform_profiles(rng, nz) if analytic else power_profiles(rng, nz, z),
                 domain=(xmx, ymx), modes=[(nx, ny), (512, 512), (nx - 7, ny - 4)][int(rng.integers(3))], halo=halo, analytic=analytic,
                 precision="double", meas_pt=(float(int(rng.integers(nx)) * d), float(int(rng.integers(ny)) * (ymx / ny))),
                 levels=sorted({int(v) for v in rng.integers(0, nz, size=2)}))
        limit_growth(c)
        c["_kinds"] = dict(size="production (%d..%d thousand retained modes)" % (5, 20))
        out.append(c)
    return out


def shooting_growth(case):
    """max over retained modes of sum_i Re(lambda_i) dz_i: log of the amplification of rounding
    errors by the two auxiliary sweeps (the quantity the property statements bound by 18)"""
    q = np.asarray(case["q"])
    ny, nx = q.shape
    xmx, ymx = case["domain"]
    dx, dy = xmx / nx, ymx / ny
    halo = case.get("halo")
    if halo is None:
        halo = max(xmx, ymx)
    Nx, Ny = nx + 2 * int(halo / dx), ny + 2 * int(halo / dy)
    nlx, nly = case["modes"]
    if nlx > Nx or nly > Ny:
        nlx, nly = Nx, Ny
    Lx = 2 * np.pi * (nlx // 2) / (dx * Nx)
    Ly = 2 * np.pi * (nly // 2) / (dy * Ny)
    u, v, Kx, Ky, Kz = [np.asarray(p, dtype=float) for p in case["profiles"]]
    z = np.asarray(case["z"], dtype=float)
    w = (Kx * Lx ** 2 + Ky * Ly ** 2) / Kz + 1j * (np.abs(u) * Lx + np.abs(v) * Ly) / Kz
    lam = np.sqrt(w)
    return float(np.sum(lam.real[:-1] * np.diff(z)))


def limit_growth(case, bound=9.0):
    """enlarge the horizontal extent until rounding amplification exp(growth) stays small
    (keeps the model-vs-implementation gap far below the correspondence tolerance)"""
    for _ in range(40):
        if shooting_growth(case) <= bound:
            return case
        f = 1.3
        case["domain"] = (case["domain"][0] * f, case["domain"][1] * f)
        case["meas_pt"] = (case["meas_pt"][0] * f, case["meas_pt"][1] * f)
        if case.get("halo") is not None:
            case["halo"] = case["halo"] * f
    return case


def case_to_json(case):
    out = {}
    for k, v in case.items():
        if k == "profiles":
            out[k] = [np.asarray(p).tolist() for p in v]
        elif isinstance(v, np.ndarray):
            out[k] = v.tolist()
        elif isinstance(v, (np.floating, np.integer, np.bool_)):
            out[k] = v.item()
        elif isinstance(v, tuple):
            out[k] = [float(x) if not isinstance(x, (int, np.integer)) else int(x) for x in v]
        else:
            out[k] = v
    return out


def case_from_json(d):
    c = dict(d)
    c["q"] = np.array(d["q"], dtype=float)
    c["z"] = np.array(d["z"], dtype=float)
    c["profiles"] = tuple(np.array(p, dtype=float) for p in d["profiles"])
    c["domain"] = tuple(d["domain"])
    c["modes"] = tuple(int(m) for m in d["modes"])
    c["meas_pt"] = tuple(d["meas_pt"])
    return c
