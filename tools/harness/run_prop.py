"""Run the correspondence + oracle of one property on the real code.
usage: run_prop.py <ID> [--tier quick|thorough] [--seed N] [--deep] [--replay FILE] --out result.json
Runs under /venv/bin/python with cwd = a scratch dir under /verif/work."""
import argparse
import importlib
import json
import os
import sys

HERE = os.path.dirname(os.path.abspath(__file__))
sys.path.insert(0, HERE)
sys.path.insert(0, os.path.dirname(HERE))
assert not os.getcwd().startswith("/repo"), "never run with cwd inside /repo"

import numpy as np  # noqa: E402


def main():
    ap = argparse.ArgumentParser()
    ap.add_argument("prop")
    ap.add_argument("--tier", default="quick")
    ap.add_argument("--seed", type=int, default=0)
    ap.add_argument("--deep", action="store_true")
    ap.add_argument("--replay", default=None)
    ap.add_argument("--out", required=True)
    a = ap.parse_args()
    mod = importlib.import_module("props." + a.prop)
    if a.replay:
        rep = json.load(open(a.replay))
        if rep.get("kind") != "failing-input":
            print("replay %s names no failing input (%s): broken=%s" % (a.replay, rep.get("kind"), rep.get("broken")))
            return 1
        f = mod.replay(rep)
        if f:
            print("REPRODUCED property=%s key=%s observed=%s expected=%s" % (a.prop, f.get("key"), f.get("observed"), f.get("expected")))
            return 1
        print("not reproduced: the recorded input now satisfies the property")
        return 0
    rng = np.random.default_rng([a.seed, sum(map(ord, a.prop))])
    try:
        res = mod.run(rng, a.tier, a.deep)
    except (ArithmeticError, ValueError, IndexError, KeyError, TypeError, AttributeError, AssertionError, NameError, ImportError) as e:
        # the harness's own bookkeeping around the real code broke on what the implementation now returns (a division by a value
        # that used to be non-zero, a shape that no longer unpacks, a name that no longer exists): that is a disagreement between
        # implementation and model, not a tooling failure.  Resource errors (MemoryError, OSError, timeouts) still abort with
        # a non-zero status and are reported as exit 2 by ./check.
        import traceback
        tb = traceback.format_exc()
        res = dict(disagreements=[dict(what="harness aborted on the implementation's behaviour: %s: %s" % (type(e).__name__, str(e)[:200]),
                                       op=tb[-1500:])],
                   oracle_failures=[], corr_cases=0, evaluations=0, oracle_evaluations=0, distinct_nontrivial=0,
                   rule="harness aborted: " + tb.strip().splitlines()[-1][:200], samples=[tb[-800:]], branches={}, deep=a.deep,
                   aborted=True)
    json.dump(res, open(a.out, "w"), default=str)
    return 0


if __name__ == "__main__":
    sys.exit(main())
