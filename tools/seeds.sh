#!/bin/sh
# usage: tools/seeds.sh "C01 C02 ..." "1 2 3"  [tier]   -- run checks over several seeds, print non-OK lines
cd "$(dirname "$0")/.."
tier=${3:-quick}
for s in $2; do
  for p in $1; do
    ( out=$(VERIF_SEED=$s ./check $p --tier $tier 2>&1); rc=$?; echo "seed=$s $p rc=$rc $(echo "$out" | tail -2 | tr '\n' ' ')" ) &
  done
  wait
done
