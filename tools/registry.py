"""Per-property registry: Lean theorems (name, module, kind), kernel groups of the
translator the property depends on, partial clauses, assumptions."""

ACCEPTED_AXIOMS = {"propext", "Classical.choice", "Quot.sound"}

TRUSTED_BASE = [
    "Lean 4.33.0 kernel; Mathlib v4.33.0 as compiled under /opt/veriftools",
    "axioms admitted: propext, Classical.choice, Quot.sound (audited with #print axioms on every run); no sorry/admit/native_decide/bv_decide/own axioms (grep, comments stripped)",
    "translator tools/extract.py (Python AST -> Lean terms); mitigated by running the same generated text on Floats against the real function",
    "correspondence harness: generators, canonicalisation, stated tolerances (differential testing, not proof)",
    "IEEE-754 arithmetic is modelled by exact reals/complex numbers: rounding, overflow, NaN are outside the theorems",
    "numpy/pyFFTW/numba/scipy semantics (pad, fftshift, fft2, argsort, cumsum, jit) are modelled from their documentation and exercised by the correspondence run",
]

B = "Proofs.Bridge.SolverK"
SOLVER_BRIDGES = [
    ("BLDFM.Bridge.ivpBody_bridge", B, "bridge"),
    ("BLDFM.Bridge.eigval_bridge", B, "bridge"),
    ("BLDFM.Bridge.alpha_bridge", B, "bridge"),
    ("BLDFM.Bridge.combine_bridge", B, "bridge"),
    ("BLDFM.Bridge.meanStep_bridge", B, "bridge"),
    ("BLDFM.Bridge.ana_bridge", B, "bridge"),
    ("BLDFM.Bridge.anaMean_bridge", B, "bridge"),
    ("BLDFM.Bridge.haloDefault_bridge", B, "bridge"),
    ("BLDFM.Bridge.geom_bridge", B, "bridge"),
    ("BLDFM.Bridge.wave_bridge", B, "bridge"),
    ("BLDFM.Bridge.fpSpectrum_bridge", B, "bridge"),
    ("BLDFM.Bridge.shiftFootprint_bridge", B, "bridge"),
    ("BLDFM.Bridge.shiftRecentre_bridge", B, "bridge"),
]

REGISTRY = {}
NOT_APPLICABLE = {}


def reg(pid, theorems, kernel_groups=(), partial_clauses=(), assumptions=(), trusted_extra=(), **kw):
    REGISTRY[pid] = dict(theorems=list(theorems), kernel_groups=list(kernel_groups),
                         partial_clauses=list(partial_clauses), assumptions=list(assumptions),
                         trusted_extra=list(trusted_extra), **kw)

M = "Proofs.C04"
reg("C04",
    [("BLDFM.C04.layerStep_linear", M, "property"), ("BLDFM.C04.ivp_linear", M, "property"),
     ("BLDFM.C04.columnNum_linear", M, "property"), ("BLDFM.C04.columnAna_linear", M, "property"),
     ("BLDFM.C04.mean_linear", M, "property"), ("BLDFM.C04.flux_indep_background", M, "property"),
     ("BLDFM.C04.background_only_in_mean", M, "property"), ("BLDFM.C04.background_offset", M, "property"),
     ("BLDFM.C04.footprint_indep_source_values", M, "property")] + SOLVER_BRIDGES,
    kernel_groups=["SolverK"],
    partial_clauses=["float rounding (linearity is exact over the reals; the oracle tolerates 1e-10 relative in double, 3e-5 in single)"],
    assumptions=["shooting denominator non-zero (does not involve the source)"])
