"""Per-property registry: Lean theorems (name, module, kind), kernel groups of the
translator the property depends on, partial clauses, assumptions."""

ACCEPTED_AXIOMS = {"propext", "Classical.choice", "Quot.sound"}

TRUSTED_BASE = [
    "Lean 4.33.0 kernel; Mathlib v4.33.0 as compiled under /opt/veriftools",
    "axioms admitted: propext, Classical.choice, Quot.sound (audited with #print axioms on every run); no sorry/admit/native_decide/bv_decide/own axioms (grep, comments stripped)",
    "translator tools/extract.py (Python AST -> Lean terms); mitigated indirectly: the bridge theorem forces the translated term to EQUAL the hand model for all inputs, and the hand model's Float instance is run against the real function, so a mistranslation must coincide both with the model (everywhere) and with the code (on the correspondence inputs) to go unnoticed",
    "correspondence harness: generators, canonicalisation, stated tolerances (differential testing, not proof)",
    "IEEE-754 arithmetic is modelled by exact reals/complex numbers: rounding, overflow, NaN are outside the theorems, EXCEPT where a theorem is stated in the standard rounding model "
    "(C12b storage rounding; C20d / C02e sums and dot products: every operation returns fl(x) with |fl x - x| <= eps |x|) - that numpy's float64 / float32 operations satisfy that model with "
    "eps = 2^-53 / 2^-24 is IEEE 754 round-to-nearest absent overflow and (for products) underflow, and is trusted, not proved",
    "numpy/pyFFTW/numba/scipy semantics (pad, fftshift, fft2, argsort, cumsum, jit) are modelled from their documentation and exercised by the correspondence run",
]

B = "Proofs.Bridge.SolverK"
SOLVER_BRIDGES = [
    ("BLDFM.Bridge.ivpBody_bridge", B, "bridge"),
    ("BLDFM.Bridge.eigval_bridge", B, "bridge"),
    ("BLDFM.Bridge.alpha_bridge", B, "bridge"),
    ("BLDFM.Bridge.combine_bridge", B, "bridge"),
    ("BLDFM.Bridge.meanStep_bridge", B, "bridge"),
    ("BLDFM.Bridge.ana_bridge", B, "bridge"),
    ("BLDFM.Bridge.anaMean_bridge", B, "bridge"),
    ("BLDFM.Bridge.haloDefault_bridge", B, "bridge"),
    ("BLDFM.Bridge.geom_bridge", B, "bridge"),
    ("BLDFM.Bridge.wave_bridge", B, "bridge"),
    ("BLDFM.Bridge.fpSpectrum_bridge", B, "bridge"),
    ("BLDFM.Bridge.shiftFootprint_bridge", B, "bridge"),
    ("BLDFM.Bridge.shiftRecentre_bridge", B, "bridge"),
]

REGISTRY = {}
NOT_APPLICABLE = {}


def reg(pid, theorems, kernel_groups=(), partial_clauses=(), assumptions=(), trusted_extra=(), **kw):
    REGISTRY[pid] = dict(theorems=list(theorems), kernel_groups=list(kernel_groups),
                         partial_clauses=list(partial_clauses), assumptions=list(assumptions),
                         trusted_extra=list(trusted_extra), **kw)

M = "Proofs.C04"
reg("C04",
    [("BLDFM.C04.layerStep_linear", M, "property"), ("BLDFM.C04.ivp_linear", M, "property"),
     ("BLDFM.C04.columnNum_linear", M, "property"), ("BLDFM.C04.columnAna_linear", M, "property"),
     ("BLDFM.C04.mean_linear", M, "property"), ("BLDFM.C04.flux_indep_background", M, "property"),
     ("BLDFM.C04.background_only_in_mean", M, "property"), ("BLDFM.C04.background_offset", M, "property"),
     ("BLDFM.C04.footprint_indep_source_values", M, "property")] + SOLVER_BRIDGES,
    kernel_groups=["SolverK"],
    partial_clauses=["float rounding (linearity is exact over the reals; the oracle tolerates 1e-10 relative in double, 3e-5 in single)"],
    assumptions=["shooting denominator non-zero (does not involve the source)"])


def T(mod, ns, names, kind="property"):
    return [("%s.%s" % (ns, n), mod, kind) for n in names]


reg("C01",
    T("Proofs.C01", "BLDFM.C01", ["layer_is_taylor3", "sweep_uses_node_i", "column_recurrence", "column_bottom_flux",
                                  "column_top_condition", "column_unique", "eigval_sq", "eigval_decaying",
                                  "mean_mode_trapezoid", "one_step_convergence"])
    + T("Proofs.Lemmas.Csqrt", "BLDFM.Spec", ["csqrt_sq", "csqrt_re_nonneg", "csqrt_re_pos"], "lemma") + SOLVER_BRIDGES,
    kernel_groups=["SolverK"],
    partial_clauses=["first-order convergence of the boundary-value solution to the CONTINUOUS variable-coefficient problem for arbitrary smooth profiles, "
                     "and the 2.5x-per-quartering figure: decided numerically by the oracle (Riccati reference) only; Mathlib has no BVP theory"],
    assumptions=["shooting denominator non-zero", "exact real/complex arithmetic"])

reg("C02",
    T("Proofs.C02", "BLDFM.C02", ["coef_is_transfer_times_source", "transfer_indep_mode"])
    + T("Proofs.C06", "BLDFM.C06", ["footprint_phase_on_grid"])
    + T("Proofs.C04", "BLDFM.C04", ["footprint_indep_source_values"]) + SOLVER_BRIDGES,
    kernel_groups=["SolverK"],
    partial_clauses=["single-precision storage rounding",
                     "the summation over the grid (exchange of sums + definition of the padded-source DFT) is proved at the level of the spectral "
                     "coefficients; the assembled field identity sum(q*F) = f[jm,im] is decided by the oracle on the real code"],
    assumptions=["on-grid measurement point", "shooting denominator non-zero"])

reg("C03",
    T("Proofs.C03", "BLDFM.C03", ["dc_flux_conserved", "dc_conc_resistance", "footprint_unit_spectrum", "dc_phase_unit",
                                  "dc_slot_position", "halo_is_zero_padding"])
    + T("Proofs.C01", "BLDFM.C01", ["mean_mode_trapezoid"]) + SOLVER_BRIDGES,
    kernel_groups=["SolverK"],
    partial_clauses=["float rounding", "horizontal mean = (0,0) coefficient (orthogonality of the DFT) and the full halo-equivalence field identity are decided by the oracle"],
    assumptions=["double precision for the exact statements"])

reg("C05",
    T("Proofs.C05", "BLDFM.C05", ["analytic_is_closed_form", "analytic_mean_linear", "closed_form_solves_bvp", "layer_eigenvector",
                                  "ivp_uniform_product", "numeric_uniform_product", "uniform_T_eq"])
    + T("Proofs.C01", "BLDFM.C01", ["layer_is_taylor3", "column_unique"]) + SOLVER_BRIDGES,
    kernel_groups=["SolverK"],
    partial_clauses=["the literal 'about eightfold per halving' (asymptotic consequence of the p3 factor): checked numerically by the order oracle"],
    assumptions=["Kz > 0", "shooting denominator non-zero", "eigenvalue non-zero (non-constant mode)"])

reg("C06",
    T("Proofs.C06", "BLDFM.C06", ["footprint_phase_on_grid", "tower_shift_phase", "recentre_guard_origin", "recentre_phase"])
    + T("Proofs.Lemmas.Phase", "BLDFM.Spec", ["rootPow_add", "rootPow_add_mul", "twiddle_pos", "twiddle_neg", "waveX_cells", "waveY_cells"], "lemma")
    + SOLVER_BRIDGES,
    kernel_groups=["SolverK"],
    partial_clauses=["float rounding", "source-shift and point-reflection at field level (DFT shift theorem through the model's dft2) are decided by the oracle"],
    assumptions=["dx, dy non-zero"])

reg("C07",
    T("Proofs.C07", "BLDFM.C07", ["column_mirrorX", "column_mirrorY", "column_swap", "columnAna_symm", "layer_length_similarity",
                                  "ivp_length_similarity", "eigval_length", "column_length_similarity", "layer_velocity_similarity",
                                  "ivp_velocity_similarity", "eigval_velocity", "column_velocity_similarity"])
    + T("Proofs.Lemmas.Csqrt", "BLDFM.Spec", ["csqrt_div_sq"], "lemma") + SOLVER_BRIDGES,
    kernel_groups=["SolverK"],
    partial_clauses=["float rounding", "Nyquist components (no partner under the mirror) — excluded by the statement"],
    assumptions=["scale factor s > 0", "Kz at the top node non-zero", "shooting denominator non-zero (velocity similarity)"])

reg("C10",
    T("Proofs.C10", "BLDFM.C10", ["slices_by_level", "full_column_slice", "slice_count", "level_range_checked"]) + SOLVER_BRIDGES,
    kernel_groups=["SolverK"],
    partial_clauses=[],
    assumptions=["levels are non-negative node indices"])

reg("C11",
    T("Proofs.C11", "BLDFM.C11", ["out_shape", "registered", "untrunc_hit", "untrunc_miss", "trunc_hit", "geom_admissible",
                                  "clamp_taken", "clamp_equiv", "no_clamp", "odd_modes_rejected"])
    + T("Proofs.Lemmas.Index", "BLDFM.Index", ["trunc_index", "untrunc_index_hit", "untrunc_index_window", "slotPos_inj", "clamp_admissible"], "lemma")
    + SOLVER_BRIDGES,
    kernel_groups=["SolverK"],
    partial_clauses=["mixed clamp (512, 4) -> (Nx, Ny) is the implemented behaviour ('Setting both equal'); listed, not raised"],
    assumptions=[])

MISC_BRIDGES = T("Proofs.Bridge.MiscK", "BLDFM.Bridge", ["wind_bridge", "latlon_bridge", "xy_bridge"], "bridge")

reg("C17",
    T("Proofs.C17", "BLDFM.C17", ["xy_latlon_left_inv", "xy_latlon_right_inv", "origin_maps_to_zero", "x_strictMono_lon",
                                  "y_strictMono_lat", "meridian_distance_exact"]) + MISC_BRIDGES,
    kernel_groups=["MiscK"],
    partial_clauses=["great-circle accuracy (0.1 % / 0.1 degree within 5 km at |lat| <= 60) off the meridian: decided numerically against haversine by the oracle; "
                     "only the meridian case is a theorem (exact)"],
    assumptions=["cos(ref_lat) != 0 (non-polar reference)"])

reg("C08",
    T("Proofs.C08", "BLDFM.C08", ["wind_speed_preserved", "wind_from_bearing", "wind_cardinals", "wind_periodic", "wind_opposite"])
    + T("Proofs.C17", "BLDFM.C17", ["x_strictMono_lon", "y_strictMono_lat"]) + MISC_BRIDGES,
    kernel_groups=["MiscK"],
    partial_clauses=["that the footprint centroid lies on the UPWIND side and within a few degrees of the wind direction for arbitrary directions on a cropped, "
                     "resolved domain: numeric (oracle, 8 degree threshold, worst observed 5.1); the half-space footprint has no finite first moment, so there is no exact "
                     "infinite-domain statement to prove"],
    assumptions=["x = east, y = north (C17 orientation theorems)"])

PBL_BRIDGES = T("Proofs.Bridge.PblK", "BLDFM.Bridge", ["psi_bridge", "phi_bridge", "closure_params_bridge", "grid_bridge", "profiles_bridge"], "bridge")

reg("C09",
    T("Proofs.C09", "BLDFM.C09", ["grid_bottom", "grid_meas", "grid_meas_index", "grid_strict_mono", "grid_top", "grid_reaches_top",
                                  "wind_at_meas_ustar", "wind_at_meas_z0", "wind_vector_at_meas", "wind_at_meas_oaahoc",
                                  "wind_direction_constant", "wind_no_reversal", "phi_pos", "Kz_pos", "mostm_split",
                                  "ustar_z0_roundtrip", "z0_ustar_roundtrip", "psi_zero", "phi_zero"]) + PBL_BRIDGES,
    kernel_groups=["PblK"],
    partial_clauses=["np.arange length at float-rounding ties", "MOSTM along-wind diffusivity is zero by design: strict positivity is claimed for Kz and the isotropic closures",
                     "psi' = (phi_M - 1)/x and continuity at neutral: decided by the oracle (scipy quad) until the HasDerivAt theorems land",
                     "user-chosen stretch/domain_height outside the grid's valid range (last zeta >= aa gives a NaN top node): outside the stated quantifier, not raised"],
    assumptions=["0 < z0 < zm", "0 < h", "n >= 1", "(um, vm) != 0", "0 < log(zm/z0) + psi(zm/L) for z0 forcing (positive wind)"])

reg("C16",
    T("Proofs.C16", "BLDFM.C16", ["nTimesteps_spec", "validate_ok_iff", "getStep_spec", "z0_present_iff"])
    + T("Proofs.Bridge.Tables", "BLDFM.Bridge", ["met_fields_table"], "bridge"),
    kernel_groups=["Tables"],
    partial_clauses=[],
    assumptions=["field values that are neither list nor None are scalars (tuples/arrays are treated as scalars by the code, as by the model)"],
    level_text="4 Lean theorems over ALL field lengths and list/scalar/None patterns (validate accepted iff ..., n_timesteps = common length, get_step = i-th entries), "
               "the model tied to the code by an EXHAUSTIVE correspondence on the stated space (every pattern x length x timestamp x forcing combination) "
               "and a static extract of the fields the code inspects")
REGISTRY["C10"]["theorems"] += T("Proofs.Bridge.Tables", "BLDFM.Bridge", ["level_store_table"], "bridge")
REGISTRY["C10"]["kernel_groups"].append("Tables")

reg("C20",
    T("Proofs.C20", "BLDFM.C20", ["rescaled_eq_prefix_sum", "rescaled_bounds", "rescaled_antitone", "rescaled_antitone_in_g",
                                  "rescaled_increasing_map", "rescaled_scale", "searchsorted_mono", "searchsorted_spec",
                                  "percentile_area_mono", "percentile_level_antitone", "percentile_scale",
                                  "upwind_is_projection", "crosswind_is_neg_sq_distance", "circular_is_neg_sq_radius"])
    + T("Proofs.Bridge.MiscK", "BLDFM.Bridge", ["base_bridge"], "bridge")
    + T("Proofs.Bridge.Tables", "BLDFM.Bridge", ["source_area_steps_table", "percentile_steps_table"], "bridge"),
    kernel_groups=["MiscK", "Tables"],
    partial_clauses=["float summation order", "zero-weight cells whose g is below every weighted cell receive exactly `total` (the defining clause); not flagged",
                     "the two-sided tie bound sum_{g'>g} f <= out <= sum_{g'>=g, c'!=c} f is checked by the O(n^2) oracle; the theorems give 0 <= out <= total - f c, "
                     "monotonicity in rank and in g"],
    assumptions=["sigma is a sorting permutation returned by argsort (Nodup, g o sigma non-increasing)", "f >= 0", "searchsorted on the non-decreasing cumulative sums"])

KM_BRIDGES = T("Proofs.Bridge.KMK", "BLDFM.Bridge", ["km_helpers_bridge", "km_params_bridge", "km_cell_bridge", "km_z0_bridge"], "bridge")

reg("C19",
    T("Proofs.C19", "BLDFM.C19", ["km_cell_eq_published", "km_nonneg", "km_zero_downwind", "km_symmetric_y", "km_negative_U_empty",
                                  "km_rotation", "km_no_rotation", "km_rotation_cardinals", "km_params", "z0_inverts_loglaw",
                                  "psi_eq_km_psiM", "phi_eq_km_phiC"]) + KM_BRIDGES,
    kernel_groups=["KMK"],
    partial_clauses=["the sum tends to the regularised incomplete-gamma mass as the grid is refined: numeric oracle only (scipy.special.gammaincc); Mathlib has no incomplete gamma function",
                     "dtype-independence (int / float alike): static extract of the helper allocations + oracle with int, numpy int64 and float32 heights",
                     "z0 smoothing invariant under whole-degree rotations (1-degree bins): oracle; non-integer rotations move observations across bins and are outside the clause"],
    assumptions=["x > 0, U > 0, kappa > 0, r > 0, sigma_v > 0, Gamma(mu) > 0, Gamma(1/r) > 0 for the closed form"])
REGISTRY["C09"]["theorems"] += T("Proofs.C19", "BLDFM.C19", ["psi_eq_km_psiM", "phi_eq_km_phiC"])

reg("C15",
    T("Proofs.C15", "BLDFM.C15", ["key_complete", "solveCached_correct", "crash_keeps_inv", "truncate_keeps_inv", "cache_transparent",
                                  "good_entry_persists", "cache_effective", "never_fatal", "truncated_is_miss", "incomplete_key_collides"])
    + T("Proofs.C04", "BLDFM.C04", ["footprint_indep_source_values"])
    + T("Proofs.Bridge.Tables", "BLDFM.Bridge", ["cache_cfg_table", "cache_call_sites_table"], "bridge"),
    kernel_groups=["Tables"],
    partial_clauses=["SHA-256 collision freedom on the encoded argument tuples", "filesystem: os.replace is atomic; a crash leaves any PREFIX of the bytes being written",
                     "np.load rejects every proper prefix / corrupted entry (observed exhaustively per entry in the thorough tier, not proved)"],
    assumptions=["the solver's footprint result depends only on the determining arguments (C04 footprint_indep_source_values + halo default = max(domain))",
                 "initial disk satisfies the invariant (every decodable entry was stored by this key scheme)"])


reg("C13",
    T("Proofs.C13", "BLDFM.C13", ["runSingle_is_pipeline", "runSingle_defined", "levels_explicit", "levels_full", "levels_default",
                                  "meas_pt_is_tower_xy", "result_labels"])
    + T("Proofs.C16", "BLDFM.C16", ["getStep_spec"])
    + T("Proofs.Bridge.Tables", "BLDFM.Bridge", ['call_table_single_assign_else_config_domain_output_levels_else_config_domain_full_output', 'call_table_single_assign_else_config_domain_output_levels_if_config_domain_full_output', 'call_table_single_assign_if_config_domain_output_levels', 'call_table_single_assign_if_surface_flux_is_None', 'call_table_single_ideal_source_if_surface_flux_is_None', 'call_table_single_return', 'call_table_single_steady_state_transport_solver', 'call_table_single_vertical_profiles_else_config_met_get_step_met_index__get__z0___is_not_None', 'call_table_single_vertical_profiles_if_config_met_get_step_met_index__get__z0___is_not_None', 'call_table_loadConfigBody'], "bridge"),
    kernel_groups=["Tables"],
    partial_clauses=["PyYAML itself (yaml.safe_load) is trusted; YAML == dict is decided by the oracle and the extracted body of load_config"],
    assumptions=["an empty output_levels list falls through to full_output / the default level (Python truthiness) — implemented behaviour, stated"])

reg("C12",
    T("Proofs.C12", "BLDFM.C12", ["solve_output_state_free", "solve_output_history_free", "repeat_same", "threads_only_by_set",
                                  "mgr_after_solve", "worker_reset_canonical", "worker_solve_eq_fresh"])
    + T("Proofs.Bridge.Tables", "BLDFM.Bridge", ["global_state_table"], "bridge"),
    kernel_groups=["Tables"],
    partial_clauses=["that the serial and the parallel numba kernel variants, FFTW's planner (wisdom file, plan cache, thread count) and numba's thread scheduling "
                     "give bit-identical / 1e-12-equal numbers, and that single precision differs by 1e-5: OBSERVED by the oracle on histories, not proved"],
    assumptions=["the process-global state reachable from a solve is the extracted table (global_state_table)"])

reg("C14",
    T("Proofs.C14", "BLDFM.C14", ["fold_slots", "poolMap_eq_map", "regroup_flatten", "worker_state_irrelevant", "timeseries_eq_singles",
                                  "multitower_eq_singles", "parallel_both_eq_multitower", "parallel_eq_serial", "invalid_strategy_rejected"])
    + T("Proofs.C12", "BLDFM.C12", ["worker_reset_canonical", "worker_solve_eq_fresh"])
    + T("Proofs.C15", "BLDFM.C15", ["cache_transparent"]),
    kernel_groups=[],
    partial_clauses=["OS process scheduling, fork/pickle fidelity of the results: exercised by the oracle with injected delays, not proved",
                     "Executor.map returns results in submission order and runs each task once (documented contract, trusted)",
                     "surface_flux is documented as ignored by the parallel driver; the statement is read for surface_flux=None"],
    assumptions=["tower names distinct (a dict cannot hold two towers with one name)", "every task completes under the schedule"])

reg("C18",
    T("Proofs.C18", "BLDFM.C18", ["roundtrip_fields", "labels", "sel_by_name", "sel_by_time", "tower_metadata_attached", "met_values"])
    + T("Proofs.C14", "BLDFM.C14", ["parallel_eq_serial", "multitower_eq_singles"]),
    kernel_groups=[],
    partial_clauses=["byte fidelity of float64 through netCDF4 + zlib + xarray (incl. _FillValue handling), string coordinate encoding: observed on adversarial bit patterns, not proved",
                     "the roughness length itself has no slot in the file; the statement is read for the four per-step fields",
                     "a result dict whose key order differs from the config's tower order mis-attaches metadata: outside the documented input (drivers return config order, C14)"],
    assumptions=["result keys are the configuration's tower names in configuration order", "tower names distinct, time labels distinct"])

DRIVER_TABLES = T("Proofs.Bridge.Tables", "BLDFM.Bridge", ["table_driver_run_bldfm_timeseries", "table_driver_run_bldfm_multitower", "table_driver_worker_single",
                                                           "table_driver_worker_timeseries", "table_driver_run_bldfm_parallel", "table_driver_make_cache"], "bridge")
REGISTRY["C14"]["theorems"] += DRIVER_TABLES
REGISTRY["C14"]["kernel_groups"].append("Tables")
for _p in ("C01", "C02", "C03", "C04", "C05", "C06", "C07", "C10", "C11"):
    REGISTRY[_p]["theorems"] += T("Proofs.Bridge.Tables", "BLDFM.Bridge", ["table_solverPlumbing"], "bridge")
    if "Tables" not in REGISTRY[_p]["kernel_groups"]:
        REGISTRY[_p]["kernel_groups"].append("Tables")
for _p in ("C08", "C17"):
    REGISTRY[_p]["theorems"] += T("Proofs.Bridge.Tables", "BLDFM.Bridge", ["tower_local_xy_table"], "bridge")
    REGISTRY[_p]["kernel_groups"].append("Tables")

REPR = T("Proofs.Lemmas.Repr", "BLDFM.Spec", ["dft2_pos", "dft2_neg", "sum_over_slots", "untrunc_eq", "solver_repr"], "lemma")
ORTHO = T("Proofs.Lemmas.Ortho", "BLDFM.Spec", ["sum_rootPow", "sfreq_dvd_iff", "field_sum_eq_dc"], "lemma")
REGISTRY["C02"]["theorems"] += T("Proofs.C02b", "BLDFM.C02", ["flux_coef", "srcSpectrum_formula", "footprint_reciprocity_flux", "footprint_reciprocity_flux_real"]) + REPR
REGISTRY["C02"]["partial_clauses"] = ["single-precision storage rounding",
    "the FLUX reciprocity is a theorem through the whole model pipeline (footprint_reciprocity_flux_real); the analogous statement for the concentration "
    "Green's function (same proof with the concentration transfer and the background offset) is decided by the oracle"]
REGISTRY["C03"]["theorems"] += T("Proofs.C03b", "BLDFM.C03", ["fieldsAt_eq", "flux_sum_padded", "conc_sum_padded", "footprint_unit_sum", "dc_source_is_mean", "mean_flux_conserved"]) + REPR + ORTHO
REGISTRY["C03"]["partial_clauses"] = ["float rounding", "halo == explicit zero-padding + crop as an identity between two solver calls: the size/placement part is a theorem "
    "(halo_is_zero_padding, registered), the equality of the two calls' fields is decided by the oracle"]
REGISTRY["C11"]["theorems"] += REPR
REGISTRY["C06"]["theorems"] += REPR
REGISTRY["C19"]["theorems"] += T("Proofs.C19", "BLDFM.C19", ["z0_window_circular", "z0_window_rotation"]) + T("Proofs.Bridge.Tables", "BLDFM.Bridge", ["estimateZ0_steps_table"], "bridge")
REGISTRY["C19"]["kernel_groups"].append("Tables")
REGISTRY["C19"]["partial_clauses"][2] = "z0 smoothing: membership in the circular +-h window and its invariance under whole-degree rotations are theorems (z0_window_circular, z0_window_rotation); that the median of the selected observations is then invariant is immediate and checked by the oracle; non-integer rotations move observations across the 1-degree bins and are outside the clause"
REGISTRY["C04"]["theorems"] += T("Proofs.C04b", "BLDFM.C04", ["conc_coef", "solve_linear"]) + REPR
REGISTRY["C04"]["partial_clauses"] = ["float rounding (linearity is exact over the reals; the oracle tolerates 1e-10 relative in double, 3e-5 in single)"]
REGISTRY["C02"]["theorems"] += T("Proofs.C02c", "BLDFM.C02", ["recip_core", "bg_term", "footprint_reciprocity_conc"]) + T("Proofs.C04b", "BLDFM.C04", ["conc_coef"])
REGISTRY["C02"]["partial_clauses"] = ["single-precision storage rounding (both reciprocity identities are theorems through the whole model pipeline over exact arithmetic)"]
REGISTRY["C09"]["theorems"] += T("Proofs.C09b", "BLDFM.C09", ["psi_unstable_eq", "Fxi_deriv", "psi_deriv_unstable", "psi_deriv_stable", "psi_continuousAt_zero", "phi_continuousAt_zero"])
REGISTRY["C09"]["partial_clauses"] = [c for c in REGISTRY["C09"]["partial_clauses"] if not c.startswith("psi' =")]
WITNESS = T("Proofs.Lemmas.Witness", "BLDFM.Witness", ["wreq_geomOK", "wreq_denOK"], "lemma")
REGISTRY["C06"]["theorems"] += T("Proofs.C06b", "BLDFM.C06", ["sum_shift_periodic", "dft_shift", "srcSpectrum_shift", "tower_shift_field",
                                                               "source_shift_field", "padSrc_roll_of_periodic"]) + REPR + WITNESS
REGISTRY["C06"]["partial_clauses"] = ["float rounding", "tower shift and source shift are theorems through the whole model pipeline (tower_shift_field, source_shift_field); "
                                      "the point-reflection clause is the reciprocity theorem of C02 composed with them (not assembled separately; oracle)"]
REGISTRY["C11"]["theorems"] += T("Proofs.C11b", "BLDFM.C11", ["lowpass_coef", "sfreq_embed", "lowpass_component"]) + WITNESS
REGISTRY["C03"]["theorems"] += T("Proofs.C03c", "BLDFM.C03", ["pp_padSrc", "halo_eq_padding_fields", "halo_eq_padding", "padOf_pair"]) + WITNESS
REGISTRY["C03"]["partial_clauses"] = ["float rounding (all three clauses are theorems over exact arithmetic through the whole model pipeline; "
                                      "halo == padding needs the same dx, i.e. xmx' = xmx + 2 px dx exactly, which floats only approximate)"]
REGISTRY["C07"]["theorems"] += (T("Proofs.C07b", "BLDFM.C07", ["tr_geomOK", "tr_srcSpectrum", "tr_modeCoef", "tr_shift", "transpose_field", "transpose_output", "transposeOf_pair"])
                                + T("Proofs.C07c", "BLDFM.C07", ["resistNum_velocity", "columnAna_velocity", "vel_modeCoef", "velocity_similarity_field"])
                                + T("Proofs.C07d", "BLDFM.C07", ["resistNum_length", "columnAna_length", "ls_geom", "length_similarity_field", "length_similarity_output"])
                                + T("Proofs.C07e", "BLDFM.C07", ["sfreq_partner", "mx_padSrc", "mx_srcSpectrum", "mirrorX_component", "mirrorX_field"])
                                + REPR + WITNESS)
REGISTRY["C07"]["partial_clauses"] = ["float rounding",
    "axis swap, length similarity and velocity similarity are theorems at FIELD level through the whole model pipeline (transpose_field/_output, "
    "length_similarity_field/_output, velocity_similarity_field); the x-mirror is a theorem for every component apart from the Nyquist one "
    "(mirrorX_component) and at field level when every slot has a partner (mirrorX_field, odd retained-mode count), dispersion mode with the "
    "measurement point at the origin; the y-mirror is the x-mirror conjugated by the axis swap (column-level theorem column_mirrorY; field level by the oracle); "
    "mirrored footprints (mirrored tower) by the oracle",
    "velocity similarity needs the background divided by the same factor (a non-zero background is not scaled by the flow) - stated so in the theorem"]
REGISTRY["C05"]["theorems"] += T("Proofs.C05b", "BLDFM.C05", ["p3_exp_bound", "prod_perturb", "prod_one_add_le_exp", "layer_product_third_order",
                                                               "exponent_cubic", "numeric_vs_analytic_flux", "numeric_vs_analytic_conc"])
REGISTRY["C05"]["partial_clauses"] = ["the explicit bound |numeric - closed form| <= |q| (exp(E) - 1), E = (5/96)|mu|^4 delta^3 h (cubic in the layer thickness) is a theorem "
                                      "(numeric_vs_analytic_flux/_conc); that the observed ratio per halving is 'about eight' (the bound is attained up to a constant) is checked "
                                      "numerically by the order oracle", "float rounding"]
REGISTRY["C01"]["theorems"] += (T("Proofs.C01b", "BLDFM.C01", ["gronwall_upto", "coef_norms", "layerStep_stable", "layerStep_sub", "local_error", "z_mono", "sweep_first_order"])
                                + T("Proofs.C01c", "BLDFM.C01", ["alpha_perturb", "shooting_perturb", "sweep_bound_upto", "column_first_order", "small_of_fine", "bound_linear_in_delta"]))
REGISTRY["C01"]["partial_clauses"] = [
    "first-order convergence of the returned column to the exact boundary-value solution is a THEOREM (column_first_order: error <= K*exp(L h)*C*delta*h for "
    "Lipschitz coefficient functions sampled at the nodes, any exact pair of fundamental solutions bounded by M, exact shooting denominator >= d > 0, delta <= 1 "
    "fine enough); what stays outside Lean: existence/boundedness of the exact fundamental solutions (standard linear-ODE theory, taken as hypotheses), that the "
    "top condition q = Kz*lambda*p IS the decaying continuation above the top node (eigval_sq / eigval_decaying give lambda^2 and Re lambda >= 0), and the "
    "literal 2.5x-per-quartering figure (pre-asymptotic constant): decided numerically by the oracle against the Riccati reference",
    "known finding F1: the first quartering of a coarse, strongly stretched grid gains only 2.2-2.5x (known_findings.json)"]
REGISTRY["C01"]["assumptions"] = ["shooting denominator non-zero", "exact real/complex arithmetic", "coefficient functions Lipschitz on [z_0, z_top]",
                                  "layer thickness <= 1 (any unit: the bound's constants scale with it)"]
REGISTRY["C06"]["theorems"] += T("Proofs.C06c", "BLDFM.C06", ["impulse_padSrc", "fields_indep_source", "impulse_roll", "footprint_point_reflection"])
REGISTRY["C06"]["partial_clauses"] = ["float rounding (tower shift, source shift and the point-reflection clause are theorems through the whole model pipeline: tower_shift_field, "
                                      "source_shift_field, footprint_point_reflection; re-centring at phase level: recentre_phase)"]
REGISTRY["C13"]["theorems"] += T("Proofs.C13b", "BLDFM.C13", ["pointMeasurement_eq_sum", "idealSource_binary", "idealSource_nonneg", "linspaceEnd_mirror", "idealSource_centred_symmetric"])
REGISTRY["C02"]["theorems"] += T("Proofs.C02d", "BLDFM.C02", ["sum_window", "padded_sum_eq_user_sum", "point_measurement_reciprocity", "point_measurement_reciprocity_conc"])
REGISTRY["C07"]["theorems"] += T("Proofs.C07f", "BLDFM.C07", ["denOK_transpose", "mirrorY_is_conjugate", "mirrorY_field"])
REGISTRY["C07"]["partial_clauses"] = ["float rounding",
    "axis swap, length similarity, velocity similarity are theorems at FIELD level through the whole model pipeline; the x-mirror for every non-Nyquist component "
    "(mirrorX_component) and at field level when every slot has a partner (mirrorX_field; mirrorY_field = transpose . mirrorX . transpose), dispersion mode with the "
    "measurement point at the origin; mirrored footprints (mirrored tower) by the oracle",
    "velocity similarity needs the background divided by the same factor (a non-zero background is not scaled by the flow) - stated so in the theorem"]
REGISTRY["C20"]["theorems"] += T("Proofs.C20b", "BLDFM.C20", ["rescaled_tie_bounds", "rescaled_eq_strict_sum"])
REGISTRY["C20"]["partial_clauses"] = [c for c in REGISTRY["C20"]["partial_clauses"] if "two-sided" not in c and "tie bound" not in c]
for _p in ("C08",):
    REGISTRY[_p]["theorems"] += T("Proofs.Bridge.Tables", "BLDFM.Bridge", ["call_table_single_vertical_profiles_else_config_met_get_step_met_index__get__z0___is_not_None",
                                                                           "call_table_single_vertical_profiles_if_config_met_get_step_met_index__get__z0___is_not_None"], "bridge")
REGISTRY["C19"]["theorems"] += T("Proofs.C19b", "BLDFM.C19", ["km_crosswind_integrated_integral", "km_crosswind_integrated_unit_mass", "km_crosswind_gaussian_unit_mass"])
REGISTRY["C19"]["partial_clauses"][0] = ("the continuous crosswind-integrated footprint has unit mass over the upwind half line and the crosswind Gaussian has unit mass "
    "(km_crosswind_integrated_unit_mass, km_crosswind_gaussian_unit_mass); that the GRID SUM tends to the regularised incomplete-gamma mass of the finite extent as the grid is "
    "refined is a numeric oracle only (scipy.special.gammaincc); Mathlib has no incomplete gamma function")

# whole-function statement tables (Generated/Bodies.lean, pinned in Proofs/Bridge/Bodies.lean): the canonical text of
# every function that the hand-written model covers only through the correspondence run
BODY_TABLES = {
    "C02": ["utils_point_measurement"],
    "C08": ["utils_compute_wind_fields", "iface_run_single", "tower_compute_local_xy", "cfg_latlon_to_xy", "config_post_init"],
    "C09": ["pbl_vertical_profiles"],
    "C10": ["iface_run_single"],
    "C12": ["fft_get_manager", "fft_reset_manager", "fft_fft2", "fft_ifft2", "fftmgr_init", "fftmgr_fft2", "fftmgr_ifft2", "utils_parallelize"],
    "C13": ["utils_ideal_source", "utils_point_measurement", "parse_config_dict", "iface_run_single", "tower_compute_local_xy", "config_post_init",
            "utils_compute_wind_fields"],
    "C15": ["cache_init", "cache_compute_key", "cache_get", "cache_put"],
    "C16": ["met_n_timesteps", "met_get_step", "met_validate", "config_post_init", "cli_cmd_run"],
    "C17": ["geo_xy_to_latlon", "cfg_latlon_to_xy", "tower_compute_local_xy", "config_post_init"],
    "C18": ["io_save", "io_load"],
    "C19": ["km_estimateFootprint", "km_estimateZ0"],
    "C20": ["plot_maybe_slice_level", "utils_get_source_area"],
}
BODY_TABLES["C13"] += ["cfg_parse_tower", "cfg_parse_domain", "cfg_parse_met", "cfg_parse_solver", "cfg_parse_parallel", "cfg_load_config"]
BODY_TABLES["C08"] += ["cfg_parse_tower", "cfg_parse_domain", "cfg_parse_met", "cfg_parse_solver", "met_get_step"]
BODY_TABLES["C13"] += ["met_get_step"]
BODY_TABLES["C16"] += ["cfg_parse_met"]
BODY_TABLES["C17"] += ["cfg_parse_tower", "cfg_parse_domain"]
BODY_TABLES["C14"] = ["cfg_parse_parallel", "cfg_parse_met"]
BODY_TABLES["C10"] += ["cfg_parse_domain"]
for _p in ("C01", "C02", "C03", "C04", "C05", "C06", "C07", "C10", "C11"):
    BODY_TABLES.setdefault(_p, [])
    BODY_TABLES[_p] += ["solver_steady_state", "solver_ivp"]
BODY_TABLES["C12"] += ["solver_steady_state", "solver_ivp"]
BODY_TABLES["C15"] += ["solver_steady_state"]
for _p, _ts in BODY_TABLES.items():
    REGISTRY[_p]["theorems"] += T("Proofs.Bridge.Bodies", "BLDFM.Bridge", ["body_" + t for t in _ts], "bridge")
    REGISTRY[_p]["body_tables"] = list(_ts)
    if "Bodies" not in REGISTRY[_p]["kernel_groups"]:
        REGISTRY[_p]["kernel_groups"].append("Bodies")

# C15, concurrency clause: the write protocol at file-system granularity for several processes sharing the directory
REGISTRY["C15"]["theorems"] += (T("Proofs.C15b", "BLDFM.C15", ["proto_step_inv", "proto_step_no_fail", "proto_read_sound", "proto_no_partial_entry", "proto_run",
                                                              "pinv_empty", "init_cleanup_breaks_rename", "shared_temp_publishes_partial",
                                                              "inplace_crash_leaves_partial", "unguarded_partial_is_fatal"])
                                + T("Proofs.Bridge.Tables", "BLDFM.Bridge", ["proto_cfg_table"], "bridge"))

# C19 / C20 dtype clause: allocation tables + the dtype model's theorems
_DT = T("Proofs.C19c", "BLDFM.C19", ["helper_dtype_free", "helper_float_exact", "helpers_dtype_free", "inherit_truncates", "inherit_not_dtype_free", "truncR_int"])
REGISTRY["C19"]["theorems"] += _DT + T("Proofs.Bridge.Tables", "BLDFM.Bridge", ["km_alloc_table"], "bridge")
REGISTRY["C20"]["theorems"] += _DT + T("Proofs.Bridge.Tables", "BLDFM.Bridge", ["source_area_alloc_table"], "bridge")
REGISTRY["C19"]["partial_clauses"] = [c.replace("dtype-independence (int / float alike): static extract of the helper allocations + oracle with int, numpy int64 and float32 heights",
                                                "dtype-independence (int / float alike) is a theorem about the dtype model (helpers_dtype_free) given the extracted allocation table "
                                                "(km_alloc_table); numpy's actual casting rules are exercised by the oracle with int, numpy int64 and float32 inputs")
                                      for c in REGISTRY["C19"]["partial_clauses"]]

# C17 accuracy clause (distance): explicit 0.1 % bound against the haversine distance on the same sphere
REGISTRY["C17"]["theorems"] += T("Proofs.C17b", "BLDFM.C17", ["sin_sq_lower", "hav_alg", "hav_bounds", "equirect_core", "equirect_distance_accuracy"])
REGISTRY["C17"]["partial_clauses"] = ["great-circle accuracy: the DISTANCE clause (0.1 % within 5 km of local distance at |ref lat| <= 60 deg, against the haversine distance on the "
                                      "model's own sphere R = 6371000 m) is a theorem (equirect_distance_accuracy); the BEARING clause (0.1 degree) is decided numerically against the "
                                      "initial great-circle bearing by the oracle"]
REGISTRY["C17"]["theorems"] += T("Proofs.C17c", "BLDFM.C17", ["size_facts", "G2_bound", "G1_bound", "dot_mixed", "dot_main", "bearing_alg", "abs_sin_sub_le",
                                                               "abs_le_abs_tan", "bearing_core", "equirect_bearing_accuracy"])
REGISTRY["C17"]["partial_clauses"] = ["float rounding only: BOTH accuracy clauses are theorems over exact arithmetic on the model's own sphere (R = 6371000 m): local distance within "
                                      "0.1 % of the haversine distance (equirect_distance_accuracy) and local bearing within 0.1 degree of the initial great-circle bearing "
                                      "(equirect_bearing_accuracy), for |ref lat| <= 60 deg and local distance <= 5000 m; 'a few kilometres' is read as 5 km, 'non-polar' as 60 deg"]

# C19 mass clause, finite upwind extent: exact incomplete-gamma mass of the continuous crosswind-integrated footprint
REGISTRY["C19"]["theorems"] += T("Proofs.C19d", "BLDFM.C19", ["km_crosswind_integrated_extent", "km_mass_within_extent", "gammaQ_zero"])
REGISTRY["C19"]["partial_clauses"][0] = ("the continuous crosswind-integrated footprint has EXACTLY the regularised incomplete-gamma mass Q(mu, xi/X) within the upwind extent X "
    "(km_mass_within_extent; the upper incomplete gamma function is written as its defining integral because Mathlib has none), unit mass over the half line and a unit-mass "
    "crosswind Gaussian; that the GRID SUM tends to this integral as the grid is refined (Riemann-sum convergence) is a numeric oracle only (scipy.special.gammaincc)")

# C05 order clause, sharp form: on a uniform grid the error IS cubic (leading term -e^{-mu h} h mu^4 dz^3/24 + O(dz^4))
REGISTRY["C05"]["theorems"] += T("Proofs.C05c", "BLDFM.C05", ["p3_eq", "layerDefect_leading", "layerDefect_le", "pow_one_add_remainder", "pow_one_add_remainder_exp",
                                                               "uniform_product_leading", "leading_term_cubic", "leading_term_halving", "numeric_flux_leading_error"])
REGISTRY["C05"]["partial_clauses"] = ["float rounding; 'about eightfold per halving' is a theorem in the following form: on a uniform grid the numeric-minus-analytic flux is "
                                      "-q e^{-mu h} h mu^4 dz^3 / 24 plus a remainder one order smaller (numeric_flux_leading_error), and the leading term at dz/2 is exactly one eighth "
                                      "of the one at dz (leading_term_halving); for non-uniform grids the upper bound of numeric_vs_analytic_flux/_conc (cubic in the largest layer "
                                      "thickness) applies; the observed ratios (8.1-8.8 at 16-64 layers) are checked by the order oracle"]

# C19 mass clause, discrete part: tagged Riemann sums of a continuous function converge to the integral (uniformly in the tags);
# the crosswind-integrated footprint extended by 0 (sflag = x > 0) is continuous on [0, X]; its grid sums tend to Q(mu, xi/X)
REGISTRY["C19"]["theorems"] += T("Proofs.C19e", "BLDFM.C19", ["riemann_sum_error", "riemann_sum_tendsto", "km_receptor_limit", "kmFy_continuousOn",
                                                               "kmFy_integral", "km_grid_sum_tendsto_mass"])
REGISTRY["C19"]["partial_clauses"][0] = ("mass clause: the along-wind grid sums of the crosswind-integrated footprint converge, as the grid is refined and whichever point of a cell is "
    "sampled, to EXACTLY the regularised incomplete-gamma mass Q(mu, xi/X) within the upwind extent X (km_grid_sum_tendsto_mass, from the general riemann_sum_tendsto, "
    "kmFy_continuousOn and km_mass_within_extent; the upper incomplete gamma function is written as its defining integral because Mathlib has none); the crosswind Gaussian has unit "
    "mass (km_crosswind_gaussian_unit_mass). What stays numeric (oracle, scipy.special.gammaincc): the two-dimensional cell sum, i.e. that the crosswind sums of the Gaussian over a "
    "window of +-8 sigma reach its unit mass at the same time")

# C01: the top condition Q = Kz*lambda*P IS the decaying constant-coefficient continuation above the top node
REGISTRY["C01"]["theorems"] += T("Proofs.C01d", "BLDFM.C01", ["growing_component", "decaying_component", "continuation_decays", "bounded_iff_top_condition",
                                                               "eigval_sq_Tcoef", "column_continuation_decays"])
REGISTRY["C01"]["partial_clauses"][0] = (
    "first-order convergence of the returned column to the exact boundary-value solution is a THEOREM (column_first_order: error <= K*exp(L h)*C*delta*h for "
    "Lipschitz coefficient functions sampled at the nodes, any exact pair of fundamental solutions bounded by M, exact shooting denominator >= d > 0, delta <= 1 "
    "fine enough); that the top condition q = Kz*lambda*p IS the decaying constant-coefficient continuation above the top node is a THEOREM too "
    "(bounded_iff_top_condition: a solution of the frozen-coefficient equations above the top node stays bounded iff it meets the top condition, and then it is "
    "P(z_N) e^{-lambda (z - z_N)}; column_continuation_decays for the returned column); what stays outside Lean: existence/boundedness of the exact fundamental "
    "solutions below the top node (standard linear-ODE theory, taken as hypotheses) and the literal 2.5x-per-quartering figure (pre-asymptotic constant): decided "
    "numerically by the oracle against the Riccati reference")

# C12 / C02 precision clause: storage rounding is the only difference between the precisions, with an explicit field bound
_PREC = T("Proofs.C12b", "BLDFM.C12", ["single_is_rounded_double", "double_unrounded", "norm_rootPow", "norm_shiftFactor", "field_perturbation",
                                        "single_vs_double_bound", "field_bound_of_coef_bound", "double_rounding"])
REGISTRY["C12"]["theorems"] += _PREC
REGISTRY["C02"]["theorems"] += _PREC
REGISTRY["C12"]["partial_clauses"] = [
    "that the serial and the parallel numba kernel variants, FFTW's planner (wisdom file, plan cache, thread count) and numba's thread scheduling give bit-identical / "
    "1e-12-equal numbers: OBSERVED by the oracle on histories, not proved",
    "single vs double precision: a THEOREM in the model for any storage rounding of relative error eps - the single-precision coefficients are the rounded double-precision "
    "ones (single_is_rounded_double) and every cell of both fields differs by at most eps * (l1 norm of the double-precision spectrum) (single_vs_double_bound; 2 eps + eps^2 "
    "for the analytic branch's twice-rounded concentration, double_rounding); the property's figure '1e-5 of the field maximum' relates that l1 norm to the field maximum, "
    "which depends on the source: observed by the oracle"]
REGISTRY["C02"]["partial_clauses"] = ["single precision: both reciprocity identities are theorems through the whole model pipeline over exact arithmetic; in single precision each side moves by "
                                      "at most eps * (l1 norm of its spectrum) (C12.single_vs_double_bound), so the identity holds to that accuracy; IEEE rounding of the double-precision "
                                      "arithmetic itself is outside the model"]

# C08 upwind clause, per Fourier component (uniform profiles): Im(lambda) has the sign of U.L, so every component's crest is displaced against the wind
REGISTRY["C08"]["theorems"] += T("Proofs.C08b", "BLDFM.C08", ["csqrt_im_sign", "csqrt_im_sign_strict", "eigval_im_sign", "eigval_im_sign_strict", "mode_wave", "mode_crest",
                                                               "mode_crest_upwind", "mode_crest_upwind_strict", "footprint_coef_analytic"])
REGISTRY["C08"]["partial_clauses"] = [
    "upwind clause: for height-independent profiles EVERY non-constant Fourier component of the footprint is a plane wave whose crest nearest the tower is displaced against the wind "
    "(mode_crest_upwind / _strict, from eigval_im_sign: Im(lambda) has the sign of U.L; footprint_coef_analytic ties the wave to the model's footprint-mode coefficient); that the centre of "
    "mass of the whole cropped footprint lies within a few degrees of the wind direction, for sheared profiles and arbitrary directions, is numeric (oracle, 8 degree threshold, worst observed "
    "5.1): the half-space footprint has no finite first moment, so there is no exact infinite-domain statement to prove"]

# C07: x-mirror in FOOTPRINT mode (mirrored tower) at field level; C08: cardinal-direction corollary (footprint symmetric about the wind axis)
REGISTRY["C07"]["theorems"] += T("Proofs.C07g", "BLDFM.C07", ["mxfp_geom", "mxfp_srcSpectrum", "mirrorX_fp_component", "mirrorX_fp_shift", "mirrorX_footprint_field"])
REGISTRY["C07"]["partial_clauses"] = ["float rounding",
    "axis swap, length similarity, velocity similarity are theorems at FIELD level through the whole model pipeline; the x-mirror for every non-Nyquist component "
    "(mirrorX_component, mirrorX_fp_component) and at field level when every slot has a partner (odd retained-mode count): dispersion mode with the measurement point at the "
    "origin (mirrorX_field; mirrorY_field = transpose . mirrorX . transpose) and FOOTPRINT mode with the tower mirrored (mirrorX_footprint_field, on-grid tower); with an even "
    "retained-mode count the Nyquist component has no partner (excluded by the statement) and the field identity is checked by the oracle with the Nyquist rows filtered",
    "velocity similarity needs the background divided by the same factor (a non-zero background is not scaled by the flow) - stated so in the theorem"]
REGISTRY["C08"]["theorems"] += T("Proofs.C08c", "BLDFM.C08", ["cardinal_footprint_symmetric"]) + T("Proofs.C07g", "BLDFM.C07", ["mirrorX_footprint_field"])
REGISTRY["C08"]["partial_clauses"][0] = (
    "upwind clause: (i) for a north / south wind (u = 0 exactly, wind_cardinals) the footprint is mirror-symmetric about the wind axis through a tower on the middle column "
    "(cardinal_footprint_symmetric, from C07.mirrorX_footprint_field; odd retained-mode count): zero cross-wind offset; (ii) for height-independent profiles EVERY non-constant "
    "Fourier component of the footprint is a plane wave whose crest nearest the tower is displaced against the wind (mode_crest_upwind / _strict, from eigval_im_sign: Im(lambda) "
    "has the sign of U.L; footprint_coef_analytic ties the wave to the model's footprint-mode coefficient); that the centre of mass of the whole cropped footprint lies within a few "
    "degrees of the wind direction, for sheared profiles and arbitrary directions, is numeric (oracle, 8 degree threshold, worst observed 5.1): the half-space footprint has no finite "
    "first moment, so there is no exact infinite-domain statement to prove")

# C08: reversing the wind point-reflects the footprint about the tower (field level, whole model pipeline)
REGISTRY["C08"]["theorems"] += T("Proofs.C08d", "BLDFM.C08", ["columnNum_reverse", "columnAna_reverse", "rev_geom", "reverse_component", "reverse_point_reflection"])
REGISTRY["C08"]["partial_clauses"][0] = (
    "upwind clause: (i) REVERSING the wind (wd -> wd + 180, wind_opposite) point-reflects the footprint and the concentration Green's function about the tower's cell on the periodic "
    "padded domain (reverse_point_reflection; every level, numeric and analytic, odd retained-mode counts so that every component has its partner) - whatever side the footprint lies "
    "on for one direction it lies on the opposite side for the opposite one; (ii) for a north / south wind (u = 0 exactly, wind_cardinals) the footprint is mirror-symmetric about "
    "the wind axis through a tower on the middle column (cardinal_footprint_symmetric): zero cross-wind offset; (iii) for height-independent profiles EVERY non-constant Fourier "
    "component of the footprint is a plane wave whose crest nearest the tower is displaced against the wind (mode_crest_upwind / _strict, from eigval_im_sign: Im(lambda) has the "
    "sign of U.L; footprint_coef_analytic ties the wave to the model's footprint-mode coefficient). Numeric (oracle, 8 degree threshold, worst observed 5.1): that the centre of mass "
    "of the whole cropped footprint lies within a few degrees of the wind direction for sheared profiles and arbitrary directions - the half-space footprint has no finite first "
    "moment, so there is no exact infinite-domain statement to prove")

# C08 rests on the profiles keeping the supplied direction at every node (C09): the profile kernels and the function's statement table are its obligations too
REGISTRY["C08"]["theorems"] += PBL_BRIDGES + T("Proofs.C09", "BLDFM.C09", ["wind_direction_constant", "wind_vector_at_meas"]) \
    + T("Proofs.Bridge.Bodies", "BLDFM.Bridge", ["body_pbl_vertical_profiles"], "bridge")
REGISTRY["C08"]["kernel_groups"].append("PblK")
REGISTRY["C08"]["body_tables"].append("pbl_vertical_profiles")

# C16's anchors include the drivers that iterate range(n_timesteps): the serial time-series driver's statement table is its obligation too
REGISTRY["C16"]["theorems"] += T("Proofs.Bridge.Tables", "BLDFM.Bridge", ["table_driver_run_bldfm_timeseries"], "bridge")


def _add_bodies(pid, names):
    REGISTRY[pid]["theorems"] += T("Proofs.Bridge.Bodies", "BLDFM.Bridge", ["body_" + t for t in names if t not in REGISTRY[pid]["body_tables"]], "bridge")
    REGISTRY[pid]["body_tables"] += [t for t in names if t not in REGISTRY[pid]["body_tables"]]
    if "Bodies" not in REGISTRY[pid]["kernel_groups"]:
        REGISTRY[pid]["kernel_groups"].append("Bodies")


# session 4: statement tables of the remaining functions on the properties' paths (FFT wisdom / plan-cache handling, cache.clear, the output
# section of the parser, the base functions and the percentile search as text, the KM and pbl stability helpers, the drivers as whole functions)
_add_bodies("C12", ["fftmgr_load_wisdom", "fftmgr_save_wisdom", "fftmgr_clear_cache", "fftmgr_cleanup"])
_add_bodies("C15", ["cache_clear", "iface_make_cache"])
_add_bodies("C13", ["cfg_parse_output"])
_add_bodies("C20", ["utils_sa_contribution", "utils_sa_circular", "utils_sa_upwind", "utils_sa_crosswind", "utils_sa_sector", "plot_extract_percentile_contour"])
_add_bodies("C19", ["km_phiM", "km_phiC", "km_psiM", "km_mParam", "km_nParam"])
_add_bodies("C09", ["pbl_psi", "pbl_phi", "km_psiM", "km_phiC"])
_add_bodies("C14", ["iface_make_cache", "iface_run_timeseries", "iface_run_multitower", "iface_worker_single", "iface_worker_timeseries", "iface_run_parallel"])
_add_bodies("C16", ["iface_run_timeseries"])

# C07: y-mirror in footprint mode (conjugation of the footprint-mode x-mirror with the axis swap)
REGISTRY["C07"]["theorems"] += T("Proofs.C07h", "BLDFM.C07", ["mirrorXfpOf_pair", "mirrorYfp_is_conjugate", "mirrorY_footprint_field"])
REGISTRY["C07"]["partial_clauses"][1] = (
    "axis swap, length similarity, velocity similarity are theorems at FIELD level through the whole model pipeline; the x- and y-mirror for every non-Nyquist component and at "
    "field level when every slot of the mirrored axis has a partner (odd retained-mode count): dispersion mode with the measurement point at the origin (mirrorX_field, "
    "mirrorY_field) and FOOTPRINT mode with the on-grid tower mirrored (mirrorX_footprint_field, mirrorY_footprint_field); with an even retained-mode count the Nyquist "
    "component has no partner (excluded by the statement) and the field identity is checked by the oracle with the Nyquist rows filtered")

# C19 mass clause, two-dimensional cell sum: 2-D Riemann sums of a continuous function converge to the iterated integral; the implemented cell
# density (extended by 0 for x <= 0) is continuous on the plane; the cell sums converge to the mass captured by the grid's extent
REGISTRY["C19"]["theorems"] += T("Proofs.C19f", "BLDFM.C19", ["riemannSum2_eq", "riemann_sum2_error", "riemann_sum2_tendsto", "kmEnv_tendsto", "kmCell2_le_env",
                                                               "kmCell2_continuous", "km_cell_sum_tendsto", "kmCell2_eq"])
REGISTRY["C19"]["partial_clauses"][0] = (
    "mass clause: THEOREMS - (i) the two-dimensional cell sums of the implemented density f^y(x) D_y(x, y) (0 for x <= 0, as coded) converge, as the grid is refined and "
    "whichever point of a cell is sampled, to the mass of the continuous footprint over the grid's extent [0, X] x [-W, W] (km_cell_sum_tendsto, from riemann_sum2_tendsto and "
    "kmCell2_continuous: the density is continuous on the whole plane, e^{-xi/x} beats the 1/sigma(x) of the Gaussian at the receptor line); (ii) the along-wind sums of the "
    "crosswind-integrated footprint converge to EXACTLY Q(mu, xi/X) (km_grid_sum_tendsto_mass, km_mass_within_extent; the upper incomplete gamma function written as its "
    "defining integral because Mathlib has none); (iii) the crosswind Gaussian has unit mass (km_crosswind_gaussian_unit_mass). Not assembled in Lean: that the iterated integral "
    "of (i) equals Q(mu, xi/X) times the Gaussian's mass within +-W and tends to (ii) as W grows (Fubini + dominated convergence); the oracle checks the number against "
    "scipy.special.gammaincc with W = 8 sigma(X)")

# C16 consumers: the time-series driver's i-th result is step i's own single run (label, forcing entries), one result per step; every tower alike
REGISTRY["C16"]["theorems"] += T("Proofs.C16b", "BLDFM.C16", ["timeseries_step_spec", "multitower_series_length"]) \
    + T("Proofs.C14", "BLDFM.C14", ["timeseries_eq_singles", "multitower_eq_singles"])

# C10: any order / repeats, as corollaries
REGISTRY["C10"]["theorems"] += T("Proofs.C10b", "BLDFM.C10", ["slice_depends_only_on_level", "slices_permuted", "repeated_level_same_slice"])

# C20: the sector base function's geometry (the fourth of the four geometric base functions)
REGISTRY["C20"]["theorems"] += T("Proofs.C20c", "BLDFM.C20", ["sector_is_neg_angle", "sector_range", "sector_zero_iff", "sector_scale_invariant"])

# C09: the stability correction IS the integral of the flux-gradient function (integral form, both sides of neutral)
REGISTRY["C09"]["theorems"] += T("Proofs.C09c", "BLDFM.C09", ["phiM_hasDerivAt_zero", "fluxGradIntegrand_continuousOn", "psi_integral_unstable",
                                                               "fluxGradIntegrandStable_eq", "psi_integral_stable"])

# C11: over-request = exact request at the level of the returned result
REGISTRY["C11"]["theorems"] += T("Proofs.C11c", "BLDFM.C11", ["solveOk_of_geom_eq", "clamp_output"])

# the FFT layer is on the path of every solver-family property (found by C11p: a change inside FFTManager.fft2 broke no obligation of C11)
for _p in ("C01", "C02", "C03", "C04", "C05", "C06", "C07", "C10", "C11"):
    _add_bodies(_p, ["fft_fft2", "fft_ifft2", "fft_get_manager", "fftmgr_init", "fftmgr_fft2", "fftmgr_ifft2"])

REGISTRY["C18"]["theorems"] += T("Proofs.C18b", "BLDFM.C18", ["coords_meshgrid3", "coords_meshgrid2", "coords_vectors", "stored_coords", "coords_lossless_3d",
                                                              "coords_lossless_2d", "coords_indices", "dims", "slots_filled"])

_C20D = T("Proofs.C20d", "BLDFM.C20", ["flFold_error", "flSum_error", "flSum_order", "pow_sub_one_le", "flSum_error_explicit", "abs_sum_le_absSum"])
REGISTRY["C20"]["theorems"] += _C20D
REGISTRY["C03"]["theorems"] += _C20D
REGISTRY["C20"]["partial_clauses"] = [c if not c.startswith("float summation order") else
    "float summation order: a THEOREM in the standard rounding model (every addition returns fl(a+b) with |fl x - x| <= eps |x|): a left-to-right sum of n terms "
    "differs from the exact sum by at most ((1+eps)^n - 1) * sum|x_i| (flSum_error), two summation orders of the same terms by at most twice that (flSum_order), and "
    "(1+eps)^n - 1 <= 2 n eps for n eps <= 1/2 (pow_sub_one_le); that numpy's additions satisfy the model with eps = 2^-53 (2^-24) is IEEE 754, trusted"
    for c in REGISTRY["C20"]["partial_clauses"]]

REGISTRY["C02"]["theorems"] += T("Proofs.C02e", "BLDFM.C02", ["flProducts_close", "flDot_error", "flDot_error_explicit"]) + _C20D
REGISTRY["C02"]["partial_clauses"] = list(REGISTRY["C02"]["partial_clauses"]) + [
    "the sums sum(q*footprint), sum(q*G) as evaluated in floating point (every product and addition rounded, |fl x - x| <= eps |x|): a THEOREM - within "
    "((1+eps)^(n+1) - 1) * sum|q_i w_i| of the exact sum (flDot_error), i.e. 2 (n+1) eps sum|q w| (flDot_error_explicit); IEEE 754 conformance of numpy's arithmetic is trusted"]

# C14 (parallel / serial drivers = the single runs): state that a solve leaves behind between the calls of one process decides whether the serial
# drivers' results stay what the single runs returned (seeded change C14v sat in a solver helper and broke no table of C14)
_add_bodies("C14", ["solver_steady_state", "solver_ivp"])

REGISTRY["C10"]["theorems"] += T("Proofs.C10c", "BLDFM.C10", ["increments_telescope", "marched_eq_direct", "marched_depends_only_on_level"])
