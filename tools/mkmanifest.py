#!/usr/bin/env python3
"""Regenerate MANIFEST.json from tools/registry.py (claimed checks) + the fixed property list."""
import json
import os
import sys
VERIF = os.path.dirname(os.path.dirname(os.path.abspath(__file__)))
sys.path.insert(0, os.path.join(VERIF, "tools"))
from registry import REGISTRY, NOT_APPLICABLE  # noqa: E402

props = [json.loads(l) for l in open(os.path.join(VERIF, "properties.jsonl"))]
checks = []
na = []
for p in props:
    pid = p["id"]
    if pid in REGISTRY:
        s = REGISTRY[pid]
        nprop = sum(1 for t in s["theorems"] if t[2] == "property")
        nbr = sum(1 for t in s["theorems"] if t[2] != "property")
        checks.append({
            "property_id": pid,
            "quick_cmd": "./check %s --tier quick" % pid,
            "thorough_cmd": "./check %s --tier thorough" % pid,
            "evidence_file": "evidence/%s.json" % pid,
            "replay_cmd_template": "./check %s --replay {path}" % pid,
            "engine": "lean4-model+tie",
            "level_claimed": {
                "category": "proof",
                "text": s.get("level_text") or (
                    "%d Lean 4 theorems about the formal model (all inputs/sizes/histories the statement quantifies over) "
                    "+ %d bridge/table obligations re-checked against definitions regenerated from /repo on this run; "
                    "the hand-written part of the model is tied to the code by a correspondence run; a broken obligation or "
                    "disagreement triggers a failing-input search on the real code" % (nprop, nbr)),
                "design_ref": "DESIGN.md §4 %s" % pid,
            },
            "level_note": s.get("level_note") or ("What is NOT a theorem (decided by the correspondence run / oracle, or taken as a hypothesis), with notes on what is: " + ("; ".join(s["partial_clauses"]) or "none")
                           + ". Assumptions: " + ("; ".join(s["assumptions"]) or "none")
                           + ". Trusted: Lean kernel + Mathlib, axioms propext/Classical.choice/Quot.sound, the translator, the correspondence harness, exact-real model of IEEE arithmetic."),
            "technique": s.get("technique") or "Lean 4 machine-checked proof over a formal model; translator-regenerated kernels with bridge theorems; correspondence (differential) run; oracle search for a failing input",
        })
    else:
        na.append({"property_id": pid, "reason": NOT_APPLICABLE.get(pid, "check under construction; not claimed yet")})
m = {
    "version": 1,
    "setup_cmd": "./setup.sh",
    "hooks": {"guard": "BLDFM_VERIF",
              "enable": "no instrumentation in /repo: harnesses import the current working tree through /venv's editable install and set BLDFM_VERIF=1 (unused by the source)",
              "baseline_off_cmd": "cd /repo && /venv/bin/python -m pytest -ra -q -p no:cacheprovider --timeout=900 --continue-on-collection-errors",
              "source_commits": [], "add_only": True},
    "engines": [{"name": "lean4-model+tie", "path": "lean/", "serves_properties": [c["property_id"] for c in checks],
                 "kind_free_text": "Lean 4 model (generic scalar: Float for the driver, ℝ/ℂ for theorems), translator tools/extract.py, bridge theorems, correspondence harness tools/harness, oracles tools/props"}],
    "checks": checks,
    "not_applicable": na,
    "notes": "See DESIGN.md. ./check <ID> regenerates lean/BLDFM/Generated from /repo, builds the property's proof+bridge modules, audits axioms, runs correspondence and the oracle; fixes to /repo are listed in known_findings.json.",
}
json.dump(m, open(os.path.join(VERIF, "MANIFEST.json"), "w"), indent=1)
print("manifest: %d checks, %d not claimed" % (len(checks), len(na)))
