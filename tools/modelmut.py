#!/usr/bin/env python3
"""Mutation testing of the TIE: mutate the hand-written Lean model, rebuild the driver only, run the correspondence part
of the checks that exercise the mutated module, and report the mutants the correspondence does NOT notice.

A surviving mutant is either equivalent (the mutation does not change the model's behaviour) or a hole in the
correspondence generators: a region of the model that no generated case reaches, i.e. a place where the theorems could be
about something the code does not do.  Developer tool (never run by a registered check); results go to
work/modelmut-<seed>.json and are summarised in DESIGN.md.

usage: tools/modelmut.py [--seed N] [--per-file K] [--files Solver,Column,...]
"""
import argparse
import json
import os
import random
import re
import shutil
import subprocess
import sys
import time

VERIF = os.path.dirname(os.path.dirname(os.path.abspath(__file__)))
LEAN = os.path.join(VERIF, "lean")
PY = "/venv/bin/python"

# model module -> properties whose correspondence run exercises it
FILE_PROPS = {
    "Solver": ["C11", "C10", "C02", "C05"],
    "Column": ["C01", "C05", "C10"],
    "Grid": ["C11", "C06"],
    "Pbl": ["C09"],
    "KM": ["C19"],
    "SourceArea": ["C20"],
    "Met": ["C16"],
    "Interface": ["C13", "C14"],
    "Runtime": ["C12"],
    "Cache": ["C15"],
    "CacheProto": ["C15"],
    "NcIO": ["C18"],
    "Geo": ["C08", "C17"],
    "Source": ["C13"],
}

OPS = [
    (r" \+ ", " - "), (r" - ", " + "), (r" \* ", " / "), (r" / ", " * "),
    (r" < ", " ≤ "), (r" ≤ ", " < "), (r" > ", " ≥ "), (r" ≥ ", " > "), (r" == ", " != "), (r" && ", " || "), (r" \|\| ", " && "),
    (r"\b0\.5\b", "0.25"), (r"\b2\.0\b", "3.0"), (r"\b16\.0\b", "15.0"), (r"\b5\.0\b", "4.0"), (r"\b1\.0\b", "1.5"),
    (r"\bi \+ 1\b", "i"), (r"\bn \+ 1\b", "n"), (r" \+ 1\b", " + 2"), (r" - 1\b", ""), (r"\b/ 2\b", "/ 3"),
    (r"\.1\b", ".2"), (r"\.2\b", ".1"), (r"\bnx\b", "ny"), (r"\bny\b", "nx"), (r"\bpx\b", "py"), (r"\bpy\b", "px"),
    (r"\btrue\b", "false"), (r"\bfalse\b", "true"), (r"\.sin\b", ".cos"), (r"\.cos\b", ".sin"),
    (r"\bKx\b", "Ky"), (r"\bKy\b", "Kx"), (r"\bu\b", "v"), (r"\bLx\b", "Ly"), (r"\.head\b", ".getLast"), (r"::", "++ [") ,
]


def sh(cmd, cwd=None, timeout=None, env=None):
    return subprocess.run(cmd, cwd=cwd, capture_output=True, text=True, timeout=timeout, env=env)


def code_lines(text):
    """indices of lines that are code (not comments / docstrings / imports)"""
    out, depth = [], 0
    for i, l in enumerate(text.split("\n")):
        s = l.strip()
        if "/-" in s:
            depth += s.count("/-")
        in_comment = depth > 0
        if "-/" in s:
            depth -= s.count("-/")
        if in_comment or s.startswith("--") or s.startswith("import") or s.startswith("namespace") or s.startswith("open") \
                or s.startswith("end ") or s.startswith("deriving") or s.startswith("variable") or s.startswith("structure") or not s:
            continue
        out.append(i)
    return out


def mutants_of(path, rng, k):
    text = open(path).read()
    lines = text.split("\n")
    cand = []
    for i in code_lines(text):
        code = lines[i].split("--")[0]
        for (pat, rep) in OPS:
            for m in re.finditer(pat, code):
                cand.append((i, m.start(), m.end(), rep, pat))
    rng.shuffle(cand)
    seen_lines = {}
    out = []
    for (i, a, b, rep, pat) in cand:
        if seen_lines.get(i, 0) >= 2:
            continue
        seen_lines[i] = seen_lines.get(i, 0) + 1
        new = list(lines)
        new[i] = lines[i][:a] + rep + lines[i][b:]
        out.append(dict(line=i + 1, old=lines[i].strip(), new=new[i].strip(), text="\n".join(new)))
        if len(out) >= k:
            break
    return out


def corr(pid, seed, work):
    env = dict(os.environ)
    env.update(BLDFM_VERIF="1", NUMBA_CACHE_DIR=os.path.join(VERIF, "work", "numba"), VERIF_SEED=str(seed),
               PYTHONPATH=((os.path.join(os.environ["BLDFM_REPO"], "src") + os.pathsep) if os.environ.get("BLDFM_REPO") else "")
               + os.path.join(VERIF, "tools") + os.pathsep + os.path.join(VERIF, "tools", "harness"),
               MPLBACKEND="Agg", PYTHONDONTWRITEBYTECODE="1")
    env.pop("NUMBA_NUM_THREADS", None)
    out = os.path.join(work, "res-%s.json" % pid)
    try:
        r = sh([PY, os.path.join(VERIF, "tools", "harness", "run_prop.py"), pid, "--tier", "quick", "--seed", str(seed), "--out", out],
               cwd=work, env=env, timeout=1800)
    except subprocess.TimeoutExpired:
        return "timeout"
    if r.returncode != 0 or not os.path.exists(out):
        return "harness-error: " + (r.stderr or r.stdout)[-300:]
    res = json.load(open(out))
    n = len(res.get("disagreements") or [])
    return n


def main():
    ap = argparse.ArgumentParser()
    ap.add_argument("--seed", type=int, default=0)
    ap.add_argument("--per-file", type=int, default=6)
    ap.add_argument("--files", default=",".join(FILE_PROPS))
    a = ap.parse_args()
    rng = random.Random(a.seed)
    work = os.path.join(VERIF, "work", "modelmut-%d" % os.getpid())
    os.makedirs(work, exist_ok=True)
    # mutate a private COPY of the Lean project (with its build output), never /verif/lean itself
    global LEAN
    src_lean = LEAN
    LEAN = os.path.join(work, "lean")
    shutil.copytree(src_lean, LEAN, symlinks=True)
    os.environ["BLDFM_DRIVER"] = os.path.join(LEAN, ".lake", "build", "bin", "driver")
    results = []
    try:
        for f in a.files.split(","):
            path = os.path.join(LEAN, "BLDFM", f + ".lean")
            orig = open(path).read()
            for mu in mutants_of(path, rng, a.per_file):
                rec = dict(file=f, line=mu["line"], old=mu["old"], new=mu["new"])
                try:
                    open(path, "w").write(mu["text"])
                    t = time.time()
                    r = sh(["lake", "build", "driver"], cwd=LEAN, timeout=1800)
                    if r.returncode != 0:
                        rec["status"] = "stillborn"
                    else:
                        killed_by = None
                        for pid in FILE_PROPS[f]:
                            n = corr(pid, a.seed, work)
                            if n == "timeout" or (isinstance(n, str)) or n > 0:
                                killed_by = "%s (%s)" % (pid, n if isinstance(n, str) else "%d disagreements" % n)
                                break
                        rec["status"] = "killed" if killed_by else "SURVIVED"
                        rec["by"] = killed_by
                    rec["wall"] = round(time.time() - t, 1)
                finally:
                    open(path, "w").write(orig)
                print(json.dumps(rec), flush=True)
                results.append(rec)
    finally:
        shutil.rmtree(work, ignore_errors=True)
    json.dump(results, open(os.path.join(VERIF, "work", "modelmut-%d.json" % a.seed), "w"), indent=1)
    k = sum(1 for r in results if r["status"] == "killed")
    s = sum(1 for r in results if r["status"] == "SURVIVED")
    b = sum(1 for r in results if r["status"] == "stillborn")
    print("model mutants: %d killed, %d survived, %d stillborn" % (k, s, b))
    return 0


if __name__ == "__main__":
    sys.exit(main())
