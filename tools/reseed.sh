#!/bin/sh
# usage: tools/reseed.sh [mutant-id ...]   -- re-run every stored seeded change against its property's check
# (applies seeded/<id>/patch.diff to /repo, runs ./check, reverts straight afterwards); prints one line each
cd "$(dirname "$0")/.."
export VERIF_EVIDENCE_DIR="$PWD/work/evidence-seeded"
ids=${*:-$(ls seeded)}
for m in $ids; do
  p=$(echo $m | cut -c1-3)
  if ! git -C /repo diff --quiet; then echo "repo dirty, abort"; exit 2; fi
  git -C /repo apply "$PWD/seeded/$m/patch.diff" || { echo "$m: patch does not apply"; continue; }
  out=$(./check $p 2>&1); rc=$?
  git -C /repo checkout -- .
  echo "$m rc=$rc $(echo "$out" | grep -c KNOWN-FINDING) known | $(echo "$out" | tail -1 | cut -c1-200)"
done
