#!/bin/sh
# usage: tools/deeprun.sh <prop> [seed] [tier]  -- developer aid: run ONLY the harness of a property in its deep (failing-input
# search) mode against $BLDFM_REPO (default /repo) and print what it found; used to check the search itself for false alarms
cd "$(dirname "$0")/.."
p=$1; seed=${2:-0}; tier=${3:-quick}
repo=${BLDFM_REPO:-/repo}
w=work/deep-$p-$$; mkdir -p $w
( cd $w && BLDFM_VERIF=1 NUMBA_CACHE_DIR=/verif/work/numba MPLBACKEND=Agg PYTHONDONTWRITEBYTECODE=1 \
  PYTHONPATH=$( [ "$repo" != /repo ] && echo $repo/src: )/verif/tools:/verif/tools/harness \
  /venv/bin/python /verif/tools/harness/run_prop.py $p --tier $tier --seed $seed --deep --out result.json > out.log 2>&1; echo "rc=$?" )
python3 - "$w/result.json" <<'PY'
import json, sys
try:
    r = json.load(open(sys.argv[1]))
except Exception as e:
    print("no result:", e); print(open(sys.argv[1].replace("result.json", "out.log")).read()[-2000:]); sys.exit(0)
print("oracle evaluations", r.get("oracle_evaluations"), "corr", r.get("corr_cases"), "disagreements", len(r.get("disagreements", [])))
for f in r.get("oracle_failures", [])[:8]:
    print("  FAIL", f.get("key"), "|", str(f.get("what"))[:160], "| exp", str(f.get("expected"))[:80], "obs", str(f.get("observed"))[:120])
for d in r.get("disagreements", [])[:5]:
    print("  DIS", str(d.get("what"))[:200])
PY
rm -rf $w
