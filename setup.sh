#!/bin/sh
# Build the framework offline from files on disk: regenerate the translated
# kernels from /repo, then build the Lean model, the proofs and the driver.
set -e
cd "$(dirname "$0")"
mkdir -p work evidence replays
python3 tools/extract.py || true
cd lean
lake build
