#!/bin/sh
# Build the framework offline from files on disk: regenerate the translated
# kernels from /repo, then build the Lean model, the proofs and the driver.
set -e
cd "$(dirname "$0")"
mkdir -p work evidence replays
python3 tools/extract.py || true
cd lean
lake build
# pre-build every registered proof / bridge module so that the per-property checks only re-elaborate what a change of
# /repo invalidates (a module that fails here is reported by the check that owns it, not by the set-up)
mods=$(python3 -c "import sys; sys.path.insert(0, '../tools'); from registry import REGISTRY; print(' '.join(sorted({m for s in REGISTRY.values() for (_, m, _) in s['theorems']})))")
lake build $mods || true
