/-
  BLDFM.NcIO — `save_footprints_to_netcdf` / `load_footprints_from_netcdf` (src/bldfm/io.py):
  how multi-tower, multi-time results are assembled into a `(time, tower, [z,] y, x)` dataset with
  label coordinates and per-tower / per-step metadata.  Loading is the identity on that structure
  (byte fidelity of netCDF4/zlib/xarray is trusted and exercised by the correspondence run).
-/
import BLDFM.Interface

namespace BLDFM

/-- the `grid` entry of a result: 3-D meshgrids `[k, j, i]` (3-D output), 2-D meshgrids `[j, i]`, or plain
coordinate vectors (accepted by the writer for 2-D output) -/
inductive NcGrid where
  | g3 (X Y Z : Nat → Nat → Nat → V)
  | g2 (X Y : Nat → Nat → V)
  | g1 (x y : Nat → V)

/-- coordinate extraction of the writer: `X[0,0,:]`, `Y[0,:,0]`, `Z[:,0,0]` for 3-D output; `X[0,:]`, `Y[:,0]` for 2-D
meshgrids; vectors pass through -/
def NcGrid.coords : NcGrid → (Nat → V) × (Nat → V) × Option (Nat → V)
  | .g3 X Y Z => (fun i => X 0 0 i, fun j => Y 0 j 0, some (fun k => Z k 0 0))
  | .g2 X Y => (fun i => X 0 i, fun j => Y j 0, none)
  | .g1 x y => (x, y, none)

/-- one result dictionary, reduced to what the writer reads -/
structure NcResult where
  grid : NcGrid := .g1 (fun _ => 0) (fun _ => 0)
  /-- field values by flattened cell index -/
  flx : Nat → V
  conc : Nat → V
  timestamp : V
  ustar : Option V
  mol : Option V
  windSpeed : Option V
  windDir : Option V

structure NcTower where
  name : V
  lat : V
  lon : V
  zm : V
deriving Repr, DecidableEq

/-- the dataset as written (and read back) -/
structure NcDataset where
  timeLabels : List V
  towerLabels : List V
  /-- sizes of the `time` and `tower` dimensions -/
  nTime : Nat
  nTowers : Nat
  /-- coordinate variables (from the FIRST result's grid); `z` only for 3-D output -/
  x : Nat → V
  y : Nat → V
  z : Option (Nat → V)
  /-- `footprint[t, ti, cell]`, `concentration[t, ti, cell]` -/
  footprint : Nat → Nat → Nat → V
  concentration : Nat → Nat → Nat → V
  /-- per-step met values (`none` = NaN) -/
  ustar : Nat → Option V
  mol : Nat → Option V
  windSpeed : Nat → Option V
  windDir : Nat → Option V
  /-- per-tower metadata -/
  towerLat : Nat → Option V
  towerLon : Nat → Option V
  towerZ : Nat → Option V

def NcResult.dflt : NcResult :=
  { grid := .g1 (fun _ => 0) (fun _ => 0), flx := fun _ => 0, conc := fun _ => 0, timestamp := 0, ustar := none, mol := none, windSpeed := none, windDir := none }

/-- `save_footprints_to_netcdf(results, config, path)`; `results` is the ordered dict
tower name ↦ list of result dicts, `towers` the configuration's tower list -/
def ncSave (results : List (V × List NcResult)) (towers : List NcTower) : NcDataset :=
  let first : List NcResult := match results with | [] => [] | (_, s) :: _ => s
  let at_ := fun (ti t : Nat) => ((results.getD ti (0, [])).2).getD t NcResult.dflt
  let g : NcGrid := (first.getD 0 NcResult.dflt).grid
  { timeLabels := first.map (fun r => r.timestamp),
    towerLabels := results.map (fun p => p.1),
    nTime := first.length,
    nTowers := results.length,
    x := g.coords.1,
    y := g.coords.2.1,
    z := g.coords.2.2,
    footprint := fun t ti c => (at_ ti t).flx c,
    concentration := fun t ti c => (at_ ti t).conc c,
    -- met parameters are taken from the first tower
    ustar := fun t => (at_ 0 t).ustar,
    mol := fun t => (at_ 0 t).mol,
    windSpeed := fun t => (at_ 0 t).windSpeed,
    windDir := fun t => (at_ 0 t).windDir,
    -- tower metadata comes from the CONFIG list, by position
    towerLat := fun ti => (towers[ti]?).map (fun t => t.lat),
    towerLon := fun ti => (towers[ti]?).map (fun t => t.lon),
    towerZ := fun ti => (towers[ti]?).map (fun t => t.zm) }

/-- `ds.sel(tower=name)`: index of the first tower carrying the label -/
def NcDataset.selTower (ds : NcDataset) (name : V) : Option Nat :=
  let k := ds.towerLabels.idxOf name
  if k < ds.towerLabels.length then some k else none

def NcDataset.selTime (ds : NcDataset) (label : V) : Option Nat :=
  let k := ds.timeLabels.idxOf label
  if k < ds.timeLabels.length then some k else none

end BLDFM
