/-
  BLDFM.Geo — `compute_wind_fields` (utils.py), `latlon_to_xy` (config_parser.py),
  `xy_to_latlon` (plotting/_geo.py).
-/
import BLDFM.Scalar

namespace BLDFM

section
variable {R C : Type}
variable [Add R] [Sub R] [Mul R] [Div R] [Neg R] [OfScientific R]
variable (F : Fns R C)

/-- degrees → radians, as numpy/math do it: `x · (π/180)` -/
def deg2rad (x : R) : R := x * (F.pi / 180.0)
def rad2deg (x : R) : R := x * (180.0 / F.pi)

/-- meteorological convention: direction the wind blows FROM, clockwise from north -/
def windFields (speed wd : R) : R × R :=
  (-speed * F.sin (deg2rad F wd), -speed * F.cos (deg2rad F wd))

def earthRadius : R := 6371000.0

/-- equirectangular local coordinates (east, north) in metres -/
def latlonToXy (lat lon refLat refLon : R) : R × R :=
  (earthRadius * (deg2rad F lon - deg2rad F refLon) * F.cos (deg2rad F refLat),
   earthRadius * (deg2rad F lat - deg2rad F refLat))

/-- inverse transform, returns `(lat, lon)` -/
def xyToLatlon (x y refLat refLon : R) : R × R :=
  (refLat + rad2deg F (y / earthRadius),
   refLon + rad2deg F (x / (earthRadius * F.cos (deg2rad F refLat))))

end

end BLDFM
