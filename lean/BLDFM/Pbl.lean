/-
  BLDFM.Pbl — `vertical_profiles`, `psi`, `phi` (src/bldfm/pbl_model.py).
-/
import BLDFM.Scalar
import BLDFM.Column

namespace BLDFM

inductive Closure where
  | most | mostm | constant | oaahoc | invalid
deriving Repr, DecidableEq

structure PblReq (R : Type) where
  n : Nat
  zm : R
  um : R
  vm : R
  ustar : Option R
  z0 : Option R
  mol : R
  prsc : R
  closure : Closure
  domainHeight : Option R
  stretch : Option R
  tke : Option R

structure PblOut (R : Type) where
  len : Nat
  z : Nat → R
  P : Profiles R

section
variable {R C : Type}
variable [Add R] [Sub R] [Mul R] [Div R] [Neg R] [OfScientific R] [HPow R Nat R]
variable [LT R] [DecidableLT R]
variable (F : Fns R C)

/-- stability correction (integral of the flux-gradient function; sign convention of the code:
`|U|(z) = u*/κ · (ln(z/z0) + psi(z/L))`) -/
def psiUnstable (xi : R) : R :=
  (-2.0) * F.log (0.5 * (1.0 + xi)) - F.log (0.5 * (1.0 + xi ^ (2 : Nat))) + 2.0 * F.arctan xi - 0.5 * F.pi

def psi (x : R) : R :=
  if 0.0 < x then 5.0 * x else psiUnstable F (F.rpow (1.0 - 16.0 * x) 0.25)

/-- flux-gradient function of the eddy diffusivity -/
def phi (x : R) : R :=
  if 0.0 < x then 1.0 + 5.0 * x else F.rpow (1.0 - 16.0 * x) (-0.5)

def kappa : R := 0.4
def oaCl : R := 0.845
def oaCm : R := 0.0856
def oaCh : R := 0.204

/-- roughness length from the friction velocity (MOST family) -/
def z0FromUstar (zm absum ustar mol : R) : R :=
  zm * F.exp (-(kappa : R) * absum / ustar + psi F (zm / mol))

/-- friction velocity from the roughness length (MOST family) -/
def ustarFromZ0 (zm absum z0 mol : R) : R :=
  absum * kappa / (F.log (zm / z0) + psi F (zm / mol))

/-- roughness length of the one-and-a-half order closure -/
def z0Oaahoc (zm absum ustar tke : R) : R :=
  zm * F.exp (-(oaCm : R) * oaCl * absum * F.sqrt tke / ustar ^ (2 : Nat))

/-- stretched vertical grid: `z(ζ) = -h ln((aa - ζ)/bb)` with `z(0) = z0`, `z(zm) = zm` -/
def gridBB (zm z0 h : R) : R := zm / (F.exp (-z0 / h) - F.exp (-zm / h))
def gridAA (zm z0 h : R) : R := gridBB F zm z0 h * F.exp (-z0 / h)
def gridZetaMax (zm z0 h zmx : R) : R := gridAA F zm z0 h - gridBB F zm z0 h * F.exp (-zmx / h)
def gridZ (zm z0 h zeta : R) : R := -h * F.log (-(zeta - gridAA F zm z0 h) / gridBB F zm z0 h)

/-- numpy `arange(0, stop, step)` length: `ceil(stop/step)` -/
def arangeLen (stop step : R) : Nat :=
  let x := stop / step
  let k := F.truncNat x
  if F.natCast k < x then k + 1 else k

/-- wind speed and scalar diffusivity at height `z` (MOST family) -/
def absuMost (ustar z0 mol z : R) : R := ustar / kappa * (F.log (z / z0) + psi F (z / mol))
def kMost (ustar mol prsc z : R) : R := kappa * ustar * z / phi F (z / mol) / prsc

def verticalProfiles (q : PblReq R) : Except ErrKind (PblOut R) :=
  let absum := F.sqrt (q.um ^ (2 : Nat) + q.vm ^ (2 : Nat))
  -- closure parameters: (z0, ustar)
  let pars : Except ErrKind (R × R × R) :=
    match q.closure with
    | .constant | .most | .mostm =>
      match q.z0, q.ustar with
      | none, some us => .ok (z0FromUstar F q.zm absum us q.mol, us, 1.0)
      | some z0, none => .ok (z0, ustarFromZ0 F q.zm absum z0 q.mol, 1.0)
      | some _, some _ => .error .valueError
      | none, none => .error .other
    | .oaahoc =>
      match q.ustar with
      | some us =>
        let tke := match q.tke with | some t => t | none => 1.0
        .ok (z0Oaahoc F q.zm absum us tke, us, tke)
      | none => .error .other
    | .invalid => .error .valueError
  match pars with
  | .error e => .error e
  | .ok (z0, ustar, tke) =>
    let h := match q.stretch with | some s => s | none => 2.0 * q.zm
    let zmx := match q.domainHeight with | some d => d | none => 2.0 * q.zm
    let dzeta := q.zm / F.natCast q.n
    let len := arangeLen F (gridZetaMax F q.zm z0 h zmx + dzeta) dzeta
    let z : Nat → R := fun k => gridZ F q.zm z0 h (F.natCast k * dzeta)
    let P : Profiles R :=
      match q.closure with
      | .constant =>
        let km := kappa * ustar * q.zm / q.prsc
        { u := fun _ => q.um * 1.0, v := fun _ => q.vm * 1.0, Kx := fun _ => km * 1.0, Ky := fun _ => km * 1.0, Kz := fun _ => km * 1.0 }
      | .most =>
        let au := fun k => absuMost F ustar z0 q.mol (z k)
        let K := fun k => kMost F ustar q.mol q.prsc (z k)
        { u := fun k => q.um / absum * au k, v := fun k => q.vm / absum * au k, Kx := K, Ky := K, Kz := K }
      | .mostm =>
        let au := fun k => absuMost F ustar z0 q.mol (z k)
        let K := fun k => kMost F ustar q.mol q.prsc (z k)
        let u := fun k => q.um / absum * au k
        let v := fun k => q.vm / absum * au k
        { u := u, v := v,
          Kx := fun k => K k * v k ^ (2 : Nat) / (u k ^ (2 : Nat) + v k ^ (2 : Nat)),
          Ky := fun k => K k * u k ^ (2 : Nat) / (u k ^ (2 : Nat) + v k ^ (2 : Nat)),
          Kz := K }
      | .oaahoc =>
        let au := fun k => ustar ^ (2 : Nat) / oaCm / oaCl / F.sqrt tke * F.log (z k / z0)
        let K := fun k => oaCh * oaCl * z k * F.sqrt tke
        { u := fun k => q.um / absum * au k, v := fun k => q.vm / absum * au k, Kx := K, Ky := K, Kz := K }
      | .invalid => { u := fun _ => 0.0, v := fun _ => 0.0, Kx := fun _ => 0.0, Ky := fun _ => 0.0, Kz := fun _ => 0.0 }
    .ok { len := len, z := z, P := P }

end

end BLDFM
