/-
  BLDFM.Grid — index plumbing of the solver: memoisation, padding, cropping,
  fftshift / ifftshift, truncation, signed frequencies, the 2-D DFT.
-/
import BLDFM.Column

namespace BLDFM

/-- a materialised 1-D table with a fallback function (so that `get` is
extensionally the tabulated function, `Tab1.get_tab`) -/
structure Tab1 (α : Type) where
  arr : Array α
  dflt : Nat → α

def Tab1.tab {α : Type} (n : Nat) (f : Nat → α) : Tab1 α :=
  { arr := Array.ofFn (n := n) (fun i => f i.val), dflt := f }

def Tab1.get {α : Type} (t : Tab1 α) (i : Nat) : α :=
  if h : i < t.arr.size then t.arr[i] else t.dflt i

/-- a materialised 2-D table (row-major) with a fallback function -/
structure Tab2 (α : Type) where
  nx : Nat
  arr : Array α
  dflt : Nat → Nat → α

def Tab2.tab {α : Type} (ny nx : Nat) (f : Nat → Nat → α) : Tab2 α :=
  { nx := nx, arr := Array.ofFn (n := ny * nx) (fun k => f (k.val / nx) (k.val % nx)), dflt := f }

def Tab2.get {α : Type} (t : Tab2 α) (j i : Nat) : α :=
  if h : i < t.nx ∧ j * t.nx + i < t.arr.size then t.arr[j * t.nx + i]'h.2 else t.dflt j i

/-- numpy `fftshift` along an axis of length `n`: `out[k] = x[(k - n/2) mod n]` -/
def fftshiftIdx (n k : Nat) : Nat := (k + n - n / 2) % n

/-- numpy `ifftshift` along an axis of length `n`: `out[k] = x[(k + n/2) mod n]` -/
def ifftshiftIdx (n k : Nat) : Nat := (k + n / 2) % n

/-- index in the full spectrum (length `N`) that ends up in slot `a` of the
truncated, un-shifted spectrum (length `nl`, offset `d`):
`ifftshift(fftshift(F)[d : d+nl])[a] = F[truncSrc N nl d a]` -/
def truncSrc (N nl d a : Nat) : Nat :=
  fftshiftIdx N (ifftshiftIdx nl a + d)

section
variable {R C : Type}
variable [Add R] [Sub R] [Mul R] [Div R] [Neg R] [OfScientific R] [HPow R Nat R]
variable [Add C] [Sub C] [Mul C] [Div C] [Neg C] [OfScientific C] [HPow C Nat C]
variable (F : Fns R C)

/-- `exp(sgn · 2πi · k / N)`, with `k` reduced mod `N` first -/
def twiddle (sgn : R) (N k : Nat) : C :=
  F.cexp (F.I * F.ofReal (sgn * (2.0 * F.pi) * F.natCast (k % N) / F.natCast N))

/-- 1-D DFT sum with the given sign in the exponent -/
def dft1 (tw : Nat → C) (N : Nat) (x : Nat → C) (a : Nat) : C :=
  sumN 0.0 N (fun j => x j * tw (a * j))

/-- 2-D DFT (no normalisation), sign `sgn` in the exponent, `Ny × Nx` -/
def dft2 (sgn : R) (Ny Nx : Nat) (x : Nat → Nat → C) : Tab2 C :=
  let twx := Tab1.tab Nx (fun k => twiddle F sgn Nx k)
  let twy := Tab1.tab Ny (fun k => twiddle F sgn Ny k)
  let rows := Tab2.tab Ny Nx (fun j b => dft1 (fun k => twx.get (k % Nx)) Nx (fun i => x j i) b)
  Tab2.tab Ny Nx (fun a b => dft1 (fun k => twy.get (k % Ny)) Ny (fun j => rows.get j b) a)

end

end BLDFM
