/-
  BLDFM.Dtype — numpy result-dtype inheritance and store truncation, as far as C19 / C20 need it.

  `np.zeros_like(x)` / `np.empty_like(x)` allocate an array of x's dtype; with `dtype=float` (or another
  array's dtype) the result type is fixed.  Assigning a float into an integer array truncates toward zero.
  The helpers of ffm_kormann_meixner.py (`_phiM`, `_phiC`, `_psiM`, `_nParam`) and `get_source_area`
  follow the pattern  out = alloc_like(input);  out[mask] = f(input)[mask];  return out.
-/
namespace BLDFM

inductive DT where
  | int
  | float
deriving Repr, DecidableEq

/-- how a helper allocates its result -/
inductive AllocKind where
  /-- `np.zeros_like(x)`: the input's dtype -/
  | inherit
  /-- `np.zeros_like(x, dtype=float)` / `dtype=<a float array>.dtype` -/
  | float
deriving Repr, DecidableEq

def AllocKind.result (a : AllocKind) (input : DT) : DT :=
  match a with
  | .inherit => input
  | .float => .float

/-- value that lands in an array of dtype `dt` when `v` is assigned (`trunc` = truncation toward zero) -/
def storeAs {R : Type} (trunc : R → R) (dt : DT) (v : R) : R :=
  match dt with
  | .int => trunc v
  | .float => v

/-- a masked-store helper applied to an input of dtype `input` holding the number `x` -/
def maskedHelper {R : Type} (trunc : R → R) (a : AllocKind) (f : R → R) (input : DT) (x : R) : R :=
  storeAs trunc (a.result input) (f x)

end BLDFM
