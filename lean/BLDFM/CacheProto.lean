/-
  BLDFM.CacheProto — the write protocol of the Green's-function cache (src/bldfm/cache.py
  `__init__`, `get`, `put`) at the granularity of single file-system operations, for SEVERAL
  processes sharing one cache directory (the parallel drivers attach a fresh cache object in every
  worker, interface.py `_make_cache`).

  A `put` is three micro-steps: `np.savez(tmp, ...)` starts (the temporary file exists with partial
  content), finishes (full content), `os.replace(tmp, path)`.  Between any two micro-steps of one
  process any other process may run any of its own steps; a process may die after any step.

  The configuration is read off the code by the static extract (`Generated.Tables.protoCfg`).
-/
namespace BLDFM

structure ProtoCfg where
  /-- `put` writes to a temporary name and renames it onto the entry -/
  atomicWrite : Bool
  /-- the temporary name contains the writer's process id -/
  tempPerProcess : Bool
  /-- constructing a cache object removes files from the directory (e.g. "stale" temporaries) -/
  initRemovesTemps : Bool
  /-- `get` treats an unreadable entry as a miss -/
  guardedLoad : Bool
deriving Repr, DecidableEq

inductive FName where
  | final (k : Nat)
  | temp (k : Nat) (pid : Nat)
deriving Repr, DecidableEq

inductive Content where
  | full (res : Nat)
  | torn
deriving Repr, DecidableEq

/-- the directory: association list, latest binding first; `none` = removed -/
abbrev FS := List (FName × Option Content)

def FS.look : FS → FName → Option Content
  | [], _ => none
  | (n, c) :: rest, m => if n = m then c else FS.look rest m

/-- where a process stands inside a `put` -/
inductive PState where
  | idle
  | writing (k : Nat) (res : Nat)     -- savez has created the file, content partial
  | written (k : Nat) (res : Nat)     -- savez finished, rename pending
deriving Repr, DecidableEq

abbrev Procs := List (Nat × PState)

def Procs.look : Procs → Nat → PState
  | [], _ => .idle
  | (p, s) :: rest, q => if p = q then s else Procs.look rest q

structure PWorld where
  fs : FS
  procs : Procs

inductive PStep where
  /-- `GreensFunctionCache(dir)` in process `pid` -/
  | init (pid : Nat)
  /-- `put`, step 1: `np.savez` creates / truncates the target of the write -/
  | beginWrite (pid k res : Nat)
  /-- `put`, step 2: `np.savez` completes -/
  | endWrite (pid : Nat)
  /-- `put`, step 3: `os.replace(tmp, path)` (nothing to do for the in-place protocol) -/
  | rename (pid : Nat)
  /-- `get(k)` -/
  | read (pid k : Nat)
  /-- the process dies; its files stay -/
  | crash (pid : Nat)
deriving Repr

inductive POut where
  | ok
  | hit (res : Nat)
  | miss
  /-- an exception escapes (FileNotFoundError from `os.replace`, an unguarded load error) -/
  | fail
  /-- step not enabled in this state (harness error, never produced by the code) -/
  | stuck
deriving Repr, DecidableEq

/-- the file a writer of key `k` in process `pid` writes to -/
def ProtoCfg.target (cfg : ProtoCfg) (k pid : Nat) : FName :=
  if cfg.atomicWrite then .temp k (if cfg.tempPerProcess then pid else 0) else .final k

def isTemp : FName → Bool
  | .temp _ _ => true
  | .final _ => false

/-- remove every temporary file (what a "clean-up of stale temporaries" in `__init__` does) -/
def FS.dropTemps : FS → FS
  | [] => []
  | (n, c) :: rest => if isTemp n then FS.dropTemps rest else (n, c) :: FS.dropTemps rest

def pstep (cfg : ProtoCfg) (w : PWorld) : PStep → PWorld × POut
  | .init _ =>
    if cfg.initRemovesTemps then ({ w with fs := w.fs.dropTemps }, .ok) else (w, .ok)
  | .beginWrite pid k res =>
    match w.procs.look pid with
    | .idle => ({ fs := (cfg.target k pid, some .torn) :: w.fs, procs := (pid, .writing k res) :: w.procs }, .ok)
    | _ => (w, .stuck)
  | .endWrite pid =>
    match w.procs.look pid with
    | .writing k res =>
      -- the bytes go to the file the writer opened; if the name is gone they are lost with it
      match w.fs.look (cfg.target k pid) with
      | some _ => ({ fs := (cfg.target k pid, some (.full res)) :: w.fs, procs := (pid, .written k res) :: w.procs }, .ok)
      | none => ({ w with procs := (pid, .written k res) :: w.procs }, .ok)
    | _ => (w, .stuck)
  | .rename pid =>
    match w.procs.look pid with
    | .written k _ =>
      if cfg.atomicWrite then
        match w.fs.look (cfg.target k pid) with
        | some c => ({ fs := (.final k, some c) :: (cfg.target k pid, none) :: w.fs, procs := (pid, .idle) :: w.procs }, .ok)
        | none => ({ w with procs := (pid, .idle) :: w.procs }, .fail)
      else ({ w with procs := (pid, .idle) :: w.procs }, .ok)
    | _ => (w, .stuck)
  | .read _ k =>
    match w.fs.look (.final k) with
    | some (.full res) => (w, .hit res)
    | some .torn => (w, if cfg.guardedLoad then .miss else .fail)
    | none => (w, .miss)
  | .crash pid => ({ w with procs := (pid, .idle) :: w.procs }, .ok)

def prun (cfg : ProtoCfg) : PWorld → List PStep → PWorld × List POut
  | w, [] => (w, [])
  | w, s :: rest =>
    let (w', o) := pstep cfg w s
    let (w'', os) := prun cfg w' rest
    (w'', o :: os)

end BLDFM
