/-
  BLDFM.Runtime — the process-global state a solve reads or writes
  (config.NUM_THREADS, fft_manager._fft_manager, pyfftw.config.NUM_THREADS, the table of
  compiled kernel variants inside `parallelize`) and the operations that change it.
-/
import BLDFM.Scalar

namespace BLDFM

structure RtState where
  /-- `bldfm.config.NUM_THREADS` -/
  numThreads : Nat
  /-- thread count of the FFT-manager singleton, `none` = not created -/
  fftMgr : Option Nat
  /-- `pyfftw.config.NUM_THREADS` as last set by a manager (`none` = never set by BLDFM) -/
  pyfftwThreads : Option Nat
  /-- which variants of the sweep kernel have been compiled: (serial, parallel) -/
  compiledSerial : Bool
  compiledParallel : Bool
deriving Repr, DecidableEq

def RtState.init : RtState :=
  { numThreads := 1, fftMgr := none, pyfftwThreads := none, compiledSerial := false, compiledParallel := false }

/-- `get_fft_manager(num_threads=t)`: re-created iff absent or its thread count differs -/
def getMgr (s : RtState) (t : Nat) : RtState :=
  match s.fftMgr with
  | some t' => if t' = t then s else { s with fftMgr := some t, pyfftwThreads := some t }
  | none => { s with fftMgr := some t, pyfftwThreads := some t }

structure RtSolve where
  /-- opaque identifier of all solver arguments -/
  req : Nat
  footprint : Bool
  analytic : Bool
deriving Repr, DecidableEq

inductive RtOp where
  | setThreads (n : Nat)
  | solve (r : RtSolve)
  | fft2
  | resetFft
  /-- the reset sequence at the start of a pool worker: NUM_THREADS := 1, reset_fft_manager() -/
  | workerReset
deriving Repr, DecidableEq

/-- what a solve returns: a function of the request and of WHICH kernel variant runs, nothing else -/
structure RtOut where
  req : Nat
  parallelKernel : Bool
deriving Repr, DecidableEq

/-- state after a solve (solver.py: forward transform, thread set-up, sweeps, final transform) -/
def solveState (s : RtState) (r : RtSolve) : RtState :=
  let s1 := if r.footprint then s else getMgr s 1
  let s2 := if r.analytic then s1 else
    let par := decide (s.numThreads > 1)
    let s' := getMgr s1 (if par then s.numThreads else 1)
    if par then { s' with compiledParallel := true } else { s' with compiledSerial := true }
  getMgr s2 1

def solveOut (s : RtState) (r : RtSolve) : RtOut :=
  { req := r.req, parallelKernel := !r.analytic && decide (s.numThreads > 1) }

def rtStep (s : RtState) : RtOp → RtState × Option RtOut
  | .setThreads n => ({ s with numThreads := n }, none)
  | .solve r => (solveState s r, some (solveOut s r))
  | .fft2 => (getMgr s 1, none)
  | .resetFft => ({ s with fftMgr := none }, none)
  | .workerReset => ({ s with numThreads := 1, fftMgr := none }, none)

def rtRun (s : RtState) : List RtOp → RtState × List (Option RtOut)
  | [] => (s, [])
  | op :: ops =>
    let (s', o) := rtStep s op
    let (s'', os) := rtRun s' ops
    (s'', o :: os)

end BLDFM
