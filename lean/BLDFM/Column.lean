/-
  BLDFM.Column — the vertical (per horizontal Fourier component) part of
  `steady_state_transport_solver` / `ivp_solver` (src/bldfm/solver.py).

  Generic in the scalar types; see `BLDFM.Scalar`.
-/
import BLDFM.Scalar

namespace BLDFM

/-- the five vertical profiles, indexed by node -/
structure Profiles (R : Type) where
  u : Nat → R
  v : Nat → R
  Kx : Nat → R
  Ky : Nat → R
  Kz : Nat → R

section
variable {R C : Type}
variable [Add R] [Sub R] [Mul R] [Div R] [Neg R] [OfScientific R] [HPow R Nat R]
variable [Add C] [Sub C] [Mul C] [Div C] [Neg C] [OfScientific C] [HPow C Nat C]
variable (F : Fns R C)

/-- finite sum `f 0 + … + f (n-1)` -/
def sumN {α : Type} [Add α] (zero : α) : Nat → (Nat → α) → α
  | 0, _ => zero
  | n + 1, f => sumN zero n f + f n

/-- `Ti` of the layer loop (solver.py, `ivp_solver`) -/
def Tcoef (P : Profiles R) (Lx Ly : R) (i : Nat) : C :=
  -(F.ofReal (P.Kx i * Lx ^ (2 : Nat) + P.Ky i * Ly ^ (2 : Nat)))
    - F.I * F.ofReal (P.u i) * F.ofReal Lx - F.I * F.ofReal (P.v i) * F.ofReal Ly

/-- layer coefficients: degree-3 Taylor polynomial of `exp(dz·[[0,-1/Kz],[T,0]])` -/
def coefA (T Kzinv dz : C) : C := 1.0 - 0.5 * Kzinv * T * dz ^ (2 : Nat)
def coefB (T Kzinv dz : C) : C := -Kzinv * dz + 1.0 / 6.0 * Kzinv ^ (2 : Nat) * T * dz ^ (3 : Nat)
def coefC (T Kzinv dz : C) : C := T * dz - 1.0 / 6.0 * Kzinv * T ^ (2 : Nat) * dz ^ (3 : Nat)
def coefD (T Kzinv dz : C) : C := 1.0 - 0.5 * Kzinv * T * dz ^ (2 : Nat)

/-- one layer of the sweep: `(p, q) ↦ (a p + b q, c p + d q)` -/
def layerStep (T Kzinv dz : C) (pq : C × C) : C × C :=
  (coefA T Kzinv dz * pq.1 + coefB T Kzinv dz * pq.2,
   coefC T Kzinv dz * pq.1 + coefD T Kzinv dz * pq.2)

/-- state of the sweep after `i` layers (all coefficients read at node `i`,
thickness `z (i+1) - z i`) -/
def ivpState (P : Profiles R) (z : Nat → R) (Lx Ly : R) (pq0 : C × C) : Nat → C × C
  | 0 => pq0
  | i + 1 =>
    layerStep (Tcoef F P Lx Ly i) (F.ofReal (1.0 / P.Kz i)) (F.ofReal (z (i + 1) - z i))
      (ivpState P z Lx Ly pq0 i)

/-- decaying vertical wavenumber of the constant-coefficient continuation above
the top node `top = nz-1` -/
def eigval (P : Profiles R) (top : Nat) (Lx Ly : R) : C :=
  let Kzinv := 1.0 / P.Kz top
  F.csqrt (F.ofReal (P.Kx top * Kzinv * Lx ^ (2 : Nat)) + F.ofReal (P.Ky top * Kzinv * Ly ^ (2 : Nat))
    + F.I * F.ofReal (P.u top * Kzinv * Lx) + F.I * F.ofReal (P.v top * Kzinv * Ly))

/-- shooting coefficient -/
def alphaShoot (Kztop : R) (lam : C) (pq1 pq2 : C × C) : C :=
  -(pq2.2 - F.ofReal Kztop * lam * pq2.1) / (pq1.2 - F.ofReal Kztop * lam * pq1.1)

/-- numerical column for one non-constant mode: `(p, q)` at node `l`, for
spectral surface flux `qh` -/
def columnNum (P : Profiles R) (z : Nat → R) (top : Nat) (Lx Ly : R) (qh : C) (l : Nat) : C × C :=
  let one : C := 1.0
  let zero : C := 0.0
  let s1 := ivpState F P z Lx Ly (one, zero)
  let s2 := ivpState F P z Lx Ly (zero, qh)
  let al := alphaShoot F (P.Kz top) (eigval F P top Lx Ly) (s1 top) (s2 top)
  (al * (s1 l).1 + (s2 l).1, al * (s1 l).2 + (s2 l).2)

/-- analytic column for one non-constant mode (uniform profiles) -/
def columnAna (P : Profiles R) (z : Nat → R) (top : Nat) (Lx Ly : R) (qh : C) (l : Nat) : C × C :=
  let lam := eigval F P top Lx Ly
  let h := F.ofReal (z l - z 0)
  let q := qh * F.cexp (-lam * h)
  (q * F.ofReal (1.0 / P.Kz top) / lam, q)

/-- vertical resistance of the mean mode up to node `l` (trapezoid rule) -/
def resistNum (P : Profiles R) (z : Nat → R) (l : Nat) : R :=
  sumN 0.0 l (fun i => (z (i + 1) - z i) * (0.5 / P.Kz i + 0.5 / P.Kz (i + 1)))

/-- mean-mode concentration, numerical -/
def meanNum (P : Profiles R) (z : Nat → R) (bg : C) (q00 : C) (l : Nat) : C :=
  bg - q00 * F.ofReal (resistNum P z l)

/-- mean-mode concentration, analytic -/
def meanAna (P : Profiles R) (z : Nat → R) (top : Nat) (bg : C) (q00 : C) (l : Nat) : C :=
  bg - q00 * F.ofReal (1.0 / P.Kz top) * F.ofReal (z l - z 0)

end

end BLDFM
