/-
  BLDFM.KM — Kormann & Meixner (2001) reference footprint (src/bldfm/ffm_kormann_meixner.py):
  stability functions, power-law parameters, the per-cell footprint expression, the rotation
  into along/cross-wind coordinates, and the raw roughness-length estimate.
-/
import BLDFM.Scalar
import BLDFM.Column

namespace BLDFM

section
variable {R C : Type}
variable [Add R] [Sub R] [Mul R] [Div R] [Neg R] [OfScientific R] [HPow R Nat R]
variable [LT R] [DecidableLT R] [LE R] [DecidableLE R]
variable (F : Fns R C)

def vonKarman : R := 0.4

/-- Eq. (33): `phi_m` -/
def kmPhiM (zm L : R) : R :=
  if L < 0.0 then F.rpow (1.0 - 16.0 * zm / L) (-0.25)
  else if L ≥ 0.0 then 1.0 + 5.0 * zm / L else 0.0

/-- Eq. (34): `phi_c` -/
def kmPhiC (zm L : R) : R :=
  if L < 0.0 then F.rpow (1.0 - 16.0 * zm / L) (-0.5)
  else if L ≥ 0.0 then 1.0 + 5.0 * zm / L else 0.0

def kmPsiUnstable (xi : R) : R :=
  (-2.0) * F.log (0.5 * (1.0 + xi)) - F.log (0.5 * (1.0 + xi ^ (2 : Nat))) + 2.0 * F.arctan xi - F.pi * 0.5

/-- Eq. (35): `psi_m` (diabatic integration of the wind profile) -/
def kmPsiM (zm L : R) : R :=
  if L < 0.0 then kmPsiUnstable F (F.rpow (1.0 - 16.0 * zm / L) 0.25)
  else if L ≥ 0.0 then 5.0 * zm / L else 0.0

/-- Eq. (36): exponent of the power-law wind profile -/
def kmM (zm ws ustar L : R) : R := ustar * kmPhiM F zm L / (vonKarman * ws)

/-- Eq. (36): exponent of the power-law diffusivity profile -/
def kmN (zm L : R) : R :=
  if L < 0.0 then (1.0 - 24.0 * zm / L) / (1.0 - 16.0 * zm / L)
  else if L ≥ 0.0 then 1.0 / (1.0 + 5.0 * zm / L) else 0.0

/-- constants of the power laws, shape factor, flux length scale -/
structure KmPar (R : Type) where
  m : R
  n : R
  kappa : R
  U : R
  r : R
  mu : R
  Xi : R
  gmm : R
  mr : R
  A : R
  num : R

def kmPar (zm z0 ws ustar L sigmaV : R) : KmPar R :=
  let m := kmM F zm ws ustar L
  let n := kmN zm L
  let kappa := vonKarman * zm * ustar / (kmPhiC F zm L * F.rpow zm n)
  let U := ustar * (F.log (zm / z0) + kmPsiM F zm L) / (vonKarman * F.rpow zm m)
  let r := 2.0 + m - n
  let mu := (1.0 + m) / r
  let Xi := U * F.rpow zm r / (r ^ (2 : Nat) * kappa)
  let gmm := F.gamma mu
  let mr := m / r
  let A := U / (F.gamma (1.0 / r) * sigmaV) * F.rpow (kappa * r ^ (2 : Nat) / U) mr
  let num := 1.0 / F.sqrt (2.0 * F.pi) * F.rpow Xi mu
  { m := m, n := n, kappa := kappa, U := U, r := r, mu := mu, Xi := Xi, gmm := gmm, mr := mr, A := A, num := num }

/-- along/cross-wind coordinates of the point `(gx, gy)` for a receptor at `(mx, my)`;
`wd = none`: the grid is already aligned with the wind -/
def kmCoords (gx gy mx my : R) (wd : Option R) : R × R :=
  let x := gx - mx
  let y := gy - my
  match wd with
  | none => (x, y)
  | some w =>
    let rho := F.sqrt (x ^ (2 : Nat) + y ^ (2 : Nat))
    let th := F.arctan2 y x + w * (F.pi / 180.0) - F.pi * 0.5
    (rho * F.cos th, rho * F.sin th)

/-- the footprint weight of one grid cell at along/cross-wind position `(x, y)` -/
def kmCell (p : KmPar R) (res x y : R) : R :=
  if 0.0 < x then
    res ^ (2 : Nat) * p.num * p.A * F.rpow x (p.mr - 2.0 - p.mu)
      * F.exp (-p.Xi / x - 0.5 * (p.gmm * y * p.A * F.rpow x (p.mr - 1.0)) ^ (2 : Nat))
  else 0.0

/-- `estimateFootprint` at one grid point (all zeros when `U < 0`) -/
def kmFootprint (zm z0 ws ustar L sigmaV res gx gy mx my : R) (wd : Option R) : R :=
  let p := kmPar F zm z0 ws ustar L sigmaV
  if p.U < 0.0 then 0.0
  else
    let xy := kmCoords F gx gy mx my wd
    kmCell F p res xy.1 xy.2

/-- raw roughness length of `estimateZ0` (before outlier removal and smoothing) -/
def kmZ0 (zm ws ustar L : R) : R :=
  zm * F.exp (kmPsiM F zm L - vonKarman * ws / ustar)

/-- `estimateZ0` smoothing: the direction of an observation as seen from the 1-degree bin `kk`
(directions near north are unwrapped towards the bin) -/
def z0Wrap (kk : Nat) (wd : R) : R :=
  if kk < 90 then (if 270.0 < wd then wd - 360.0 else wd)
  else if kk > 270 then (if wd < 90.0 then wd + 360.0 else wd)
  else wd

/-- membership of an observation in the smoothing window of bin `kk` (half width `h`) -/
def z0InWindow (kk : Nat) (h wd : R) : Bool :=
  decide (F.natCast kk - h ≤ z0Wrap kk wd) && decide (z0Wrap kk wd < F.natCast kk + 1.0 + h)

end

end BLDFM
