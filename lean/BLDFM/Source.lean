/-
  BLDFM.Source — `ideal_source` and `point_measurement` (src/bldfm/utils.py).
-/
import BLDFM.Scalar
import BLDFM.Column

namespace BLDFM

inductive SrcShape where
  | diamond | circle | point | other
deriving Repr, DecidableEq

section
variable {R C : Type}
variable [Add R] [Sub R] [Mul R] [Div R] [Neg R] [OfScientific R] [HPow R Nat R]
variable [LT R] [DecidableLT R]
variable (F : Fns R C)

/-- `np.abs` on a scalar -/
def absR (x : R) : R := if x < 0.0 then -x else x

/-- `np.linspace(0.0, stop, n)[i]` (end point included): `i * (stop / (n-1))`, the last element set to `stop` -/
def linspaceEnd (stop : R) (n i : Nat) : R :=
  if n ≤ 1 then 0.0 else if i + 1 = n then stop else F.natCast i * (stop / F.natCast (n - 1))

/-- source centre: the given location or the middle of the domain -/
def srcCentre (xmx ymx : R) (loc : Option (R × R)) : R × R :=
  match loc with
  | some l => l
  | none => (xmx / 2.0, ymx / 2.0)

/-- value of one cell for each shape -/
def srcCell (shape : SrcShape) (xmx dx dX dY : R) : R :=
  match shape with
  | .diamond => if absR dX + absR dY < xmx / 12.0 then 1.0 else 0.0
  | .circle => if F.sqrt (dX ^ (2 : Nat) + dY ^ (2 : Nat)) < xmx / 12.0 then 1.0 else 0.0
  | .point => F.exp (-(dX ^ (2 : Nat) + dY ^ (2 : Nat)) / 2.0 / (4.0 * dx) ^ (2 : Nat)) / (4.0 * dx) / F.sqrt (2.0 * F.pi)
  | .other => 0.0

/-- `ideal_source((nx, ny), (xmx, ymx), src_loc, shape)[j, i]` -/
def idealSource (nx ny : Nat) (xmx ymx : R) (loc : Option (R × R)) (shape : SrcShape) (j i : Nat) : R :=
  let c := srcCentre xmx ymx loc
  srcCell F shape xmx (xmx / F.natCast nx) (linspaceEnd F xmx nx i - c.1) (linspaceEnd F ymx ny j - c.2)

/-- `point_measurement(f, g) = np.sum(f * g)` over an `ny × nx` array -/
def pointMeasurement (ny nx : Nat) (f g : Nat → Nat → R) : R :=
  sumN 0.0 ny (fun j => sumN 0.0 nx (fun i => f j i * g j i))

end

end BLDFM
