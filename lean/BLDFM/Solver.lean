/-
  BLDFM.Solver — `steady_state_transport_solver` end to end
  (src/bldfm/solver.py), as one generic function.
-/
import BLDFM.Grid

namespace BLDFM

inductive Precision where
  | single | double | bad
deriving Repr, DecidableEq

structure SolveReq (R : Type) where
  ny : Nat
  nx : Nat
  nz : Nat
  q : Nat → Nat → R
  z : Nat → R
  P : Profiles R
  xmx : R
  ymx : R
  levels : List Nat
  nlx : Nat
  nly : Nat
  xm : R
  ym : R
  bg : R
  footprint : Bool
  analytic : Bool
  halo : Option R
  precision : Precision

structure SolveOut (R : Type) where
  nlv : Nat
  ny : Nat
  nx : Nat
  Z : Nat → R
  X : Nat → R
  Y : Nat → R
  conc : Nat → Nat → Nat → R
  flx : Nat → Nat → Nat → R

/-- derived sizes (solver.py lines 98–130) -/
structure Geom (R : Type) where
  dx : R
  dy : R
  halo : R
  px : Nat
  py : Nat
  nxe : Nat
  nye : Nat
  nlx : Nat
  nly : Nat
  dlx : Nat
  dly : Nat

section
variable {R C : Type}
variable [Add R] [Sub R] [Mul R] [Div R] [Neg R] [OfScientific R] [HPow R Nat R]
variable [LT R] [DecidableLT R]
variable [Add C] [Sub C] [Mul C] [Div C] [Neg C] [OfScientific C] [HPow C Nat C]
variable (F : Fns R C)

/-- clamp rule for the retained mode counts -/
def clampModes (nlx nly nxe nye : Nat) : Nat × Nat :=
  if nlx > nxe ∨ nly > nye then (nxe, nye) else (nlx, nly)

def geom (req : SolveReq R) : Geom R :=
  let dx := req.xmx / F.natCast req.nx
  let dy := req.ymx / F.natCast req.ny
  let halo := match req.halo with
    | some h => h
    | none => if req.xmx < req.ymx then req.ymx else req.xmx
  let px := F.truncNat (halo / dx)
  let py := F.truncNat (halo / dy)
  let nxe := req.nx + 2 * px
  let nye := req.ny + 2 * py
  let nl := clampModes req.nlx req.nly nxe nye
  { dx := dx, dy := dy, halo := halo, px := px, py := py, nxe := nxe, nye := nye,
    nlx := nl.1, nly := nl.2, dlx := (nxe - nl.1) / 2, dly := (nye - nl.2) / 2 }

/-- zero-flux halo -/
def padSrc (req : SolveReq R) (g : Geom R) (j i : Nat) : C :=
  if g.py ≤ j ∧ j < g.py + req.ny ∧ g.px ≤ i ∧ i < g.px + req.nx
  then F.ofReal (req.q (j - g.py) (i - g.px)) else 0.0

/-- signed frequency as a scalar -/
def freqR (n a : Nat) : R :=
  if a < (n + 1) / 2 then F.natCast a else -(F.natCast (n - a))

/-- truncated wavenumbers -/
def waveX (g : Geom R) (b : Nat) : R := 2.0 * F.pi / g.dx / F.natCast g.nxe * freqR F g.nlx b
def waveY (g : Geom R) (a : Nat) : R := 2.0 * F.pi / g.dy / F.natCast g.nye * freqR F g.nly a

/-- truncated spectrum of the (padded) source, slot `(a,b)` (row = y, column = x) -/
def srcSpectrum (req : SolveReq R) (g : Geom R) : Tab2 C :=
  if req.footprint then
    Tab2.tab g.nly g.nlx (fun _ _ => F.ofReal (1.0 / F.natCast g.nxe / F.natCast g.nye))
  else
    let Fh := dft2 F (-1.0) g.nye g.nxe (padSrc F req g)
    let sc : C := F.ofReal (1.0 / F.natCast (g.nye * g.nxe))
    Tab2.tab g.nly g.nlx (fun a b =>
      Fh.get (truncSrc g.nye g.nly g.dly a) (truncSrc g.nxe g.nlx g.dlx b) * sc)

/-- shift factor applied to slot `(a,b)` -/
def shiftFactor (req : SolveReq R) (g : Geom R) (a b : Nat) : C :=
  let Lx := waveX F g b
  let Ly := waveY F g a
  if req.footprint then
    F.cexp (F.I * F.ofReal (Lx * (req.xm + F.natCast g.px * g.dx) + Ly * (req.ym + F.natCast g.py * g.dy)))
  else if 0.0 < req.xm ^ (2 : Nat) + req.ym ^ (2 : Nat) then
    F.cexp (F.I * F.ofReal (Lx * (req.xm - req.xmx / 2.0) + Ly * (req.ym - req.ymx / 2.0)))
  else 1.0

def storeP (req : SolveReq R) (c : C) : C :=
  match req.precision with
  | .single => F.store32 c
  | _ => c

/-- spectral coefficients `(p, q)` of slot `(a,b)` at node `l`, before the shift -/
def modeCoef (req : SolveReq R) (g : Geom R) (S : Nat → Nat → C) (l a b : Nat) : C × C :=
  let top := req.nz - 1
  if a = 0 ∧ b = 0 then
    let q00 := S 0 0
    let p := if req.analytic then meanAna F req.P req.z top (F.ofReal req.bg) q00 l
             else meanNum F req.P req.z (F.ofReal req.bg) q00 l
    (storeP F req p, storeP F req q00)
  else
    let Lx := waveX F g b
    let Ly := waveY F g a
    let pq := if req.analytic then columnAna F req.P req.z top Lx Ly (S a b) l
              else columnNum F req.P req.z top Lx Ly (S a b) l
    (storeP F req pq.1, storeP F req pq.2)

/-- un-truncate: full-size spectrum entry `(A,B)` from the truncated array `T`:
`ifftshift(pad(fftshift(T), (d, N-nl-d)))` -/
def untrunc (g : Geom R) (T : Nat → Nat → C) (A B : Nat) : C :=
  let wa := ifftshiftIdx g.nye A
  let wb := ifftshiftIdx g.nxe B
  if g.dly ≤ wa ∧ wa < g.dly + g.nly ∧ g.dlx ≤ wb ∧ wb < g.dlx + g.nlx
  then T (fftshiftIdx g.nly (wa - g.dly)) (fftshiftIdx g.nlx (wb - g.dlx)) else 0.0

/-- physical-space field on the padded grid for node `l`: `(conc, flx)` -/
def fieldsAt (req : SolveReq R) (g : Geom R) (S : Nat → Nat → C) (l : Nat) :
    Tab2 C × Tab2 C :=
  let coef := Tab2.tab g.nly g.nlx (fun a b =>
    let pq := modeCoef F req g S l a b
    let s := shiftFactor F req g a b
    (pq.1 * s, pq.2 * s))
  let fp := Tab2.tab g.nye g.nxe (untrunc g (fun a b => (coef.get a b).1))
  let fq := Tab2.tab g.nye g.nxe (untrunc g (fun a b => (coef.get a b).2))
  let sgn : R := if req.footprint then -1.0 else 1.0
  (dft2 F sgn g.nye g.nxe fp.get, dft2 F sgn g.nye g.nxe fq.get)

/-- the argument checks, in the order the code performs them -/
def solveErr (req : SolveReq R) : Option ErrKind :=
  if req.nlx % 2 > 0 ∨ req.nly % 2 > 0 then some .valueError
  else if req.precision = .bad then some .valueError
  else if req.levels.any (fun l => decide (l ≥ req.nz)) then some .indexError
  else none

/-- the result when the checks pass: slice `k` is the field at node `levels[k]` -/
def solveOk (req : SolveReq R) : SolveOut R :=
  let g := geom F req
  let S := srcSpectrum F req g
  let lv := req.levels.toArray
  let fields := Tab1.tab lv.size (fun k => fieldsAt F req g S.get (lv.getD k 0))
  { nlv := lv.size, ny := req.ny, nx := req.nx,
    Z := fun k => req.z (lv.getD k 0),
    X := fun i => F.natCast i * g.dx,
    Y := fun j => F.natCast j * g.dy,
    conc := fun k j i => F.re ((fields.get k).1.get (j + g.py) (i + g.px)),
    flx := fun k j i => F.re ((fields.get k).2.get (j + g.py) (i + g.px)) }

/-- `steady_state_transport_solver` -/
def solve (req : SolveReq R) : Except ErrKind (SolveOut R) :=
  match solveErr req with
  | some e => .error e
  | none => .ok (solveOk F req)

end

end BLDFM
