/-
  BLDFM.Interface — `run_bldfm_single`, `run_bldfm_timeseries`, `run_bldfm_multitower`,
  `run_bldfm_parallel` (src/bldfm/interface.py) over abstract primitives.

  Values are opaque identifiers (`Int`); what is modelled is the DATAFLOW: which configuration
  value reaches which argument of which primitive, the branch structure of the code (z0
  precedence, optional user flux, level selection with Python truthiness), the result labels,
  and the drivers' loops / pool scheduling.
-/
import BLDFM.Met

namespace BLDFM

abbrev V := Int

structure DomainCfg where
  nx : V
  ny : V
  xmax : V
  ymax : V
  nz : Nat
  modes : V
  halo : Option V
  outputLevels : Option (List Nat)
  fullOutput : Bool
deriving Repr, DecidableEq

structure SolverCfg where
  closure : V
  precision : V
  footprint : Bool
  analytic : Bool
  shape : V
  srcLoc : Option V
deriving Repr, DecidableEq

structure TowerCfg where
  name : V
  x : V
  y : V
  zm : V
deriving Repr, DecidableEq

/-- levels argument handed to the solver -/
inductive LevelsArg where
  | list (ls : List Nat)
  | scalar (l : Nat)
deriving Repr, DecidableEq

/-- the record of one `run_bldfm_single`: every argument each primitive received -/
structure SingleCalls where
  -- compute_wind_fields(wind_speed, wind_dir)
  windSpeed : Option V
  windDir : Option V
  -- vertical_profiles(n, meas_height, wind=<result of compute_wind_fields>, ustar|z0, mol, closure)
  profN : Nat
  profZm : V
  profUstar : Option V
  profZ0 : Option V
  profMol : Option V
  profClosure : V
  -- ideal_source((nx, ny), (xmax, ymax), src_loc, shape) — only without a user-supplied flux
  idealSource : Option (V × V × V × V × Option V × V)
  userFlux : Option V
  -- steady_state_transport_solver(...)
  solDomain : V × V
  solLevels : LevelsArg
  solModes : V
  solMeasPt : V × V
  solFootprint : Bool
  solAnalytic : Bool
  solHalo : Option V
  solPrecision : V
  solCache : Option V
  -- result labels
  towerName : V
  towerXY : V × V
  timestamp : Int ⊕ Nat
  params : MetStep
deriving Repr, DecidableEq

/-- level selection (`if dom.output_levels: … elif dom.full_output: … else: …`, Python truthiness:
an empty list is falsy) -/
def selectLevels (dom : DomainCfg) : LevelsArg :=
  match dom.outputLevels with
  | some (l :: ls) => .list (l :: ls)
  | _ => if dom.fullOutput then .list (List.range (dom.nz + 1)) else .scalar dom.nz

/-- `run_bldfm_single` shaped like the code -/
def runSingle (dom : DomainCfg) (sol : SolverCfg) (met : MetCfg) (tower : TowerCfg) (metIndex : Nat)
    (surfaceFlux : Option V) (cache : Option V) : Except ErrKind SingleCalls := do
  let step ← met.getStep metIndex
  -- z0 takes precedence over ustar
  let (pu, pz) : Option V × Option V :=
    match step.z0 with
    | some z0 => (none, some z0)
    | none => (step.ustar, none)
  pure {
    windSpeed := step.windSpeed, windDir := step.windDir,
    profN := dom.nz, profZm := tower.zm, profUstar := pu, profZ0 := pz, profMol := step.mol,
    profClosure := sol.closure,
    idealSource := match surfaceFlux with
      | none => some (dom.nx, dom.ny, dom.xmax, dom.ymax, sol.srcLoc, sol.shape)
      | some _ => none,
    userFlux := surfaceFlux,
    solDomain := (dom.xmax, dom.ymax), solLevels := selectLevels dom, solModes := dom.modes,
    solMeasPt := (tower.x, tower.y), solFootprint := sol.footprint, solAnalytic := sol.analytic,
    solHalo := dom.halo, solPrecision := sol.precision, solCache := cache,
    towerName := tower.name, towerXY := (tower.x, tower.y), timestamp := step.timestamp, params := step }

/-- `run_bldfm_timeseries`: one single run per step, in time order (a fresh cache object per series
when caching is enabled and footprints are requested) -/
def runTimeseries (dom : DomainCfg) (sol : SolverCfg) (met : MetCfg) (tower : TowerCfg)
    (surfaceFlux : Option V) (cache : Option V) : List (Except ErrKind SingleCalls) :=
  (List.range met.nTimesteps).map (fun i => runSingle dom sol met tower i surfaceFlux cache)

/-- `run_bldfm_multitower`: tower name ↦ time series, in configuration order -/
def runMultitower (dom : DomainCfg) (sol : SolverCfg) (met : MetCfg) (towers : List TowerCfg)
    (surfaceFlux : Option V) (cache : Option V) : List (V × List (Except ErrKind SingleCalls)) :=
  towers.map (fun t => (t.name, runTimeseries dom sol met t surfaceFlux cache))

/-! ### process pool -/

/-- `Executor.map` with an arbitrary schedule: `sched` is the order in which the tasks COMPLETE
(a permutation of the task indices, any assignment to workers); results are written into the slot of
their task and read out in submission order -/
def poolStep {α β : Type} (f : α → β) (tasks : List α) (s : List (Option β)) (i : Nat) : List (Option β) :=
  match tasks[i]? with
  | some t => s.set i (some (f t))
  | none => s

def poolMap {α β : Type} (f : α → β) (tasks : List α) (sched : List Nat) : List (Option β) :=
  sched.foldl (poolStep f tasks) (tasks.map (fun _ => none))

inductive Strategy where
  | towers | time | both | invalid
deriving Repr, DecidableEq

/-- regroup the flattened `(tower, step)` results of strategy "both" (`flat[idx : idx + n_time]`) -/
def regroup {β : Type} (nTime : Nat) : List β → Nat → List (List β)
  | _, 0 => []
  | flat, k + 1 => flat.take nTime :: regroup nTime (flat.drop nTime) k

/-- `run_bldfm_parallel` over an abstract single run `single tower step`; `sched` is the completion
order of the pool (re-used for each pool the strategy creates).  A slot is `none` if its task never
completed under the schedule. -/
def runParallel {γ : Type} (strategy : Strategy) (towers : List TowerCfg) (nTime : Nat)
    (single : TowerCfg → Nat → γ) (sched : List Nat) : Except ErrKind (List (V × List (Option γ))) :=
  match strategy with
  | .towers =>
    let res := poolMap (fun t => (t.name, (List.range nTime).map (fun i => some (single t i)))) towers sched
    .ok (res.filterMap id)
  | .time =>
    .ok (towers.map (fun t => (t.name, poolMap (fun i => single t i) (List.range nTime) sched)))
  | .both =>
    let tasks := towers.flatMap (fun t => (List.range nTime).map (fun i => (t, i)))
    let flat := poolMap (fun (p : TowerCfg × Nat) => single p.1 p.2) tasks sched
    .ok ((towers.zip (regroup nTime flat towers.length)).map (fun p => (p.1.name, p.2)))
  | .invalid => .error .valueError

end BLDFM
