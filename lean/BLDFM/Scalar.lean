/-
  BLDFM.Scalar — scalar layer of the executable model.

  The model is written ONCE, polymorphic in the scalar types `R` ("reals") and
  `C` ("complex numbers"), using only core notation classes and an explicit
  record `Fns R C` of the transcendental functions.  This file provides the
  *executable* instance: `R := Float`, `C := CF`.  The specification instance
  (`R := ℝ`, `C := ℂ`) lives in `Proofs/Lemmas/Spec.lean`.

  No Mathlib import anywhere under `BLDFM/` (the driver is compiled natively).
-/

namespace BLDFM

/-- transcendental functions and embeddings the model needs -/
structure Fns (R C : Type) where
  ofReal : R → C
  I : C
  re : C → R
  cexp : C → C
  csqrt : C → C
  exp : R → R
  log : R → R
  sqrt : R → R
  sin : R → R
  cos : R → R
  arctan : R → R
  arctan2 : R → R → R
  rpow : R → R → R
  pi : R
  /-- Euler's Gamma function (`scipy.special.gamma`) -/
  gamma : R → R
  /-- numpy's `nan` (a junk value in exact arithmetic; never selected by the code's `np.where`) -/
  nan : R
  natCast : Nat → R
  /-- Python `int()` applied to a non-negative float -/
  truncNat : R → Nat
  /-- storage rounding of `precision="single"` (identity in exact arithmetic) -/
  store32 : C → C

/-- error classes the harness distinguishes -/
inductive ErrKind where
  | valueError | indexError | other
deriving Repr, DecidableEq

/-- complex double -/
structure CF where
  re : Float
  im : Float
deriving Inhabited

namespace CF

instance : Add CF := ⟨fun a b => ⟨a.re + b.re, a.im + b.im⟩⟩
instance : Sub CF := ⟨fun a b => ⟨a.re - b.re, a.im - b.im⟩⟩
instance : Neg CF := ⟨fun a => ⟨-a.re, -a.im⟩⟩
instance : Mul CF := ⟨fun a b => ⟨a.re * b.re - a.im * b.im, a.re * b.im + a.im * b.re⟩⟩
instance : Div CF := ⟨fun a b =>
  let d := b.re * b.re + b.im * b.im
  ⟨(a.re * b.re + a.im * b.im) / d, (a.im * b.re - a.re * b.im) / d⟩⟩
instance : OfScientific CF := ⟨fun m s e => ⟨OfScientific.ofScientific m s e, 0.0⟩⟩

def npow (x : CF) : Nat → CF
  | 0 => ⟨1.0, 0.0⟩
  | n + 1 => npow x n * x

instance : HPow CF Nat CF := ⟨npow⟩

def exp (z : CF) : CF :=
  let m := Float.exp z.re
  ⟨m * Float.cos z.im, m * Float.sin z.im⟩

/-- principal square root (same branch as `numpy.sqrt` on complex input) -/
def sqrt (z : CF) : CF :=
  let r := Float.sqrt (z.re * z.re + z.im * z.im)
  if r == 0.0 then ⟨0.0, 0.0⟩ else
  if z.re >= 0.0 then
    let t := Float.sqrt ((r + z.re) / 2.0)
    ⟨t, z.im / (2.0 * t)⟩
  else
    let t := Float.sqrt ((r - z.re) / 2.0)
    if z.im >= 0.0 then ⟨z.im / (2.0 * t), t⟩ else ⟨-(z.im / (2.0 * t)), -t⟩

def store32 (z : CF) : CF := ⟨z.re.toFloat32.toFloat, z.im.toFloat32.toFloat⟩

end CF

def fnpow (x : Float) : Nat → Float
  | 0 => 1.0
  | n + 1 => fnpow x n * x

instance : HPow Float Nat Float := ⟨fnpow⟩

/-- Lanczos approximation (g = 7, 9 coefficients) of the Gamma function for positive arguments;
relative accuracy about 1e-15, which is what the correspondence tolerance allows for -/
def lanczosGamma (x : Float) : Float :=
  let g : Float := 7.0
  let c : Array Float := #[0.99999999999980993, 676.5203681218851, -1259.1392167224028,
    771.32342877765313, -176.61502916214059, 12.507343278686905, -0.13857109526572012,
    9.9843695780195716e-6, 1.5056327351493116e-7]
  let xm := x - 1.0
  let a := (List.range 8).foldl (fun acc i => acc + c[i + 1]! / (xm + Float.ofNat (i + 1))) c[0]!
  let t := xm + g + 0.5
  Float.sqrt (2.0 * 3.141592653589793) * Float.pow t (xm + 0.5) * Float.exp (-t) * a

/-- the executable instance of the function record -/
def FloatFns : Fns Float CF where
  ofReal x := ⟨x, 0.0⟩
  I := ⟨0.0, 1.0⟩
  re z := z.re
  cexp := CF.exp
  csqrt := CF.sqrt
  exp := Float.exp
  log := Float.log
  sqrt := Float.sqrt
  sin := Float.sin
  cos := Float.cos
  arctan := Float.atan
  arctan2 := Float.atan2
  rpow := Float.pow
  pi := 3.141592653589793
  gamma := lanczosGamma
  nan := 0.0 / 0.0
  natCast := Float.ofNat
  truncNat x := x.toUInt64.toNat
  store32 := CF.store32

/-! ### hex I/O: floats cross the Python/Lean boundary as 16 hex digits -/

def hexDigit (c : Char) : Option Nat :=
  if '0' ≤ c ∧ c ≤ '9' then some (c.toNat - '0'.toNat)
  else if 'a' ≤ c ∧ c ≤ 'f' then some (c.toNat - 'a'.toNat + 10)
  else if 'A' ≤ c ∧ c ≤ 'F' then some (c.toNat - 'A'.toNat + 10)
  else none

def parseHex (s : String) : Option Nat :=
  if s.isEmpty then none else
  s.foldl (fun acc c => match acc, hexDigit c with
    | some a, some d => some (a * 16 + d)
    | _, _ => none) (some 0)

def parseFloatHex (s : String) : Option Float :=
  if s.length != 16 then none else
  (parseHex s).map (fun n => Float.ofBits (UInt64.ofNat n))

def hexChar (n : Nat) : Char :=
  if n < 10 then Char.ofNat ('0'.toNat + n) else Char.ofNat ('a'.toNat + n - 10)

def floatToHex (x : Float) : String :=
  let n := x.toBits.toNat
  String.ofList ((List.range 16).map (fun k => hexChar ((n >>> (4 * (15 - k))) % 16)))

end BLDFM
