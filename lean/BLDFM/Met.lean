/-
  BLDFM.Met — `MetConfig` (src/bldfm/config_parser.py): `n_timesteps`, `get_step`, `validate`.
  Field values are opaque identifiers (integers); only list/scalar/None structure matters.
-/
import BLDFM.Scalar

namespace BLDFM

inductive MetVal where
  | none
  | scalar (x : Int)
  | list (xs : List Int)
deriving Repr, DecidableEq

structure MetCfg where
  ustar : MetVal
  mol : MetVal
  windSpeed : MetVal
  windDir : MetVal
  z0 : Option Int
  timestamps : Option (List Int)
deriving Repr

/-- one meteorological step as returned by `get_step` -/
structure MetStep where
  ustar : Option Int
  mol : Option Int
  windSpeed : Option Int
  windDir : Option Int
  z0 : Option Int
  /-- `inl t` = the configured timestamp, `inr i` = the index -/
  timestamp : Int ⊕ Nat
deriving Repr, DecidableEq

def MetVal.listLen? : MetVal → Option Nat
  | .list xs => some xs.length
  | _ => Option.none

namespace MetCfg

def fields (m : MetCfg) : List MetVal := [m.ustar, m.mol, m.windSpeed, m.windDir]

/-- lengths of the list-valued fields, in field order -/
def listLens (m : MetCfg) : List Nat := m.fields.filterMap MetVal.listLen?

/-- `n_timesteps`: the length of the first list-valued field, or one -/
def nTimesteps (m : MetCfg) : Nat :=
  match m.listLens with
  | [] => 1
  | n :: _ => n

/-- `_get(val, i)`; `Except.error` = IndexError -/
def getVal (v : MetVal) (i : Nat) : Except ErrKind (Option Int) :=
  match v with
  | .none => .ok Option.none
  | .scalar x => .ok (some x)
  | .list xs => match xs[i]? with
    | some x => .ok (some x)
    | Option.none => .error .indexError

def getStep (m : MetCfg) (i : Nat) : Except ErrKind MetStep := do
  let us ← getVal m.ustar i
  let mo ← getVal m.mol i
  let ws ← getVal m.windSpeed i
  let wd ← getVal m.windDir i
  let ts ← match m.timestamps with
    | some t => match t[i]? with
      | some x => Except.ok (Sum.inl x)
      | Option.none => Except.error ErrKind.indexError
    | Option.none => Except.ok (Sum.inr i)
  pure { ustar := us, mol := mo, windSpeed := ws, windDir := wd, z0 := m.z0, timestamp := ts }

/-- all entries equal (`len(set(lengths)) <= 1`) -/
def allEq : List Nat → Bool
  | [] => true
  | a :: t => t.all (fun b => b == a)

/-- `validate`: `true` = accepted, `false` = ValueError -/
def validate (m : MetCfg) : Bool :=
  if m.ustar = .none ∧ m.z0 = Option.none then false
  else
    let lens := m.listLens
    if !allEq lens then false
    else
      let n := match lens with | [] => 1 | k :: _ => k
      match m.timestamps with
      | some t => t.length == n
      | Option.none => true

end MetCfg

end BLDFM
