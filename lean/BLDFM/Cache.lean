/-
  BLDFM.Cache — the Green's-function disk cache (src/bldfm/cache.py + the two call sites in
  solver.py) as a state machine over abstract requests.

  A request assigns an opaque value identifier to every parameter of the solver signature
  (plus the shape of the surface-flux array).  The disk maps keys to entries; an entry is
  either a complete stored result or an undecodable (truncated / corrupt) file.
-/
import BLDFM.Scalar

namespace BLDFM

/-- the parameters of `steady_state_transport_solver` that can influence a footprint result,
plus `q` = the VALUES of the surface-flux array (which cannot, C04) -/
inductive Fld where
  | z | profiles | domain | modes | measPt | halo | precision | levels | shape | analytic | bg | q
deriving Repr, DecidableEq

def Fld.all : List Fld :=
  [.z, .profiles, .domain, .modes, .measPt, .halo, .precision, .levels, .shape, .analytic, .bg, .q]

/-- every field except the source values determines the result -/
def Fld.determining : List Fld :=
  [.z, .profiles, .domain, .modes, .measPt, .halo, .precision, .levels, .shape, .analytic, .bg]

structure CReq where
  val : Fld → Nat
  /-- `halo=None`: the default `max(xmax, ymax)` is used -/
  haloNone : Bool

/-- configuration read off the code by the static extract -/
structure CacheCfg where
  /-- arguments hashed into the key -/
  keyFields : List Fld
  /-- `get` / `put` key on the resolved halo (`true`) or on the raw argument (`false`) -/
  haloResolvedAtGet : Bool
  haloResolvedAtPut : Bool
  /-- entries are written to a temporary name and renamed -/
  atomicWrite : Bool
  /-- loading is guarded: an undecodable entry is a miss -/
  guardedLoad : Bool
deriving Repr, DecidableEq

/-- the value a field contributes; the default halo is a function `dflt` of the domain -/
def CReq.fieldVal (dflt : Nat → Nat) (resolved : Bool) (r : CReq) (f : Fld) : Nat :=
  if f = .halo ∧ r.haloNone then (if resolved then dflt (r.val .domain) + 1 else 0)
  else r.val f + 1

def CReq.key (cfg : CacheCfg) (dflt : Nat → Nat) (resolved : Bool) (r : CReq) : List Nat :=
  cfg.keyFields.map (r.fieldVal dflt resolved)

/-- what the result depends on: every determining field, halo resolved -/
def CReq.determ (dflt : Nat → Nat) (r : CReq) : List Nat :=
  Fld.determining.map (r.fieldVal dflt true)

inductive Entry (Res : Type) where
  | good (res : Res)
  | corrupt

/-- disk as an association list (latest binding first) -/
abbrev Disk (Res : Type) := List (List Nat × Entry Res)

def Disk.find {Res : Type} (d : Disk Res) (k : List Nat) : Option (Entry Res) :=
  match d with
  | [] => none
  | (k', e) :: rest => if k' = k then some e else Disk.find rest k

inductive Answer (Res : Type) where
  | hit (res : Res)
  | miss (res : Res)
  | error

/-- one cached footprint solve (solver.py 76-88 and 309-320) -/
def solveCached {Res : Type} (cfg : CacheCfg) (dflt : Nat → Nat) (solve : CReq → Res)
    (d : Disk Res) (r : CReq) : Answer Res × Disk Res :=
  let kGet := r.key cfg dflt cfg.haloResolvedAtGet
  let kPut := r.key cfg dflt cfg.haloResolvedAtPut
  match d.find kGet with
  | some (.good res) => (.hit res, d)
  | some .corrupt =>
    if cfg.guardedLoad then
      let res := solve r
      (.miss res, (kPut, .good res) :: d)
    else (.error, d)
  | none =>
    let res := solve r
    (.miss res, (kPut, .good res) :: d)

/-- a run of request `r` interrupted while storing its result (no store happens if the request is a
hit or fails on an unguarded load): with an atomic protocol the entry is untouched; otherwise the
file is left truncated -/
def crashDuringPut {Res : Type} (cfg : CacheCfg) (dflt : Nat → Nat) (d : Disk Res) (r : CReq) : Disk Res :=
  let stores := match d.find (r.key cfg dflt cfg.haloResolvedAtGet) with
    | some (.good _) => false
    | some .corrupt => cfg.guardedLoad
    | none => true
  if stores && !cfg.atomicWrite then (r.key cfg dflt cfg.haloResolvedAtPut, .corrupt) :: d else d

/-- the stored entry of `r` (if any) is truncated / corrupted from outside -/
def truncateEntry {Res : Type} (cfg : CacheCfg) (dflt : Nat → Nat) (d : Disk Res) (r : CReq) : Disk Res :=
  let k := r.key cfg dflt cfg.haloResolvedAtPut
  match d.find k with
  | some _ => (k, .corrupt) :: d
  | none => d

inductive COp where
  | request (r : CReq)
  | crash (r : CReq)
  | truncate (r : CReq)
  /-- process restart: the disk persists, nothing else does -/
  | restart

/-- run a history; returns the answers of the requests, in order -/
def runHistory {Res : Type} (cfg : CacheCfg) (dflt : Nat → Nat) (solve : CReq → Res) :
    Disk Res → List COp → List (Answer Res) × Disk Res
  | d, [] => ([], d)
  | d, .request r :: ops =>
    let (a, d') := solveCached cfg dflt solve d r
    let (as, d'') := runHistory cfg dflt solve d' ops
    (a :: as, d'')
  | d, .crash r :: ops => runHistory cfg dflt solve (crashDuringPut cfg dflt d r) ops
  | d, .truncate r :: ops => runHistory cfg dflt solve (truncateEntry cfg dflt d r) ops
  | d, .restart :: ops => runHistory cfg dflt solve d ops

end BLDFM
