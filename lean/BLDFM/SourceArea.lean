/-
  BLDFM.SourceArea — `get_source_area` (utils.py) and `extract_percentile_contour`
  (plotting/footprint.py), parametrised by the sorting permutation `argsort` returned,
  plus the four geometric base functions.
-/
import BLDFM.Scalar
import BLDFM.Column

namespace BLDFM

section
variable {R C : Type}
variable [Add R] [Sub R] [Mul R] [Div R] [Neg R] [OfScientific R] [HPow R Nat R]
variable [LT R] [DecidableLT R]
variable (F : Fns R C)

/-- sum of `f` over the first `k` cells of the order `perm` (`cumsum` shifted by one) -/
def prefixSum (f : Nat → R) (perm : List Nat) (k : Nat) : R :=
  sumN 0.0 k (fun l => f (perm.getD l 0))

/-- `get_source_area`: `out[perm[k]] = Σ_{l<k} f[perm[l]]` where `perm = argsort(g)[::-1]` -/
def rescaled (f : Nat → R) (perm : List Nat) (c : Nat) : R :=
  let k := perm.idxOf c
  if k < perm.length then prefixSum f perm k else 0.0

/-- numpy `searchsorted(cs, t)` (left) on a non-decreasing array of length `n`:
the number of entries strictly below `t` -/
def searchsortedLeft (cs : Nat → R) (n : Nat) (t : R) : Nat :=
  (List.range n).countP (fun i => decide (cs i < t))

/-- `extract_percentile_contour`: returns `(level, area)`; `sorted k` = k-th largest value -/
def percentileContour (sorted : Nat → R) (n : Nat) (cell pct : R) : R × R :=
  let cs := fun k => sumN 0.0 (k + 1) sorted * cell
  let total := cs (n - 1)
  let k := searchsortedLeft cs n (pct * total)
  (sorted (min k (n - 1)), (F.natCast k + 1.0) * cell)

/-- base functions (level-set fields) -/
def baseCircular (x y xm ym : R) : R := -((x - xm) ^ (2 : Nat) + (y - ym) ^ (2 : Nat))

def baseUpwind (x y xm ym u v : R) : R :=
  let sp := F.sqrt (u ^ (2 : Nat) + v ^ (2 : Nat))
  u / sp * (x - xm) + v / sp * (y - ym)

def baseCrosswind (x y xm ym u v : R) : R :=
  let sp := F.sqrt (u ^ (2 : Nat) + v ^ (2 : Nat))
  Neg.neg ((-(v / sp) * (x - xm) + u / sp * (y - ym)) ^ (2 : Nat))

def baseSector (x y xm ym u v : R) : R :=
  let th := F.arctan2 (y - ym) (x - xm) - F.arctan2 (-v) (-u)
  let w := F.arctan2 (F.sin th) (F.cos th)
  Neg.neg (if w < 0.0 then -w else w)

end

end BLDFM
