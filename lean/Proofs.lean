import Proofs.Lemmas.Spec
