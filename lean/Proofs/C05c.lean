/-
  C05 (order clause, sharp form) — "halving the layer thickness reduces the error about eightfold".

  `Proofs/C05b.lean` bounds the error from above by a quantity cubic in the layer thickness.  Here the error of the
  uniform-profile column on a UNIFORM grid (n layers of thickness dz, h = n·dz) is shown to BE cubic: with w = −μ·dz,

      p₃(w)ⁿ − e^{n w} = −e^{n w}·n·w⁴/24 + remainder,      ‖remainder‖ ≤ ‖e^{n w}‖·( n‖w‖⁵/4 + (n‖w‖⁴/3)²·e^{n‖w‖⁴/3} )

  i.e. error = −e^{−μh}·h·μ⁴·dz³/24 + O(dz⁴) (the remainder is one order smaller).  The leading term at dz/2 is exactly
  one eighth of the leading term at dz (`leading_term_halving`).
-/
import Proofs.C05b
import Mathlib.Analysis.Complex.ExponentialBounds

open BLDFM BLDFM.Spec

namespace BLDFM.C05

/-- defect of one layer factor relative to the exact propagator: `p₃(w)·e^{−w} − 1` -/
noncomputable def layerDefect (w : ℂ) : ℂ := p3 w * Complex.exp (-w) - 1

theorem p3_eq (w : ℂ) : p3 w = Complex.exp w * (1 + layerDefect w) := by
  unfold layerDefect
  have : Complex.exp w * Complex.exp (-w) = 1 := by rw [← Complex.exp_add]; simp
  calc p3 w = p3 w * (Complex.exp w * Complex.exp (-w)) := by rw [this, mul_one]
    _ = Complex.exp w * (1 + (p3 w * Complex.exp (-w) - 1)) := by ring

/-- the layer defect is `−w⁴/24` up to fifth order -/
theorem layerDefect_leading (w : ℂ) (hw : ‖w‖ ≤ 1) : ‖layerDefect w + w ^ 4 / 24‖ ≤ 1 / 4 * ‖w‖ ^ 5 := by
  have h5 := Complex.exp_bound hw (n := 5) (by norm_num)
  have e : ∑ m ∈ Finset.range 5, w ^ m / (m.factorial : ℂ) = p3 w + w ^ 4 / 24 := by
    simp only [Finset.sum_range_succ, Finset.sum_range_zero, Nat.factorial, p3]
    norm_num
  rw [e] at h5
  have hR : ‖Complex.exp w - (p3 w + w ^ 4 / 24)‖ ≤ 1 / 100 * ‖w‖ ^ 5 := by
    refine h5.trans (le_of_eq ?_)
    simp only [Nat.factorial, Nat.succ_eq_add_one]
    norm_num
    ring
  set R := Complex.exp w - (p3 w + w ^ 4 / 24) with hRdef
  have hinv : Complex.exp w * Complex.exp (-w) = 1 := by rw [← Complex.exp_add]; simp
  -- q + w⁴/24 = w⁴/24·(1 − e^{−w}) − R·e^{−w}
  have key : layerDefect w + w ^ 4 / 24 = w ^ 4 / 24 * (1 - Complex.exp (-w)) - R * Complex.exp (-w) := by
    unfold layerDefect
    have hp : p3 w = Complex.exp w - w ^ 4 / 24 - R := by rw [hRdef]; ring
    rw [hp]
    linear_combination (1 : ℂ) * hinv
  have hneg : ‖-w‖ ≤ 1 := by rwa [norm_neg]
  have h1 : ‖1 - Complex.exp (-w)‖ ≤ 2 * ‖w‖ := by
    have := Complex.norm_exp_sub_one_le hneg
    rw [norm_neg] at this
    rwa [← norm_neg, neg_sub]
  have h2 : ‖Complex.exp (-w)‖ ≤ 3 := by
    have := Complex.norm_exp_le_exp_norm (-w)
    rw [norm_neg] at this
    have h3 : Real.exp ‖w‖ ≤ Real.exp 1 := Real.exp_le_exp.2 hw
    have h4 : Real.exp 1 < 3 := by
      have := Real.exp_one_lt_d9
      norm_num at this ⊢
      linarith
    linarith
  have hw0 : 0 ≤ ‖w‖ := norm_nonneg w
  rw [key]
  calc ‖w ^ 4 / 24 * (1 - Complex.exp (-w)) - R * Complex.exp (-w)‖
      ≤ ‖w ^ 4 / 24 * (1 - Complex.exp (-w))‖ + ‖R * Complex.exp (-w)‖ := norm_sub_le _ _
    _ ≤ ‖w‖ ^ 4 / 24 * (2 * ‖w‖) + 1 / 100 * ‖w‖ ^ 5 * 3 := by
        rw [norm_mul, norm_mul, norm_div, norm_pow]
        have : ‖(24 : ℂ)‖ = 24 := by norm_num
        rw [this]
        gcongr
    _ ≤ 1 / 4 * ‖w‖ ^ 5 := by
        have : 0 ≤ ‖w‖ ^ 5 := by positivity
        nlinarith

/-- a cruder consequence: `‖layerDefect w‖ ≤ ‖w‖⁴/3` -/
theorem layerDefect_le (w : ℂ) (hw : ‖w‖ ≤ 1) : ‖layerDefect w‖ ≤ 1 / 3 * ‖w‖ ^ 4 := by
  have h := layerDefect_leading w hw
  have hw0 : 0 ≤ ‖w‖ := norm_nonneg w
  have e : layerDefect w = (layerDefect w + w ^ 4 / 24) - w ^ 4 / 24 := by ring
  rw [e]
  calc ‖(layerDefect w + w ^ 4 / 24) - w ^ 4 / 24‖ ≤ ‖layerDefect w + w ^ 4 / 24‖ + ‖w ^ 4 / 24‖ := norm_sub_le _ _
    _ ≤ 1 / 4 * ‖w‖ ^ 5 + ‖w‖ ^ 4 / 24 := by
        rw [norm_div, norm_pow]
        have : ‖(24 : ℂ)‖ = 24 := by norm_num
        rw [this]
        gcongr
    _ ≤ 1 / 3 * ‖w‖ ^ 4 := by
        have h4 : 0 ≤ ‖w‖ ^ 4 := by positivity
        have : ‖w‖ ^ 5 ≤ ‖w‖ ^ 4 := by
          have : ‖w‖ ^ 5 = ‖w‖ ^ 4 * ‖w‖ := by ring
          rw [this]; exact mul_le_of_le_one_right h4 hw
        nlinarith

/-- second-order remainder of a power: `‖(1+q)ⁿ − 1 − n q‖ ≤ n(n−1)/2 · ‖q‖² · (1+‖q‖)ⁿ` -/
theorem pow_one_add_remainder (q : ℂ) (n : ℕ) :
    ‖(1 + q) ^ n - 1 - n * q‖ ≤ (n * (n - 1) / 2 : ℝ) * ‖q‖ ^ 2 * (1 + ‖q‖) ^ n := by
  induction n with
  | zero => simp
  | succ n ih =>
    have hx : 0 ≤ ‖q‖ := norm_nonneg q
    have e : (1 + q) ^ (n + 1) - 1 - ((n + 1 : ℕ) : ℂ) * q = (1 + q) * ((1 + q) ^ n - 1 - n * q) + n * q ^ 2 := by
      push_cast; ring
    rw [e]
    have h1 : ‖(1 + q) * ((1 + q) ^ n - 1 - n * q)‖ ≤ (1 + ‖q‖) * ((n * (n - 1) / 2 : ℝ) * ‖q‖ ^ 2 * (1 + ‖q‖) ^ n) := by
      rw [norm_mul]
      apply mul_le_mul _ ih (norm_nonneg _) (by positivity)
      calc ‖1 + q‖ ≤ ‖(1 : ℂ)‖ + ‖q‖ := norm_add_le _ _
        _ = 1 + ‖q‖ := by simp
    have h2 : ‖(n : ℂ) * q ^ 2‖ ≤ n * ‖q‖ ^ 2 * (1 + ‖q‖) ^ (n + 1) := by
      rw [norm_mul, norm_pow, Complex.norm_natCast]
      have : (1 : ℝ) ≤ (1 + ‖q‖) ^ (n + 1) := one_le_pow₀ (by linarith)
      have h0 : 0 ≤ (n : ℝ) * ‖q‖ ^ 2 := by positivity
      nlinarith
    calc ‖(1 + q) * ((1 + q) ^ n - 1 - n * q) + n * q ^ 2‖
        ≤ ‖(1 + q) * ((1 + q) ^ n - 1 - n * q)‖ + ‖(n : ℂ) * q ^ 2‖ := norm_add_le _ _
      _ ≤ (1 + ‖q‖) * ((n * (n - 1) / 2 : ℝ) * ‖q‖ ^ 2 * (1 + ‖q‖) ^ n) + n * ‖q‖ ^ 2 * (1 + ‖q‖) ^ (n + 1) := add_le_add h1 h2
      _ = (((n + 1 : ℕ) : ℝ) * (((n + 1 : ℕ) : ℝ) - 1) / 2) * ‖q‖ ^ 2 * (1 + ‖q‖) ^ (n + 1) := by
          push_cast; ring

/-- … in exponential form: `‖(1+q)ⁿ − 1 − n q‖ ≤ (n‖q‖)² · e^{n‖q‖}` -/
theorem pow_one_add_remainder_exp (q : ℂ) (n : ℕ) :
    ‖(1 + q) ^ n - 1 - n * q‖ ≤ ((n : ℝ) * ‖q‖) ^ 2 * Real.exp ((n : ℝ) * ‖q‖) := by
  have h := pow_one_add_remainder q n
  have hx : 0 ≤ ‖q‖ := norm_nonneg q
  have h1 : (1 + ‖q‖) ^ n ≤ Real.exp ((n : ℝ) * ‖q‖) := by
    have : 1 + ‖q‖ ≤ Real.exp ‖q‖ := by linarith [Real.add_one_le_exp ‖q‖]
    calc (1 + ‖q‖) ^ n ≤ Real.exp ‖q‖ ^ n := pow_le_pow_left₀ (by linarith) this n
      _ = Real.exp ((n : ℝ) * ‖q‖) := by rw [← Real.exp_nat_mul]
  have h2 : (n * (n - 1) / 2 : ℝ) ≤ (n : ℝ) ^ 2 := by
    have : (0 : ℝ) ≤ n := Nat.cast_nonneg n
    nlinarith
  calc ‖(1 + q) ^ n - 1 - n * q‖ ≤ (n * (n - 1) / 2 : ℝ) * ‖q‖ ^ 2 * (1 + ‖q‖) ^ n := h
    _ ≤ (n : ℝ) ^ 2 * ‖q‖ ^ 2 * Real.exp ((n : ℝ) * ‖q‖) := by
        apply mul_le_mul (mul_le_mul_of_nonneg_right h2 (by positivity)) h1 (by positivity) (by positivity)
    _ = ((n : ℝ) * ‖q‖) ^ 2 * Real.exp ((n : ℝ) * ‖q‖) := by ring

/-- **leading term of the error on a uniform grid**: `p₃(w)ⁿ − e^{n w} = −e^{n w}·n·w⁴/24 + O(n‖w‖⁵)` -/
theorem uniform_product_leading (w : ℂ) (hw : ‖w‖ ≤ 1) (n : ℕ) :
    ‖p3 w ^ n - Complex.exp (n * w) - (-(Complex.exp (n * w) * (n * (w ^ 4 / 24))))‖
      ≤ ‖Complex.exp (n * w)‖ * ((n : ℝ) * (1 / 4 * ‖w‖ ^ 5)
          + ((n : ℝ) * (1 / 3 * ‖w‖ ^ 4)) ^ 2 * Real.exp ((n : ℝ) * (1 / 3 * ‖w‖ ^ 4))) := by
  set q := layerDefect w with hq
  have hpow : p3 w ^ n = Complex.exp (n * w) * (1 + q) ^ n := by
    rw [p3_eq w, mul_pow, ← Complex.exp_nat_mul]
  have e : p3 w ^ n - Complex.exp (n * w) - (-(Complex.exp (n * w) * (n * (w ^ 4 / 24))))
      = Complex.exp (n * w) * (((1 + q) ^ n - 1 - n * q) + n * (q + w ^ 4 / 24)) := by
    rw [hpow]; ring
  rw [e, norm_mul]
  apply mul_le_mul_of_nonneg_left _ (norm_nonneg _)
  have hql := layerDefect_le w hw
  have hqlead := layerDefect_leading w hw
  have hn0 : (0 : ℝ) ≤ n := Nat.cast_nonneg n
  have h1 : ‖(1 + q) ^ n - 1 - n * q‖ ≤ ((n : ℝ) * (1 / 3 * ‖w‖ ^ 4)) ^ 2 * Real.exp ((n : ℝ) * (1 / 3 * ‖w‖ ^ 4)) := by
    refine (pow_one_add_remainder_exp q n).trans ?_
    have hm : (n : ℝ) * ‖q‖ ≤ (n : ℝ) * (1 / 3 * ‖w‖ ^ 4) := mul_le_mul_of_nonneg_left hql hn0
    have h0 : 0 ≤ (n : ℝ) * ‖q‖ := mul_nonneg hn0 (norm_nonneg _)
    apply mul_le_mul (pow_le_pow_left₀ h0 hm 2) (Real.exp_le_exp.2 hm) (Real.exp_pos _).le (by positivity)
  have h2 : ‖(n : ℂ) * (q + w ^ 4 / 24)‖ ≤ (n : ℝ) * (1 / 4 * ‖w‖ ^ 5) := by
    rw [norm_mul, Complex.norm_natCast]
    exact mul_le_mul_of_nonneg_left hqlead hn0
  calc ‖((1 + q) ^ n - 1 - n * q) + n * (q + w ^ 4 / 24)‖
      ≤ ‖(1 + q) ^ n - 1 - n * q‖ + ‖(n : ℂ) * (q + w ^ 4 / 24)‖ := norm_add_le _ _
    _ ≤ _ := by linarith

/-- the leading term is cubic in the layer thickness: with `w = −μ·dz`, `n·dz = h`: `n·w⁴/24 = h·μ⁴·dz³/24` -/
theorem leading_term_cubic (μ : ℂ) (dz : ℝ) (n : ℕ) :
    (n : ℂ) * ((-μ * (dz : ℂ)) ^ 4 / 24) = ((n : ℂ) * (dz : ℂ)) * μ ^ 4 * (dz : ℂ) ^ 3 / 24 := by ring

/-- halving the layer thickness (twice as many layers over the same height) divides the leading term by exactly 8 -/
theorem leading_term_halving (μ : ℂ) (dz : ℝ) (n : ℕ) :
    ((2 * n : ℕ) : ℂ) * ((-μ * ((dz / 2 : ℝ) : ℂ)) ^ 4 / 24) = ((n : ℂ) * ((-μ * (dz : ℂ)) ^ 4 / 24)) / 8 := by
  push_cast; ring

/-- … for the numerical flux of a uniform-profile column on a uniform grid `z i = z₀ + i·dz`:
`numeric − analytic = −q̂·e^{−μ h}·h·μ⁴·dz³/24 + O(dz⁴)`, `h = l·dz` -/
theorem numeric_flux_leading_error (P : Profiles ℝ) (hU : Uniform P) (z0 dz : ℝ) (top : ℕ) (Lx Ly : ℝ) (qh : ℂ)
    (hKz : P.Kz 0 ≠ 0) (hμ0 : eigval RC P top Lx Ly ≠ 0)
    (hden : C01.shootDen P (fun i => z0 + i * dz) top Lx Ly ≠ 0) (l : ℕ)
    (hres : ‖eigval RC P top Lx Ly‖ * |dz| ≤ 1) :
    let μ := eigval RC P top Lx Ly
    let w : ℂ := -μ * (dz : ℂ)
    ‖(columnNum RC P (fun i => z0 + i * dz) top Lx Ly qh l).2 - (columnAna RC P (fun i => z0 + i * dz) top Lx Ly qh l).2
        - (-(qh * (Complex.exp (l * w) * (l * (w ^ 4 / 24)))))‖
      ≤ ‖qh‖ * (‖Complex.exp (l * w)‖ * ((l : ℝ) * (1 / 4 * ‖w‖ ^ 5)
          + ((l : ℝ) * (1 / 3 * ‖w‖ ^ 4)) ^ 2 * Real.exp ((l : ℝ) * (1 / 3 * ‖w‖ ^ 4)))) := by
  intro μ w
  have hKzc : (P.Kz 0 : ℂ) ≠ 0 := by exact_mod_cast hKz
  have hnum := numeric_uniform_product P hU (fun i => z0 + i * dz) top Lx Ly qh hKzc hμ0
    (fun i => uniform_T_eq P hU top Lx Ly hKz i) hden l
  have hana := analytic_is_closed_form P (fun i => z0 + i * dz) top Lx Ly qh l
  simp only at hnum hana
  rw [hnum, hana]
  simp only []
  have hstep : ∀ i : ℕ, (((z0 + ((i + 1 : ℕ) : ℝ) * dz) - (z0 + (i : ℝ) * dz) : ℝ) : ℂ) = (dz : ℂ) := by
    intro i; push_cast; ring
  have hprod : ∏ i ∈ Finset.range l, p3 (-eigval RC P top Lx Ly * (((z0 + ((i + 1 : ℕ) : ℝ) * dz) - (z0 + (i : ℝ) * dz) : ℝ) : ℂ))
      = p3 w ^ l := by
    rw [Finset.prod_congr rfl (fun i _ => by rw [hstep i])]
    simp [w, μ]
  have hh : (((z0 + (l : ℝ) * dz) - (z0 + ((0 : ℕ) : ℝ) * dz) : ℝ) : ℂ) = (l : ℂ) * (dz : ℂ) := by
    push_cast; ring
  rw [hprod, hh]
  have hexp : Complex.exp (-eigval RC P top Lx Ly * ((l : ℂ) * (dz : ℂ))) = Complex.exp (l * w) := by
    congr 1; simp only [w, μ]; ring
  rw [hexp]
  have hw : ‖w‖ ≤ 1 := by
    simp only [w, μ, norm_mul, norm_neg, Complex.norm_real, Real.norm_eq_abs]
    exact hres
  have key := uniform_product_leading w hw l
  have e : p3 w ^ l * qh - qh * Complex.exp (l * w) - (-(qh * (Complex.exp (l * w) * (l * (w ^ 4 / 24)))))
      = qh * (p3 w ^ l - Complex.exp (l * w) - (-(Complex.exp (l * w) * (l * (w ^ 4 / 24))))) := by ring
  rw [e, norm_mul]
  exact mul_le_mul_of_nonneg_left key (norm_nonneg _)

end BLDFM.C05
