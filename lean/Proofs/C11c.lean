/-
  C11 — "requesting more modes than the padded grid holds equals requesting exactly as many as it holds", at the level of the returned
  RESULT (C11.clamp_equiv is the statement about the derived geometry): every field value, height label and coordinate of the over-request
  equals that of the request with `(nlx, nly) = (Nx, Ny)`.
-/
import Proofs.C11
import Proofs.Lemmas.Witness

open BLDFM BLDFM.Spec

namespace BLDFM.C11

/-- the result depends on the requested mode counts only through the derived geometry -/
theorem solveOk_of_geom_eq (r r' : SolveReq ℝ) (hg : geom RC r' = geom RC r)
    (h : r' = { r with nlx := r'.nlx, nly := r'.nly }) (k j i : ℕ) :
    (solveOk RC r').conc k j i = (solveOk RC r).conc k j i ∧ (solveOk RC r').flx k j i = (solveOk RC r).flx k j i ∧
    (solveOk RC r').Z k = (solveOk RC r).Z k ∧ (solveOk RC r').X i = (solveOk RC r).X i ∧ (solveOk RC r').Y j = (solveOk RC r).Y j := by
  have hlv : r'.levels = r.levels := by rw [h]
  have hz : r'.z = r.z := by rw [h]
  have hS : srcSpectrum RC r' (geom RC r) = srcSpectrum RC r (geom RC r) := by rw [h]; rfl
  have hF : ∀ l, fieldsAt RC r' (geom RC r) (srcSpectrum RC r (geom RC r)).get l = fieldsAt RC r (geom RC r) (srcSpectrum RC r (geom RC r)).get l := by
    intro l; rw [h]; rfl
  simp only [solveOk, hg, hlv, hz, hS, hF]
  exact ⟨trivial, trivial, trivial, trivial, trivial⟩

/-- **over-request = exact request, at the level of the returned result** -/
theorem clamp_output (req : SolveReq ℝ) (hover : req.nlx > (geom RC req).nxe ∨ req.nly > (geom RC req).nye) (k j i : ℕ) :
    let exact : SolveReq ℝ := { req with nlx := (geom RC req).nxe, nly := (geom RC req).nye }
    (solveOk RC exact).conc k j i = (solveOk RC req).conc k j i ∧ (solveOk RC exact).flx k j i = (solveOk RC req).flx k j i ∧
    (solveOk RC exact).Z k = (solveOk RC req).Z k ∧ (solveOk RC exact).X i = (solveOk RC req).X i ∧ (solveOk RC exact).Y j = (solveOk RC req).Y j :=
  solveOk_of_geom_eq req _ (clamp_equiv req hover) rfl k j i

/-! non-vacuity: 512 modes on a 5 × 4 grid without halo exceed the padded size -/
example : (512 : ℕ) > (geom RC ({ Witness.wreq false with nlx := 512, nly := 512 } : SolveReq ℝ)).nxe := by
  simp [geom, Witness.wreq, RC]

end BLDFM.C11
