/-
  C07 (whole model pipeline) — MIRRORING IN x IN FOOTPRINT MODE: wind component `u ↦ -u`, tower mirrored
  (`i_m ↦ nx - 1 - i_m`, an on-grid tower); the source values do not matter in footprint mode (C04).

  `mirrorX_fp_component` : every retained component that has a partner of opposite x-frequency — the coefficient pair of the
                           mirrored run at slot `(a, b)` IS the coefficient pair of the original run at the partner `(a, b̄)`;
  `mirrorX_fp_shift`     : the footprint phase of the mirrored tower at `(a, b)` is the phase of the original tower at the
                           partner slot times `ω_x^{-f(b)}`;
  `mirrorX_footprint_field` : when every x-slot has a partner (odd retained-mode count) the footprint and the concentration
                           Green's function of the mirrored request are the mirrored fields on the padded domain,
                           `field'[J, I] = field[J, Nx - 1 - I]`.

  This was the "mirrored footprints (mirrored tower)" item of the partial-clause list (oracle only so far).
-/
import Proofs.C07e
import Proofs.C06
import Proofs.Lemmas.Witness

open BLDFM BLDFM.Spec BLDFM.Index

namespace BLDFM.C07

/-- `r'` is the x-mirror image of the footprint request `r` whose tower sits on grid column `im` -/
def MirroredXfp (r r' : SolveReq ℝ) (im : ℕ) : Prop :=
  r' = { r with P := mirrorX r.P, xm := ((r.nx - 1 - im : ℕ) : ℝ) * (geom RC r).dx }

section
variable {r r' : SolveReq ℝ} {im : ℕ} (h : MirroredXfp r r' im)
include h

theorem mxfp_geom : geom RC r' = geom RC r := by
  have e' : r' = _ := h
  rw [e']; rfl

theorem mxfp_srcSpectrum (hfp : r.footprint = true) (a b bb : ℕ) :
    (srcSpectrum RC r' (geom RC r)).get a b = (srcSpectrum RC r (geom RC r)).get a bb := by
  have e' : r' = _ := h
  have fp' : r'.footprint = true := by rw [e']; exact hfp
  simp only [srcSpectrum, fp', hfp, if_true, Tab2.get_tab]

/-- MIRROR IN x, footprint mode, component form -/
theorem mirrorX_fp_component (hp : r.precision = .double) (hfp : r.footprint = true) (l a b bb : ℕ)
    (hb : b < (geom RC r).nlx) (hbb : bb < (geom RC r).nlx)
    (hf : sfreq (geom RC r).nlx bb = -sfreq (geom RC r).nlx b) :
    modeCoef RC r' (geom RC r) (srcSpectrum RC r' (geom RC r)).get l a b =
      modeCoef RC r (geom RC r) (srcSpectrum RC r (geom RC r)).get l a bb := by
  have e' : r' = _ := h
  have hw : waveX RC (geom RC r) b = -waveX RC (geom RC r) bb := by
    unfold waveX
    rw [freqR_eq _ _ hb, freqR_eq _ _ hbb, hf]
    simp only [Int.cast_neg, mul_neg, neg_neg]
  have fan : r'.analytic = r.analytic := by rw [e']
  have fP : r'.P = mirrorX r.P := by rw [e']
  have fz : r'.z = r.z := by rw [e']
  have fnz : r'.nz = r.nz := by rw [e']
  have fbg : r'.bg = r.bg := by rw [e']
  have fpr : r'.precision = .double := by rw [e']; exact hp
  have hb0 : b = 0 ↔ bb = 0 := by
    rw [← C11.sfreq_eq_zero_iff _ b hb, ← C11.sfreq_eq_zero_iff _ bb hbb, hf, neg_eq_zero]
  unfold modeCoef
  simp only [storeP, fpr, hp, fan, fP, fz, fnz, fbg]
  by_cases hab : a = 0 ∧ b = 0
  · have hab' : a = 0 ∧ bb = 0 := ⟨hab.1, hb0.mp hab.2⟩
    rw [if_pos hab, if_pos hab']
    obtain ⟨rfl, rfl⟩ := hab
    have hbb0 : bb = 0 := hab'.2
    subst hbb0
    rw [mxfp_srcSpectrum h hfp 0 0 0]
    rfl
  · have hab' : ¬(a = 0 ∧ bb = 0) := fun hh => hab ⟨hh.1, hb0.mpr hh.2⟩
    rw [if_neg hab, if_neg hab', mxfp_srcSpectrum h hfp a b bb, hw]
    cases han : r.analytic
    · simp only [Bool.false_eq_true, if_false]
      rw [column_mirrorX]
    · simp only [if_true]
      rw [(columnAna_symm r.P r.z (r.nz - 1) _ _ _ l).1]

/-- the footprint phase of the mirrored tower -/
theorem mirrorX_fp_shift (hfp : r.footprint = true) (jm : ℕ) (him : im < r.nx)
    (hxm : r.xm = im * (geom RC r).dx) (hym : r.ym = jm * (geom RC r).dy)
    (hg : GeomOK (geom RC r)) (hdx : (geom RC r).dx ≠ 0) (hdy : (geom RC r).dy ≠ 0)
    (a b bb : ℕ) (ha : a < (geom RC r).nly) (hb : b < (geom RC r).nlx) (hbb : bb < (geom RC r).nlx)
    (hf : sfreq (geom RC r).nlx bb = -sfreq (geom RC r).nlx b) :
    shiftFactor RC r' (geom RC r) a b =
      rootPow (geom RC r).nxe (-sfreq (geom RC r).nlx b) * shiftFactor RC r (geom RC r) a bb := by
  have e' : r' = _ := h
  have g' := mxfp_geom h
  have fp' : r'.footprint = true := by rw [e']; exact hfp
  have fxm : r'.xm = ((r.nx - 1 - im : ℕ) : ℝ) * (geom RC r').dx := by rw [g']; rw [e']
  have fym : r'.ym = jm * (geom RC r').dy := by rw [g']; rw [e']; exact hym
  have hNx := hg.Nx_pos
  have hNy := hg.Ny_pos
  have s' := C06.footprint_phase_on_grid r' fp' a b (r.nx - 1 - im) jm fxm fym (by rw [g']; exact ha) (by rw [g']; exact hb)
    (by rw [g']; exact hdx) (by rw [g']; exact hdy) (by rw [g']; exact hNx) (by rw [g']; exact hNy)
  have s0 := C06.footprint_phase_on_grid r hfp a bb im jm hxm hym ha hbb hdx hdy hNx hNy
  simp only [g'] at s'
  simp only at s0
  rw [s', s0, hf, ← mul_assoc, ← rootPow_add]
  congr 1
  have hN := C11.geom_nxe r
  have hc : ((r.nx - 1 - im + (geom RC r).px : ℕ) : ℤ) = (r.nx : ℤ) - 1 - im + (geom RC r).px := by omega
  have hc2 : ((im + (geom RC r).px : ℕ) : ℤ) = (im : ℤ) + (geom RC r).px := by omega
  have hNz : ((geom RC r).nxe : ℤ) = (r.nx : ℤ) + 2 * (geom RC r).px := by omega
  rw [hc, hc2]
  have : sfreq (geom RC r).nlx b * ((r.nx : ℤ) - 1 - im + (geom RC r).px)
      = (-sfreq (geom RC r).nlx b + -sfreq (geom RC r).nlx b * ((im : ℤ) + (geom RC r).px)) + (geom RC r).nxe * sfreq (geom RC r).nlx b := by
    rw [hNz]; ring
  rw [this, rootPow_add_mul _ hNx]

/-- MIRROR IN x, footprint mode, field form: with an odd retained-mode count both padded-domain fields of the mirrored
request (wind component `u` negated, tower mirrored) are the mirrored fields -/
theorem mirrorX_footprint_field (hg : GeomOK (geom RC r)) (hp : r.precision = .double) (hfp : r.footprint = true)
    (jm : ℕ) (him : im < r.nx) (hxm : r.xm = im * (geom RC r).dx) (hym : r.ym = jm * (geom RC r).dy)
    (hdx : (geom RC r).dx ≠ 0) (hdy : (geom RC r).dy ≠ 0) (hodd : (geom RC r).nlx % 2 = 1)
    (l J I : ℕ) (hI : I < (geom RC r).nxe) :
    (fieldsAt RC r' (geom RC r') (srcSpectrum RC r' (geom RC r')).get l).1.get J I
      = (fieldsAt RC r (geom RC r) (srcSpectrum RC r (geom RC r)).get l).1.get J ((geom RC r).nxe - 1 - I) ∧
    (fieldsAt RC r' (geom RC r') (srcSpectrum RC r' (geom RC r')).get l).2.get J I
      = (fieldsAt RC r (geom RC r) (srcSpectrum RC r (geom RC r)).get l).2.get J ((geom RC r).nxe - 1 - I) := by
  have e' : r' = _ := h
  have g' := mxfp_geom h
  rw [g']
  have fp' : r'.footprint = true := by rw [e']; exact hfp
  have hNx := hg.Nx_pos
  have hs := C03.signPair_of true
  simp only [if_true] at hs
  have e1 := C03.fieldsAt_eq r' (geom RC r) (srcSpectrum RC r' (geom RC r)).get l
  have e0 := C03.fieldsAt_eq r (geom RC r) (srcSpectrum RC r (geom RC r)).get l
  rw [fp'] at e1
  rw [hfp] at e0
  simp only [if_true] at e1 e0
  set g := geom RC r with hgd
  let bar : ℕ → ℕ := fun b => (g.nlx - b) % g.nlx
  have hbar : ∀ b, b < g.nlx → bar b < g.nlx ∧ sfreq g.nlx (bar b) = -sfreq g.nlx b := by
    intro b hb
    have hodd' : g.nlx % 2 = 1 := hodd
    exact sfreq_partner g.nlx b hb (by omega)
  have hinv : ∀ b, b < g.nlx → bar (bar b) = b := by
    intro b hb
    show (g.nlx - (g.nlx - b) % g.nlx) % g.nlx = b
    rcases Nat.eq_zero_or_pos b with rfl | hpos
    · simp
    · rw [Nat.mod_eq_of_lt (show g.nlx - b < g.nlx by omega), Nat.mod_eq_of_lt (show g.nlx - (g.nlx - b) < g.nlx by omega)]; omega
  have phase : ∀ b, b < g.nlx →
      rootPow g.nxe (-sfreq g.nlx b) * rootPow g.nxe (-1 * sfreq g.nlx b * I)
        = rootPow g.nxe (-1 * sfreq g.nlx (bar b) * ((g.nxe - 1 - I : ℕ) : ℤ)) := by
    intro b hb
    rw [← rootPow_add, (hbar b hb).2]
    have hc : ((g.nxe - 1 - I : ℕ) : ℤ) = (g.nxe : ℤ) - 1 - I := by omega
    rw [hc]
    have : -1 * -sfreq g.nlx b * ((g.nxe : ℤ) - 1 - I) = (-sfreq g.nlx b + -1 * sfreq g.nlx b * I) + g.nxe * sfreq g.nlx b := by ring
    rw [this, rootPow_add_mul _ hNx]
  have reidx : ∀ (G : ℕ → ℂ), ∑ b ∈ Finset.range g.nlx, G (bar b) = ∑ b ∈ Finset.range g.nlx, G b := by
    intro G
    apply Finset.sum_nbij' bar bar
    · intro b hb; exact Finset.mem_range.mpr (hbar b (Finset.mem_range.mp hb)).1
    · intro b hb; exact Finset.mem_range.mpr (hbar b (Finset.mem_range.mp hb)).1
    · intro b hb; exact hinv b (Finset.mem_range.mp hb)
    · intro b hb; exact hinv b (Finset.mem_range.mp hb)
    · intro b _; rfl
  refine ⟨?_, ?_⟩
  · rw [e1.1, e0.1, solver_repr (-1) (-1.0) hs g hg, solver_repr (-1) (-1.0) hs g hg]
    apply Finset.sum_congr rfl; intro a ha
    rw [← reidx (fun b => (modeCoef RC r g (srcSpectrum RC r g).get l a b).1 * shiftFactor RC r g a b *
        rootPow g.nxe (-1 * sfreq g.nlx b * ((g.nxe - 1 - I : ℕ) : ℤ)) * rootPow g.nye (-1 * sfreq g.nly a * J))]
    apply Finset.sum_congr rfl; intro b hb
    have hb' := Finset.mem_range.mp hb
    rw [mirrorX_fp_component h hp hfp l a b (bar b) hb' (hbar b hb').1 (hbar b hb').2,
      mirrorX_fp_shift h hfp jm him hxm hym hg hdx hdy a b (bar b) (Finset.mem_range.mp ha) hb' (hbar b hb').1 (hbar b hb').2,
      ← phase b hb']
    ring
  · rw [e1.2, e0.2, solver_repr (-1) (-1.0) hs g hg, solver_repr (-1) (-1.0) hs g hg]
    apply Finset.sum_congr rfl; intro a ha
    rw [← reidx (fun b => (modeCoef RC r g (srcSpectrum RC r g).get l a b).2 * shiftFactor RC r g a b *
        rootPow g.nxe (-1 * sfreq g.nlx b * ((g.nxe - 1 - I : ℕ) : ℤ)) * rootPow g.nye (-1 * sfreq g.nly a * J))]
    apply Finset.sum_congr rfl; intro b hb
    have hb' := Finset.mem_range.mp hb
    rw [mirrorX_fp_component h hp hfp l a b (bar b) hb' (hbar b hb').1 (hbar b hb').2,
      mirrorX_fp_shift h hfp jm him hxm hym hg hdx hdy a b (bar b) (Finset.mem_range.mp ha) hb' (hbar b hb').1 (hbar b hb').2,
      ← phase b hb']
    ring

end

/-! ### non-vacuity: a clamped odd grid (5 columns, 6 modes requested → 5 retained), the tower on column 1 (10 m = 1 · dx) -/
example : ∃ (r r' : SolveReq ℝ) (im jm : ℕ), MirroredXfp r r' im ∧ GeomOK (geom RC r) ∧ r.precision = .double ∧
    r.footprint = true ∧ im < r.nx ∧ r.xm = im * (geom RC r).dx ∧ r.ym = jm * (geom RC r).dy ∧
    (geom RC r).dx ≠ 0 ∧ (geom RC r).dy ≠ 0 ∧ (geom RC r).nlx % 2 = 1 := by
  refine ⟨{ Witness.wreq true with nlx := 6 }, _, 1, 1, rfl, ?_, rfl, rfl, ?_, ?_, ?_, ?_, ?_, ?_⟩
  · exact C03.geomOK_of_request _ (by simp [Witness.wreq]) (by simp [Witness.wreq]) (by simp [Witness.wreq])
      (by simp [Witness.wreq]) (by simp [Witness.wreq]) (by simp [Witness.wreq])
  · simp [Witness.wreq]
  · simp [geom, Witness.wreq, RC]; norm_num
  · simp [geom, Witness.wreq, RC]; norm_num
  · simp [geom, Witness.wreq, RC]
  · simp [geom, Witness.wreq, RC]
  · simp [geom, clampModes, Witness.wreq, RC]

end BLDFM.C07
