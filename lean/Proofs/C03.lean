/-
  C03 — level-wise conservation at the level of the zero-wavenumber component:
  at EVERY output level the (0,0) coefficient of the flux spectrum is the mean
  surface flux `q̂₀₀`, that of the concentration is `bg - q̂₀₀ · R_l` with the
  trapezoid (numeric) or `h/Kz` (analytic) resistance; in footprint mode
  `q̂₀₀ = 1/(Nx·Ny)`; the (0,0) slot is placed at index (0,0) of the full spectrum
  with unit phase.  (The horizontal mean over the padded domain equals the (0,0)
  coefficient by orthogonality — `Proofs/Lemmas/Repr.lean`.)
-/
import Proofs.Lemmas.Spec
import Proofs.Lemmas.Tactics
import Proofs.Lemmas.Index
import Proofs.C11

open BLDFM BLDFM.Spec BLDFM.Index

namespace BLDFM.C03

/-- DC flux coefficient = mean surface flux, at every level, numeric and analytic -/
theorem dc_flux_conserved (req : SolveReq ℝ) (S : ℕ → ℕ → ℂ) (l : ℕ) (hp : req.precision = .double) :
    (modeCoef RC req (geom RC req) S l 0 0).2 = S 0 0 := by
  simp [modeCoef, storeP, hp]

/-- DC concentration coefficient = background − mean flux × vertical resistance -/
theorem dc_conc_resistance (req : SolveReq ℝ) (S : ℕ → ℕ → ℂ) (l : ℕ) (hp : req.precision = .double) :
    (modeCoef RC req (geom RC req) S l 0 0).1 =
      if req.analytic then
        (req.bg : ℂ) - S 0 0 * (((req.z l - req.z 0) / req.P.Kz (req.nz - 1) : ℝ) : ℂ)
      else
        (req.bg : ℂ) - S 0 0 * ((∑ i ∈ Finset.range l,
          (req.z (i + 1) - req.z i) * (0.5 / req.P.Kz i + 0.5 / req.P.Kz (i + 1)) : ℝ) : ℂ) := by
  cases han : req.analytic
  · simp only [modeCoef, storeP, hp, han, meanNum, resistNum, RC_ofReal]
    have h : ∀ n : ℕ, sumN (0.0 : ℝ) n (fun i => (req.z (i + 1) - req.z i) * (0.5 / req.P.Kz i + 0.5 / req.P.Kz (i + 1)))
        = ∑ i ∈ Finset.range n, (req.z (i + 1) - req.z i) * (0.5 / req.P.Kz i + 0.5 / req.P.Kz (i + 1)) := by
      intro n
      induction n with
      | zero => norm_num [sumN]
      | succ n ih => rw [sumN, ih, Finset.sum_range_succ]
    simp [h]
  · simp only [modeCoef, storeP, hp, han, meanAna, RC_ofReal]
    simp
    push_cast
    norm_num
    ring

/-- footprint mode: the source spectrum is the constant `1/(Nx·Ny)` (unit impulse) -/
theorem footprint_unit_spectrum (req : SolveReq ℝ) (hfp : req.footprint = true) (a b : ℕ)
    (hx : 0 < (geom RC req).nxe) (hy : 0 < (geom RC req).nye) :
    (srcSpectrum RC req (geom RC req)).get a b = 1 / (((geom RC req).nxe : ℂ) * ((geom RC req).nye : ℂ)) := by
  simp only [srcSpectrum, hfp, if_true, Tab2.get_tab, RC_ofReal, RC_natCast]
  push_cast
  norm_num
  ring

/-- the (0,0) slot has unit phase in footprint mode … -/
theorem dc_phase_unit (req : SolveReq ℝ) (h0x : 0 < (geom RC req).nlx) (h0y : 0 < (geom RC req).nly) :
    shiftFactor RC req (geom RC req) 0 0 = 1 := by
  have fx : freqR RC (geom RC req).nlx 0 = 0 := by
    unfold freqR; rw [if_pos (by omega)]; simp [RC_natCast]
  have fy : freqR RC (geom RC req).nly 0 = 0 := by
    unfold freqR; rw [if_pos (by omega)]; simp [RC_natCast]
  simp only [shiftFactor, waveX, waveY, fx, fy]
  split
  · simp [RC_cexp, RC_ofReal]
  · split
    · simp [RC_cexp, RC_ofReal]
    · norm_num

/-- … and sits at index (0,0) of the full-size spectrum (both parities) -/
theorem dc_slot_position (req : SolveReq ℝ) (T : ℕ → ℕ → ℂ)
    (hnx : 0 < req.nx) (hny : 0 < req.ny)
    (hex : req.nlx % 2 = 0) (hey : req.nly % 2 = 0) (hpx : 0 < req.nlx) (hpy : 0 < req.nly) :
    untrunc (geom RC req) T 0 0 = T 0 0 := by
  obtain ⟨hy, hx, hdy, hdx⟩ := C11.geom_admissible req hnx hny hex hey hpx hpy
  have h := C11.untrunc_hit (geom RC req) T 0 0 hy hx hdy hdx hy.1 hx.1
  have e1 : slotPos (geom RC req).nye (geom RC req).nly 0 = 0 := by
    unfold slotPos; rw [if_pos]; have := hy.1; omega
  have e2 : slotPos (geom RC req).nxe (geom RC req).nlx 0 = 0 := by
    unfold slotPos; rw [if_pos]; have := hx.1; omega
  rw [e1, e2] at h
  exact h

/-- halo ≡ zero padding (sizes): a halo of width `h` pads by `px = ⌊h/dx⌋`, `py = ⌊h/dy⌋`
whole cells on each side; the padded source is the input inside the window and zero outside -/
theorem halo_is_zero_padding (req : SolveReq ℝ) (j i : ℕ) :
    let g := geom RC req
    g.nxe = req.nx + 2 * g.px ∧ g.nye = req.ny + 2 * g.py ∧
    (∀ (hj : j < req.ny) (hi : i < req.nx), padSrc RC req g (j + g.py) (i + g.px) = (req.q j i : ℂ)) ∧
    ((j < g.py ∨ g.py + req.ny ≤ j ∨ i < g.px ∨ g.px + req.nx ≤ i) → padSrc RC req g j i = 0) := by
  intro g
  refine ⟨rfl, rfl, ?_, ?_⟩
  · intro hj hi
    unfold padSrc
    rw [if_pos ⟨by omega, by omega, by omega, by omega⟩]
    simp [RC_ofReal]
  · intro h
    unfold padSrc
    rw [if_neg (by omega)]
    norm_num

end BLDFM.C03
