/-
  C19 (mass clause, finite upwind extent) — "its sum tends to the regularised incomplete-gamma mass captured
  within the grid's upwind extent".  Mathlib has no incomplete gamma function; with the upper incomplete gamma
  function written as its defining integral  Γ(μ, s) = ∫_s^∞ t^{μ-1} e^{-t} dt  the mass of the continuous
  crosswind-integrated footprint within the upwind extent `X` is EXACTLY  Γ(μ, ξ/X) / Γ(μ) = Q(μ, ξ/X):

      ∫₀^X ξ^μ x^{-(1+μ)} e^{-ξ/x} dx = ∫_{ξ/X}^∞ t^{μ-1} e^{-t} dt        (substitution t = ξ/x)

  What stays numeric is only the Riemann-sum convergence of the grid sum to this integral as the grid is refined.
-/
import Proofs.C19b

open MeasureTheory Set Real

namespace BLDFM.C19

/-- upper incomplete gamma function, by its defining integral -/
noncomputable def upperGamma (μ s : ℝ) : ℝ := ∫ t in Ioi s, t ^ (μ - 1) * Real.exp (-t)

/-- regularised upper incomplete gamma function `Q(μ, s) = Γ(μ, s) / Γ(μ)` -/
noncomputable def gammaQ (μ s : ℝ) : ℝ := upperGamma μ s / Real.Gamma μ

/-- `∫₀^X ξ^μ x^{-(1+μ)} e^{-ξ/x} dx = Γ(μ, ξ/X)` -/
theorem km_crosswind_integrated_extent (ξ μ X : ℝ) (hξ : 0 < ξ) (hX : 0 < X) :
    ∫ x in Ioo (0 : ℝ) X, ξ ^ μ * x ^ (-(1 + μ)) * Real.exp (-ξ / x) = upperGamma μ (ξ / X) := by
  have hs : 0 < ξ / X := div_pos hξ hX
  -- the truncated Euler integrand
  set G : ℝ → ℝ := (Ioi (ξ / X)).indicator (fun s => s ^ (μ - 1) * Real.exp (-s)) with hG
  have hR : ∫ s in Ioi (0 : ℝ), G s = upperGamma μ (ξ / X) := by
    rw [hG, setIntegral_indicator measurableSet_Ioi]
    have : Ioi (0 : ℝ) ∩ Ioi (ξ / X) = Ioi (ξ / X) := by
      ext y; simp only [mem_inter_iff, mem_Ioi]; constructor
      · exact fun h => h.2
      · exact fun h => ⟨hs.trans h, h⟩
    rw [this]; rfl
  have h1 : ∫ t in Ioi (0 : ℝ), ξ * G (ξ * t) = ∫ s in Ioi (0 : ℝ), G s := by
    have h := integral_comp_mul_left_Ioi G 0 hξ
    rw [mul_zero] at h
    rw [integral_const_mul, h, smul_eq_mul, ← mul_assoc, mul_inv_cancel₀ hξ.ne', one_mul]
  have h2 := integral_comp_rpow_Ioi (fun t : ℝ => ξ * G (ξ * t)) (p := -1) (by norm_num)
  rw [h1, hR] at h2
  rw [← h2]
  -- the integrand after the substitution is the footprint restricted to (0, X)
  have e : ∀ x ∈ Ioi (0 : ℝ), (|(-1 : ℝ)| * x ^ ((-1 : ℝ) - 1)) • (ξ * G (ξ * x ^ (-1 : ℝ)))
      = (Iio X).indicator (fun x => ξ ^ μ * x ^ (-(1 + μ)) * Real.exp (-ξ / x)) x := by
    intro x hx
    have hx' : 0 < x := hx
    have e2 : ξ * x ^ (-1 : ℝ) = ξ / x := by rw [Real.rpow_neg_one]; rfl
    simp only [smul_eq_mul, abs_neg, abs_one, one_mul, e2, hG]
    by_cases hxX : x < X
    · have hin : ξ / x ∈ Ioi (ξ / X) := by
        simp only [mem_Ioi]; exact div_lt_div_of_pos_left hξ hx' hxX
      rw [indicator_of_mem hin, indicator_of_mem (show x ∈ Iio X from hxX)]
      have e1 : (ξ / x) ^ (μ - 1) = ξ ^ (μ - 1) * x ^ (-(μ - 1)) := by
        rw [Real.div_rpow hξ.le hx'.le, Real.rpow_neg hx'.le, div_eq_mul_inv]
      have e3 : ξ ^ μ = ξ * ξ ^ (μ - 1) := by
        rcases eq_or_ne μ 0 with rfl | hμ0
        · rw [Real.rpow_zero, zero_sub, Real.rpow_neg_one, mul_inv_cancel₀ hξ.ne']
        · rw [← Real.rpow_one_add' hξ.le (by simpa using hμ0)]; congr 1; ring
      have e4 : x ^ (-(1 + μ)) = x ^ ((-1 : ℝ) - 1) * x ^ (-(μ - 1)) := by
        rw [← Real.rpow_add hx']; congr 1; ring
      have e5 : -(ξ / x) = -ξ / x := by ring
      rw [e1, e3, e4, e5]; ring
    · have hnin : ξ / x ∉ Ioi (ξ / X) := by
        simp only [mem_Ioi, not_lt]
        exact div_le_div_of_nonneg_left hξ.le hX (not_lt.1 hxX)
      rw [indicator_of_notMem hnin, indicator_of_notMem (show x ∉ Iio X from hxX)]
      simp
  rw [setIntegral_congr_fun measurableSet_Ioi e, setIntegral_indicator measurableSet_Iio]
  congr 1

/-- **mass of the continuous crosswind-integrated footprint within the upwind extent `X`** is the regularised
incomplete gamma function `Q(μ, ξ/X)` -/
theorem km_mass_within_extent (ξ μ X : ℝ) (hξ : 0 < ξ) (hX : 0 < X) :
    ∫ x in Ioo (0 : ℝ) X, ξ ^ μ * x ^ (-(1 + μ)) * Real.exp (-ξ / x) / Real.Gamma μ = gammaQ μ (ξ / X) := by
  rw [integral_div, km_crosswind_integrated_extent ξ μ X hξ hX]; rfl

/-- consistency with the half-line result: `Γ(μ, 0) = Γ(μ)`, i.e. `Q(μ, 0) = 1` -/
theorem gammaQ_zero (μ : ℝ) (hμ : 0 < μ) : gammaQ μ 0 = 1 := by
  unfold gammaQ upperGamma
  have : ∫ t in Ioi (0 : ℝ), t ^ (μ - 1) * Real.exp (-t) = Real.Gamma μ := by
    rw [Real.Gamma_eq_integral hμ]
    apply setIntegral_congr_fun measurableSet_Ioi
    intro t _; ring
  rw [this, div_self (Real.Gamma_pos_of_pos hμ).ne']

end BLDFM.C19
