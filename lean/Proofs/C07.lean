/-
  C07 — the per-mode transfer function respects the PDE's symmetries:
  x-mirror, y-mirror, axis swap, length similarity, velocity similarity.
  (Lifting to fields off the Nyquist components is by the spectral
  representation; the Nyquist exception is why the statement is per mode.)
-/
import Proofs.Lemmas.Spec
import Proofs.Lemmas.Tactics
import Proofs.Lemmas.Csqrt

open BLDFM BLDFM.Spec

namespace BLDFM.C07

def mirrorX (P : Profiles ℝ) : Profiles ℝ := { P with u := fun i => -P.u i }
def mirrorY (P : Profiles ℝ) : Profiles ℝ := { P with v := fun i => -P.v i }
def swapXY (P : Profiles ℝ) : Profiles ℝ := { u := P.v, v := P.u, Kx := P.Ky, Ky := P.Kx, Kz := P.Kz }
/-- all diffusivities multiplied by `s` -/
def scaleK (s : ℝ) (P : Profiles ℝ) : Profiles ℝ :=
  { P with Kx := fun i => s * P.Kx i, Ky := fun i => s * P.Ky i, Kz := fun i => s * P.Kz i }
/-- winds and diffusivities multiplied by `s` -/
def scaleUK (s : ℝ) (P : Profiles ℝ) : Profiles ℝ :=
  { u := fun i => s * P.u i, v := fun i => s * P.v i,
    Kx := fun i => s * P.Kx i, Ky := fun i => s * P.Ky i, Kz := fun i => s * P.Kz i }

theorem Tcoef_mirrorX (P : Profiles ℝ) (Lx Ly : ℝ) (i : ℕ) :
    Tcoef RC (mirrorX P) (-Lx) Ly i = Tcoef RC P Lx Ly i := by
  simp only [Tcoef, mirrorX, RC]; push_cast; ring

theorem Tcoef_mirrorY (P : Profiles ℝ) (Lx Ly : ℝ) (i : ℕ) :
    Tcoef RC (mirrorY P) Lx (-Ly) i = Tcoef RC P Lx Ly i := by
  simp only [Tcoef, mirrorY, RC]; push_cast; ring

theorem Tcoef_swap (P : Profiles ℝ) (Lx Ly : ℝ) (i : ℕ) :
    Tcoef RC (swapXY P) Ly Lx i = Tcoef RC P Lx Ly i := by
  simp only [Tcoef, swapXY, RC]; push_cast; ring

theorem eigval_mirrorX (P : Profiles ℝ) (top : ℕ) (Lx Ly : ℝ) :
    eigval RC (mirrorX P) top (-Lx) Ly = eigval RC P top Lx Ly := by
  simp only [eigval, mirrorX, RC]; congr 1; bridge_ring

theorem eigval_mirrorY (P : Profiles ℝ) (top : ℕ) (Lx Ly : ℝ) :
    eigval RC (mirrorY P) top Lx (-Ly) = eigval RC P top Lx Ly := by
  simp only [eigval, mirrorY, RC]; congr 1; bridge_ring

theorem eigval_swap (P : Profiles ℝ) (top : ℕ) (Lx Ly : ℝ) :
    eigval RC (swapXY P) top Ly Lx = eigval RC P top Lx Ly := by
  simp only [eigval, swapXY, RC]; congr 1; bridge_ring

/-- a sweep only sees the profiles through `T_i`, `1/Kz_i` and `dz_i` -/
theorem ivp_congr (P P' : Profiles ℝ) (z z' : ℕ → ℝ) (Lx Ly Lx' Ly' : ℝ) (pq0 : ℂ × ℂ)
    (hT : ∀ i, Tcoef RC P' Lx' Ly' i = Tcoef RC P Lx Ly i)
    (hK : ∀ i, RC.ofReal (1.0 / P'.Kz i) = RC.ofReal (1.0 / P.Kz i))
    (hz : ∀ i, RC.ofReal (z' (i + 1) - z' i) = RC.ofReal (z (i + 1) - z i)) (l : ℕ) :
    ivpState RC P' z' Lx' Ly' pq0 l = ivpState RC P z Lx Ly pq0 l := by
  induction l with
  | zero => rfl
  | succ l ih => simp only [ivpState, ih, hT, hK, hz]

/-- x-mirror: source mirrored (`Lx ↦ -Lx`), `u ↦ -u` leaves every column unchanged -/
theorem column_mirrorX (P : Profiles ℝ) (z : ℕ → ℝ) (top : ℕ) (Lx Ly : ℝ) (qh : ℂ) (l : ℕ) :
    columnNum RC (mirrorX P) z top (-Lx) Ly qh l = columnNum RC P z top Lx Ly qh l := by
  have h := fun pq0 m => ivp_congr P (mirrorX P) z z Lx Ly (-Lx) Ly pq0 (Tcoef_mirrorX P Lx Ly)
    (fun _ => rfl) (fun _ => rfl) m
  simp only [columnNum, h, eigval_mirrorX]
  rfl

theorem column_mirrorY (P : Profiles ℝ) (z : ℕ → ℝ) (top : ℕ) (Lx Ly : ℝ) (qh : ℂ) (l : ℕ) :
    columnNum RC (mirrorY P) z top Lx (-Ly) qh l = columnNum RC P z top Lx Ly qh l := by
  have h := fun pq0 m => ivp_congr P (mirrorY P) z z Lx Ly Lx (-Ly) pq0 (Tcoef_mirrorY P Lx Ly)
    (fun _ => rfl) (fun _ => rfl) m
  simp only [columnNum, h, eigval_mirrorY]
  rfl

/-- axis swap: wind components, horizontal diffusivities and wavenumbers exchanged -/
theorem column_swap (P : Profiles ℝ) (z : ℕ → ℝ) (top : ℕ) (Lx Ly : ℝ) (qh : ℂ) (l : ℕ) :
    columnNum RC (swapXY P) z top Ly Lx qh l = columnNum RC P z top Lx Ly qh l := by
  have h := fun pq0 m => ivp_congr P (swapXY P) z z Lx Ly Ly Lx pq0 (Tcoef_swap P Lx Ly)
    (fun _ => rfl) (fun _ => rfl) m
  simp only [columnNum, h, eigval_swap]
  rfl

/-- the analytic branch has the same three symmetries -/
theorem columnAna_symm (P : Profiles ℝ) (z : ℕ → ℝ) (top : ℕ) (Lx Ly : ℝ) (qh : ℂ) (l : ℕ) :
    columnAna RC (mirrorX P) z top (-Lx) Ly qh l = columnAna RC P z top Lx Ly qh l ∧
    columnAna RC (mirrorY P) z top Lx (-Ly) qh l = columnAna RC P z top Lx Ly qh l ∧
    columnAna RC (swapXY P) z top Ly Lx qh l = columnAna RC P z top Lx Ly qh l := by
  simp only [columnAna, eigval_mirrorX, eigval_mirrorY, eigval_swap]
  exact ⟨rfl, rfl, rfl⟩

/-- length similarity: all lengths (`z`, and `1/L`) and all diffusivities times `s > 0`:
every layer map is unchanged … -/
theorem layer_length_similarity (T k dz s : ℂ) (hs : s ≠ 0) (pq : ℂ × ℂ) :
    layerStep (T / s) (k / s) (s * dz) pq = layerStep T k dz pq := by
  simp only [layerStep, coefA, coefB, coefC, coefD]
  refine Prod.ext ?_ ?_ <;> (norm_num; field_simp)

theorem Tcoef_length (P : Profiles ℝ) (Lx Ly s : ℝ) (hs : s ≠ 0) (i : ℕ) :
    Tcoef RC (scaleK s P) (Lx / s) (Ly / s) i = Tcoef RC P Lx Ly i / (s : ℂ) := by
  have : (s : ℂ) ≠ 0 := by exact_mod_cast hs
  simp only [Tcoef, scaleK, RC]; push_cast; field_simp

/-- … hence so is the whole sweep … -/
theorem ivp_length_similarity (P : Profiles ℝ) (z : ℕ → ℝ) (Lx Ly s : ℝ) (hs : s ≠ 0)
    (pq0 : ℂ × ℂ) (l : ℕ) :
    ivpState RC (scaleK s P) (fun i => s * z i) (Lx / s) (Ly / s) pq0 l = ivpState RC P z Lx Ly pq0 l := by
  have hsc : (s : ℂ) ≠ 0 := by exact_mod_cast hs
  induction l with
  | zero => rfl
  | succ l ih =>
    simp only [ivpState, ih, Tcoef_length P Lx Ly s hs]
    have hk : RC.ofReal (1.0 / (scaleK s P).Kz l) = RC.ofReal (1.0 / P.Kz l) / (s : ℂ) := by
      simp only [scaleK, RC]; push_cast; norm_num; field_simp
    have hz : RC.ofReal (s * z (l + 1) - s * z l) = (s : ℂ) * RC.ofReal (z (l + 1) - z l) := by
      simp only [RC]; push_cast; ring
    rw [hk, hz]
    exact layer_length_similarity _ _ _ _ hsc _

/-- … `Kz·λ` is unchanged (`λ ↦ λ/s`) … -/
theorem eigval_length (P : Profiles ℝ) (top : ℕ) (Lx Ly s : ℝ) (hs : 0 < s) (hKz : P.Kz top ≠ 0) :
    eigval RC (scaleK s P) top (Lx / s) (Ly / s) = eigval RC P top Lx Ly / (s : ℂ) := by
  have hsc : (s : ℂ) ≠ 0 := by exact_mod_cast hs.ne'
  have hK : (P.Kz top : ℂ) ≠ 0 := by exact_mod_cast hKz
  simp only [eigval]
  rw [← csqrt_div_sq _ s hs]
  congr 1
  simp only [scaleK, RC]
  push_cast
  norm_num
  field_simp

/-- … and therefore flux and concentration of every mode are unchanged -/
theorem column_length_similarity (P : Profiles ℝ) (z : ℕ → ℝ) (top : ℕ) (Lx Ly s : ℝ) (hs : 0 < s)
    (hKz : P.Kz top ≠ 0) (qh : ℂ) (l : ℕ) :
    columnNum RC (scaleK s P) (fun i => s * z i) top (Lx / s) (Ly / s) qh l
      = columnNum RC P z top Lx Ly qh l := by
  have hsc : (s : ℂ) ≠ 0 := by exact_mod_cast hs.ne'
  simp only [columnNum, ivp_length_similarity P z Lx Ly s hs.ne', eigval_length P top Lx Ly s hs hKz,
    alphaShoot]
  have hkz : RC.ofReal ((scaleK s P).Kz top) = (s : ℂ) * RC.ofReal (P.Kz top) := by
    simp only [scaleK, RC]; push_cast; ring
  rw [hkz]
  have : (s : ℂ) * RC.ofReal (P.Kz top) * (eigval RC P top Lx Ly / (s : ℂ))
      = RC.ofReal (P.Kz top) * eigval RC P top Lx Ly := by field_simp
  rw [this]

/-- velocity similarity, one layer: with `(u, v, K) ↦ s (u, v, K)` the state `(p, q)`
maps to `(p / s, q)` -/
theorem layer_velocity_similarity (T k dz s : ℂ) (hs : s ≠ 0) (p q : ℂ) :
    layerStep (s * T) (k / s) dz (p / s, q) =
      ((layerStep T k dz (p, q)).1 / s, (layerStep T k dz (p, q)).2) := by
  simp only [layerStep, coefA, coefB, coefC, coefD]
  refine Prod.ext ?_ ?_ <;> (norm_num; field_simp)

theorem Tcoef_velocity (P : Profiles ℝ) (Lx Ly s : ℝ) (i : ℕ) :
    Tcoef RC (scaleUK s P) Lx Ly i = (s : ℂ) * Tcoef RC P Lx Ly i := by
  simp only [Tcoef, scaleUK, RC]; push_cast; ring

theorem ivp_velocity_similarity (P : Profiles ℝ) (z : ℕ → ℝ) (Lx Ly s : ℝ) (hs : s ≠ 0)
    (p q : ℂ) (l : ℕ) :
    ivpState RC (scaleUK s P) z Lx Ly (p / (s : ℂ), q) l =
      ((ivpState RC P z Lx Ly (p, q) l).1 / (s : ℂ), (ivpState RC P z Lx Ly (p, q) l).2) := by
  have hsc : (s : ℂ) ≠ 0 := by exact_mod_cast hs
  induction l with
  | zero => rfl
  | succ l ih =>
    simp only [ivpState, ih, Tcoef_velocity]
    have hk : RC.ofReal (1.0 / (scaleUK s P).Kz l) = RC.ofReal (1.0 / P.Kz l) / (s : ℂ) := by
      simp only [scaleUK, RC]; push_cast; norm_num; field_simp
    rw [hk]
    exact layer_velocity_similarity _ _ _ _ hsc _ _

theorem eigval_velocity (P : Profiles ℝ) (top : ℕ) (Lx Ly s : ℝ) (hs : s ≠ 0) :
    eigval RC (scaleUK s P) top Lx Ly = eigval RC P top Lx Ly := by
  have hsc : (s : ℂ) ≠ 0 := by exact_mod_cast hs
  simp only [eigval]
  congr 1
  simp only [scaleUK, RC]
  push_cast
  norm_num
  field_simp

/-- velocity similarity: multiplying winds and diffusivities by `s` leaves the flux of
every mode unchanged and divides its concentration by `s` -/
theorem column_velocity_similarity (P : Profiles ℝ) (z : ℕ → ℝ) (top : ℕ) (Lx Ly s : ℝ) (hs : s ≠ 0)
    (qh : ℂ) (l : ℕ)
    (hden : (ivpState RC P z Lx Ly ((1.0 : ℂ), (0.0 : ℂ)) top).2
      - RC.ofReal (P.Kz top) * eigval RC P top Lx Ly * (ivpState RC P z Lx Ly ((1.0 : ℂ), (0.0 : ℂ)) top).1 ≠ 0) :
    columnNum RC (scaleUK s P) z top Lx Ly qh l =
      ((columnNum RC P z top Lx Ly qh l).1 / (s : ℂ), (columnNum RC P z top Lx Ly qh l).2) := by
  have hsc : (s : ℂ) ≠ 0 := by exact_mod_cast hs
  -- (1, 0) = (s / s, 0) and (0, q̂) = (0 / s, q̂)
  have h1 : ∀ m, ivpState RC (scaleUK s P) z Lx Ly ((1.0 : ℂ), (0.0 : ℂ)) m =
      ((ivpState RC P z Lx Ly ((1.0 : ℂ), (0.0 : ℂ)) m).1, (s : ℂ) * (ivpState RC P z Lx Ly ((1.0 : ℂ), (0.0 : ℂ)) m).2) := by
    intro m
    have e := ivp_velocity_similarity P z Lx Ly s hs (s : ℂ) 0 m
    have hlin := C04lin P z Lx Ly (s : ℂ) m
    rw [div_self hsc] at e
    have e0 : ((1 : ℂ), (0 : ℂ)) = ((1.0 : ℂ), (0.0 : ℂ)) := by norm_num
    rw [e0] at e
    rw [e, hlin]
    refine Prod.ext ?_ ?_ <;> (simp only []; try field_simp)
  have h2 : ∀ m, ivpState RC (scaleUK s P) z Lx Ly ((0.0 : ℂ), qh) m =
      ((ivpState RC P z Lx Ly ((0.0 : ℂ), qh) m).1 / (s : ℂ), (ivpState RC P z Lx Ly ((0.0 : ℂ), qh) m).2) := by
    intro m
    have e := ivp_velocity_similarity P z Lx Ly s hs 0 qh m
    have e0 : ((0 : ℂ) / (s : ℂ), qh) = ((0.0 : ℂ), qh) := by norm_num
    have e1 : ((0 : ℂ), qh) = ((0.0 : ℂ), qh) := by norm_num
    rw [e0, e1] at e
    exact e
  simp only [columnNum, alphaShoot, h1, h2, eigval_velocity P top Lx Ly s hs]
  have hkz : RC.ofReal ((scaleUK s P).Kz top) = (s : ℂ) * RC.ofReal (P.Kz top) := by
    simp only [scaleUK, RC]; push_cast; ring
  rw [hkz]
  refine Prod.ext ?_ ?_ <;> (simp only []; field_simp; try ring)
where
  /-- the sweep from `(s, 0)` is `s` times the sweep from `(1, 0)` -/
  C04lin (P : Profiles ℝ) (z : ℕ → ℝ) (Lx Ly : ℝ) (s : ℂ) (m : ℕ) :
      ivpState RC P z Lx Ly (s, (0 : ℂ)) m =
        (s * (ivpState RC P z Lx Ly ((1.0 : ℂ), (0.0 : ℂ)) m).1, s * (ivpState RC P z Lx Ly ((1.0 : ℂ), (0.0 : ℂ)) m).2) := by
    induction m with
    | zero => simp only [ivpState]; norm_num
    | succ m ih =>
      simp only [ivpState, ih, layerStep]
      refine Prod.ext ?_ ?_ <;> (simp only []; ring)

/-! non-vacuity: the profile transformations are non-trivial on a sheared anisotropic profile -/
example : mirrorX ⟨fun i => 1 + i, fun _ => 2, fun _ => 1, fun _ => 3, fun _ => 2⟩ ≠
    (⟨fun i => 1 + i, fun _ => 2, fun _ => 1, fun _ => 3, fun _ => 2⟩ : Profiles ℝ) := by
  intro h
  have := congrArg (fun P => P.u 0) h
  simp [mirrorX] at this
  linarith

end BLDFM.C07
