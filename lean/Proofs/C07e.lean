/-
  C07 (whole model pipeline) — MIRRORING IN x: source mirrored (`q'[j, i] = q[j, nx-1-i]`), `u ↦ -u`.
  Component form (every retained component that has a partner of opposite x-frequency, i.e. every component apart
  from the Nyquist one): the coefficient of the mirrored run at slot `(a, b)` is the coefficient of the original run
  at the partner slot `(a, b̄)` times the flip phase `ω_x^{f(b)}`.  Field form (`mirrorX_field`): when every slot
  has a partner (odd retained-mode count, i.e. a clamped odd padded grid) both padded-domain fields are mirrored,
  `field'[J, I] = field[J, Nx-1-I]`.  Dispersion mode, un-centred output.
-/
import Proofs.Lemmas.Spec
import Proofs.Lemmas.Tactics
import Proofs.Lemmas.Repr
import Proofs.C02b
import Proofs.C03b
import Proofs.C04
import Proofs.C07
import Proofs.C11b
import Proofs.Lemmas.Witness

open BLDFM BLDFM.Spec BLDFM.Index

namespace BLDFM.C07

/-- `r'` is the x-mirror image of `r` -/
def MirroredX (r r' : SolveReq ℝ) : Prop :=
  r' = { r with q := fun j i => r.q j (r.nx - 1 - i), P := mirrorX r.P }

/-- the partner slot of opposite signed frequency (every slot but the Nyquist one has one) -/
theorem sfreq_partner (nl b : ℕ) (hb : b < nl) (hny : 2 * b ≠ nl) :
    (nl - b) % nl < nl ∧ sfreq nl ((nl - b) % nl) = -sfreq nl b := by
  refine ⟨Nat.mod_lt _ (by omega), ?_⟩
  unfold sfreq
  rcases Nat.eq_zero_or_pos b with rfl | hpos
  · simp only [Nat.sub_zero, Nat.mod_self]
    rw [if_pos (by omega)]
    simp
  · rw [Nat.mod_eq_of_lt (by omega)]
    by_cases h1 : b < (nl + 1) / 2
    · rw [if_pos h1, if_neg (by omega)]
      omega
    · rw [if_neg h1, if_pos (by omega)]
      omega

theorem sum_reflect (N : ℕ) (F : ℕ → ℂ) : ∑ I ∈ Finset.range N, F (N - 1 - I) = ∑ I ∈ Finset.range N, F I :=
  Finset.sum_range_reflect F N

section
variable {r r' : SolveReq ℝ} (h : MirroredX r r')
include h

theorem mx_geom : geom RC r' = geom RC r := by
  have e' : r' = _ := h
  rw [e']; rfl

/-- the padded source of the mirrored request is the mirrored padded source -/
theorem mx_padSrc (J I : ℕ) (hI : I < (geom RC r).nxe) :
    padSrc RC r' (geom RC r) J I = padSrc RC r (geom RC r) J ((geom RC r).nxe - 1 - I) := by
  have e' : r' = _ := h
  have fny : r'.ny = r.ny := by rw [e']
  have fnx : r'.nx = r.nx := by rw [e']
  have fq : r'.q = fun j i => r.q j (r.nx - 1 - i) := by rw [e']
  have hN := C11.geom_nxe r
  unfold padSrc
  rw [fny, fnx, fq]
  by_cases hw : (geom RC r).py ≤ J ∧ J < (geom RC r).py + r.ny ∧ (geom RC r).px ≤ I ∧ I < (geom RC r).px + r.nx
  · rw [if_pos hw, if_pos ⟨hw.1, hw.2.1, by omega, by omega⟩]
    show RC.ofReal (r.q (J - (geom RC r).py) (r.nx - 1 - (I - (geom RC r).px))) = _
    congr 2
    omega
  · rw [if_neg hw, if_neg (fun hh => hw ⟨hh.1, hh.2.1, by omega, by omega⟩)]

/-- source spectrum: slot `(a, b)` of the mirrored request is the partner slot of the original times `ω_x^{f(b)}` -/
theorem mx_srcSpectrum (hg : GeomOK (geom RC r)) (hfp : r.footprint = false) (a b bb : ℕ)
    (ha : a < (geom RC r).nly) (hb : b < (geom RC r).nlx) (hbb : bb < (geom RC r).nlx)
    (hf : sfreq (geom RC r).nlx bb = -sfreq (geom RC r).nlx b) :
    (srcSpectrum RC r' (geom RC r)).get a b =
      rootPow (geom RC r).nxe (sfreq (geom RC r).nlx b) * (srcSpectrum RC r (geom RC r)).get a bb := by
  have e' : r' = _ := h
  have g' := mx_geom h
  have fp' : r'.footprint = false := by rw [e']; exact hfp
  have hg' : GeomOK (geom RC r') := by rw [g']; exact hg
  have f1 := C02.srcSpectrum_formula r' hg' fp' a b (by rw [g']; exact ha) (by rw [g']; exact hb)
  rw [g'] at f1
  rw [f1, C02.srcSpectrum_formula r hg hfp a bb ha hbb]
  generalize hgd : geom RC r = g at *
  have hNx := hg.Nx_pos
  rw [← mul_div_assoc]
  congr 1
  rw [Finset.mul_sum]
  apply Finset.sum_congr rfl; intro J _
  rw [← mul_assoc]
  congr 1
  -- one row
  have row : ∑ I ∈ Finset.range g.nxe, padSrc RC r' g J I * rootPow g.nxe (-(sfreq g.nlx b * I))
      = ∑ I ∈ Finset.range g.nxe, (fun I' => padSrc RC r g J I' * rootPow g.nxe (-(sfreq g.nlx b * ((g.nxe - 1 - I' : ℕ) : ℤ)))) (g.nxe - 1 - I) := by
    apply Finset.sum_congr rfl; intro I hI
    have hI' := Finset.mem_range.mp hI
    have := mx_padSrc h J I (by rw [hgd]; exact hI')
    rw [hgd] at this
    rw [this]
    show _ = padSrc RC r g J (g.nxe - 1 - I) * rootPow g.nxe (-(sfreq g.nlx b * ((g.nxe - 1 - (g.nxe - 1 - I) : ℕ) : ℤ)))
    have : g.nxe - 1 - (g.nxe - 1 - I) = I := by omega
    rw [this]
  rw [row, sum_reflect g.nxe (fun I' => padSrc RC r g J I' * rootPow g.nxe (-(sfreq g.nlx b * ((g.nxe - 1 - I' : ℕ) : ℤ)))),
    Finset.mul_sum]
  apply Finset.sum_congr rfl; intro I hI
  have hI' := Finset.mem_range.mp hI
  have hc : ((g.nxe - 1 - I : ℕ) : ℤ) = (g.nxe : ℤ) - 1 - I := by omega
  show padSrc RC r g J I * rootPow g.nxe (-(sfreq g.nlx b * ((g.nxe - 1 - I : ℕ) : ℤ))) = _
  rw [hc, hf, mul_comm (rootPow g.nxe (sfreq g.nlx b)), mul_assoc, ← rootPow_add]
  congr 1
  have : -(sfreq g.nlx b * ((g.nxe : ℤ) - 1 - I)) = (- -sfreq g.nlx b * I + sfreq g.nlx b) + g.nxe * (-sfreq g.nlx b) := by ring
  rw [this, rootPow_add_mul _ hNx]
  congr 1
  ring

theorem mx_waveX (b bb : ℕ) (hb : b < (geom RC r).nlx) (hbb : bb < (geom RC r).nlx)
    (hf : sfreq (geom RC r).nlx bb = -sfreq (geom RC r).nlx b) :
    waveX RC (geom RC r) b = -waveX RC (geom RC r) bb := by
  unfold waveX
  rw [freqR_eq _ _ hb, freqR_eq _ _ hbb, hf]
  simp only [Int.cast_neg, mul_neg, neg_neg]

/-- MIRROR IN x, component form: the coefficient pair of the mirrored run at `(a, b)` is the coefficient pair of the
original run at the partner slot `(a, b̄)` times the flip phase `ω_x^{f(b)}` -/
theorem mirrorX_component (hg : GeomOK (geom RC r)) (hp : r.precision = .double) (hden : C02.DenOK r)
    (hfp : r.footprint = false) (l a b bb : ℕ)
    (ha : a < (geom RC r).nly) (hb : b < (geom RC r).nlx) (hbb : bb < (geom RC r).nlx)
    (hf : sfreq (geom RC r).nlx bb = -sfreq (geom RC r).nlx b) :
    modeCoef RC r' (geom RC r) (srcSpectrum RC r' (geom RC r)).get l a b =
      (rootPow (geom RC r).nxe (sfreq (geom RC r).nlx b) * (modeCoef RC r (geom RC r) (srcSpectrum RC r (geom RC r)).get l a bb).1,
       rootPow (geom RC r).nxe (sfreq (geom RC r).nlx b) * (modeCoef RC r (geom RC r) (srcSpectrum RC r (geom RC r)).get l a bb).2) := by
  have e' : r' = _ := h
  have hS := mx_srcSpectrum h hg hfp a b bb ha hb hbb hf
  have hw := mx_waveX h b bb hb hbb hf
  have fan : r'.analytic = r.analytic := by rw [e']
  have fP : r'.P = mirrorX r.P := by rw [e']
  have fz : r'.z = r.z := by rw [e']
  have fnz : r'.nz = r.nz := by rw [e']
  have fbg : r'.bg = r.bg := by rw [e']
  have fpr : r'.precision = .double := by rw [e']; exact hp
  have hb0 : b = 0 ↔ bb = 0 := by
    rw [← C11.sfreq_eq_zero_iff _ b hb, ← C11.sfreq_eq_zero_iff _ bb hbb, hf, neg_eq_zero]
  unfold modeCoef
  simp only [storeP, fpr, hp, fan, fP, fz, fnz, fbg]
  by_cases hab : a = 0 ∧ b = 0
  · have hab' : a = 0 ∧ bb = 0 := ⟨hab.1, hb0.mp hab.2⟩
    rw [if_pos hab, if_pos hab']
    obtain ⟨rfl, rfl⟩ := hab
    have hbb0 : bb = 0 := hab'.2
    subst hbb0
    rw [hS]
    have hz : sfreq (geom RC r).nlx 0 = 0 := by
      unfold sfreq; rw [if_pos (by omega)]; rfl
    rw [hz, rootPow_zero]
    simp only [one_mul]
    rfl
  · have hab' : ¬(a = 0 ∧ bb = 0) := fun hh => hab ⟨hh.1, hb0.mpr hh.2⟩
    rw [if_neg hab, if_neg hab', hS, hw]
    cases han : r.analytic
    · simp only [Bool.false_eq_true, if_false]
      rw [column_mirrorX]
      have hlin := C04.columnNum_linear r.P r.z (r.nz - 1) (waveX RC (geom RC r) bb) (waveY RC (geom RC r) a)
        (rootPow (geom RC r).nxe (sfreq (geom RC r).nlx b)) 0 ((srcSpectrum RC r (geom RC r)).get a bb) 0 l (hden han a bb)
      simp only [zero_mul, add_zero] at hlin
      rw [hlin]
    · simp only [if_true]
      rw [(columnAna_symm r.P r.z (r.nz - 1) _ _ _ l).1]
      have hlin := C04.columnAna_linear r.P r.z (r.nz - 1) (waveX RC (geom RC r) bb) (waveY RC (geom RC r) a)
        (rootPow (geom RC r).nxe (sfreq (geom RC r).nlx b)) 0 ((srcSpectrum RC r (geom RC r)).get a bb) 0 l
      simp only [zero_mul, add_zero] at hlin
      rw [hlin]

/-- MIRROR IN x, field form: when every retained x-slot has a partner (odd retained-mode count) both padded-domain
fields of the mirrored request are the mirrored fields.  Dispersion mode with the measurement point at the origin. -/
theorem mirrorX_field (hg : GeomOK (geom RC r)) (hp : r.precision = .double) (hden : C02.DenOK r)
    (hfp : r.footprint = false) (hxm : r.xm = 0) (hym : r.ym = 0) (hodd : (geom RC r).nlx % 2 = 1)
    (l J I : ℕ) (hI : I < (geom RC r).nxe) :
    (fieldsAt RC r' (geom RC r') (srcSpectrum RC r' (geom RC r')).get l).1.get J I
      = (fieldsAt RC r (geom RC r) (srcSpectrum RC r (geom RC r)).get l).1.get J ((geom RC r).nxe - 1 - I) ∧
    (fieldsAt RC r' (geom RC r') (srcSpectrum RC r' (geom RC r')).get l).2.get J I
      = (fieldsAt RC r (geom RC r) (srcSpectrum RC r (geom RC r)).get l).2.get J ((geom RC r).nxe - 1 - I) := by
  have e' : r' = _ := h
  have g' := mx_geom h
  rw [g']
  have fp' : r'.footprint = false := by rw [e']; exact hfp
  have hNx := hg.Nx_pos
  have hs := C03.signPair_of false
  simp only [Bool.false_eq_true, if_false] at hs
  have sh1 : ∀ a b, shiftFactor RC r (geom RC r) a b = 1 := by
    intro a b; simp only [shiftFactor, hfp, hxm, hym]; norm_num
  have sh1' : ∀ a b, shiftFactor RC r' (geom RC r) a b = 1 := by
    intro a b
    have fxm : r'.xm = 0 := by rw [e']; exact hxm
    have fym : r'.ym = 0 := by rw [e']; exact hym
    simp only [shiftFactor, fp', fxm, fym]; norm_num
  have e1 := C03.fieldsAt_eq r' (geom RC r) (srcSpectrum RC r' (geom RC r)).get l
  have e0 := C03.fieldsAt_eq r (geom RC r) (srcSpectrum RC r (geom RC r)).get l
  rw [fp'] at e1
  rw [hfp] at e0
  simp only [Bool.false_eq_true, if_false] at e1 e0
  -- the partner involution on the x-slots
  set g := geom RC r with hgd
  let bar : ℕ → ℕ := fun b => (g.nlx - b) % g.nlx
  have hbar : ∀ b, b < g.nlx → bar b < g.nlx ∧ sfreq g.nlx (bar b) = -sfreq g.nlx b := by
    intro b hb
    have hodd' : g.nlx % 2 = 1 := hodd
    exact sfreq_partner g.nlx b hb (by omega)
  have hinv : ∀ b, b < g.nlx → bar (bar b) = b := by
    intro b hb
    show (g.nlx - (g.nlx - b) % g.nlx) % g.nlx = b
    rcases Nat.eq_zero_or_pos b with rfl | hpos
    · simp
    · rw [Nat.mod_eq_of_lt (show g.nlx - b < g.nlx by omega), Nat.mod_eq_of_lt (show g.nlx - (g.nlx - b) < g.nlx by omega)]; omega
  have phase : ∀ b, b < g.nlx →
      rootPow g.nxe (sfreq g.nlx b) * rootPow g.nxe (1 * sfreq g.nlx b * I)
        = rootPow g.nxe (1 * sfreq g.nlx (bar b) * ((g.nxe - 1 - I : ℕ) : ℤ)) := by
    intro b hb
    rw [← rootPow_add, (hbar b hb).2]
    have hc : ((g.nxe - 1 - I : ℕ) : ℤ) = (g.nxe : ℤ) - 1 - I := by omega
    rw [hc]
    have : 1 * -sfreq g.nlx b * ((g.nxe : ℤ) - 1 - I) = (sfreq g.nlx b + 1 * sfreq g.nlx b * I) + g.nxe * (-sfreq g.nlx b) := by ring
    rw [this, rootPow_add_mul _ hNx]
  have reidx : ∀ (G : ℕ → ℂ), ∑ b ∈ Finset.range g.nlx, G (bar b) = ∑ b ∈ Finset.range g.nlx, G b := by
    intro G
    apply Finset.sum_nbij' bar bar
    · intro b hb; exact Finset.mem_range.mpr (hbar b (Finset.mem_range.mp hb)).1
    · intro b hb; exact Finset.mem_range.mpr (hbar b (Finset.mem_range.mp hb)).1
    · intro b hb; exact hinv b (Finset.mem_range.mp hb)
    · intro b hb; exact hinv b (Finset.mem_range.mp hb)
    · intro b _; rfl
  refine ⟨?_, ?_⟩
  · rw [e1.1, e0.1, solver_repr 1 1.0 hs g hg, solver_repr 1 1.0 hs g hg]
    apply Finset.sum_congr rfl; intro a ha
    rw [← reidx (fun b => (modeCoef RC r g (srcSpectrum RC r g).get l a b).1 * shiftFactor RC r g a b *
        rootPow g.nxe (1 * sfreq g.nlx b * ((g.nxe - 1 - I : ℕ) : ℤ)) * rootPow g.nye (1 * sfreq g.nly a * J))]
    apply Finset.sum_congr rfl; intro b hb
    have hb' := Finset.mem_range.mp hb
    rw [mirrorX_component h hg hp hden hfp l a b (bar b) (Finset.mem_range.mp ha) hb' (hbar b hb').1 (hbar b hb').2,
      sh1, sh1', ← phase b hb']
    ring
  · rw [e1.2, e0.2, solver_repr 1 1.0 hs g hg, solver_repr 1 1.0 hs g hg]
    apply Finset.sum_congr rfl; intro a ha
    rw [← reidx (fun b => (modeCoef RC r g (srcSpectrum RC r g).get l a b).2 * shiftFactor RC r g a b *
        rootPow g.nxe (1 * sfreq g.nlx b * ((g.nxe - 1 - I : ℕ) : ℤ)) * rootPow g.nye (1 * sfreq g.nly a * J))]
    apply Finset.sum_congr rfl; intro b hb
    have hb' := Finset.mem_range.mp hb
    rw [mirrorX_component h hg hp hden hfp l a b (bar b) (Finset.mem_range.mp ha) hb' (hbar b hb').1 (hbar b hb').2,
      sh1, sh1', ← phase b hb']
    ring

end

/-! ### non-vacuity: a clamped odd grid (5 columns, 6 modes requested → 5 retained), tower at the origin -/
example : ∃ r r' : SolveReq ℝ, MirroredX r r' ∧ GeomOK (geom RC r) ∧ r.precision = .double ∧ C02.DenOK r ∧
    r.footprint = false ∧ r.xm = 0 ∧ r.ym = 0 ∧ (geom RC r).nlx % 2 = 1 := by
  refine ⟨{ Witness.wreq false with nlx := 6, xm := 0, ym := 0 }, _, rfl, ?_, rfl, ?_, rfl, rfl, rfl, ?_⟩
  · exact C03.geomOK_of_request _ (by simp [Witness.wreq]) (by simp [Witness.wreq]) (by simp [Witness.wreq])
      (by simp [Witness.wreq]) (by simp [Witness.wreq]) (by simp [Witness.wreq])
  · intro hh; exact absurd hh (by simp [Witness.wreq])
  · simp [geom, clampModes, Witness.wreq, RC]

end BLDFM.C07
