/-
  C07 (field level, whole model pipeline) — VELOCITY SIMILARITY: multiplying winds and all diffusivities by a common
  factor `s ≠ 0` (and the background concentration by `1/s`) leaves the flux field unchanged and divides the
  concentration field by `s`, at every level and cell, in both modes, numeric and analytic.
-/
import Proofs.Lemmas.Spec
import Proofs.Lemmas.Tactics
import Proofs.Lemmas.Repr
import Proofs.C02b
import Proofs.C03b
import Proofs.C07
import Proofs.Lemmas.Witness

open BLDFM BLDFM.Spec BLDFM.Index

namespace BLDFM.C07

/-- `r'` is `r` with winds and diffusivities times `s`, background divided by `s` -/
def VelScaled (s : ℝ) (r r' : SolveReq ℝ) : Prop :=
  r' = { r with P := scaleUK s r.P, bg := r.bg / s }

theorem resistNum_velocity (P : Profiles ℝ) (z : ℕ → ℝ) (s : ℝ) (hs : s ≠ 0) (l : ℕ) :
    resistNum (scaleUK s P) z l = resistNum P z l / s := by
  unfold resistNum
  have z0 : (0.0 : ℝ) = 0 := by norm_num
  rw [z0, sumN_eq_sum, sumN_eq_sum, Finset.sum_div]
  apply Finset.sum_congr rfl; intro i _
  simp only [scaleUK]
  field_simp

theorem columnAna_velocity (P : Profiles ℝ) (z : ℕ → ℝ) (top : ℕ) (Lx Ly s : ℝ) (hs : s ≠ 0) (qh : ℂ) (l : ℕ) :
    columnAna RC (scaleUK s P) z top Lx Ly qh l =
      ((columnAna RC P z top Lx Ly qh l).1 / (s : ℂ), (columnAna RC P z top Lx Ly qh l).2) := by
  have hsc : (s : ℂ) ≠ 0 := by exact_mod_cast hs
  simp only [columnAna, eigval_velocity P top Lx Ly s hs]
  have hk : RC.ofReal (1.0 / (scaleUK s P).Kz top) = RC.ofReal (1.0 / P.Kz top) / (s : ℂ) := by
    simp only [scaleUK, RC]; push_cast; norm_num; field_simp
  rw [hk]
  refine Prod.ext ?_ rfl
  simp only []
  ring

/-- the spectral coefficients: concentration divided by `s`, flux unchanged -/
theorem vel_modeCoef (s : ℝ) (hs : s ≠ 0) (r r' : SolveReq ℝ) (h : VelScaled s r r') (hp : r.precision = .double)
    (hden : C02.DenOK r) (S : ℕ → ℕ → ℂ) (l a b : ℕ) :
    modeCoef RC r' (geom RC r) S l a b =
      ((modeCoef RC r (geom RC r) S l a b).1 / (s : ℂ), (modeCoef RC r (geom RC r) S l a b).2) := by
  have hsc : (s : ℂ) ≠ 0 := by exact_mod_cast hs
  have e' : r' = { r with P := scaleUK s r.P, bg := r.bg / s } := h
  rw [e']
  unfold modeCoef
  simp only [storeP, hp]
  by_cases hab : a = 0 ∧ b = 0
  · rw [if_pos hab, if_pos hab]
    refine Prod.ext ?_ rfl
    simp only []
    cases r.analytic
    · simp only [Bool.false_eq_true, if_false, meanNum, resistNum_velocity _ _ s hs, RC_ofReal]
      push_cast
      field_simp
    · simp only [if_true, meanAna, RC_ofReal, scaleUK]
      push_cast
      norm_num
      field_simp
  · rw [if_neg hab, if_neg hab]
    cases han : r.analytic
    · simp only [Bool.false_eq_true, if_false]
      rw [column_velocity_similarity r.P r.z (r.nz - 1) _ _ s hs (S a b) l (hden han a b)]
    · simp only [if_true]
      rw [columnAna_velocity r.P r.z (r.nz - 1) _ _ s hs (S a b) l]

/-- VELOCITY SIMILARITY, whole pipeline -/
theorem velocity_similarity_field (s : ℝ) (hs : s ≠ 0) (r r' : SolveReq ℝ) (h : VelScaled s r r')
    (hg : GeomOK (geom RC r)) (hp : r.precision = .double) (hden : C02.DenOK r) (l J I : ℕ) :
    (fieldsAt RC r' (geom RC r') (srcSpectrum RC r' (geom RC r')).get l).1.get J I
      = (fieldsAt RC r (geom RC r) (srcSpectrum RC r (geom RC r)).get l).1.get J I / (s : ℂ) ∧
    (fieldsAt RC r' (geom RC r') (srcSpectrum RC r' (geom RC r')).get l).2.get J I
      = (fieldsAt RC r (geom RC r) (srcSpectrum RC r (geom RC r)).get l).2.get J I := by
  have e' : r' = { r with P := scaleUK s r.P, bg := r.bg / s } := h
  have g' : geom RC r' = geom RC r := by rw [e']; rfl
  have hS : srcSpectrum RC r' (geom RC r) = srcSpectrum RC r (geom RC r) := by rw [e']; rfl
  have hsh : ∀ a b, shiftFactor RC r' (geom RC r) a b = shiftFactor RC r (geom RC r) a b := by
    intro a b; rw [e']; rfl
  have hfp : r'.footprint = r.footprint := by rw [e']
  rw [g', hS]
  have e1 := C03.fieldsAt_eq r' (geom RC r) (srcSpectrum RC r (geom RC r)).get l
  have e0 := C03.fieldsAt_eq r (geom RC r) (srcSpectrum RC r (geom RC r)).get l
  rw [hfp] at e1
  have hs' := C03.signPair_of r.footprint
  have hc := vel_modeCoef s hs r r' h hp hden (srcSpectrum RC r (geom RC r)).get l
  refine ⟨?_, ?_⟩
  · rw [e1.1, e0.1, solver_repr _ _ hs' _ hg, solver_repr _ _ hs' _ hg, Finset.sum_div]
    apply Finset.sum_congr rfl; intro a _
    rw [Finset.sum_div]
    apply Finset.sum_congr rfl; intro b _
    rw [hc a b, hsh]
    ring
  · rw [e1.2, e0.2, solver_repr _ _ hs' _ hg, solver_repr _ _ hs' _ hg]
    apply Finset.sum_congr rfl; intro a _
    apply Finset.sum_congr rfl; intro b _
    rw [hc a b, hsh]

/-! ### non-vacuity -/
example : ∃ r r' : SolveReq ℝ, VelScaled 3 r r' ∧ GeomOK (geom RC r) ∧ r.precision = .double ∧ C02.DenOK r ∧ r'.P ≠ r.P := by
  refine ⟨Witness.wreq false, { Witness.wreq false with P := scaleUK 3 (Witness.wreq false).P, bg := (Witness.wreq false).bg / 3 },
    rfl, Witness.wreq_geomOK false, rfl, Witness.wreq_denOK false, ?_⟩
  intro hh
  have := congrArg (fun P : Profiles ℝ => P.u 0) hh
  simp [scaleUK, Witness.wreq] at this

end BLDFM.C07
