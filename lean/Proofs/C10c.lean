/-
  C10c — the closed-form (analytic) slices through ANY marching order: advancing a spectral coefficient from one requested
  height to the next by `exp(-λ Δh)` - upwards or downwards, in whatever order the levels are listed - reproduces the direct
  factor `exp(-λ h_k)` at every slot.  Over ℂ the two formulations are the same function of the request; what separates them in
  floating point is underflow of an intermediate factor (a high level visited before a low one), which is outside the exact model
  and is therefore exercised by the oracle on columns that are tall against the horizontal cell (seeded change C10t).
-/
import Mathlib.Analysis.SpecialFunctions.Exp
import Mathlib.Algebra.BigOperators.Intervals

open Finset

namespace BLDFM.C10

/-- marching: start from the surface (`h = 0`) and multiply by `exp(-λ (h k - h (k-1)))` for each listed level in turn -/
noncomputable def marched (lam : ℂ) (h : ℕ → ℝ) (K : ℕ) : ℂ :=
  ∏ k ∈ range (K + 1), Complex.exp (-lam * ((h k : ℂ) - (if k = 0 then 0 else (h (k - 1) : ℂ))))

/-- the increments telescope, whatever their signs -/
theorem increments_telescope (h : ℕ → ℝ) (K : ℕ) :
    ∑ k ∈ range (K + 1), ((h k : ℂ) - (if k = 0 then 0 else (h (k - 1) : ℂ))) = (h K : ℂ) := by
  induction K with
  | zero => simp
  | succ n ih =>
    rw [sum_range_succ, ih]
    simp

/-- **marching = direct**, for every list of heights (ascending, descending, repeated, unsorted) and every decay rate -/
theorem marched_eq_direct (lam : ℂ) (h : ℕ → ℝ) (K : ℕ) :
    marched lam h K = Complex.exp (-lam * (h K : ℂ)) := by
  unfold marched
  rw [← Complex.exp_sum, ← mul_sum, increments_telescope]

/-- hence slot `K` of a marched request depends only on the height listed at slot `K` -/
theorem marched_depends_only_on_level (lam : ℂ) (h h' : ℕ → ℝ) (K K' : ℕ) (hh : h K = h' K') :
    marched lam h K = marched lam h' K' := by
  rw [marched_eq_direct, marched_eq_direct, hh]

/-! non-vacuity: top level first, then the surface -/
example : marched 2 (fun k => if k = 0 then 5 else 0) 1 = 1 := by
  rw [marched_eq_direct]; simp

end BLDFM.C10
