/-
  C05 — uniform profiles: the analytic branch is the closed-form half-space solution,
  which solves the boundary-value problem; the numerical column is
  `q̂ · ∏ p₃(-μ dz_i)` (third-order accurate layer factor).
-/
import Proofs.Lemmas.Spec
import Proofs.Lemmas.Tactics
import Proofs.Lemmas.Csqrt
import Proofs.C01
import Mathlib.Analysis.SpecialFunctions.ExpDeriv
import Mathlib.Analysis.SpecialFunctions.Exponential

open BLDFM BLDFM.Spec

namespace BLDFM.C05

/-- height-independent profiles -/
def Uniform (P : Profiles ℝ) : Prop :=
  ∀ i, P.u i = P.u 0 ∧ P.v i = P.v 0 ∧ P.Kx i = P.Kx 0 ∧ P.Ky i = P.Ky 0 ∧ P.Kz i = P.Kz 0

/-- `p₃(x) = 1 + x + x²/2 + x³/6` -/
noncomputable def p3 (x : ℂ) : ℂ := 1 + x + x ^ 2 / 2 + x ^ 3 / 6

/-- 1. the analytic branch is, slot by slot, the closed form
`Q(h) = q̂ e^{-μ h}`, `P(h) = Q(h)/(Kz μ)`, `h = z_l - z_0`, with `μ` the principal root -/
theorem analytic_is_closed_form (P : Profiles ℝ) (z : ℕ → ℝ) (top : ℕ) (Lx Ly : ℝ) (qh : ℂ) (l : ℕ) :
    let μ := eigval RC P top Lx Ly
    columnAna RC P z top Lx Ly qh l =
      (qh * Complex.exp (-μ * ((z l - z 0 : ℝ) : ℂ)) / ((P.Kz top : ℂ) * μ),
       qh * Complex.exp (-μ * ((z l - z 0 : ℝ) : ℂ))) := by
  simp only [columnAna, RC]
  refine Prod.ext ?_ rfl
  push_cast
  norm_num
  ring

/-- mean mode of the analytic branch: linear concentration profile `bg - q̂₀₀ h / Kz` -/
theorem analytic_mean_linear (P : Profiles ℝ) (z : ℕ → ℝ) (top : ℕ) (bg q00 : ℂ) (l : ℕ) :
    meanAna RC P z top bg q00 l = bg - q00 * ((z l - z 0 : ℝ) : ℂ) / (P.Kz top : ℂ) := by
  simp only [meanAna, RC]
  push_cast
  norm_num
  ring

/-- 2. the closed form solves the column ODE `Q' = T P`, `P' = -Q/Kz`, with `Q(0) = q̂`,
and satisfies `Q = Kz μ P` at every height (hence also the top condition) -/
theorem closed_form_solves_bvp (Kz : ℝ) (T μ qh : ℂ) (hKz : (Kz : ℂ) ≠ 0) (hμ0 : μ ≠ 0)
    (hμ : μ ^ 2 = -T / (Kz : ℂ)) (h : ℝ) :
    let Q : ℝ → ℂ := fun h => qh * Complex.exp (-μ * (h : ℂ))
    let Pc : ℝ → ℂ := fun h => Q h / ((Kz : ℂ) * μ)
    HasDerivAt Q (T * Pc h) h ∧ HasDerivAt Pc (-(Q h) / (Kz : ℂ)) h ∧ Q 0 = qh ∧ Q h = (Kz : ℂ) * μ * Pc h := by
  intro Q Pc
  have hexp : HasDerivAt (fun h : ℝ => Complex.exp (-μ * (h : ℂ))) (Complex.exp (-μ * (h : ℂ)) * (-μ)) h := by
    have h1 : HasDerivAt (fun h : ℝ => -μ * (h : ℂ)) (-μ) h := by
      simpa using ((Complex.ofRealCLM.hasDerivAt (x := h)).const_mul (-μ))
    exact (Complex.hasDerivAt_exp _).comp h h1
  have hQ : HasDerivAt Q (qh * (Complex.exp (-μ * (h : ℂ)) * (-μ))) h := hexp.const_mul qh
  have hT : T = -(Kz : ℂ) * μ ^ 2 := by rw [hμ]; field_simp
  refine ⟨?_, ?_, ?_, ?_⟩
  · refine hQ.congr_deriv ?_
    simp only [Pc, Q, hT]; field_simp
  · refine (hQ.div_const ((Kz : ℂ) * μ)).congr_deriv ?_
    simp only [Q]; field_simp
  · simp [Q]
  · simp only [Pc]; field_simp

/-- the layer map has `(1, Kz μ)` as an eigenvector with eigenvalue `p₃(-μ dz)`
whenever `T = -Kz μ²` (one-layer identity behind the third-order accuracy) -/
theorem layer_eigenvector (Kz μ dz c : ℂ) (hKz : Kz ≠ 0) :
    layerStep (-Kz * μ ^ 2) (1 / Kz) dz (c, Kz * μ * c) =
      (p3 (-μ * dz) * c, p3 (-μ * dz) * (Kz * μ * c)) := by
  simp only [layerStep, coefA, coefB, coefC, coefD, p3]
  refine Prod.ext ?_ ?_ <;> (norm_num; field_simp; ring)

/-- 3. for uniform profiles the sweep started on the eigen-direction stays on it and
picks up one factor `p₃(-μ dz_i)` per layer -/
theorem ivp_uniform_product (P : Profiles ℝ) (hU : Uniform P) (z : ℕ → ℝ) (Lx Ly : ℝ) (μ c : ℂ)
    (hKz : (P.Kz 0 : ℂ) ≠ 0) (hT : ∀ i, Tcoef RC P Lx Ly i = -(P.Kz 0 : ℂ) * μ ^ 2) (l : ℕ) :
    ivpState RC P z Lx Ly (c, (P.Kz 0 : ℂ) * μ * c) l =
      ((∏ i ∈ Finset.range l, p3 (-μ * ((z (i + 1) - z i : ℝ) : ℂ))) * c,
       (∏ i ∈ Finset.range l, p3 (-μ * ((z (i + 1) - z i : ℝ) : ℂ))) * ((P.Kz 0 : ℂ) * μ * c)) := by
  induction l with
  | zero => simp [ivpState]
  | succ l ih =>
    rw [ivpState, ih, hT l]
    have hk : RC.ofReal (1.0 / P.Kz l) = 1 / (P.Kz 0 : ℂ) := by
      rw [(hU l).2.2.2.2]; simp only [RC]; push_cast; norm_num
    rw [hk]
    have hmul : ∀ x : ℂ, (x * ((P.Kz 0 : ℂ) * μ * c)) = (P.Kz 0 : ℂ) * μ * (x * c) := by intro x; ring
    rw [hmul, layer_eigenvector _ _ _ _ hKz, Finset.prod_range_succ]
    simp only [RC]
    refine Prod.ext ?_ ?_ <;> (simp only []; ring)

/-- 3'. hence the numerical flux and concentration at node `l` are
`q̂ ∏_{i<l} p₃(-μ dz_i)` and that divided by `Kz μ` -/
theorem numeric_uniform_product (P : Profiles ℝ) (hU : Uniform P) (z : ℕ → ℝ) (top : ℕ) (Lx Ly : ℝ) (qh : ℂ)
    (hKz : (P.Kz 0 : ℂ) ≠ 0)
    (hμ0 : eigval RC P top Lx Ly ≠ 0)
    (hT : ∀ i, Tcoef RC P Lx Ly i = -(P.Kz 0 : ℂ) * (eigval RC P top Lx Ly) ^ 2)
    (hden : C01.shootDen P z top Lx Ly ≠ 0) (l : ℕ) :
    let μ := eigval RC P top Lx Ly
    columnNum RC P z top Lx Ly qh l =
      ((∏ i ∈ Finset.range l, p3 (-μ * ((z (i + 1) - z i : ℝ) : ℂ))) * (qh / ((P.Kz 0 : ℂ) * μ)),
       (∏ i ∈ Finset.range l, p3 (-μ * ((z (i + 1) - z i : ℝ) : ℂ))) * qh) := by
  intro μ
  have hμ0' : μ ≠ 0 := hμ0
  have hstart : ((P.Kz 0 : ℂ) * μ * (qh / ((P.Kz 0 : ℂ) * μ))) = qh := by field_simp
  have hprod := ivp_uniform_product P hU z Lx Ly μ (qh / ((P.Kz 0 : ℂ) * μ)) hKz hT
  rw [hstart] at hprod
  have htopKz : RC.ofReal (P.Kz top) = (P.Kz 0 : ℂ) := by rw [(hU top).2.2.2.2]; rfl
  rw [← C01.column_unique P z top Lx Ly qh (qh / ((P.Kz 0 : ℂ) * μ)) hden ?_ l, hprod l]
  rw [hprod top, htopKz]
  change _ = _ * μ * _
  simp only []
  field_simp

/-! non-vacuity: `Uniform` and the relation `T = -Kz μ²` are satisfiable with `μ = √(…)`:
the relation is exactly `eigval_sq` of C01 for constant profiles -/
theorem uniform_T_eq (P : Profiles ℝ) (hU : Uniform P) (top : ℕ) (Lx Ly : ℝ) (hKz : P.Kz 0 ≠ 0) (i : ℕ) :
    Tcoef RC P Lx Ly i = -(P.Kz 0 : ℂ) * (eigval RC P top Lx Ly) ^ 2 := by
  rw [C01.eigval_sq]
  obtain ⟨h1, h2, h3, h4, _⟩ := hU i
  obtain ⟨g1, g2, g3, g4, g5⟩ := hU top
  simp only [Tcoef, RC, h1, h2, h3, h4, g1, g2, g3, g4, g5]
  have : (P.Kz 0 : ℂ) ≠ 0 := by exact_mod_cast hKz
  push_cast
  field_simp
  ring

example : Uniform ⟨fun _ => 2, fun _ => -1, fun _ => 1, fun _ => 3, fun _ => 2⟩ := by
  intro i; exact ⟨rfl, rfl, rfl, rfl, rfl⟩

end BLDFM.C05
