/-
  C02 (field level) — FOOTPRINT RECIPROCITY through the whole model pipeline:
  for every surface-flux field, every on-grid tower, every halo (incl. widths that are not a whole
  number of cells), every truncation, every profile set and level, numeric and analytic,

      Σ_{padded grid} q_pad · flux_footprint(tower)  =  flux_dispersion(q) at the tower's cell.

  (`q_pad` vanishes on the halo, so the sum is the sum over the input grid.)
-/
import Proofs.Lemmas.Spec
import Proofs.Lemmas.Tactics
import Proofs.Lemmas.Repr
import Proofs.Lemmas.Ortho
import Proofs.C02
import Proofs.C03b
import Proofs.C06

open BLDFM BLDFM.Spec BLDFM.Index

namespace BLDFM.C02

/-- per-slot flux transfer (1 for the mean mode) -/
noncomputable def Wq (req : SolveReq ℝ) (g : Geom ℝ) (l a b : ℕ) : ℂ :=
  if a = 0 ∧ b = 0 then 1 else (transfer req g l a b).2

/-- shooting denominators of all retained non-constant modes are non-zero (numerical branch) -/
def DenOK (req : SolveReq ℝ) : Prop :=
  req.analytic = false → ∀ a b,
    (ivpState RC req.P req.z (waveX RC (geom RC req) b) (waveY RC (geom RC req) a) ((1.0 : ℂ), (0.0 : ℂ)) (req.nz - 1)).2
      - RC.ofReal (req.P.Kz (req.nz - 1)) * eigval RC req.P (req.nz - 1) (waveX RC (geom RC req) b) (waveY RC (geom RC req) a)
        * (ivpState RC req.P req.z (waveX RC (geom RC req) b) (waveY RC (geom RC req) a) ((1.0 : ℂ), (0.0 : ℂ)) (req.nz - 1)).1 ≠ 0

theorem flux_coef (req : SolveReq ℝ) (hp : req.precision = .double) (hden : DenOK req) (S : ℕ → ℕ → ℂ) (l a b : ℕ) :
    (modeCoef RC req (geom RC req) S l a b).2 = S a b * Wq req (geom RC req) l a b := by
  unfold Wq
  by_cases hab : a = 0 ∧ b = 0
  · obtain ⟨rfl, rfl⟩ := hab
    rw [C03.dc_flux_conserved req S l hp]
    simp
  · rw [if_neg hab, coef_is_transfer_times_source req S l a b hab hp (fun h => hden h a b)]

/-- the truncated source spectrum in terms of the padded source: slot `(a, b)` holds the DFT coefficient of
its own signed frequency -/
theorem srcSpectrum_formula (req : SolveReq ℝ) (hg : GeomOK (geom RC req)) (hfp : req.footprint = false)
    (a b : ℕ) (ha : a < (geom RC req).nly) (hb : b < (geom RC req).nlx) :
    (srcSpectrum RC req (geom RC req)).get a b =
      (∑ J ∈ Finset.range (geom RC req).nye, (∑ I ∈ Finset.range (geom RC req).nxe,
          padSrc RC req (geom RC req) J I * rootPow (geom RC req).nxe (-(sfreq (geom RC req).nlx b * I)))
            * rootPow (geom RC req).nye (-(sfreq (geom RC req).nly a * J)))
        / (((geom RC req).nye : ℂ) * ((geom RC req).nxe : ℂ)) := by
  have hNx := hg.Nx_pos
  have hNy := hg.Ny_pos
  have ty : truncSrc (geom RC req).nye (geom RC req).nly (geom RC req).dly a = slotPos (geom RC req).nye (geom RC req).nly a := by
    rw [hg.hdy]; exact trunc_index _ _ _ hg.ady ha
  have tx : truncSrc (geom RC req).nxe (geom RC req).nlx (geom RC req).dlx b = slotPos (geom RC req).nxe (geom RC req).nlx b := by
    rw [hg.hdx]; exact trunc_index _ _ _ hg.adx hb
  simp only [srcSpectrum, hfp, Bool.false_eq_true, if_false, Tab2.get_tab, ty, tx]
  rw [dft2_neg _ _ hNy hNx]
  have hx : (((geom RC req).nxe : ℕ) : ℂ) ≠ 0 := by exact_mod_cast hNx.ne'
  have hy : (((geom RC req).nye : ℕ) : ℂ) ≠ 0 := by exact_mod_cast hNy.ne'
  have e : RC.ofReal (1.0 / RC.natCast ((geom RC req).nye * (geom RC req).nxe))
      = 1 / ((((geom RC req).nye : ℕ) : ℂ) * (((geom RC req).nxe : ℕ) : ℂ)) := by
    rc_norm; push_cast; norm_num
  rw [e, mul_one_div]
  congr 1
  apply Finset.sum_congr rfl; intro J _
  have hyJ : rootPow (geom RC req).nye (-(((slotPos (geom RC req).nye (geom RC req).nly a : ℕ) : ℤ) * J))
      = rootPow (geom RC req).nye (-(sfreq (geom RC req).nly a * J)) := by
    have := rootPow_slotPos (geom RC req).nye (geom RC req).nly a hNy hg.ady ha (-1) J
    simpa [neg_mul] using this
  rw [hyJ]
  congr 1
  apply Finset.sum_congr rfl; intro I _
  have hxI : rootPow (geom RC req).nxe (-(((slotPos (geom RC req).nxe (geom RC req).nlx b : ℕ) : ℤ) * I))
      = rootPow (geom RC req).nxe (-(sfreq (geom RC req).nlx b * I)) := by
    have := rootPow_slotPos (geom RC req).nxe (geom RC req).nlx b hNx hg.adx hb (-1) I
    simpa [neg_mul] using this
  rw [hxI]

/-- FOOTPRINT RECIPROCITY (flux), whole pipeline.  `rd` is a dispersion request un-centred (`meas_pt = 0`);
the footprint request differs from it only in the mode flag and the on-grid tower `(im·dx, jm·dy)`. -/
theorem footprint_reciprocity_flux (rd : SolveReq ℝ) (hg : GeomOK (geom RC rd)) (hp : rd.precision = .double)
    (hden : DenOK rd) (hfp : rd.footprint = false) (hxm : rd.xm = 0) (hym : rd.ym = 0) (im jm l : ℕ)
    (hdx : (geom RC rd).dx ≠ 0) (hdy : (geom RC rd).dy ≠ 0) :
    let g := geom RC rd
    let rf : SolveReq ℝ := { rd with footprint := true, xm := im * g.dx, ym := jm * g.dy }
    ∑ J ∈ Finset.range g.nye, ∑ I ∈ Finset.range g.nxe,
        padSrc RC rd g J I * (fieldsAt RC rf g (srcSpectrum RC rf g).get l).2.get J I
      = (fieldsAt RC rd g (srcSpectrum RC rd g).get l).2.get (jm + g.py) (im + g.px) := by
  intro g rf
  have hNx := hg.Nx_pos
  have hNy := hg.Ny_pos
  have hgf : geom RC rf = g := rfl
  have hrf_fp : rf.footprint = true := rfl
  have hgOKf : GeomOK (geom RC rf) := hg
  have hpf : rf.precision = .double := hp
  have hdenf : DenOK rf := hden
  -- coefficients of the two runs
  have hcoef_f : ∀ a b, a < g.nly → b < g.nlx →
      (modeCoef RC rf g (srcSpectrum RC rf g).get l a b).2 * shiftFactor RC rf g a b
        = (1 / ((g.nxe : ℂ) * (g.nye : ℂ))) * Wq rd g l a b *
          (rootPow g.nxe (sfreq g.nlx b * ((im + g.px : ℕ) : ℤ)) * rootPow g.nye (sfreq g.nly a * ((jm + g.py : ℕ) : ℤ))) := by
    intro a b ha hb
    have h1 := flux_coef rf hpf hdenf (srcSpectrum RC rf g).get l a b
    have h2 := C03.footprint_unit_spectrum rf hrf_fp a b hNx hNy
    have h3 := C06.footprint_phase_on_grid rf hrf_fp a b im jm rfl rfl ha hb hdx hdy hNx hNy
    rw [hgf] at h1 h2 h3
    rw [h1, h2, h3]
    rfl
  have hcoef_d : ∀ a b,
      (modeCoef RC rd g (srcSpectrum RC rd g).get l a b).2 * shiftFactor RC rd g a b
        = (srcSpectrum RC rd g).get a b * Wq rd g l a b := by
    intro a b
    rw [flux_coef rd hp hden, C06.recentre_guard_origin rd hfp hxm hym, mul_one]
  -- expand both fields by the spectral representation
  have hFf : ∀ J I, (fieldsAt RC rf g (srcSpectrum RC rf g).get l).2.get J I =
      ∑ a ∈ Finset.range g.nly, ∑ b ∈ Finset.range g.nlx,
        ((modeCoef RC rf g (srcSpectrum RC rf g).get l a b).2 * shiftFactor RC rf g a b)
          * rootPow g.nxe (-1 * sfreq g.nlx b * I) * rootPow g.nye (-1 * sfreq g.nly a * J) := by
    intro J I
    rw [(C03.fieldsAt_eq rf g _ l).2]
    have := solver_repr (-1) (-1.0) (Or.inr ⟨rfl, rfl⟩) g hg
      (fun a b => (modeCoef RC rf g (srcSpectrum RC rf g).get l a b).2 * shiftFactor RC rf g a b) J I
    simpa [hrf_fp] using this
  have hFd : ∀ J I, (fieldsAt RC rd g (srcSpectrum RC rd g).get l).2.get J I =
      ∑ a ∈ Finset.range g.nly, ∑ b ∈ Finset.range g.nlx,
        ((modeCoef RC rd g (srcSpectrum RC rd g).get l a b).2 * shiftFactor RC rd g a b)
          * rootPow g.nxe (1 * sfreq g.nlx b * I) * rootPow g.nye (1 * sfreq g.nly a * J) := by
    intro J I
    rw [(C03.fieldsAt_eq rd g _ l).2]
    have := solver_repr 1 1.0 (Or.inl ⟨rfl, rfl⟩) g hg
      (fun a b => (modeCoef RC rd g (srcSpectrum RC rd g).get l a b).2 * shiftFactor RC rd g a b) J I
    simpa [hfp] using this
  simp only [hFf]
  rw [hFd]
  -- left-hand side: pull the source inside and exchange the sums
  have hL : ∑ J ∈ Finset.range g.nye, ∑ I ∈ Finset.range g.nxe, padSrc RC rd g J I *
      ∑ a ∈ Finset.range g.nly, ∑ b ∈ Finset.range g.nlx,
        ((modeCoef RC rf g (srcSpectrum RC rf g).get l a b).2 * shiftFactor RC rf g a b)
          * rootPow g.nxe (-1 * sfreq g.nlx b * I) * rootPow g.nye (-1 * sfreq g.nly a * J)
      = ∑ a ∈ Finset.range g.nly, ∑ b ∈ Finset.range g.nlx,
        ((modeCoef RC rf g (srcSpectrum RC rf g).get l a b).2 * shiftFactor RC rf g a b) *
          ∑ J ∈ Finset.range g.nye, (∑ I ∈ Finset.range g.nxe,
            padSrc RC rd g J I * rootPow g.nxe (-(sfreq g.nlx b * I))) * rootPow g.nye (-(sfreq g.nly a * J)) := by
    simp only [Finset.mul_sum]
    rw [sum4_comm]
    apply Finset.sum_congr rfl; intro a _
    apply Finset.sum_congr rfl; intro b _
    apply Finset.sum_congr rfl; intro J _
    rw [Finset.sum_mul, Finset.mul_sum]
    apply Finset.sum_congr rfl; intro I _
    have e1 : (-1 * sfreq g.nlx b * (I : ℤ)) = -(sfreq g.nlx b * I) := by ring
    have e2 : (-1 * sfreq g.nly a * (J : ℤ)) = -(sfreq g.nly a * J) := by ring
    rw [e1, e2]
    ring
  rw [hL]
  apply Finset.sum_congr rfl; intro a ha
  apply Finset.sum_congr rfl; intro b hb
  have ha' := Finset.mem_range.mp ha
  have hb' := Finset.mem_range.mp hb
  rw [hcoef_f a b ha' hb', hcoef_d a b, srcSpectrum_formula rd hg hfp a b ha' hb']
  have hx : ((g.nxe : ℕ) : ℂ) ≠ 0 := by exact_mod_cast hNx.ne'
  have hy : ((g.nye : ℕ) : ℂ) ≠ 0 := by exact_mod_cast hNy.ne'
  have e1 : (1 * sfreq g.nlx b * ((im + g.px : ℕ) : ℤ)) = sfreq g.nlx b * ((im + g.px : ℕ) : ℤ) := by ring
  have e2 : (1 * sfreq g.nly a * ((jm + g.py : ℕ) : ℤ)) = sfreq g.nly a * ((jm + g.py : ℕ) : ℤ) := by ring
  rw [e1, e2]
  have hgdef : g = geom RC rd := rfl
  simp only [hgdef] at hx hy ⊢
  field_simp

/-- … and for the real fields the user sees: `Σ q · footprint = flux_dispersion(tower)` (the source is real) -/
theorem footprint_reciprocity_flux_real (rd : SolveReq ℝ) (hg : GeomOK (geom RC rd)) (hp : rd.precision = .double)
    (hden : DenOK rd) (hfp : rd.footprint = false) (hxm : rd.xm = 0) (hym : rd.ym = 0) (im jm l : ℕ)
    (hdx : (geom RC rd).dx ≠ 0) (hdy : (geom RC rd).dy ≠ 0) :
    let g := geom RC rd
    let rf : SolveReq ℝ := { rd with footprint := true, xm := im * g.dx, ym := jm * g.dy }
    ∑ J ∈ Finset.range g.nye, ∑ I ∈ Finset.range g.nxe,
        (padSrc RC rd g J I).re * ((fieldsAt RC rf g (srcSpectrum RC rf g).get l).2.get J I).re
      = ((fieldsAt RC rd g (srcSpectrum RC rd g).get l).2.get (jm + g.py) (im + g.px)).re := by
  intro g rf
  have h := footprint_reciprocity_flux rd hg hp hden hfp hxm hym im jm l hdx hdy
  have hre : ∀ J I, (padSrc RC rd g J I).im = 0 := by
    intro J I; unfold padSrc; split <;> simp [RC_ofReal]
  rw [← h, Complex.re_sum]
  apply Finset.sum_congr rfl; intro J _
  rw [Complex.re_sum]
  apply Finset.sum_congr rfl; intro I _
  rw [Complex.mul_re, hre J I, zero_mul, sub_zero]

end BLDFM.C02
