/-
  C15 (concurrency clause) — several processes sharing one cache directory.

  `BLDFM.CacheProto` models `GreensFunctionCache.__init__/get/put` at the granularity of single
  file-system operations.  For the configuration the code has (temporary file named after the key AND
  the writer's pid, renamed onto the entry, nothing removed by the constructor, guarded load):

  * `proto_step_inv`   : one micro-step of any process preserves the invariant
  * `proto_step_no_fail`: no micro-step lets an exception escape (`os.replace` always finds its file)
  * `proto_read_sound` : a hit returns a complete entry that was written for that key
  * `proto_run`        : for EVERY interleaving (list of micro-steps of any number of processes, with
                         crashes anywhere) all of the above, and no entry is ever visible half-written

  and for each way the protocol can be weakened, a concrete interleaving on which it breaks
  (`init_cleanup_breaks_rename`, `shared_temp_publishes_partial`, `inplace_crash_leaves_partial`,
  `unguarded_partial_is_fatal`).
-/
import BLDFM.CacheProto
import Mathlib.Tactic.Common

namespace BLDFM.C15

open BLDFM

def GoodCfg (cfg : ProtoCfg) : Prop :=
  cfg.atomicWrite = true ∧ cfg.tempPerProcess = true ∧ cfg.initRemovesTemps = false ∧ cfg.guardedLoad = true

@[simp] theorem FS.look_cons (n m : FName) (c : Option Content) (fs : FS) :
    FS.look ((n, c) :: fs) m = if n = m then c else FS.look fs m := rfl

@[simp] theorem Procs.look_cons (p q : ℕ) (s : PState) (ps : Procs) :
    Procs.look ((p, s) :: ps) q = if p = q then s else Procs.look ps q := rfl

/-- the invariant: entries are complete and were written for their key (`P k res`); a process that
has finished / is inside `savez` owns its temporary file with the content it wrote -/
structure PInv (P : ℕ → ℕ → Prop) (w : PWorld) : Prop where
  final_full : ∀ k, ∃ res, w.fs.look (.final k) = none ∨ (w.fs.look (.final k) = some (.full res) ∧ P k res)
  written_owns : ∀ pid k res, w.procs.look pid = .written k res → w.fs.look (.temp k pid) = some (.full res) ∧ P k res
  writing_owns : ∀ pid k res, w.procs.look pid = .writing k res → w.fs.look (.temp k pid) = some .torn ∧ P k res

/-- the write a step announces is a result computed for that key -/
def StepGood (P : ℕ → ℕ → Prop) : PStep → Prop
  | .beginWrite _ k res => P k res
  | _ => True

theorem target_good {cfg : ProtoCfg} (h : GoodCfg cfg) (k pid : ℕ) : cfg.target k pid = .temp k pid := by
  obtain ⟨h1, h2, _, _⟩ := h
  simp [ProtoCfg.target, h1, h2]

theorem proto_step_inv {cfg : ProtoCfg} (hc : GoodCfg cfg) (P : ℕ → ℕ → Prop) (w : PWorld) (s : PStep)
    (hi : PInv P w) (hs : StepGood P s) : PInv P (pstep cfg w s).1 := by
  have ht := target_good hc
  obtain ⟨h1, h2, h3, h4⟩ := hc
  cases s with
  | init pid => simpa [pstep, h3] using hi
  | read pid k =>
    simp only [pstep]
    split <;> exact hi
  | crash pid =>
    simp only [pstep]
    refine ⟨hi.final_full, ?_, ?_⟩
    · intro p k res hp
      simp only [Procs.look_cons] at hp
      split at hp
      · cases hp
      · exact hi.written_owns p k res hp
    · intro p k res hp
      simp only [Procs.look_cons] at hp
      split at hp
      · cases hp
      · exact hi.writing_owns p k res hp
  | beginWrite pid k res =>
    simp only [pstep]
    split
    next hidle =>
      refine ⟨?_, ?_, ?_⟩
      · intro k'
        obtain ⟨r, hr⟩ := hi.final_full k'
        exact ⟨r, by simpa [ht] using hr⟩
      · intro p k' res' hp
        simp only [Procs.look_cons] at hp
        split at hp
        · cases hp
        next hne =>
          have := hi.written_owns p k' res' hp
          simp only [FS.look_cons, ht]
          rw [if_neg]
          · exact this
          · intro he; injection he with _ hpid; exact hne hpid
      · intro p k' res' hp
        simp only [Procs.look_cons] at hp
        split at hp
        next heq =>
          injection hp with hk hr
          subst heq hk hr
          exact ⟨by simp [ht], hs⟩
        next hne =>
          have := hi.writing_owns p k' res' hp
          simp only [FS.look_cons, ht]
          rw [if_neg]
          · exact this
          · intro he; injection he with _ hpid; exact hne hpid
    next => exact hi
  | endWrite pid =>
    simp only [pstep]
    split
    next k res hw =>
      obtain ⟨hfile, hP⟩ := hi.writing_owns pid k res hw
      rw [ht, hfile]
      refine ⟨?_, ?_, ?_⟩
      · intro k'
        obtain ⟨r, hr⟩ := hi.final_full k'
        exact ⟨r, by simpa using hr⟩
      · intro p k' res' hp
        simp only [Procs.look_cons] at hp
        split at hp
        next heq =>
          injection hp with hk hr
          subst heq hk hr
          exact ⟨by simp, hP⟩
        next hne =>
          have := hi.written_owns p k' res' hp
          simp only [FS.look_cons]
          rw [if_neg]
          · exact this
          · intro he; injection he with _ hpid; exact hne hpid
      · intro p k' res' hp
        simp only [Procs.look_cons] at hp
        split at hp
        · cases hp
        next hne =>
          have := hi.writing_owns p k' res' hp
          simp only [FS.look_cons]
          rw [if_neg]
          · exact this
          · intro he; injection he with _ hpid; exact hne hpid
    next => exact hi
  | rename pid =>
    simp only [pstep]
    split
    next k res hw =>
      obtain ⟨hfile, hP⟩ := hi.written_owns pid k res hw
      rw [h1, if_pos rfl, ht, hfile]
      refine ⟨?_, ?_, ?_⟩
      · intro k'
        by_cases hk : k = k'
        · subst hk
          exact ⟨res, Or.inr ⟨by simp, hP⟩⟩
        · obtain ⟨r, hr⟩ := hi.final_full k'
          refine ⟨r, ?_⟩
          have : (FName.final k = FName.final k') = False := by simp [hk]
          simpa [this] using hr
      · intro p k' res' hp
        simp only [Procs.look_cons] at hp
        split at hp
        · cases hp
        next hne =>
          have := hi.written_owns p k' res' hp
          simp only [FS.look_cons]
          rw [if_neg (by simp), if_neg]
          · exact this
          · intro he; injection he with _ hpid; exact hne hpid
      · intro p k' res' hp
        simp only [Procs.look_cons] at hp
        split at hp
        · cases hp
        next hne =>
          have := hi.writing_owns p k' res' hp
          simp only [FS.look_cons]
          rw [if_neg (by simp), if_neg]
          · exact this
          · intro he; injection he with _ hpid; exact hne hpid
    next => exact hi

/-- no micro-step lets an exception escape: `os.replace` finds its temporary file whatever the other
processes did in between; an unreadable entry cannot exist, and would be a miss anyway -/
theorem proto_step_no_fail {cfg : ProtoCfg} (hc : GoodCfg cfg) (P : ℕ → ℕ → Prop) (w : PWorld) (s : PStep)
    (hi : PInv P w) : (pstep cfg w s).2 ≠ .fail := by
  have ht := target_good hc
  obtain ⟨h1, h2, h3, h4⟩ := hc
  cases s with
  | init pid => simp only [pstep]; split <;> simp
  | beginWrite pid k res => simp only [pstep]; split <;> simp
  | endWrite pid =>
    simp only [pstep]
    split
    · split <;> simp
    · simp
  | crash pid => simp [pstep]
  | read pid k =>
    simp only [pstep]
    split <;> simp [h4]
  | rename pid =>
    simp only [pstep]
    split
    next k res hw =>
      obtain ⟨hfile, _⟩ := hi.written_owns pid k res hw
      rw [h1, if_pos rfl, ht, hfile]
      simp
    next => simp

/-- a hit returns a complete entry that was written for that key -/
theorem proto_read_sound {cfg : ProtoCfg} (P : ℕ → ℕ → Prop) (w : PWorld) (pid k res : ℕ)
    (hi : PInv P w) (hh : (pstep cfg w (.read pid k)).2 = .hit res) : P k res := by
  simp only [pstep] at hh
  obtain ⟨r, hr⟩ := hi.final_full k
  rcases hr with hr | ⟨hr, hP⟩
  · rw [hr] at hh; simp at hh
  · rw [hr] at hh
    simp only [POut.hit.injEq] at hh
    exact hh ▸ hP

/-- no entry is visible half-written -/
theorem proto_no_partial_entry (P : ℕ → ℕ → Prop) (w : PWorld) (hi : PInv P w) (k : ℕ) :
    w.fs.look (.final k) ≠ some .torn := by
  obtain ⟨r, hr⟩ := hi.final_full k
  rcases hr with hr | ⟨hr, _⟩ <;> rw [hr] <;> simp

/-- EVERY interleaving of the micro-steps of any number of processes (crashes anywhere): the invariant
holds at the end, no step raised, every hit was sound -/
theorem proto_run {cfg : ProtoCfg} (hc : GoodCfg cfg) (P : ℕ → ℕ → Prop) (steps : List PStep) (w : PWorld)
    (hi : PInv P w) (hs : ∀ s ∈ steps, StepGood P s) :
    PInv P (prun cfg w steps).1 ∧ (∀ o ∈ (prun cfg w steps).2, o ≠ .fail) ∧
      (∀ i (h : i < steps.length) pid k res, steps[i] = .read pid k →
        (prun cfg w steps).2[i]? = some (.hit res) → P k res) := by
  induction steps generalizing w with
  | nil => exact ⟨hi, by simp [prun], by simp⟩
  | cons s rest ih =>
    have hs0 : StepGood P s := hs s (List.mem_cons_self ..)
    have hi' := proto_step_inv hc P w s hi hs0
    obtain ⟨a, b, c⟩ := ih (pstep cfg w s).1 hi' (fun t ht => hs t (List.mem_cons_of_mem _ ht))
    refine ⟨by simpa [prun] using a, ?_, ?_⟩
    · intro o ho
      simp only [prun, List.mem_cons] at ho
      rcases ho with rfl | ho
      · exact proto_step_no_fail hc P w s hi
      · exact b o ho
    · intro i h pid k res hstep hout
      cases i with
      | zero =>
        simp only [List.getElem_cons_zero] at hstep
        simp only [prun, List.getElem?_cons_zero, Option.some.injEq] at hout
        subst hstep
        exact proto_read_sound P w pid k res hi hout
      | succ j =>
        simp only [List.getElem_cons_succ] at hstep
        simp only [prun, List.getElem?_cons_succ] at hout
        exact c j (by simpa using h) pid k res hstep hout

/-- the empty directory with every process idle satisfies the invariant -/
theorem pinv_empty (P : ℕ → ℕ → Prop) : PInv P ⟨[], []⟩ :=
  ⟨fun _ => ⟨0, Or.inl rfl⟩, fun _ _ _ h => by simp [Procs.look] at h, fun _ _ _ h => by simp [Procs.look] at h⟩

/-! ### what each weakening of the protocol breaks (concrete interleavings) -/

def codeCfg : ProtoCfg := ⟨true, true, false, true⟩

example : GoodCfg codeCfg := ⟨rfl, rfl, rfl, rfl⟩

/-- non-vacuity: two processes storing the same key, interleaved, then a reader: all fine -/
example : (prun codeCfg ⟨[], []⟩ [.init 1, .beginWrite 1 7 70, .init 2, .beginWrite 2 7 70, .endWrite 1, .endWrite 2,
    .rename 2, .read 3 7, .rename 1, .read 3 7]).2 = [.ok, .ok, .ok, .ok, .ok, .ok, .ok, .hit 70, .ok, .hit 70] := by decide

/-- a constructor that "cleans up stale temporaries" deletes the file of a writer that is still
running: its `os.replace` raises -/
theorem init_cleanup_breaks_rename :
    (prun { codeCfg with initRemovesTemps := true } ⟨[], []⟩
      [.init 1, .beginWrite 1 7 70, .endWrite 1, .init 2, .rename 1]).2 = [.ok, .ok, .ok, .ok, .fail] := by decide

/-- one temporary name per key (no pid): a second writer truncates the file the first one is about to
publish, and a half-written entry becomes visible -/
theorem shared_temp_publishes_partial :
    ((prun { codeCfg with tempPerProcess := false } ⟨[], []⟩
      [.beginWrite 1 7 70, .endWrite 1, .beginWrite 2 7 70, .rename 1]).1.fs.look (.final 7)) = some .torn := by decide

/-- writing in place: a process that dies inside `savez` leaves a half-written entry -/
theorem inplace_crash_leaves_partial :
    ((prun { codeCfg with atomicWrite := false } ⟨[], []⟩ [.beginWrite 1 7 70, .crash 1]).1.fs.look (.final 7)) = some .torn := by decide

/-- ... which is fatal for the next reader unless the load is guarded -/
theorem unguarded_partial_is_fatal :
    (prun { codeCfg with atomicWrite := false, guardedLoad := false } ⟨[], []⟩ [.beginWrite 1 7 70, .crash 1, .read 2 7]).2
      = [.ok, .ok, .fail] := by decide

end BLDFM.C15
