/-
  C06 (field level) — through the whole model pipeline:

  * moving the measurement point by whole cells translates the footprint fields cyclically by the same cells
    on the padded domain (`tower_shift_field`);
  * translating the padded surface-flux field cyclically by whole cells translates both dispersion fields by
    the same cells (`source_shift_field`), for every truncation, parity, level, profile set, numeric/analytic.
-/
import Proofs.Lemmas.Spec
import Proofs.Lemmas.Tactics
import Proofs.Lemmas.Repr
import Proofs.C02b
import Proofs.C03b
import Proofs.C04b
import Proofs.C06
import Proofs.Lemmas.Witness

open BLDFM BLDFM.Spec BLDFM.Index

namespace BLDFM.C06

/-- a summand of period `N` may be re-indexed cyclically: shift by a natural number -/
theorem sum_shift_periodic_nat (N : ℕ) (k : ℕ) : ∀ (f : ℤ → ℂ), (∀ m, f (m + N) = f m) →
    ∑ I ∈ Finset.range N, f ((I : ℤ) - k) = ∑ I ∈ Finset.range N, f I := by
  induction k with
  | zero => intro f _; simp
  | succ k ih =>
    intro f hper
    -- one step
    have one : ∀ (h : ℤ → ℂ), (∀ m, h (m + N) = h m) →
        ∑ I ∈ Finset.range N, h ((I : ℤ) - 1) = ∑ I ∈ Finset.range N, h I := by
      intro h hh
      cases N with
      | zero => simp
      | succ n =>
        rw [Finset.sum_range_succ', Finset.sum_range_succ]
        congr 1
        · apply Finset.sum_congr rfl; intro I _; congr 1; push_cast; ring
        · have := hh (-1)
          rw [show ((0 : ℕ) : ℤ) - 1 = -1 by norm_num, ← this]; congr 1; push_cast; ring
    have hper' : ∀ m, (fun m => f (m - k)) (m + N) = (fun m => f (m - k)) m := by
      intro m
      show f (m + N - k) = f (m - k)
      rw [show m + (N : ℤ) - k = (m - k) + N by ring, hper]
    have := one (fun m => f (m - k)) hper'
    rw [← ih f hper, ← this]
    apply Finset.sum_congr rfl; intro I _; congr 1; push_cast; ring

/-- … by any integer -/
theorem sum_shift_periodic (N : ℕ) (f : ℤ → ℂ) (hper : ∀ m, f (m + N) = f m) (c : ℤ) :
    ∑ I ∈ Finset.range N, f ((I : ℤ) - c) = ∑ I ∈ Finset.range N, f I := by
  rcases Int.le_total 0 c with h | h
  · obtain ⟨k, rfl⟩ := Int.eq_ofNat_of_zero_le h
    exact sum_shift_periodic_nat N k f hper
  · obtain ⟨k, hk⟩ := Int.eq_ofNat_of_zero_le (neg_nonneg.mpr h)
    have hc : c = -(k : ℤ) := by omega
    subst hc
    have hper' : ∀ m, (fun m => f (m + k)) (m + N) = (fun m => f (m + k)) m := by
      intro m
      show f (m + N + k) = f (m + k)
      rw [show m + (N : ℤ) + k = (m + k) + N by ring, hper]
    have := sum_shift_periodic_nat N k (fun m => f (m + k)) hper'
    calc ∑ I ∈ Finset.range N, f ((I : ℤ) - -(k : ℤ)) = ∑ I ∈ Finset.range N, f ((I : ℤ) + k) := by
          apply Finset.sum_congr rfl; intro I _; congr 1; ring
      _ = ∑ I ∈ Finset.range N, f ((I : ℤ) - k + k) := this.symm
      _ = _ := by apply Finset.sum_congr rfl; intro I _; congr 1; ring

/-- the spectral coefficients do not depend on the measurement point -/
theorem modeCoef_indep_tower (req : SolveReq ℝ) (g : Geom ℝ) (S : ℕ → ℕ → ℂ) (l a b : ℕ) (x y : ℝ) :
    modeCoef RC { req with xm := x, ym := y } g S l a b = modeCoef RC req g S l a b := rfl

/-- TOWER SHIFT (footprint mode), whole pipeline: moving the measurement point by `(cx, cy)` whole cells moves
both footprint fields cyclically by `(cy, cx)` cells on the padded domain: the value at `(J, I)` is the old value at
`(J − cy, I − cx)` modulo the padded size. -/
theorem tower_shift_field (req : SolveReq ℝ) (hg : GeomOK (geom RC req)) (hfp : req.footprint = true)
    (hdx : (geom RC req).dx ≠ 0) (hdy : (geom RC req).dy ≠ 0) (cx cy : ℤ) (S : ℕ → ℕ → ℂ)
    (l J I J' I' : ℕ) (tx ty : ℤ)
    (hI : (I : ℤ) - cx = I' + (geom RC req).nxe * tx) (hJ : (J : ℤ) - cy = J' + (geom RC req).nye * ty) :
    let g := geom RC req
    let req' : SolveReq ℝ := { req with xm := req.xm + cx * g.dx, ym := req.ym + cy * g.dy }
    (fieldsAt RC req' g S l).1.get J I = (fieldsAt RC req g S l).1.get J' I' ∧
    (fieldsAt RC req' g S l).2.get J I = (fieldsAt RC req g S l).2.get J' I' := by
  intro g req'
  have hNx := hg.Nx_pos
  have hNy := hg.Ny_pos
  have hfp' : req'.footprint = true := hfp
  have hs := C03.signPair_of true
  simp only [if_true] at hs
  have key : ∀ a ∈ Finset.range g.nly, ∀ b ∈ Finset.range g.nlx,
      shiftFactor RC req' g a b * rootPow g.nxe (-1 * sfreq g.nlx b * I) * rootPow g.nye (-1 * sfreq g.nly a * J)
        = shiftFactor RC req g a b * rootPow g.nxe (-1 * sfreq g.nlx b * I') * rootPow g.nye (-1 * sfreq g.nly a * J') := by
    intro a ha b hb
    have := tower_shift_phase req hfp a b cx cy (Finset.mem_range.mp ha) (Finset.mem_range.mp hb) hdx hdy hNx hNy
    simp only at this
    have hgeo : geom RC req' = g := rfl
    rw [hgeo] at this
    rw [this]
    have ex : rootPow g.nxe (sfreq g.nlx b * cx) * rootPow g.nxe (-1 * sfreq g.nlx b * I)
        = rootPow g.nxe (-1 * sfreq g.nlx b * I') := by
      rw [← rootPow_add]
      have : sfreq g.nlx b * cx + -1 * sfreq g.nlx b * (I : ℤ) = -1 * sfreq g.nlx b * I' + g.nxe * (-(sfreq g.nlx b) * tx) := by
        have : (I : ℤ) = I' + g.nxe * tx + cx := by linarith
        rw [this]; ring
      rw [this, rootPow_add_mul _ hNx]
    have ey : rootPow g.nye (sfreq g.nly a * cy) * rootPow g.nye (-1 * sfreq g.nly a * J)
        = rootPow g.nye (-1 * sfreq g.nly a * J') := by
      rw [← rootPow_add]
      have : sfreq g.nly a * cy + -1 * sfreq g.nly a * (J : ℤ) = -1 * sfreq g.nly a * J' + g.nye * (-(sfreq g.nly a) * ty) := by
        have : (J : ℤ) = J' + g.nye * ty + cy := by linarith
        rw [this]; ring
      rw [this, rootPow_add_mul _ hNy]
    rw [← ex, ← ey]
    ring
  have e1 := C03.fieldsAt_eq req' g S l
  have e0 := C03.fieldsAt_eq req g S l
  rw [hfp'] at e1
  rw [hfp] at e0
  simp only [if_true] at e1 e0
  refine ⟨?_, ?_⟩
  · rw [e1.1, e0.1, solver_repr (-1) (-1.0) hs g hg, solver_repr (-1) (-1.0) hs g hg]
    apply Finset.sum_congr rfl; intro a ha
    apply Finset.sum_congr rfl; intro b hb
    have k := key a ha b hb
    rw [show modeCoef RC req' g S l a b = modeCoef RC req g S l a b from rfl]
    calc (modeCoef RC req g S l a b).1 * shiftFactor RC req' g a b * rootPow g.nxe (-1 * sfreq g.nlx b * ↑I) *
          rootPow g.nye (-1 * sfreq g.nly a * ↑J)
        = (modeCoef RC req g S l a b).1 * (shiftFactor RC req' g a b * rootPow g.nxe (-1 * sfreq g.nlx b * ↑I) *
          rootPow g.nye (-1 * sfreq g.nly a * ↑J)) := by ring
      _ = _ := by rw [k]; ring
  · rw [e1.2, e0.2, solver_repr (-1) (-1.0) hs g hg, solver_repr (-1) (-1.0) hs g hg]
    apply Finset.sum_congr rfl; intro a ha
    apply Finset.sum_congr rfl; intro b hb
    have k := key a ha b hb
    rw [show modeCoef RC req' g S l a b = modeCoef RC req g S l a b from rfl]
    calc (modeCoef RC req g S l a b).2 * shiftFactor RC req' g a b * rootPow g.nxe (-1 * sfreq g.nlx b * ↑I) *
          rootPow g.nye (-1 * sfreq g.nly a * ↑J)
        = (modeCoef RC req g S l a b).2 * (shiftFactor RC req' g a b * rootPow g.nxe (-1 * sfreq g.nlx b * ↑I) *
          rootPow g.nye (-1 * sfreq g.nly a * ↑J)) := by ring
      _ = _ := by rw [k]; ring

/-- DFT shift theorem for one axis: cyclically shifting a row by `c` cells multiplies the coefficient of signed
frequency `m` by `ω^{-m c}` -/
theorem dft_shift (N : ℕ) (hN : 0 < N) (ρ : ℕ → ℂ) (m c : ℤ) :
    ∑ I ∈ Finset.range N, ρ ((((I : ℤ) - c) % N).toNat) * rootPow N (-(m * I))
      = rootPow N (-(m * c)) * ∑ I ∈ Finset.range N, ρ I * rootPow N (-(m * I)) := by
  have hper : ∀ t : ℤ, (fun t : ℤ => ρ ((t % N).toNat) * rootPow N (-(m * (t + c)))) (t + N)
      = (fun t : ℤ => ρ ((t % N).toNat) * rootPow N (-(m * (t + c)))) t := by
    intro t
    show ρ (((t + N) % N).toNat) * rootPow N (-(m * (t + N + c))) = ρ ((t % N).toNat) * rootPow N (-(m * (t + c)))
    rw [Int.add_emod_right, show -(m * (t + (N : ℤ) + c)) = -(m * (t + c)) + N * (-m) by ring, rootPow_add_mul _ hN]
  have := sum_shift_periodic N (fun t : ℤ => ρ ((t % N).toNat) * rootPow N (-(m * (t + c)))) hper c
  calc ∑ I ∈ Finset.range N, ρ ((((I : ℤ) - c) % N).toNat) * rootPow N (-(m * I))
      = ∑ I ∈ Finset.range N, (fun t : ℤ => ρ ((t % N).toNat) * rootPow N (-(m * (t + c)))) ((I : ℤ) - c) := by
        apply Finset.sum_congr rfl; intro I _
        show _ = ρ ((((I : ℤ) - c) % N).toNat) * rootPow N (-(m * ((I : ℤ) - c + c)))
        rw [sub_add_cancel]
    _ = ∑ I ∈ Finset.range N, (fun t : ℤ => ρ ((t % N).toNat) * rootPow N (-(m * (t + c)))) (I : ℤ) := this
    _ = _ := by
        rw [Finset.mul_sum]
        apply Finset.sum_congr rfl; intro I hI
        have hI' : I < N := Finset.mem_range.mp hI
        show ρ ((((I : ℤ)) % N).toNat) * rootPow N (-(m * ((I : ℤ) + c))) = _
        have : ((I : ℤ) % (N : ℤ)).toNat = I := by
          rw [Int.emod_eq_of_lt (by omega) (by exact_mod_cast hI')]; simp
        rw [this, show -(m * ((I : ℤ) + c)) = -(m * I) + -(m * c) by ring, rootPow_add]
        ring

/-- the truncated spectrum of a cyclically shifted padded source -/
theorem srcSpectrum_shift (r r' : SolveReq ℝ) (h : C04.SameButSource r r') (hg : GeomOK (geom RC r))
    (hfp : r.footprint = false) (cx cy : ℤ)
    (hq : ∀ J I, J < (geom RC r).nye → I < (geom RC r).nxe →
      padSrc RC r' (geom RC r) J I =
        padSrc RC r (geom RC r) ((((J : ℤ) - cy) % (geom RC r).nye).toNat) ((((I : ℤ) - cx) % (geom RC r).nxe).toNat))
    (a b : ℕ) (ha : a < (geom RC r).nly) (hb : b < (geom RC r).nlx) :
    (srcSpectrum RC r' (geom RC r)).get a b =
      (srcSpectrum RC r (geom RC r)).get a b
        * (rootPow (geom RC r).nxe (-(sfreq (geom RC r).nlx b * cx)) * rootPow (geom RC r).nye (-(sfreq (geom RC r).nly a * cy))) := by
  have g' : geom RC r' = geom RC r := C04.geom_same r r' h
  have e' : r' = { r with q := r'.q, bg := r'.bg } := h
  have fp' : r'.footprint = false := by rw [e']; exact hfp
  have hg' : GeomOK (geom RC r') := by rw [g']; exact hg
  have f1 := C02.srcSpectrum_formula r' hg' fp' a b (by rw [g']; exact ha) (by rw [g']; exact hb)
  rw [g'] at f1
  rw [f1, C02.srcSpectrum_formula r hg hfp a b ha hb]
  generalize hgd : geom RC r = g at *
  have hNx := hg.Nx_pos
  have hNy := hg.Ny_pos
  rw [div_mul_eq_mul_div]
  congr 1
  -- rows
  have rows : ∀ J ∈ Finset.range g.nye,
      (∑ I ∈ Finset.range g.nxe, padSrc RC r' g J I * rootPow g.nxe (-(sfreq g.nlx b * I)))
        = (fun Jr : ℕ => rootPow g.nxe (-(sfreq g.nlx b * cx)) *
            ∑ I ∈ Finset.range g.nxe, padSrc RC r g Jr I * rootPow g.nxe (-(sfreq g.nlx b * I)))
          ((((J : ℤ) - cy) % g.nye).toNat) := by
    intro J hJ
    have hJ' := Finset.mem_range.mp hJ
    show _ = rootPow g.nxe (-(sfreq g.nlx b * cx)) * _
    rw [← dft_shift g.nxe hNx (fun I => padSrc RC r g ((((J : ℤ) - cy) % g.nye).toNat) I) (sfreq g.nlx b) cx]
    apply Finset.sum_congr rfl; intro I hI
    rw [hq J I hJ' (Finset.mem_range.mp hI)]
  rw [Finset.sum_congr rfl (fun J hJ => by rw [rows J hJ])]
  rw [dft_shift g.nye hNy (fun Jr : ℕ => rootPow g.nxe (-(sfreq g.nlx b * cx)) *
            ∑ I ∈ Finset.range g.nxe, padSrc RC r g Jr I * rootPow g.nxe (-(sfreq g.nlx b * I))) (sfreq g.nly a) cy]
  simp only [Finset.mul_sum, Finset.sum_mul]
  apply Finset.sum_congr rfl; intro J _
  apply Finset.sum_congr rfl; intro I _
  ring

/-- `sfreq` of slot 0 is the zero frequency -/
theorem sfreq_zero (n : ℕ) (hn : 0 < n) : sfreq n 0 = 0 := by
  unfold sfreq
  rw [if_pos (by omega)]; rfl

/-- SOURCE SHIFT (dispersion mode), whole pipeline: if the padded surface-flux field of `r'` is the padded field
of `r` rolled cyclically by `(cy, cx)` cells, then both fields of `r'` are the fields of `r` rolled by the same
cells, at every level, for every truncation, parity, profile set, numeric and analytic. -/
theorem source_shift_field (r r' : SolveReq ℝ) (h : C04.SameButSource r r') (hbg : r'.bg = r.bg)
    (hg : GeomOK (geom RC r)) (hp : r.precision = .double) (hden : C02.DenOK r) (hfp : r.footprint = false)
    (cx cy : ℤ)
    (hq : ∀ J I, J < (geom RC r).nye → I < (geom RC r).nxe →
      padSrc RC r' (geom RC r) J I =
        padSrc RC r (geom RC r) ((((J : ℤ) - cy) % (geom RC r).nye).toNat) ((((I : ℤ) - cx) % (geom RC r).nxe).toNat))
    (l J I J' I' : ℕ) (tx ty : ℤ)
    (hI : (I : ℤ) - cx = I' + (geom RC r).nxe * tx) (hJ : (J : ℤ) - cy = J' + (geom RC r).nye * ty) :
    let g := geom RC r
    let F := fun (ρ : SolveReq ℝ) => fieldsAt RC ρ g (srcSpectrum RC ρ g).get l
    (F r').1.get J I = (F r).1.get J' I' ∧ (F r').2.get J I = (F r).2.get J' I' := by
  intro g F
  have g' : geom RC r' = g := C04.geom_same r r' h
  have e' : r' = { r with q := r'.q, bg := r'.bg } := h
  have fp' : r'.footprint = false := by rw [e']; exact hfp
  have p' : r'.precision = .double := by rw [e']; exact hp
  have d' : C02.DenOK r' := by rw [e']; exact hden
  have hNx := hg.Nx_pos
  have hNy := hg.Ny_pos
  have hs := C03.signPair_of false
  simp only [Bool.false_eq_true, if_false] at hs
  have hS := srcSpectrum_shift r r' h hg hfp cx cy hq
  -- coefficient tables
  have Wq' : ∀ a b, C02.Wq r' g l a b = C02.Wq r g l a b := by
    intro a b; rw [e']; rfl
  have Wp' : ∀ a b, C04.Wp r' g l a b = C04.Wp r g l a b := by
    intro a b; rw [e']; rfl
  have sh' : ∀ a b, shiftFactor RC r' g a b = shiftFactor RC r g a b := by
    intro a b; rw [e']; rfl
  have cq : ∀ a ∈ Finset.range g.nly, ∀ b ∈ Finset.range g.nlx,
      (modeCoef RC r' g (srcSpectrum RC r' g).get l a b).2 =
        (modeCoef RC r g (srcSpectrum RC r g).get l a b).2
          * (rootPow g.nxe (-(sfreq g.nlx b * cx)) * rootPow g.nye (-(sfreq g.nly a * cy))) := by
    intro a ha b hb
    have k1 := C02.flux_coef r' p' d' (srcSpectrum RC r' (geom RC r')).get l a b
    rw [g'] at k1
    rw [k1, C02.flux_coef r hp hden, hS a b (Finset.mem_range.mp ha) (Finset.mem_range.mp hb), Wq']
    ring
  have cp : ∀ a ∈ Finset.range g.nly, ∀ b ∈ Finset.range g.nlx,
      (modeCoef RC r' g (srcSpectrum RC r' g).get l a b).1 =
        (modeCoef RC r g (srcSpectrum RC r g).get l a b).1
          * (rootPow g.nxe (-(sfreq g.nlx b * cx)) * rootPow g.nye (-(sfreq g.nly a * cy))) := by
    intro a ha b hb
    have k1 := C04.conc_coef r' p' d' (srcSpectrum RC r' (geom RC r')).get l a b
    rw [g'] at k1
    rw [k1, C04.conc_coef r hp hden, hS a b (Finset.mem_range.mp ha) (Finset.mem_range.mp hb), Wp', hbg]
    by_cases hab : a = 0 ∧ b = 0
    · obtain ⟨rfl, rfl⟩ := hab
      rw [sfreq_zero _ hg.adx.1, sfreq_zero _ hg.ady.1]
      simp [rootPow_zero]
      rfl
    · rw [if_neg hab]; ring
  have phase : ∀ a b : ℕ,
      (rootPow g.nxe (-(sfreq g.nlx b * cx)) * rootPow g.nye (-(sfreq g.nly a * cy)))
        * rootPow g.nxe (1 * sfreq g.nlx b * I) * rootPow g.nye (1 * sfreq g.nly a * J)
      = rootPow g.nxe (1 * sfreq g.nlx b * I') * rootPow g.nye (1 * sfreq g.nly a * J') := by
    intro a b
    have ex : rootPow g.nxe (-(sfreq g.nlx b * cx)) * rootPow g.nxe (1 * sfreq g.nlx b * I)
        = rootPow g.nxe (1 * sfreq g.nlx b * I') := by
      rw [← rootPow_add]
      have : -(sfreq g.nlx b * cx) + 1 * sfreq g.nlx b * (I : ℤ) = 1 * sfreq g.nlx b * I' + g.nxe * (sfreq g.nlx b * tx) := by
        have : (I : ℤ) = I' + g.nxe * tx + cx := by linarith
        rw [this]; ring
      rw [this, rootPow_add_mul _ hNx]
    have ey : rootPow g.nye (-(sfreq g.nly a * cy)) * rootPow g.nye (1 * sfreq g.nly a * J)
        = rootPow g.nye (1 * sfreq g.nly a * J') := by
      rw [← rootPow_add]
      have : -(sfreq g.nly a * cy) + 1 * sfreq g.nly a * (J : ℤ) = 1 * sfreq g.nly a * J' + g.nye * (sfreq g.nly a * ty) := by
        have : (J : ℤ) = J' + g.nye * ty + cy := by linarith
        rw [this]; ring
      rw [this, rootPow_add_mul _ hNy]
    rw [← ex, ← ey]; ring
  have e1 := C03.fieldsAt_eq r' g (srcSpectrum RC r' g).get l
  have e0 := C03.fieldsAt_eq r g (srcSpectrum RC r g).get l
  rw [fp'] at e1
  rw [hfp] at e0
  simp only [Bool.false_eq_true, if_false] at e1 e0
  refine ⟨?_, ?_⟩
  · show (fieldsAt RC r' g (srcSpectrum RC r' g).get l).1.get J I = (fieldsAt RC r g (srcSpectrum RC r g).get l).1.get J' I'
    rw [e1.1, e0.1, solver_repr 1 1.0 hs g hg, solver_repr 1 1.0 hs g hg]
    apply Finset.sum_congr rfl; intro a ha
    apply Finset.sum_congr rfl; intro b hb
    rw [cp a ha b hb, sh']
    have ph := phase a b
    calc _ = (modeCoef RC r g (srcSpectrum RC r g).get l a b).1 * shiftFactor RC r g a b *
          ((rootPow g.nxe (-(sfreq g.nlx b * cx)) * rootPow g.nye (-(sfreq g.nly a * cy)))
            * rootPow g.nxe (1 * sfreq g.nlx b * I) * rootPow g.nye (1 * sfreq g.nly a * J)) := by ring
      _ = _ := by rw [ph]; ring
  · show (fieldsAt RC r' g (srcSpectrum RC r' g).get l).2.get J I = (fieldsAt RC r g (srcSpectrum RC r g).get l).2.get J' I'
    rw [e1.2, e0.2, solver_repr 1 1.0 hs g hg, solver_repr 1 1.0 hs g hg]
    apply Finset.sum_congr rfl; intro a ha
    apply Finset.sum_congr rfl; intro b hb
    rw [cq a ha b hb, sh']
    have ph := phase a b
    calc _ = (modeCoef RC r g (srcSpectrum RC r g).get l a b).2 * shiftFactor RC r g a b *
          ((rootPow g.nxe (-(sfreq g.nlx b * cx)) * rootPow g.nye (-(sfreq g.nly a * cy)))
            * rootPow g.nxe (1 * sfreq g.nlx b * I) * rootPow g.nye (1 * sfreq g.nly a * J)) := by ring
      _ = _ := by rw [ph]; ring

/-- the hypothesis of `source_shift_field` for a periodic domain (no halo): the source itself is rolled -/
theorem padSrc_roll_of_periodic (r r' : SolveReq ℝ) (h : C04.SameButSource r r')
    (hpx : (geom RC r).px = 0) (hpy : (geom RC r).py = 0) (hnx : 0 < r.nx) (hny : 0 < r.ny) (cx cy : ℤ)
    (hq : ∀ j i, j < r.ny → i < r.nx →
      r'.q j i = r.q ((((j : ℤ) - cy) % r.ny).toNat) ((((i : ℤ) - cx) % r.nx).toNat)) :
    ∀ J I, J < (geom RC r).nye → I < (geom RC r).nxe →
      padSrc RC r' (geom RC r) J I =
        padSrc RC r (geom RC r) ((((J : ℤ) - cy) % (geom RC r).nye).toNat) ((((I : ℤ) - cx) % (geom RC r).nxe).toNat) := by
  intro J I hJ hI
  have e' : r' = { r with q := r'.q, bg := r'.bg } := h
  have n' : r'.ny = r.ny ∧ r'.nx = r.nx := by rw [e']; exact ⟨rfl, rfl⟩
  have hxe : (geom RC r).nxe = r.nx := by rw [C11.geom_nxe, hpx]; omega
  have hye : (geom RC r).nye = r.ny := by rw [C11.geom_nye, hpy]; omega
  rw [hxe] at hI ⊢
  rw [hye] at hJ ⊢
  have hJs : ((((J : ℤ) - cy) % r.ny).toNat) < r.ny := by
    have h1 := Int.emod_nonneg ((J : ℤ) - cy) (by exact_mod_cast hny.ne' : (r.ny : ℤ) ≠ 0)
    have h2 := Int.emod_lt_of_pos ((J : ℤ) - cy) (by exact_mod_cast hny : (0 : ℤ) < r.ny)
    omega
  have hIs : ((((I : ℤ) - cx) % r.nx).toNat) < r.nx := by
    have h1 := Int.emod_nonneg ((I : ℤ) - cx) (by exact_mod_cast hnx.ne' : (r.nx : ℤ) ≠ 0)
    have h2 := Int.emod_lt_of_pos ((I : ℤ) - cx) (by exact_mod_cast hnx : (0 : ℤ) < r.nx)
    omega
  unfold padSrc
  rw [n'.1, n'.2, hpx, hpy]
  rw [if_pos ⟨Nat.zero_le _, by omega, Nat.zero_le _, by omega⟩, if_pos ⟨Nat.zero_le _, by omega, Nat.zero_le _, by omega⟩]
  simp only [Nat.sub_zero]
  rw [hq J I hJ hI]

/-! ### non-vacuity: the hypotheses are met by a concrete request -/

example : ∃ r : SolveReq ℝ, GeomOK (geom RC r) ∧ r.footprint = true ∧ (geom RC r).dx ≠ 0 ∧ (geom RC r).dy ≠ 0 :=
  ⟨Witness.wreq true, Witness.wreq_geomOK true, rfl, by simp [geom, Witness.wreq, RC], by simp [geom, Witness.wreq, RC]⟩

example : ∃ r r' : SolveReq ℝ, C04.SameButSource r r' ∧ r'.bg = r.bg ∧ GeomOK (geom RC r) ∧ r.precision = .double ∧
    C02.DenOK r ∧ r.footprint = false ∧ (geom RC r).px = 0 ∧ (geom RC r).py = 0 ∧
    (∀ j i, j < r.ny → i < r.nx → r'.q j i = r.q ((((j : ℤ) - 1) % r.ny).toNat) ((((i : ℤ) - 2) % r.nx).toNat)) :=
  ⟨Witness.wreq false,
   { Witness.wreq false with q := fun j i => (Witness.wreq false).q ((((j : ℤ) - 1) % 4).toNat) ((((i : ℤ) - 2) % 5).toNat) },
   rfl, rfl, Witness.wreq_geomOK false, rfl, Witness.wreq_denOK false, rfl,
   by simp [geom, Witness.wreq, RC], by simp [geom, Witness.wreq, RC], fun _ _ _ _ => rfl⟩

end BLDFM.C06
