/-
  C19 — the Kormann–Meixner reference equals its published closed form:
  crosswind-integrated footprint × Gaussian crosswind distribution × cell area; non-negative,
  zero downwind, symmetric about the wind axis; wind-direction rotation = rotation of the
  coordinates about the receptor; the roughness-length estimate inverts the diabatic log law;
  the stability functions agree with pbl_model's copies.

  Not a theorem (partial): sum → regularised incomplete gamma as the grid is refined (Mathlib has
  no incomplete gamma function); dtype-independence is a static extract + oracle.
-/
import Proofs.Lemmas.Spec
import Proofs.Lemmas.Tactics
import Mathlib.Analysis.SpecialFunctions.Pow.Real
import Mathlib.Analysis.SpecialFunctions.Complex.Arg
import Mathlib.Analysis.SpecialFunctions.Trigonometric.Basic

open BLDFM BLDFM.Spec

namespace BLDFM.C19

/-- published crosswind-integrated footprint, Eq. (21): `f^y(x) = ξ^μ e^{-ξ/x} / (Γ(μ) x^{1+μ})` -/
noncomputable def fy (Xi mu Gmu x : ℝ) : ℝ := Xi ^ mu * Real.exp (-Xi / x) / (Gmu * x ^ (1 + mu))

/-- effective plume velocity, Eq. (18): `ū(x) = U Γ(μ)/Γ(1/r) · (κ r² x / U)^{m/r}` -/
noncomputable def ubar (U kappa r mr Gmu Ginvr x : ℝ) : ℝ := U * Gmu / Ginvr * (kappa * r ^ 2 * x / U) ^ mr

/-- Gaussian crosswind distribution, Eq. (9): `D_y = exp(-y²/(2σ²)) / (√(2π) σ)`, `σ = σ_v x / ū(x)` -/
noncomputable def Dy (sigma y : ℝ) : ℝ := Real.exp (-(y ^ 2) / (2 * sigma ^ 2)) / (Real.sqrt (2 * Real.pi) * sigma)

/-- the code's combined expression is, cell by cell, `res² · f^y(x) · D_y(x, y)` -/
theorem km_cell_eq_published (p : KmPar ℝ) (res x y sigmaV Ginvr : ℝ)
    (hx : 0 < x) (hU : 0 < p.U) (hk : 0 < p.kappa) (hr : 0 < p.r) (hs : 0 < sigmaV)
    (hG : 0 < p.gmm) (hGr : 0 < Ginvr)
    (hA : p.A = p.U / (Ginvr * sigmaV) * (p.kappa * p.r ^ 2 / p.U) ^ p.mr)
    (hnum : p.num = 1 / Real.sqrt (2 * Real.pi) * p.Xi ^ p.mu) :
    kmCell RC p res x y =
      res ^ 2 * fy p.Xi p.mu p.gmm x * Dy (sigmaV * x / ubar p.U p.kappa p.r p.mr p.gmm Ginvr x) y := by
  have hbase : 0 < p.kappa * p.r ^ 2 / p.U := by positivity
  have hub : ubar p.U p.kappa p.r p.mr p.gmm Ginvr x = p.gmm * p.A * x ^ p.mr * sigmaV := by
    simp only [ubar, hA]
    have : p.kappa * p.r ^ 2 * x / p.U = (p.kappa * p.r ^ 2 / p.U) * x := by ring
    rw [this, Real.mul_rpow hbase.le hx.le]
    field_simp
  have hpos : 0 < p.gmm * p.A * x ^ p.mr * sigmaV := by
    rw [hA]; positivity
  have hsig : sigmaV * x / ubar p.U p.kappa p.r p.mr p.gmm Ginvr x = 1 / (p.gmm * p.A * x ^ (p.mr - 1)) := by
    rw [hub, Real.rpow_sub_one hx.ne']
    have : x ^ p.mr ≠ 0 := (Real.rpow_pos_of_pos hx _).ne'
    have hA0 : p.A ≠ 0 := by rw [hA]; positivity
    field_simp
  have hpw : x ^ (p.mr - 2.0 - p.mu) = x ^ (p.mr - 1) / x ^ (1 + p.mu) := by
    rw [← Real.rpow_sub hx]; congr 1; norm_num; ring
  have h0 : (0.0 : ℝ) < x := by norm_num; exact hx
  simp only [kmCell, h0, if_true, fy, Dy, hsig, hnum]
  rc_norm
  rw [hpw]
  have hA0 : p.A ≠ 0 := by rw [hA]; positivity
  have hx1 : x ^ (p.mr - 1) ≠ 0 := (Real.rpow_pos_of_pos hx _).ne'
  have hx2 : x ^ (1 + p.mu) ≠ 0 := (Real.rpow_pos_of_pos hx _).ne'
  have hsq : Real.sqrt (2 * Real.pi) ≠ 0 := by positivity
  have hexp : Real.exp (-p.Xi / x - 0.5 * (p.gmm * y * p.A * x ^ (p.mr - 1.0)) ^ 2)
      = Real.exp (-p.Xi / x) * Real.exp (-(y ^ 2) / (2 * (1 / (p.gmm * p.A * x ^ (p.mr - 1))) ^ 2)) := by
    rw [← Real.exp_add]; congr 1
    have : (p.mr - 1.0 : ℝ) = p.mr - 1 := by norm_num
    rw [this]
    field_simp
    ring
  rw [hexp]
  field_simp

/-- non-negative for non-negative constants -/
theorem km_nonneg (p : KmPar ℝ) (res x y : ℝ) (hnum : 0 ≤ p.num) (hA : 0 ≤ p.A) : 0 ≤ kmCell RC p res x y := by
  simp only [kmCell]
  split
  · rename_i hx
    have hx' : 0 < x := by norm_num at hx; exact hx
    rc_norm
    have := Real.rpow_pos_of_pos hx' (p.mr - 2.0 - p.mu)
    have := Real.exp_pos (-p.Xi / x - 0.5 * (p.gmm * y * p.A * x ^ (p.mr - 1.0)) ^ 2)
    positivity
  · norm_num

/-- zero in downwind (and receptor-line) cells -/
theorem km_zero_downwind (p : KmPar ℝ) (res x y : ℝ) (hx : x ≤ 0) : kmCell RC p res x y = 0 := by
  have : ¬ (0.0 : ℝ) < x := by norm_num; exact hx
  simp only [kmCell, this, if_false]
  norm_num

/-- symmetric about the wind axis -/
theorem km_symmetric_y (p : KmPar ℝ) (res x y : ℝ) : kmCell RC p res x (-y) = kmCell RC p res x y := by
  simp only [kmCell]
  rc_norm
  have h : (p.gmm * -y * p.A * x ^ (p.mr - 1.0)) ^ 2 = (p.gmm * y * p.A * x ^ (p.mr - 1.0)) ^ 2 := by
    rw [show p.gmm * -y * p.A * x ^ (p.mr - 1.0) = -(p.gmm * y * p.A * x ^ (p.mr - 1.0)) by
      simp only [mul_neg, neg_mul], neg_sq]
  rw [h]

/-- physically impossible `U < 0`: the whole footprint is empty -/
theorem km_negative_U_empty (zm z0 ws ustar L sigmaV res gx gy mx my : ℝ) (wd : Option ℝ)
    (hU : (kmPar RC zm z0 ws ustar L sigmaV).U < 0) :
    kmFootprint RC zm z0 ws ustar L sigmaV res gx gy mx my wd = 0 := by
  have : (kmPar RC zm z0 ws ustar L sigmaV).U < 0.0 := by norm_num; exact hU
  simp only [kmFootprint, this, if_true]
  norm_num

/-- rotating the wind direction rotates the coordinates about the receptor: with a wind
direction the along/cross-wind coordinates are the rotation of `(gx - mx, gy - my)` by
`wd·π/180 − π/2`, for every angle -/
theorem km_rotation (gx gy mx my wd : ℝ) :
    let a := wd * (Real.pi / 180) - Real.pi / 2
    let x := gx - mx
    let y := gy - my
    kmCoords RC gx gy mx my (some wd) = (x * Real.cos a - y * Real.sin a, x * Real.sin a + y * Real.cos a) := by
  intro a x y
  simp only [kmCoords]
  rc_norm
  rw [RC_arctan2]
  set z : ℂ := ⟨gx - mx, gy - my⟩ with hz
  have hnorm : Real.sqrt ((gx - mx) ^ 2 + (gy - my) ^ 2) = ‖z‖ := by
    rw [Complex.norm_def, Complex.normSq_mk]
    congr 1; ring
  have hang : z.arg + wd * (Real.pi / 180.0) - Real.pi * 0.5 = z.arg + a := by
    simp only [a]; norm_num; ring
  rw [hnorm, hang, Real.cos_add, Real.sin_add]
  by_cases h0 : z = 0
  · have hx0 : gx - mx = 0 := by have := congrArg Complex.re h0; simpa [hz] using this
    have hy0 : gy - my = 0 := by have := congrArg Complex.im h0; simpa [hz] using this
    simp [h0, x, y, hx0, hy0]
  · have hc := Complex.cos_arg h0
    have hs := Complex.sin_arg z
    have hn : ‖z‖ ≠ 0 := norm_ne_zero_iff.mpr h0
    have hre : z.re = gx - mx := rfl
    have him : z.im = gy - my := rfl
    rw [hc, hs, hre, him]
    refine Prod.ext ?_ ?_ <;> (simp only [x, y]; field_simp; try ring)

/-- without a wind direction the grid is already aligned: only the shift to the receptor -/
theorem km_no_rotation (gx gy mx my : ℝ) : kmCoords RC gx gy mx my none = (gx - mx, gy - my) := rfl

/-- whole multiples of 90°: the coordinate rotation is the exact cell permutation
`wd = 90 ↦ (x, y)`, `180 ↦ (y, -x)`, `270 ↦ (-x, -y)`, `0/360 ↦ (-y, x)` -/
theorem km_rotation_cardinals (gx gy mx my : ℝ) :
    let x := gx - mx
    let y := gy - my
    kmCoords RC gx gy mx my (some 90) = (x, y) ∧
    kmCoords RC gx gy mx my (some 180) = (-y, x) ∧
    kmCoords RC gx gy mx my (some 270) = (-x, -y) ∧
    kmCoords RC gx gy mx my (some 0) = (y, -x) := by
  intro x y
  have e90 : (90 : ℝ) * (Real.pi / 180) - Real.pi / 2 = 0 := by ring
  have e180 : (180 : ℝ) * (Real.pi / 180) - Real.pi / 2 = Real.pi / 2 := by ring
  have e270 : (270 : ℝ) * (Real.pi / 180) - Real.pi / 2 = Real.pi := by ring
  have e0 : (0 : ℝ) * (Real.pi / 180) - Real.pi / 2 = -(Real.pi / 2) := by ring
  refine ⟨?_, ?_, ?_, ?_⟩
  · rw [km_rotation]; simp only [e90]; simp [x, y]
  · rw [km_rotation]; simp only [e180]; simp [x, y]
  · rw [km_rotation]; simp only [e270]; simp [x, y]
  · rw [km_rotation]; simp only [e0]; simp [x, y]

/-- the power-law parameters are the paper's: `r = 2 + m − n`, `μ = (1 + m)/r`,
`ξ = U zm^r/(r² κ)`, `m = u* φ_m/(k ws)`, `κ = k u* zm/(φ_c zm^n)`, `U = u*(ln(zm/z0) + ψ_m)/(k zm^m)` -/
theorem km_params (zm z0 ws ustar L sigmaV : ℝ) :
    let p := kmPar RC zm z0 ws ustar L sigmaV
    p.r = 2 + p.m - p.n ∧ p.mu = (1 + p.m) / p.r ∧ p.Xi = p.U * zm ^ p.r / (p.r ^ 2 * p.kappa) ∧
    p.m = ustar * kmPhiM RC zm L / (0.4 * ws) ∧ p.kappa = 0.4 * zm * ustar / (kmPhiC RC zm L * zm ^ p.n) ∧
    p.U = ustar * (Real.log (zm / z0) + kmPsiM RC zm L) / (0.4 * zm ^ p.m) ∧ p.mr = p.m / p.r ∧
    p.gmm = Real.Gamma p.mu := by
  intro p
  simp only [p, kmPar, kmM, vonKarman]
  rc_norm
  refine ⟨?_, ?_, ?_, ?_, ?_, ?_, ?_, ?_⟩ <;> norm_num

/-- the raw roughness length inverts the diabatic log law: `ws = (u*/k)(ln(zm/z0) + ψ_m)` -/
theorem z0_inverts_loglaw (zm ws ustar L : ℝ) (hzm : 0 < zm) (hus : ustar ≠ 0) :
    ustar / 0.4 * (Real.log (zm / kmZ0 RC zm ws ustar L) + kmPsiM RC zm L) = ws := by
  simp only [kmZ0, vonKarman]
  rc_norm
  rw [show zm / (zm * Real.exp (kmPsiM RC zm L - 0.4 * ws / ustar))
      = (Real.exp (kmPsiM RC zm L - 0.4 * ws / ustar))⁻¹ by field_simp, Real.log_inv, Real.log_exp]
  field_simp
  ring

/-- the stability functions of the reference model are those of the closure module
(`psi(zm/L) = ψ_m(zm, L)`, `phi(zm/L) = φ_c(zm, L)`) for `zm > 0`, `L ≠ 0` -/
theorem psi_eq_km_psiM (zm L : ℝ) (hzm : 0 < zm) (hL : L ≠ 0) : psi RC (zm / L) = kmPsiM RC zm L := by
  simp only [psi, kmPsiM, psiUnstable, kmPsiUnstable]
  rcases lt_or_gt_of_ne hL with h | h
  · have h1 : ¬ (0.0 : ℝ) < zm / L := by
      norm_num; exact (div_neg_of_pos_of_neg hzm h).le
    have h2 : L < (0.0 : ℝ) := by norm_num; exact h
    simp only [h1, h2, if_true, if_false]
    have : (1.0 : ℝ) - 16.0 * (zm / L) = 1.0 - 16.0 * zm / L := by norm_num; ring
    rw [this]
    norm_num
    ring
  · have h1 : (0.0 : ℝ) < zm / L := by norm_num; exact div_pos hzm h
    have h2 : ¬ L < (0.0 : ℝ) := by norm_num; exact h.le
    have h3 : L ≥ (0.0 : ℝ) := by norm_num; exact h.le
    simp only [h1, h2, h3, if_true, if_false]
    norm_num
    ring

theorem phi_eq_km_phiC (zm L : ℝ) (hzm : 0 < zm) (hL : L ≠ 0) : phi RC (zm / L) = kmPhiC RC zm L := by
  simp only [phi, kmPhiC]
  rcases lt_or_gt_of_ne hL with h | h
  · have h1 : ¬ (0.0 : ℝ) < zm / L := by
      norm_num; exact (div_neg_of_pos_of_neg hzm h).le
    have h2 : L < (0.0 : ℝ) := by norm_num; exact h
    simp only [h1, h2, if_true, if_false]
    have : (1.0 : ℝ) - 16.0 * (zm / L) = 1.0 - 16.0 * zm / L := by norm_num; ring
    rw [this]
  · have h1 : (0.0 : ℝ) < zm / L := by norm_num; exact div_pos hzm h
    have h2 : ¬ L < (0.0 : ℝ) := by norm_num; exact h.le
    have h3 : L ≥ (0.0 : ℝ) := by norm_num; exact h.le
    simp only [h1, h2, h3, if_true, if_false]
    norm_num
    ring

/-- the smoothing window of `estimateZ0` is the CIRCULAR window `[kk − h, kk + 1 + h)` modulo 360: the
wrap thresholds (90 / 270) and the inclusive lower / exclusive upper edge select exactly the observations
whose direction, shifted by a whole number of turns, falls in the window — for every bin `kk < 360`, every
direction in `[0, 360)` and every half width `0 ≤ h ≤ 89` -/
theorem z0_window_circular (kk : ℕ) (hkk : kk < 360) (h wd : ℝ) (hh0 : 0 ≤ h) (hh : h ≤ 89)
    (hw0 : 0 ≤ wd) (hw : wd < 360) :
    z0InWindow RC kk h wd = true ↔
      ∃ m : ℤ, (kk : ℝ) - h ≤ wd + 360 * m ∧ wd + 360 * m < (kk : ℝ) + 1 + h := by
  have hk : ((kk : ℕ) : ℝ) < 360 := by exact_mod_cast hkk
  have hk0 : (0 : ℝ) ≤ ((kk : ℕ) : ℝ) := Nat.cast_nonneg kk
  simp only [z0InWindow, z0Wrap, Bool.and_eq_true, decide_eq_true_eq]
  rc_norm
  norm_num
  by_cases c1 : kk < 90
  · have hk1 : ((kk : ℕ) : ℝ) ≤ 89 := by exact_mod_cast (show kk ≤ 89 by omega)
    simp only [c1, if_true]
    by_cases c2 : (270 : ℝ) < wd
    · simp only [c2, if_true]
      constructor
      · rintro ⟨a, b⟩; exact ⟨-1, by push_cast; linarith, by push_cast; linarith⟩
      · rintro ⟨m, a, b⟩
        have m1 : (m : ℝ) < 0 := by nlinarith
        have m2 : (-2 : ℝ) < m := by nlinarith
        have : m = -1 := by
          have a1 : m < 0 := by exact_mod_cast m1
          have a2 : -2 < m := by exact_mod_cast m2
          omega
        subst this
        constructor <;> (push_cast at a b; linarith)
    · simp only [c2, if_false]
      constructor
      · rintro ⟨a, b⟩; exact ⟨0, by simpa using a, by simpa using b⟩
      · rintro ⟨m, a, b⟩
        have m1 : (m : ℝ) < 1 := by nlinarith
        have m2 : (-1 : ℝ) < m := by nlinarith
        have : m = 0 := by
          have a1 : m < 1 := by exact_mod_cast m1
          have a2 : -1 < m := by exact_mod_cast m2
          omega
        subst this
        constructor <;> (push_cast at a b; linarith)
  · simp only [c1, if_false]
    by_cases c3 : 270 < kk
    · have hk3 : (271 : ℝ) ≤ ((kk : ℕ) : ℝ) := by exact_mod_cast (show 271 ≤ kk by omega)
      simp only [c3, if_true]
      by_cases c4 : wd < 90
      · simp only [c4, if_true]
        constructor
        · rintro ⟨a, b⟩; exact ⟨1, by push_cast; linarith, by push_cast; linarith⟩
        · rintro ⟨m, a, b⟩
          have m1 : (m : ℝ) < 2 := by nlinarith
          have m2 : (0 : ℝ) < m := by nlinarith
          have : m = 1 := by
            have a1 : m < 2 := by exact_mod_cast m1
            have a2 : 0 < m := by exact_mod_cast m2
            omega
          subst this
          constructor <;> (push_cast at a b; linarith)
      · simp only [c4, if_false]
        constructor
        · rintro ⟨a, b⟩; exact ⟨0, by simpa using a, by simpa using b⟩
        · rintro ⟨m, a, b⟩
          have m1 : (m : ℝ) < 1 := by nlinarith
          have m2 : (-1 : ℝ) < m := by nlinarith
          have : m = 0 := by
            have a1 : m < 1 := by exact_mod_cast m1
            have a2 : -1 < m := by exact_mod_cast m2
            omega
          subst this
          constructor <;> (push_cast at a b; linarith)
    · have hk4 : (90 : ℝ) ≤ ((kk : ℕ) : ℝ) := by exact_mod_cast (show 90 ≤ kk by omega)
      have hk5 : ((kk : ℕ) : ℝ) ≤ 270 := by exact_mod_cast (show kk ≤ 270 by omega)
      simp only [c3, if_false]
      constructor
      · rintro ⟨a, b⟩; exact ⟨0, by simpa using a, by simpa using b⟩
      · rintro ⟨m, a, b⟩
        have m1 : (m : ℝ) < 1 := by nlinarith
        have m2 : (-1 : ℝ) < m := by nlinarith
        have : m = 0 := by
          have a1 : m < 1 := by exact_mod_cast m1
          have a2 : -1 < m := by exact_mod_cast m2
          omega
        subst this
        constructor <;> (push_cast at a b; linarith)

/-- hence a common whole-degree rotation of all wind directions rotates bins and windows together: an
observation is in the window of bin `kk` iff the rotated observation is in the window of the rotated bin -/
theorem z0_window_rotation (kk kk' : ℕ) (hkk : kk < 360) (hkk' : kk' < 360) (h wd wd' : ℝ) (hh0 : 0 ≤ h) (hh : h ≤ 89)
    (hw0 : 0 ≤ wd) (hw : wd < 360) (hw0' : 0 ≤ wd') (hw' : wd' < 360) (rho : ℤ) (mk mw : ℤ)
    (hk : (kk' : ℝ) = kk + rho + 360 * mk) (hwd : wd' = wd + rho + 360 * mw) :
    z0InWindow RC kk' h wd' = z0InWindow RC kk h wd := by
  have e : (z0InWindow RC kk' h wd' = true) ↔ (z0InWindow RC kk h wd = true) := by
    rw [z0_window_circular kk' hkk' h wd' hh0 hh hw0' hw', z0_window_circular kk hkk h wd hh0 hh hw0 hw]
    constructor
    · rintro ⟨m, a, b⟩
      refine ⟨m + mw - mk, ?_, ?_⟩ <;> (push_cast; rw [hk, hwd] at *; linarith)
    · rintro ⟨m, a, b⟩
      refine ⟨m - mw + mk, ?_, ?_⟩ <;> (push_cast; rw [hk, hwd]; linarith)
  cases h1 : z0InWindow RC kk' h wd' <;> cases h2 : z0InWindow RC kk h wd <;> simp_all

end BLDFM.C19
