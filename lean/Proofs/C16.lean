/-
  C16 — met time series: one step per list entry, scalars broadcast, mismatches rejected.
-/
import BLDFM
import Mathlib.Tactic.Ring
import Mathlib.Tactic.Linarith

open BLDFM BLDFM.MetCfg

namespace BLDFM.C16

/-- `n` is the common length of the list-valued fields (one if there is none) -/
def CommonLen (m : MetCfg) (n : ℕ) : Prop :=
  (∀ v ∈ m.fields, ∀ xs, v = MetVal.list xs → xs.length = n) ∧
  ((∀ v ∈ m.fields, ∀ xs, v ≠ MetVal.list xs) → n = 1)

theorem listLen_cases (v : MetVal) :
    (v.listLen? = none ∧ ∀ xs, v ≠ MetVal.list xs) ∨ ∃ xs, v = MetVal.list xs ∧ v.listLen? = some xs.length := by
  cases v with
  | none => left; exact ⟨rfl, fun _ h => by cases h⟩
  | scalar x => left; exact ⟨rfl, fun _ h => by cases h⟩
  | list xs => right; exact ⟨xs, rfl, rfl⟩

/-- the number of time steps is the common length of the list-valued fields, or one -/
theorem nTimesteps_spec (m : MetCfg) (n : ℕ) (h : CommonLen m n) : m.nTimesteps = n := by
  obtain ⟨hl, h1⟩ := h
  simp only [fields, List.mem_cons, List.not_mem_nil, or_false, forall_eq_or_imp, forall_eq] at hl h1
  obtain ⟨a1, a2, a3, a4⟩ := hl
  simp only [nTimesteps, listLens, fields]
  rcases listLen_cases m.ustar with ⟨e1, n1⟩ | ⟨x1, e1, l1⟩ <;>
  rcases listLen_cases m.mol with ⟨e2, n2⟩ | ⟨x2, e2, l2⟩ <;>
  rcases listLen_cases m.windSpeed with ⟨e3, n3⟩ | ⟨x3, e3, l3⟩ <;>
  rcases listLen_cases m.windDir with ⟨e4, n4⟩ | ⟨x4, e4, l4⟩ <;>
  simp_all [List.filterMap] <;>
  first
  | exact (h1 ⟨n1, n2, n3, n4⟩).symm
  | exact a1 _ e1
  | exact a2 _ e2
  | exact a3 _ e3
  | exact a4 _ e4
  | skip

/-- a forcing is accepted exactly when it provides a friction velocity or a roughness length,
all list-valued fields share one length `n` (`n = 1` if none is a list), and the timestamps,
if given, have that length -/
theorem validate_ok_iff (m : MetCfg) :
    m.validate = true ↔
      (m.ustar ≠ MetVal.none ∨ m.z0 ≠ none) ∧
      ∃ n, CommonLen m n ∧ ∀ t, m.timestamps = some t → t.length = n := by
  simp only [validate, CommonLen, fields, listLens, List.mem_cons, List.not_mem_nil, or_false,
    forall_eq_or_imp, forall_eq]
  rcases listLen_cases m.ustar with ⟨e1, n1⟩ | ⟨x1, e1, l1⟩ <;>
  rcases listLen_cases m.mol with ⟨e2, n2⟩ | ⟨x2, e2, l2⟩ <;>
  rcases listLen_cases m.windSpeed with ⟨e3, n3⟩ | ⟨x3, e3, l3⟩ <;>
  rcases listLen_cases m.windDir with ⟨e4, n4⟩ | ⟨x4, e4, l4⟩ <;>
  cases hz : m.z0 <;> cases ht : m.timestamps <;>
  simp_all [List.filterMap, allEq] <;>
  grind

/-- step `i` takes the `i`-th entry of every list and the value of every scalar field, the
`i`-th timestamp or else the index `i`; the roughness length is passed through -/
theorem getStep_spec (m : MetCfg) (n i : ℕ) (h : CommonLen m n) (hi : i < n)
    (hts : ∀ t, m.timestamps = some t → t.length = n) :
    ∃ s, m.getStep i = .ok s ∧
      (∀ xs, m.ustar = .list xs → s.ustar = xs[i]?) ∧ (∀ x, m.ustar = .scalar x → s.ustar = some x) ∧
      (∀ xs, m.mol = .list xs → s.mol = xs[i]?) ∧ (∀ x, m.mol = .scalar x → s.mol = some x) ∧
      (∀ xs, m.windSpeed = .list xs → s.windSpeed = xs[i]?) ∧ (∀ x, m.windSpeed = .scalar x → s.windSpeed = some x) ∧
      (∀ xs, m.windDir = .list xs → s.windDir = xs[i]?) ∧ (∀ x, m.windDir = .scalar x → s.windDir = some x) ∧
      s.z0 = m.z0 ∧
      (∀ t, m.timestamps = some t → ∃ x, t[i]? = some x ∧ s.timestamp = Sum.inl x) ∧
      (m.timestamps = none → s.timestamp = Sum.inr i) := by
  obtain ⟨hl, _⟩ := h
  simp only [fields, List.mem_cons, List.not_mem_nil, or_false, forall_eq_or_imp, forall_eq] at hl
  obtain ⟨a1, a2, a3, a4⟩ := hl
  have gv : ∀ v : MetVal, (∀ xs, v = .list xs → xs.length = n) →
      ∃ r, getVal v i = .ok r ∧ (∀ xs, v = .list xs → r = xs[i]?) ∧ (∀ x, v = .scalar x → r = some x) := by
    intro v hv
    cases v with
    | none => exact ⟨none, rfl, (fun _ h => by cases h), (fun _ h => by cases h)⟩
    | scalar x => exact ⟨some x, rfl, (fun _ h => by cases h), (fun y h => by cases h; rfl)⟩
    | list xs =>
      have hlen : i < xs.length := by rw [hv xs rfl]; exact hi
      refine ⟨some xs[i], ?_, ?_, (fun _ h => by cases h)⟩
      · simp [getVal, List.getElem?_eq_getElem hlen]
      · intro ys h; cases h; simp [List.getElem?_eq_getElem hlen]
  obtain ⟨r1, g1, p1, q1⟩ := gv m.ustar a1
  obtain ⟨r2, g2, p2, q2⟩ := gv m.mol a2
  obtain ⟨r3, g3, p3, q3⟩ := gv m.windSpeed a3
  obtain ⟨r4, g4, p4, q4⟩ := gv m.windDir a4
  cases ht : m.timestamps with
  | none =>
    refine ⟨⟨r1, r2, r3, r4, m.z0, Sum.inr i⟩, ?_, p1, q1, p2, q2, p3, q3, p4, q4, rfl, ?_, fun _ => rfl⟩
    · simp [getStep, g1, g2, g3, g4, ht, bind, Except.bind, pure, Except.pure]
    · intro t h; cases h
  | some t =>
    have hlen : i < t.length := by rw [hts t ht]; exact hi
    refine ⟨⟨r1, r2, r3, r4, m.z0, Sum.inl t[i]⟩, ?_, p1, q1, p2, q2, p3, q3, p4, q4, rfl, ?_, fun h => by cases h⟩
    · simp [getStep, g1, g2, g3, g4, ht, bind, Except.bind, pure, Except.pure, List.getElem?_eq_getElem hlen]
    · intro t' h; cases h
      exact ⟨t[i], List.getElem?_eq_getElem hlen, rfl⟩

/-- the roughness length is part of a step iff it is configured (the code omits the key otherwise) -/
theorem z0_present_iff (m : MetCfg) (i : ℕ) (s : MetStep) (h : m.getStep i = .ok s) :
    s.z0.isSome ↔ m.z0.isSome := by
  simp only [getStep, bind, Except.bind, pure, Except.pure] at h
  repeat' (split at h)
  all_goals (try cases h)
  all_goals rfl

/-! non-vacuity: a series that varies only the Monin-Obukhov length and the wind direction
(the pattern the pinned tree counted as ONE step) has two steps and is accepted -/
example :
    let m : MetCfg := ⟨.scalar 3, .list [-100, -50], .scalar 5, .list [270, 180], none, none⟩
    m.validate = true ∧ m.nTimesteps = 2 ∧ CommonLen m 2 := by
  refine ⟨by decide, by decide, ?_, ?_⟩
  · intro v hv xs hx
    simp [fields] at hv
    rcases hv with h | h | h | h <;> subst h <;> cases hx <;> rfl
  · intro h
    exfalso
    exact h (.list [-100, -50]) (by simp [fields]) [-100, -50] rfl

end BLDFM.C16
