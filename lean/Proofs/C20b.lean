/-
  C20 (defining clause with the tie freedom made explicit) — for a non-negative footprint `f` and ANY sorting
  permutation `σ` of the cells by decreasing `g`, the rescaled value of a cell lies between the sum of `f` over the
  cells with STRICTLY larger `g` and the sum over the OTHER cells with larger-or-equal `g`:
      Σ_{g c' > g c} f c'  ≤  out c  ≤  Σ_{c' ≠ c, g c' ≥ g c} f c'.
  Without ties both bounds coincide: `out c` IS the sum of `f` over the cells whose `g` is larger.
-/
import Proofs.Lemmas.Spec
import Proofs.Lemmas.Tactics
import Proofs.C20

open BLDFM BLDFM.Spec

namespace BLDFM.C20

theorem getD_eq (σ : List ℕ) (l : ℕ) (hl : l < σ.length) : σ.getD l 0 = σ[l] := by simp [List.getD, hl]

/-- two-sided tie bound -/
theorem rescaled_tie_bounds (f g : ℕ → ℝ) (hf : ∀ c, 0 ≤ f c) (σ : List ℕ) (hnd : σ.Nodup)
    (hsorted : ∀ a b, ∀ hab : a ≤ b, ∀ hb : b < σ.length, g (σ[b]) ≤ g (σ[a]'(by omega)))
    (k : ℕ) (hk : k < σ.length) :
    (∑ l ∈ (Finset.range σ.length).filter (fun l => g (σ[k]) < g (σ.getD l 0)), f (σ.getD l 0)) ≤ rescaled f σ (σ[k]) ∧
    rescaled f σ (σ[k]) ≤
      ∑ l ∈ (Finset.range σ.length).filter (fun l => l ≠ k ∧ g (σ[k]) ≤ g (σ.getD l 0)), f (σ.getD l 0) := by
  rw [rescaled_eq_prefix_sum f σ hnd k hk]
  constructor
  · apply Finset.sum_le_sum_of_subset_of_nonneg
    · intro l hl
      simp only [Finset.mem_filter, Finset.mem_range] at hl ⊢
      by_contra hcon
      have hkl : k ≤ l := by omega
      have := hsorted k l hkl hl.1
      rw [getD_eq σ l hl.1] at hl
      linarith [hl.2]
    · intro l _ _; exact hf _
  · apply Finset.sum_le_sum_of_subset_of_nonneg
    · intro l hl
      simp only [Finset.mem_filter, Finset.mem_range] at hl ⊢
      refine ⟨by omega, by omega, ?_⟩
      rw [getD_eq σ l (by omega)]
      exact hsorted l k (by omega) hk
    · intro l _ _; exact hf _

/-- without ties at the cell the two bounds coincide: the rescaled value IS the sum of `f` over the cells whose `g`
is strictly larger -/
theorem rescaled_eq_strict_sum (f g : ℕ → ℝ) (hf : ∀ c, 0 ≤ f c) (σ : List ℕ) (hnd : σ.Nodup)
    (hsorted : ∀ a b, ∀ hab : a ≤ b, ∀ hb : b < σ.length, g (σ[b]) ≤ g (σ[a]'(by omega)))
    (k : ℕ) (hk : k < σ.length) (hnotie : ∀ l, ∀ hl : l < σ.length, l ≠ k → g (σ[l]) ≠ g (σ[k])) :
    rescaled f σ (σ[k]) = ∑ l ∈ (Finset.range σ.length).filter (fun l => g (σ[k]) < g (σ.getD l 0)), f (σ.getD l 0) := by
  obtain ⟨lo, hi⟩ := rescaled_tie_bounds f g hf σ hnd hsorted k hk
  apply le_antisymm _ lo
  refine hi.trans (le_of_eq ?_)
  apply Finset.sum_congr _ (fun _ _ => rfl)
  ext l
  simp only [Finset.mem_filter, Finset.mem_range]
  constructor
  · rintro ⟨hl, hne, hle⟩
    refine ⟨hl, lt_of_le_of_ne hle ?_⟩
    rw [getD_eq σ l hl]
    exact fun h => hnotie l hl hne h.symm
  · rintro ⟨hl, hlt⟩
    refine ⟨hl, ?_, hlt.le⟩
    intro h; subst h
    rw [getD_eq σ l hl] at hlt
    exact lt_irrefl _ hlt

/-! non-vacuity: three cells, `g = (3, 1, 2)`, order `[0, 2, 1]` -/
example : ([0, 2, 1] : List ℕ).Nodup ∧
    (∀ a b, ∀ hab : a ≤ b, ∀ hb : b < ([0, 2, 1] : List ℕ).length,
      (fun c : ℕ => if c = 0 then (3 : ℝ) else if c = 1 then 1 else 2) (([0, 2, 1] : List ℕ)[b]) ≤
      (fun c : ℕ => if c = 0 then (3 : ℝ) else if c = 1 then 1 else 2) (([0, 2, 1] : List ℕ)[a]'(by omega))) := by
  refine ⟨by decide, ?_⟩
  intro a b hab hb
  simp only [List.length_cons, List.length_nil] at hb
  interval_cases b <;> interval_cases a <;> simp <;> norm_num

end BLDFM.C20
