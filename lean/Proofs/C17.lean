/-
  C17 — tower geolocation: local metres and lat/lon are mutual inverses, well oriented.
-/
import Proofs.Lemmas.Spec
import Proofs.Lemmas.Tactics
import Mathlib.Analysis.SpecialFunctions.Trigonometric.Basic

open BLDFM BLDFM.Spec

namespace BLDFM.C17

theorem e180 : (180.0 : ℝ) = 180 := by norm_num

/-- lat/lon → local metres → lat/lon is the identity (non-polar reference) -/
theorem xy_latlon_left_inv (lat lon refLat refLon : ℝ)
    (hc : Real.cos (refLat * (Real.pi / 180)) ≠ 0) :
    let p := latlonToXy RC lat lon refLat refLon
    xyToLatlon RC p.1 p.2 refLat refLon = (lat, lon) := by
  have hpi := Real.pi_pos.ne'
  simp only [latlonToXy, xyToLatlon, deg2rad, rad2deg, earthRadius]
  rc_norm
  simp only [e180]
  generalize Real.cos (refLat * (Real.pi / 180)) = c at hc ⊢
  refine Prod.ext ?_ ?_ <;> (simp only []; norm_num; field_simp; try ring)

/-- local metres → lat/lon → local metres is the identity -/
theorem xy_latlon_right_inv (x y refLat refLon : ℝ)
    (hc : Real.cos (refLat * (Real.pi / 180)) ≠ 0) :
    let p := xyToLatlon RC x y refLat refLon
    latlonToXy RC p.1 p.2 refLat refLon = (x, y) := by
  have hpi := Real.pi_pos.ne'
  simp only [latlonToXy, xyToLatlon, deg2rad, rad2deg, earthRadius]
  rc_norm
  simp only [e180]
  generalize Real.cos (refLat * (Real.pi / 180)) = c at hc ⊢
  refine Prod.ext ?_ ?_ <;> (simp only []; norm_num; field_simp; try ring)

/-- the reference origin maps to (0, 0) -/
theorem origin_maps_to_zero (refLat refLon : ℝ) :
    latlonToXy RC refLat refLon refLat refLon = (0, 0) := by
  simp [latlonToXy, deg2rad, earthRadius]

/-- x grows eastward: strictly increasing in longitude for |ref latitude| < 90° -/
theorem x_strictMono_lon (lat refLat refLon : ℝ) (h1 : -90 < refLat) (h2 : refLat < 90) :
    StrictMono (fun lon => (latlonToXy RC lat lon refLat refLon).1) := by
  intro a b hab
  simp only [latlonToXy, deg2rad, earthRadius]
  rc_norm
  have hcos : 0 < Real.cos (refLat * (Real.pi / 180.0)) := by
    apply Real.cos_pos_of_mem_Ioo
    have := Real.pi_pos
    constructor <;> norm_num <;> nlinarith
  have hk : (0 : ℝ) < Real.pi / 180.0 := by have := Real.pi_pos; positivity
  have : a * (Real.pi / 180.0) - refLon * (Real.pi / 180.0) < b * (Real.pi / 180.0) - refLon * (Real.pi / 180.0) := by
    nlinarith
  have hR : (0 : ℝ) < 6371000.0 := by norm_num
  nlinarith [mul_pos hR hcos]

/-- y grows northward: strictly increasing in latitude -/
theorem y_strictMono_lat (lon refLat refLon : ℝ) :
    StrictMono (fun lat => (latlonToXy RC lat lon refLat refLon).2) := by
  intro a b hab
  simp only [latlonToXy, deg2rad, earthRadius]
  rc_norm
  have hk : (0 : ℝ) < Real.pi / 180.0 := by have := Real.pi_pos; positivity
  have hR : (0 : ℝ) < 6371000.0 := by norm_num
  nlinarith

/-- along a meridian the local distance is exactly the great-circle arc length `R·Δφ` -/
theorem meridian_distance_exact (lat refLat refLon : ℝ) :
    (latlonToXy RC lat refLon refLat refLon).1 = 0 ∧
    (latlonToXy RC lat refLon refLat refLon).2 = 6371000 * ((lat - refLat) * (Real.pi / 180)) := by
  simp only [latlonToXy, deg2rad, earthRadius]
  rc_norm
  constructor <;> (norm_num; try ring)

/-! non-vacuity -/
example : Real.cos ((0 : ℝ) * (Real.pi / 180)) ≠ 0 := by simp

end BLDFM.C17
