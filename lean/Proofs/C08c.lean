/-
  C08 — cardinal wind directions: the footprint is mirror-symmetric about the wind axis through the tower.

  For `wind_dir ∈ {0, 180}` the decomposition gives `u = 0` exactly (`wind_cardinals`), and the profiles keep the direction
  (C09), so `u ≡ 0` at every node; the x-mirror of the request is then the request itself when the tower sits on the middle
  column, and `C07.mirrorX_footprint_field` says that the footprint (and the concentration Green's function) is symmetric
  about that column on the padded domain: no cross-wind offset at all.  (The same with x and y exchanged for 90 / 270 by the
  axis-swap theorem.)  Odd retained-mode count, so that every Fourier component has its mirror partner.
-/
import Proofs.C07g

open BLDFM BLDFM.Spec BLDFM.Index

namespace BLDFM.C08

/-- a north/south wind, the tower on the middle column of an odd-width grid: both footprint-mode fields are symmetric about
the tower's column, `field[J, I] = field[J, Nx - 1 - I]` -/
theorem cardinal_footprint_symmetric (r : SolveReq ℝ) (im jm : ℕ) (hu : ∀ i, r.P.u i = 0) (hmid : 2 * im + 1 = r.nx)
    (hg : GeomOK (geom RC r)) (hp : r.precision = .double) (hfp : r.footprint = true)
    (hxm : r.xm = im * (geom RC r).dx) (hym : r.ym = jm * (geom RC r).dy)
    (hdx : (geom RC r).dx ≠ 0) (hdy : (geom RC r).dy ≠ 0) (hodd : (geom RC r).nlx % 2 = 1)
    (l J I : ℕ) (hI : I < (geom RC r).nxe) :
    (fieldsAt RC r (geom RC r) (srcSpectrum RC r (geom RC r)).get l).1.get J I
      = (fieldsAt RC r (geom RC r) (srcSpectrum RC r (geom RC r)).get l).1.get J ((geom RC r).nxe - 1 - I) ∧
    (fieldsAt RC r (geom RC r) (srcSpectrum RC r (geom RC r)).get l).2.get J I
      = (fieldsAt RC r (geom RC r) (srcSpectrum RC r (geom RC r)).get l).2.get J ((geom RC r).nxe - 1 - I) := by
  have hP : C07.mirrorX r.P = r.P := by
    unfold C07.mirrorX
    have : (fun i => -r.P.u i) = r.P.u := by funext i; rw [hu i]; simp
    rw [this]
  have hidx : r.nx - 1 - im = im := by omega
  have hself : C07.MirroredXfp r r im := by
    unfold C07.MirroredXfp
    rw [hP, hidx, ← hxm]
  exact C07.mirrorX_footprint_field hself hg hp hfp jm (by omega) hxm hym hdx hdy hodd l J I hI

end BLDFM.C08
