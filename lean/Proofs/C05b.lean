/-
  C05 (order clause) — an EXPLICIT third-order bound: for uniform profiles the numerical column differs from the
  closed form by at most `exp(E) − 1` with `E = (5/96)·|μ|⁴·δ³·h`, where `δ` bounds the layer thicknesses up to the
  output node, `h = z_l − z_0` and `|μ| δ ≤ 1` (resolved regime).  `E` is cubic in `δ`: halving the layer thickness
  divides it by eight.
-/
import Mathlib.Analysis.Complex.Exponential
import Mathlib.Analysis.SpecialFunctions.Exp
import Proofs.Lemmas.Spec
import Proofs.Lemmas.Tactics
import Proofs.C01
import Proofs.C05

open BLDFM BLDFM.Spec

namespace BLDFM.C05

/-- the layer factor is the exponential up to `5/96 |w|⁴` on the unit disc -/
theorem p3_exp_bound (w : ℂ) (hw : ‖w‖ ≤ 1) : ‖Complex.exp w - p3 w‖ ≤ 5 / 96 * ‖w‖ ^ 4 := by
  have h := Complex.exp_bound hw (n := 4) (by norm_num)
  have e : ∑ m ∈ Finset.range 4, w ^ m / (m.factorial : ℂ) = p3 w := by
    simp only [Finset.sum_range_succ, Finset.sum_range_zero, Nat.factorial, p3]
    norm_num
  rw [e] at h
  calc ‖Complex.exp w - p3 w‖ ≤ ‖w‖ ^ 4 * (((4 : ℕ).succ : ℝ) * (((4 : ℕ).factorial : ℝ) * (4 : ℕ))⁻¹) := h
    _ = 5 / 96 * ‖w‖ ^ 4 := by
      simp only [Nat.factorial, Nat.succ_eq_add_one]
      norm_num
      ring

/-- perturbation of a product of factors of modulus ≤ 1 -/
theorem prod_perturb (a b : ℕ → ℂ) (ε : ℕ → ℝ) (n : ℕ) (hε : ∀ i, i < n → 0 ≤ ε i)
    (hb : ∀ i, i < n → ‖b i‖ ≤ 1) (hab : ∀ i, i < n → ‖a i - b i‖ ≤ ε i) :
    ‖∏ i ∈ Finset.range n, a i - ∏ i ∈ Finset.range n, b i‖ ≤ (∏ i ∈ Finset.range n, (1 + ε i)) - 1 ∧
    ‖∏ i ∈ Finset.range n, b i‖ ≤ 1 := by
  induction n with
  | zero => simp
  | succ n ih =>
    have ih' := ih (fun i hi => hε i (by omega)) (fun i hi => hb i (by omega)) (fun i hi => hab i (by omega))
    obtain ⟨ihE, ihB⟩ := ih'
    have hεn := hε n (by omega)
    have hbn := hb n (by omega)
    have habn := hab n (by omega)
    have han : ‖a n‖ ≤ 1 + ε n := by
      calc ‖a n‖ = ‖b n + (a n - b n)‖ := by ring_nf
        _ ≤ ‖b n‖ + ‖a n - b n‖ := norm_add_le _ _
        _ ≤ 1 + ε n := by linarith
    have hPi : (1 : ℝ) ≤ ∏ i ∈ Finset.range n, (1 + ε i) := by
      have := norm_nonneg (∏ i ∈ Finset.range n, a i - ∏ i ∈ Finset.range n, b i)
      linarith
    refine ⟨?_, ?_⟩
    · rw [Finset.prod_range_succ, Finset.prod_range_succ, Finset.prod_range_succ]
      have split : (∏ i ∈ Finset.range n, a i) * a n - (∏ i ∈ Finset.range n, b i) * b n
          = (∏ i ∈ Finset.range n, a i - ∏ i ∈ Finset.range n, b i) * a n + (∏ i ∈ Finset.range n, b i) * (a n - b n) := by ring
      rw [split]
      calc ‖(∏ i ∈ Finset.range n, a i - ∏ i ∈ Finset.range n, b i) * a n + (∏ i ∈ Finset.range n, b i) * (a n - b n)‖
          ≤ ‖∏ i ∈ Finset.range n, a i - ∏ i ∈ Finset.range n, b i‖ * ‖a n‖ + ‖∏ i ∈ Finset.range n, b i‖ * ‖a n - b n‖ := by
            refine (norm_add_le _ _).trans ?_
            rw [norm_mul, norm_mul]
        _ ≤ ((∏ i ∈ Finset.range n, (1 + ε i)) - 1) * (1 + ε n) + 1 * ε n := by
            gcongr
        _ = (∏ i ∈ Finset.range n, (1 + ε i)) * (1 + ε n) - 1 := by ring
    · rw [Finset.prod_range_succ, norm_mul]
      calc ‖∏ i ∈ Finset.range n, b i‖ * ‖b n‖ ≤ 1 * 1 := by gcongr
        _ = 1 := by norm_num

/-- `∏ (1 + ε_i) ≤ exp (Σ ε_i)` -/
theorem prod_one_add_le_exp (ε : ℕ → ℝ) (n : ℕ) (hε : ∀ i, i < n → 0 ≤ ε i) :
    ∏ i ∈ Finset.range n, (1 + ε i) ≤ Real.exp (∑ i ∈ Finset.range n, ε i) := by
  rw [Real.exp_sum]
  apply Finset.prod_le_prod
  · intro i hi; have := hε i (Finset.mem_range.mp hi); linarith
  · intro i _; rw [add_comm]; exact Real.add_one_le_exp _

/-- THIRD-ORDER BOUND for the product of layer factors: on a grid with `0 ≤ dz_i ≤ δ`, `|μ| δ ≤ 1` and
`Re μ ≥ 0`, `|∏_{i<l} p₃(−μ dz_i) − e^{−μ (z_l − z_0)}| ≤ exp((5/96)|μ|⁴ δ³ (z_l − z_0)) − 1` -/
theorem layer_product_third_order (μ : ℂ) (hμ : 0 ≤ μ.re) (z : ℕ → ℝ) (l : ℕ) (δ : ℝ)
    (hmono : ∀ i, i < l → 0 ≤ z (i + 1) - z i) (hδ : ∀ i, i < l → z (i + 1) - z i ≤ δ) (hres : ‖μ‖ * δ ≤ 1) :
    ‖∏ i ∈ Finset.range l, p3 (-μ * ((z (i + 1) - z i : ℝ) : ℂ)) - Complex.exp (-μ * ((z l - z 0 : ℝ) : ℂ))‖
      ≤ Real.exp (5 / 96 * ‖μ‖ ^ 4 * δ ^ 3 * (z l - z 0)) - 1 := by
  set dz : ℕ → ℝ := fun i => z (i + 1) - z i with hdz
  have hsum : ∑ i ∈ Finset.range l, dz i = z l - z 0 := Finset.sum_range_sub z l
  have hexp : Complex.exp (-μ * ((z l - z 0 : ℝ) : ℂ)) = ∏ i ∈ Finset.range l, Complex.exp (-μ * ((dz i : ℝ) : ℂ)) := by
    rw [← Complex.exp_sum, ← hsum]
    congr 1
    push_cast
    rw [Finset.mul_sum]
  rw [hexp]
  have hδ0 : ∀ i, i < l → 0 ≤ δ := fun i hi => (hmono i hi).trans (hδ i hi)
  have hw : ∀ i, i < l → ‖-μ * ((dz i : ℝ) : ℂ)‖ ≤ 1 := by
    intro i hi
    rw [norm_mul, norm_neg, Complex.norm_real, Real.norm_of_nonneg (hmono i hi)]
    calc ‖μ‖ * dz i ≤ ‖μ‖ * δ := by gcongr; exact hδ i hi
      _ ≤ 1 := hres
  have hnorm : ∀ i, i < l → ‖-μ * ((dz i : ℝ) : ℂ)‖ = ‖μ‖ * dz i := by
    intro i hi
    rw [norm_mul, norm_neg, Complex.norm_real, Real.norm_of_nonneg (hmono i hi)]
  have key := prod_perturb (fun i => p3 (-μ * ((dz i : ℝ) : ℂ))) (fun i => Complex.exp (-μ * ((dz i : ℝ) : ℂ)))
    (fun i => 5 / 96 * ‖μ‖ ^ 4 * δ ^ 3 * dz i) l
    (fun i hi => by have := hmono i hi; have := hδ0 i hi; positivity)
    (fun i hi => by
      rw [Complex.norm_exp]
      have : (-μ * ((dz i : ℝ) : ℂ)).re = -(μ.re * dz i) := by simp
      rw [this]
      have := mul_nonneg hμ (hmono i hi)
      exact Real.exp_le_one_iff.mpr (by linarith))
    (fun i hi => by
      rw [norm_sub_rev]
      refine (p3_exp_bound _ (hw i hi)).trans ?_
      rw [hnorm i hi]
      have h0 := hmono i hi
      have h1 := hδ i hi
      have : (‖μ‖ * dz i) ^ 4 = ‖μ‖ ^ 4 * (dz i ^ 3 * dz i) := by ring
      rw [this]
      have : dz i ^ 3 ≤ δ ^ 3 := pow_le_pow_left₀ h0 h1 3
      have hμ4 : 0 ≤ ‖μ‖ ^ 4 := by positivity
      nlinarith [mul_le_mul_of_nonneg_right this h0, mul_nonneg hμ4 (mul_nonneg (pow_nonneg h0 3) h0)])
  refine key.1.trans ?_
  have := prod_one_add_le_exp (fun i => 5 / 96 * ‖μ‖ ^ 4 * δ ^ 3 * dz i) l
    (fun i hi => by have := hmono i hi; have := hδ0 i hi; positivity)
  rw [← Finset.mul_sum, hsum] at this
  linarith

/-- the exponent is cubic in the layer thickness: halving `δ` divides it by eight -/
theorem exponent_cubic (m δ h : ℝ) :
    5 / 96 * m ^ 4 * (δ / 2) ^ 3 * h = (5 / 96 * m ^ 4 * δ ^ 3 * h) / 8 := by ring

/-- … for the numerical flux of a uniform-profile column against the analytic branch -/
theorem numeric_vs_analytic_flux (P : Profiles ℝ) (hU : Uniform P) (z : ℕ → ℝ) (top : ℕ) (Lx Ly : ℝ) (qh : ℂ)
    (hKz : P.Kz 0 ≠ 0) (hμ0 : eigval RC P top Lx Ly ≠ 0) (hden : C01.shootDen P z top Lx Ly ≠ 0)
    (l : ℕ) (δ : ℝ) (hmono : ∀ i, i < l → 0 ≤ z (i + 1) - z i) (hδ : ∀ i, i < l → z (i + 1) - z i ≤ δ)
    (hres : ‖eigval RC P top Lx Ly‖ * δ ≤ 1) :
    ‖(columnNum RC P z top Lx Ly qh l).2 - (columnAna RC P z top Lx Ly qh l).2‖
      ≤ ‖qh‖ * (Real.exp (5 / 96 * ‖eigval RC P top Lx Ly‖ ^ 4 * δ ^ 3 * (z l - z 0)) - 1) := by
  have hKzc : (P.Kz 0 : ℂ) ≠ 0 := by exact_mod_cast hKz
  have hnum := numeric_uniform_product P hU z top Lx Ly qh hKzc hμ0 (fun i => uniform_T_eq P hU top Lx Ly hKz i) hden l
  have hana := analytic_is_closed_form P z top Lx Ly qh l
  simp only at hnum hana
  rw [hnum, hana]
  simp only []
  rw [show (∏ i ∈ Finset.range l, p3 (-eigval RC P top Lx Ly * ((z (i + 1) - z i : ℝ) : ℂ))) * qh
        - qh * Complex.exp (-eigval RC P top Lx Ly * ((z l - z 0 : ℝ) : ℂ))
      = qh * ((∏ i ∈ Finset.range l, p3 (-eigval RC P top Lx Ly * ((z (i + 1) - z i : ℝ) : ℂ)))
        - Complex.exp (-eigval RC P top Lx Ly * ((z l - z 0 : ℝ) : ℂ))) by ring, norm_mul]
  gcongr
  exact layer_product_third_order _ (C01.eigval_decaying P top Lx Ly) z l δ hmono hδ hres

/-- … and for the concentration (the same bound divided by `|Kz μ|`) -/
theorem numeric_vs_analytic_conc (P : Profiles ℝ) (hU : Uniform P) (z : ℕ → ℝ) (top : ℕ) (Lx Ly : ℝ) (qh : ℂ)
    (hKz : P.Kz 0 ≠ 0) (hμ0 : eigval RC P top Lx Ly ≠ 0) (hden : C01.shootDen P z top Lx Ly ≠ 0)
    (l : ℕ) (δ : ℝ) (hmono : ∀ i, i < l → 0 ≤ z (i + 1) - z i) (hδ : ∀ i, i < l → z (i + 1) - z i ≤ δ)
    (hres : ‖eigval RC P top Lx Ly‖ * δ ≤ 1) :
    ‖(columnNum RC P z top Lx Ly qh l).1 - (columnAna RC P z top Lx Ly qh l).1‖
      ≤ ‖qh‖ / ‖(P.Kz 0 : ℂ) * eigval RC P top Lx Ly‖
          * (Real.exp (5 / 96 * ‖eigval RC P top Lx Ly‖ ^ 4 * δ ^ 3 * (z l - z 0)) - 1) := by
  have hKzc : (P.Kz 0 : ℂ) ≠ 0 := by exact_mod_cast hKz
  have hnum := numeric_uniform_product P hU z top Lx Ly qh hKzc hμ0 (fun i => uniform_T_eq P hU top Lx Ly hKz i) hden l
  have hana := analytic_is_closed_form P z top Lx Ly qh l
  simp only at hnum hana
  have htop : (P.Kz top : ℂ) = (P.Kz 0 : ℂ) := by rw [(hU top).2.2.2.2]
  rw [hnum, hana, htop]
  simp only []
  rw [show (∏ i ∈ Finset.range l, p3 (-eigval RC P top Lx Ly * ((z (i + 1) - z i : ℝ) : ℂ))) * (qh / ((P.Kz 0 : ℂ) * eigval RC P top Lx Ly))
        - qh * Complex.exp (-eigval RC P top Lx Ly * ((z l - z 0 : ℝ) : ℂ)) / ((P.Kz 0 : ℂ) * eigval RC P top Lx Ly)
      = qh / ((P.Kz 0 : ℂ) * eigval RC P top Lx Ly) * ((∏ i ∈ Finset.range l, p3 (-eigval RC P top Lx Ly * ((z (i + 1) - z i : ℝ) : ℂ)))
        - Complex.exp (-eigval RC P top Lx Ly * ((z l - z 0 : ℝ) : ℂ))) by ring, norm_mul, norm_div]
  gcongr
  exact layer_product_third_order _ (C01.eigval_decaying P top Lx Ly) z l δ hmono hδ hres

/-! non-vacuity of the grid hypotheses: ten layers of thickness 1/10, `μ = 1 + i/2` -/
example : (0 : ℝ) ≤ (1 + Complex.I / 2 : ℂ).re ∧ (∀ i : ℕ, i < 10 → (0 : ℝ) ≤ ((i + 1 : ℕ) : ℝ) / 10 - (i : ℝ) / 10) ∧
    (∀ i : ℕ, i < 10 → ((i + 1 : ℕ) : ℝ) / 10 - (i : ℝ) / 10 ≤ 1 / 10) ∧ ‖(1 + Complex.I / 2 : ℂ)‖ * (1 / 10) ≤ 1 := by
  refine ⟨by simp, fun i _ => by push_cast; linarith, fun i _ => by push_cast; linarith, ?_⟩
  have : ‖(1 + Complex.I / 2 : ℂ)‖ ≤ 1 + 1 / 2 := by
    refine (norm_add_le _ _).trans ?_
    simp
  linarith

end BLDFM.C05
