/-
  C02 — footprint weights reproduce flux and concentration at the tower.
  Spectral core of the reciprocity: in footprint mode the coefficient of slot (a,b) is
  the per-mode transfer `W_ab/(Nx Ny)` times the phase of the tower's PADDED-grid cell
  `(jm+py, im+px)`; in dispersion mode it is `W_ab · q̂_ab`, evaluated at that same
  cell.  The transfer `W` is the same function in both modes (it does not depend on
  the source or on the mode flag).  Summation over the grid: `Proofs/Lemmas/Repr.lean`.
-/
import Proofs.Lemmas.Spec
import Proofs.Lemmas.Tactics
import Proofs.Lemmas.Phase
import Proofs.C04
import Proofs.C06

open BLDFM BLDFM.Spec

namespace BLDFM.C02

/-- per-mode transfer function: response `(p, q)` at node `l` to a unit spectral surface flux -/
noncomputable def transfer (req : SolveReq ℝ) (g : Geom ℝ) (l a b : ℕ) : ℂ × ℂ :=
  if req.analytic then columnAna RC req.P req.z (req.nz - 1) (waveX RC g b) (waveY RC g a) 1 l
  else columnNum RC req.P req.z (req.nz - 1) (waveX RC g b) (waveY RC g a) 1 l

/-- every non-constant spectral coefficient is `transfer × (spectral surface flux)`, in both
modes: the same Green's function is used for footprints and for dispersion -/
theorem coef_is_transfer_times_source (req : SolveReq ℝ) (S : ℕ → ℕ → ℂ) (l a b : ℕ)
    (hab : ¬(a = 0 ∧ b = 0)) (hp : req.precision = .double)
    (hden : req.analytic = false →
      (ivpState RC req.P req.z (waveX RC (geom RC req) b) (waveY RC (geom RC req) a) ((1.0 : ℂ), (0.0 : ℂ)) (req.nz - 1)).2
      - RC.ofReal (req.P.Kz (req.nz - 1)) * eigval RC req.P (req.nz - 1) (waveX RC (geom RC req) b) (waveY RC (geom RC req) a)
        * (ivpState RC req.P req.z (waveX RC (geom RC req) b) (waveY RC (geom RC req) a) ((1.0 : ℂ), (0.0 : ℂ)) (req.nz - 1)).1 ≠ 0) :
    modeCoef RC req (geom RC req) S l a b =
      (S a b * (transfer req (geom RC req) l a b).1, S a b * (transfer req (geom RC req) l a b).2) := by
  simp only [modeCoef, hab, if_false, storeP, hp, transfer]
  cases han : req.analytic
  · have h := C04.columnNum_linear req.P req.z (req.nz - 1) (waveX RC (geom RC req) b) (waveY RC (geom RC req) a)
      (S a b) 0 1 0 l (hden han)
    simp only [mul_one, zero_mul, add_zero] at h
    simp only [Bool.false_eq_true, if_false]
    rw [h]
  · have h := C04.columnAna_linear req.P req.z (req.nz - 1) (waveX RC (geom RC req) b) (waveY RC (geom RC req) a)
      (S a b) 0 1 0 l
    simp only [mul_one, zero_mul, add_zero] at h
    simp only [if_true]
    rw [h]

/-- the transfer function does not depend on the mode flag, the source, the measurement
point or the background: footprint and dispersion runs of the same problem share it -/
theorem transfer_indep_mode (req : SolveReq ℝ) (fp : Bool) (q' : ℕ → ℕ → ℝ) (xm' ym' bg' : ℝ) (l a b : ℕ) :
    transfer { req with footprint := fp, q := q', xm := xm', ym := ym', bg := bg' }
        (geom RC { req with footprint := fp, q := q', xm := xm', ym := ym', bg := bg' }) l a b
      = transfer req (geom RC req) l a b := rfl

end BLDFM.C02
