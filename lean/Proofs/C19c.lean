/-
  C19 / C20, dtype clause ("given as integers or floats alike"; "result dtype does not depend on g's dtype").

  With the allocation the code has (`dtype=float`, read off the source by the static extract
  `Generated.Tables.kmAlloc` / `sourceAreaAlloc`) a masked-store helper returns the same number for an
  integer-typed and a float-typed input; with dtype inheritance (`np.zeros_like(zm)`) it does not: the stored
  value is truncated (e.g. phi_m = (1 + 16·10/50)^(-1/4) = 0.69… becomes 0, and the footprint is all zero).
-/
import BLDFM.Dtype
import Mathlib.Algebra.Order.Floor.Ring
import Mathlib.Algebra.Order.Archimedean.Real.Basic
import Mathlib.Tactic.NormNum
import Mathlib.Tactic.Linarith

namespace BLDFM.C19

open BLDFM

/-- truncation toward zero on ℝ (numpy's float → int64 cast), returned as a real -/
noncomputable def truncR (v : ℝ) : ℝ := if 0 ≤ v then (⌊v⌋ : ℝ) else (⌈v⌉ : ℝ)

/-- every helper that allocates a float result is dtype-free: same value for `int`- and `float`-typed inputs -/
theorem helper_dtype_free (f : ℝ → ℝ) (x : ℝ) (d₁ d₂ : DT) :
    maskedHelper truncR .float f d₁ x = maskedHelper truncR .float f d₂ x := rfl

/-- ... and returns the un-truncated function value -/
theorem helper_float_exact (f : ℝ → ℝ) (x : ℝ) (d : DT) : maskedHelper truncR .float f d x = f x := rfl

/-- a list of helpers all allocating float results is dtype-free as a whole (what the extract establishes) -/
theorem helpers_dtype_free (allocs : List (String × AllocKind)) (h : ∀ p ∈ allocs, p.2 = .float)
    (f : ℝ → ℝ) (x : ℝ) (d₁ d₂ : DT) :
    ∀ p ∈ allocs, maskedHelper truncR p.2 f d₁ x = maskedHelper truncR p.2 f d₂ x := by
  intro p hp
  rw [h p hp]
  rfl

/-- with dtype inheritance the integer-typed input gives the truncated value -/
theorem inherit_truncates (f : ℝ → ℝ) (x : ℝ) :
    maskedHelper truncR .inherit f .int x = truncR (f x) ∧ maskedHelper truncR .inherit f .float x = f x := ⟨rfl, rfl⟩

/-- witness: a stability function value in (0, 1) — e.g. phi_m for unstable stratification — is stored as 0 -/
theorem inherit_not_dtype_free :
    ∃ (f : ℝ → ℝ) (x : ℝ), maskedHelper truncR .inherit f .int x ≠ maskedHelper truncR .inherit f .float x := by
  refine ⟨fun _ => 1 / 2, 10, ?_⟩
  simp only [maskedHelper, AllocKind.result, storeAs, truncR]
  have h : ⌊(1 / 2 : ℝ)⌋ = 0 := by
    rw [Int.floor_eq_iff]; constructor <;> norm_num
  rw [if_pos (by norm_num), h]
  norm_num

/-- truncation is the identity on integers: integer-valued results (none of the helpers') would survive -/
theorem truncR_int (n : ℤ) : truncR (n : ℝ) = n := by
  unfold truncR
  split <;> simp

end BLDFM.C19
