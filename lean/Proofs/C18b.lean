/-
  C18b — "the same x, y and z coordinates": the writer stores ONE vector per axis, extracted from the first result's
  grid; for grids that are outer products of coordinate vectors (what `np.meshgrid` / the solver return) the stored
  vectors are those vectors and the whole grid is recovered from them at every index - in the level order given, which
  need not be ascending.  Dimension sizes are the number of result keys and the length of the first series.
-/
import BLDFM
import Mathlib.Tactic.Ring
import Proofs.C18

open BLDFM

namespace BLDFM.C18

/-- 3-D grid as the solver returns it: `X[k,j,i] = xs i`, `Y[k,j,i] = ys j`, `Z[k,j,i] = zs k` -/
def meshgrid3 (xs ys zs : ℕ → V) : NcGrid :=
  .g3 (fun _ _ i => xs i) (fun _ j _ => ys j) (fun k _ _ => zs k)

/-- 2-D grid: `X[j,i] = xs i`, `Y[j,i] = ys j` -/
def meshgrid2 (xs ys : ℕ → V) : NcGrid :=
  .g2 (fun _ i => xs i) (fun j _ => ys j)

theorem coords_meshgrid3 (xs ys zs : ℕ → V) : (meshgrid3 xs ys zs).coords = (xs, ys, some zs) := rfl

theorem coords_meshgrid2 (xs ys : ℕ → V) : (meshgrid2 xs ys).coords = (xs, ys, none) := rfl

theorem coords_vectors (xs ys : ℕ → V) : (NcGrid.g1 xs ys).coords = (xs, ys, none) := rfl

/-- the stored coordinate variables are those of the first tower's first result -/
theorem stored_coords (n : V) (r : NcResult) (s : List NcResult) (rest : List (V × List NcResult)) (towers : List NcTower) :
    let ds := ncSave ((n, r :: s) :: rest) towers
    ds.x = r.grid.coords.1 ∧ ds.y = r.grid.coords.2.1 ∧ ds.z = r.grid.coords.2.2 := by
  simp [ncSave]

/-- **coordinates are lossless, 3-D**: for an outer-product grid the dataset holds `xs`, `ys`, `zs` and every
grid node `(k, j, i)` of the saved result is recovered from them - for ANY level vector `zs` (descending, repeated) -/
theorem coords_lossless_3d (n : V) (r : NcResult) (s : List NcResult) (rest : List (V × List NcResult)) (towers : List NcTower)
    (xs ys zs : ℕ → V) (hg : r.grid = meshgrid3 xs ys zs) :
    let ds := ncSave ((n, r :: s) :: rest) towers
    ds.x = xs ∧ ds.y = ys ∧ ds.z = some zs := by
  simp [ncSave, hg, coords_meshgrid3]

/-- **coordinates are lossless, 2-D** (meshgrids or plain vectors): no `z` variable is written -/
theorem coords_lossless_2d (n : V) (r : NcResult) (s : List NcResult) (rest : List (V × List NcResult)) (towers : List NcTower)
    (xs ys : ℕ → V) (hg : r.grid = meshgrid2 xs ys ∨ r.grid = .g1 xs ys) :
    let ds := ncSave ((n, r :: s) :: rest) towers
    ds.x = xs ∧ ds.y = ys ∧ ds.z = none := by
  rcases hg with hg | hg <;> simp [ncSave, hg, coords_meshgrid2, coords_vectors]

/-- the extraction picks the RIGHT axis of each array: on a grid whose arrays are not outer products the stored x is the
first row of the first level of `X` (not a column), the stored y the first column of `Y`, the stored z the corner column
of `Z` - the exact indices of `X[0, 0, :]`, `Y[0, :, 0]`, `Z[:, 0, 0]` -/
theorem coords_indices (X Y Z : ℕ → ℕ → ℕ → V) (i j k : ℕ) :
    (NcGrid.g3 X Y Z).coords.1 i = X 0 0 i ∧ (NcGrid.g3 X Y Z).coords.2.1 j = Y 0 j 0 ∧
    (NcGrid.g3 X Y Z).coords.2.2 = some (fun k => Z k 0 0) ∧ (fun k => Z k 0 0) k = Z k 0 0 :=
  ⟨rfl, rfl, rfl, rfl⟩

/-- dimension sizes: `tower` = number of result keys, `time` = length of the first tower's series (all series have
that length when they come from one driver call, C16) -/
theorem dims (n : V) (s : List NcResult) (rest : List (V × List NcResult)) (towers : List NcTower) :
    let ds := ncSave ((n, s) :: rest) towers
    ds.nTowers = rest.length + 1 ∧ ds.nTime = s.length ∧ ds.timeLabels.length = ds.nTime ∧ ds.towerLabels.length = ds.nTowers := by
  simp [ncSave]

/-- with rectangular results (every tower has `nTime` steps) every `(t, ti)` slot inside the dimensions is a saved
result's own array and none is left at the zero initialisation: the assembly is a bijection between slots and results -/
theorem slots_filled (results : List (V × List NcResult)) (towers : List NcTower) (T : ℕ)
    (hrect : ∀ p ∈ results, p.2.length = T) (ti t : ℕ) (hti : ti < (ncSave results towers).nTowers)
    (ht : t < (ncSave results towers).nTime) :
    ∃ (h1 : ti < results.length) (h2 : t < (results[ti]).2.length), ∀ c,
      (ncSave results towers).footprint t ti c = ((results[ti]).2[t]).flx c ∧
      (ncSave results towers).concentration t ti c = ((results[ti]).2[t]).conc c := by
  have h1 : ti < results.length := by simpa [ncSave] using hti
  have hT : (results[ti]).2.length = T := hrect _ (List.getElem_mem h1)
  have h2 : t < (results[ti]).2.length := by
    rw [hT]
    cases results with
    | nil => simp at h1
    | cons p rest =>
      have : p.2.length = T := hrect p (by simp)
      have ht' : t < p.2.length := by simpa [ncSave] using ht
      omega
  exact ⟨h1, h2, fun c => roundtrip_fields results towers ti t h1 h2 c⟩

/-! non-vacuity: a 3-D grid with DESCENDING levels -/
example : (ncSave [(7, [{ NcResult.dflt with grid := meshgrid3 (fun i => 10 * i) (fun j => 10 * j + 1) (fun k => 300 - 100 * k) }])] []).z.map (fun f => (f 0, f 2))
    = some (300, 100) := rfl

end BLDFM.C18
