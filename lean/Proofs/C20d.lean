/-
  C20d — "float summation order" as a theorem in a rounding model.

  The cumulative sums of `get_source_area` (and every grid sum of C03 / C19) are left-to-right floating-point sums.  In the
  standard model of rounding - every addition returns `fl (a + b)` with `|fl x - x| ≤ eps |x|`, whatever `fl` is otherwise -
  the computed sum of `n` terms differs from the exact one by at most `((1 + eps)^n - 1) Σ|xᵢ|`, hence two summation
  ORDERS of the same terms differ by at most twice that, and for `n eps ≤ 1/2` the factor is at most `2 n eps`
  (`n = 10^6` cells in double precision: `2.3e-10` of `Σ|xᵢ|`).  This is the tolerance the oracles use; nothing here depends on
  IEEE details beyond the relative-error bound.
-/
import Mathlib.Analysis.SpecialFunctions.Pow.Real
import Mathlib.Tactic.Linarith
import Mathlib.Tactic.Positivity
import Mathlib.Tactic.Ring
import Mathlib.Data.List.Perm.Basic
import Mathlib.Algebra.BigOperators.Group.List.Basic

namespace BLDFM.C20

/-- left-to-right summation with a rounding after every addition, started from `s` -/
def flFold (fl : ℝ → ℝ) (s : ℝ) (l : List ℝ) : ℝ := l.foldl (fun a y => fl (a + y)) s

/-- `Σ |xᵢ|` -/
def absSum (l : List ℝ) : ℝ := (l.map (fun x => |x|)).sum

theorem absSum_nonneg (l : List ℝ) : 0 ≤ absSum l := by
  unfold absSum
  apply List.sum_nonneg
  intro x hx
  obtain ⟨y, -, rfl⟩ := List.mem_map.1 hx
  exact abs_nonneg y

theorem absSum_cons (x : ℝ) (l : List ℝ) : absSum (x :: l) = |x| + absSum l := by
  simp [absSum]

theorem absSum_perm {l l' : List ℝ} (h : l.Perm l') : absSum l = absSum l' := by
  unfold absSum
  exact (h.map _).sum_eq

theorem abs_sum_le_absSum (l : List ℝ) : |l.sum| ≤ absSum l := by
  induction l with
  | nil => simp [absSum]
  | cons x l ih =>
    rw [List.sum_cons, absSum_cons]
    exact (abs_add_le _ _).trans (by linarith)

/-- **accumulated rounding error of a left-to-right sum** -/
theorem flFold_error (fl : ℝ → ℝ) (eps : ℝ) (heps : 0 ≤ eps) (hfl : ∀ x, |fl x - x| ≤ eps * |x|)
    (l : List ℝ) : ∀ s : ℝ, |flFold fl s l - (s + l.sum)| ≤ ((1 + eps) ^ l.length - 1) * (|s| + absSum l) := by
  induction l with
  | nil => intro s; simp [flFold]
  | cons y l ih =>
    intro s
    have hstep : flFold fl s (y :: l) = flFold fl (fl (s + y)) l := by simp [flFold]
    rw [hstep]
    set s' := fl (s + y) with hs'
    set B := |s| + |y| with hB
    set A := absSum l with hA
    have hA0 : 0 ≤ A := absSum_nonneg l
    have hB0 : 0 ≤ B := by positivity
    have h1 : |s' - (s + y)| ≤ eps * B :=
      (hfl (s + y)).trans (mul_le_mul_of_nonneg_left (abs_add_le s y) heps)
    have hs'abs : |s'| ≤ (1 + eps) * B := by
      have : |s'| ≤ |s' - (s + y)| + |s + y| := by
        have := abs_add_le (s' - (s + y)) (s + y)
        simpa using this
      have h2 : |s + y| ≤ B := abs_add_le s y
      nlinarith
    have hpow1 : 1 ≤ (1 + eps) ^ l.length := one_le_pow₀ (by linarith)
    have hI := ih s'
    have key : |flFold fl s' l - (s + (y + l.sum))| ≤ |flFold fl s' l - (s' + l.sum)| + |s' - (s + y)| := by
      have : flFold fl s' l - (s + (y + l.sum)) = (flFold fl s' l - (s' + l.sum)) + (s' - (s + y)) := by ring
      rw [this]; exact abs_add_le _ _
    rw [List.sum_cons, absSum_cons, List.length_cons, pow_succ]
    have hI' : |flFold fl s' l - (s' + l.sum)| ≤ ((1 + eps) ^ l.length - 1) * ((1 + eps) * B + A) :=
      hI.trans (mul_le_mul_of_nonneg_left (by linarith) (by linarith))
    have hgoal : ((1 + eps) ^ l.length - 1) * ((1 + eps) * B + A) + eps * B
        ≤ ((1 + eps) ^ l.length * (1 + eps) - 1) * (|s| + (|y| + A)) := by
      have hP : 0 ≤ (1 + eps) ^ l.length - 1 := by linarith
      have : ((1 + eps) ^ l.length * (1 + eps) - 1) * (|s| + (|y| + A))
          = ((1 + eps) ^ l.length - 1) * ((1 + eps) * B + A) + eps * B + eps * (1 + eps) ^ l.length * A
            := by rw [hB]; ring
      rw [this]
      have : 0 ≤ eps * (1 + eps) ^ l.length * A := by positivity
      linarith
    calc |flFold fl s' l - (s + (y + l.sum))|
        ≤ |flFold fl s' l - (s' + l.sum)| + |s' - (s + y)| := key
      _ ≤ ((1 + eps) ^ l.length - 1) * ((1 + eps) * B + A) + eps * B := add_le_add hI' h1
      _ ≤ _ := hgoal

/-- the computed sum (started from 0, as `np.cumsum` / `np.sum` over a flat array do) -/
def flSum (fl : ℝ → ℝ) (l : List ℝ) : ℝ := flFold fl 0 l

theorem flSum_error (fl : ℝ → ℝ) (eps : ℝ) (heps : 0 ≤ eps) (hfl : ∀ x, |fl x - x| ≤ eps * |x|) (l : List ℝ) :
    |flSum fl l - l.sum| ≤ ((1 + eps) ^ l.length - 1) * absSum l := by
  have := flFold_error fl eps heps hfl l 0
  simpa [flSum] using this

/-- **summation order**: the same terms summed in two different orders (the sort order of the base field may be any
permutation among ties; a chunked or pairwise re-ordering of the loop) agree up to twice the one-sum bound -/
theorem flSum_order (fl : ℝ → ℝ) (eps : ℝ) (heps : 0 ≤ eps) (hfl : ∀ x, |fl x - x| ≤ eps * |x|)
    {l l' : List ℝ} (h : l.Perm l') :
    |flSum fl l - flSum fl l'| ≤ 2 * (((1 + eps) ^ l.length - 1) * absSum l) := by
  have e1 := flSum_error fl eps heps hfl l
  have e2 := flSum_error fl eps heps hfl l'
  rw [← h.length_eq, ← absSum_perm h, ← h.sum_eq] at e2
  have : flSum fl l - flSum fl l' = (flSum fl l - l.sum) - (flSum fl l' - l.sum) := by ring
  rw [this]
  exact (abs_sub _ _).trans (by linarith)

/-- the factor in closed form: `(1 + eps)^n - 1 ≤ 2 n eps` as long as `n eps ≤ 1/2` -/
theorem pow_sub_one_le (eps : ℝ) (heps : 0 ≤ eps) (n : ℕ) (hn : (n : ℝ) * eps ≤ 1 / 2) :
    (1 + eps) ^ n - 1 ≤ 2 * n * eps := by
  by_cases he1 : 1 ≤ eps
  · -- then n = 0
    have hn0 : n = 0 := by
      by_contra hne
      have : (1 : ℝ) ≤ n := by exact_mod_cast Nat.one_le_iff_ne_zero.2 hne
      nlinarith
    subst hn0; simp
  · have he1 : eps < 1 := not_le.1 he1
    -- (1 + eps)^n (1 - eps)^n ≤ 1 and (1 - eps)^n ≥ 1 - n eps
    have hb : 1 + (n : ℝ) * (-eps) ≤ (1 + -eps) ^ n := one_add_mul_le_pow (by linarith) n
    have hprod : (1 + eps) ^ n * (1 + -eps) ^ n ≤ 1 := by
      rw [← mul_pow]
      apply pow_le_one₀
      · nlinarith
      · nlinarith
    have hpos : 0 < 1 - (n : ℝ) * eps := by linarith
    have hP0 : 0 ≤ (1 + eps) ^ n := by positivity
    have h3 : (1 + eps) ^ n * (1 - n * eps) ≤ 1 :=
      (mul_le_mul_of_nonneg_left (by linarith) hP0).trans hprod
    -- (1+eps)^n ≤ 1/(1 - n eps) ≤ 1 + 2 n eps
    have hne : 0 ≤ (n : ℝ) * eps := by positivity
    nlinarith

/-- **explicit tolerance**: `n` cells, unit roundoff `eps`, `n eps ≤ 1/2`: computed and exact sums differ by at most
`2 n eps Σ|xᵢ|`; for the rescaled source-area value (a partial sum of `f` over the cells ranked before the cell) this is
`2 n eps` of `Σ|f|` - `2.3e-10` for a million cells in double precision -/
theorem flSum_error_explicit (fl : ℝ → ℝ) (eps : ℝ) (heps : 0 ≤ eps) (hfl : ∀ x, |fl x - x| ≤ eps * |x|) (l : List ℝ)
    (hn : (l.length : ℝ) * eps ≤ 1 / 2) :
    |flSum fl l - l.sum| ≤ 2 * l.length * eps * absSum l :=
  (flSum_error fl eps heps hfl l).trans
    (mul_le_mul_of_nonneg_right (pow_sub_one_le eps heps l.length hn) (absSum_nonneg l))

/-! non-vacuity: exact arithmetic is a rounding with `eps = 0`; truncation to multiples of 1/4 is not, but `fl x = x (1 + 1/8)` is
one with `eps = 1/8` and the bound is then attained up to the last term -/
example : flSum id [1, 2, 3] = 6 := by norm_num [flSum, flFold]
example : |flSum (fun x => x * (1 + 1 / 8)) [1, 1] - 2| ≤ ((1 + 1 / 8 : ℝ) ^ 2 - 1) * 2 := by
  norm_num [flSum, flFold, abs_le]

end BLDFM.C20
