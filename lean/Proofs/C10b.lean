/-
  C10 — "any subset and any order of levels": corollaries of `slices_by_level`.

  `slice_depends_only_on_level` : two requests that differ only in their level lists return the same slice (fields and height label) wherever
                                   they ask for the same level — at any positions of the two lists;
  `slices_permuted`            : re-ordering the requested levels re-orders the slices the same way, nothing else changes;
  `repeated_level_same_slice`  : a level requested twice yields two identical slices.
-/
import Proofs.C10

open BLDFM BLDFM.Spec

namespace BLDFM.C10

theorem slice_depends_only_on_level (req : SolveReq ℝ) (lv lv' : List ℕ) (k k' : ℕ) (hk : k < lv.length) (hk' : k' < lv'.length)
    (h : lv[k] = lv'[k']) :
    let A := solveOk RC { req with levels := lv }
    let B := solveOk RC { req with levels := lv' }
    (∀ j i, A.conc k j i = B.conc k' j i) ∧ (∀ j i, A.flx k j i = B.flx k' j i) ∧ A.Z k = B.Z k' := by
  intro A B
  have ha := slices_by_level { req with levels := lv } k hk
  have hb := slices_by_level { req with levels := lv' } k' hk'
  simp only at ha hb
  obtain ⟨a1, a2, a3, _⟩ := ha
  obtain ⟨b1, b2, b3, _⟩ := hb
  have e : ({ req with levels := [lv[k]] } : SolveReq ℝ) = { req with levels := [lv'[k']] } := by rw [h]
  refine ⟨fun j i => ?_, fun j i => ?_, ?_⟩
  · rw [a1 j i, b1 j i]; simp only [e]
  · rw [a2 j i, b2 j i]; simp only [e]
  · rw [a3, b3]; simp only [e]

/-- re-ordering the levels re-orders the slices: with `lv' = lv ∘ σ` (position `k` of the new list holds the level that was at `σ k`) slice `k`
of the new request is slice `σ k` of the old one -/
theorem slices_permuted (req : SolveReq ℝ) (lv lv' : List ℕ) (σ : ℕ → ℕ) (k : ℕ) (hk : k < lv'.length) (hσ : σ k < lv.length)
    (h : lv'[k] = lv[σ k]) :
    let A := solveOk RC { req with levels := lv' }
    let B := solveOk RC { req with levels := lv }
    (∀ j i, A.conc k j i = B.conc (σ k) j i) ∧ (∀ j i, A.flx k j i = B.flx (σ k) j i) ∧ A.Z k = B.Z (σ k) :=
  slice_depends_only_on_level req lv' lv k (σ k) hk hσ h

theorem repeated_level_same_slice (req : SolveReq ℝ) (k k' : ℕ) (hk : k < req.levels.length) (hk' : k' < req.levels.length)
    (h : req.levels[k] = req.levels[k']) :
    (∀ j i, (solveOk RC req).conc k j i = (solveOk RC req).conc k' j i) ∧
    (∀ j i, (solveOk RC req).flx k j i = (solveOk RC req).flx k' j i) ∧ (solveOk RC req).Z k = (solveOk RC req).Z k' :=
  slice_depends_only_on_level req req.levels req.levels k k' hk hk' h

/-! non-vacuity: `[4, 0, 2]` is `[0, 2, 4]` re-ordered by `σ = (2, 0, 1)` -/
example : ([4, 0, 2] : List ℕ)[0] = ([0, 2, 4] : List ℕ)[2] ∧ ([4, 0, 2] : List ℕ)[1] = ([0, 2, 4] : List ℕ)[0] := by decide

end BLDFM.C10
