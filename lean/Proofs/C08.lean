/-
  C08 — meteorological wind-direction convention.
-/
import Proofs.Lemmas.Spec
import Proofs.Lemmas.Tactics
import Mathlib.Analysis.SpecialFunctions.Trigonometric.Basic

open BLDFM BLDFM.Spec

namespace BLDFM.C08

/-- the decomposition preserves the speed -/
theorem wind_speed_preserved (s wd : ℝ) :
    (windFields RC s wd).1 ^ 2 + (windFields RC s wd).2 ^ 2 = s ^ 2 := by
  simp only [windFields, deg2rad]
  rc_norm
  have := Real.sin_sq_add_cos_sq (wd * (Real.pi / 180.0))
  nlinarith [this]

/-- `(u, v) = -s · (sin θ, cos θ)`: the wind blows TOWARDS the direction opposite to the
compass bearing `wd` (x = east, y = north), so "upwind of the tower" is the bearing `wd` -/
theorem wind_from_bearing (s wd : ℝ) :
    windFields RC s wd = (-s * Real.sin (wd * (Real.pi / 180)), -s * Real.cos (wd * (Real.pi / 180))) := by
  simp only [windFields, deg2rad]
  rc_norm
  norm_num

/-- 0 / 90 / 180 / 270 degrees ↦ winds blowing toward south / west / north / east -/
theorem wind_cardinals (s : ℝ) :
    windFields RC s 0 = (0, -s) ∧ windFields RC s 90 = (-s, 0) ∧
    windFields RC s 180 = (0, s) ∧ windFields RC s 270 = (s, 0) := by
  rw [wind_from_bearing, wind_from_bearing, wind_from_bearing, wind_from_bearing]
  have h90 : (90 : ℝ) * (Real.pi / 180) = Real.pi / 2 := by ring
  have h180 : (180 : ℝ) * (Real.pi / 180) = Real.pi := by ring
  have h270 : (270 : ℝ) * (Real.pi / 180) = Real.pi / 2 + Real.pi := by ring
  refine ⟨?_, ?_, ?_, ?_⟩
  · simp
  · rw [h90]; simp
  · rw [h180]; simp
  · rw [h270, Real.sin_add, Real.cos_add]; simp

/-- the direction is periodic: `wd` and `wd + 360` give the same wind -/
theorem wind_periodic (s wd : ℝ) : windFields RC s (wd + 360) = windFields RC s wd := by
  rw [wind_from_bearing, wind_from_bearing]
  have : (wd + 360) * (Real.pi / 180) = wd * (Real.pi / 180) + 2 * Real.pi := by ring
  rw [this, Real.sin_add_two_pi, Real.cos_add_two_pi]

/-- opposite directions give opposite winds -/
theorem wind_opposite (s wd : ℝ) :
    windFields RC s (wd + 180) = (-(windFields RC s wd).1, -(windFields RC s wd).2) := by
  rw [wind_from_bearing, wind_from_bearing]
  have : (wd + 180) * (Real.pi / 180) = wd * (Real.pi / 180) + Real.pi := by ring
  rw [this, Real.sin_add_pi, Real.cos_add_pi]
  simp

end BLDFM.C08
