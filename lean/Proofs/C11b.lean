/-
  C11 (low-pass clause, coefficient level through the whole model pipeline) — two requests that differ only in
  the retained-mode counts attach THE SAME spectral coefficient (and the same shift factor) to every signed
  frequency pair that both retain.  With `solver_repr` (the field is the trigonometric sum over the retained signed
  frequencies) this is: retaining fewer modes removes components at or beyond the cut-off and leaves every
  component strictly inside it unchanged.
-/
import Proofs.Lemmas.Spec
import Proofs.Lemmas.Tactics
import Proofs.Lemmas.Repr
import Proofs.C02b
import Proofs.C03b
import Proofs.C11
import Proofs.Lemmas.Witness

open BLDFM BLDFM.Spec BLDFM.Index

namespace BLDFM.C11

/-- two requests that differ only in the retained-mode counts -/
def SameButModes (r r' : SolveReq ℝ) : Prop :=
  r' = { r with nlx := r'.nlx, nly := r'.nly }

theorem sfreq_eq_zero_iff (n a : ℕ) (ha : a < n) : sfreq n a = 0 ↔ a = 0 := by
  unfold sfreq
  split <;> omega

theorem waveX_of_sfreq (g g' : Geom ℝ) (b b' : ℕ) (hb : b < g.nlx) (hb' : b' < g'.nlx)
    (hdx : g'.dx = g.dx) (hN : g'.nxe = g.nxe) (hf : sfreq g.nlx b = sfreq g'.nlx b') :
    waveX RC g b = waveX RC g' b' := by
  unfold waveX
  rw [freqR_eq _ _ hb, freqR_eq _ _ hb', hdx, hN, hf]

theorem waveY_of_sfreq (g g' : Geom ℝ) (a a' : ℕ) (ha : a < g.nly) (ha' : a' < g'.nly)
    (hdy : g'.dy = g.dy) (hN : g'.nye = g.nye) (hf : sfreq g.nly a = sfreq g'.nly a') :
    waveY RC g a = waveY RC g' a' := by
  unfold waveY
  rw [freqR_eq _ _ ha, freqR_eq _ _ ha', hdy, hN, hf]

/-- LOW-PASS: same signed frequency ⇒ same source coefficient, same spectral coefficients at every level, same
shift factor — in both modes, numeric and analytic, for every halo, parity and profile set -/
theorem lowpass_coef (r r' : SolveReq ℝ) (h : SameButModes r r')
    (hg : GeomOK (geom RC r)) (hg' : GeomOK (geom RC r'))
    (l a b a' b' : ℕ) (ha : a < (geom RC r).nly) (hb : b < (geom RC r).nlx)
    (ha' : a' < (geom RC r').nly) (hb' : b' < (geom RC r').nlx)
    (hfa : sfreq (geom RC r).nly a = sfreq (geom RC r').nly a')
    (hfb : sfreq (geom RC r).nlx b = sfreq (geom RC r').nlx b') :
    (srcSpectrum RC r (geom RC r)).get a b = (srcSpectrum RC r' (geom RC r')).get a' b' ∧
    modeCoef RC r (geom RC r) (srcSpectrum RC r (geom RC r)).get l a b
      = modeCoef RC r' (geom RC r') (srcSpectrum RC r' (geom RC r')).get l a' b' ∧
    shiftFactor RC r (geom RC r) a b = shiftFactor RC r' (geom RC r') a' b' := by
  have e' : r' = { r with nlx := r'.nlx, nly := r'.nly } := h
  -- geometry shared by the two requests
  have gdx : (geom RC r').dx = (geom RC r).dx := by rw [e']; rfl
  have gdy : (geom RC r').dy = (geom RC r).dy := by rw [e']; rfl
  have gpx : (geom RC r').px = (geom RC r).px := by rw [e']; rfl
  have gpy : (geom RC r').py = (geom RC r).py := by rw [e']; rfl
  have gnx : (geom RC r').nxe = (geom RC r).nxe := by rw [e']; rfl
  have gny : (geom RC r').nye = (geom RC r).nye := by rw [e']; rfl
  have wx := waveX_of_sfreq (geom RC r) (geom RC r') b b' hb hb' gdx gnx hfb
  have wy := waveY_of_sfreq (geom RC r) (geom RC r') a a' ha ha' gdy gny hfa
  have hdc : (a = 0 ∧ b = 0) ↔ (a' = 0 ∧ b' = 0) := by
    rw [← sfreq_eq_zero_iff _ a ha, ← sfreq_eq_zero_iff _ b hb, ← sfreq_eq_zero_iff _ a' ha', ← sfreq_eq_zero_iff _ b' hb',
      hfa, hfb]
  have pad : ∀ J I, padSrc RC r' (geom RC r') J I = padSrc RC r (geom RC r) J I := by
    intro J I
    unfold padSrc
    rw [gpx, gpy]
    rw [e']
  -- the source coefficient
  have hS : (srcSpectrum RC r (geom RC r)).get a b = (srcSpectrum RC r' (geom RC r')).get a' b' := by
    cases hfp : r.footprint
    · have fp' : r'.footprint = false := by rw [e']; exact hfp
      rw [C02.srcSpectrum_formula r hg hfp a b ha hb, C02.srcSpectrum_formula r' hg' fp' a' b' ha' hb']
      simp only [gnx, gny, pad, hfa, hfb]
    · have fp' : r'.footprint = true := by rw [e']; exact hfp
      simp only [srcSpectrum, hfp, fp', if_true, Tab2.get_tab, gnx, gny]
  have fan : r'.analytic = r.analytic := by rw [e']
  have fP : r'.P = r.P := by rw [e']
  have fz : r'.z = r.z := by rw [e']
  have fnz : r'.nz = r.nz := by rw [e']
  have fbg : r'.bg = r.bg := by rw [e']
  have fpr : r'.precision = r.precision := by rw [e']
  have ffp : r'.footprint = r.footprint := by rw [e']
  have fxm : r'.xm = r.xm := by rw [e']
  have fym : r'.ym = r.ym := by rw [e']
  have fxx : r'.xmx = r.xmx := by rw [e']
  have fyy : r'.ymx = r.ymx := by rw [e']
  have st : ∀ c : ℂ, storeP RC r' c = storeP RC r c := by
    intro c; unfold storeP; rw [fpr]
  refine ⟨hS, ?_, ?_⟩
  · unfold modeCoef
    by_cases hab : a = 0 ∧ b = 0
    · have hab' := hdc.mp hab
      rw [if_pos hab, if_pos hab']
      obtain ⟨rfl, rfl⟩ := hab
      obtain ⟨rfl, rfl⟩ := hab'
      simp only [st, fan, fP, fz, fnz, fbg, hS]
    · have hab' : ¬(a' = 0 ∧ b' = 0) := fun h => hab (hdc.mpr h)
      rw [if_neg hab, if_neg hab']
      simp only [st, fan, fP, fz, fnz, wx, wy, hS]
  · unfold shiftFactor
    simp only [wx, wy, gpx, gpy, gdx, gdy, ffp, fxm, fym, fxx, fyy]

/-- every signed frequency of a smaller even truncation is a signed frequency of the larger one -/
theorem sfreq_embed (nl nl' a' : ℕ) (hle : nl' ≤ nl) (hev : nl' % 2 = 0 ∨ nl' = nl) (ha' : a' < nl') :
    ∃ a, a < nl ∧ sfreq nl a = sfreq nl' a' := by
  rcases hev with hev | rfl
  · refine ⟨if a' < (nl' + 1) / 2 then a' else nl - (nl' - a'), ?_, ?_⟩
    · split <;> omega
    · unfold sfreq
      by_cases h : a' < (nl' + 1) / 2
      · rw [if_pos h, if_pos h, if_pos (by omega)]
      · rw [if_neg h, if_neg h, if_neg (by omega)]
        have : ((nl - (nl' - a') : ℕ) : ℤ) = (nl : ℤ) - ((nl' : ℤ) - a') := by omega
        rw [this]; ring
  · exact ⟨a', ha', rfl⟩

/-- LOW-PASS, component form: every spectral component of the run with FEWER modes is a component of the run
with more modes — same signed frequencies, same coefficients at every level, same shift factor.  By `solver_repr`
the two fields therefore differ exactly by the components whose frequency the smaller run does not retain. -/
theorem lowpass_component (r r' : SolveReq ℝ) (h : SameButModes r r')
    (hg : GeomOK (geom RC r)) (hg' : GeomOK (geom RC r'))
    (hlx : (geom RC r').nlx ≤ (geom RC r).nlx) (hly : (geom RC r').nly ≤ (geom RC r).nly)
    (hex : (geom RC r').nlx % 2 = 0 ∨ (geom RC r').nlx = (geom RC r).nlx)
    (hey : (geom RC r').nly % 2 = 0 ∨ (geom RC r').nly = (geom RC r).nly)
    (l a' b' : ℕ) (ha' : a' < (geom RC r').nly) (hb' : b' < (geom RC r').nlx) :
    ∃ a b, a < (geom RC r).nly ∧ b < (geom RC r).nlx ∧
      sfreq (geom RC r).nly a = sfreq (geom RC r').nly a' ∧ sfreq (geom RC r).nlx b = sfreq (geom RC r').nlx b' ∧
      modeCoef RC r (geom RC r) (srcSpectrum RC r (geom RC r)).get l a b
        = modeCoef RC r' (geom RC r') (srcSpectrum RC r' (geom RC r')).get l a' b' ∧
      shiftFactor RC r (geom RC r) a b = shiftFactor RC r' (geom RC r') a' b' := by
  obtain ⟨a, ha, hfa⟩ := sfreq_embed _ _ a' hly hey ha'
  obtain ⟨b, hb, hfb⟩ := sfreq_embed _ _ b' hlx hex hb'
  obtain ⟨_, h2, h3⟩ := lowpass_coef r r' h hg hg' l a b a' b' ha hb ha' hb' hfa hfb
  exact ⟨a, b, ha, hb, hfa, hfb, h2, h3⟩

/-! ### non-vacuity -/

example : ∃ r r' : SolveReq ℝ, SameButModes r r' ∧ GeomOK (geom RC r) ∧ GeomOK (geom RC r') ∧
    (geom RC r').nlx ≤ (geom RC r).nlx ∧ (geom RC r').nly ≤ (geom RC r).nly ∧
    ((geom RC r').nlx % 2 = 0 ∨ (geom RC r').nlx = (geom RC r).nlx) ∧
    ((geom RC r').nly % 2 = 0 ∨ (geom RC r').nly = (geom RC r).nly) := by
  refine ⟨{ Witness.wreq false with nlx := 4, nly := 4 }, Witness.wreq false, rfl, ?_, Witness.wreq_geomOK false, ?_, ?_, ?_, ?_⟩
  · exact C03.geomOK_of_request _ (by simp [Witness.wreq]) (by simp [Witness.wreq]) (by simp [Witness.wreq])
      (by simp [Witness.wreq]) (by simp [Witness.wreq]) (by simp [Witness.wreq])
  all_goals simp [geom, clampModes, Witness.wreq, RC]

end BLDFM.C11
