/-
  Spectral representation of the solver's output field: through the model's `dft2`, `untrunc`,
  twiddle tables and index shifts, the padded-domain field is the trigonometric sum over the retained
  slots with their SIGNED frequencies (both parities of the padded sizes).
-/
import Proofs.Lemmas.Spec
import Proofs.Lemmas.Tactics
import Proofs.Lemmas.Index
import Proofs.Lemmas.Phase
import Mathlib.Algebra.BigOperators.Group.Finset.Basic
import Mathlib.Algebra.BigOperators.Ring.Finset

open BLDFM BLDFM.Spec BLDFM.Index

namespace BLDFM.Spec

theorem zero_lit : (0.0 : ℂ) = 0 := by norm_num

/-- the model's 1-D DFT sum as a `Finset` sum -/
theorem dft1_eq (tw : ℕ → ℂ) (N : ℕ) (x : ℕ → ℂ) (a : ℕ) :
    dft1 tw N x a = ∑ j ∈ Finset.range N, x j * tw (a * j) := by
  unfold dft1
  rw [zero_lit, sumN_eq_sum]

/-- the model's 2-D transform with exponent sign `+` -/
theorem dft2_pos (Ny Nx : ℕ) (hy : 0 < Ny) (hx : 0 < Nx) (x : ℕ → ℕ → ℂ) (a b : ℕ) :
    (dft2 RC (1.0 : ℝ) Ny Nx x).get a b =
      ∑ j ∈ Finset.range Ny, (∑ i ∈ Finset.range Nx, x j i * rootPow Nx ((b : ℤ) * i)) * rootPow Ny ((a : ℤ) * j) := by
  simp only [dft2, Tab2.get_tab, Tab1.get_tab, dft1_eq]
  apply Finset.sum_congr rfl
  intro j _
  have ty : twiddle RC (1.0 : ℝ) Ny (a * j % Ny) = rootPow Ny ((a : ℤ) * j) := by
    rw [twiddle_pos _ _ hy, rootPow_natmod _ _ hy]; push_cast; rfl
  rw [ty]
  congr 1
  apply Finset.sum_congr rfl
  intro i _
  have tx : twiddle RC (1.0 : ℝ) Nx (b * i % Nx) = rootPow Nx ((b : ℤ) * i) := by
    rw [twiddle_pos _ _ hx, rootPow_natmod _ _ hx]; push_cast; rfl
  rw [tx]

/-- … and with exponent sign `−` -/
theorem dft2_neg (Ny Nx : ℕ) (hy : 0 < Ny) (hx : 0 < Nx) (x : ℕ → ℕ → ℂ) (a b : ℕ) :
    (dft2 RC (-1.0 : ℝ) Ny Nx x).get a b =
      ∑ j ∈ Finset.range Ny, (∑ i ∈ Finset.range Nx, x j i * rootPow Nx (-((b : ℤ) * i))) * rootPow Ny (-((a : ℤ) * j)) := by
  simp only [dft2, Tab2.get_tab, Tab1.get_tab, dft1_eq]
  apply Finset.sum_congr rfl
  intro j _
  have ty : twiddle RC (-1.0 : ℝ) Ny (a * j % Ny) = rootPow Ny (-((a : ℤ) * j)) := by
    rw [twiddle_neg _ _ hy, rootPow_neg, rootPow_natmod _ _ hy, ← rootPow_neg]; push_cast; rfl
  rw [ty]
  congr 1
  apply Finset.sum_congr rfl
  intro i _
  have tx : twiddle RC (-1.0 : ℝ) Nx (b * i % Nx) = rootPow Nx (-((b : ℤ) * i)) := by
    rw [twiddle_neg _ _ hx, rootPow_neg, rootPow_natmod _ _ hx, ← rootPow_neg]; push_cast; rfl
  rw [tx]

/-- the position of a slot is its signed frequency modulo `N` -/
theorem slotPos_cast (N nl a : ℕ) (hadm : Admissible N nl) (ha : a < nl) :
    ((slotPos N nl a : ℕ) : ℤ) = sfreq nl a ∨ ((slotPos N nl a : ℕ) : ℤ) = sfreq nl a + N := by
  obtain ⟨_, hle, _⟩ := hadm
  unfold slotPos sfreq
  split
  · left; rfl
  · right
    push_cast [Nat.cast_sub (by omega : nl - a ≤ N), Nat.cast_sub ha.le]
    ring

theorem rootPow_slotPos (N nl a : ℕ) (hN : 0 < N) (hadm : Admissible N nl) (ha : a < nl) (s : ℤ) (j : ℕ) :
    rootPow N (s * ((slotPos N nl a : ℕ) : ℤ) * j) = rootPow N (s * sfreq nl a * j) := by
  rcases slotPos_cast N nl a hadm ha with h | h
  · rw [h]
  · rw [h]
    have : s * (sfreq nl a + (N : ℤ)) * (j : ℤ) = s * sfreq nl a * j + N * (s * j) := by ring
    rw [this, rootPow_add_mul N hN]

/-- 1-D re-indexing: a length-`N` spectrum that is `G a` at the position of slot `a` and zero elsewhere,
summed against any kernel `h`, is the sum over the retained slots -/
theorem sum_over_slots (N nl : ℕ) (hadm : Admissible N nl) (U : ℕ → ℂ) (G : ℕ → ℂ) (h : ℕ → ℂ)
    (hhit : ∀ a, a < nl → U (slotPos N nl a) = G a)
    (hmiss : ∀ A, A < N → (¬∃ a, a < nl ∧ slotPos N nl a = A) → U A = 0) :
    ∑ A ∈ Finset.range N, U A * h A = ∑ a ∈ Finset.range nl, G a * h (slotPos N nl a) := by
  have himg : (Finset.range nl).image (slotPos N nl) ⊆ Finset.range N := by
    intro A hA
    simp only [Finset.mem_image, Finset.mem_range] at hA ⊢
    obtain ⟨a, ha, rfl⟩ := hA
    exact slotPos_lt N nl a hadm ha
  rw [← Finset.sum_subset himg]
  · rw [Finset.sum_image]
    · apply Finset.sum_congr rfl
      intro a ha
      rw [hhit a (Finset.mem_range.mp ha)]
    · intro a ha b hb hab
      exact slotPos_inj N nl a b hadm (Finset.mem_range.mp ha) (Finset.mem_range.mp hb) hab
  · intro A hA hnot
    simp only [Finset.mem_image, Finset.mem_range, not_exists, not_and] at hnot hA
    rw [hmiss A hA (by rintro ⟨a, ha, rfl⟩; exact hnot a ha rfl), zero_mul]

end BLDFM.Spec
