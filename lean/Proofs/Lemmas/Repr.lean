/-
  Spectral representation of the solver's output field: through the model's `dft2`, `untrunc`,
  twiddle tables and index shifts, the padded-domain field is the trigonometric sum over the retained
  slots with their SIGNED frequencies (both parities of the padded sizes).
-/
import Proofs.Lemmas.Spec
import Proofs.Lemmas.Tactics
import Proofs.Lemmas.Index
import Proofs.Lemmas.Phase
import Mathlib.Algebra.BigOperators.Group.Finset.Basic
import Mathlib.Algebra.BigOperators.Ring.Finset

open BLDFM BLDFM.Spec BLDFM.Index

namespace BLDFM.Spec

theorem zero_lit : (0.0 : ℂ) = 0 := by norm_num

/-- the model's 1-D DFT sum as a `Finset` sum -/
theorem dft1_eq (tw : ℕ → ℂ) (N : ℕ) (x : ℕ → ℂ) (a : ℕ) :
    dft1 tw N x a = ∑ j ∈ Finset.range N, x j * tw (a * j) := by
  unfold dft1
  rw [zero_lit, sumN_eq_sum]

/-- the model's 2-D transform with exponent sign `+` -/
theorem dft2_pos (Ny Nx : ℕ) (hy : 0 < Ny) (hx : 0 < Nx) (x : ℕ → ℕ → ℂ) (a b : ℕ) :
    (dft2 RC (1.0 : ℝ) Ny Nx x).get a b =
      ∑ j ∈ Finset.range Ny, (∑ i ∈ Finset.range Nx, x j i * rootPow Nx ((b : ℤ) * i)) * rootPow Ny ((a : ℤ) * j) := by
  simp only [dft2, Tab2.get_tab, Tab1.get_tab, dft1_eq]
  apply Finset.sum_congr rfl
  intro j _
  have ty : twiddle RC (1.0 : ℝ) Ny (a * j % Ny) = rootPow Ny ((a : ℤ) * j) := by
    rw [twiddle_pos _ _ hy, rootPow_natmod _ _ hy]; push_cast; rfl
  rw [ty]
  congr 1
  apply Finset.sum_congr rfl
  intro i _
  have tx : twiddle RC (1.0 : ℝ) Nx (b * i % Nx) = rootPow Nx ((b : ℤ) * i) := by
    rw [twiddle_pos _ _ hx, rootPow_natmod _ _ hx]; push_cast; rfl
  rw [tx]

/-- … and with exponent sign `−` -/
theorem dft2_neg (Ny Nx : ℕ) (hy : 0 < Ny) (hx : 0 < Nx) (x : ℕ → ℕ → ℂ) (a b : ℕ) :
    (dft2 RC (-1.0 : ℝ) Ny Nx x).get a b =
      ∑ j ∈ Finset.range Ny, (∑ i ∈ Finset.range Nx, x j i * rootPow Nx (-((b : ℤ) * i))) * rootPow Ny (-((a : ℤ) * j)) := by
  simp only [dft2, Tab2.get_tab, Tab1.get_tab, dft1_eq]
  apply Finset.sum_congr rfl
  intro j _
  have ty : twiddle RC (-1.0 : ℝ) Ny (a * j % Ny) = rootPow Ny (-((a : ℤ) * j)) := by
    rw [twiddle_neg _ _ hy, rootPow_neg, rootPow_natmod _ _ hy, ← rootPow_neg]; push_cast; rfl
  rw [ty]
  congr 1
  apply Finset.sum_congr rfl
  intro i _
  have tx : twiddle RC (-1.0 : ℝ) Nx (b * i % Nx) = rootPow Nx (-((b : ℤ) * i)) := by
    rw [twiddle_neg _ _ hx, rootPow_neg, rootPow_natmod _ _ hx, ← rootPow_neg]; push_cast; rfl
  rw [tx]

/-- both signs at once: `s = 1` with `sr = 1.0` (inverse transform, dispersion mode) or `s = -1` with
`sr = -1.0` (forward transform, footprint mode) -/
def SignPair (s : ℤ) (sr : ℝ) : Prop := (s = 1 ∧ sr = 1.0) ∨ (s = -1 ∧ sr = -1.0)

theorem dft2_sgn (s : ℤ) (sr : ℝ) (hs : SignPair s sr) (Ny Nx : ℕ) (hy : 0 < Ny) (hx : 0 < Nx)
    (x : ℕ → ℕ → ℂ) (a b : ℕ) :
    (dft2 RC sr Ny Nx x).get a b =
      ∑ j ∈ Finset.range Ny, (∑ i ∈ Finset.range Nx, x j i * rootPow Nx (s * ((b : ℤ) * i))) * rootPow Ny (s * ((a : ℤ) * j)) := by
  rcases hs with ⟨rfl, rfl⟩ | ⟨rfl, rfl⟩
  · rw [dft2_pos _ _ hy hx]; simp only [one_mul]
  · rw [dft2_neg _ _ hy hx]; simp only [neg_one_mul]

/-- the position of a slot is its signed frequency modulo `N` -/
theorem slotPos_cast (N nl a : ℕ) (hadm : Admissible N nl) (ha : a < nl) :
    ((slotPos N nl a : ℕ) : ℤ) = sfreq nl a ∨ ((slotPos N nl a : ℕ) : ℤ) = sfreq nl a + N := by
  obtain ⟨_, hle, _⟩ := hadm
  unfold slotPos sfreq
  split
  · left; rfl
  · right
    push_cast [Nat.cast_sub (by omega : nl - a ≤ N), Nat.cast_sub ha.le]
    ring

theorem rootPow_slotPos (N nl a : ℕ) (hN : 0 < N) (hadm : Admissible N nl) (ha : a < nl) (s : ℤ) (j : ℕ) :
    rootPow N (s * ((slotPos N nl a : ℕ) : ℤ) * j) = rootPow N (s * sfreq nl a * j) := by
  rcases slotPos_cast N nl a hadm ha with h | h
  · rw [h]
  · rw [h]
    have : s * (sfreq nl a + (N : ℤ)) * (j : ℤ) = s * sfreq nl a * j + N * (s * j) := by ring
    rw [this, rootPow_add_mul N hN]

/-- 1-D re-indexing: a length-`N` spectrum that is `G a` at the position of slot `a` and zero elsewhere,
summed against any kernel `h`, is the sum over the retained slots -/
theorem sum_over_slots (N nl : ℕ) (hadm : Admissible N nl) (U : ℕ → ℂ) (G : ℕ → ℂ) (h : ℕ → ℂ)
    (hhit : ∀ a, a < nl → U (slotPos N nl a) = G a)
    (hmiss : ∀ A, A < N → (¬∃ a, a < nl ∧ slotPos N nl a = A) → U A = 0) :
    ∑ A ∈ Finset.range N, U A * h A = ∑ a ∈ Finset.range nl, G a * h (slotPos N nl a) := by
  have himg : (Finset.range nl).image (slotPos N nl) ⊆ Finset.range N := by
    intro A hA
    simp only [Finset.mem_image, Finset.mem_range] at hA ⊢
    obtain ⟨a, ha, rfl⟩ := hA
    exact slotPos_lt N nl a hadm ha
  rw [← Finset.sum_subset himg]
  · rw [Finset.sum_image]
    · apply Finset.sum_congr rfl
      intro a ha
      rw [hhit a (Finset.mem_range.mp ha)]
    · intro a ha b hb hab
      exact slotPos_inj N nl a b hadm (Finset.mem_range.mp ha) (Finset.mem_range.mp hb) hab
  · intro A hA hnot
    simp only [Finset.mem_image, Finset.mem_range, not_exists, not_and] at hnot hA
    rw [hmiss A hA (by rintro ⟨a, ha, rfl⟩; exact hnot a ha rfl), zero_mul]

/-- geometry hypotheses shared by the field-level theorems (all provable from the request by
`C11.geom_admissible`) -/
structure GeomOK (g : Geom ℝ) : Prop where
  ady : Admissible g.nye g.nly
  adx : Admissible g.nxe g.nlx
  hdy : g.dly = (g.nye - g.nly) / 2
  hdx : g.dlx = (g.nxe - g.nlx) / 2

theorem GeomOK.Nx_pos {g : Geom ℝ} (h : GeomOK g) : 0 < g.nxe := lt_of_lt_of_le h.adx.1 h.adx.2.1
theorem GeomOK.Ny_pos {g : Geom ℝ} (h : GeomOK g) : 0 < g.nye := lt_of_lt_of_le h.ady.1 h.ady.2.1

/-- 1-D window/slot description of `untrunc` along one axis -/
def untrunc1 (N nl : ℕ) (G : ℕ → ℂ) (A : ℕ) : ℂ :=
  if (N - nl) / 2 ≤ ifftshiftIdx N A ∧ ifftshiftIdx N A < (N - nl) / 2 + nl
  then G (fftshiftIdx nl (ifftshiftIdx N A - (N - nl) / 2)) else 0

theorem untrunc1_hit (N nl : ℕ) (hadm : Admissible N nl) (G : ℕ → ℂ) (a : ℕ) (ha : a < nl) :
    untrunc1 N nl G (slotPos N nl a) = G a := by
  obtain ⟨⟨w1, w2⟩, e⟩ := untrunc_index_hit N nl a hadm ha
  unfold untrunc1
  rw [if_pos ⟨w1, w2⟩, e]

theorem untrunc1_miss (N nl : ℕ) (hadm : Admissible N nl) (G : ℕ → ℂ) (A : ℕ) (hA : A < N)
    (hno : ¬∃ a, a < nl ∧ slotPos N nl a = A) : untrunc1 N nl G A = 0 := by
  unfold untrunc1
  split
  · rename_i h
    exfalso
    obtain ⟨a, ha, hs, _⟩ := untrunc_index_window N nl A hadm hA ⟨h.1, h.2⟩
    exact hno ⟨a, ha, hs⟩
  · rfl

/-- the model's 2-D `untrunc` is the composition of the two 1-D ones -/
theorem untrunc_eq (g : Geom ℝ) (hg : GeomOK g) (T : ℕ → ℕ → ℂ) (A B : ℕ) :
    untrunc g T A B = untrunc1 g.nye g.nly (fun a => untrunc1 g.nxe g.nlx (fun b => T a b) B) A := by
  unfold untrunc untrunc1
  simp only [hg.hdy, hg.hdx]
  by_cases hy : (g.nye - g.nly) / 2 ≤ ifftshiftIdx g.nye A ∧ ifftshiftIdx g.nye A < (g.nye - g.nly) / 2 + g.nly
  · by_cases hx : (g.nxe - g.nlx) / 2 ≤ ifftshiftIdx g.nxe B ∧ ifftshiftIdx g.nxe B < (g.nxe - g.nlx) / 2 + g.nlx
    · rw [if_pos ⟨hy.1, hy.2, hx.1, hx.2⟩, if_pos hy, if_pos hx]
    · rw [if_neg (by tauto), if_pos hy, if_neg hx]
      norm_num
  · rw [if_neg (by tauto), if_neg hy]
    norm_num

/-- SPECTRAL REPRESENTATION.  The padded-domain field produced from the truncated coefficient table `T`
is the trigonometric sum over the retained slots, each at its own SIGNED frequency:
`field[j, i] = Σ_{a<nly} Σ_{b<nlx} T a b · ω_x^{s f(b) i} · ω_y^{s f(a) j}` (`s = +1` dispersion, `−1` footprint) -/
theorem solver_repr (s : ℤ) (sr : ℝ) (hs : SignPair s sr) (g : Geom ℝ) (hg : GeomOK g) (T : ℕ → ℕ → ℂ) (j i : ℕ) :
    (dft2 RC sr g.nye g.nxe (untrunc g T)).get j i =
      ∑ a ∈ Finset.range g.nly, ∑ b ∈ Finset.range g.nlx,
        T a b * rootPow g.nxe (s * sfreq g.nlx b * i) * rootPow g.nye (s * sfreq g.nly a * j) := by
  have hNx := hg.Nx_pos
  have hNy := hg.Ny_pos
  rw [dft2_sgn s sr hs _ _ hNy hNx]
  -- note: in `dft2_pos` the OUTPUT index pair is (j, i) and the summation runs over spectrum indices (A, B)
  simp only [untrunc_eq g hg]
  -- inner sum over B for fixed A
  have inner : ∀ A, ∑ B ∈ Finset.range g.nxe,
      untrunc1 g.nye g.nly (fun a => untrunc1 g.nxe g.nlx (fun b => T a b) B) A * rootPow g.nxe (s * ((i : ℤ) * B))
      = untrunc1 g.nye g.nly (fun a => ∑ b ∈ Finset.range g.nlx, T a b * rootPow g.nxe (s * sfreq g.nlx b * i)) A := by
    intro A
    unfold untrunc1
    split
    · have := sum_over_slots g.nxe g.nlx hg.adx
        (fun B => untrunc1 g.nxe g.nlx (fun b => T (fftshiftIdx g.nly (ifftshiftIdx g.nye A - (g.nye - g.nly) / 2)) b) B)
        (fun b => T (fftshiftIdx g.nly (ifftshiftIdx g.nye A - (g.nye - g.nly) / 2)) b)
        (fun B => rootPow g.nxe (s * ((i : ℤ) * B)))
        (fun b hb => untrunc1_hit g.nxe g.nlx hg.adx _ b hb)
        (fun B hB hno => untrunc1_miss g.nxe g.nlx hg.adx _ B hB hno)
      simp only [untrunc1] at this
      rw [this]
      apply Finset.sum_congr rfl
      intro b hb
      congr 1
      have := rootPow_slotPos g.nxe g.nlx b hNx hg.adx (Finset.mem_range.mp hb) s i
      rw [← this]
      congr 1
      ring
    · simp
  simp only [inner]
  have outer := sum_over_slots g.nye g.nly hg.ady
    (fun A => untrunc1 g.nye g.nly (fun a => ∑ b ∈ Finset.range g.nlx, T a b * rootPow g.nxe (s * sfreq g.nlx b * i)) A)
    (fun a => ∑ b ∈ Finset.range g.nlx, T a b * rootPow g.nxe (s * sfreq g.nlx b * i))
    (fun A => rootPow g.nye (s * ((j : ℤ) * A)))
    (fun a ha => untrunc1_hit g.nye g.nly hg.ady _ a ha)
    (fun A hA hno => untrunc1_miss g.nye g.nly hg.ady _ A hA hno)
  rw [outer]
  apply Finset.sum_congr rfl
  intro a ha
  rw [Finset.sum_mul]
  apply Finset.sum_congr rfl
  intro b _
  congr 1
  have := rootPow_slotPos g.nye g.nly a hNy hg.ady (Finset.mem_range.mp ha) s j
  rw [← this]
  congr 1
  ring

end BLDFM.Spec
