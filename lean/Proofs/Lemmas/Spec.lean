/-
  Specification instance of the generic model: `R := ℝ`, `C := ℂ`, with Mathlib's
  functions.  All property theorems are stated on `… (F := RC)` or on the purely
  algebraic kernels at ℂ.
-/
import BLDFM
import Mathlib.Analysis.SpecialFunctions.Pow.Real
import Mathlib.Analysis.SpecialFunctions.Trigonometric.Arctan
import Mathlib.Analysis.SpecialFunctions.Complex.Arg
import Mathlib.Analysis.SpecialFunctions.Sqrt
import Mathlib.Analysis.SpecialFunctions.Pow.Complex

open BLDFM

namespace BLDFM.Spec

/-- exact-arithmetic instance of the function record -/
noncomputable def RC : Fns ℝ ℂ where
  ofReal := Complex.ofReal
  I := Complex.I
  re := Complex.re
  cexp := Complex.exp
  csqrt := fun z => z ^ ((1:ℂ) / 2)
  exp := Real.exp
  log := Real.log
  sqrt := Real.sqrt
  sin := Real.sin
  cos := Real.cos
  arctan := Real.arctan
  arctan2 := fun y x => Complex.arg ⟨x, y⟩
  rpow := fun x y => x ^ y
  pi := Real.pi
  natCast := fun n => (n : ℝ)
  truncNat := fun x => ⌊x⌋₊
  store32 := id

theorem sumN_eq_sum {α : Type} [AddCommMonoid α] (n : ℕ) (f : ℕ → α) :
    sumN (0 : α) n f = ∑ i ∈ Finset.range n, f i := by
  induction n with
  | zero => simp [sumN]
  | succ n ih => simp [sumN, ih, Finset.sum_range_succ]

@[simp] theorem Tab1.get_tab {α : Type} (n : ℕ) (f : ℕ → α) (i : ℕ) :
    (Tab1.tab n f).get i = f i := by
  unfold Tab1.get Tab1.tab
  split
  · simp
  · rfl

@[simp] theorem Tab2.get_tab {α : Type} (ny nx : ℕ) (f : ℕ → ℕ → α) (j i : ℕ) :
    (Tab2.tab ny nx f).get j i = f j i := by
  unfold Tab2.get Tab2.tab
  split
  · rename_i h
    simp only [Array.getElem_ofFn]
    have h1 : i < nx := h.1
    rw [Nat.mul_comm, Nat.mul_add_div (by omega), Nat.div_eq_of_lt h1, Nat.add_zero,
      Nat.mul_add_mod, Nat.mod_eq_of_lt h1]
  · rfl

end BLDFM.Spec
