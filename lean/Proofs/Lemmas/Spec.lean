/-
  Specification instance of the generic model: `R := ℝ`, `C := ℂ`, with Mathlib's
  functions.  All property theorems are stated on `… (F := RC)` or on the purely
  algebraic kernels at ℂ.
-/
import BLDFM
import Mathlib.Analysis.SpecialFunctions.Pow.Real
import Mathlib.Analysis.SpecialFunctions.Trigonometric.Arctan
import Mathlib.Analysis.SpecialFunctions.Complex.Arg
import Mathlib.Analysis.SpecialFunctions.Sqrt
import Mathlib.Analysis.SpecialFunctions.Pow.Complex
import Mathlib.Analysis.SpecialFunctions.Gamma.Basic

open BLDFM

namespace BLDFM.Spec

/-- exact-arithmetic instance of the function record -/
noncomputable def RC : Fns ℝ ℂ where
  ofReal := Complex.ofReal
  I := Complex.I
  re := Complex.re
  cexp := Complex.exp
  csqrt := fun z => z ^ ((1:ℂ) / 2)
  exp := Real.exp
  log := Real.log
  sqrt := Real.sqrt
  sin := Real.sin
  cos := Real.cos
  arctan := Real.arctan
  arctan2 := fun y x => Complex.arg ⟨x, y⟩
  rpow := fun x y => x ^ y
  pi := Real.pi
  gamma := Real.Gamma
  nan := 0
  natCast := fun n => (n : ℝ)
  truncNat := fun x => ⌊x⌋₊
  store32 := id

/-! field projections of `RC` (so that proofs need not unfold `RC` inside `geom RC req`) -/
theorem RC_ofReal (x : ℝ) : RC.ofReal x = (x : ℂ) := rfl
theorem RC_I : RC.I = Complex.I := rfl
theorem RC_re (z : ℂ) : RC.re z = z.re := rfl
theorem RC_cexp (z : ℂ) : RC.cexp z = Complex.exp z := rfl
theorem RC_exp (x : ℝ) : RC.exp x = Real.exp x := rfl
theorem RC_log (x : ℝ) : RC.log x = Real.log x := rfl
theorem RC_sqrt (x : ℝ) : RC.sqrt x = Real.sqrt x := rfl
theorem RC_sin (x : ℝ) : RC.sin x = Real.sin x := rfl
theorem RC_cos (x : ℝ) : RC.cos x = Real.cos x := rfl
theorem RC_arctan (x : ℝ) : RC.arctan x = Real.arctan x := rfl
theorem RC_rpow (x y : ℝ) : RC.rpow x y = x ^ y := rfl
theorem RC_pi : RC.pi = Real.pi := rfl
theorem RC_natCast (n : ℕ) : RC.natCast n = (n : ℝ) := rfl
theorem RC_truncNat (x : ℝ) : RC.truncNat x = ⌊x⌋₊ := rfl
theorem RC_store32 (z : ℂ) : RC.store32 z = z := rfl
theorem RC_gamma (x : ℝ) : RC.gamma x = Real.Gamma x := rfl
theorem RC_arctan2 (y x : ℝ) : RC.arctan2 y x = Complex.arg ⟨x, y⟩ := rfl

/-- rewrite applied `RC` projections to Mathlib's functions without unfolding `RC` where
it is merely passed along -/
macro "rc_norm" : tactic =>
  `(tactic| simp only [RC_ofReal, RC_I, RC_re, RC_cexp, RC_exp, RC_log, RC_sqrt, RC_sin, RC_cos,
      RC_arctan, RC_rpow, RC_pi, RC_natCast, RC_truncNat, RC_store32, RC_gamma])

theorem sumN_eq_sum {α : Type} [AddCommMonoid α] (n : ℕ) (f : ℕ → α) :
    sumN (0 : α) n f = ∑ i ∈ Finset.range n, f i := by
  induction n with
  | zero => simp [sumN]
  | succ n ih => simp [sumN, ih, Finset.sum_range_succ]

@[simp] theorem Tab1.get_tab {α : Type} (n : ℕ) (f : ℕ → α) (i : ℕ) :
    (Tab1.tab n f).get i = f i := by
  unfold Tab1.get Tab1.tab
  split
  · simp
  · rfl

@[simp] theorem Tab2.get_tab {α : Type} (ny nx : ℕ) (f : ℕ → ℕ → α) (j i : ℕ) :
    (Tab2.tab ny nx f).get j i = f j i := by
  unfold Tab2.get Tab2.tab
  split
  · rename_i h
    simp only [Array.getElem_ofFn]
    have h1 : i < nx := h.1
    rw [Nat.mul_comm, Nat.mul_add_div (by omega), Nat.div_eq_of_lt h1, Nat.add_zero,
      Nat.mul_add_mod, Nat.mod_eq_of_lt h1]
  · rfl

end BLDFM.Spec
