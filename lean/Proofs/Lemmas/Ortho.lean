/-
  Orthogonality of the roots of unity and its consequences for the spectral representation:
  the sum of the padded-domain field is `Nx·Ny` times its zero-wavenumber coefficient.
-/
import Proofs.Lemmas.Repr
import Mathlib.Algebra.Ring.GeomSum
import Mathlib.Algebra.Field.GeomSum
import Mathlib.Analysis.SpecialFunctions.Complex.Log

open BLDFM BLDFM.Spec BLDFM.Index

namespace BLDFM.Spec

theorem rootPow_eq_one_iff (N : ℕ) (hN : 0 < N) (m : ℤ) : rootPow N m = 1 ↔ (N : ℤ) ∣ m := by
  have hN' : (N : ℂ) ≠ 0 := by exact_mod_cast hN.ne'
  unfold rootPow
  rw [Complex.exp_eq_one_iff]
  constructor
  · rintro ⟨k, hk⟩
    have h2 : (2 * (Real.pi : ℂ) * Complex.I) ≠ 0 := by
      simp [Real.pi_ne_zero, Complex.I_ne_zero]
    have : (m : ℂ) = (N : ℂ) * (k : ℂ) := by
      field_simp at hk
      exact hk
    exact ⟨k, by exact_mod_cast this⟩
  · rintro ⟨k, rfl⟩
    exact ⟨k, by push_cast; field_simp⟩

/-- orthogonality: `Σ_{j<N} ω^{m j} = N` if `N ∣ m`, else `0` -/
theorem sum_rootPow (N : ℕ) (hN : 0 < N) (m : ℤ) :
    ∑ j ∈ Finset.range N, rootPow N (m * j) = if (N : ℤ) ∣ m then (N : ℂ) else 0 := by
  simp only [rootPow_mul_nat]
  split
  · rename_i h
    rw [(rootPow_eq_one_iff N hN m).mpr h]
    simp
  · rename_i h
    have hne : rootPow N m ≠ 1 := fun h1 => h ((rootPow_eq_one_iff N hN m).mp h1)
    have hpow : rootPow N m ^ N = 1 := by
      rw [← rootPow_mul_nat, (rootPow_eq_one_iff N hN _)]
      exact ⟨m, by ring⟩
    have hg := geom_sum_mul (rootPow N m) N
    rw [hpow, sub_self] at hg
    have : rootPow N m - 1 ≠ 0 := sub_ne_zero.mpr hne
    exact (mul_eq_zero.mp hg).resolve_right this

/-- a retained slot has frequency `≡ 0 (mod N)` only if it is the zero slot -/
theorem sfreq_dvd_iff (N nl a : ℕ) (hadm : Admissible N nl) (ha : a < nl) (s : ℤ) (hs : s = 1 ∨ s = -1) :
    (N : ℤ) ∣ s * sfreq nl a ↔ a = 0 := by
  obtain ⟨hpos, hle, hpar⟩ := hadm
  have hbound : -(N : ℤ) < sfreq nl a ∧ sfreq nl a < N := by
    unfold sfreq; split <;> constructor <;> omega
  constructor
  · intro hd
    have h0 : sfreq nl a = 0 := by
      rcases hs with rfl | rfl
      · rw [one_mul] at hd
        exact Int.eq_zero_of_abs_lt_dvd hd (abs_lt.mpr ⟨by omega, hbound.2⟩)
      · rw [neg_one_mul, Int.dvd_neg] at hd
        exact Int.eq_zero_of_abs_lt_dvd hd (abs_lt.mpr ⟨by omega, hbound.2⟩)
    unfold sfreq at h0
    split at h0 <;> omega
  · rintro rfl
    have : sfreq nl 0 = 0 := by unfold sfreq; rw [if_pos (by omega)]; rfl
    rw [this, mul_zero]
    exact dvd_zero _

theorem sum4_comm (J I A B : Finset ℕ) (F : ℕ → ℕ → ℕ → ℕ → ℂ) :
    ∑ j ∈ J, ∑ i ∈ I, ∑ a ∈ A, ∑ b ∈ B, F j i a b = ∑ a ∈ A, ∑ b ∈ B, ∑ j ∈ J, ∑ i ∈ I, F j i a b := by
  calc ∑ j ∈ J, ∑ i ∈ I, ∑ a ∈ A, ∑ b ∈ B, F j i a b
      = ∑ j ∈ J, ∑ a ∈ A, ∑ i ∈ I, ∑ b ∈ B, F j i a b := by
        apply Finset.sum_congr rfl; intro j _; exact Finset.sum_comm
    _ = ∑ a ∈ A, ∑ j ∈ J, ∑ i ∈ I, ∑ b ∈ B, F j i a b := Finset.sum_comm
    _ = ∑ a ∈ A, ∑ j ∈ J, ∑ b ∈ B, ∑ i ∈ I, F j i a b := by
        apply Finset.sum_congr rfl; intro a _; apply Finset.sum_congr rfl; intro j _; exact Finset.sum_comm
    _ = ∑ a ∈ A, ∑ b ∈ B, ∑ j ∈ J, ∑ i ∈ I, F j i a b := by
        apply Finset.sum_congr rfl; intro a _; exact Finset.sum_comm

/-- the sum of the padded-domain field over the whole periodic domain is `Nx·Ny` times the
coefficient of the zero slot -/
theorem field_sum_eq_dc (s : ℤ) (sr : ℝ) (hs : SignPair s sr) (g : Geom ℝ) (hg : GeomOK g) (T : ℕ → ℕ → ℂ) :
    ∑ j ∈ Finset.range g.nye, ∑ i ∈ Finset.range g.nxe, (dft2 RC sr g.nye g.nxe (untrunc g T)).get j i
      = (g.nye : ℂ) * (g.nxe : ℂ) * T 0 0 := by
  have hNx := hg.Nx_pos
  have hNy := hg.Ny_pos
  have hs1 : s = 1 ∨ s = -1 := by rcases hs with ⟨h, _⟩ | ⟨h, _⟩ <;> simp [h]
  simp only [solver_repr s sr hs g hg]
  rw [sum4_comm]
  have inner : ∀ a b, ∑ j ∈ Finset.range g.nye, ∑ i ∈ Finset.range g.nxe,
      T a b * rootPow g.nxe (s * sfreq g.nlx b * i) * rootPow g.nye (s * sfreq g.nly a * j)
      = T a b * (if (g.nxe : ℤ) ∣ s * sfreq g.nlx b then (g.nxe : ℂ) else 0)
          * (if (g.nye : ℤ) ∣ s * sfreq g.nly a then (g.nye : ℂ) else 0) := by
    intro a b
    rw [← sum_rootPow _ hNx, ← sum_rootPow _ hNy, mul_assoc, Finset.sum_mul_sum, Finset.mul_sum, Finset.sum_comm]
    apply Finset.sum_congr rfl; intro j _
    rw [Finset.mul_sum]
    apply Finset.sum_congr rfl; intro i _
    ring
  simp only [inner]
  have hx0 : 0 < g.nlx := hg.adx.1
  have hy0 : 0 < g.nly := hg.ady.1
  rw [Finset.sum_eq_single_of_mem 0 (Finset.mem_range.mpr hy0)]
  · rw [Finset.sum_eq_single_of_mem 0 (Finset.mem_range.mpr hx0)]
    · rw [if_pos ((sfreq_dvd_iff _ _ 0 hg.adx hx0 s hs1).mpr rfl), if_pos ((sfreq_dvd_iff _ _ 0 hg.ady hy0 s hs1).mpr rfl)]
      ring
    · intro b hb hb0
      rw [if_neg (fun h => hb0 ((sfreq_dvd_iff _ _ b hg.adx (Finset.mem_range.mp hb) s hs1).mp h))]
      ring
  · intro a ha ha0
    apply Finset.sum_eq_zero
    intro b _
    rw [if_neg (fun h => ha0 ((sfreq_dvd_iff _ _ a hg.ady (Finset.mem_range.mp ha) s hs1).mp h))]
    ring

end BLDFM.Spec
