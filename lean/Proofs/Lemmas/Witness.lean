/-
  Non-vacuity: a concrete request that satisfies the standing hypotheses of the field-level theorems
  (`GeomOK`, `DenOK`, double precision), so that none of them is an implication with an unsatisfiable premise.
  The grid is odd × even with a non-trivial truncation.
-/
import Proofs.Lemmas.Spec
import Proofs.Lemmas.Repr
import Proofs.C02b
import Proofs.C03b

open BLDFM BLDFM.Spec BLDFM.Index

namespace BLDFM.Witness

/-- 5 × 4 cells, 3 nodes, uniform profiles, 2 × 2 retained modes, halo 0, analytic mode -/
noncomputable def wreq (fp : Bool) : SolveReq ℝ where
  ny := 4
  nx := 5
  nz := 3
  q := fun j i => (j : ℝ) + 2 * i
  z := fun k => 1 + k
  P := { u := fun _ => 3, v := fun _ => 1, Kx := fun _ => 1, Ky := fun _ => 2, Kz := fun _ => 1 }
  xmx := 50
  ymx := 40
  levels := [2, 0]
  nlx := 2
  nly := 2
  xm := 10
  ym := 10
  bg := 7
  footprint := fp
  analytic := true
  halo := some 0
  precision := .double

theorem wreq_geomOK (fp : Bool) : GeomOK (geom RC (wreq fp)) :=
  C03.geomOK_of_request (wreq fp) (by simp [wreq]) (by simp [wreq]) (by simp [wreq]) (by simp [wreq]) (by simp [wreq]) (by simp [wreq])

theorem wreq_denOK (fp : Bool) : C02.DenOK (wreq fp) := by
  intro h
  exact absurd h (by simp [wreq])

theorem wreq_double (fp : Bool) : (wreq fp).precision = .double := rfl

end BLDFM.Witness
