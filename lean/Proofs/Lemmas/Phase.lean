/-
  Phase factors: wavenumber × grid offset = 2π · (signed frequency) · (cell count) / N.
-/
import Proofs.Lemmas.Spec
import Proofs.Lemmas.Tactics
import Mathlib.Analysis.SpecialFunctions.Trigonometric.Basic
import Mathlib.Analysis.SpecialFunctions.Complex.Circle

open BLDFM BLDFM.Spec

namespace BLDFM.Spec

/-- `exp(2πi m / N)` for an integer `m` -/
noncomputable def rootPow (N : ℕ) (m : ℤ) : ℂ :=
  Complex.exp (2 * Real.pi * Complex.I * (m : ℂ) / (N : ℂ))

theorem rootPow_zero (N : ℕ) : rootPow N 0 = 1 := by simp [rootPow]

theorem rootPow_add (N : ℕ) (m n : ℤ) : rootPow N (m + n) = rootPow N m * rootPow N n := by
  simp only [rootPow, ← Complex.exp_add]
  congr 1
  push_cast
  ring

theorem rootPow_neg (N : ℕ) (m : ℤ) : rootPow N (-m) = (rootPow N m)⁻¹ := by
  simp only [rootPow, ← Complex.exp_neg]
  congr 1
  push_cast
  ring

/-- periodicity: adding a multiple of `N` to the exponent changes nothing -/
theorem rootPow_add_mul (N : ℕ) (hN : 0 < N) (m t : ℤ) : rootPow N (m + N * t) = rootPow N m := by
  have hN' : (N : ℂ) ≠ 0 := by exact_mod_cast hN.ne'
  simp only [rootPow]
  have : 2 * (Real.pi : ℂ) * Complex.I * ((m + N * t : ℤ) : ℂ) / (N : ℂ)
      = 2 * Real.pi * Complex.I * (m : ℂ) / (N : ℂ) + (t : ℂ) * (2 * Real.pi * Complex.I) := by
    push_cast; field_simp
  rw [this, Complex.exp_add, Complex.exp_int_mul_two_pi_mul_I, mul_one]

theorem rootPow_emod (N : ℕ) (hN : 0 < N) (m : ℤ) : rootPow N (m % N) = rootPow N m := by
  conv_rhs => rw [← Int.emod_add_mul_ediv m N]
  rw [rootPow_add_mul N hN]

theorem rootPow_mul_nat (N : ℕ) (m : ℤ) (j : ℕ) : rootPow N (m * j) = (rootPow N m) ^ j := by
  simp only [rootPow, ← Complex.exp_nat_mul]
  congr 1
  push_cast
  ring

/-- signed frequency of slot `a` of a length-`n` spectrum (numpy `fftfreq(n, 1/n)`) -/
def sfreq (n a : ℕ) : ℤ := if a < (n + 1) / 2 then (a : ℤ) else (a : ℤ) - (n : ℤ)

theorem freqR_eq (n a : ℕ) (ha : a < n) : freqR RC n a = ((sfreq n a : ℤ) : ℝ) := by
  unfold freqR sfreq
  split
  · simp [RC]
  · simp only [RC]
    push_cast [Nat.cast_sub ha.le]
    ring

theorem rootPow_natmod (N k : ℕ) (hN : 0 < N) : rootPow N ((k % N : ℕ) : ℤ) = rootPow N k := by
  rw [Int.natCast_mod, rootPow_emod N hN]

/-- the model's twiddle factor is a root-of-unity power -/
theorem twiddle_pos (N k : ℕ) (hN : 0 < N) : twiddle RC (1.0 : ℝ) N k = rootPow N k := by
  rw [← rootPow_natmod N k hN]
  simp only [twiddle, rootPow, RC]
  generalize k % N = r
  congr 1
  push_cast
  norm_num
  ring

theorem twiddle_neg (N k : ℕ) (hN : 0 < N) : twiddle RC (-1.0 : ℝ) N k = rootPow N (-(k : ℤ)) := by
  rw [rootPow_neg, ← rootPow_natmod N k hN, ← rootPow_neg]
  simp only [twiddle, rootPow, RC]
  generalize k % N = r
  congr 1
  push_cast
  norm_num
  ring

/-- wavenumber times a whole number of cells: `Lx · (c · dx) = 2π f(b) c / Nx` -/
theorem waveX_cells (g : Geom ℝ) (b : ℕ) (c : ℝ) (hb : b < g.nlx) (hdx : g.dx ≠ 0) (hN : 0 < g.nxe) :
    waveX RC g b * (c * g.dx) = 2 * Real.pi * (sfreq g.nlx b : ℤ) * c / g.nxe := by
  have hN' : (g.nxe : ℝ) ≠ 0 := by exact_mod_cast hN.ne'
  rw [waveX, freqR_eq _ _ hb]
  simp only [RC]
  norm_num
  field_simp

theorem waveY_cells (g : Geom ℝ) (a : ℕ) (c : ℝ) (ha : a < g.nly) (hdy : g.dy ≠ 0) (hN : 0 < g.nye) :
    waveY RC g a * (c * g.dy) = 2 * Real.pi * (sfreq g.nly a : ℤ) * c / g.nye := by
  have hN' : (g.nye : ℝ) ≠ 0 := by exact_mod_cast hN.ne'
  rw [waveY, freqR_eq _ _ ha]
  simp only [RC]
  norm_num
  field_simp

end BLDFM.Spec
