import Mathlib.Tactic.Ring
import Mathlib.Tactic.NormNum
import Mathlib.Tactic.FieldSimp
import Mathlib.Tactic.Push
import Mathlib.Tactic.Linarith
import Mathlib.Tactic.Positivity

/-- close an algebraic identity between a generated kernel and its model:
casts pushed inward, scientific literals evaluated (`ring` alone mis-handles
`OfScientific` literals at ℂ), then commutative-ring normalisation. -/
macro "bridge_ring" : tactic =>
  `(tactic| (push_cast; (try norm_num); (try ring_nf); (try ring)))
