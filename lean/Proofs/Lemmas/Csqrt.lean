/-
  Principal complex square root as used by the model (`RC.csqrt w = w ^ (1/2)`).
-/
import Proofs.Lemmas.Spec
import Proofs.Lemmas.Tactics
import Mathlib.Analysis.SpecialFunctions.Complex.Log

open BLDFM BLDFM.Spec

namespace BLDFM.Spec

theorem csqrt_def (w : ℂ) : RC.csqrt w = w ^ ((1 : ℂ) / 2) := rfl

theorem csqrt_sq (w : ℂ) : (RC.csqrt w) ^ 2 = w := by
  have h := Complex.cpow_nat_inv_pow w (n := 2) (by norm_num)
  simpa [csqrt_def, one_div] using h

theorem csqrt_zero : RC.csqrt 0 = 0 := by
  simp [csqrt_def]

/-- the principal root lies in the closed right half plane: the continuation
`exp(-λ (z - z_top))` above the top node does not grow -/
theorem csqrt_re_nonneg (w : ℂ) : 0 ≤ (RC.csqrt w).re := by
  by_cases hw : w = 0
  · simp [hw, csqrt_zero]
  · rw [csqrt_def, Complex.cpow_def_of_ne_zero hw, Complex.exp_re]
    apply mul_nonneg (Real.exp_pos _).le
    apply Real.cos_nonneg_of_mem_Icc
    have h1 := Complex.neg_pi_lt_arg w
    have h2 := Complex.arg_le_pi w
    have him : (Complex.log w * (1 / 2)).im = Complex.arg w / 2 := by
      simp [Complex.log_im]; ring
    rw [him]
    constructor <;> linarith [Real.pi_pos]

/-- the root is strictly decaying unless the radicand is a non-positive real -/
theorem csqrt_re_pos (w : ℂ) (hw : w ≠ 0) (harg : Complex.arg w ≠ Real.pi) : 0 < (RC.csqrt w).re := by
  rw [csqrt_def, Complex.cpow_def_of_ne_zero hw, Complex.exp_re]
  apply mul_pos (Real.exp_pos _)
  apply Real.cos_pos_of_mem_Ioo
  have h1 := Complex.neg_pi_lt_arg w
  have h2 := lt_of_le_of_ne (Complex.arg_le_pi w) harg
  have him : (Complex.log w * (1 / 2)).im = Complex.arg w / 2 := by
    simp [Complex.log_im]; ring
  rw [him]
  constructor <;> linarith [Real.pi_pos]

/-- scaling the radicand by a positive real square scales the principal root -/
theorem csqrt_div_sq (w : ℂ) (s : ℝ) (hs : 0 < s) :
    RC.csqrt (w / (s : ℂ) ^ 2) = RC.csqrt w / (s : ℂ) := by
  by_cases hw : w = 0
  · simp [hw, csqrt_zero]
  · have hs0 : (s : ℂ) ≠ 0 := by exact_mod_cast hs.ne'
    have hinv : (0 : ℝ) < (s ^ 2)⁻¹ := by positivity
    have hdiv : w / (s : ℂ) ^ 2 = (((s ^ 2)⁻¹ : ℝ) : ℂ) * w := by
      push_cast; field_simp
    have hne : w / (s : ℂ) ^ 2 ≠ 0 := div_ne_zero hw (pow_ne_zero 2 hs0)
    rw [csqrt_def, csqrt_def, Complex.cpow_def_of_ne_zero hne, Complex.cpow_def_of_ne_zero hw, hdiv,
      Complex.log_ofReal_mul hinv hw]
    have hlog : ((Real.log (s ^ 2)⁻¹ : ℝ) : ℂ) = -2 * (Real.log s : ℝ) := by
      rw [Real.log_inv, Real.log_pow]; push_cast; ring
    rw [hlog, add_mul, Complex.exp_add]
    have : Complex.exp (-2 * ((Real.log s : ℝ) : ℂ) * (1 / 2)) = (s : ℂ)⁻¹ := by
      have : -2 * ((Real.log s : ℝ) : ℂ) * (1 / 2) = ((-(Real.log s) : ℝ) : ℂ) := by push_cast; ring
      rw [this, ← Complex.ofReal_exp, Real.exp_neg, Real.exp_log hs]; push_cast; rfl
    rw [this]; field_simp

end BLDFM.Spec
