/-
  Index alignment of the truncated spectrum (pure natural-number arithmetic, both
  parities of the padded size `N`):  slot `a` of the truncated, un-shifted spectrum
  holds the component of signed frequency `f(a)` (numpy `fftfreq`), i.e. entry
  `f(a) mod N` of the full spectrum, on the way in (`truncSrc`) and on the way back
  (`untrunc`).
-/
import BLDFM
import Mathlib.Tactic.Ring
import Mathlib.Tactic.Linarith

open BLDFM

namespace BLDFM.Index

/-- position of signed frequency `f(a)` (slot `a` of a length-`nl` spectrum) in a
length-`N` spectrum: `f(a) mod N` -/
def slotPos (N nl a : ℕ) : ℕ := if a < (nl + 1) / 2 then a else N - (nl - a)

theorem mod_sub_of_range {x N : ℕ} (h1 : N ≤ x) (h2 : x < 2 * N) : x % N = x - N := by
  rw [Nat.mod_eq_sub_mod h1, Nat.mod_eq_of_lt (by omega)]

/-- the admissible (padded size, mode count) pairs after the clamp: `nl ≤ N` and
either `nl` even or the spectrum is kept whole -/
def Admissible (N nl : ℕ) : Prop := 0 < nl ∧ nl ≤ N ∧ (nl % 2 = 0 ∨ nl = N)

/-- truncation: `ifftshift(fftshift(F)[d : d+nl])[a] = F[f(a) mod N]` -/
theorem trunc_index (N nl a : ℕ) (hadm : Admissible N nl) (ha : a < nl) :
    truncSrc N nl ((N - nl) / 2) a = slotPos N nl a := by
  obtain ⟨hpos, hle, hpar⟩ := hadm
  unfold truncSrc fftshiftIdx ifftshiftIdx slotPos
  by_cases h1 : a < (nl + 1) / 2
  · rw [if_pos h1]
    have e1 : (a + nl / 2) % nl = a + nl / 2 := by
      apply Nat.mod_eq_of_lt
      rcases hpar with h | h <;> omega
    rw [e1]
    have e2 : a + nl / 2 + (N - nl) / 2 + N - N / 2 = a + N := by
      rcases hpar with h | h <;> omega
    rw [e2, Nat.add_mod_right, Nat.mod_eq_of_lt (by omega)]
  · rw [if_neg h1]
    have e1 : (a + nl / 2) % nl = a + nl / 2 - nl := by
      apply mod_sub_of_range <;> omega
    rw [e1]
    have e2 : a + nl / 2 - nl + (N - nl) / 2 + N - N / 2 = N - (nl - a) := by
      rcases hpar with h | h <;> omega
    rw [e2, Nat.mod_eq_of_lt (by omega)]

/-- window test and source slot used by `untrunc` for the full-spectrum index `A` -/
def inWindow (N nl A : ℕ) : Prop :=
  (N - nl) / 2 ≤ ifftshiftIdx N A ∧ ifftshiftIdx N A < (N - nl) / 2 + nl

/-- un-truncation hits: the full-spectrum entry at `f(a) mod N` is slot `a` -/
theorem untrunc_index_hit (N nl a : ℕ) (hadm : Admissible N nl) (ha : a < nl) :
    inWindow N nl (slotPos N nl a) ∧
      fftshiftIdx nl (ifftshiftIdx N (slotPos N nl a) - (N - nl) / 2) = a := by
  obtain ⟨hpos, hle, hpar⟩ := hadm
  unfold inWindow fftshiftIdx ifftshiftIdx slotPos
  by_cases h1 : a < (nl + 1) / 2
  · simp only [if_pos h1]
    have e1 : (a + N / 2) % N = a + N / 2 := by
      apply Nat.mod_eq_of_lt
      rcases hpar with h | h <;> omega
    rw [e1]
    refine ⟨⟨by omega, by rcases hpar with h | h <;> omega⟩, ?_⟩
    have e2 : a + N / 2 - (N - nl) / 2 + nl - nl / 2 = a + nl := by
      rcases hpar with h | h <;> omega
    rw [e2, Nat.add_mod_right, Nat.mod_eq_of_lt ha]
  · simp only [if_neg h1]
    have e1 : (N - (nl - a) + N / 2) % N = N - (nl - a) + N / 2 - N := by
      apply mod_sub_of_range <;> rcases hpar with h | h <;> omega
    rw [e1]
    refine ⟨⟨by rcases hpar with h | h <;> omega, by rcases hpar with h | h <;> omega⟩, ?_⟩
    have e2 : N - (nl - a) + N / 2 - N - (N - nl) / 2 + nl - nl / 2 = a := by
      rcases hpar with h | h <;> omega
    rw [e2, Nat.mod_eq_of_lt ha]

/-- the positions `f(a) mod N`, `a < nl`, are in range and pairwise distinct -/
theorem slotPos_lt (N nl a : ℕ) (hadm : Admissible N nl) (ha : a < nl) : slotPos N nl a < N := by
  obtain ⟨hpos, hle, hpar⟩ := hadm
  unfold slotPos
  split <;> omega

theorem slotPos_inj (N nl a b : ℕ) (hadm : Admissible N nl) (ha : a < nl) (hb : b < nl)
    (h : slotPos N nl a = slotPos N nl b) : a = b := by
  obtain ⟨hpos, hle, hpar⟩ := hadm
  unfold slotPos at h
  split at h <;> split at h <;> rcases hpar with hp | hp <;> omega

/-- un-truncation misses: every in-range index that is inside the window is some
`f(a) mod N`; equivalently an index that is no `f(a) mod N` gets 0 -/
theorem untrunc_index_window (N nl A : ℕ) (hadm : Admissible N nl) (hA : A < N)
    (hw : inWindow N nl A) :
    ∃ a, a < nl ∧ slotPos N nl a = A ∧ fftshiftIdx nl (ifftshiftIdx N A - (N - nl) / 2) = a := by
  obtain ⟨hpos, hle, hpar⟩ := hadm
  unfold inWindow ifftshiftIdx at hw
  by_cases hlow : A + N / 2 < N
  · -- non-negative frequency
    have e1 : (A + N / 2) % N = A + N / 2 := Nat.mod_eq_of_lt hlow
    rw [e1] at hw
    refine ⟨A, by rcases hpar with h | h <;> omega, ?_, ?_⟩
    · unfold slotPos; rw [if_pos (by rcases hpar with h | h <;> omega)]
    · unfold fftshiftIdx ifftshiftIdx
      rw [e1]
      have e2 : A + N / 2 - (N - nl) / 2 + nl - nl / 2 = A + nl := by
        rcases hpar with h | h <;> omega
      rw [e2, Nat.add_mod_right, Nat.mod_eq_of_lt (by rcases hpar with h | h <;> omega)]
  · have e1 : (A + N / 2) % N = A + N / 2 - N := by
      apply mod_sub_of_range <;> omega
    rw [e1] at hw
    refine ⟨nl - (N - A), by omega, ?_, ?_⟩
    · unfold slotPos
      rw [if_neg (by rcases hpar with h | h <;> omega)]
      omega
    · unfold fftshiftIdx ifftshiftIdx
      rw [e1]
      have e2 : A + N / 2 - N - (N - nl) / 2 + nl - nl / 2 = nl - (N - A) := by
        rcases hpar with h | h <;> omega
      rw [e2, Nat.mod_eq_of_lt (by omega)]

/-- the clamp yields admissible sizes whenever the request passed the even-modes check -/
theorem clamp_admissible (nlx nly nxe nye : ℕ) (hx : 0 < nxe) (hy : 0 < nye)
    (hex : nlx % 2 = 0) (hey : nly % 2 = 0) (hpx : 0 < nlx) (hpy : 0 < nly) :
    Admissible nxe (clampModes nlx nly nxe nye).1 ∧ Admissible nye (clampModes nlx nly nxe nye).2 := by
  unfold clampModes Admissible
  split
  · exact ⟨⟨hx, le_refl _, Or.inr rfl⟩, ⟨hy, le_refl _, Or.inr rfl⟩⟩
  · rename_i h
    simp only [not_or, not_lt] at h
    exact ⟨⟨hpx, h.1, Or.inl hex⟩, ⟨hpy, h.2, Or.inl hey⟩⟩

end BLDFM.Index
