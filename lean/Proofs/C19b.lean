/-
  C19 (mass clause, continuous part) — the crosswind-integrated Kormann–Meixner footprint
      f^y(x) = ξ^μ x^{-(1+μ)} e^{-ξ/x} / Γ(μ)           (x > 0)
  integrates to exactly ONE over the upwind half line, for every flux length scale `ξ > 0` and shape factor
  `μ > 0` (substitution `t = ξ/x` into Euler's integral).  The grid sum of the implemented footprint approximates
  this integral (times the crosswind Gaussian, which has unit mass); that approximation — and the finite-extent
  value, a regularised incomplete gamma function — is decided numerically by the oracle.
-/
import Mathlib.MeasureTheory.Integral.IntegralEqImproper
import Mathlib.Analysis.SpecialFunctions.Gamma.Basic
import Mathlib.Analysis.SpecialFunctions.Gaussian.GaussianIntegral
import Proofs.Lemmas.Spec
import Proofs.Lemmas.Tactics

open MeasureTheory Set Real

namespace BLDFM.C19

/-- `∫₀^∞ ξ^μ x^{-(1+μ)} e^{-ξ/x} dx = Γ(μ)` -/
theorem km_crosswind_integrated_integral (ξ μ : ℝ) (hξ : 0 < ξ) (hμ : 0 < μ) :
    ∫ x in Ioi (0 : ℝ), ξ ^ μ * x ^ (-(1 + μ)) * Real.exp (-ξ / x) = Real.Gamma μ := by
  -- Euler's integral, rescaled by ξ
  have h1 : ∫ t in Ioi (0 : ℝ), ξ ^ μ * t ^ (μ - 1) * Real.exp (-(ξ * t)) = Real.Gamma μ := by
    have h := integral_comp_mul_left_Ioi (fun s : ℝ => Real.exp (-s) * s ^ (μ - 1)) 0 hξ
    rw [mul_zero, ← Real.Gamma_eq_integral hμ] at h
    have e : ∀ t ∈ Ioi (0 : ℝ), ξ ^ μ * t ^ (μ - 1) * Real.exp (-(ξ * t))
        = ξ * (Real.exp (-(ξ * t)) * (ξ * t) ^ (μ - 1)) := by
      intro t ht
      have ht' : 0 < t := ht
      rw [Real.mul_rpow hξ.le ht'.le]
      have : ξ ^ μ = ξ * ξ ^ (μ - 1) := by
        rw [← Real.rpow_one_add' hξ.le (by linarith)]
        congr 1; ring
      rw [this]; ring
    rw [setIntegral_congr_fun measurableSet_Ioi e, integral_const_mul, h, smul_eq_mul, ← mul_assoc,
      mul_inv_cancel₀ hξ.ne', one_mul]
  -- substitution t = x⁻¹
  have h2 := integral_comp_rpow_Ioi (fun t : ℝ => ξ ^ μ * t ^ (μ - 1) * Real.exp (-(ξ * t))) (p := -1) (by norm_num)
  rw [h1] at h2
  rw [← h2]
  apply setIntegral_congr_fun measurableSet_Ioi
  intro x hx
  have hx' : 0 < x := hx
  simp only [smul_eq_mul, abs_neg, abs_one, one_mul]
  have e1 : (x ^ (-1 : ℝ)) ^ (μ - 1) = x ^ (-(μ - 1)) := by
    rw [← Real.rpow_mul hx'.le]; congr 1; ring
  have e2 : ξ * x ^ (-1 : ℝ) = ξ / x := by
    rw [Real.rpow_neg_one]; rfl
  rw [e1, e2]
  have e3 : x ^ ((-1 : ℝ) - 1) * (ξ ^ μ * x ^ (-(μ - 1)) * Real.exp (-(ξ / x)))
      = ξ ^ μ * (x ^ ((-1 : ℝ) - 1) * x ^ (-(μ - 1))) * Real.exp (-(ξ / x)) := by ring
  rw [e3, ← Real.rpow_add hx']
  congr 2
  · congr 1; ring
  · congr 1; ring

/-- the crosswind-integrated footprint has unit mass -/
theorem km_crosswind_integrated_unit_mass (ξ μ : ℝ) (hξ : 0 < ξ) (hμ : 0 < μ) :
    ∫ x in Ioi (0 : ℝ), ξ ^ μ * x ^ (-(1 + μ)) * Real.exp (-ξ / x) / Real.Gamma μ = 1 := by
  have hG : Real.Gamma μ ≠ 0 := (Real.Gamma_pos_of_pos hμ).ne'
  rw [integral_div, km_crosswind_integrated_integral ξ μ hξ hμ, div_self hG]

/-- the crosswind distribution `D_y = exp(-y²/(2σ²)) / (√(2π) σ)` has unit mass for every `σ > 0` -/
theorem km_crosswind_gaussian_unit_mass (σ : ℝ) (hσ : 0 < σ) :
    ∫ y : ℝ, Real.exp (-(1 / (2 * σ ^ 2)) * y ^ 2) / (Real.sqrt (2 * Real.pi) * σ) = 1 := by
  rw [integral_div, integral_gaussian]
  have h2 : (0 : ℝ) < 2 * Real.pi := by positivity
  have e : Real.pi / (1 / (2 * σ ^ 2)) = (2 * Real.pi) * σ ^ 2 := by field_simp
  rw [e, Real.sqrt_mul h2.le, Real.sqrt_sq hσ.le]
  have : Real.sqrt (2 * Real.pi) * σ ≠ 0 := by positivity
  exact div_self this

end BLDFM.C19
