/-
  C19 (mass clause, the two-dimensional cell sum).

  `riemann_sum2_error` / `riemann_sum2_tendsto`: for a function of two variables continuous on the plane, every doubly tagged Riemann sum on
  the uniform `n × m` grid of a rectangle (tags anywhere in their cells, independently per axis — the implemented footprint samples the grid
  nodes) converges to the iterated integral as the grid is refined, uniformly in the tags.  Proof: the one-dimensional theorem (C19e) in `y`
  for each sampled `x`, then in `x` for the partial integral `G(x) = ∫ F(x, ·)`, whose modulus of continuity is inherited from `F`.

  `kmCell2_continuous`: the implemented cell density `f^y(x) · D_y(x, y)` (published form, `km_cell_eq_published`), extended by `0` to `x ≤ 0`
  exactly as the code does, is continuous on the whole plane — at the receptor line `x = 0` the Gaussian's prefactor `1/σ(x)` blows up
  like a power of `1/x` but `e^{-ξ/x}` beats it (`km_receptor_limit`).

  `km_cell_sum_tendsto`: hence the two-dimensional grid sums of the implemented footprint converge to
  `∫₀^X ∫_{-W}^{W} f^y(x) D_y(x, y) dy dx`, the mass of the continuous footprint captured by the grid's extent (the crosswind factor of
  which is the Gaussian's mass within `±W`, at most one, `km_crosswind_gaussian_unit_mass`).
-/
import Proofs.C19e
import Mathlib.MeasureTheory.Integral.DominatedConvergence

open MeasureTheory Set Real Filter Topology

namespace BLDFM.C19

/-- doubly tagged Riemann sum on the uniform `n × m` grid of `[a, b] × [c, d]` -/
noncomputable def riemannSum2 (F : ℝ → ℝ → ℝ) (a b c d : ℝ) (n m : ℕ) (t s : ℕ → ℝ) : ℝ :=
  ∑ i ∈ Finset.range n, ∑ j ∈ Finset.range m, F (t i) (s j) * ((d - c) / m) * ((b - a) / n)

theorem riemannSum2_eq (F : ℝ → ℝ → ℝ) (a b c d : ℝ) (n m : ℕ) (t s : ℕ → ℝ) :
    riemannSum2 F a b c d n m t s = riemannSum (fun x => riemannSum (F x) c d m s) a b n t := by
  unfold riemannSum2 riemannSum
  apply Finset.sum_congr rfl; intro i _
  rw [Finset.sum_mul]

private lemma tag_mem (a b : ℝ) (hab : a ≤ b) (n : ℕ) (hn : 0 < n) (t : ℕ → ℝ) (ht : TagsIn a b n t) (i : ℕ) (hi : i < n) :
    t i ∈ Icc a b := by
  have hn' : (0 : ℝ) < n := by exact_mod_cast hn
  have hh : 0 ≤ (b - a) / n := div_nonneg (sub_nonneg.2 hab) hn'.le
  have h := ht i hi
  constructor
  · have : 0 ≤ (i : ℝ) * ((b - a) / n) := mul_nonneg (Nat.cast_nonneg _) hh
    linarith [h.1]
  · have h1 : ((i + 1 : ℕ) : ℝ) * ((b - a) / n) ≤ n * ((b - a) / n) :=
      mul_le_mul_of_nonneg_right (by exact_mod_cast hi) hh
    have h2 : (n : ℝ) * ((b - a) / n) = b - a := by field_simp
    linarith [h.2]

/-- **two-dimensional Riemann-sum error bound** from a modulus of uniform continuity on the rectangle -/
theorem riemann_sum2_error (F : ℝ → ℝ → ℝ) (hF : Continuous (Function.uncurry F)) (a b c d : ℝ) (hab : a ≤ b) (hcd : c ≤ d)
    (n m : ℕ) (hn : 0 < n) (hm : 0 < m) (ε δ : ℝ)
    (hδ : ∀ x ∈ Icc a b, ∀ x' ∈ Icc a b, ∀ y ∈ Icc c d, ∀ y' ∈ Icc c d, |x - x'| ≤ δ → |y - y'| ≤ δ → |F x y - F x' y'| ≤ ε)
    (hh : (b - a) / n ≤ δ) (hk : (d - c) / m ≤ δ) (hδ0 : 0 ≤ δ) (t s : ℕ → ℝ) (ht : TagsIn a b n t) (hs : TagsIn c d m s) :
    |riemannSum2 F a b c d n m t s - ∫ x in a..b, ∫ y in c..d, F x y| ≤ 2 * ε * (b - a) * (d - c) := by
  set G : ℝ → ℝ := fun x => ∫ y in c..d, F x y with hG
  have hGc : Continuous G := intervalIntegral.continuous_parametric_intervalIntegral_of_continuous' hF c d
  have hFx : ∀ x, Continuous (F x) := fun x => hF.comp (Continuous.prodMk_right x)
  have hn' : (0 : ℝ) < n := by exact_mod_cast hn
  -- inner sums against the partial integral, at every sampled x
  have inner : ∀ i < n, |riemannSum (F (t i)) c d m s - G (t i)| ≤ ε * (d - c) := by
    intro i hi
    have hti := tag_mem a b hab n hn t ht i hi
    exact riemann_sum_error (F (t i)) c d hcd m hm ε δ (hFx (t i)).continuousOn
      (fun y hy y' hy' hyy => hδ (t i) hti (t i) hti y hy y' hy' (by simpa using hδ0) hyy) hk s hs
  -- modulus of the partial integral
  have hGmod : ∀ x ∈ Icc a b, ∀ x' ∈ Icc a b, |x - x'| ≤ δ → |G x - G x'| ≤ ε * (d - c) := by
    intro x hx x' hx' hxx
    have hint : ∀ z, IntervalIntegrable (F z) volume c d := fun z => (hFx z).intervalIntegrable c d
    simp only [hG]
    rw [← intervalIntegral.integral_sub (hint x) (hint x')]
    have hb : ∀ y ∈ Set.uIoc c d, ‖F x y - F x' y‖ ≤ ε := by
      intro y hy
      rw [uIoc_of_le hcd] at hy
      rw [Real.norm_eq_abs]
      exact hδ x hx x' hx' y ⟨hy.1.le, hy.2⟩ y ⟨hy.1.le, hy.2⟩ hxx (by simpa using hδ0)
    have := intervalIntegral.norm_integral_le_of_norm_le_const hb
    rwa [Real.norm_eq_abs, abs_of_nonneg (sub_nonneg.2 hcd)] at this
  -- outer sum of the partial integral against the iterated integral
  have outer : |riemannSum G a b n t - ∫ x in a..b, G x| ≤ ε * (d - c) * (b - a) :=
    riemann_sum_error G a b hab n hn (ε * (d - c)) δ hGc.continuousOn hGmod hh t ht
  -- the two pieces
  have split : riemannSum2 F a b c d n m t s - ∫ x in a..b, G x
      = (riemannSum (fun x => riemannSum (F x) c d m s) a b n t - riemannSum G a b n t) + (riemannSum G a b n t - ∫ x in a..b, G x) := by
    rw [riemannSum2_eq]; ring
  have first : |riemannSum (fun x => riemannSum (F x) c d m s) a b n t - riemannSum G a b n t| ≤ ε * (d - c) * (b - a) := by
    unfold riemannSum
    rw [← Finset.sum_sub_distrib]
    calc |∑ i ∈ Finset.range n, ((∑ j ∈ Finset.range m, F (t i) (s j) * ((d - c) / m)) * ((b - a) / n) - G (t i) * ((b - a) / n))|
        ≤ ∑ i ∈ Finset.range n, |(∑ j ∈ Finset.range m, F (t i) (s j) * ((d - c) / m)) * ((b - a) / n) - G (t i) * ((b - a) / n)| :=
          Finset.abs_sum_le_sum_abs _ _
      _ ≤ ∑ _i ∈ Finset.range n, ε * (d - c) * ((b - a) / n) := by
          apply Finset.sum_le_sum
          intro i hi
          have h1 := inner i (Finset.mem_range.1 hi)
          unfold riemannSum at h1
          rw [← sub_mul, abs_mul, abs_of_nonneg (div_nonneg (sub_nonneg.2 hab) hn'.le)]
          exact mul_le_mul_of_nonneg_right h1 (div_nonneg (sub_nonneg.2 hab) hn'.le)
      _ = ε * (d - c) * (b - a) := by
          rw [Finset.sum_const, Finset.card_range, nsmul_eq_mul]; field_simp
  rw [split]
  calc |(riemannSum (fun x => riemannSum (F x) c d m s) a b n t - riemannSum G a b n t) + (riemannSum G a b n t - ∫ x in a..b, G x)|
      ≤ |riemannSum (fun x => riemannSum (F x) c d m s) a b n t - riemannSum G a b n t| + |riemannSum G a b n t - ∫ x in a..b, G x| :=
        abs_add_le _ _
    _ ≤ ε * (d - c) * (b - a) + ε * (d - c) * (b - a) := add_le_add first outer
    _ = 2 * ε * (b - a) * (d - c) := by ring

/-- **two-dimensional Riemann sums of a continuous function converge to the iterated integral**, uniformly in the tags -/
theorem riemann_sum2_tendsto (F : ℝ → ℝ → ℝ) (hF : Continuous (Function.uncurry F)) (a b c d : ℝ) (hab : a ≤ b) (hcd : c ≤ d)
    (ε : ℝ) (hε : 0 < ε) :
    ∃ N : ℕ, ∀ n ≥ N, ∀ m ≥ N, 0 < n → 0 < m → ∀ t s, TagsIn a b n t → TagsIn c d m s →
      |riemannSum2 F a b c d n m t s - ∫ x in a..b, ∫ y in c..d, F x y| ≤ ε := by
  have hK : IsCompact (Icc a b ×ˢ Icc c d) := isCompact_Icc.prod isCompact_Icc
  have huc : UniformContinuousOn (Function.uncurry F) (Icc a b ×ˢ Icc c d) := hK.uniformContinuousOn_of_continuous hF.continuousOn
  rw [Metric.uniformContinuousOn_iff_le] at huc
  set L : ℝ := 2 * (b - a) * (d - c) + 1 with hL
  have hLpos : 0 < L := by
    have := mul_nonneg (sub_nonneg.2 hab) (sub_nonneg.2 hcd); linarith
  obtain ⟨δ, hδpos, hδ⟩ := huc (ε / L) (div_pos hε hLpos)
  obtain ⟨N1, hN1⟩ := exists_nat_gt ((b - a) / δ)
  obtain ⟨N2, hN2⟩ := exists_nat_gt ((d - c) / δ)
  refine ⟨max N1 N2, fun n hn m hm hn0 hm0 t s ht hs => ?_⟩
  have cell : ∀ (p q : ℝ) (k K : ℕ), (q - p) / δ < K → K ≤ k → 0 < k → (q - p) / k ≤ δ := by
    intro p q k K hK hk hk0
    have hk' : (0 : ℝ) < k := by exact_mod_cast hk0
    rw [div_le_iff₀ hk']
    have h1 : (q - p) / δ < k := lt_of_lt_of_le hK (by exact_mod_cast hk)
    rw [div_lt_iff₀ hδpos] at h1
    linarith [mul_comm (k : ℝ) δ]
  have hcx := cell a b n N1 hN1 (le_trans (le_max_left _ _) hn) hn0
  have hcy := cell c d m N2 hN2 (le_trans (le_max_right _ _) hm) hm0
  have hmod : ∀ x ∈ Icc a b, ∀ x' ∈ Icc a b, ∀ y ∈ Icc c d, ∀ y' ∈ Icc c d, |x - x'| ≤ δ → |y - y'| ≤ δ → |F x y - F x' y'| ≤ ε / L := by
    intro x hx x' hx' y hy y' hy' hxx hyy
    have hd : dist (x, y) (x', y') ≤ δ := by
      rw [Prod.dist_eq, Real.dist_eq, Real.dist_eq]
      exact max_le hxx hyy
    have := hδ (x, y) ⟨hx, hy⟩ (x', y') ⟨hx', hy'⟩ hd
    simpa [Real.dist_eq, Function.uncurry] using this
  have h := riemann_sum2_error F hF a b c d hab hcd n m hn0 hm0 (ε / L) δ hmod hcx hcy hδpos.le t s ht hs
  have : 2 * (ε / L) * (b - a) * (d - c) ≤ ε := by
    have e : 2 * (ε / L) * (b - a) * (d - c) = ε * (2 * (b - a) * (d - c)) / L := by ring
    rw [e, div_le_iff₀ hLpos]
    have := mul_nonneg (sub_nonneg.2 hab) (sub_nonneg.2 hcd)
    nlinarith
  linarith

/-! ### the implemented cell density is continuous on the whole plane -/

/-- the implemented cell density: crosswind-integrated footprint times the crosswind Gaussian with the plume width `σ(x) = c · x^p`
(`c = σ_v Γ(1/r) / (U Γ(μ)) · (κ r²/U)^{-m/r}`, `p = 1 - m/r` in the notation of `km_cell_eq_published`), `0` for `x ≤ 0` -/
noncomputable def kmCell2 (ξ μ c p x y : ℝ) : ℝ :=
  if 0 < x then
    (ξ ^ μ * x ^ (-(1 + μ)) * Real.exp (-ξ / x) / Real.Gamma μ) *
      (Real.exp (-(y ^ 2) / (2 * (c * x ^ p) ^ 2)) / (Real.sqrt (2 * Real.pi) * (c * x ^ p)))
  else 0

/-- the envelope of the cell density in `y`: `K · x^{-(1+μ+p)} e^{-ξ/x}`, `0` for `x ≤ 0` -/
noncomputable def kmEnv (ξ μ c p x : ℝ) : ℝ :=
  if 0 < x then |ξ ^ μ / Real.Gamma μ / (Real.sqrt (2 * Real.pi) * c)| * (x ^ (-(1 + (μ + p))) * Real.exp (-ξ / x)) else 0

theorem kmEnv_tendsto (ξ μ c p : ℝ) (hξ : 0 < ξ) : Tendsto (kmEnv ξ μ c p) (𝓝 0) (𝓝 0) := by
  have key : Tendsto (kmEnv ξ μ c p) (𝓝[≤] 0 ⊔ 𝓝[>] 0) (𝓝 0) := by
    apply Tendsto.sup
    · apply tendsto_const_nhds.congr'
      filter_upwards [self_mem_nhdsWithin] with x hx
      have : ¬ (0 < x) := not_lt.2 hx
      simp [kmEnv, this]
    · have h := (km_receptor_limit ξ (μ + p) hξ).const_mul |ξ ^ μ / Real.Gamma μ / (Real.sqrt (2 * Real.pi) * c)|
      rw [mul_zero] at h
      refine h.congr' ?_
      filter_upwards [self_mem_nhdsWithin] with x hx
      have hx' : (0 : ℝ) < x := hx
      simp only [kmEnv, if_pos hx']
  rwa [nhdsLE_sup_nhdsGT] at key

theorem kmCell2_le_env (ξ μ c p : ℝ) (hc : 0 < c) (x y : ℝ) : |kmCell2 ξ μ c p x y| ≤ kmEnv ξ μ c p x := by
  by_cases hx : 0 < x
  · simp only [kmCell2, kmEnv, if_pos hx]
    have hxp : 0 < x ^ p := Real.rpow_pos_of_pos hx p
    have hs : 0 < Real.sqrt (2 * Real.pi) := Real.sqrt_pos.2 (by positivity)
    have hE : 0 < Real.exp (-ξ / x) := Real.exp_pos _
    have hg : Real.exp (-(y ^ 2) / (2 * (c * x ^ p) ^ 2)) ≤ 1 := by
      rw [Real.exp_le_one_iff]
      apply div_nonpos_of_nonpos_of_nonneg
      · nlinarith [sq_nonneg y]
      · positivity
    have hg0 : 0 < Real.exp (-(y ^ 2) / (2 * (c * x ^ p) ^ 2)) := Real.exp_pos _
    have hsplit : x ^ (-(1 + (μ + p))) = x ^ (-(1 + μ)) * (x ^ p)⁻¹ := by
      rw [← Real.rpow_neg hx.le p, ← Real.rpow_add hx]; congr 1; ring
    have e : (ξ ^ μ * x ^ (-(1 + μ)) * Real.exp (-ξ / x) / Real.Gamma μ) *
        (Real.exp (-(y ^ 2) / (2 * (c * x ^ p) ^ 2)) / (Real.sqrt (2 * Real.pi) * (c * x ^ p)))
        = (ξ ^ μ / Real.Gamma μ / (Real.sqrt (2 * Real.pi) * c)) * (x ^ (-(1 + (μ + p))) * Real.exp (-ξ / x))
          * Real.exp (-(y ^ 2) / (2 * (c * x ^ p) ^ 2)) := by
      rw [hsplit]; field_simp
    rw [e, abs_mul, abs_mul, abs_of_pos hg0]
    have hpos : 0 ≤ |ξ ^ μ / Real.Gamma μ / (Real.sqrt (2 * Real.pi) * c)| * |x ^ (-(1 + (μ + p))) * Real.exp (-ξ / x)| := by positivity
    have habs : |x ^ (-(1 + (μ + p))) * Real.exp (-ξ / x)| = x ^ (-(1 + (μ + p))) * Real.exp (-ξ / x) :=
      abs_of_pos (mul_pos (Real.rpow_pos_of_pos hx _) hE)
    rw [habs] at hpos ⊢
    exact mul_le_of_le_one_right hpos hg
  · simp [kmCell2, kmEnv, hx]

theorem kmCell2_continuous (ξ μ c p : ℝ) (hξ : 0 < ξ) (hc : 0 < c) :
    Continuous (Function.uncurry (kmCell2 ξ μ c p)) := by
  rw [continuous_iff_continuousAt]
  rintro ⟨x0, y0⟩
  rcases lt_trichotomy x0 0 with hneg | hzero | hpos
  · -- downwind of the receptor the density vanishes identically
    have : Function.uncurry (kmCell2 ξ μ c p) =ᶠ[𝓝 (x0, y0)] fun _ => (0 : ℝ) := by
      have hopen : IsOpen {q : ℝ × ℝ | q.1 < 0} := isOpen_lt continuous_fst continuous_const
      filter_upwards [hopen.mem_nhds (show (x0, y0) ∈ {q : ℝ × ℝ | q.1 < 0} from hneg)] with q hq
      have : ¬ (0 < q.1) := not_lt.2 (le_of_lt hq)
      simp [Function.uncurry, kmCell2, this]
    exact (continuousAt_const.congr this.symm)
  · -- on the receptor line the envelope closes the gap
    subst hzero
    have hval : Function.uncurry (kmCell2 ξ μ c p) (0, y0) = 0 := by simp [Function.uncurry, kmCell2]
    unfold ContinuousAt
    rw [hval]
    have henv : Tendsto (fun q : ℝ × ℝ => kmEnv ξ μ c p q.1) (𝓝 (0, y0)) (𝓝 0) :=
      (kmEnv_tendsto ξ μ c p hξ).comp (continuous_fst.tendsto (0, y0))
    apply squeeze_zero_norm _ henv
    intro q
    rw [Real.norm_eq_abs]
    exact kmCell2_le_env ξ μ c p hc q.1 q.2
  · -- upwind: the closed form
    have hopen : IsOpen {q : ℝ × ℝ | 0 < q.1} := isOpen_lt continuous_const continuous_fst
    have heq : Function.uncurry (kmCell2 ξ μ c p) =ᶠ[𝓝 (x0, y0)] fun q : ℝ × ℝ =>
        (ξ ^ μ * q.1 ^ (-(1 + μ)) * Real.exp (-ξ / q.1) / Real.Gamma μ) *
          (Real.exp (-(q.2 ^ 2) / (2 * (c * q.1 ^ p) ^ 2)) / (Real.sqrt (2 * Real.pi) * (c * q.1 ^ p))) := by
      filter_upwards [hopen.mem_nhds (show (x0, y0) ∈ {q : ℝ × ℝ | 0 < q.1} from hpos)] with q hq
      simp only [Function.uncurry, kmCell2, if_pos (show (0 : ℝ) < q.1 from hq)]
    refine ContinuousAt.congr ?_ heq.symm
    have cfst : ContinuousAt (fun q : ℝ × ℝ => q.1) (x0, y0) := continuous_fst.continuousAt
    have csnd : ContinuousAt (fun q : ℝ × ℝ => q.2) (x0, y0) := continuous_snd.continuousAt
    have c1 : ContinuousAt (fun q : ℝ × ℝ => q.1 ^ (-(1 + μ))) (x0, y0) := cfst.rpow_const (Or.inl hpos.ne')
    have c2 : ContinuousAt (fun q : ℝ × ℝ => q.1 ^ p) (x0, y0) := cfst.rpow_const (Or.inl hpos.ne')
    have c3 : ContinuousAt (fun q : ℝ × ℝ => Real.exp (-ξ / q.1)) (x0, y0) :=
      Real.continuous_exp.continuousAt.comp (continuousAt_const.div cfst hpos.ne')
    have hσ : c * x0 ^ p ≠ 0 := (mul_pos hc (Real.rpow_pos_of_pos hpos p)).ne'
    have c4 : ContinuousAt (fun q : ℝ × ℝ => c * q.1 ^ p) (x0, y0) := continuousAt_const.mul c2
    have c5 : ContinuousAt (fun q : ℝ × ℝ => Real.exp (-(q.2 ^ 2) / (2 * (c * q.1 ^ p) ^ 2))) (x0, y0) := by
      apply Real.continuous_exp.continuousAt.comp
      apply ContinuousAt.div ((csnd.pow 2).neg) (continuousAt_const.mul (c4.pow 2))
      have : (c * x0 ^ p) ^ 2 ≠ 0 := pow_ne_zero 2 hσ
      simpa using this
    have hs : Real.sqrt (2 * Real.pi) ≠ 0 := (Real.sqrt_pos.2 (by positivity)).ne'
    exact (((continuousAt_const.mul c1).mul c3).div_const _).mul (c5.div (continuousAt_const.mul c4) (mul_ne_zero hs hσ))

/-- **the two-dimensional cell sums of the implemented footprint converge to the mass of the continuous footprint captured by the grid's
extent** `[0, X] × [-W, W]`, whichever point of each cell is sampled -/
theorem km_cell_sum_tendsto (ξ μ c p X W : ℝ) (hξ : 0 < ξ) (hc : 0 < c) (hX : 0 ≤ X) (hW : 0 ≤ W) (ε : ℝ) (hε : 0 < ε) :
    ∃ N : ℕ, ∀ n ≥ N, ∀ m ≥ N, 0 < n → 0 < m → ∀ t s, TagsIn 0 X n t → TagsIn (-W) W m s →
      |riemannSum2 (kmCell2 ξ μ c p) 0 X (-W) W n m t s - ∫ x in (0 : ℝ)..X, ∫ y in (-W)..W, kmCell2 ξ μ c p x y| ≤ ε :=
  riemann_sum2_tendsto (kmCell2 ξ μ c p) (kmCell2_continuous ξ μ c p hξ hc) 0 X (-W) W hX (by linarith) ε hε

/-- the cell density is the product the one-dimensional theorems are about: `kmFy` times the crosswind Gaussian of width `σ(x)` -/
theorem kmCell2_eq (ξ μ c p x y : ℝ) (hx : 0 < x) :
    kmCell2 ξ μ c p x y = kmFy ξ μ x * (Real.exp (-(y ^ 2) / (2 * (c * x ^ p) ^ 2)) / (Real.sqrt (2 * Real.pi) * (c * x ^ p))) := by
  simp only [kmCell2, kmFy, if_pos hx]

end BLDFM.C19
