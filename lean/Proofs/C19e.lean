/-
  C19 (mass clause, discrete part) — "its sum tends to the regularised incomplete-gamma mass captured within the
  grid's upwind extent as the grid is refined".

  `riemann_sum_error` / `riemann_sum_tendsto`: for a function continuous on `[a, b]`, EVERY tagged Riemann sum on the
  uniform grid of `n` cells (tag anywhere in its cell: cell centres, cell corners — the implemented footprint samples the
  along-wind coordinate at the grid nodes) is within `ε (b − a)` of the integral once the cell is shorter than a modulus of
  uniform continuity for `ε`; hence the sums converge to the integral as `n → ∞`, uniformly in the choice of tags.

  `kmFy_continuousOn`: the crosswind-integrated footprint, extended by `0` to `x ≤ 0` exactly like the implementation
  (`sflag = x > 0`), is continuous on `[0, X]` (the factor `e^{-ξ/x}` beats every power of `1/x` at the receptor).

  `km_grid_sum_tendsto_mass`: the along-wind grid sums of the crosswind-integrated footprint converge to `Q(μ, ξ/X)`
  (`km_mass_within_extent`), for every flux length scale `ξ > 0`, shape factor `μ > 0` and upwind extent `X > 0`.
-/
import Mathlib.MeasureTheory.Integral.IntervalIntegral.Basic
import Mathlib.MeasureTheory.Integral.IntervalIntegral.FundThmCalculus
import Mathlib.Topology.UniformSpace.HeineCantor
import Mathlib.Analysis.SpecialFunctions.Pow.Asymptotics
import Proofs.C19d

open MeasureTheory Set Real Filter Topology

namespace BLDFM.C19

/-- tagged Riemann sum on the uniform grid of `n` cells of `[a, b]` -/
noncomputable def riemannSum (f : ℝ → ℝ) (a b : ℝ) (n : ℕ) (t : ℕ → ℝ) : ℝ :=
  ∑ i ∈ Finset.range n, f (t i) * ((b - a) / n)

/-- the tags are admissible: tag `i` lies in cell `i` -/
def TagsIn (a b : ℝ) (n : ℕ) (t : ℕ → ℝ) : Prop :=
  ∀ i < n, t i ∈ Icc (a + i * ((b - a) / n)) (a + (i + 1 : ℕ) * ((b - a) / n))

private lemma node_mem (a b : ℝ) (hab : a ≤ b) (n : ℕ) (hn : 0 < n) (i : ℕ) (hi : i ≤ n) :
    a + i * ((b - a) / n) ∈ Icc a b := by
  have hn' : (0 : ℝ) < n := by exact_mod_cast hn
  have hh : 0 ≤ (b - a) / n := div_nonneg (sub_nonneg.2 hab) hn'.le
  constructor
  · have : 0 ≤ (i : ℝ) * ((b - a) / n) := mul_nonneg (Nat.cast_nonneg _) hh
    linarith
  · have h1 : (i : ℝ) * ((b - a) / n) ≤ n * ((b - a) / n) :=
      mul_le_mul_of_nonneg_right (by exact_mod_cast hi) hh
    have h2 : (n : ℝ) * ((b - a) / n) = b - a := by field_simp
    linarith

/-- **Riemann-sum error bound** from a modulus of uniform continuity -/
theorem riemann_sum_error (f : ℝ → ℝ) (a b : ℝ) (hab : a ≤ b) (n : ℕ) (hn : 0 < n) (ε δ : ℝ)
    (hf : ContinuousOn f (Icc a b))
    (hδ : ∀ x ∈ Icc a b, ∀ y ∈ Icc a b, |x - y| ≤ δ → |f x - f y| ≤ ε)
    (hh : (b - a) / n ≤ δ) (t : ℕ → ℝ) (ht : TagsIn a b n t) :
    |riemannSum f a b n t - ∫ x in a..b, f x| ≤ ε * (b - a) := by
  have hn' : (0 : ℝ) < n := by exact_mod_cast hn
  set h : ℝ := (b - a) / n with hh_def
  have hh0 : 0 ≤ h := div_nonneg (sub_nonneg.2 hab) hn'.le
  set x : ℕ → ℝ := fun i => a + i * h with hx
  have hx0 : x 0 = a := by simp [hx]
  have hxn : x n = b := by
    simp only [hx, hh_def]; field_simp; ring
  have hxmono : ∀ i, x i ≤ x (i + 1) := by
    intro i; simp only [hx]; push_cast; nlinarith
  have hxmem : ∀ i ≤ n, x i ∈ Icc a b := fun i hi => node_mem a b hab n hn i hi
  have hsub : ∀ i < n, Icc (x i) (x (i + 1)) ⊆ Icc a b := by
    intro i hi y hy
    exact ⟨(hxmem i hi.le).1.trans hy.1, hy.2.trans (hxmem (i + 1) hi).2⟩
  have hint : ∀ i < n, IntervalIntegrable f volume (x i) (x (i + 1)) := by
    intro i hi
    apply ContinuousOn.intervalIntegrable
    rw [uIcc_of_le (hxmono i)]
    exact hf.mono (hsub i hi)
  -- the integral as a sum over cells
  have hsum : ∫ y in a..b, f y = ∑ i ∈ Finset.range n, ∫ y in (x i)..(x (i + 1)), f y := by
    rw [← hx0, ← hxn]
    exact (intervalIntegral.sum_integral_adjacent_intervals (fun i hi => hint i hi)).symm
  -- each term of the Riemann sum as an integral of a constant
  have hterm : ∀ i, f (t i) * h = ∫ _y in (x i)..(x (i + 1)), f (t i) := by
    intro i
    rw [intervalIntegral.integral_const, smul_eq_mul]
    simp only [hx]; push_cast; ring
  unfold riemannSum
  rw [hsum, ← Finset.sum_sub_distrib]
  calc |∑ i ∈ Finset.range n, (f (t i) * h - ∫ y in (x i)..(x (i + 1)), f y)|
      ≤ ∑ i ∈ Finset.range n, |f (t i) * h - ∫ y in (x i)..(x (i + 1)), f y| := Finset.abs_sum_le_sum_abs _ _
    _ ≤ ∑ _i ∈ Finset.range n, ε * h := by
        apply Finset.sum_le_sum
        intro i hi
        have hi' : i < n := Finset.mem_range.1 hi
        rw [hterm i, ← intervalIntegral.integral_sub intervalIntegrable_const (hint i hi')]
        have hb : ∀ y ∈ Set.uIoc (x i) (x (i + 1)), ‖f (t i) - f y‖ ≤ ε := by
          intro y hy
          rw [uIoc_of_le (hxmono i)] at hy
          have hy' : y ∈ Icc (x i) (x (i + 1)) := ⟨hy.1.le, hy.2⟩
          have hti : t i ∈ Icc (x i) (x (i + 1)) := by
            have := ht i hi'
            simpa [hx] using this
          rw [Real.norm_eq_abs]
          apply hδ _ (hsub i hi' hti) _ (hsub i hi' hy')
          have hw : x (i + 1) - x i = h := by simp only [hx]; push_cast; ring
          have : |t i - y| ≤ x (i + 1) - x i := by
            rw [abs_le]; constructor <;> linarith [hti.1, hti.2, hy'.1, hy'.2]
          linarith
        have := intervalIntegral.norm_integral_le_of_norm_le_const hb
        rw [Real.norm_eq_abs] at this
        have hw : |x (i + 1) - x i| = h := by
          have : x (i + 1) - x i = h := by simp only [hx]; push_cast; ring
          rw [this, abs_of_nonneg hh0]
        rw [hw] at this
        exact this
    _ = ε * (b - a) := by
        rw [Finset.sum_const, Finset.card_range, nsmul_eq_mul, hh_def]; field_simp

/-- **Riemann sums of a continuous function converge to its integral**, uniformly in the choice of tags -/
theorem riemann_sum_tendsto (f : ℝ → ℝ) (a b : ℝ) (hab : a ≤ b) (hf : ContinuousOn f (Icc a b)) (ε : ℝ) (hε : 0 < ε) :
    ∃ N : ℕ, ∀ n ≥ N, 0 < n → ∀ t, TagsIn a b n t → |riemannSum f a b n t - ∫ x in a..b, f x| ≤ ε := by
  have huc : UniformContinuousOn f (Icc a b) := isCompact_Icc.uniformContinuousOn_of_continuous hf
  rw [Metric.uniformContinuousOn_iff_le] at huc
  set L : ℝ := b - a + 1 with hL
  have hLpos : 0 < L := by have := sub_nonneg.2 hab; linarith
  obtain ⟨δ, hδpos, hδ⟩ := huc (ε / L) (div_pos hε hLpos)
  obtain ⟨N, hN⟩ := exists_nat_gt ((b - a) / δ)
  refine ⟨N, fun n hn hn0 t ht => ?_⟩
  have hn' : (0 : ℝ) < n := by exact_mod_cast hn0
  have hcell : (b - a) / n ≤ δ := by
    rw [div_le_iff₀ hn']
    have h1 : (b - a) / δ < n := lt_of_lt_of_le hN (by exact_mod_cast hn)
    rw [div_lt_iff₀ hδpos] at h1
    linarith [mul_comm (n : ℝ) δ]
  have hmod : ∀ x ∈ Icc a b, ∀ y ∈ Icc a b, |x - y| ≤ δ → |f x - f y| ≤ ε / L := by
    intro x hx y hy hxy
    have := hδ x hx y hy (by rwa [Real.dist_eq])
    rwa [Real.dist_eq] at this
  have h := riemann_sum_error f a b hab n hn0 (ε / L) δ hf hmod hcell t ht
  have : ε / L * (b - a) ≤ ε := by
    rw [div_mul_eq_mul_div, div_le_iff₀ hLpos]
    have := sub_nonneg.2 hab
    nlinarith
  linarith

/-- the crosswind-integrated Kormann–Meixner footprint with the implementation's convention `0` for `x ≤ 0` -/
noncomputable def kmFy (ξ μ x : ℝ) : ℝ :=
  if 0 < x then ξ ^ μ * x ^ (-(1 + μ)) * Real.exp (-ξ / x) / Real.Gamma μ else 0

/-- `x^{-(1+μ)} e^{-ξ/x} → 0` as `x → 0⁺` -/
theorem km_receptor_limit (ξ μ : ℝ) (hξ : 0 < ξ) :
    Tendsto (fun x : ℝ => x ^ (-(1 + μ)) * Real.exp (-ξ / x)) (𝓝[>] 0) (𝓝 0) := by
  have h1 := tendsto_rpow_mul_exp_neg_mul_atTop_nhds_zero (1 + μ) ξ hξ
  have h2 : Tendsto (fun x : ℝ => x⁻¹) (𝓝[>] 0) atTop := tendsto_inv_nhdsGT_zero
  have h3 := h1.comp h2
  refine h3.congr' ?_
  filter_upwards [self_mem_nhdsWithin] with x hx
  have hx' : (0 : ℝ) < x := hx
  simp only [Function.comp]
  rw [Real.inv_rpow hx'.le, ← Real.rpow_neg hx'.le]
  rw [show -ξ * x⁻¹ = -ξ / x from by rw [div_eq_mul_inv]]

theorem kmFy_continuousOn (ξ μ X : ℝ) (hξ : 0 < ξ) : ContinuousOn (kmFy ξ μ) (Icc 0 X) := by
  intro x hx
  rcases hx.1.eq_or_lt with h0 | hpos
  · -- at the receptor
    subst h0
    have hval : kmFy ξ μ 0 = 0 := by simp [kmFy]
    have hIci : ContinuousWithinAt (kmFy ξ μ) (Ici 0) 0 := by
      have hunion : Ici (0 : ℝ) = {0} ∪ Ioi 0 := by
        ext y; simp only [mem_Ici, mem_union, mem_singleton_iff, mem_Ioi]
        constructor
        · intro h; rcases h.eq_or_lt with h | h
          · exact Or.inl h.symm
          · exact Or.inr h
        · rintro (h | h)
          · exact h.ge
          · exact h.le
      rw [hunion]
      apply ContinuousWithinAt.union (continuousWithinAt_singleton)
      unfold ContinuousWithinAt
      rw [hval]
      have hlim := (km_receptor_limit ξ μ hξ).const_mul (ξ ^ μ / Real.Gamma μ)
      rw [mul_zero] at hlim
      refine hlim.congr' ?_
      filter_upwards [self_mem_nhdsWithin] with y hy
      have hy' : (0 : ℝ) < y := hy
      simp only [kmFy, if_pos hy']
      ring
    exact hIci.mono (fun y hy => hy.1)
  · -- away from the receptor the formula is continuous
    have hform : ContinuousAt (fun x : ℝ => ξ ^ μ * x ^ (-(1 + μ)) * Real.exp (-ξ / x) / Real.Gamma μ) x := by
      have c1 : ContinuousAt (fun x : ℝ => x ^ (-(1 + μ))) x := Real.continuousAt_rpow_const _ _ (Or.inl hpos.ne')
      have c2 : ContinuousAt (fun x : ℝ => Real.exp (-ξ / x)) x :=
        Real.continuous_exp.continuousAt.comp (continuousAt_const.div continuousAt_id hpos.ne')
      exact ((continuousAt_const.mul c1).mul c2).div_const _
    have heq : kmFy ξ μ =ᶠ[𝓝 x] fun x : ℝ => ξ ^ μ * x ^ (-(1 + μ)) * Real.exp (-ξ / x) / Real.Gamma μ := by
      filter_upwards [Ioi_mem_nhds hpos] with y hy
      simp only [kmFy, if_pos (show (0 : ℝ) < y from hy)]
    exact (hform.congr heq.symm).continuousWithinAt

/-- the interval integral of the extended footprint over `[0, X]` is the regularised incomplete gamma mass -/
theorem kmFy_integral (ξ μ X : ℝ) (hξ : 0 < ξ) (hX : 0 < X) :
    ∫ x in (0 : ℝ)..X, kmFy ξ μ x = gammaQ μ (ξ / X) := by
  rw [intervalIntegral.integral_of_le hX.le, integral_Ioc_eq_integral_Ioo, ← km_mass_within_extent ξ μ X hξ hX]
  apply setIntegral_congr_fun measurableSet_Ioo
  intro x hx
  simp only [kmFy, if_pos hx.1]

/-- **the along-wind grid sums of the crosswind-integrated footprint converge to the incomplete-gamma mass `Q(μ, ξ/X)`
captured within the upwind extent `X`** as the grid is refined, whichever point of each cell is sampled -/
theorem km_grid_sum_tendsto_mass (ξ μ X : ℝ) (hξ : 0 < ξ) (hX : 0 < X) (ε : ℝ) (hε : 0 < ε) :
    ∃ N : ℕ, ∀ n ≥ N, 0 < n → ∀ t, TagsIn 0 X n t →
      |riemannSum (kmFy ξ μ) 0 X n t - gammaQ μ (ξ / X)| ≤ ε := by
  obtain ⟨N, hN⟩ := riemann_sum_tendsto (kmFy ξ μ) 0 X hX.le (kmFy_continuousOn ξ μ X hξ) ε hε
  refine ⟨N, fun n hn hn0 t ht => ?_⟩
  rw [← kmFy_integral ξ μ X hξ hX]
  exact hN n hn hn0 t ht

/-- non-vacuity: node tags (the implementation's sampling, right end of each cell) are admissible -/
example (X : ℝ) (hX : 0 < X) (n : ℕ) (hn : 0 < n) :
    TagsIn 0 X n (fun i => (i + 1 : ℕ) * ((X - 0) / n)) := by
  intro i _
  have hn' : (0 : ℝ) < n := by exact_mod_cast hn
  have hh : 0 ≤ (X - 0) / n := div_nonneg (by linarith) hn'.le
  constructor
  · push_cast; nlinarith
  · simp

end BLDFM.C19
