/-
  C01 (convergence of the sweep, assembled) — for ANY Lipschitz coefficient functions `T(z)`, `k(z) = 1/Kz(z)` of
  which the profiles are the node samples, and ANY exact solution `(p, q)` of the column ODE `p' = -k q`, `q' = T p`
  on `[z_0, z_l]`, the state of the numerical sweep started from the exact values differs from the exact solution at
  node `l` by at most `exp(L h) · C · δ · h` (`h = z_l - z_0`, `δ ≤ 1` the largest layer thickness): FIRST ORDER in
  the layer thickness, with explicit constants `L = a + a²/2 + a³/6`, `C = ΛB + a²B + a²B/2 + a³B/6` in terms of the
  bounds `a` (coefficients), `B` (solution) and `Λ` (Lipschitz constant).  No bound on the number of layers.
-/
import Mathlib.Analysis.Calculus.MeanValue
import Mathlib.Analysis.SpecialFunctions.Exp
import Proofs.Lemmas.Spec
import Proofs.Lemmas.Tactics
import Proofs.C01

open BLDFM BLDFM.Spec Set

namespace BLDFM.C01

/-- discrete Gronwall with the hypotheses only up to the node of interest -/
theorem gronwall_upto (e dz : ℕ → ℝ) (L τ : ℝ) (hL : 0 ≤ L) (hτ : 0 ≤ τ) (he0 : 0 ≤ e 0) : ∀ (l : ℕ),
    (∀ i, i < l → 0 ≤ dz i) → (∀ i, i < l → e (i + 1) ≤ (1 + L * dz i) * e i + τ * dz i) →
    e l ≤ Real.exp (L * ∑ i ∈ Finset.range l, dz i) * (e 0 + τ * ∑ i ∈ Finset.range l, dz i) := by
  intro l
  induction l with
  | zero => intro _ _; simp
  | succ l ih =>
    intro hdz hstep
    have ih := ih (fun i hi => hdz i (by omega)) (fun i hi => hstep i (by omega))
    have hdzl := hdz l (by omega)
    have hs : 0 ≤ ∑ i ∈ Finset.range l, dz i := Finset.sum_nonneg (fun i hi => hdz i (by have := Finset.mem_range.mp hi; omega))
    rw [Finset.sum_range_succ]
    set S := ∑ i ∈ Finset.range l, dz i with hS
    have h1 : 1 + L * dz l ≤ Real.exp (L * dz l) := by
      have := Real.add_one_le_exp (L * dz l); linarith
    have hpos : 0 ≤ 1 + L * dz l := by have := mul_nonneg hL hdzl; linarith
    have hE : 0 < Real.exp (L * S) := Real.exp_pos _
    have hbr : 0 ≤ e 0 + τ * S := by have := mul_nonneg hτ hs; linarith
    calc e (l + 1) ≤ (1 + L * dz l) * e l + τ * dz l := hstep l (by omega)
      _ ≤ (1 + L * dz l) * (Real.exp (L * S) * (e 0 + τ * S)) + τ * dz l := by
          have := mul_le_mul_of_nonneg_left ih hpos; linarith
      _ ≤ Real.exp (L * dz l) * (Real.exp (L * S) * (e 0 + τ * S)) + τ * dz l := by
          have h2 : 0 ≤ Real.exp (L * S) * (e 0 + τ * S) := mul_nonneg hE.le hbr
          have := mul_le_mul_of_nonneg_right h1 h2; linarith
      _ ≤ Real.exp (L * (S + dz l)) * (e 0 + τ * (S + dz l)) := by
          have hexp : Real.exp (L * (S + dz l)) = Real.exp (L * dz l) * Real.exp (L * S) := by
            rw [← Real.exp_add]; ring_nf
          rw [hexp]
          have hge1 : 1 ≤ Real.exp (L * dz l) * Real.exp (L * S) := by
            have a1 : 1 ≤ Real.exp (L * dz l) := Real.one_le_exp (mul_nonneg hL hdzl)
            have a2 : 1 ≤ Real.exp (L * S) := Real.one_le_exp (mul_nonneg hL hs)
            calc (1 : ℝ) = 1 * 1 := by ring
              _ ≤ _ := mul_le_mul a1 a2 (by norm_num) (by linarith)
          have hτdz : 0 ≤ τ * dz l := mul_nonneg hτ hdzl
          nlinarith [mul_le_mul_of_nonneg_right hge1 hτdz]

/-- norms of the four layer coefficients for `|T|, |k| ≤ a`, `0 ≤ dz` -/
theorem coef_norms (T k : ℂ) (dz a : ℝ) (hT : ‖T‖ ≤ a) (hk : ‖k‖ ≤ a) (h0 : 0 ≤ dz) :
    ‖coefA T k (dz : ℂ)‖ ≤ 1 + a ^ 2 * dz ^ 2 / 2 ∧ ‖coefB T k (dz : ℂ)‖ ≤ a * dz + a ^ 3 * dz ^ 3 / 6 ∧
    ‖coefC T k (dz : ℂ)‖ ≤ a * dz + a ^ 3 * dz ^ 3 / 6 ∧ ‖coefD T k (dz : ℂ)‖ ≤ 1 + a ^ 2 * dz ^ 2 / 2 := by
  have ha : 0 ≤ a := (norm_nonneg T).trans hT
  have ndz : ‖(dz : ℂ)‖ = dz := by rw [Complex.norm_real, Real.norm_of_nonneg h0]
  have hkT : ‖k‖ * ‖T‖ ≤ a * a := mul_le_mul hk hT (norm_nonneg _) ha
  have hkkT : ‖k‖ ^ 2 * ‖T‖ ≤ a ^ 2 * a := mul_le_mul (pow_le_pow_left₀ (norm_nonneg _) hk 2) hT (norm_nonneg _) (by positivity)
  have hkTT : ‖k‖ * ‖T‖ ^ 2 ≤ a * a ^ 2 := mul_le_mul hk (pow_le_pow_left₀ (norm_nonneg _) hT 2) (by positivity) ha
  have hA : ‖coefA T k (dz : ℂ)‖ ≤ 1 + a ^ 2 * dz ^ 2 / 2 := by
    have e : coefA T k (dz : ℂ) = 1 - (1 / 2 : ℂ) * k * T * (dz : ℂ) ^ 2 := by simp only [coefA]; norm_num
    rw [e]
    refine (norm_sub_le _ _).trans ?_
    rw [norm_one, norm_mul, norm_mul, norm_mul, norm_pow, ndz]
    have : ‖(1 / 2 : ℂ)‖ = 1 / 2 := by norm_num
    rw [this]
    have hd : 0 ≤ dz ^ 2 := by positivity
    nlinarith [mul_le_mul_of_nonneg_right hkT hd]
  have hB : ‖coefB T k (dz : ℂ)‖ ≤ a * dz + a ^ 3 * dz ^ 3 / 6 := by
    have e : coefB T k (dz : ℂ) = -k * (dz : ℂ) + (1 / 6 : ℂ) * k ^ 2 * T * (dz : ℂ) ^ 3 := by simp only [coefB]; norm_num
    rw [e]
    refine (norm_add_le _ _).trans ?_
    rw [norm_mul, norm_neg, norm_mul, norm_mul, norm_mul, norm_pow, norm_pow, ndz]
    have : ‖(1 / 6 : ℂ)‖ = 1 / 6 := by norm_num
    rw [this]
    have hd : 0 ≤ dz ^ 3 := by positivity
    nlinarith [mul_le_mul_of_nonneg_right hk h0, mul_le_mul_of_nonneg_right hkkT hd]
  have hC : ‖coefC T k (dz : ℂ)‖ ≤ a * dz + a ^ 3 * dz ^ 3 / 6 := by
    have e : coefC T k (dz : ℂ) = T * (dz : ℂ) - (1 / 6 : ℂ) * k * T ^ 2 * (dz : ℂ) ^ 3 := by simp only [coefC]; norm_num
    rw [e]
    refine (norm_sub_le _ _).trans ?_
    rw [norm_mul, norm_mul, norm_mul, norm_mul, norm_pow, norm_pow, ndz]
    have : ‖(1 / 6 : ℂ)‖ = 1 / 6 := by norm_num
    rw [this]
    have hd : 0 ≤ dz ^ 3 := by positivity
    nlinarith [mul_le_mul_of_nonneg_right hT h0, mul_le_mul_of_nonneg_right hkTT hd]
  exact ⟨hA, hB, hC, hA⟩

/-- STABILITY of one layer in the max-norm, `dz ≤ 1`: growth factor `1 + (a + a²/2 + a³/6)·dz` -/
theorem layerStep_stable (T k : ℂ) (dz a e : ℝ) (hT : ‖T‖ ≤ a) (hk : ‖k‖ ≤ a) (h0 : 0 ≤ dz) (h1 : dz ≤ 1)
    (p q : ℂ) (hp : ‖p‖ ≤ e) (hq : ‖q‖ ≤ e) :
    ‖(layerStep T k (dz : ℂ) (p, q)).1‖ ≤ (1 + (a + a ^ 2 / 2 + a ^ 3 / 6) * dz) * e ∧
    ‖(layerStep T k (dz : ℂ) (p, q)).2‖ ≤ (1 + (a + a ^ 2 / 2 + a ^ 3 / 6) * dz) * e := by
  have ha : 0 ≤ a := (norm_nonneg T).trans hT
  have he : 0 ≤ e := (norm_nonneg p).trans hp
  obtain ⟨hA, hB, hC, hD⟩ := coef_norms T k dz a hT hk h0
  have d2 : dz ^ 2 ≤ dz := by nlinarith
  have d3 : dz ^ 3 ≤ dz := by nlinarith [mul_nonneg h0 h0]
  have ha2 : 0 ≤ a ^ 2 := by positivity
  have ha3 : 0 ≤ a ^ 3 := by positivity
  have sumc : (1 + a ^ 2 * dz ^ 2 / 2) + (a * dz + a ^ 3 * dz ^ 3 / 6) ≤ 1 + (a + a ^ 2 / 2 + a ^ 3 / 6) * dz := by
    nlinarith [mul_le_mul_of_nonneg_left d2 ha2, mul_le_mul_of_nonneg_left d3 ha3]
  have gen : ∀ c1 c2 : ℂ, ∀ A1 A2 : ℝ, ‖c1‖ ≤ A1 → ‖c2‖ ≤ A2 → ‖c1 * p + c2 * q‖ ≤ (A1 + A2) * e := by
    intro c1 c2 A1 A2 h1' h2'
    refine (norm_add_le _ _).trans ?_
    rw [norm_mul, norm_mul]
    have := mul_le_mul h1' hp (norm_nonneg _) ((norm_nonneg _).trans h1')
    have := mul_le_mul h2' hq (norm_nonneg _) ((norm_nonneg _).trans h2')
    linarith
  constructor
  · exact (gen _ _ _ _ hA hB).trans (mul_le_mul_of_nonneg_right sumc he)
  · have := gen _ _ _ _ hC hD
    refine this.trans (mul_le_mul_of_nonneg_right ?_ he)
    linarith

/-- the layer step is linear: step(y) − step(y') = step(y − y') -/
theorem layerStep_sub (T k dz : ℂ) (y y' : ℂ × ℂ) :
    ((layerStep T k dz y).1 - (layerStep T k dz y').1, (layerStep T k dz y).2 - (layerStep T k dz y').2)
      = layerStep T k dz (y.1 - y'.1, y.2 - y'.2) := by
  simp only [layerStep]
  refine Prod.ext ?_ ?_ <;> (simp only []; ring)

/-- LOCAL ERROR (consistency) of one layer against an exact solution of `p' = -k q`, `q' = T p` with Lipschitz
coefficients: `≤ C·dz²`, `C = ΛB + a²B + a²B/2 + a³B/6` -/
theorem local_error (Tc kc p q : ℝ → ℂ) (z dz a B Λ : ℝ) (h0 : 0 ≤ dz) (h1 : dz ≤ 1)
    (hp : ∀ s ∈ Icc z (z + dz), HasDerivAt p (-(kc s) * q s) s)
    (hq : ∀ s ∈ Icc z (z + dz), HasDerivAt q (Tc s * p s) s)
    (hTa : ∀ s ∈ Icc z (z + dz), ‖Tc s‖ ≤ a) (hka : ∀ s ∈ Icc z (z + dz), ‖kc s‖ ≤ a)
    (hpB : ∀ s ∈ Icc z (z + dz), ‖p s‖ ≤ B) (hqB : ∀ s ∈ Icc z (z + dz), ‖q s‖ ≤ B)
    (hTl : ∀ s ∈ Icc z (z + dz), ‖Tc s - Tc z‖ ≤ Λ * (s - z)) (hkl : ∀ s ∈ Icc z (z + dz), ‖kc s - kc z‖ ≤ Λ * (s - z)) :
    ‖p (z + dz) - (layerStep (Tc z) (kc z) (dz : ℂ) (p z, q z)).1‖ ≤ (Λ * B + a ^ 2 * B + a ^ 2 * B / 2 + a ^ 3 * B / 6) * dz ^ 2 ∧
    ‖q (z + dz) - (layerStep (Tc z) (kc z) (dz : ℂ) (p z, q z)).2‖ ≤ (Λ * B + a ^ 2 * B + a ^ 2 * B / 2 + a ^ 3 * B / 6) * dz ^ 2 := by
  have hz : z ∈ Icc z (z + dz) := ⟨le_refl _, by linarith⟩
  have hzd : z + dz ∈ Icc z (z + dz) := ⟨by linarith, le_refl _⟩
  have ha : 0 ≤ a := (norm_nonneg _).trans (hTa z hz)
  have hB : 0 ≤ B := (norm_nonneg _).trans (hpB z hz)
  have hΛ : 0 ≤ Λ * dz := by
    have := (norm_nonneg _).trans (hTl (z + dz) hzd)
    simpa using this
  have conv : Convex ℝ (Icc z (z + dz)) := convex_Icc _ _
  -- Lipschitz bounds on p and q over the layer
  have lipq : ∀ s ∈ Icc z (z + dz), ‖q s - q z‖ ≤ a * B * (s - z) := by
    intro s hs
    have := conv.norm_image_sub_le_of_norm_hasDerivWithin_le (f := q) (f' := fun s => Tc s * p s) (C := a * B)
      (fun x hx => (hq x hx).hasDerivWithinAt)
      (fun x hx => by rw [norm_mul]; exact mul_le_mul (hTa x hx) (hpB x hx) (norm_nonneg _) ha) hz hs
    rwa [Real.norm_of_nonneg (by linarith [hs.1])] at this
  have lipp : ∀ s ∈ Icc z (z + dz), ‖p s - p z‖ ≤ a * B * (s - z) := by
    intro s hs
    have := conv.norm_image_sub_le_of_norm_hasDerivWithin_le (f := p) (f' := fun s => -(kc s) * q s) (C := a * B)
      (fun x hx => (hp x hx).hasDerivWithinAt)
      (fun x hx => by rw [norm_mul, norm_neg]; exact mul_le_mul (hka x hx) (hqB x hx) (norm_nonneg _) ha) hz hs
    rwa [Real.norm_of_nonneg (by linarith [hs.1])] at this
  -- second-order remainders of p and q
  have remp : ‖p (z + dz) - p z - (dz : ℂ) * (-(kc z) * q z)‖ ≤ (Λ * B + a ^ 2 * B) * dz * dz := by
    have hg : ∀ s ∈ Icc z (z + dz), HasDerivWithinAt (fun s => p s - ((s : ℂ) - (z : ℂ)) * (-(kc z) * q z))
        (-(kc s) * q s - (-(kc z) * q z)) (Icc z (z + dz)) s := by
      intro s hs
      have d1 := (hp s hs)
      have d2 : HasDerivAt (fun s : ℝ => ((s : ℂ) - (z : ℂ)) * (-(kc z) * q z)) ((1 : ℂ) * (-(kc z) * q z)) s := by
        have : HasDerivAt (fun s : ℝ => ((s : ℂ) - (z : ℂ))) (1 : ℂ) s := by
          have := (Complex.ofRealCLM.hasDerivAt (x := s)).sub_const (z : ℂ)
          simpa using this
        exact this.mul_const _
      have h3 : HasDerivAt (fun s : ℝ => p s - ((s : ℂ) - (z : ℂ)) * (-(kc z) * q z))
          (-(kc s) * q s - (1 : ℂ) * (-(kc z) * q z)) s := d1.sub d2
      rw [one_mul] at h3
      exact h3.hasDerivWithinAt
    have bound : ∀ s ∈ Icc z (z + dz), ‖-(kc s) * q s - (-(kc z) * q z)‖ ≤ (Λ * B + a ^ 2 * B) * dz := by
      intro s hs
      have e : -(kc s) * q s - (-(kc z) * q z) = -((kc s - kc z) * q s) - kc z * (q s - q z) := by ring
      rw [e]
      refine (norm_sub_le _ _).trans ?_
      rw [norm_neg, norm_mul, norm_mul]
      have t1 : ‖kc s - kc z‖ * ‖q s‖ ≤ Λ * (s - z) * B :=
        mul_le_mul (hkl s hs) (hqB s hs) (norm_nonneg _) ((norm_nonneg _).trans (hkl s hs))
      have t2 : ‖kc z‖ * ‖q s - q z‖ ≤ a * (a * B * (s - z)) :=
        mul_le_mul (hka z hz) (lipq s hs) (norm_nonneg _) ha
      have hsz : s - z ≤ dz := by linarith [hs.2]
      have hsz0 : 0 ≤ s - z := by linarith [hs.1]
      have hΛ0 : 0 ≤ Λ * B * (dz - (s - z)) ∨ True := Or.inr trivial
      have hΛB : Λ * (s - z) * B ≤ Λ * dz * B := by
        by_cases hL : 0 ≤ Λ
        · exact mul_le_mul_of_nonneg_right (mul_le_mul_of_nonneg_left hsz hL) hB
        · have hL' : Λ ≤ 0 := le_of_not_ge hL
          have : dz = 0 ∨ 0 < dz := by rcases h0.lt_or_eq with h | h; exact Or.inr h; exact Or.inl h.symm
          rcases this with hd | hd
          · have : s - z = 0 := by linarith
            rw [this, hd]
          · have : 0 ≤ Λ := by
              by_contra hc
              have : Λ * dz < 0 := mul_neg_of_neg_of_pos (lt_of_not_ge hc) hd
              linarith
            exact absurd this hL
      have : a * (a * B * (s - z)) ≤ a ^ 2 * B * dz := by
        have : a * (a * B * (s - z)) = a ^ 2 * B * (s - z) := by ring
        rw [this]
        exact mul_le_mul_of_nonneg_left hsz (by positivity)
      linarith
    have := conv.norm_image_sub_le_of_norm_hasDerivWithin_le hg bound hz hzd
    simp only [sub_self, zero_mul, sub_zero] at this
    rw [Real.norm_of_nonneg (by linarith : 0 ≤ z + dz - z)] at this
    have e : (((z + dz : ℝ) : ℂ) - (z : ℂ)) = (dz : ℂ) := by push_cast; ring
    rw [e] at this
    have e2 : z + dz - z = dz := by ring
    rw [e2] at this
    have e3 : p (z + dz) - (dz : ℂ) * (-(kc z) * q z) - p z = p (z + dz) - p z - (dz : ℂ) * (-(kc z) * q z) := by ring
    rw [e3] at this
    exact this
  have remq : ‖q (z + dz) - q z - (dz : ℂ) * (Tc z * p z)‖ ≤ (Λ * B + a ^ 2 * B) * dz * dz := by
    have hg : ∀ s ∈ Icc z (z + dz), HasDerivWithinAt (fun s => q s - ((s : ℂ) - (z : ℂ)) * (Tc z * p z))
        (Tc s * p s - Tc z * p z) (Icc z (z + dz)) s := by
      intro s hs
      have d1 := (hq s hs)
      have d2 : HasDerivAt (fun s : ℝ => ((s : ℂ) - (z : ℂ)) * (Tc z * p z)) ((1 : ℂ) * (Tc z * p z)) s := by
        have : HasDerivAt (fun s : ℝ => ((s : ℂ) - (z : ℂ))) (1 : ℂ) s := by
          have := (Complex.ofRealCLM.hasDerivAt (x := s)).sub_const (z : ℂ)
          simpa using this
        exact this.mul_const _
      have h3 : HasDerivAt (fun s : ℝ => q s - ((s : ℂ) - (z : ℂ)) * (Tc z * p z))
          (Tc s * p s - (1 : ℂ) * (Tc z * p z)) s := d1.sub d2
      rw [one_mul] at h3
      exact h3.hasDerivWithinAt
    have bound : ∀ s ∈ Icc z (z + dz), ‖Tc s * p s - Tc z * p z‖ ≤ (Λ * B + a ^ 2 * B) * dz := by
      intro s hs
      have e : Tc s * p s - Tc z * p z = (Tc s - Tc z) * p s + Tc z * (p s - p z) := by ring
      rw [e]
      refine (norm_add_le _ _).trans ?_
      rw [norm_mul, norm_mul]
      have t1 : ‖Tc s - Tc z‖ * ‖p s‖ ≤ Λ * (s - z) * B :=
        mul_le_mul (hTl s hs) (hpB s hs) (norm_nonneg _) ((norm_nonneg _).trans (hTl s hs))
      have t2 : ‖Tc z‖ * ‖p s - p z‖ ≤ a * (a * B * (s - z)) :=
        mul_le_mul (hTa z hz) (lipp s hs) (norm_nonneg _) ha
      have hsz : s - z ≤ dz := by linarith [hs.2]
      have hsz0 : 0 ≤ s - z := by linarith [hs.1]
      have hΛB : Λ * (s - z) * B ≤ Λ * dz * B := by
        by_cases hL : 0 ≤ Λ
        · exact mul_le_mul_of_nonneg_right (mul_le_mul_of_nonneg_left hsz hL) hB
        · have : dz = 0 ∨ 0 < dz := by rcases h0.lt_or_eq with h | h; exact Or.inr h; exact Or.inl h.symm
          rcases this with hd | hd
          · have : s - z = 0 := by linarith
            rw [this, hd]
          · have : 0 ≤ Λ := by
              by_contra hc
              have : Λ * dz < 0 := mul_neg_of_neg_of_pos (lt_of_not_ge hc) hd
              linarith
            exact absurd this hL
      have : a * (a * B * (s - z)) ≤ a ^ 2 * B * dz := by
        have : a * (a * B * (s - z)) = a ^ 2 * B * (s - z) := by ring
        rw [this]
        exact mul_le_mul_of_nonneg_left hsz (by positivity)
      linarith
    have := conv.norm_image_sub_le_of_norm_hasDerivWithin_le hg bound hz hzd
    simp only [sub_self, zero_mul, sub_zero] at this
    rw [Real.norm_of_nonneg (by linarith : 0 ≤ z + dz - z)] at this
    have e : (((z + dz : ℝ) : ℂ) - (z : ℂ)) = (dz : ℂ) := by push_cast; ring
    rw [e] at this
    have e2 : z + dz - z = dz := by ring
    rw [e2] at this
    have e3 : q (z + dz) - (dz : ℂ) * (Tc z * p z) - q z = q (z + dz) - q z - (dz : ℂ) * (Tc z * p z) := by ring
    rw [e3] at this
    exact this
  -- the higher-order terms of the layer polynomial
  have ndz : ‖(dz : ℂ)‖ = dz := by rw [Complex.norm_real, Real.norm_of_nonneg h0]
  have hT := hTa z hz
  have hk := hka z hz
  have hpz := hpB z hz
  have hqz := hqB z hz
  have d3 : dz ^ 3 ≤ dz ^ 2 := by nlinarith [mul_nonneg h0 h0]
  have hkT : ‖kc z‖ * ‖Tc z‖ ≤ a * a := mul_le_mul hk hT (norm_nonneg _) ha
  have hkkT : ‖kc z‖ ^ 2 * ‖Tc z‖ ≤ a ^ 2 * a := mul_le_mul (pow_le_pow_left₀ (norm_nonneg _) hk 2) hT (norm_nonneg _) (by positivity)
  have hkTT : ‖kc z‖ * ‖Tc z‖ ^ 2 ≤ a * a ^ 2 := mul_le_mul hk (pow_le_pow_left₀ (norm_nonneg _) hT 2) (by positivity) ha
  have hd2 : 0 ≤ dz ^ 2 := by positivity
  have hd3 : 0 ≤ dz ^ 3 := by positivity
  have hop : ‖(1 / 2 : ℂ) * kc z * Tc z * (dz : ℂ) ^ 2 * p z - (1 / 6 : ℂ) * kc z ^ 2 * Tc z * (dz : ℂ) ^ 3 * q z‖
      ≤ (a ^ 2 * B / 2 + a ^ 3 * B / 6) * dz ^ 2 := by
    refine (norm_sub_le _ _).trans ?_
    simp only [norm_mul, norm_pow, ndz]
    have n2 : ‖(1 / 2 : ℂ)‖ = 1 / 2 := by norm_num
    have n6 : ‖(1 / 6 : ℂ)‖ = 1 / 6 := by norm_num
    rw [n2, n6]
    have u1 : ‖kc z‖ * ‖Tc z‖ * ‖p z‖ ≤ a * a * B := mul_le_mul hkT hpz (norm_nonneg _) (by positivity)
    have u2 : ‖kc z‖ ^ 2 * ‖Tc z‖ * ‖q z‖ ≤ a ^ 2 * a * B := mul_le_mul hkkT hqz (norm_nonneg _) (by positivity)
    have v1 := mul_le_mul_of_nonneg_right u1 hd2
    have v2 := mul_le_mul u2 d3 hd3 (by positivity)
    nlinarith [v1, v2]
  have hoq : ‖(1 / 6 : ℂ) * kc z * Tc z ^ 2 * (dz : ℂ) ^ 3 * p z + (1 / 2 : ℂ) * kc z * Tc z * (dz : ℂ) ^ 2 * q z‖
      ≤ (a ^ 2 * B / 2 + a ^ 3 * B / 6) * dz ^ 2 := by
    refine (norm_add_le _ _).trans ?_
    simp only [norm_mul, norm_pow, ndz]
    have n2 : ‖(1 / 2 : ℂ)‖ = 1 / 2 := by norm_num
    have n6 : ‖(1 / 6 : ℂ)‖ = 1 / 6 := by norm_num
    rw [n2, n6]
    have u1 : ‖kc z‖ * ‖Tc z‖ * ‖q z‖ ≤ a * a * B := mul_le_mul hkT hqz (norm_nonneg _) (by positivity)
    have u2 : ‖kc z‖ * ‖Tc z‖ ^ 2 * ‖p z‖ ≤ a * a ^ 2 * B := mul_le_mul hkTT hpz (norm_nonneg _) (by positivity)
    have v1 := mul_le_mul_of_nonneg_right u1 hd2
    have v2 := mul_le_mul u2 d3 hd3 (by positivity)
    nlinarith [v1, v2]
  constructor
  · have e : p (z + dz) - (layerStep (Tc z) (kc z) (dz : ℂ) (p z, q z)).1
        = (p (z + dz) - p z - (dz : ℂ) * (-(kc z) * q z))
          + ((1 / 2 : ℂ) * kc z * Tc z * (dz : ℂ) ^ 2 * p z - (1 / 6 : ℂ) * kc z ^ 2 * Tc z * (dz : ℂ) ^ 3 * q z) := by
      simp only [layerStep, coefA, coefB]
      norm_num
      ring
    rw [e]
    refine (norm_add_le _ _).trans ?_
    nlinarith [remp, hop]
  · have e : q (z + dz) - (layerStep (Tc z) (kc z) (dz : ℂ) (p z, q z)).2
        = (q (z + dz) - q z - (dz : ℂ) * (Tc z * p z))
          + ((1 / 6 : ℂ) * kc z * Tc z ^ 2 * (dz : ℂ) ^ 3 * p z + (1 / 2 : ℂ) * kc z * Tc z * (dz : ℂ) ^ 2 * q z) := by
      simp only [layerStep, coefC, coefD]
      norm_num
      ring
    rw [e]
    refine (norm_add_le _ _).trans ?_
    nlinarith [remq, hoq]

/-- node heights are non-decreasing up to node `l` -/
theorem z_mono (z : ℕ → ℝ) (l : ℕ) (h : ∀ i, i < l → 0 ≤ z (i + 1) - z i) :
    ∀ j, j ≤ l → ∀ i, i ≤ j → z i ≤ z j := by
  intro j
  induction j with
  | zero => intro _ i hi; have : i = 0 := by omega
            subst this; exact le_refl _
  | succ j ih =>
    intro hj i hi
    rcases Nat.lt_or_ge i (j + 1) with hlt | hge
    · have := ih (by omega) i (by omega)
      have := h j (by omega)
      linarith
    · have : i = j + 1 := by omega
      subst this; exact le_refl _

/-- FIRST-ORDER CONVERGENCE OF THE SWEEP.  Hypotheses: the profiles are the node samples of coefficient functions
`Tc`, `kc` that are bounded by `a` and `Λ`-Lipschitz on `[z_0, z_l]`; `(p, q)` solves the column ODE there and is
bounded by `B`; the layers have thickness in `[0, δ]`, `δ ≤ 1`.  Conclusion: the sweep started from the exact
values is within `exp(L h)·C·δ·h` of the exact solution at node `l`, in both components. -/
theorem sweep_first_order (P : Profiles ℝ) (z : ℕ → ℝ) (Lx Ly : ℝ) (Tc kc p q : ℝ → ℂ) (l : ℕ) (a B Λ δ : ℝ)
    (hΛ : 0 ≤ Λ) (hδ0 : 0 ≤ δ) (hδ1 : δ ≤ 1)
    (hsample : ∀ i, i < l → Tcoef RC P Lx Ly i = Tc (z i) ∧ RC.ofReal (1.0 / P.Kz i) = kc (z i))
    (hgrid : ∀ i, i < l → 0 ≤ z (i + 1) - z i ∧ z (i + 1) - z i ≤ δ)
    (hp : ∀ s ∈ Icc (z 0) (z l), HasDerivAt p (-(kc s) * q s) s)
    (hq : ∀ s ∈ Icc (z 0) (z l), HasDerivAt q (Tc s * p s) s)
    (hTa : ∀ s ∈ Icc (z 0) (z l), ‖Tc s‖ ≤ a) (hka : ∀ s ∈ Icc (z 0) (z l), ‖kc s‖ ≤ a)
    (hpB : ∀ s ∈ Icc (z 0) (z l), ‖p s‖ ≤ B) (hqB : ∀ s ∈ Icc (z 0) (z l), ‖q s‖ ≤ B)
    (hTl : ∀ s ∈ Icc (z 0) (z l), ∀ t ∈ Icc (z 0) (z l), ‖Tc s - Tc t‖ ≤ Λ * |s - t|)
    (hkl : ∀ s ∈ Icc (z 0) (z l), ∀ t ∈ Icc (z 0) (z l), ‖kc s - kc t‖ ≤ Λ * |s - t|) :
    ‖p (z l) - (ivpState RC P z Lx Ly (p (z 0), q (z 0)) l).1‖
      ≤ Real.exp ((a + a ^ 2 / 2 + a ^ 3 / 6) * (z l - z 0))
          * ((Λ * B + a ^ 2 * B + a ^ 2 * B / 2 + a ^ 3 * B / 6) * δ * (z l - z 0)) ∧
    ‖q (z l) - (ivpState RC P z Lx Ly (p (z 0), q (z 0)) l).2‖
      ≤ Real.exp ((a + a ^ 2 / 2 + a ^ 3 / 6) * (z l - z 0))
          * ((Λ * B + a ^ 2 * B + a ^ 2 * B / 2 + a ^ 3 * B / 6) * δ * (z l - z 0)) := by
  have hm := z_mono z l (fun i hi => (hgrid i hi).1)
  have h0l : z 0 ≤ z l := hm l (le_refl _) 0 (Nat.zero_le _)
  have hz0 : z 0 ∈ Icc (z 0) (z l) := ⟨le_refl _, h0l⟩
  have ha : 0 ≤ a := (norm_nonneg _).trans (hTa _ hz0)
  have hB : 0 ≤ B := (norm_nonneg _).trans (hpB _ hz0)
  set L := a + a ^ 2 / 2 + a ^ 3 / 6 with hLdef
  set C := Λ * B + a ^ 2 * B + a ^ 2 * B / 2 + a ^ 3 * B / 6 with hCdef
  have hL : 0 ≤ L := by positivity
  have hC : 0 ≤ C := by positivity
  set y := fun i => ivpState RC P z Lx Ly (p (z 0), q (z 0)) i with hy
  let e : ℕ → ℝ := fun i => max ‖p (z i) - (y i).1‖ ‖q (z i) - (y i).2‖
  have he0 : e 0 = 0 := by
    show max ‖p (z 0) - (y 0).1‖ ‖q (z 0) - (y 0).2‖ = 0
    simp [hy, ivpState]
  have hstep : ∀ i, i < l → e (i + 1) ≤ (1 + L * (z (i + 1) - z i)) * e i + C * δ * (z (i + 1) - z i) := by
    intro i hi
    obtain ⟨hd0, hdδ⟩ := hgrid i hi
    set dz := z (i + 1) - z i with hdz
    have hd1 : dz ≤ 1 := hdδ.trans hδ1
    have hzi : z (i + 1) = z i + dz := by rw [hdz]; ring
    have hzi0 : z 0 ≤ z i := hm i (by omega) 0 (Nat.zero_le _)
    have hzil : z (i + 1) ≤ z l := hm l (le_refl _) (i + 1) (by omega)
    have sub : ∀ s ∈ Icc (z i) (z i + dz), s ∈ Icc (z 0) (z l) := by
      intro s hs; exact ⟨hzi0.trans hs.1, by have := hs.2; rw [← hzi] at this; exact this.trans hzil⟩
    have hzi_mem : z i ∈ Icc (z 0) (z l) := sub _ ⟨le_refl _, by linarith⟩
    have loc := local_error Tc kc p q (z i) dz a B Λ hd0 hd1
      (fun s hs => hp s (sub s hs)) (fun s hs => hq s (sub s hs))
      (fun s hs => hTa s (sub s hs)) (fun s hs => hka s (sub s hs))
      (fun s hs => hpB s (sub s hs)) (fun s hs => hqB s (sub s hs))
      (fun s hs => by have := hTl s (sub s hs) (z i) hzi_mem; rwa [abs_of_nonneg (by linarith [hs.1])] at this)
      (fun s hs => by have := hkl s (sub s hs) (z i) hzi_mem; rwa [abs_of_nonneg (by linarith [hs.1])] at this)
    have hyi : y (i + 1) = layerStep (Tc (z i)) (kc (z i)) (dz : ℂ) (y i) := by
      show ivpState RC P z Lx Ly (p (z 0), q (z 0)) (i + 1) = _
      rw [ivpState, (hsample i hi).1, (hsample i hi).2]
      rfl
    have lin := layerStep_sub (Tc (z i)) (kc (z i)) (dz : ℂ) (p (z i), q (z i)) (y i)
    have hep : ‖p (z i) - (y i).1‖ ≤ e i := le_max_left _ _
    have heq : ‖q (z i) - (y i).2‖ ≤ e i := le_max_right _ _
    have stab := layerStep_stable (Tc (z i)) (kc (z i)) dz a (e i) (hTa _ hzi_mem) (hka _ hzi_mem) hd0 hd1
      (p (z i) - (y i).1) (q (z i) - (y i).2) hep heq
    rw [← lin] at stab
    simp only at stab
    rw [← hLdef] at stab
    rw [← hCdef] at loc
    have hdz2 : C * dz ^ 2 ≤ C * δ * dz := by
      have : dz ^ 2 ≤ δ * dz := by nlinarith
      nlinarith
    have b1 : ‖p (z (i + 1)) - (y (i + 1)).1‖ ≤ (1 + L * dz) * e i + C * δ * dz := by
      rw [hyi, hzi]
      have e1 : p (z i + dz) - (layerStep (Tc (z i)) (kc (z i)) (dz : ℂ) (y i)).1
          = (p (z i + dz) - (layerStep (Tc (z i)) (kc (z i)) (dz : ℂ) (p (z i), q (z i))).1)
            + ((layerStep (Tc (z i)) (kc (z i)) (dz : ℂ) (p (z i), q (z i))).1 - (layerStep (Tc (z i)) (kc (z i)) (dz : ℂ) (y i)).1) := by ring
      rw [e1]
      refine (norm_add_le _ _).trans ?_
      linarith [loc.1, stab.1]
    have b2 : ‖q (z (i + 1)) - (y (i + 1)).2‖ ≤ (1 + L * dz) * e i + C * δ * dz := by
      rw [hyi, hzi]
      have e1 : q (z i + dz) - (layerStep (Tc (z i)) (kc (z i)) (dz : ℂ) (y i)).2
          = (q (z i + dz) - (layerStep (Tc (z i)) (kc (z i)) (dz : ℂ) (p (z i), q (z i))).2)
            + ((layerStep (Tc (z i)) (kc (z i)) (dz : ℂ) (p (z i), q (z i))).2 - (layerStep (Tc (z i)) (kc (z i)) (dz : ℂ) (y i)).2) := by ring
      rw [e1]
      refine (norm_add_le _ _).trans ?_
      linarith [loc.2, stab.2]
    exact max_le b1 b2
  have g := gronwall_upto e (fun i => z (i + 1) - z i) L (C * δ) hL (mul_nonneg hC hδ0) (by rw [he0]) l
    (fun i hi => (hgrid i hi).1) hstep
  rw [Finset.sum_range_sub z l, he0, zero_add] at g
  have g' : e l ≤ Real.exp (L * (z l - z 0)) * (C * δ * (z l - z 0)) := g
  exact ⟨(le_max_left _ _).trans g', (le_max_right _ _).trans g'⟩

/-! ### non-vacuity: constant coefficients `T = -1`, `k = 1`, exact solution `p = q = e^{-s}`, ten layers of 1/10 -/
example : ∃ (P : Profiles ℝ) (z : ℕ → ℝ) (Lx Ly : ℝ) (Tc kc p q : ℝ → ℂ) (l : ℕ) (a B Λ δ : ℝ),
    0 ≤ Λ ∧ 0 ≤ δ ∧ δ ≤ 1 ∧ 0 < l ∧
    (∀ i, i < l → Tcoef RC P Lx Ly i = Tc (z i) ∧ RC.ofReal (1.0 / P.Kz i) = kc (z i)) ∧
    (∀ i, i < l → 0 ≤ z (i + 1) - z i ∧ z (i + 1) - z i ≤ δ) ∧
    (∀ s ∈ Icc (z 0) (z l), HasDerivAt p (-(kc s) * q s) s) ∧ (∀ s ∈ Icc (z 0) (z l), HasDerivAt q (Tc s * p s) s) ∧
    (∀ s ∈ Icc (z 0) (z l), ‖Tc s‖ ≤ a) ∧ (∀ s ∈ Icc (z 0) (z l), ‖kc s‖ ≤ a) ∧
    (∀ s ∈ Icc (z 0) (z l), ‖p s‖ ≤ B) ∧ (∀ s ∈ Icc (z 0) (z l), ‖q s‖ ≤ B) ∧
    (∀ s ∈ Icc (z 0) (z l), ∀ t ∈ Icc (z 0) (z l), ‖Tc s - Tc t‖ ≤ Λ * |s - t|) ∧
    (∀ s ∈ Icc (z 0) (z l), ∀ t ∈ Icc (z 0) (z l), ‖kc s - kc t‖ ≤ Λ * |s - t|) := by
  have hd : ∀ s : ℝ, HasDerivAt (fun s : ℝ => Complex.exp (-(s : ℂ))) (-Complex.exp (-(s : ℂ))) s := by
    intro s
    have h0 : HasDerivAt (fun s : ℝ => (s : ℂ)) (1 : ℂ) s := by
      simpa using (hasDerivAt_id s).ofReal_comp
    have h1 : HasDerivAt (fun s : ℝ => -(s : ℂ)) (-1 : ℂ) s := h0.neg
    have := h1.cexp
    simpa using this
  have hb : ∀ s : ℝ, 0 ≤ s → ‖Complex.exp (-(s : ℂ))‖ ≤ 1 := by
    intro s hs
    rw [Complex.norm_exp]
    simp only [Complex.neg_re, Complex.ofReal_re]
    exact Real.exp_le_one_iff.mpr (by linarith)
  refine ⟨⟨fun _ => 0, fun _ => 0, fun _ => 1, fun _ => 0, fun _ => 1⟩, fun i => (i : ℝ) / 10, 1, 0,
    fun _ => -1, fun _ => 1, fun s => Complex.exp (-(s : ℂ)), fun s => Complex.exp (-(s : ℂ)), 10, 1, 1, 0, 1 / 10,
    le_refl _, by norm_num, by norm_num, by norm_num, ?_, ?_, ?_, ?_, ?_, ?_, ?_, ?_, ?_, ?_⟩
  · intro i _
    constructor
    · simp only [Tcoef, RC]; push_cast; norm_num
    · simp only [RC]; norm_num
  · intro i _; constructor <;> (push_cast; linarith)
  · intro s _; have := hd s; simpa using this
  · intro s _; have := hd s; simpa using this
  · intro s _; simp
  · intro s _; simp
  · intro s hs; exact hb s (by have := hs.1; simpa using this)
  · intro s hs; exact hb s (by have := hs.1; simpa using this)
  · intro s _ t _; simp
  · intro s _ t _; simp

end BLDFM.C01
