/-
  C16 (consumers) — "drivers iterate range(n_timesteps)": the time-series driver returns exactly one result per step, and the `i`-th result
  is the single run of step `i`: it carries the `i`-th entry of every list-valued field, the value of every scalar one, the `i`-th timestamp
  or the index `i` — never a neighbouring step's (a driver that re-uses the previous result for a repeated forcing returns the previous label).
  Assembled from `nTimesteps_spec`, `getStep_spec` (C16) and the driver model (C14 `timeseries_eq_singles`); every tower of the multi-tower
  driver likewise.
-/
import Proofs.C16
import Proofs.C14

open BLDFM

namespace BLDFM.C16

/-- the `i`-th result of the time series is the single run at step `i`, which exists and is labelled and forced by step `i`'s own entries -/
theorem timeseries_step_spec (dom : DomainCfg) (sol : SolverCfg) (met : MetCfg) (tower : TowerCfg) (flux cache : Option V)
    (n i : ℕ) (h : CommonLen met n) (hi : i < n) (hts : ∀ t, met.timestamps = some t → t.length = n) :
    (runTimeseries dom sol met tower flux cache).length = n ∧
    ∃ s c, met.getStep i = .ok s ∧ (runTimeseries dom sol met tower flux cache)[i]? = some (.ok c) ∧
      c.params = s ∧ c.timestamp = s.timestamp ∧ c.windSpeed = s.windSpeed ∧ c.windDir = s.windDir ∧ c.profMol = s.mol ∧
      (∀ t, met.timestamps = some t → ∃ x, t[i]? = some x ∧ c.timestamp = Sum.inl x) ∧
      (met.timestamps = none → c.timestamp = Sum.inr i) ∧
      (∀ xs, met.windDir = .list xs → c.windDir = xs[i]?) ∧ (∀ x, met.windDir = .scalar x → c.windDir = some x) ∧
      (∀ xs, met.windSpeed = .list xs → c.windSpeed = xs[i]?) ∧ (∀ x, met.windSpeed = .scalar x → c.windSpeed = some x) ∧
      (∀ xs, met.mol = .list xs → c.profMol = xs[i]?) ∧ (∀ x, met.mol = .scalar x → c.profMol = some x) := by
  have hn := nTimesteps_spec met n h
  obtain ⟨hser, hlen⟩ := C14.timeseries_eq_singles dom sol met tower flux cache
  obtain ⟨s, hs, _, _, hm1, hm2, hw1, hw2, hd1, hd2, _, ht1, ht2⟩ := getStep_spec met n i h hi hts
  refine ⟨by rw [hlen, hn], s, ?_⟩
  have hrun : ∃ c, runSingle dom sol met tower i flux cache = .ok c ∧ c.params = s ∧ c.timestamp = s.timestamp ∧
      c.windSpeed = s.windSpeed ∧ c.windDir = s.windDir ∧ c.profMol = s.mol := by
    simp only [runSingle, hs, bind, Except.bind, pure, Except.pure]
    exact ⟨_, rfl, rfl, rfl, rfl, rfl, rfl⟩
  obtain ⟨c, hc, e1, e2, e3, e4, e5⟩ := hrun
  refine ⟨c, hs, ?_, e1, e2, e3, e4, e5, ?_, ?_, ?_, ?_, ?_, ?_, ?_, ?_⟩
  · rw [hser]
    simp [hn, hi, hc]
  · intro t ht; obtain ⟨x, hx, hxs⟩ := ht1 t ht; exact ⟨x, hx, by rw [e2, hxs]⟩
  · intro hnone; rw [e2]; exact ht2 hnone
  · intro xs hxs; rw [e4]; exact hd1 xs hxs
  · intro x hx; rw [e4]; exact hd2 x hx
  · intro xs hxs; rw [e3]; exact hw1 xs hxs
  · intro x hx; rw [e3]; exact hw2 x hx
  · intro xs hxs; rw [e5]; exact hm1 xs hxs
  · intro x hx; rw [e5]; exact hm2 x hx

/-- the same for every tower of the multi-tower driver: tower `k`'s series has one result per step -/
theorem multitower_series_length (dom : DomainCfg) (sol : SolverCfg) (met : MetCfg) (towers : List TowerCfg) (flux cache : Option V)
    (n : ℕ) (h : CommonLen met n) (k : ℕ) (hk : k < towers.length) :
    ∃ ser, (runMultitower dom sol met towers flux cache)[k]? = some (towers[k].name, ser) ∧ ser.length = n := by
  refine ⟨_, C14.multitower_eq_singles dom sol met towers flux cache k hk, ?_⟩
  rw [(C14.timeseries_eq_singles dom sol met towers[k] flux cache).2, nTimesteps_spec met n h]

/-! non-vacuity: a series whose wind direction REPEATS (270, 270, 200) — the second step still carries index 1 and its own entry -/
example : ∃ m : MetCfg, CommonLen m 3 ∧ (∀ t, m.timestamps = some t → t.length = 3) ∧ m.windDir = .list [270, 270, 200] := by
  refine ⟨⟨.scalar 3, .scalar (-100), .scalar 5, .list [270, 270, 200], none, none⟩, ⟨?_, ?_⟩, ?_, rfl⟩
  · intro v hv xs hx
    simp [MetCfg.fields] at hv
    rcases hv with h | h | h | h <;> subst h <;> cases hx <;> rfl
  · intro h
    exfalso
    exact h (.list [270, 270, 200]) (by simp [MetCfg.fields]) [270, 270, 200] rfl
  · intro t ht; cases ht

end BLDFM.C16
