/-
  C06 — horizontal translation equivariance (phase level): moving the tower by whole
  cells multiplies every spectral coefficient by the root-of-unity power of its own
  signed frequency (the DFT shift factor); the footprint phase places an on-grid tower
  at its padded-grid cell; a zero measurement point leaves dispersion output unshifted.
-/
import Proofs.Lemmas.Spec
import Proofs.Lemmas.Tactics
import Proofs.Lemmas.Phase

open BLDFM BLDFM.Spec

namespace BLDFM.C06

/-- footprint mode, on-grid tower `(im·dx, jm·dy)`: the phase of slot `(a, b)` is
`ω_x^{f(b)(im+px)} · ω_y^{f(a)(jm+py)}` — the tower's cell on the PADDED grid -/
theorem footprint_phase_on_grid (req : SolveReq ℝ) (hfp : req.footprint = true) (a b im jm : ℕ)
    (hxm : req.xm = im * (geom RC req).dx) (hym : req.ym = jm * (geom RC req).dy)
    (ha : a < (geom RC req).nly) (hb : b < (geom RC req).nlx)
    (hdx : (geom RC req).dx ≠ 0) (hdy : (geom RC req).dy ≠ 0)
    (hNx : 0 < (geom RC req).nxe) (hNy : 0 < (geom RC req).nye) :
    let g := geom RC req
    shiftFactor RC req g a b =
      rootPow g.nxe (sfreq g.nlx b * ((im + g.px : ℕ) : ℤ)) * rootPow g.nye (sfreq g.nly a * ((jm + g.py : ℕ) : ℤ)) := by
  intro g
  have hx := waveX_cells g b ((im + g.px : ℕ) : ℝ) hb hdx hNx
  have hy := waveY_cells g a ((jm + g.py : ℕ) : ℝ) ha hdy hNy
  simp only [shiftFactor, hfp, if_true, rootPow, ← Complex.exp_add]
  congr 1
  have e1 : req.xm + (g.px : ℝ) * g.dx = ((im + g.px : ℕ) : ℝ) * g.dx := by
    rw [hxm]; push_cast; ring
  have e2 : req.ym + (g.py : ℝ) * g.dy = ((jm + g.py : ℕ) : ℝ) * g.dy := by
    rw [hym]; push_cast; ring
  rc_norm
  rw [e1, e2, hx, hy]
  push_cast
  ring

/-- tower shift: moving the measurement point by `(cx, cy)` whole cells multiplies slot
`(a, b)` by `ω_x^{f(b) cx} ω_y^{f(a) cy}`, which is the DFT shift factor of a roll by
`(cy, cx)` cells -/
theorem tower_shift_phase (req : SolveReq ℝ) (hfp : req.footprint = true) (a b : ℕ) (cx cy : ℤ)
    (ha : a < (geom RC req).nly) (hb : b < (geom RC req).nlx)
    (hdx : (geom RC req).dx ≠ 0) (hdy : (geom RC req).dy ≠ 0)
    (hNx : 0 < (geom RC req).nxe) (hNy : 0 < (geom RC req).nye) :
    let g := geom RC req
    let req' : SolveReq ℝ := { req with xm := req.xm + cx * g.dx, ym := req.ym + cy * g.dy }
    shiftFactor RC req' (geom RC req') a b =
      shiftFactor RC req g a b * (rootPow g.nxe (sfreq g.nlx b * cx) * rootPow g.nye (sfreq g.nly a * cy)) := by
  intro g req'
  have hg : geom RC req' = g := rfl
  have hx := waveX_cells g b (cx : ℝ) hb hdx hNx
  have hy := waveY_cells g a (cy : ℝ) ha hdy hNy
  rw [hg]
  simp only [shiftFactor, hfp, if_true, rootPow, ← Complex.exp_add, req']
  congr 1
  have e : waveX RC g b * (req.xm + ↑cx * g.dx + (g.px : ℝ) * g.dx) +
      waveY RC g a * (req.ym + ↑cy * g.dy + (g.py : ℝ) * g.dy) =
      (waveX RC g b * (req.xm + (g.px : ℝ) * g.dx) + waveY RC g a * (req.ym + (g.py : ℝ) * g.dy))
        + (waveX RC g b * (cx * g.dx) + waveY RC g a * (cy * g.dy)) := by ring
  rc_norm
  rw [e, hx, hy]
  push_cast
  rw [← Complex.exp_add]
  congr 1
  ring

/-- dispersion mode: with the measurement point at the origin the output is not shifted
(the guard `xm² + ym² > 0` is part of the model) -/
theorem recentre_guard_origin (req : SolveReq ℝ) (hfp : req.footprint = false)
    (hx : req.xm = 0) (hy : req.ym = 0) (a b : ℕ) :
    shiftFactor RC req (geom RC req) a b = 1 := by
  simp only [shiftFactor, hfp, hx, hy]
  norm_num

/-- dispersion mode, on-grid point, even grid: the re-centring phase is the shift factor
that moves cell `(jm, im)` to the centre `(ny/2, nx/2)` -/
theorem recentre_phase (req : SolveReq ℝ) (hfp : req.footprint = false) (a b im jm : ℕ)
    (hpos : 0 < req.xm ^ 2 + req.ym ^ 2)
    (hxm : req.xm = im * (geom RC req).dx) (hym : req.ym = jm * (geom RC req).dy)
    (hxmx : req.xmx = req.nx * (geom RC req).dx) (hymx : req.ymx = req.ny * (geom RC req).dy)
    (hex : req.nx % 2 = 0) (hey : req.ny % 2 = 0)
    (ha : a < (geom RC req).nly) (hb : b < (geom RC req).nlx)
    (hdx : (geom RC req).dx ≠ 0) (hdy : (geom RC req).dy ≠ 0)
    (hNx : 0 < (geom RC req).nxe) (hNy : 0 < (geom RC req).nye) :
    let g := geom RC req
    shiftFactor RC req g a b =
      rootPow g.nxe (sfreq g.nlx b * ((im : ℤ) - (req.nx / 2 : ℕ))) * rootPow g.nye (sfreq g.nly a * ((jm : ℤ) - (req.ny / 2 : ℕ))) := by
  intro g
  generalize hhx : req.nx / 2 = hx2
  generalize hhy : req.ny / 2 = hy2
  have hx := waveX_cells g b ((im : ℝ) - ((hx2 : ℕ) : ℝ)) hb hdx hNx
  have hy := waveY_cells g a ((jm : ℝ) - ((hy2 : ℕ) : ℝ)) ha hdy hNy
  have hpos' : (0.0 : ℝ) < req.xm ^ 2 + req.ym ^ 2 := by norm_num; exact hpos
  simp only [shiftFactor, hfp, hpos', if_true, rootPow, ← Complex.exp_add]
  congr 1
  have hnx : (req.nx : ℝ) = 2 * ((hx2 : ℕ) : ℝ) := by
    have : req.nx = 2 * hx2 := by omega
    exact_mod_cast this
  have hny : (req.ny : ℝ) = 2 * ((hy2 : ℕ) : ℝ) := by
    have : req.ny = 2 * hy2 := by omega
    exact_mod_cast this
  have e1 : req.xm - req.xmx / 2.0 = ((im : ℝ) - ((hx2 : ℕ) : ℝ)) * g.dx := by
    rw [hxm, hxmx, hnx]; norm_num; ring
  have e2 : req.ym - req.ymx / 2.0 = ((jm : ℝ) - ((hy2 : ℕ) : ℝ)) * g.dy := by
    rw [hym, hymx, hny]; norm_num; ring
  rc_norm
  rw [e1, e2, hx, hy]
  push_cast
  ring

end BLDFM.C06
