/-
  C03 (third clause, whole model pipeline) — A HALO IS EXACTLY EXPLICIT ZERO PADDING: a request with a halo of
  `px × py` whole cells and the request whose source has been zero-padded by the caller by the same cells, whose
  domain has been enlarged accordingly and which asks for no halo, produce the same fields on the padded grid —
  hence the result of the first is the crop of the result of the second.
-/
import Proofs.Lemmas.Spec
import Proofs.Lemmas.Tactics
import Proofs.Lemmas.Repr
import Proofs.C03b
import Proofs.Lemmas.Witness

open BLDFM BLDFM.Spec BLDFM.Index

namespace BLDFM.C03

/-- `rp` is `r` with the halo made explicit by the caller -/
structure PaddedPair (r rp : SolveReq ℝ) : Prop where
  hny : rp.ny = r.ny + 2 * (geom RC r).py
  hnx : rp.nx = r.nx + 2 * (geom RC r).px
  hxmx : rp.xmx = r.xmx + 2 * ((geom RC r).px : ℝ) * (geom RC r).dx
  hymx : rp.ymx = r.ymx + 2 * ((geom RC r).py : ℝ) * (geom RC r).dy
  hhalo : rp.halo = some 0
  hq : ∀ J I, rp.q J I =
    if (geom RC r).py ≤ J ∧ J < (geom RC r).py + r.ny ∧ (geom RC r).px ≤ I ∧ I < (geom RC r).px + r.nx
    then r.q (J - (geom RC r).py) (I - (geom RC r).px) else 0
  hnz : rp.nz = r.nz
  hz : rp.z = r.z
  hP : rp.P = r.P
  hlv : rp.levels = r.levels
  hnlx : rp.nlx = r.nlx
  hnly : rp.nly = r.nly
  hbg : rp.bg = r.bg
  hfp : rp.footprint = r.footprint
  han : rp.analytic = r.analytic
  hpr : rp.precision = r.precision
  /-- footprint mode: the tower keeps its physical position; dispersion mode: un-centred output in both -/
  htower : (r.footprint = true ∧ rp.xm = r.xm + ((geom RC r).px : ℝ) * (geom RC r).dx ∧
              rp.ym = r.ym + ((geom RC r).py : ℝ) * (geom RC r).dy) ∨
           (r.footprint = false ∧ r.xm = 0 ∧ r.ym = 0 ∧ rp.xm = 0 ∧ rp.ym = 0)

section
variable {r rp : SolveReq ℝ} (h : PaddedPair r rp) (hnx0 : 0 < r.nx) (hny0 : 0 < r.ny)
include h

theorem pp_px : (geom RC rp).px = 0 := by
  simp [geom, h.hhalo, RC]

theorem pp_py : (geom RC rp).py = 0 := by
  simp [geom, h.hhalo, RC]

theorem pp_nxe : (geom RC rp).nxe = (geom RC r).nxe := by
  rw [C11.geom_nxe, C11.geom_nxe, pp_px h, h.hnx]; omega

theorem pp_nye : (geom RC rp).nye = (geom RC r).nye := by
  rw [C11.geom_nye, C11.geom_nye, pp_py h, h.hny]; omega

include hnx0 in
theorem pp_dx : (geom RC rp).dx = (geom RC r).dx := by
  have e1 : (geom RC rp).dx = rp.xmx / (rp.nx : ℝ) := rfl
  have e2 : (geom RC r).dx = r.xmx / (r.nx : ℝ) := rfl
  have hn : (r.nx : ℝ) ≠ 0 := by exact_mod_cast hnx0.ne'
  have hn' : ((r.nx : ℝ) + 2 * ((geom RC r).px : ℝ)) ≠ 0 := by positivity
  rw [e1, h.hxmx, h.hnx, e2]
  push_cast
  field_simp

include hny0 in
theorem pp_dy : (geom RC rp).dy = (geom RC r).dy := by
  have e1 : (geom RC rp).dy = rp.ymx / (rp.ny : ℝ) := rfl
  have e2 : (geom RC r).dy = r.ymx / (r.ny : ℝ) := rfl
  have hn : (r.ny : ℝ) ≠ 0 := by exact_mod_cast hny0.ne'
  have hn' : ((r.ny : ℝ) + 2 * ((geom RC r).py : ℝ)) ≠ 0 := by positivity
  rw [e1, h.hymx, h.hny, e2]
  push_cast
  field_simp

theorem pp_nl : (geom RC rp).nlx = (geom RC r).nlx ∧ (geom RC rp).nly = (geom RC r).nly := by
  have e1 := C11.geom_nl rp
  have e2 := C11.geom_nl r
  rw [pp_nxe h, pp_nye h, h.hnlx, h.hnly] at e1
  exact ⟨e1.1.trans e2.1.symm, e1.2.trans e2.2.symm⟩

theorem pp_dl : (geom RC rp).dlx = (geom RC r).dlx ∧ (geom RC rp).dly = (geom RC r).dly := by
  have e1 := C11.geom_dl rp
  have e2 := C11.geom_dl r
  rw [pp_nxe h, pp_nye h, (pp_nl h).1, (pp_nl h).2] at e1
  exact ⟨e1.1.trans e2.1.symm, e1.2.trans e2.2.symm⟩

/-- the padded sources coincide cell by cell (also outside the grid, where both are zero) -/
theorem pp_padSrc : padSrc RC rp (geom RC rp) = padSrc RC r (geom RC r) := by
  funext J I
  unfold padSrc
  rw [pp_px h, pp_py h, h.hny, h.hnx, h.hq]
  by_cases hw : (geom RC r).py ≤ J ∧ J < (geom RC r).py + r.ny ∧ (geom RC r).px ≤ I ∧ I < (geom RC r).px + r.nx
  · rw [if_pos hw, if_pos ⟨Nat.zero_le _, by omega, Nat.zero_le _, by omega⟩]
    simp only [Nat.sub_zero, if_pos hw]
  · rw [if_neg hw]
    by_cases hw2 : 0 ≤ J ∧ J < 0 + (r.ny + 2 * (geom RC r).py) ∧ 0 ≤ I ∧ I < 0 + (r.nx + 2 * (geom RC r).px)
    · rw [if_pos hw2]
      simp only [Nat.sub_zero, if_neg hw, RC_ofReal]
      norm_num
    · rw [if_neg hw2]

include hnx0 hny0 in
/-- HALO ≡ EXPLICIT PADDING, whole pipeline: the two requests produce the same padded-domain fields at every
node, in both modes, numeric and analytic, for every truncation, parity and profile set -/
theorem halo_eq_padding_fields (l : ℕ) :
    fieldsAt RC rp (geom RC rp) (srcSpectrum RC rp (geom RC rp)).get l
      = fieldsAt RC r (geom RC r) (srcSpectrum RC r (geom RC r)).get l := by
  have hdx := pp_dx h hnx0
  have hdy := pp_dy h hny0
  have hNx := pp_nxe h
  have hNy := pp_nye h
  obtain ⟨hlx, hly⟩ := pp_nl h
  obtain ⟨hdlx, hdly⟩ := pp_dl h
  have hpad := pp_padSrc h
  have wx : ∀ b, waveX RC (geom RC rp) b = waveX RC (geom RC r) b := by
    intro b; unfold waveX; rw [hdx, hNx, hlx]
  have wy : ∀ a, waveY RC (geom RC rp) a = waveY RC (geom RC r) a := by
    intro a; unfold waveY; rw [hdy, hNy, hly]
  have hS : srcSpectrum RC rp (geom RC rp) = srcSpectrum RC r (geom RC r) := by
    unfold srcSpectrum
    rw [h.hfp, hNx, hNy, hlx, hly, hdlx, hdly, hpad]
  have st : ∀ c : ℂ, storeP RC rp c = storeP RC r c := by
    intro c; unfold storeP; rw [h.hpr]
  have hcoef : ∀ S a b, modeCoef RC rp (geom RC rp) S l a b = modeCoef RC r (geom RC r) S l a b := by
    intro S a b
    unfold modeCoef
    simp only [st, h.han, h.hP, h.hz, h.hnz, h.hbg, wx, wy]
  have hshift : ∀ a b, shiftFactor RC rp (geom RC rp) a b = shiftFactor RC r (geom RC r) a b := by
    intro a b
    unfold shiftFactor
    rcases h.htower with ⟨hf, hx, hy⟩ | ⟨hf, hx, hy, hx', hy'⟩
    · simp only [h.hfp, hf, if_true, wx, wy, pp_px h, pp_py h, hx, hy, hdx, hdy]
      congr 2
      rc_norm
      ring
    · have z : ¬((0.0 : ℝ) < (0 : ℝ) ^ 2 + (0 : ℝ) ^ 2) := by norm_num
      simp only [h.hfp, hf, hx, hy, hx', hy', Bool.false_eq_true, if_false, z]
  have hun : (untrunc (geom RC rp) : (ℕ → ℕ → ℂ) → ℕ → ℕ → ℂ) = untrunc (geom RC r) := by
    funext T A B
    unfold untrunc
    rw [hNx, hNy, hlx, hly, hdlx, hdly]
  unfold fieldsAt
  simp only [hcoef, hshift, hun, hNx, hNy, hlx, hly, h.hfp, hS]

include hnx0 hny0 in
/-- … observed through the public result: the output of the halo request is the crop of the output of the
explicitly padded request -/
theorem halo_eq_padding (k j i : ℕ) :
    (solveOk RC r).conc k j i = (solveOk RC rp).conc k (j + (geom RC r).py) (i + (geom RC r).px) ∧
    (solveOk RC r).flx k j i = (solveOk RC rp).flx k (j + (geom RC r).py) (i + (geom RC r).px) := by
  have hf := fun l => halo_eq_padding_fields h hnx0 hny0 l
  simp only [solveOk, Tab1.get_tab, pp_px h, pp_py h, h.hlv, Nat.add_zero, hf]
  exact ⟨trivial, trivial⟩

end

/-- the explicitly padded partner of a request: what a caller does by hand -/
noncomputable def padOf (r : SolveReq ℝ) : SolveReq ℝ where
  ny := r.ny + 2 * (geom RC r).py
  nx := r.nx + 2 * (geom RC r).px
  nz := r.nz
  q := fun J I =>
    if (geom RC r).py ≤ J ∧ J < (geom RC r).py + r.ny ∧ (geom RC r).px ≤ I ∧ I < (geom RC r).px + r.nx
    then r.q (J - (geom RC r).py) (I - (geom RC r).px) else 0
  z := r.z
  P := r.P
  xmx := r.xmx + 2 * ((geom RC r).px : ℝ) * (geom RC r).dx
  ymx := r.ymx + 2 * ((geom RC r).py : ℝ) * (geom RC r).dy
  levels := r.levels
  nlx := r.nlx
  nly := r.nly
  xm := if r.footprint then r.xm + ((geom RC r).px : ℝ) * (geom RC r).dx else r.xm
  ym := if r.footprint then r.ym + ((geom RC r).py : ℝ) * (geom RC r).dy else r.ym
  bg := r.bg
  footprint := r.footprint
  analytic := r.analytic
  halo := some 0
  precision := r.precision

/-- every footprint request, and every dispersion request with the measurement point at the origin, has its
explicitly padded partner -/
theorem padOf_pair (r : SolveReq ℝ) (ht : r.footprint = true ∨ (r.xm = 0 ∧ r.ym = 0)) : PaddedPair r (padOf r) := by
  refine ⟨rfl, rfl, rfl, rfl, rfl, fun _ _ => rfl, rfl, rfl, rfl, rfl, rfl, rfl, rfl, rfl, rfl, rfl, ?_⟩
  cases hf : r.footprint
  · right
    rcases ht with ht | ⟨hx, hy⟩
    · rw [hf] at ht; cases ht
    · exact ⟨rfl, hx, hy, by simp [padOf, hf, hx], by simp [padOf, hf, hy]⟩
  · left
    exact ⟨rfl, by simp [padOf, hf], by simp [padOf, hf]⟩

/-! ### non-vacuity: a request with a two-cell halo -/

example : ∃ r : SolveReq ℝ, PaddedPair r (padOf r) ∧ 0 < r.nx ∧ 0 < r.ny ∧ (geom RC r).px = 2 ∧ (geom RC r).py = 2 := by
  refine ⟨{ Witness.wreq true with halo := some 20 }, padOf_pair _ (Or.inl rfl), ?_, ?_, ?_, ?_⟩
  · simp [Witness.wreq]
  · simp [Witness.wreq]
  · simp only [geom, Witness.wreq, RC]
    norm_num
  · simp only [geom, Witness.wreq, RC]
    norm_num

end BLDFM.C03
