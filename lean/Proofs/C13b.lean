/-
  The source primitive of the pipeline (`ideal_source`) and `point_measurement` over exact arithmetic:
  diamond and circle sources are indicator fields, every shape is non-negative, the default (centred) source is
  symmetric under the mirror `i ↦ nx-1-i` and `j ↦ ny-1-j`, and `point_measurement` is the plain double sum.
-/
import Mathlib.Analysis.SpecialFunctions.Exp
import Mathlib.Analysis.SpecialFunctions.Sqrt
import Proofs.Lemmas.Spec
import Proofs.Lemmas.Tactics

open BLDFM BLDFM.Spec

namespace BLDFM.C13

theorem pointMeasurement_eq_sum (ny nx : ℕ) (f g : ℕ → ℕ → ℝ) :
    pointMeasurement ny nx f g = ∑ j ∈ Finset.range ny, ∑ i ∈ Finset.range nx, f j i * g j i := by
  unfold pointMeasurement
  have z0 : (0.0 : ℝ) = 0 := by norm_num
  rw [z0, sumN_eq_sum]
  apply Finset.sum_congr rfl; intro j _
  rw [sumN_eq_sum]

theorem pointMeasurement_comm (ny nx : ℕ) (f g : ℕ → ℕ → ℝ) :
    pointMeasurement ny nx f g = pointMeasurement ny nx g f := by
  rw [pointMeasurement_eq_sum, pointMeasurement_eq_sum]
  apply Finset.sum_congr rfl; intro j _
  apply Finset.sum_congr rfl; intro i _
  ring

theorem absR_eq_abs (x : ℝ) : absR x = |x| := by
  unfold absR
  have z0 : (0.0 : ℝ) = 0 := by norm_num
  rw [z0]
  split
  · rw [abs_of_neg ‹_›]
  · rw [abs_of_nonneg (not_lt.mp ‹_›)]

/-- diamond and circle sources take the values 0 and 1 only -/
theorem idealSource_binary (nx ny : ℕ) (xmx ymx : ℝ) (loc : Option (ℝ × ℝ)) (j i : ℕ) :
    (idealSource RC nx ny xmx ymx loc .diamond j i = 0 ∨ idealSource RC nx ny xmx ymx loc .diamond j i = 1) ∧
    (idealSource RC nx ny xmx ymx loc .circle j i = 0 ∨ idealSource RC nx ny xmx ymx loc .circle j i = 1) := by
  constructor
  · simp only [idealSource, srcCell]; split <;> norm_num
  · simp only [idealSource, srcCell]; split <;> norm_num

/-- every shape is non-negative (any grid, any domain, any centre) -/
theorem idealSource_nonneg (nx ny : ℕ) (xmx ymx : ℝ) (hx : 0 < xmx) (hn : 0 < nx) (loc : Option (ℝ × ℝ)) (shape : SrcShape) (j i : ℕ) :
    0 ≤ idealSource RC nx ny xmx ymx loc shape j i := by
  cases shape
  · simp only [idealSource, srcCell]; split <;> norm_num
  · simp only [idealSource, srcCell]; split <;> norm_num
  · simp only [idealSource, srcCell]
    have hdx : 0 < xmx / RC.natCast nx := by
      have : (0 : ℝ) < (nx : ℝ) := by exact_mod_cast hn
      exact div_pos hx this
    have h4 : (0 : ℝ) < 4.0 * (xmx / RC.natCast nx) := by norm_num; exact hdx
    rc_norm
    have hs : 0 < Real.sqrt (2.0 * Real.pi) := by
      apply Real.sqrt_pos.mpr; norm_num; exact Real.pi_pos
    exact div_nonneg (div_nonneg (Real.exp_pos _).le h4.le) hs.le
  · simp only [idealSource, srcCell]; norm_num

/-- nodes of `np.linspace(0, stop, n)` are symmetric about `stop/2` -/
theorem linspaceEnd_mirror (stop : ℝ) (n i : ℕ) (hi : i < n) (hn : 2 ≤ n) :
    linspaceEnd RC stop n (n - 1 - i) = stop - linspaceEnd RC stop n i := by
  unfold linspaceEnd
  have hn1 : ¬ n ≤ 1 := by omega
  rw [if_neg hn1, if_neg hn1]
  have hc : (RC.natCast (n - 1) : ℝ) = (n : ℝ) - 1 := by
    show ((n - 1 : ℕ) : ℝ) = (n : ℝ) - 1
    rw [Nat.cast_sub (by omega)]; norm_num
  have hne : ((n : ℝ) - 1) ≠ 0 := by
    have : (2 : ℝ) ≤ (n : ℝ) := by exact_mod_cast hn
    linarith
  by_cases h0 : i = 0
  · subst h0
    rw [if_pos (by omega), if_neg (by omega)]
    show stop = stop - ((0 : ℕ) : ℝ) * _
    simp
  · by_cases hl : i + 1 = n
    · rw [if_neg (by omega), if_pos hl]
      have : n - 1 - i = 0 := by omega
      rw [this]
      show ((0 : ℕ) : ℝ) * _ = _
      simp
    · rw [if_neg (by omega), if_neg hl, hc]
      show ((n - 1 - i : ℕ) : ℝ) * _ = stop - ((i : ℕ) : ℝ) * _
      rw [Nat.cast_sub (by omega), Nat.cast_sub (by omega)]
      push_cast
      field_simp

/-- the default (centred) source is symmetric under the x-mirror and under the y-mirror, for every shape -/
theorem idealSource_centred_symmetric (nx ny : ℕ) (xmx ymx : ℝ) (shape : SrcShape) (j i : ℕ)
    (hi : i < nx) (hj : j < ny) (hnx : 2 ≤ nx) (hny : 2 ≤ ny) :
    idealSource RC nx ny xmx ymx none shape j (nx - 1 - i) = idealSource RC nx ny xmx ymx none shape j i ∧
    idealSource RC nx ny xmx ymx none shape (ny - 1 - j) i = idealSource RC nx ny xmx ymx none shape j i := by
  have mx := linspaceEnd_mirror xmx nx i hi hnx
  have my := linspaceEnd_mirror ymx ny j hj hny
  have ex : linspaceEnd RC xmx nx (nx - 1 - i) - (xmx / 2.0) = -(linspaceEnd RC xmx nx i - xmx / 2.0) := by
    rw [mx]; norm_num; ring
  have ey : linspaceEnd RC ymx ny (ny - 1 - j) - (ymx / 2.0) = -(linspaceEnd RC ymx ny j - ymx / 2.0) := by
    rw [my]; norm_num; ring
  constructor
  · simp only [idealSource, srcCentre, ex]
    cases shape <;> simp only [srcCell, absR_eq_abs, abs_neg, neg_sq, Even.neg_pow (by decide : Even 2)]
  · simp only [idealSource, srcCentre, ey]
    cases shape <;> simp only [srcCell, absR_eq_abs, abs_neg, neg_sq, Even.neg_pow (by decide : Even 2)]

end BLDFM.C13
