/-
  C09 — closure profiles are self-consistent with similarity theory and the grid.
-/
import Proofs.Lemmas.Spec
import Proofs.Lemmas.Tactics
import Mathlib.Analysis.SpecialFunctions.Log.Basic
import Mathlib.Analysis.SpecialFunctions.Pow.Real
import Mathlib.Analysis.SpecialFunctions.Trigonometric.Arctan

open BLDFM BLDFM.Spec

namespace BLDFM.C09

/-! ### the stretched grid `z(ζ) = -h ln((aa - ζ)/bb)` -/

theorem exp_gap_pos (zm z0 h : ℝ) (hz : z0 < zm) (hh : 0 < h) :
    0 < Real.exp (-z0 / h) - Real.exp (-zm / h) := by
  have : Real.exp (-zm / h) < Real.exp (-z0 / h) := by
    apply Real.exp_lt_exp.mpr
    rw [neg_div, neg_div, neg_lt_neg_iff]
    exact div_lt_div_of_pos_right hz hh
  linarith

theorem gridBB_pos (zm z0 h : ℝ) (h0 : 0 < z0) (hz : z0 < zm) (hh : 0 < h) : 0 < gridBB RC zm z0 h := by
  simp only [gridBB]; rc_norm
  exact div_pos (by linarith) (exp_gap_pos zm z0 h hz hh)

/-- the argument of the logarithm: `(aa - ζ)/bb = e^{-z0/h} - ζ/bb` -/
theorem grid_arg (zm z0 h ζ : ℝ) (h0 : 0 < z0) (hz : z0 < zm) (hh : 0 < h) :
    -(ζ - gridAA RC zm z0 h) / gridBB RC zm z0 h = Real.exp (-z0 / h) - ζ / gridBB RC zm z0 h := by
  have hb := (gridBB_pos zm z0 h h0 hz hh).ne'
  simp only [gridAA]; rc_norm
  field_simp
  ring

/-- the grid starts at the roughness length: `z(0) = z0` -/
theorem grid_bottom (zm z0 h : ℝ) (h0 : 0 < z0) (hz : z0 < zm) (hh : 0 < h) :
    gridZ RC zm z0 h 0 = z0 := by
  simp only [gridZ]
  rw [grid_arg zm z0 h 0 h0 hz hh]
  rc_norm
  rw [zero_div, sub_zero, Real.log_exp]
  field_simp

/-- the measurement height is a grid node: `z(zm) = zm` … -/
theorem grid_meas (zm z0 h : ℝ) (h0 : 0 < z0) (hz : z0 < zm) (hh : 0 < h) :
    gridZ RC zm z0 h zm = zm := by
  simp only [gridZ]
  rw [grid_arg zm z0 h zm h0 hz hh]
  have hgap := (exp_gap_pos zm z0 h hz hh).ne'
  have : Real.exp (-z0 / h) - zm / gridBB RC zm z0 h = Real.exp (-zm / h) := by
    simp only [gridBB]; rc_norm
    have hzm : zm ≠ 0 := by linarith
    field_simp
    ring
  rw [this]
  rc_norm
  rw [Real.log_exp]
  field_simp

/-- … and it is the node with index `n` (the requested number of layers): `ζ_n = n · (zm/n) = zm` -/
theorem grid_meas_index (zm z0 h : ℝ) (n : ℕ) (hn : 0 < n) (h0 : 0 < z0) (hz : z0 < zm) (hh : 0 < h) :
    gridZ RC zm z0 h (RC.natCast n * (zm / RC.natCast n)) = zm := by
  have : RC.natCast n * (zm / RC.natCast n) = zm := by
    rc_norm
    have : (n : ℝ) ≠ 0 := by exact_mod_cast hn.ne'
    field_simp
  rw [this]
  exact grid_meas zm z0 h h0 hz hh

/-- strictly increasing below the singularity `ζ = aa` -/
theorem grid_strict_mono (zm z0 h ζ₁ ζ₂ : ℝ) (h0 : 0 < z0) (hz : z0 < zm) (hh : 0 < h)
    (h12 : ζ₁ < ζ₂) (h2 : ζ₂ < gridAA RC zm z0 h) :
    gridZ RC zm z0 h ζ₁ < gridZ RC zm z0 h ζ₂ := by
  have hb := gridBB_pos zm z0 h h0 hz hh
  simp only [gridZ]
  rc_norm
  have a2 : 0 < -(ζ₂ - gridAA RC zm z0 h) / gridBB RC zm z0 h := by
    apply div_pos _ hb; linarith
  have a12 : -(ζ₂ - gridAA RC zm z0 h) / gridBB RC zm z0 h < -(ζ₁ - gridAA RC zm z0 h) / gridBB RC zm z0 h := by
    apply div_lt_div_of_pos_right _ hb; linarith
  have := Real.log_lt_log a2 a12
  nlinarith

/-- the node `ζ = ζmax` sits exactly at the domain height -/
theorem grid_top (zm z0 h zmx : ℝ) (h0 : 0 < z0) (hz : z0 < zm) (hh : 0 < h) :
    gridZ RC zm z0 h (gridZetaMax RC zm z0 h zmx) = zmx := by
  have hb := (gridBB_pos zm z0 h h0 hz hh).ne'
  simp only [gridZ, gridZetaMax]
  rc_norm
  have : -(gridAA RC zm z0 h - gridBB RC zm z0 h * Real.exp (-zmx / h) - gridAA RC zm z0 h) / gridBB RC zm z0 h
      = Real.exp (-zmx / h) := by
    field_simp; ring
  rw [this, Real.log_exp]
  field_simp

/-- the grid has at least enough nodes to pass the domain height: the last node's `ζ` is `≥ ζmax`
(numpy `arange(0, ζmax + dζ, dζ)` has `⌈(ζmax + dζ)/dζ⌉` entries) -/
theorem grid_reaches_top (stop step : ℝ) (hstep : 0 < step) (hstop : 0 < stop) :
    stop - step ≤ ((arangeLen RC stop step : ℕ) : ℝ) * step - step ∧ 1 ≤ arangeLen RC stop step := by
  have hx : 0 < stop / step := div_pos hstop hstep
  simp only [arangeLen]
  rc_norm
  have hfl := Nat.floor_le hx.le
  have hlt := Nat.lt_floor_add_one (stop / step)
  by_cases hlt' : ((⌊stop / step⌋₊ : ℕ) : ℝ) < stop / step
  · simp only [hlt', if_true]
    constructor
    · have : stop / step ≤ ((⌊stop / step⌋₊ + 1 : ℕ) : ℝ) := by push_cast; linarith
      have := mul_le_mul_of_nonneg_right this hstep.le
      rw [div_mul_cancel₀ _ hstep.ne'] at this
      linarith
    · omega
  · simp only [hlt', if_false]
    have hnot := hlt'
    have heq : ((⌊stop / step⌋₊ : ℕ) : ℝ) = stop / step := le_antisymm hfl (not_lt.mp hnot)
    constructor
    · rw [heq, div_mul_cancel₀ _ hstep.ne']
    · have : (0 : ℝ) < ((⌊stop / step⌋₊ : ℕ) : ℝ) := by rw [heq]; exact hx
      exact_mod_cast this

/-! ### wind at the measurement height, direction constant with height -/

theorem psi_model_eq (x : ℝ) : psi RC x = if 0 < x then 5 * x else psiUnstable RC ((1 - 16 * x) ^ (0.25 : ℝ)) := by
  simp only [psi]; rc_norm; norm_num

/-- MOST / MOSTM, friction-velocity forcing: the log law with the derived roughness length
reproduces the supplied wind speed at the measurement height -/
theorem wind_at_meas_ustar (zm absum ustar mol : ℝ) (hzm : 0 < zm) (hus : ustar ≠ 0) :
    absuMost RC ustar (z0FromUstar RC zm absum ustar mol) mol zm = absum := by
  simp only [absuMost, z0FromUstar, kappa]
  rc_norm
  have hexp : 0 < Real.exp (-(0.4 : ℝ) * absum / ustar + psi RC (zm / mol)) := Real.exp_pos _
  rw [show zm / (zm * Real.exp (-(0.4 : ℝ) * absum / ustar + psi RC (zm / mol)))
      = (Real.exp (-(0.4 : ℝ) * absum / ustar + psi RC (zm / mol)))⁻¹ by field_simp,
    Real.log_inv, Real.log_exp]
  field_simp
  ring

/-- MOST / MOSTM, roughness-length forcing -/
theorem wind_at_meas_z0 (zm absum z0 mol : ℝ)
    (hden : Real.log (zm / z0) + psi RC (zm / mol) ≠ 0) :
    absuMost RC (ustarFromZ0 RC zm absum z0 mol) z0 mol zm = absum := by
  simp only [absuMost, ustarFromZ0, kappa]
  rc_norm
  field_simp

/-- hence the profile wind VECTOR at the measurement node is the supplied one -/
theorem wind_vector_at_meas (um vm absum au : ℝ) (hau : au = absum) (habs : absum ≠ 0) :
    um / absum * au = um ∧ vm / absum * au = vm := by
  rw [hau]; constructor <;> field_simp

/-- one-and-a-half order closure: its own log law reproduces the wind at the measurement height -/
theorem wind_at_meas_oaahoc (zm absum ustar tke : ℝ) (hzm : 0 < zm) (hus : ustar ≠ 0)
    (htke : 0 < tke) :
    ustar ^ 2 / oaCm / oaCl / RC.sqrt tke * RC.log (zm / z0Oaahoc RC zm absum ustar tke) = absum := by
  simp only [z0Oaahoc, oaCm, oaCl]
  rc_norm
  have hs : Real.sqrt tke ≠ 0 := (Real.sqrt_pos.mpr htke).ne'
  rw [show zm / (zm * Real.exp (-(0.0856 : ℝ) * 0.845 * absum * Real.sqrt tke / ustar ^ 2))
      = (Real.exp (-(0.0856 : ℝ) * 0.845 * absum * Real.sqrt tke / ustar ^ 2))⁻¹ by field_simp,
    Real.log_inv, Real.log_exp]
  field_simp

/-- the wind direction is constant with height: `(u_k, v_k)` is a multiple of `(um, vm)` -/
theorem wind_direction_constant (um vm absum a : ℝ) :
    (um / absum * a) * vm = (vm / absum * a) * um := by ring

/-- … and the multiple is positive wherever the speed is (no reversal) -/
theorem wind_no_reversal (um vm absum a : ℝ) (habs : 0 < absum) (ha : 0 < a) (hne : um ≠ 0 ∨ vm ≠ 0) :
    0 < (um / absum * a) * um + (vm / absum * a) * vm := by
  have : (um / absum * a) * um + (vm / absum * a) * vm = (um ^ 2 + vm ^ 2) * (a / absum) := by
    field_simp
  rw [this]
  apply mul_pos _ (div_pos ha habs)
  rcases hne with h | h
  · have := sq_pos_of_ne_zero h; positivity
  · have := sq_pos_of_ne_zero h; positivity

/-! ### diffusivities -/

theorem phi_pos (x : ℝ) : 0 < phi RC x := by
  simp only [phi]; rc_norm
  split
  · rename_i h; norm_num at h ⊢; linarith
  · rename_i h
    apply Real.rpow_pos_of_pos
    norm_num at h ⊢
    linarith

/-- `Kz = κ u* z / (φ(z/L) Pr) > 0` -/
theorem Kz_pos (ustar mol prsc z : ℝ) (hus : 0 < ustar) (hp : 0 < prsc) (hz : 0 < z) :
    0 < kMost RC ustar mol prsc z := by
  simp only [kMost, kappa]
  have := phi_pos (z / mol)
  positivity

/-- MOSTM: the horizontal diffusivities are the cross-wind projection of `K`:
`Kx + Ky = Kz`, both non-negative (the along-wind component is zero by design) -/
theorem mostm_split (K u v : ℝ) (hK : 0 ≤ K) (huv : u ^ 2 + v ^ 2 ≠ 0) :
    K * v ^ 2 / (u ^ 2 + v ^ 2) + K * u ^ 2 / (u ^ 2 + v ^ 2) = K ∧
    0 ≤ K * v ^ 2 / (u ^ 2 + v ^ 2) ∧ 0 ≤ K * u ^ 2 / (u ^ 2 + v ^ 2) := by
  refine ⟨by field_simp; ring, ?_, ?_⟩ <;> positivity

/-! ### roughness length ↔ friction velocity -/

theorem ustar_z0_roundtrip (zm absum ustar mol : ℝ) (hzm : 0 < zm) (hus : ustar ≠ 0) (habs : absum ≠ 0) :
    ustarFromZ0 RC zm absum (z0FromUstar RC zm absum ustar mol) mol = ustar := by
  simp only [ustarFromZ0, z0FromUstar, kappa]
  rc_norm
  rw [show zm / (zm * Real.exp (-(0.4 : ℝ) * absum / ustar + psi RC (zm / mol)))
      = (Real.exp (-(0.4 : ℝ) * absum / ustar + psi RC (zm / mol)))⁻¹ by field_simp,
    Real.log_inv, Real.log_exp]
  field_simp
  ring

theorem z0_ustar_roundtrip (zm absum z0 mol : ℝ) (hzm : 0 < zm) (hz0 : 0 < z0) (habs : absum ≠ 0)
    (hden : Real.log (zm / z0) + psi RC (zm / mol) ≠ 0) :
    z0FromUstar RC zm absum (ustarFromZ0 RC zm absum z0 mol) mol = z0 := by
  simp only [ustarFromZ0, z0FromUstar, kappa]
  rc_norm
  have e : -(0.4 : ℝ) * absum / (absum * 0.4 / (Real.log (zm / z0) + psi RC (zm / mol))) + psi RC (zm / mol)
      = -Real.log (zm / z0) := by
    field_simp; ring
  rw [e, Real.exp_neg, Real.exp_log (div_pos hzm hz0)]
  field_simp

/-! ### stability functions at neutral stratification -/

theorem psi_zero : psi RC 0 = 0 := by
  simp only [psi, psiUnstable]; rc_norm
  norm_num
  ring

theorem phi_zero : phi RC 0 = 1 := by
  simp only [phi]; rc_norm; norm_num

/-! non-vacuity -/
example : (0 : ℝ) < 0.05 ∧ (0.05 : ℝ) < 3 ∧ (0 : ℝ) < 6 := by norm_num

end BLDFM.C09
