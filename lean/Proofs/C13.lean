/-
  C13 — the config-driven single run is the documented wind → profiles → source → solver pipeline,
  for every configuration, tower, time index and optional user flux.
-/
import BLDFM
import Proofs.C16

open BLDFM BLDFM.MetCfg

namespace BLDFM.C13

/-- the documented recipe, stated as a predicate on the call record (written independently of
`runSingle`): which number reaches which argument -/
structure IsPipeline (dom : DomainCfg) (sol : SolverCfg) (tower : TowerCfg) (step : MetStep)
    (flux : Option V) (cache : Option V) (c : SingleCalls) : Prop where
  wind : c.windSpeed = step.windSpeed ∧ c.windDir = step.windDir
  prof_grid : c.profN = dom.nz ∧ c.profZm = tower.zm ∧ c.profMol = step.mol ∧ c.profClosure = sol.closure
  /-- roughness-length forcing takes precedence; otherwise the friction velocity; never both -/
  forcing : (∀ z0, step.z0 = some z0 → c.profZ0 = some z0 ∧ c.profUstar = none) ∧
            (step.z0 = none → c.profZ0 = none ∧ c.profUstar = step.ustar)
  source : (∀ q, flux = some q → c.userFlux = some q ∧ c.idealSource = none) ∧
           (flux = none → c.userFlux = none ∧
              c.idealSource = some (dom.nx, dom.ny, dom.xmax, dom.ymax, sol.srcLoc, sol.shape))
  solver : c.solDomain = (dom.xmax, dom.ymax) ∧ c.solModes = dom.modes ∧ c.solMeasPt = (tower.x, tower.y) ∧
           c.solFootprint = sol.footprint ∧ c.solAnalytic = sol.analytic ∧ c.solHalo = dom.halo ∧
           c.solPrecision = sol.precision ∧ c.solCache = cache
  levels : c.solLevels = selectLevels dom
  labels : c.towerName = tower.name ∧ c.towerXY = (tower.x, tower.y) ∧ c.timestamp = step.timestamp ∧ c.params = step

/-- every successful single run is the documented pipeline applied to THAT step's parameters -/
theorem runSingle_is_pipeline (dom : DomainCfg) (sol : SolverCfg) (met : MetCfg) (tower : TowerCfg) (i : ℕ)
    (flux cache : Option V) (c : SingleCalls) (h : runSingle dom sol met tower i flux cache = .ok c) :
    ∃ step, met.getStep i = .ok step ∧ IsPipeline dom sol tower step flux cache c := by
  unfold runSingle at h
  cases hs : met.getStep i with
  | error e => simp [hs, bind, Except.bind] at h
  | ok step =>
    simp only [hs, bind, Except.bind, pure, Except.pure] at h
    injection h with h
    subst h
    refine ⟨step, rfl, ?_⟩
    constructor
    · exact ⟨rfl, rfl⟩
    · exact ⟨rfl, rfl, rfl, rfl⟩
    · constructor
      · intro z0 hz; simp [hz]
      · intro hz; simp [hz]
    · constructor
      · intro q hq; simp [hq]
      · intro hq; simp [hq]
    · exact ⟨rfl, rfl, rfl, rfl, rfl, rfl, rfl, rfl⟩
    · rfl
    · exact ⟨rfl, rfl, rfl, rfl⟩

/-- … and a run exists for every valid time index of an accepted forcing -/
theorem runSingle_defined (dom : DomainCfg) (sol : SolverCfg) (met : MetCfg) (tower : TowerCfg) (n i : ℕ)
    (flux cache : Option V) (hn : C16.CommonLen met n) (hi : i < n)
    (hts : ∀ t, met.timestamps = some t → t.length = n) :
    ∃ c, runSingle dom sol met tower i flux cache = .ok c := by
  obtain ⟨s, hs, _⟩ := C16.getStep_spec met n i hn hi hts
  unfold runSingle
  simp only [hs, bind, Except.bind, pure, Except.pure]
  exact ⟨_, rfl⟩

/-- level selection: a non-empty `output_levels` is used as given -/
theorem levels_explicit (dom : DomainCfg) (l : ℕ) (ls : List ℕ) (h : dom.outputLevels = some (l :: ls)) :
    selectLevels dom = .list (l :: ls) := by
  simp [selectLevels, h]

/-- otherwise `full_output` requests every node `0 … nz` -/
theorem levels_full (dom : DomainCfg) (h : dom.outputLevels = none ∨ dom.outputLevels = some [])
    (hf : dom.fullOutput = true) : selectLevels dom = .list (List.range (dom.nz + 1)) := by
  rcases h with h | h <;> simp [selectLevels, h, hf]

/-- otherwise only the measurement level `nz` (a scalar) -/
theorem levels_default (dom : DomainCfg) (h : dom.outputLevels = none ∨ dom.outputLevels = some [])
    (hf : dom.fullOutput = false) : selectLevels dom = .scalar dom.nz := by
  rcases h with h | h <;> simp [selectLevels, h, hf]

/-- the measurement point handed to the solver is the tower's local coordinates, x first -/
theorem meas_pt_is_tower_xy (dom : DomainCfg) (sol : SolverCfg) (met : MetCfg) (tower : TowerCfg) (i : ℕ)
    (flux cache : Option V) (c : SingleCalls) (h : runSingle dom sol met tower i flux cache = .ok c) :
    c.solMeasPt = (tower.x, tower.y) := by
  obtain ⟨_, _, hp⟩ := runSingle_is_pipeline dom sol met tower i flux cache c h
  exact hp.solver.2.2.1

/-- the run carries THAT step's timestamp-or-index and parameters -/
theorem result_labels (dom : DomainCfg) (sol : SolverCfg) (met : MetCfg) (tower : TowerCfg) (i : ℕ)
    (flux cache : Option V) (c : SingleCalls) (h : runSingle dom sol met tower i flux cache = .ok c) :
    met.getStep i = .ok c.params ∧ c.timestamp = c.params.timestamp ∧ c.towerName = tower.name := by
  obtain ⟨s, hs, hp⟩ := runSingle_is_pipeline dom sol met tower i flux cache c h
  obtain ⟨h1, _, h3, h4⟩ := hp.labels
  rw [h4]
  exact ⟨hs, h3 ▸ rfl, h1⟩

/-! non-vacuity -/
example : ∃ c, runSingle ⟨8, 8, 100, 100, 4, 7, none, some [2, 0], false⟩ ⟨1, 2, true, false, 3, none⟩
    ⟨.list [30, 31], .scalar 5, .scalar 6, .list [270, 90], none, none⟩ ⟨11, 40, 50, 3⟩ 1 none none = .ok c ∧
    c.solLevels = .list [2, 0] ∧ c.profUstar = some 31 ∧ c.windDir = some 90 := by
  refine ⟨_, rfl, rfl, rfl, rfl⟩

end BLDFM.C13
