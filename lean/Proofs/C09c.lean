/-
  C09 — "the stability correction is the INTEGRAL of the flux-gradient function".

  `psi_deriv_unstable` / `psi_deriv_stable` (C09b) give the derivative `ψ'(x) = (φ_M(x) − 1)/x`; here the integral form itself:
        ψ(x) = ∫₀ˣ (φ_M(t) − 1)/t dt        for every x (unstable x < 0:  φ_M = (1 − 16 t)^{-1/4};  stable x > 0:  φ_M = 1 + 5 t),
  with the integrand continued by its limit `4` at `t = 0⁻` (`fluxGradIntegrand_continuousOn`: the quotient is the slope of `φ_M` at neutral,
  which converges to `φ_M'(0) = 4`).  Proof: the fundamental theorem of calculus on `[x, 0]` with `ψ` continuous up to neutral
  (`psi_continuousAt_zero`) and differentiable inside.
-/
import Proofs.C09b
import Mathlib.MeasureTheory.Integral.IntervalIntegral.FundThmCalculus
import Mathlib.Analysis.Calculus.Deriv.Slope

open BLDFM BLDFM.Spec Filter Topology Set

namespace BLDFM.C09

/-- momentum flux-gradient function on the unstable side -/
noncomputable def phiM (t : ℝ) : ℝ := (1 - 16 * t) ^ (-(1 : ℝ) / 4)

/-- the integrand `(φ_M(t) − 1)/t`, continued by its limit at neutral -/
noncomputable def fluxGradIntegrand (t : ℝ) : ℝ := if t = 0 then 4 else (phiM t - 1) / t

theorem phiM_hasDerivAt_zero : HasDerivAt phiM 4 0 := by
  have hinner : HasDerivAt (fun x : ℝ => 1 - 16 * x) (-16) 0 := by
    simpa using ((hasDerivAt_id (0 : ℝ)).const_mul (16 : ℝ)).const_sub 1
  have := hinner.rpow_const (p := -(1 : ℝ) / 4) (Or.inl (by norm_num))
  have e : (-16 : ℝ) * (-(1 : ℝ) / 4) * (1 - 16 * 0) ^ (-(1 : ℝ) / 4 - 1) = 4 := by norm_num
  rw [e] at this
  exact this

theorem fluxGradIntegrand_continuousOn (x : ℝ) (_hx : x ≤ 0) : ContinuousOn fluxGradIntegrand (Icc x 0) := by
  intro t ht
  rcases ht.2.eq_or_lt with h0 | hneg
  · -- at neutral: the slope of φ_M converges to its derivative
    subst h0
    have hslope := (hasDerivAt_iff_tendsto_slope.1 phiM_hasDerivAt_zero)
    have hval : fluxGradIntegrand 0 = 4 := by simp [fluxGradIntegrand]
    have hphi0 : phiM 0 = 1 := by simp [phiM]
    have hcw : ContinuousWithinAt fluxGradIntegrand {0}ᶜ 0 := by
      unfold ContinuousWithinAt
      rw [hval]
      refine hslope.congr' ?_
      filter_upwards [self_mem_nhdsWithin] with s hs
      have hs' : s ≠ 0 := hs
      simp only [fluxGradIntegrand, if_neg hs', slope, vsub_eq_sub, sub_zero, hphi0, smul_eq_mul]
      field_simp
    have hall : ContinuousWithinAt fluxGradIntegrand ({0}ᶜ ∪ {0}) 0 := hcw.union continuousWithinAt_singleton
    exact hall.mono (fun s _ => by by_cases h : s = 0 <;> simp [h])
  · -- away from neutral the quotient is continuous
    have hb : 0 < 1 - 16 * t := by linarith
    have heq : fluxGradIntegrand =ᶠ[𝓝 t] fun s => (phiM s - 1) / s := by
      filter_upwards [Iio_mem_nhds hneg] with s hs
      have : s ≠ 0 := ne_of_lt hs
      simp [fluxGradIntegrand, this]
    have hc : ContinuousAt (fun s : ℝ => (phiM s - 1) / s) t := by
      have c1 : ContinuousAt phiM t := by
        unfold phiM
        exact ContinuousAt.rpow_const (by fun_prop) (Or.inl hb.ne')
      exact (c1.sub continuousAt_const).div continuousAt_id (ne_of_lt hneg)
    exact (hc.congr heq.symm).continuousWithinAt

/-- **unstable side: the stability correction IS the integral of the flux-gradient function** -/
theorem psi_integral_unstable (x : ℝ) (hx : x ≤ 0) : psi RC x = ∫ t in (0 : ℝ)..x, fluxGradIntegrand t := by
  rw [intervalIntegral.integral_symm]
  have hcont : ContinuousOn (psi RC) (Icc x 0) := by
    intro t ht
    rcases ht.2.eq_or_lt with h0 | hneg
    · subst h0; exact psi_continuousAt_zero.continuousWithinAt
    · exact (psi_deriv_unstable t hneg).continuousAt.continuousWithinAt
  have hderiv : ∀ t ∈ Ioo x 0, HasDerivAt (psi RC) (fluxGradIntegrand t) t := by
    intro t ht
    have hne : t ≠ 0 := ne_of_lt ht.2
    have := psi_deriv_unstable t ht.2
    simpa [fluxGradIntegrand, hne, phiM] using this
  have hint : IntervalIntegrable fluxGradIntegrand MeasureTheory.volume x 0 :=
    (fluxGradIntegrand_continuousOn x hx).intervalIntegrable_of_Icc hx
  have h := intervalIntegral.integral_eq_sub_of_hasDerivAt_of_le hx hcont hderiv hint
  rw [h, psi_zero]
  ring

/-- the integrand on the stable side, `(φ_M(t) − 1)/t` with `φ_M = 1 + 5t` (continued by its value 5 at neutral) -/
noncomputable def fluxGradIntegrandStable (t : ℝ) : ℝ := if t = 0 then 5 else ((1 + 5 * t) - 1) / t

theorem fluxGradIntegrandStable_eq (t : ℝ) : fluxGradIntegrandStable t = 5 := by
  by_cases h : t = 0
  · simp [fluxGradIntegrandStable, h]
  · simp only [fluxGradIntegrandStable, if_neg h]; field_simp; ring

/-- stable side: `ψ(x) = 5x = ∫₀ˣ (φ_M − 1)/t dt` -/
theorem psi_integral_stable (x : ℝ) (hx : 0 ≤ x) : psi RC x = ∫ t in (0 : ℝ)..x, fluxGradIntegrandStable t := by
  have hval : psi RC x = 5 * x := by
    rcases hx.eq_or_lt with h0 | hpos
    · rw [← h0, psi_zero]; ring
    · have : (0.0 : ℝ) < x := by norm_num; exact hpos
      simp only [psi, this, if_true]; norm_num
  have hfun : fluxGradIntegrandStable = fun _ => (5 : ℝ) := funext fluxGradIntegrandStable_eq
  rw [hval, hfun, intervalIntegral.integral_const]
  simp [mul_comm]

/-! non-vacuity: at `x = -1` the integrand is the slope of `(1 + 16)^{-1/4}` -/
example : fluxGradIntegrand (-1) = ((17 : ℝ) ^ (-(1 : ℝ) / 4) - 1) / (-1) := by
  simp [fluxGradIntegrand, phiM]; norm_num

end BLDFM.C09
