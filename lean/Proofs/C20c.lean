/-
  C20 — the fourth geometric base function: `source_area_sector` is minus the UNSIGNED ANGLE between a cell's displacement from the tower and the
  upwind direction.

  With `z = (x - x_m) + i (y - y_m)` and `w = -u - i v` (the upwind vector) the implemented
      -| arctan2(sin θ, cos θ) |,   θ = arctan2(y - y_m, x - x_m) - arctan2(-v, -u)
  equals `-| arg(z / w) |` — the re-wrapping by `arctan2(sin, cos)` IS the principal argument of the quotient — so that
    * `sector_is_neg_angle`  : the value is `-|arg(z / w)|`;
    * `sector_range`         : it lies in `[-π, 0]`;
    * `sector_zero_iff`      : it vanishes exactly on the upwind ray (`z` a positive multiple of `w`);
    * `sector_scale_invariant`: it does not depend on the wind speed nor on the distance from the tower (positive rescalings of `w`, `z`):
                               the contours are rays from the tower, i.e. pie-slice sectors about the upwind axis.
-/
import Proofs.C20
import Mathlib.Analysis.SpecialFunctions.Complex.Arg

open BLDFM BLDFM.Spec

namespace BLDFM.C20

private lemma arg_cos_sin (t : ℝ) : Complex.arg ⟨Real.cos t, Real.sin t⟩ = Complex.arg (Complex.exp ((t : ℂ) * Complex.I)) := by
  congr 1
  apply Complex.ext
  · simp [Complex.exp_ofReal_mul_I_re]
  · simp [Complex.exp_ofReal_mul_I_im]

private lemma quotient_polar (z w : ℂ) (hz : z ≠ 0) (hw : w ≠ 0) :
    z / w = ((‖z‖ / ‖w‖ : ℝ) : ℂ) * Complex.exp (((Complex.arg z - Complex.arg w : ℝ) : ℂ) * Complex.I) := by
  have hz' := Complex.norm_mul_exp_arg_mul_I z
  have hw' := Complex.norm_mul_exp_arg_mul_I w
  have hwn : ((‖w‖ : ℝ) : ℂ) ≠ 0 := by exact_mod_cast (norm_ne_zero_iff.2 hw)
  have he : Complex.exp ((Complex.arg w : ℂ) * Complex.I) ≠ 0 := Complex.exp_ne_zero _
  conv_lhs => rw [← hz', ← hw']
  push_cast
  rw [sub_mul, Complex.exp_sub]
  field_simp

/-- **the sector base function is minus the unsigned angle between the displacement and the upwind vector** -/
theorem sector_is_neg_angle (x y xm ym u v : ℝ) (hz : (⟨x - xm, y - ym⟩ : ℂ) ≠ 0) (hw : (⟨-u, -v⟩ : ℂ) ≠ 0) :
    baseSector RC x y xm ym u v = -|Complex.arg ((⟨x - xm, y - ym⟩ : ℂ) / ⟨-u, -v⟩)| := by
  set z : ℂ := ⟨x - xm, y - ym⟩ with hzd
  set w : ℂ := ⟨-u, -v⟩ with hwd
  have hpos : 0 < ‖z‖ / ‖w‖ := div_pos (norm_pos_iff.2 hz) (norm_pos_iff.2 hw)
  have key : RC.arctan2 (RC.sin (RC.arctan2 (y - ym) (x - xm) - RC.arctan2 (-v) (-u)))
      (RC.cos (RC.arctan2 (y - ym) (x - xm) - RC.arctan2 (-v) (-u))) = Complex.arg (z / w) := by
    simp only [RC_arctan2, RC_sin, RC_cos]
    rw [arg_cos_sin, quotient_polar z w hz hw, Complex.arg_real_mul _ hpos]
  simp only [baseSector]
  rw [key]
  have h0 : ((0.0 : ℝ)) = 0 := by norm_num
  rw [h0]
  by_cases hneg : Complex.arg (z / w) < 0
  · rw [if_pos hneg, abs_of_neg hneg]
  · rw [if_neg hneg, abs_of_nonneg (not_lt.1 hneg)]

theorem sector_range (x y xm ym u v : ℝ) (hz : (⟨x - xm, y - ym⟩ : ℂ) ≠ 0) (hw : (⟨-u, -v⟩ : ℂ) ≠ 0) :
    -Real.pi ≤ baseSector RC x y xm ym u v ∧ baseSector RC x y xm ym u v ≤ 0 := by
  rw [sector_is_neg_angle x y xm ym u v hz hw]
  constructor
  · have := Complex.abs_arg_le_pi ((⟨x - xm, y - ym⟩ : ℂ) / ⟨-u, -v⟩)
    linarith
  · simp

/-- the value is zero exactly on the upwind ray: the quotient of displacement and upwind vector is a positive real -/
theorem sector_zero_iff (x y xm ym u v : ℝ) (hz : (⟨x - xm, y - ym⟩ : ℂ) ≠ 0) (hw : (⟨-u, -v⟩ : ℂ) ≠ 0) :
    baseSector RC x y xm ym u v = 0 ↔
      0 ≤ (((⟨x - xm, y - ym⟩ : ℂ) / ⟨-u, -v⟩)).re ∧ (((⟨x - xm, y - ym⟩ : ℂ) / ⟨-u, -v⟩)).im = 0 := by
  rw [sector_is_neg_angle x y xm ym u v hz hw, neg_eq_zero, abs_eq_zero, Complex.arg_eq_zero_iff]

/-- the value depends neither on the wind SPEED nor on the DISTANCE from the tower: contours are rays from the tower -/
theorem sector_scale_invariant (x y xm ym u v a b : ℝ) (ha : 0 < a) (hb : 0 < b)
    (hz : (⟨x - xm, y - ym⟩ : ℂ) ≠ 0) (hw : (⟨-u, -v⟩ : ℂ) ≠ 0) :
    baseSector RC (xm + a * (x - xm)) (ym + a * (y - ym)) xm ym (b * u) (b * v) = baseSector RC x y xm ym u v := by
  have e1 : (⟨xm + a * (x - xm) - xm, ym + a * (y - ym) - ym⟩ : ℂ) = (a : ℂ) * ⟨x - xm, y - ym⟩ := by
    apply Complex.ext <;> simp
  have e2 : (⟨-(b * u), -(b * v)⟩ : ℂ) = (b : ℂ) * ⟨-u, -v⟩ := by
    apply Complex.ext <;> simp
  have ha' : (a : ℂ) ≠ 0 := by exact_mod_cast ha.ne'
  have hb' : (b : ℂ) ≠ 0 := by exact_mod_cast hb.ne'
  have hz2 : (⟨xm + a * (x - xm) - xm, ym + a * (y - ym) - ym⟩ : ℂ) ≠ 0 := by rw [e1]; exact mul_ne_zero ha' hz
  have hw2 : (⟨-(b * u), -(b * v)⟩ : ℂ) ≠ 0 := by rw [e2]; exact mul_ne_zero hb' hw
  rw [sector_is_neg_angle _ _ xm ym (b * u) (b * v) hz2 hw2, sector_is_neg_angle x y xm ym u v hz hw, e1, e2]
  have : (a : ℂ) * (⟨x - xm, y - ym⟩ : ℂ) / ((b : ℂ) * ⟨-u, -v⟩) = ((a / b : ℝ) : ℂ) * ((⟨x - xm, y - ym⟩ : ℂ) / ⟨-u, -v⟩) := by
    push_cast; field_simp
  rw [this, Complex.arg_real_mul _ (div_pos ha hb)]

/-! non-vacuity: a cell due west of the tower under a westerly wind (`u > 0`, so upwind is `-x`) lies on the upwind ray -/
example : baseSector RC (-3) 0 0 0 2 0 = 0 := by
  rw [sector_zero_iff (-3) 0 0 0 2 0 (by intro h; have := congrArg Complex.re h; norm_num at this)
    (by intro h; have := congrArg Complex.re h; norm_num at this)]
  have : ((⟨-3 - 0, 0 - 0⟩ : ℂ) / ⟨-2, -0⟩) = ((3 / 2 : ℝ) : ℂ) := by
    apply Complex.ext <;> simp [Complex.div_re, Complex.div_im, Complex.normSq] <;> norm_num
  rw [this]
  constructor <;> simp <;> norm_num

end BLDFM.C20
