/-
  C07 (field level, whole model pipeline) — EXCHANGING THE AXES: the request with the source transposed and
  wind components, horizontal diffusivities, domain extents, mode counts and measurement point swapped returns the
  transposed fields on the padded grid, at every level, in both modes, numeric and analytic, for every halo,
  truncation and parity.  (No Nyquist exception: the transposition only re-orders the double sum.)
-/
import Proofs.Lemmas.Spec
import Proofs.Lemmas.Tactics
import Proofs.Lemmas.Repr
import Proofs.C02b
import Proofs.C03b
import Proofs.C07
import Proofs.Lemmas.Witness

open BLDFM BLDFM.Spec BLDFM.Index

namespace BLDFM.C07

/-- `r'` is `r` with the two horizontal axes exchanged -/
structure Transposed (r r' : SolveReq ℝ) : Prop where
  hny : r'.ny = r.nx
  hnx : r'.nx = r.ny
  hq : ∀ j i, r'.q j i = r.q i j
  hP : r'.P = swapXY r.P
  hxmx : r'.xmx = r.ymx
  hymx : r'.ymx = r.xmx
  hnlx : r'.nlx = r.nly
  hnly : r'.nly = r.nlx
  hxm : r'.xm = r.ym
  hym : r'.ym = r.xm
  hhalo : r'.halo = r.halo
  hnz : r'.nz = r.nz
  hz : r'.z = r.z
  hlv : r'.levels = r.levels
  hbg : r'.bg = r.bg
  hfp : r'.footprint = r.footprint
  han : r'.analytic = r.analytic
  hpr : r'.precision = r.precision

section
variable {r r' : SolveReq ℝ} (h : Transposed r r')
include h

theorem tr_dx : (geom RC r').dx = (geom RC r).dy := by
  show r'.xmx / RC.natCast r'.nx = r.ymx / RC.natCast r.ny
  rw [h.hxmx, h.hnx]

theorem tr_dy : (geom RC r').dy = (geom RC r).dx := by
  show r'.ymx / RC.natCast r'.ny = r.xmx / RC.natCast r.nx
  rw [h.hymx, h.hny]

theorem tr_halo : (geom RC r').halo = (geom RC r).halo := by
  cases hh : r.halo with
  | some x =>
    have hh' : r'.halo = some x := by rw [h.hhalo, hh]
    simp only [geom, hh, hh']
  | none =>
    have hh' : r'.halo = none := by rw [h.hhalo, hh]
    simp only [geom, hh, hh', h.hxmx, h.hymx]
    rcases lt_trichotomy r.xmx r.ymx with hlt | heq | hgt
    · rw [if_neg (not_lt.mpr hlt.le), if_pos hlt]
    · rw [heq, if_neg (lt_irrefl _)]
    · rw [if_pos hgt, if_neg (not_lt.mpr hgt.le)]

theorem tr_px : (geom RC r').px = (geom RC r).py := by
  show RC.truncNat ((geom RC r').halo / (geom RC r').dx) = RC.truncNat ((geom RC r).halo / (geom RC r).dy)
  rw [tr_halo h, tr_dx h]

theorem tr_py : (geom RC r').py = (geom RC r).px := by
  show RC.truncNat ((geom RC r').halo / (geom RC r').dy) = RC.truncNat ((geom RC r).halo / (geom RC r).dx)
  rw [tr_halo h, tr_dy h]

theorem tr_nxe : (geom RC r').nxe = (geom RC r).nye := by
  rw [C11.geom_nxe, C11.geom_nye, tr_px h, h.hnx]

theorem tr_nye : (geom RC r').nye = (geom RC r).nxe := by
  rw [C11.geom_nxe, C11.geom_nye, tr_py h, h.hny]

theorem tr_nl : (geom RC r').nlx = (geom RC r).nly ∧ (geom RC r').nly = (geom RC r).nlx := by
  have e1 := C11.geom_nl r'
  have e2 := C11.geom_nl r
  rw [tr_nxe h, tr_nye h, h.hnlx, h.hnly] at e1
  have sw : clampModes r.nly r.nlx (geom RC r).nye (geom RC r).nxe
      = ((clampModes r.nlx r.nly (geom RC r).nxe (geom RC r).nye).2, (clampModes r.nlx r.nly (geom RC r).nxe (geom RC r).nye).1) := by
    unfold clampModes
    by_cases hc : r.nlx > (geom RC r).nxe ∨ r.nly > (geom RC r).nye
    · rw [if_pos hc, if_pos (Or.symm hc)]
    · rw [if_neg hc, if_neg (fun hh => hc (Or.symm hh))]
  rw [sw] at e1
  exact ⟨e1.1.trans e2.2.symm, e1.2.trans e2.1.symm⟩

theorem tr_dl : (geom RC r').dlx = (geom RC r).dly ∧ (geom RC r').dly = (geom RC r).dlx := by
  have e1 := C11.geom_dl r'
  have e2 := C11.geom_dl r
  rw [tr_nxe h, tr_nye h, (tr_nl h).1, (tr_nl h).2] at e1
  exact ⟨e1.1.trans e2.2.symm, e1.2.trans e2.1.symm⟩

theorem tr_geomOK (hg : GeomOK (geom RC r)) : GeomOK (geom RC r') := by
  refine ⟨?_, ?_, ?_, ?_⟩
  · rw [tr_nye h, (tr_nl h).2]; exact hg.adx
  · rw [tr_nxe h, (tr_nl h).1]; exact hg.ady
  · rw [(tr_dl h).2, tr_nye h, (tr_nl h).2]; exact hg.hdx
  · rw [(tr_dl h).1, tr_nxe h, (tr_nl h).1]; exact hg.hdy

theorem tr_waveX (b : ℕ) : waveX RC (geom RC r') b = waveY RC (geom RC r) b := by
  unfold waveX waveY; rw [tr_dx h, tr_nxe h, (tr_nl h).1]

theorem tr_waveY (a : ℕ) : waveY RC (geom RC r') a = waveX RC (geom RC r) a := by
  unfold waveX waveY; rw [tr_dy h, tr_nye h, (tr_nl h).2]

theorem tr_padSrc (J I : ℕ) : padSrc RC r' (geom RC r') J I = padSrc RC r (geom RC r) I J := by
  unfold padSrc
  rw [tr_px h, tr_py h, h.hny, h.hnx, h.hq]
  by_cases hw : (geom RC r).py ≤ I ∧ I < (geom RC r).py + r.ny ∧ (geom RC r).px ≤ J ∧ J < (geom RC r).px + r.nx
  · rw [if_pos hw, if_pos ⟨hw.2.2.1, hw.2.2.2, hw.1, hw.2.1⟩]
  · rw [if_neg hw, if_neg (fun hh => hw ⟨hh.2.2.1, hh.2.2.2, hh.1, hh.2.1⟩)]

/-- the truncated source spectrum of the transposed request is the transposed spectrum -/
theorem tr_srcSpectrum (hg : GeomOK (geom RC r)) (a b : ℕ) (ha : a < (geom RC r).nlx) (hb : b < (geom RC r).nly) :
    (srcSpectrum RC r' (geom RC r')).get a b = (srcSpectrum RC r (geom RC r)).get b a := by
  cases hfp : r.footprint
  · have fp' : r'.footprint = false := by rw [h.hfp]; exact hfp
    rw [C02.srcSpectrum_formula r' (tr_geomOK h hg) fp' a b (by rw [(tr_nl h).2]; exact ha) (by rw [(tr_nl h).1]; exact hb),
      C02.srcSpectrum_formula r hg hfp b a hb ha]
    simp only [tr_nxe h, tr_nye h, (tr_nl h).1, (tr_nl h).2, tr_padSrc h]
    rw [mul_comm (((geom RC r).nxe : ℕ) : ℂ)]
    congr 1
    simp only [Finset.sum_mul]
    rw [Finset.sum_comm]
    apply Finset.sum_congr rfl; intro J _
    apply Finset.sum_congr rfl; intro I _
    ring
  · have fp' : r'.footprint = true := by rw [h.hfp]; exact hfp
    simp only [srcSpectrum, hfp, fp', if_true, Tab2.get_tab, tr_nxe h, tr_nye h]
    rc_norm
    push_cast
    norm_num
    ring

theorem tr_storeP (c : ℂ) : storeP RC r' c = storeP RC r c := by
  unfold storeP; rw [h.hpr]

/-- the spectral coefficients of the transposed request are the transposed coefficients -/
theorem tr_modeCoef (hg : GeomOK (geom RC r)) (l a b : ℕ) (ha : a < (geom RC r).nlx) (hb : b < (geom RC r).nly) :
    modeCoef RC r' (geom RC r') (srcSpectrum RC r' (geom RC r')).get l a b
      = modeCoef RC r (geom RC r) (srcSpectrum RC r (geom RC r)).get l b a := by
  have hS := tr_srcSpectrum h hg a b ha hb
  unfold modeCoef
  by_cases hab : a = 0 ∧ b = 0
  · rw [if_pos hab, if_pos ⟨hab.2, hab.1⟩]
    obtain ⟨rfl, rfl⟩ := hab
    simp only [tr_storeP h, h.han, h.hz, h.hnz, h.hbg, hS, h.hP]
    rfl
  · rw [if_neg hab, if_neg (fun hh => hab ⟨hh.2, hh.1⟩)]
    simp only [tr_storeP h, h.han, h.hz, h.hnz, hS, h.hP, tr_waveX h, tr_waveY h]
    cases r.analytic
    · simp only [Bool.false_eq_true, if_false, column_swap]
    · simp only [if_true, (columnAna_symm r.P r.z (r.nz - 1) _ _ _ l).2.2]

theorem tr_shift (a b : ℕ) : shiftFactor RC r' (geom RC r') a b = shiftFactor RC r (geom RC r) b a := by
  unfold shiftFactor
  simp only [tr_waveX h, tr_waveY h, h.hfp, h.hxm, h.hym, h.hxmx, h.hymx, tr_px h, tr_py h, tr_dx h, tr_dy h]
  have e : r.ym ^ (2 : ℕ) + r.xm ^ (2 : ℕ) = r.xm ^ (2 : ℕ) + r.ym ^ (2 : ℕ) := add_comm _ _
  rw [e]
  cases r.footprint
  · simp only [Bool.false_eq_true, if_false]
    split
    · congr 2; rc_norm; norm_num; ring
    · rfl
  · simp only [if_true]
    congr 2; rc_norm; norm_num; ring

/-- AXIS SWAP, whole pipeline: the padded-domain fields of the transposed request are the transposed fields -/
theorem transpose_field (hg : GeomOK (geom RC r)) (l J I : ℕ) :
    (fieldsAt RC r' (geom RC r') (srcSpectrum RC r' (geom RC r')).get l).1.get J I
      = (fieldsAt RC r (geom RC r) (srcSpectrum RC r (geom RC r)).get l).1.get I J ∧
    (fieldsAt RC r' (geom RC r') (srcSpectrum RC r' (geom RC r')).get l).2.get J I
      = (fieldsAt RC r (geom RC r) (srcSpectrum RC r (geom RC r)).get l).2.get I J := by
  have hg' := tr_geomOK h hg
  have e1 := C03.fieldsAt_eq r' (geom RC r') (srcSpectrum RC r' (geom RC r')).get l
  have e0 := C03.fieldsAt_eq r (geom RC r) (srcSpectrum RC r (geom RC r)).get l
  rw [h.hfp] at e1
  have hs := C03.signPair_of r.footprint
  refine ⟨?_, ?_⟩
  · rw [e1.1, e0.1, solver_repr _ _ hs _ hg', solver_repr _ _ hs _ hg]
    rw [tr_nxe h, tr_nye h, (tr_nl h).1, (tr_nl h).2, Finset.sum_comm]
    apply Finset.sum_congr rfl; intro b hb
    apply Finset.sum_congr rfl; intro a ha
    rw [tr_modeCoef h hg l a b (Finset.mem_range.mp ha) (Finset.mem_range.mp hb), tr_shift h]
    ring
  · rw [e1.2, e0.2, solver_repr _ _ hs _ hg', solver_repr _ _ hs _ hg]
    rw [tr_nxe h, tr_nye h, (tr_nl h).1, (tr_nl h).2, Finset.sum_comm]
    apply Finset.sum_congr rfl; intro b hb
    apply Finset.sum_congr rfl; intro a ha
    rw [tr_modeCoef h hg l a b (Finset.mem_range.mp ha) (Finset.mem_range.mp hb), tr_shift h]
    ring

/-- … observed through the public result: the output of the transposed request is the transposed output -/
theorem transpose_output (hg : GeomOK (geom RC r)) (k j i : ℕ) :
    (solveOk RC r').conc k j i = (solveOk RC r).conc k i j ∧ (solveOk RC r').flx k j i = (solveOk RC r).flx k i j := by
  have hf := fun l J I => transpose_field h hg l J I
  simp only [solveOk, Tab1.get_tab, tr_px h, tr_py h, h.hlv, (hf _ _ _).1, (hf _ _ _).2]
  exact ⟨trivial, trivial⟩

end

/-- the transposed partner of a request -/
noncomputable def transposeOf (r : SolveReq ℝ) : SolveReq ℝ where
  ny := r.nx
  nx := r.ny
  nz := r.nz
  q := fun j i => r.q i j
  z := r.z
  P := swapXY r.P
  xmx := r.ymx
  ymx := r.xmx
  levels := r.levels
  nlx := r.nly
  nly := r.nlx
  xm := r.ym
  ym := r.xm
  bg := r.bg
  footprint := r.footprint
  analytic := r.analytic
  halo := r.halo
  precision := r.precision

theorem transposeOf_pair (r : SolveReq ℝ) : Transposed r (transposeOf r) :=
  ⟨rfl, rfl, fun _ _ => rfl, rfl, rfl, rfl, rfl, rfl, rfl, rfl, rfl, rfl, rfl, rfl, rfl, rfl, rfl, rfl⟩

/-! ### non-vacuity -/
example : ∃ r : SolveReq ℝ, Transposed r (transposeOf r) ∧ GeomOK (geom RC r) ∧ r.nx ≠ r.ny :=
  ⟨Witness.wreq false, transposeOf_pair _, Witness.wreq_geomOK false, by simp [Witness.wreq]⟩

end BLDFM.C07
