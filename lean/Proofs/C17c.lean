/-
  C17, accuracy clause — bearing: "the local bearing agrees with the initial great-circle bearing to within
  0.1 degree" for offsets of up to 5 km at |ref latitude| ≤ 60°.

  The local direction (north, east) = (a, c·b) and the initial great-circle direction
  (N, E) = (cos φ₀ sin φ₁ − sin φ₀ cos φ₁ cos b,  sin b · cos φ₁),  φ₁ = φ₀ + a, enclose the signed angle
  δ = arg((N + iE)·conj(a + i c b)).  `bearing_alg` bounds |cross| ≤ 1.745·10⁻³ · dot with dot > 0, i.e.
  |tan δ| ≤ 1.745·10⁻³ < tan 0.1°; `bearing_accuracy` turns that into |δ| ≤ 0.1·π/180.
-/
import Proofs.C17b
import Mathlib.Analysis.SpecialFunctions.Trigonometric.ArctanDeriv
import Mathlib.Analysis.SpecialFunctions.Complex.Arg
import Mathlib.Analysis.Real.Pi.Bounds

open BLDFM BLDFM.Spec

namespace BLDFM.C17

/-- basic size facts: `|a| ≤ t`, `c|b| ≤ t`, `|b| ≤ 2t`, `|s||b| ≤ 1.733 t` -/
theorem size_facts (a b t c s : ℝ) (hc : 1 / 2 ≤ c) (hcs : c ^ 2 + s ^ 2 = 1) (ht0 : 0 ≤ t)
    (ht : t ^ 2 = a ^ 2 + c ^ 2 * b ^ 2) :
    |a| ≤ t ∧ c * |b| ≤ t ∧ |b| ≤ 2 * t ∧ |s| * |b| ≤ 1733 / 1000 * t ∧ b ^ 2 ≤ 4 * t ^ 2 ∧ s ^ 2 ≤ 3 / 4 := by
  have hcpos : 0 < c := by linarith
  have hB0 : 0 ≤ |b| := abs_nonneg _
  have ha2 : a ^ 2 ≤ t ^ 2 := by nlinarith [sq_nonneg (c * b)]
  have hAt : |a| ≤ t := abs_le_of_sq_le_sq ha2 ht0
  have hcb2 : c ^ 2 * b ^ 2 ≤ t ^ 2 := by nlinarith [sq_nonneg a]
  have hcB : c * |b| ≤ t := by
    have : (c * |b|) ^ 2 ≤ t ^ 2 := by rw [mul_pow, sq_abs]; exact hcb2
    exact (abs_le_of_sq_le_sq' this ht0).2
  have hBt : |b| ≤ 2 * t := by nlinarith
  have hc2 : 1 / 4 ≤ c ^ 2 := by nlinarith
  have hs34 : s ^ 2 ≤ 3 / 4 := by linarith
  have hb24 : b ^ 2 ≤ 4 * t ^ 2 := by nlinarith [sq_nonneg b]
  have hs2 : s ^ 2 ≤ 3 * c ^ 2 := by linarith
  have hm : |s| * |b| ≤ 1733 / 1000 * t := by
    have h1 : s ^ 2 * b ^ 2 ≤ 3 * c ^ 2 * b ^ 2 := mul_le_mul_of_nonneg_right hs2 (sq_nonneg b)
    have h2 : (|s| * |b|) ^ 2 ≤ (1733 / 1000 * t) ^ 2 := by
      rw [mul_pow, sq_abs, sq_abs]
      have : (1733 / 1000 * t) ^ 2 = 3003289 / 1000000 * t ^ 2 := by ring
      rw [this]
      nlinarith [sq_nonneg t]
    exact (abs_le_of_sq_le_sq' h2 (by positivity)).2
  exact ⟨hAt, hcB, hBt, hm, hb24, hs34⟩

/-- second group of the cross product: `|c² s b Ca (1−Cb) + a s Sa Sb| ≤ |s||b| t²` -/
theorem G2_bound (a b t c s Sa Ca Sb Cb : ℝ) (ht : t ^ 2 = a ^ 2 + c ^ 2 * b ^ 2)
    (hSa' : |Sa| ≤ |a|) (hSb' : |Sb| ≤ |b|) (hCa0 : 0 ≤ Ca) (hCa1 : Ca ≤ 1) (hqb : 0 ≤ 1 - Cb) (hqb' : 1 - Cb ≤ b ^ 2 / 2) :
    |c ^ 2 * s * b * Ca * (1 - Cb) + a * s * Sa * Sb| ≤ |s| * |b| * t ^ 2 := by
  have hA0 : 0 ≤ |a| := abs_nonneg _
  have hB0 : 0 ≤ |b| := abs_nonneg _
  have hS0 : 0 ≤ |s| := abs_nonneg _
  have hm0 : 0 ≤ |s| * |b| := mul_nonneg hS0 hB0
  have h1 : |c ^ 2 * s * b * Ca * (1 - Cb)| ≤ (|s| * |b|) * (c ^ 2 * (b ^ 2 / 2)) := by
    have e : |c ^ 2 * s * b * Ca * (1 - Cb)| = (|s| * |b|) * (c ^ 2 * (Ca * (1 - Cb))) := by
      rw [abs_mul, abs_mul, abs_mul, abs_mul, abs_of_nonneg (sq_nonneg c), abs_of_nonneg hCa0, abs_of_nonneg hqb]
      ring
    rw [e]
    have : Ca * (1 - Cb) ≤ 1 * (b ^ 2 / 2) := mul_le_mul hCa1 hqb' hqb (by norm_num)
    apply mul_le_mul_of_nonneg_left _ hm0
    apply mul_le_mul_of_nonneg_left _ (sq_nonneg c)
    linarith
  have h2 : |a * s * Sa * Sb| ≤ (|s| * |b|) * a ^ 2 := by
    rw [abs_mul, abs_mul, abs_mul]
    have h0 : 0 ≤ |a| * |s| := mul_nonneg hA0 hS0
    have h3 : |a| * |s| * |Sa| * |Sb| ≤ |a| * |s| * |a| * |b| :=
      (mul_le_mul_of_nonneg_right (mul_le_mul_of_nonneg_left hSa' h0) (abs_nonneg _)).trans
        (mul_le_mul_of_nonneg_left hSb' (mul_nonneg h0 hA0))
    have e : |a| * |s| * |a| * |b| = (|s| * |b|) * a ^ 2 := by rw [← sq_abs a]; ring
    linarith
  have h3 : (|s| * |b|) * (c ^ 2 * (b ^ 2 / 2)) + (|s| * |b|) * a ^ 2 ≤ |s| * |b| * t ^ 2 := by
    have : c ^ 2 * (b ^ 2 / 2) + a ^ 2 ≤ t ^ 2 := by nlinarith [sq_nonneg (c * b)]
    have := mul_le_mul_of_nonneg_left this hm0
    linarith
  exact (abs_add_le _ _).trans (by linarith)

/-- first group of the cross product (fourth order) -/
theorem G1_bound (a b t c s Sa Ca Sb Cb : ℝ) (hc : 0 < c) (ht0 : 0 ≤ t)
    (hAt : |a| ≤ t) (hcB : c * |b| ≤ t) (hb24 : b ^ 2 ≤ 4 * t ^ 2) (hs34 : s ^ 2 ≤ 3 / 4)
    (hSa : |Sa - a| ≤ |a| ^ 3 / 6) (hSb : |Sb - b| ≤ |b| ^ 3 / 6) (hSa' : |Sa| ≤ |a|) (hSb' : |Sb| ≤ |b|)
    (hqa : 0 ≤ 1 - Ca) (hqa' : 1 - Ca ≤ a ^ 2 / 2) (hqb : 0 ≤ 1 - Cb) (hqb' : 1 - Cb ≤ b ^ 2 / 2) :
    |c * (b * (Sa - a) + a * (b - Sb) + a * Sb * (1 - Ca) - b * Sa * s ^ 2 * (1 - Cb))| ≤ 10 / 3 * t ^ 4 := by
  have hA0 : 0 ≤ |a| := abs_nonneg _
  have hB0 : 0 ≤ |b| := abs_nonneg _
  have e1 : |b * (Sa - a)| ≤ |b| * (|a| ^ 3 / 6) := by
    rw [abs_mul]; exact mul_le_mul_of_nonneg_left hSa hB0
  have e2 : |a * (b - Sb)| ≤ |a| * (|b| ^ 3 / 6) := by
    rw [abs_mul, abs_sub_comm]; exact mul_le_mul_of_nonneg_left hSb hA0
  have e3 : |a * Sb * (1 - Ca)| ≤ |a| * |b| * (a ^ 2 / 2) := by
    rw [abs_mul, abs_mul, abs_of_nonneg hqa]
    exact mul_le_mul (mul_le_mul_of_nonneg_left hSb' hA0) hqa' hqa (mul_nonneg hA0 hB0)
  have e4 : |b * Sa * s ^ 2 * (1 - Cb)| ≤ |b| * |a| * (3 / 4) * (b ^ 2 / 2) := by
    rw [abs_mul, abs_mul, abs_mul, abs_of_nonneg hqb, abs_of_nonneg (sq_nonneg s)]
    apply mul_le_mul _ hqb' hqb (by positivity)
    exact mul_le_mul (mul_le_mul_of_nonneg_left hSa' hB0) hs34 (sq_nonneg _) (mul_nonneg hB0 hA0)
  have habs : |b * (Sa - a) + a * (b - Sb) + a * Sb * (1 - Ca) - b * Sa * s ^ 2 * (1 - Cb)|
      ≤ |b| * (|a| ^ 3 / 6) + |a| * (|b| ^ 3 / 6) + |a| * |b| * (a ^ 2 / 2) + |b| * |a| * (3 / 4) * (b ^ 2 / 2) := by
    have t1 := abs_sub (b * (Sa - a) + a * (b - Sb) + a * Sb * (1 - Ca)) (b * Sa * s ^ 2 * (1 - Cb))
    have t2 := abs_add_le (b * (Sa - a) + a * (b - Sb)) (a * Sb * (1 - Ca))
    have t3 := abs_add_le (b * (Sa - a)) (a * (b - Sb))
    linarith
  rw [abs_mul, abs_of_pos hc]
  have hpoly : c * (|b| * (|a| ^ 3 / 6) + |a| * (|b| ^ 3 / 6) + |a| * |b| * (a ^ 2 / 2) + |b| * |a| * (3 / 4) * (b ^ 2 / 2))
      = (c * |b|) * |a| * (2 / 3 * a ^ 2 + 13 / 24 * b ^ 2) := by
    rw [← sq_abs a, ← sq_abs b]; ring
  have h5 : (c * |b|) * |a| ≤ t * t := mul_le_mul hcB hAt hA0 ht0
  have ha2 : a ^ 2 ≤ t ^ 2 := by rw [← sq_abs a]; exact pow_le_pow_left₀ hA0 hAt 2
  have h6 : 2 / 3 * a ^ 2 + 13 / 24 * b ^ 2 ≤ 10 / 3 * t ^ 2 := by linarith
  have h7 : 0 ≤ 2 / 3 * a ^ 2 + 13 / 24 * b ^ 2 := by positivity
  have h8 : (c * |b|) * |a| * (2 / 3 * a ^ 2 + 13 / 24 * b ^ 2) ≤ t * t * (10 / 3 * t ^ 2) :=
    mul_le_mul h5 h6 h7 (mul_nonneg ht0 ht0)
  have e : t * t * (10 / 3 * t ^ 2) = 10 / 3 * t ^ 4 := by ring
  have := mul_le_mul_of_nonneg_left habs hc.le
  linarith

/-- the three mixed terms of the dot product -/
theorem dot_mixed (a b t c s Sa Ca Sb Cb : ℝ) (hc : 0 < c) (ht0 : 0 ≤ t)
    (hAt : |a| ≤ t) (hcB : c * |b| ≤ t) (hb24 : b ^ 2 ≤ 4 * t ^ 2) (hs34 : s ^ 2 ≤ 3 / 4)
    (hSa' : |Sa| ≤ |a|) (hSb' : |Sb| ≤ |b|) (hCa0 : 0 ≤ Ca) (hCa1 : Ca ≤ 1) (hqb : 0 ≤ 1 - Cb) (hqb' : 1 - Cb ≤ b ^ 2 / 2) :
    |c * s * b * Sa * Sb| ≤ (|s| * |b|) * t * t ∧ |a * Sa * s ^ 2 * (1 - Cb)| ≤ 3 / 2 * t ^ 4 ∧
      |a * c * s * Ca * (1 - Cb)| ≤ (|s| * |b|) * t * t := by
  have hA0 : 0 ≤ |a| := abs_nonneg _
  have hB0 : 0 ≤ |b| := abs_nonneg _
  have hS0 : 0 ≤ |s| := abs_nonneg _
  have hm0 : 0 ≤ |s| * |b| := mul_nonneg hS0 hB0
  have ha2 : a ^ 2 ≤ t ^ 2 := by rw [← sq_abs a]; exact pow_le_pow_left₀ hA0 hAt 2
  have h3' : (|s| * |b|) * (c * |b|) * |a| ≤ (|s| * |b|) * t * t :=
    mul_le_mul (mul_le_mul_of_nonneg_left hcB hm0) hAt hA0 (mul_nonneg hm0 ht0)
  refine ⟨?_, ?_, ?_⟩
  · rw [abs_mul, abs_mul, abs_mul, abs_mul, abs_of_pos hc]
    have h0 : 0 ≤ c * |s| * |b| := mul_nonneg (mul_nonneg hc.le hS0) hB0
    have h1 : c * |s| * |b| * |Sa| * |Sb| ≤ c * |s| * |b| * |a| * |b| :=
      (mul_le_mul_of_nonneg_right (mul_le_mul_of_nonneg_left hSa' h0) (abs_nonneg _)).trans
        (mul_le_mul_of_nonneg_left hSb' (mul_nonneg h0 hA0))
    have h2 : c * |s| * |b| * |a| * |b| = (|s| * |b|) * (c * |b|) * |a| := by ring
    linarith
  · rw [abs_mul, abs_mul, abs_mul, abs_of_nonneg hqb, abs_of_nonneg (sq_nonneg s)]
    have h1 : |a| * |Sa| * s ^ 2 * (1 - Cb) ≤ |a| * |a| * (3 / 4) * (b ^ 2 / 2) := by
      apply mul_le_mul _ hqb' hqb (by positivity)
      exact mul_le_mul (mul_le_mul_of_nonneg_left hSa' hA0) hs34 (sq_nonneg _) (mul_nonneg hA0 hA0)
    have h2 : |a| * |a| * (3 / 4) * (b ^ 2 / 2) ≤ 3 / 2 * t ^ 4 := by
      have e : |a| * |a| = a ^ 2 := by rw [← sq_abs a]; ring
      rw [e]
      have : a ^ 2 * b ^ 2 ≤ t ^ 2 * (4 * t ^ 2) := mul_le_mul ha2 hb24 (sq_nonneg _) (sq_nonneg _)
      nlinarith
    linarith
  · rw [abs_mul, abs_mul, abs_mul, abs_mul, abs_of_pos hc, abs_of_nonneg hCa0, abs_of_nonneg hqb]
    have h1 : |a| * c * |s| * Ca * (1 - Cb) ≤ |a| * c * |s| * 1 * (b ^ 2 / 2) := by
      apply mul_le_mul _ hqb' hqb (by positivity)
      exact mul_le_mul_of_nonneg_left hCa1 (by positivity)
    have h2 : |a| * c * |s| * 1 * (b ^ 2 / 2) = (|s| * |b|) * (c * |b|) * |a| / 2 := by rw [← sq_abs b]; ring
    have h4 : 0 ≤ (|s| * |b|) * t * t := mul_nonneg (mul_nonneg hm0 ht0) ht0
    linarith

/-- the two leading terms of the dot product -/
theorem dot_main (a b t c Sa Ca Sb : ℝ) (ht0 : 0 ≤ t) (ht : t ^ 2 = a ^ 2 + c ^ 2 * b ^ 2) (hε : t ≤ 8 / 10000)
    (hb24 : b ^ 2 ≤ 4 * t ^ 2)
    (hSa : |Sa - a| ≤ |a| ^ 3 / 6) (hSb : |Sb - b| ≤ |b| ^ 3 / 6) (hCa : 1 - a ^ 2 / 2 ≤ Ca) (hCa0 : 0 ≤ Ca) :
    c ^ 2 * b ^ 2 * (1 - 2 * t ^ 2) ≤ c ^ 2 * Ca * (b * Sb) ∧ a ^ 2 * (1 - t ^ 2) ≤ a * Sa := by
  have hA0 : 0 ≤ |a| := abs_nonneg _
  have hB0 : 0 ≤ |b| := abs_nonneg _
  have ha2 : a ^ 2 ≤ t ^ 2 := by nlinarith [sq_nonneg (c * b)]
  have ht2 : t ^ 2 ≤ (8 / 10000) ^ 2 := pow_le_pow_left₀ ht0 hε 2
  have hbSb : b ^ 2 - |b| ^ 4 / 6 ≤ b * Sb := by
    have : |b * (Sb - b)| ≤ |b| * (|b| ^ 3 / 6) := by
      rw [abs_mul]; exact mul_le_mul_of_nonneg_left hSb hB0
    have := (abs_le.1 this).1
    nlinarith
  have haSa : a ^ 2 - |a| ^ 4 / 6 ≤ a * Sa := by
    have : |a * (Sa - a)| ≤ |a| * (|a| ^ 3 / 6) := by
      rw [abs_mul]; exact mul_le_mul_of_nonneg_left hSa hA0
    have := (abs_le.1 this).1
    nlinarith
  have hA4 : |a| ^ 4 ≤ t ^ 2 * a ^ 2 := by
    have : |a| ^ 4 = a ^ 2 * a ^ 2 := by rw [← sq_abs a]; ring
    rw [this]; exact mul_le_mul_of_nonneg_right ha2 (sq_nonneg a)
  have hB4 : |b| ^ 4 ≤ 4 * t ^ 2 * b ^ 2 := by
    have : |b| ^ 4 = b ^ 2 * b ^ 2 := by rw [← sq_abs b]; ring
    rw [this]; exact mul_le_mul_of_nonneg_right hb24 (sq_nonneg b)
  constructor
  · have hbS0 : 0 ≤ b ^ 2 - |b| ^ 4 / 6 := by
      have : 4 * t ^ 2 * b ^ 2 ≤ 1 * b ^ 2 := mul_le_mul_of_nonneg_right (by nlinarith) (sq_nonneg b)
      linarith [sq_nonneg b]
    have h1 : (1 - a ^ 2 / 2) * (b ^ 2 - |b| ^ 4 / 6) ≤ Ca * (b * Sb) := mul_le_mul hCa hbSb hbS0 hCa0
    have h2 : b ^ 2 * (1 - 2 * t ^ 2) ≤ (1 - a ^ 2 / 2) * (b ^ 2 - |b| ^ 4 / 6) := by
      have e : (1 - a ^ 2 / 2) * (b ^ 2 - |b| ^ 4 / 6) = b ^ 2 - a ^ 2 / 2 * b ^ 2 - (1 - a ^ 2 / 2) * (|b| ^ 4 / 6) := by ring
      rw [e]
      have h3 : (1 - a ^ 2 / 2) * (|b| ^ 4 / 6) ≤ 1 * (4 * t ^ 2 * b ^ 2 / 6) := by
        apply mul_le_mul _ _ (by positivity) (by norm_num)
        · nlinarith [sq_nonneg a]
        · linarith
      have h4 : a ^ 2 / 2 * b ^ 2 ≤ t ^ 2 / 2 * b ^ 2 := mul_le_mul_of_nonneg_right (by linarith) (sq_nonneg b)
      have e2 : b ^ 2 * (1 - 2 * t ^ 2) = b ^ 2 - t ^ 2 / 2 * b ^ 2 - 4 * t ^ 2 * b ^ 2 / 6 - 5 / 6 * (t ^ 2 * b ^ 2) := by ring
      have h5 : 0 ≤ t ^ 2 * b ^ 2 := mul_nonneg (sq_nonneg _) (sq_nonneg _)
      rw [e2]; linarith
    have := mul_le_mul_of_nonneg_left (h2.trans h1) (sq_nonneg c)
    have e3 : c ^ 2 * (b ^ 2 * (1 - 2 * t ^ 2)) = c ^ 2 * b ^ 2 * (1 - 2 * t ^ 2) := by ring
    have e4 : c ^ 2 * (Ca * (b * Sb)) = c ^ 2 * Ca * (b * Sb) := by ring
    linarith
  · have e : a ^ 2 * (1 - t ^ 2) = a ^ 2 - t ^ 2 * a ^ 2 := by ring
    have : 0 ≤ t ^ 2 * a ^ 2 := mul_nonneg (sq_nonneg _) (sq_nonneg _)
    rw [e]; linarith

/-- the algebra of the bearing bound, free of trigonometric terms: `Sa, Ca, Sb, Cb` stand for
`sin a, cos a, sin b, cos b`, `c, s` for `cos φ₀, sin φ₀`; `E, N` are the east and north components of the
initial great-circle direction, `(c b, a)` those of the local direction -/
theorem bearing_alg (a b t c s Sa Ca Sb Cb : ℝ) (hc : 1 / 2 ≤ c) (hcs : c ^ 2 + s ^ 2 = 1) (ht0 : 0 ≤ t)
    (ht : t ^ 2 = a ^ 2 + c ^ 2 * b ^ 2) (hε : t ≤ 8 / 10000)
    (hSa : |Sa - a| ≤ |a| ^ 3 / 6) (hSb : |Sb - b| ≤ |b| ^ 3 / 6) (hSa' : |Sa| ≤ |a|) (hSb' : |Sb| ≤ |b|)
    (hCa : 1 - a ^ 2 / 2 ≤ Ca) (hCa1 : Ca ≤ 1) (hCb : 1 - b ^ 2 / 2 ≤ Cb) (hCb1 : Cb ≤ 1) :
    |c * b * (Sa * (c ^ 2 + s ^ 2 * Cb) + c * s * Ca * (1 - Cb)) - a * ((c * Ca - s * Sa) * Sb)|
        ≤ 1745 / 1000000 * (c * b * ((c * Ca - s * Sa) * Sb) + a * (Sa * (c ^ 2 + s ^ 2 * Cb) + c * s * Ca * (1 - Cb))) ∧
      (1 - 3 / 1000) * t ^ 2 ≤ c * b * ((c * Ca - s * Sa) * Sb) + a * (Sa * (c ^ 2 + s ^ 2 * Cb) + c * s * Ca * (1 - Cb)) := by
  have hcpos : 0 < c := by linarith
  obtain ⟨hAt, hcB, hBt, hm, hb24, hs34⟩ := size_facts a b t c s hc hcs ht0 ht
  have ht2 : t ^ 2 ≤ (8 / 10000) ^ 2 := pow_le_pow_left₀ ht0 hε 2
  have ha2 : a ^ 2 ≤ t ^ 2 := by nlinarith [sq_nonneg (c * b)]
  have hCa0 : 0 ≤ Ca := by nlinarith
  have hqa : 0 ≤ 1 - Ca := by linarith
  have hqb : 0 ≤ 1 - Cb := by linarith
  have hqa' : 1 - Ca ≤ a ^ 2 / 2 := by linarith
  have hqb' : 1 - Cb ≤ b ^ 2 / 2 := by linarith
  have hG2 := G2_bound a b t c s Sa Ca Sb Cb ht hSa' hSb' hCa0 hCa1 hqb hqb'
  have hG1 := G1_bound a b t c s Sa Ca Sb Cb hcpos ht0 hAt hcB hb24 hs34 hSa hSb hSa' hSb' hqa hqa' hqb hqb'
  obtain ⟨hT3, hT4, hT5⟩ := dot_mixed a b t c s Sa Ca Sb Cb hcpos ht0 hAt hcB hb24 hs34 hSa' hSb' hCa0 hCa1 hqb hqb'
  obtain ⟨hT1, hT2⟩ := dot_main a b t c Sa Ca Sb ht0 ht hε hb24 hSa hSb hCa hCa0
  have hm0 : 0 ≤ |s| * |b| := mul_nonneg (abs_nonneg _) (abs_nonneg _)
  have hmε : |s| * |b| ≤ 14 / 10000 := by linarith
  have ht4 : t ^ 4 ≤ (8 / 10000) ^ 2 * t ^ 2 := by
    have : t ^ 4 = t ^ 2 * t ^ 2 := by ring
    rw [this]; exact mul_le_mul_of_nonneg_right ht2 (sq_nonneg t)
  -- the dot product
  have hd : c * b * ((c * Ca - s * Sa) * Sb) + a * (Sa * (c ^ 2 + s ^ 2 * Cb) + c * s * Ca * (1 - Cb))
      = c ^ 2 * Ca * (b * Sb) + a * Sa - c * s * b * Sa * Sb - a * Sa * s ^ 2 * (1 - Cb) + a * c * s * Ca * (1 - Cb) := by
    linear_combination (a * Sa) * hcs
  have hdot : (1 - 3 / 1000) * t ^ 2 ≤ c * b * ((c * Ca - s * Sa) * Sb) + a * (Sa * (c ^ 2 + s ^ 2 * Cb) + c * s * Ca * (1 - Cb)) := by
    rw [hd]
    have h3lo := (abs_le.1 hT3).2
    have h4lo := (abs_le.1 hT4).2
    have h5lo := (abs_le.1 hT5).1
    have hSBtt : (|s| * |b|) * t * t ≤ 14 / 10000 * t ^ 2 := by
      have : (|s| * |b|) * t * t = (|s| * |b|) * t ^ 2 := by ring
      rw [this]; exact mul_le_mul_of_nonneg_right hmε (sq_nonneg t)
    have hcb2 : c ^ 2 * b ^ 2 * (2 * t ^ 2) ≤ t ^ 2 * (2 * (8 / 10000) ^ 2) := by
      have : c ^ 2 * b ^ 2 ≤ t ^ 2 := by nlinarith [sq_nonneg a]
      exact mul_le_mul this (by linarith) (by positivity) (sq_nonneg t)
    have ha2t : a ^ 2 * t ^ 2 ≤ t ^ 2 * (8 / 10000) ^ 2 := mul_le_mul ha2 ht2 (sq_nonneg _) (sq_nonneg _)
    have e1 : c ^ 2 * b ^ 2 * (1 - 2 * t ^ 2) = c ^ 2 * b ^ 2 - c ^ 2 * b ^ 2 * (2 * t ^ 2) := by ring
    have e2 : a ^ 2 * (1 - t ^ 2) = a ^ 2 - a ^ 2 * t ^ 2 := by ring
    rw [e1] at hT1
    rw [e2] at hT2
    have hnum : (2 * (8 / 10000 : ℝ) ^ 2 + (8 / 10000) ^ 2 + 2 * (14 / 10000) + 3 / 2 * (8 / 10000) ^ 2) ≤ 3 / 1000 := by norm_num
    have hn2 := mul_le_mul_of_nonneg_right hnum (sq_nonneg t)
    have ht4' : 3 / 2 * t ^ 4 ≤ 3 / 2 * ((8 / 10000) ^ 2 * t ^ 2) := by linarith
    linarith
  refine ⟨?_, hdot⟩
  -- the cross product
  have hcross : c * b * (Sa * (c ^ 2 + s ^ 2 * Cb) + c * s * Ca * (1 - Cb)) - a * ((c * Ca - s * Sa) * Sb)
      = c * (b * (Sa - a) + a * (b - Sb) + a * Sb * (1 - Ca) - b * Sa * s ^ 2 * (1 - Cb))
        + (c ^ 2 * s * b * Ca * (1 - Cb) + a * s * Sa * Sb) := by
    linear_combination (c * b * Sa) * hcs
  rw [hcross]
  have h1 := abs_add_le (c * (b * (Sa - a) + a * (b - Sb) + a * Sb * (1 - Ca) - b * Sa * s ^ 2 * (1 - Cb)))
    (c ^ 2 * s * b * Ca * (1 - Cb) + a * s * Sa * Sb)
  have h2 : |s| * |b| * t ^ 2 ≤ 1733 / 1000 * (8 / 10000) * t ^ 2 :=
    mul_le_mul_of_nonneg_right (by linarith) (sq_nonneg t)
  have hnum : (10 / 3 * (8 / 10000 : ℝ) ^ 2 + 1733 / 1000 * (8 / 10000)) ≤ 1745 / 1000000 * (1 - 3 / 1000) := by norm_num
  have hn2 := mul_le_mul_of_nonneg_right hnum (sq_nonneg t)
  have hd2 := mul_le_mul_of_nonneg_left hdot (by norm_num : (0 : ℝ) ≤ 1745 / 1000000)
  have ht4' : 10 / 3 * t ^ 4 ≤ 10 / 3 * ((8 / 10000) ^ 2 * t ^ 2) := by linarith
  linarith

/-- `|sin x − x| ≤ |x|³/6` -/
theorem abs_sin_sub_le (x : ℝ) : |Real.sin x - x| ≤ |x| ^ 3 / 6 := by
  wlog h0 : 0 ≤ x generalizing x
  · have := this (-x) (by linarith)
    rw [Real.sin_neg, abs_neg] at this
    have e : |-Real.sin x - -x| = |Real.sin x - x| := by rw [← abs_neg]; ring_nf
    rw [e] at this; exact this
  rw [abs_of_nonneg h0]
  rcases h0.eq_or_lt with rfl | hpos
  · simp
  have h1 := Real.sin_gt_sub_cube hpos
  have h2 := Real.sin_le h0
  rw [abs_le]; constructor <;> linarith

/-- `|δ| ≤ |tan δ|` on `(−π/2, π/2)` -/
theorem abs_le_abs_tan (δ : ℝ) (h : |δ| < Real.pi / 2) : |δ| ≤ |Real.tan δ| := by
  rcases le_or_gt 0 δ with h0 | h0
  · rw [abs_of_nonneg h0] at h ⊢
    exact (Real.le_tan h0 h).trans (le_abs_self _)
  · rw [abs_of_neg h0] at h ⊢
    have := Real.le_tan (by linarith : 0 ≤ -δ) h
    rw [Real.tan_neg] at this
    exact this.trans (neg_le_abs _)

/-- core statement in radians: the signed angle between the local direction `(north, east) = (a, cos φ₀ · b)` and
the initial great-circle direction is at most `1.745·10⁻³` -/
theorem bearing_core (φ₀ a b t : ℝ) (hc : 1 / 2 ≤ Real.cos φ₀) (ht0 : 0 ≤ t)
    (ht : t ^ 2 = a ^ 2 + Real.cos φ₀ ^ 2 * b ^ 2) (hε : t ≤ 8 / 10000) :
    |Complex.arg ((⟨Real.cos φ₀ * Real.sin (φ₀ + a) - Real.sin φ₀ * Real.cos (φ₀ + a) * Real.cos b,
        Real.sin b * Real.cos (φ₀ + a)⟩ : ℂ) * (starRingEnd ℂ) ⟨a, Real.cos φ₀ * b⟩)| ≤ 1745 / 1000000 := by
  obtain ⟨hcr, hdot⟩ := bearing_alg a b t (Real.cos φ₀) (Real.sin φ₀) (Real.sin a) (Real.cos a) (Real.sin b) (Real.cos b)
    hc (by rw [add_comm]; exact Real.sin_sq_add_cos_sq φ₀) ht0 ht hε (abs_sin_sub_le a) (abs_sin_sub_le b)
    Real.abs_sin_le_abs Real.abs_sin_le_abs Real.one_sub_sq_div_two_le_cos (Real.cos_le_one a)
    Real.one_sub_sq_div_two_le_cos (Real.cos_le_one b)
  have hNgc : Real.cos φ₀ * Real.sin (φ₀ + a) - Real.sin φ₀ * Real.cos (φ₀ + a) * Real.cos b
      = Real.sin a * (Real.cos φ₀ ^ 2 + Real.sin φ₀ ^ 2 * Real.cos b)
        + Real.cos φ₀ * Real.sin φ₀ * Real.cos a * (1 - Real.cos b) := by
    rw [Real.sin_add, Real.cos_add]; ring
  have hEgc : Real.sin b * Real.cos (φ₀ + a)
      = (Real.cos φ₀ * Real.cos a - Real.sin φ₀ * Real.sin a) * Real.sin b := by
    rw [Real.cos_add]; ring
  rw [hNgc, hEgc]
  generalize Real.cos φ₀ = c at *
  generalize Real.sin φ₀ = s at *
  generalize Real.sin a = Sa at *
  generalize Real.cos a = Ca at *
  generalize Real.sin b = Sb at *
  generalize Real.cos b = Cb at *
  generalize hE : (c * Ca - s * Sa) * Sb = E at *
  generalize hN : Sa * (c ^ 2 + s ^ 2 * Cb) + c * s * Ca * (1 - Cb) = N at *
  have hre : ((⟨N, E⟩ : ℂ) * (starRingEnd ℂ) ⟨a, c * b⟩).re = c * b * E + a * N := by
    simp only [Complex.mul_re, Complex.conj_re, Complex.conj_im]; ring
  have him : ((⟨N, E⟩ : ℂ) * (starRingEnd ℂ) ⟨a, c * b⟩).im = -(c * b * N - a * E) := by
    simp only [Complex.mul_im, Complex.conj_re, Complex.conj_im]; ring
  generalize (⟨N, E⟩ : ℂ) * (starRingEnd ℂ) ⟨a, c * b⟩ = w at *
  rcases ht0.eq_or_lt with h0 | htpos
  · -- the point is the origin: the local vector vanishes, arg 0 = 0
    have h2 : a ^ 2 + c ^ 2 * b ^ 2 = 0 := by rw [← ht, ← h0]; ring
    have h3 : c ^ 2 * b ^ 2 = (c * b) ^ 2 := by ring
    rw [h3] at h2
    obtain ⟨ha0, hb0⟩ := (add_eq_zero_iff_of_nonneg (sq_nonneg a) (sq_nonneg (c * b))).1 h2
    have ha0' : a = 0 := pow_eq_zero_iff (by norm_num) |>.1 ha0
    have hb0' : c * b = 0 := pow_eq_zero_iff (by norm_num) |>.1 hb0
    have hw0 : w = 0 := by
      apply Complex.ext
      · rw [hre, hb0', ha0']; simp
      · rw [him, hb0', ha0']; simp
    rw [hw0, Complex.arg_zero, abs_zero]; norm_num
  have hdotpos : 0 < c * b * E + a * N := by
    have : 0 < (1 - 3 / 1000) * t ^ 2 := by positivity
    linarith
  have hrepos : 0 < w.re := by rw [hre]; exact hdotpos
  have hlt : |Complex.arg w| < Real.pi / 2 := Complex.abs_arg_lt_pi_div_two_iff.2 (Or.inl hrepos)
  have htan : |Real.tan (Complex.arg w)| ≤ 1745 / 1000000 := by
    rw [Complex.tan_arg, hre, him, abs_div, abs_neg, abs_of_pos hdotpos, div_le_iff₀ hdotpos]
    exact hcr
  exact (abs_le_abs_tan _ hlt).trans htan

/-- signed angle (radians, in (−π, π]) from the local direction of the point `(lat, lon)` seen from the reference
origin — north component `y`, east component `x` of the model's `latlonToXy` — to the initial great-circle
direction (north component `cos φ₀ sin φ₁ − sin φ₀ cos φ₁ cos Δλ`, east component `sin Δλ cos φ₁`) -/
noncomputable def bearingError (lat lon refLat refLon : ℝ) : ℝ :=
  Complex.arg ((⟨Real.cos (refLat * (Real.pi / 180)) * Real.sin (lat * (Real.pi / 180))
      - Real.sin (refLat * (Real.pi / 180)) * Real.cos (lat * (Real.pi / 180)) * Real.cos ((lon - refLon) * (Real.pi / 180)),
      Real.sin ((lon - refLon) * (Real.pi / 180)) * Real.cos (lat * (Real.pi / 180))⟩ : ℂ)
    * (starRingEnd ℂ) ⟨(latlonToXy RC lat lon refLat refLon).2, (latlonToXy RC lat lon refLat refLon).1⟩)

/-- **C17 accuracy clause (bearing).**  For a reference latitude within ±60° and a point whose local distance from
the reference origin is at most 5000 m, the local bearing and the initial great-circle bearing differ by at most
0.1 degree. -/
theorem equirect_bearing_accuracy (lat lon refLat refLon : ℝ) (hlat : |refLat| ≤ 60)
    (hd : Real.sqrt ((latlonToXy RC lat lon refLat refLon).1 ^ 2 + (latlonToXy RC lat lon refLat refLon).2 ^ 2) ≤ 5000) :
    |bearingError lat lon refLat refLon| ≤ 0.1 * (Real.pi / 180) := by
  have hpi := Real.pi_pos
  have hc : 1 / 2 ≤ Real.cos (refLat * (Real.pi / 180)) := by
    have habs : |refLat * (Real.pi / 180)| ≤ Real.pi / 3 := by
      rw [abs_mul, abs_of_pos (by positivity : (0 : ℝ) < Real.pi / 180)]
      nlinarith
    rw [← Real.cos_abs (refLat * (Real.pi / 180)), ← Real.cos_pi_div_three]
    exact Real.cos_le_cos_of_nonneg_of_le_pi (abs_nonneg _) (by linarith) habs
  have hx : (latlonToXy RC lat lon refLat refLon).1
      = 6371000 * (Real.cos (refLat * (Real.pi / 180)) * ((lon - refLon) * (Real.pi / 180))) := by
    simp only [latlonToXy, deg2rad, earthRadius]
    rc_norm
    norm_num; ring
  have hy : (latlonToXy RC lat lon refLat refLon).2 = 6371000 * ((lat - refLat) * (Real.pi / 180)) := by
    simp only [latlonToXy, deg2rad, earthRadius]
    rc_norm
    norm_num; ring
  have hφ1 : lat * (Real.pi / 180) = refLat * (Real.pi / 180) + (lat - refLat) * (Real.pi / 180) := by ring
  unfold bearingError
  rw [hx, hy] at hd ⊢
  rw [hφ1]
  generalize refLat * (Real.pi / 180) = φ₀ at *
  generalize (lat - refLat) * (Real.pi / 180) = a at *
  generalize (lon - refLon) * (Real.pi / 180) = b at *
  have ht0 : 0 ≤ Real.sqrt (a ^ 2 + Real.cos φ₀ ^ 2 * b ^ 2) := Real.sqrt_nonneg _
  have ht : Real.sqrt (a ^ 2 + Real.cos φ₀ ^ 2 * b ^ 2) ^ 2 = a ^ 2 + Real.cos φ₀ ^ 2 * b ^ 2 := Real.sq_sqrt (by positivity)
  have hdt : Real.sqrt ((6371000 * (Real.cos φ₀ * b)) ^ 2 + (6371000 * a) ^ 2)
      = 6371000 * Real.sqrt (a ^ 2 + Real.cos φ₀ ^ 2 * b ^ 2) := by
    have : (6371000 * (Real.cos φ₀ * b)) ^ 2 + (6371000 * a) ^ 2 = 6371000 ^ 2 * (a ^ 2 + Real.cos φ₀ ^ 2 * b ^ 2) := by ring
    rw [this, Real.sqrt_mul (by positivity), Real.sqrt_sq (by norm_num)]
  rw [hdt] at hd
  have hε : Real.sqrt (a ^ 2 + Real.cos φ₀ ^ 2 * b ^ 2) ≤ 8 / 10000 := by linarith
  have core := bearing_core φ₀ a b _ hc ht0 ht hε
  -- scaling the local vector by the earth radius does not change the angle
  have hscale : (starRingEnd ℂ) (⟨6371000 * a, 6371000 * (Real.cos φ₀ * b)⟩ : ℂ)
      = ((6371000 : ℝ) : ℂ) * (starRingEnd ℂ) ⟨a, Real.cos φ₀ * b⟩ := by
    apply Complex.ext <;> simp
  rw [hscale, mul_left_comm, Complex.arg_real_mul _ (by norm_num : (0 : ℝ) < 6371000)]
  have hpi4 := Real.pi_gt_d4
  refine core.trans ?_
  norm_num at hpi4 ⊢
  linarith

end BLDFM.C17
