/-
  C09 (stability functions) — the stability correction is the integral of the flux-gradient function:
  `psi' = (phi_M − 1)/x` with `phi_M = (1 − 16x)^{−1/4}` on the unstable side and `1 + 5x` on the stable side;
  both functions are continuous through neutral stratification.
-/
import Proofs.Lemmas.Spec
import Proofs.Lemmas.Tactics
import Proofs.C09
import Mathlib.Analysis.SpecialFunctions.Pow.Deriv
import Mathlib.Analysis.SpecialFunctions.Log.Deriv
import Mathlib.Analysis.SpecialFunctions.Trigonometric.ArctanDeriv

open BLDFM BLDFM.Spec

namespace BLDFM.C09

/-- the unstable branch as a function of `ξ = (1 − 16x)^{1/4}` -/
noncomputable def Fxi (ξ : ℝ) : ℝ :=
  -2 * Real.log (1 / 2 * (1 + ξ)) - Real.log (1 / 2 * (1 + ξ ^ 2)) + 2 * Real.arctan ξ - 1 / 2 * Real.pi

theorem psi_unstable_eq (x : ℝ) (hx : x ≤ 0) : psi RC x = Fxi ((1 - 16 * x) ^ ((1 : ℝ) / 4)) := by
  have h : ¬ (0.0 : ℝ) < x := by norm_num; exact hx
  simp only [psi, h, if_false, psiUnstable, Fxi]
  rc_norm
  norm_num

theorem Fxi_deriv (ξ : ℝ) (hξ : 0 < ξ) :
    HasDerivAt Fxi (-2 / (1 + ξ) - 2 * ξ / (1 + ξ ^ 2) + 2 / (1 + ξ ^ 2)) ξ := by
  have h1 : HasDerivAt (fun ξ : ℝ => 1 / 2 * (1 + ξ)) (1 / 2) ξ := by
    simpa using ((hasDerivAt_id ξ).const_add 1).const_mul (1 / 2 : ℝ)
  have h1' : (1 / 2 * (1 + ξ)) ≠ 0 := by positivity
  have l1 := (h1.log h1').const_mul (-2 : ℝ)
  have h2 : HasDerivAt (fun ξ : ℝ => 1 / 2 * (1 + ξ ^ 2)) (1 / 2 * (2 * ξ)) ξ := by
    have := ((hasDerivAt_pow 2 ξ).const_add 1).const_mul (1 / 2 : ℝ)
    simpa using this
  have h2' : (1 / 2 * (1 + ξ ^ 2)) ≠ 0 := by positivity
  have l2 := h2.log h2'
  have l3 := (Real.hasDerivAt_arctan ξ).const_mul (2 : ℝ)
  have := ((l1.sub l2).add l3).sub_const (1 / 2 * Real.pi)
  unfold Fxi
  refine this.congr_deriv ?_
  have : (1 + ξ) ≠ 0 := by positivity
  have : (1 + ξ ^ 2) ≠ 0 := by positivity
  field_simp
  try ring

/-- UNSTABLE SIDE: `psi'(x) = (phi_M(x) − 1)/x`, `phi_M = (1 − 16x)^{−1/4}` -/
theorem psi_deriv_unstable (x : ℝ) (hx : x < 0) :
    HasDerivAt (psi RC) (((1 - 16 * x) ^ (-(1 : ℝ) / 4) - 1) / x) x := by
  have hb : 0 < 1 - 16 * x := by linarith
  set ξ := (1 - 16 * x) ^ ((1 : ℝ) / 4) with hξdef
  have hξ : 0 < ξ := Real.rpow_pos_of_pos hb _
  have hξ4 : ξ ^ 4 = 1 - 16 * x := by
    rw [hξdef, ← Real.rpow_natCast, ← Real.rpow_mul hb.le]; norm_num
  -- derivative of ξ(x)
  have hinner : HasDerivAt (fun x : ℝ => 1 - 16 * x) (-16) x := by
    simpa using ((hasDerivAt_id x).const_mul (16 : ℝ)).const_sub 1
  have hξd : HasDerivAt (fun x : ℝ => (1 - 16 * x) ^ ((1 : ℝ) / 4)) (-16 * (1 / 4) * (1 - 16 * x) ^ ((1 : ℝ) / 4 - 1)) x := by
    have := hinner.rpow_const (p := (1 : ℝ) / 4) (Or.inl hb.ne')
    simpa using this
  have hpow : (1 - 16 * x) ^ ((1 : ℝ) / 4 - 1) = ξ / ξ ^ 4 := by
    rw [Real.rpow_sub_one hb.ne', hξ4]
  have hphi : (1 - 16 * x) ^ (-(1 : ℝ) / 4) = ξ⁻¹ := by
    rw [hξdef, ← Real.rpow_neg hb.le]; congr 1; ring
  -- chain rule on a neighbourhood where psi is the unstable branch
  have hcomp : HasDerivAt (fun x : ℝ => Fxi ((1 - 16 * x) ^ ((1 : ℝ) / 4)))
      ((-2 / (1 + ξ) - 2 * ξ / (1 + ξ ^ 2) + 2 / (1 + ξ ^ 2)) * (-16 * (1 / 4) * (1 - 16 * x) ^ ((1 : ℝ) / 4 - 1))) x :=
    HasDerivAt.comp (h₂ := Fxi) x (Fxi_deriv ξ hξ) hξd
  have hev : (psi RC) =ᶠ[nhds x] (fun x : ℝ => Fxi ((1 - 16 * x) ^ ((1 : ℝ) / 4))) := by
    have : ∀ᶠ y in nhds x, y < 0 := eventually_lt_nhds hx
    filter_upwards [this] with y hy
    exact psi_unstable_eq y hy.le
  refine (hcomp.congr_of_eventuallyEq hev).congr_deriv ?_
  rw [hpow, hphi]
  have hx16 : x = (1 - ξ ^ 4) / 16 := by linarith
  have h1 : (1 + ξ) ≠ 0 := by positivity
  have h2 : (1 + ξ ^ 2) ≠ 0 := by positivity
  have h3 : ξ ≠ 0 := hξ.ne'
  have hx0 : (1 - ξ ^ 4) ≠ 0 := by rw [← hξ4] at hb; nlinarith
  rw [hx16]
  field_simp
  ring

/-- STABLE SIDE: `psi'(x) = 5 = (phi(x) − 1)/x`, `phi = 1 + 5x` -/
theorem psi_deriv_stable (x : ℝ) (hx : 0 < x) : HasDerivAt (psi RC) ((phi RC x - 1) / x) x := by
  have hphi : phi RC x = 1 + 5 * x := by
    have : (0.0 : ℝ) < x := by norm_num; exact hx
    simp only [phi, this, if_true]; norm_num
  have hval : (phi RC x - 1) / x = 5 := by rw [hphi]; field_simp; ring
  rw [hval]
  have hev : (psi RC) =ᶠ[nhds x] (fun y : ℝ => 5 * y) := by
    have : ∀ᶠ y in nhds x, 0 < y := eventually_gt_nhds hx
    filter_upwards [this] with y hy
    have : (0.0 : ℝ) < y := by norm_num; exact hy
    simp only [psi, this, if_true]; norm_num
  have : HasDerivAt (fun y : ℝ => 5 * y) 5 x := by simpa using (hasDerivAt_id x).const_mul (5 : ℝ)
  exact this.congr_of_eventuallyEq hev

/-- continuity through neutral stratification -/
theorem psi_continuousAt_zero : ContinuousAt (psi RC) 0 := by
  have hF : ContinuousAt (fun x : ℝ => Fxi ((1 - 16 * x) ^ ((1 : ℝ) / 4))) 0 := by
    have hb : ContinuousAt (fun x : ℝ => (1 - 16 * x) ^ ((1 : ℝ) / 4)) 0 := by
      apply ContinuousAt.rpow_const
      · fun_prop
      · left; norm_num
    have hv : (1 - 16 * (0 : ℝ)) ^ ((1 : ℝ) / 4) = 1 := by norm_num
    have hFc : ContinuousAt Fxi 1 := (Fxi_deriv 1 (by norm_num)).continuousAt
    have := ContinuousAt.comp (g := Fxi) (f := fun x : ℝ => (1 - 16 * x) ^ ((1 : ℝ) / 4)) (x := 0) (by rw [hv]; exact hFc) hb
    exact this
  have hlin : ContinuousAt (fun x : ℝ => 5 * x) 0 := by fun_prop
  have h0 : Fxi ((1 - 16 * (0 : ℝ)) ^ ((1 : ℝ) / 4)) = 0 := by
    rw [← psi_unstable_eq 0 le_rfl]; exact psi_zero
  rw [ContinuousAt, psi_zero]
  rw [Metric.tendsto_nhds]
  intro ε hε
  have hF' : Filter.Tendsto (fun x : ℝ => Fxi ((1 - 16 * x) ^ ((1 : ℝ) / 4))) (nhds 0) (nhds 0) := by
    have := hF.tendsto
    rwa [h0] at this
  have e1 := (Metric.tendsto_nhds.mp hF') ε hε
  have e2 := (Metric.tendsto_nhds.mp (by simpa [ContinuousAt] using hlin)) ε hε
  filter_upwards [e1, e2] with y h1 h2
  by_cases hy : 0 < y
  · have : (0.0 : ℝ) < y := by norm_num; exact hy
    have hp : psi RC y = 5 * y := by simp only [psi, this, if_true]; norm_num
    rw [hp]; simpa using h2
  · rw [psi_unstable_eq y (not_lt.mp hy)]; exact h1

theorem phi_continuousAt_zero : ContinuousAt (phi RC) 0 := by
  have hF : ContinuousAt (fun x : ℝ => (1 - 16 * x) ^ (-(1 : ℝ) / 2)) 0 := by
    apply ContinuousAt.rpow_const
    · fun_prop
    · left; norm_num
  have hlin : ContinuousAt (fun x : ℝ => 1 + 5 * x) 0 := by fun_prop
  rw [ContinuousAt, phi_zero]
  rw [Metric.tendsto_nhds]
  intro ε hε
  have e1 := (Metric.tendsto_nhds.mp (by simpa [ContinuousAt] using hF)) ε hε
  have e2 := (Metric.tendsto_nhds.mp (by simpa [ContinuousAt] using hlin)) ε hε
  filter_upwards [e1, e2] with y h1 h2
  by_cases hy : 0 < y
  · have : (0.0 : ℝ) < y := by norm_num; exact hy
    have hp : phi RC y = 1 + 5 * y := by simp only [phi, this, if_true]; norm_num
    rw [hp]; simpa using h2
  · have : ¬ (0.0 : ℝ) < y := by norm_num; exact not_lt.mp hy
    have hp : phi RC y = (1 - 16 * y) ^ (-(1 : ℝ) / 2) := by
      simp only [phi, this, if_false]; rc_norm; norm_num
    rw [hp]; exact h1

end BLDFM.C09
