/-
  C18 — NetCDF export/import keeps every label attached to its data (placement bijection):
  every (time, tower) cell of the dataset holds that tower's and that step's fields; selecting by
  name / label returns them; per-step met values and per-tower metadata are the right ones.
  Byte fidelity through netCDF4 + zlib + xarray is observed (partial), not proved.
-/
import BLDFM
import Mathlib.Data.List.Nodup
import Mathlib.Tactic.Ring

open BLDFM

namespace BLDFM.C18

/-- placement: the dataset cell `(t, ti)` holds the arrays of result `t` of the `ti`-th tower, for all
tower and step counts and every cell of 2-D or 3-D fields -/
theorem roundtrip_fields (results : List (V × List NcResult)) (towers : List NcTower)
    (ti t : ℕ) (hti : ti < results.length) (ht : t < (results[ti]).2.length) (c : ℕ) :
    (ncSave results towers).footprint t ti c = ((results[ti]).2[t]).flx c ∧
    (ncSave results towers).concentration t ti c = ((results[ti]).2[t]).conc c := by
  simp only [ncSave]
  have h1 : results.getD ti (0, []) = results[ti] := by simp [List.getD, hti]
  have h2 : (results[ti]).2.getD t NcResult.dflt = (results[ti]).2[t] := by simp [List.getD, ht]
  rw [h1, h2]
  exact ⟨rfl, rfl⟩

/-- the tower coordinate lists the result keys in order; the time coordinate the first tower's timestamps -/
theorem labels (results : List (V × List NcResult)) (towers : List NcTower) :
    (ncSave results towers).towerLabels = results.map (fun p => p.1) ∧
    (∀ n s rest, results = (n, s) :: rest → (ncSave results towers).timeLabels = s.map (fun r => r.timestamp)) := by
  constructor
  · rfl
  · intro n s rest h; subst h; rfl

/-- selecting a tower by name returns exactly that tower's fields (names distinct) -/
theorem sel_by_name (results : List (V × List NcResult)) (towers : List NcTower)
    (hnd : (results.map (fun p => p.1)).Nodup) (ti : ℕ) (hti : ti < results.length) :
    (ncSave results towers).selTower (results[ti]).1 = some ti := by
  have hlen : (results.map (fun p => p.1)).length = results.length := by simp
  have hget : (results.map (fun p => p.1))[ti]'(by rw [hlen]; exact hti) = (results[ti]).1 := by simp
  have hidx : (results.map (fun p => p.1)).idxOf (results[ti]).1 = ti := by
    have := List.get_idxOf hnd ⟨ti, by rw [hlen]; exact hti⟩
    simpa [hget] using this
  simp only [NcDataset.selTower, ncSave, hidx, hlen, hti, if_true]

/-- selecting a step by its label returns exactly that step (labels distinct — integer default
timestamps always are) -/
theorem sel_by_time (n : V) (s : List NcResult) (rest : List (V × List NcResult)) (towers : List NcTower)
    (hnd : (s.map (fun r => r.timestamp)).Nodup) (t : ℕ) (ht : t < s.length) :
    (ncSave ((n, s) :: rest) towers).selTime (s[t]).timestamp = some t := by
  have hlen : (s.map (fun r => r.timestamp)).length = s.length := by simp
  have hget : (s.map (fun r => r.timestamp))[t]'(by rw [hlen]; exact ht) = (s[t]).timestamp := by simp
  have hidx : (s.map (fun r => r.timestamp)).idxOf (s[t]).timestamp = t := by
    have := List.get_idxOf hnd ⟨t, by rw [hlen]; exact ht⟩
    simpa [hget] using this
  simp only [NcDataset.selTime, ncSave, hidx, hlen, ht, if_true]

/-- tower metadata: if the result keys are the configuration's tower names in configuration order (what
the drivers return, C14) then latitude, longitude and height stored for a name are that tower's own -/
theorem tower_metadata_attached (results : List (V × List NcResult)) (towers : List NcTower)
    (hkeys : results.map (fun p => p.1) = towers.map (fun t => t.name))
    (ti : ℕ) (hti : ti < towers.length) :
    ∃ tw, towers[ti]? = some tw ∧ (ncSave results towers).towerLabels[ti]? = some tw.name ∧
      (ncSave results towers).towerLat ti = some tw.lat ∧ (ncSave results towers).towerLon ti = some tw.lon ∧
      (ncSave results towers).towerZ ti = some tw.zm := by
  refine ⟨towers[ti], by simp [hti], ?_, ?_, ?_, ?_⟩
  · simp only [ncSave, hkeys]; simp [hti]
  · simp [ncSave, hti]
  · simp [ncSave, hti]
  · simp [ncSave, hti]

/-- per-step meteorological values are those of step `t` (taken from the first tower; `none`, stored as
NaN, when the forcing is given by roughness length) -/
theorem met_values (n : V) (s : List NcResult) (rest : List (V × List NcResult)) (towers : List NcTower)
    (t : ℕ) (ht : t < s.length) :
    let ds := ncSave ((n, s) :: rest) towers
    ds.ustar t = (s[t]).ustar ∧ ds.mol t = (s[t]).mol ∧ ds.windSpeed t = (s[t]).windSpeed ∧ ds.windDir t = (s[t]).windDir := by
  have h2 : s.getD t NcResult.dflt = s[t] := by simp [List.getD, ht]
  simp only [ncSave, List.getD_cons_zero, h2]
  simp

/-! non-vacuity: two towers, two steps -/
example : (ncSave [(7, [{ NcResult.dflt with timestamp := 1, flx := fun c => 10 + c }, { NcResult.dflt with timestamp := 2 }]),
    (8, [{ NcResult.dflt with flx := fun c => 30 + c }, NcResult.dflt])] []).footprint 0 1 2 = 32 := rfl

end BLDFM.C18
