/-
  C10 — slice k of a multi-level request is the solution at level `levels[k]`:
  the array a single-level request for that level returns, the corresponding slice
  of a full-column request, labelled with that level's height; any order, repeats,
  top node, numeric and analytic, footprint and dispersion (the whole pipeline).
-/
import Proofs.Lemmas.Spec
import Proofs.Lemmas.Tactics

open BLDFM BLDFM.Spec

namespace BLDFM.C10

/-- the derived geometry, the source spectrum and the argument checks other than the
level range do not depend on which levels are requested -/
theorem geom_indep_levels (req : SolveReq ℝ) (lv : List ℕ) :
    geom RC { req with levels := lv } = geom RC req := rfl

theorem fieldsAt_indep_levels (req : SolveReq ℝ) (lv : List ℕ) (g : Geom ℝ) (S : ℕ → ℕ → ℂ) (l : ℕ) :
    fieldsAt RC { req with levels := lv } g S l = fieldsAt RC req g S l := rfl

theorem srcSpectrum_indep_levels (req : SolveReq ℝ) (lv : List ℕ) (g : Geom ℝ) :
    srcSpectrum RC { req with levels := lv } g = srcSpectrum RC req g := rfl

/-- slice `k` of any request (any order, repeats allowed) = slice 0 of the
single-level request for `levels[k]`; the height label is that level's height -/
theorem slices_by_level (req : SolveReq ℝ) (k : ℕ) (hk : k < req.levels.length) :
    let one := solveOk RC { req with levels := [req.levels[k]] }
    let all := solveOk RC req
    (∀ j i, all.conc k j i = one.conc 0 j i) ∧ (∀ j i, all.flx k j i = one.flx 0 j i) ∧
      all.Z k = one.Z 0 ∧ all.Z k = req.z (req.levels[k]) := by
  have hget : req.levels.toArray.getD k 0 = req.levels[k] := by
    simp [Array.getD, hk]
  simp only [solveOk, Tab1.get_tab, hget]
  refine ⟨fun j i => ?_, fun j i => ?_, ?_, ?_⟩ <;> first | rfl | trivial | simp

/-- … and equals slice `levels[k]` of the full-column request `0, 1, …, nz-1` -/
theorem full_column_slice (req : SolveReq ℝ) (k : ℕ) (hk : k < req.levels.length)
    (hin : req.levels[k] < req.nz) :
    let col := solveOk RC { req with levels := List.range req.nz }
    let all := solveOk RC req
    (∀ j i, all.conc k j i = col.conc (req.levels[k]) j i) ∧
      (∀ j i, all.flx k j i = col.flx (req.levels[k]) j i) ∧ all.Z k = col.Z (req.levels[k]) := by
  have hget : req.levels.toArray.getD k 0 = req.levels[k] := by
    simp [Array.getD, hk]
  have hget2 : (List.range req.nz).toArray.getD (req.levels[k]) 0 = req.levels[k] := by
    simp [Array.getD, hin]
  simp only [solveOk, Tab1.get_tab, hget, hget2]
  refine ⟨fun j i => ?_, fun j i => ?_, ?_⟩ <;> first | rfl | trivial | simp

/-- the number of returned slices is the number of requested levels -/
theorem slice_count (req : SolveReq ℝ) : (solveOk RC req).nlv = req.levels.length := by
  simp [solveOk]

/-- a request is rejected (IndexError class) exactly when some level is beyond the top
node, provided modes and precision are valid; otherwise it returns -/
theorem level_range_checked (req : SolveReq ℝ) (hm : req.nlx % 2 = 0 ∧ req.nly % 2 = 0)
    (hp : req.precision ≠ .bad) :
    (solveErr req = some .indexError ↔ ∃ l ∈ req.levels, req.nz ≤ l) ∧
    (solveErr req = none ↔ ∀ l ∈ req.levels, l < req.nz) := by
  have h1 : ¬(req.nlx % 2 > 0 ∨ req.nly % 2 > 0) := by omega
  simp only [solveErr, h1, if_false, hp]
  by_cases h : req.levels.any (fun l => decide (l ≥ req.nz)) = true
  · simp only [h, if_true]
    have := List.any_eq_true.mp h
    constructor
    · simp only [true_iff]
      obtain ⟨l, hl, hd⟩ := this
      exact ⟨l, hl, by simpa using hd⟩
    · simp only [reduceCtorEq, false_iff, not_forall]
      obtain ⟨l, hl, hd⟩ := this
      exact ⟨l, hl, by simpa using hd⟩
  · simp only [h]
    have hn : ∀ l ∈ req.levels, l < req.nz := by
      intro l hl
      by_contra hc
      exact h (List.any_eq_true.mpr ⟨l, hl, by simpa using hc⟩)
    constructor
    · simp only [Bool.false_eq_true, if_false, reduceCtorEq, false_iff, not_exists, not_and, not_le]
      exact hn
    · simp only [Bool.false_eq_true, if_false, true_iff]
      exact hn

/-! non-vacuity: an unsorted list with a repeat -/
example : ([2, 0, 2] : List ℕ)[1] = 0 ∧ (1 : ℕ) < ([2, 0, 2] : List ℕ).length := by decide

end BLDFM.C10
