/-
  C01 — "… and a decaying constant-coefficient continuation above the top node."

  The solver closes the column with `Q = Kz_top · λ · P` at the top node (`column_top_condition`), `λ` the principal
  root with `λ² = -T_top / Kz_top` (`eigval_sq`).  This file identifies that algebraic condition with the property's
  wording: above the top node, with the coefficients frozen at their top-node values, the column equations
      P' = -Q / Kz,    Q' = T · P
  have a two-dimensional solution space spanned by `e^{-λ z}` and `e^{+λ z}`; for `Re λ > 0`

    * `growing_component`     : `Q - Kz λ P` is exactly the amplitude of the growing mode, `w(z) = w(z₀) e^{λ (z - z₀)}`;
    * `bounded_iff_top_condition` : a solution stays bounded above `z_N`  ⇔  `Q(z_N) = Kz λ P(z_N)`;
    * `continuation_decays`   : and then it IS the decaying one, `P(z) = P(z_N) e^{-λ (z - z_N)}`, `Q = Kz λ P`,
                                 with `‖P(z)‖ = ‖P(z_N)‖ e^{-Re λ (z - z_N)} → 0`;
    * `column_continuation_decays` : assembled for the returned column of the model (`columnNum`) with the model's own
                                 `eigval` and `Tcoef`.

  So the top condition the code imposes is not merely "some" closure: it selects the unique continuation of the
  computed column that does not blow up with height.
-/
import Proofs.C01
import Mathlib.Analysis.Calculus.MeanValue
import Mathlib.Analysis.SpecialFunctions.ExpDeriv
import Mathlib.Analysis.SpecialFunctions.Exponential

open BLDFM BLDFM.Spec

namespace BLDFM.C01

/-- a solution of the frozen-coefficient column equations on the whole line -/
structure FrozenSol (Kz : ℝ) (T : ℂ) (P Q : ℝ → ℂ) : Prop where
  dP : ∀ z, HasDerivAt P (-(Q z) / (Kz : ℂ)) z
  dQ : ∀ z, HasDerivAt Q (T * P z) z

private lemma hasDerivAt_cexp_lin (c : ℂ) (z : ℝ) :
    HasDerivAt (fun z : ℝ => Complex.exp (c * (z : ℂ))) (Complex.exp (c * (z : ℂ)) * c) z := by
  have h1 : HasDerivAt (fun z : ℝ => c * (z : ℂ)) c z := by
    simpa using ((Complex.ofRealCLM.hasDerivAt (x := z)).const_mul c)
  exact (Complex.hasDerivAt_exp _).comp z h1

/-- a function whose product with `e^{-c z}` has zero derivative is a multiple of `e^{c z}` -/
private lemma exp_ode_unique (c : ℂ) (w : ℝ → ℂ) (hw : ∀ z, HasDerivAt w (c * w z) z) (z0 z : ℝ) :
    w z = w z0 * Complex.exp (c * ((z - z0 : ℝ) : ℂ)) := by
  set g : ℝ → ℂ := fun z => w z * Complex.exp (-c * (z : ℂ)) with hg
  have hgd : ∀ z, HasDerivAt g 0 z := by
    intro z
    have := (hw z).mul (hasDerivAt_cexp_lin (-c) z)
    refine this.congr_deriv ?_
    ring
  have hconst : ∀ a b, g a = g b :=
    is_const_of_deriv_eq_zero (fun z => (hgd z).differentiableAt) (fun z => (hgd z).deriv)
  have h := hconst z z0
  simp only [hg] at h
  have hne : Complex.exp (-c * (z : ℂ)) ≠ 0 := Complex.exp_ne_zero _
  have : w z = w z0 * (Complex.exp (-c * (z0 : ℂ)) / Complex.exp (-c * (z : ℂ))) := by
    rw [← mul_div_assoc, ← h, mul_div_assoc, div_self hne, mul_one]
  rw [this, ← Complex.exp_sub]
  congr 2
  push_cast; ring

/-- the combination `Q - Kz λ P` is the amplitude of the growing mode -/
theorem growing_component (Kz : ℝ) (T μ : ℂ) (hKz : (Kz : ℂ) ≠ 0) (hμ : μ ^ 2 = -T / (Kz : ℂ))
    (P Q : ℝ → ℂ) (h : FrozenSol Kz T P Q) (z0 z : ℝ) :
    Q z - (Kz : ℂ) * μ * P z = (Q z0 - (Kz : ℂ) * μ * P z0) * Complex.exp (μ * ((z - z0 : ℝ) : ℂ)) := by
  have hT : T = -(Kz : ℂ) * μ ^ 2 := by rw [hμ]; field_simp
  apply exp_ode_unique μ (fun z => Q z - (Kz : ℂ) * μ * P z)
  intro z
  have := (h.dQ z).sub ((h.dP z).const_mul ((Kz : ℂ) * μ))
  refine this.congr_deriv ?_
  rw [hT]; field_simp; ring

/-- the complementary combination `Q + Kz λ P` is the amplitude of the decaying mode -/
theorem decaying_component (Kz : ℝ) (T μ : ℂ) (hKz : (Kz : ℂ) ≠ 0) (hμ : μ ^ 2 = -T / (Kz : ℂ))
    (P Q : ℝ → ℂ) (h : FrozenSol Kz T P Q) (z0 z : ℝ) :
    Q z + (Kz : ℂ) * μ * P z = (Q z0 + (Kz : ℂ) * μ * P z0) * Complex.exp (-μ * ((z - z0 : ℝ) : ℂ)) := by
  have hT : T = -(Kz : ℂ) * μ ^ 2 := by rw [hμ]; field_simp
  apply exp_ode_unique (-μ) (fun z => Q z + (Kz : ℂ) * μ * P z)
  intro z
  have := (h.dQ z).add ((h.dP z).const_mul ((Kz : ℂ) * μ))
  refine this.congr_deriv ?_
  rw [hT]; field_simp; ring

/-- with the top condition the continuation is the decaying exponential -/
theorem continuation_decays (Kz : ℝ) (T μ : ℂ) (hKz : (Kz : ℂ) ≠ 0) (hμ0 : μ ≠ 0) (hμ : μ ^ 2 = -T / (Kz : ℂ))
    (P Q : ℝ → ℂ) (h : FrozenSol Kz T P Q) (zN : ℝ) (htop : Q zN = (Kz : ℂ) * μ * P zN) (z : ℝ) :
    Q z = (Kz : ℂ) * μ * P z ∧ P z = P zN * Complex.exp (-μ * ((z - zN : ℝ) : ℂ))
      ∧ ‖P z‖ = ‖P zN‖ * Real.exp (-μ.re * (z - zN)) := by
  have hg := growing_component Kz T μ hKz hμ P Q h zN z
  rw [htop, sub_self, zero_mul, sub_eq_zero] at hg
  have hd := decaying_component Kz T μ hKz hμ P Q h zN z
  rw [hg, htop] at hd
  have hP : P z = P zN * Complex.exp (-μ * ((z - zN : ℝ) : ℂ)) := by
    have h2 : (2 * ((Kz : ℂ) * μ)) * P z = (2 * ((Kz : ℂ) * μ)) * (P zN * Complex.exp (-μ * ((z - zN : ℝ) : ℂ))) := by
      linear_combination hd
    exact mul_left_cancel₀ (mul_ne_zero two_ne_zero (mul_ne_zero hKz hμ0)) h2
  refine ⟨hg, hP, ?_⟩
  rw [hP, norm_mul, Complex.norm_exp]
  congr 2
  simp [Complex.mul_re]

/-- **the top condition is exactly boundedness of the continuation**: a solution of the frozen-coefficient column
equations stays bounded above the top node iff `Q = Kz λ P` there (`Re λ > 0`) -/
theorem bounded_iff_top_condition (Kz : ℝ) (T μ : ℂ) (hKz : (Kz : ℂ) ≠ 0) (hre : 0 < μ.re) (hμ : μ ^ 2 = -T / (Kz : ℂ))
    (P Q : ℝ → ℂ) (h : FrozenSol Kz T P Q) (zN : ℝ) :
    (∃ B : ℝ, ∀ z ≥ zN, ‖P z‖ ≤ B ∧ ‖Q z‖ ≤ B) ↔ Q zN = (Kz : ℂ) * μ * P zN := by
  have hμ0 : μ ≠ 0 := by
    intro h0; rw [h0] at hre; simp at hre
  constructor
  · rintro ⟨B, hB⟩
    by_contra hne
    set w0 : ℂ := Q zN - (Kz : ℂ) * μ * P zN with hw0
    have hw0ne : w0 ≠ 0 := sub_ne_zero.2 hne
    have hw0pos : 0 < ‖w0‖ := norm_pos_iff.2 hw0ne
    -- bound on the growing amplitude from the bound on P, Q
    set C : ℝ := B + ‖(Kz : ℂ) * μ‖ * B with hC
    have hbound : ∀ z ≥ zN, ‖w0‖ * Real.exp (μ.re * (z - zN)) ≤ C := by
      intro z hz
      have hg := growing_component Kz T μ hKz hμ P Q h zN z
      have hn : ‖Q z - (Kz : ℂ) * μ * P z‖ = ‖w0‖ * Real.exp (μ.re * (z - zN)) := by
        rw [hg, norm_mul, Complex.norm_exp]
        congr 2
        simp [Complex.mul_re]
      rw [← hn]
      calc ‖Q z - (Kz : ℂ) * μ * P z‖ ≤ ‖Q z‖ + ‖(Kz : ℂ) * μ * P z‖ := norm_sub_le _ _
        _ = ‖Q z‖ + ‖(Kz : ℂ) * μ‖ * ‖P z‖ := by rw [norm_mul]
        _ ≤ B + ‖(Kz : ℂ) * μ‖ * B := by
            have := hB z hz
            gcongr
            · exact this.2
            · exact this.1
    have hB0 : 0 ≤ B := le_trans (norm_nonneg _) (hB zN le_rfl).1
    have hC0 : 0 ≤ C := by
      have : 0 ≤ ‖(Kz : ℂ) * μ‖ * B := mul_nonneg (norm_nonneg _) hB0
      linarith
    -- choose z with exp(Re μ (z - zN)) > C / ‖w0‖
    set x : ℝ := C / ‖w0‖ with hx
    have hx0 : 0 ≤ x := div_nonneg hC0 hw0pos.le
    have hz : zN + x / μ.re ≥ zN := by
      have : 0 ≤ x / μ.re := div_nonneg hx0 hre.le
      linarith
    have h1 := hbound (zN + x / μ.re) hz
    have h2 : μ.re * (zN + x / μ.re - zN) = x := by field_simp; ring
    rw [h2] at h1
    have h3 : x + 1 ≤ Real.exp x := Real.add_one_le_exp x
    have h4 : ‖w0‖ * (x + 1) ≤ C := le_trans (mul_le_mul_of_nonneg_left h3 hw0pos.le) h1
    have h5 : ‖w0‖ * x = C := by rw [hx]; field_simp
    nlinarith
  · intro htop
    refine ⟨‖P zN‖ + ‖(Kz : ℂ) * μ‖ * ‖P zN‖, fun z hz => ?_⟩
    obtain ⟨hQ, -, hn⟩ := continuation_decays Kz T μ hKz hμ0 hμ P Q h zN htop z
    have hexp : Real.exp (-μ.re * (z - zN)) ≤ 1 := by
      rw [Real.exp_le_one_iff]
      have : 0 ≤ μ.re * (z - zN) := mul_nonneg hre.le (sub_nonneg.2 hz)
      linarith
    have hPle : ‖P z‖ ≤ ‖P zN‖ := by
      rw [hn]; exact mul_le_of_le_one_right (norm_nonneg _) hexp
    have hk : 0 ≤ ‖(Kz : ℂ) * μ‖ * ‖P zN‖ := mul_nonneg (norm_nonneg _) (norm_nonneg _)
    constructor
    · linarith
    · rw [hQ, norm_mul]
      have : ‖(Kz : ℂ) * μ‖ * ‖P z‖ ≤ ‖(Kz : ℂ) * μ‖ * ‖P zN‖ := mul_le_mul_of_nonneg_left hPle (norm_nonneg _)
      linarith [norm_nonneg (P zN)]

/-- the model's eigenvalue is a root of `λ² = -T_top / Kz_top` with the model's own horizontal operator -/
theorem eigval_sq_Tcoef (Pr : Profiles ℝ) (top : ℕ) (Lx Ly : ℝ) :
    (eigval RC Pr top Lx Ly) ^ 2 = -(Tcoef RC Pr Lx Ly top) / ((Pr.Kz top : ℝ) : ℂ) := by
  rw [eigval_sq]
  simp only [Tcoef, RC]
  push_cast
  ring

/-- **assembled**: any frozen-coefficient continuation of the returned column above the top node — i.e. any solution of
`P' = -Q/Kz_top`, `Q' = T_top P` that starts from the column's top-node values — decays like `e^{-Re λ (z - z_N)}` -/
theorem column_continuation_decays (Pr : Profiles ℝ) (zg : ℕ → ℝ) (top : ℕ) (Lx Ly : ℝ) (qh : ℂ)
    (hden : shootDen Pr zg top Lx Ly ≠ 0) (hKz : Pr.Kz top ≠ 0) (hre : 0 < (eigval RC Pr top Lx Ly).re)
    (P Q : ℝ → ℂ) (h : FrozenSol (Pr.Kz top) (Tcoef RC Pr Lx Ly top) P Q)
    (hP0 : P (zg top) = (columnNum RC Pr zg top Lx Ly qh top).1)
    (hQ0 : Q (zg top) = (columnNum RC Pr zg top Lx Ly qh top).2) (z : ℝ) :
    ‖P z‖ = ‖(columnNum RC Pr zg top Lx Ly qh top).1‖ * Real.exp (-(eigval RC Pr top Lx Ly).re * (z - zg top))
      ∧ Q z = ((Pr.Kz top : ℝ) : ℂ) * eigval RC Pr top Lx Ly * P z := by
  have hKz' : ((Pr.Kz top : ℝ) : ℂ) ≠ 0 := by exact_mod_cast hKz
  have hμ0 : eigval RC Pr top Lx Ly ≠ 0 := by
    intro h0; rw [h0] at hre; simp at hre
  have htop : Q (zg top) = ((Pr.Kz top : ℝ) : ℂ) * eigval RC Pr top Lx Ly * P (zg top) := by
    rw [hP0, hQ0]
    exact column_top_condition Pr zg top Lx Ly qh hden
  obtain ⟨hQ, -, hn⟩ := continuation_decays (Pr.Kz top) _ _ hKz' hμ0 (eigval_sq_Tcoef Pr top Lx Ly) P Q h (zg top) htop z
  exact ⟨by rw [hn, hP0], hQ⟩

/-- non-vacuity: the decaying exponential pair is a `FrozenSol`, and it meets the top condition -/
example (Kz : ℝ) (μ : ℂ) (hKz : (Kz : ℂ) ≠ 0) (hμ0 : μ ≠ 0) :
    FrozenSol Kz (-(Kz : ℂ) * μ ^ 2) (fun z => Complex.exp (-μ * (z : ℂ)) / ((Kz : ℂ) * μ))
      (fun z => Complex.exp (-μ * (z : ℂ))) := by
  constructor
  · intro z
    refine ((hasDerivAt_cexp_lin (-μ) z).div_const _).congr_deriv ?_
    field_simp
  · intro z
    refine (hasDerivAt_cexp_lin (-μ) z).congr_deriv ?_
    field_simp

end BLDFM.C01
