/-
  C14 — timeseries, multi-tower and parallel drivers return, for every tower and step, the
  corresponding single run: for every parallel strategy, every schedule (completion order and
  worker assignment), every worker count.
-/
import BLDFM
import Proofs.C12
import Mathlib.Data.List.Basic
import Mathlib.Tactic.Ring
import Mathlib.Tactic.Linarith

open BLDFM

namespace BLDFM.C14

variable {α β : Type}

/-- the slot array after processing a schedule prefix: slot `i` holds the result of task `i` iff
task `i` has completed -/
theorem fold_slots (f : α → β) (tasks : List α) (sched : List ℕ) (slots : List (Option β))
    (hlen : slots.length = tasks.length) (i : ℕ) (hi : i < tasks.length) :
    (sched.foldl (poolStep f tasks) slots)[i]? =
      if i ∈ sched then some (some (f tasks[i])) else slots[i]? := by
  induction sched generalizing slots with
  | nil => simp
  | cons j js ih =>
    simp only [List.foldl_cons, poolStep]
    by_cases hj : j < tasks.length
    · have htj : tasks[j]? = some tasks[j] := List.getElem?_eq_getElem hj
      simp only [htj]
      rw [ih (slots.set j (some (f tasks[j]))) (by simp [hlen])]
      by_cases hmem : i ∈ js
      · simp [hmem]
      · simp only [hmem, if_false, List.mem_cons]
        by_cases hij : i = j
        · subst hij
          simp [List.getElem?_set, hlen, hi]
        · have : j ≠ i := fun h => hij h.symm
          simp [List.getElem?_set, this, hij]
    · have htj : tasks[j]? = none := List.getElem?_eq_none (by omega)
      simp only [htj]
      rw [ih slots hlen]
      have : i ≠ j := by omega
      simp [List.mem_cons, this]

/-- `Executor.map` semantics: for EVERY schedule in which every task completes (any completion order,
any assignment to any number of workers, repeats allowed), the results come back in submission order
and each is `f` of its own task -/
theorem poolMap_eq_map (f : α → β) (tasks : List α) (sched : List ℕ)
    (hall : ∀ i, i < tasks.length → i ∈ sched) :
    poolMap f tasks sched = tasks.map (fun t => some (f t)) := by
  apply List.ext_getElem?
  intro i
  simp only [poolMap]
  by_cases hi : i < tasks.length
  · rw [fold_slots f tasks sched _ (by simp) i hi]
    simp [hall i hi, hi]
  · have h1 : (tasks.map (fun t => some (f t)))[i]? = none := List.getElem?_eq_none (by simp; omega)
    rw [h1]
    apply List.getElem?_eq_none
    have : ∀ (sched : List ℕ) (slots : List (Option β)), slots.length = tasks.length →
        (sched.foldl (poolStep f tasks) slots).length = tasks.length := by
      intro sched
      induction sched with
      | nil => intro slots h; simpa using h
      | cons j js ih =>
        intro slots h
        simp only [List.foldl_cons]
        apply ih
        unfold poolStep
        split
        · simp [h]
        · exact h
    rw [this sched _ (by simp)]
    omega

/-- strategy "both": regrouping the flattened `(tower, step)` list by `n_time` returns the nested one,
for every number of towers and steps -/
theorem regroup_flatten (nTime : ℕ) (ls : List (List β)) (h : ∀ l ∈ ls, l.length = nTime) :
    regroup nTime ls.flatten ls.length = ls := by
  induction ls with
  | nil => rfl
  | cons l ls ih =>
    have hl : l.length = nTime := h l (List.mem_cons_self)
    simp only [List.flatten_cons, List.length_cons, regroup]
    rw [← hl, List.take_left, List.drop_left]
    rw [hl, ih (fun l' hl' => h l' (List.mem_cons_of_mem _ hl'))]

/-- the result of a pool task does not depend on the state the worker inherited from the parent
(C12: the workers' reset is canonical) -/
theorem worker_state_irrelevant (parent parent' : RtState) (r : RtSolve) :
    solveOut (rtStep parent .workerReset).1 r = solveOut (rtStep parent' .workerReset).1 r := by
  rw [C12.worker_solve_eq_fresh, C12.worker_solve_eq_fresh]

/-- timeseries = the single runs, listed in time order, one per step -/
theorem timeseries_eq_singles (dom : DomainCfg) (sol : SolverCfg) (met : MetCfg) (tower : TowerCfg)
    (flux cache : Option V) :
    runTimeseries dom sol met tower flux cache =
      (List.range met.nTimesteps).map (fun i => runSingle dom sol met tower i flux cache) ∧
    (runTimeseries dom sol met tower flux cache).length = met.nTimesteps := by
  simp [runTimeseries]

/-- multi-tower = for every tower, in configuration order, its name and its time series -/
theorem multitower_eq_singles (dom : DomainCfg) (sol : SolverCfg) (met : MetCfg) (towers : List TowerCfg)
    (flux cache : Option V) (k : ℕ) (hk : k < towers.length) :
    (runMultitower dom sol met towers flux cache)[k]? =
      some (towers[k].name, runTimeseries dom sol met towers[k] flux cache) := by
  simp [runMultitower, hk]

/-- parallel strategy "time"/"both"/"towers": every pool result equals the serial one for any
schedule; with "both", flatten + pool + regroup is the identity on the nested serial result -/
theorem parallel_both_eq_multitower (dom : DomainCfg) (sol : SolverCfg) (met : MetCfg) (towers : List TowerCfg)
    (sched : List ℕ)
    (hall : ∀ i, i < (towers.flatMap (fun t => (List.range met.nTimesteps).map (fun i => (t, i)))).length → i ∈ sched) :
    let tasks := towers.flatMap (fun t => (List.range met.nTimesteps).map (fun i => (t, i)))
    let flat := poolMap (fun (p : TowerCfg × ℕ) => runSingle dom sol met p.1 p.2 none none) tasks sched
    regroup met.nTimesteps flat towers.length =
      towers.map (fun t => (runTimeseries dom sol met t none none).map some) := by
  intro tasks flat
  have hflat : flat = tasks.map (fun p => some (runSingle dom sol met p.1 p.2 none none)) :=
    poolMap_eq_map _ tasks sched hall
  rw [hflat]
  have hnest : tasks.map (fun p => some (runSingle dom sol met p.1 p.2 none none))
      = (towers.map (fun t => (runTimeseries dom sol met t none none).map some)).flatten := by
    simp only [tasks, List.flatMap_def, List.map_flatten, List.map_map]
    congr 1
    apply List.map_congr_left
    intro t _
    simp only [runTimeseries, List.map_map, Function.comp_def]
  rw [hnest]
  have hlen : (towers.map (fun t => (runTimeseries dom sol met t none none).map some)).length = towers.length := by simp
  rw [← hlen]
  apply regroup_flatten
  intro l hl
  simp only [List.mem_map] at hl
  obtain ⟨t, _, rfl⟩ := hl
  simp [runTimeseries]

/-- the serial reference in the shape the parallel driver returns -/
def serialRef {γ : Type} (towers : List TowerCfg) (nTime : ℕ) (single : TowerCfg → ℕ → γ) :
    List (V × List (Option γ)) :=
  towers.map (fun t => (t.name, (List.range nTime).map (fun i => some (single t i))))

/-- PARALLEL = SERIAL for every strategy and every schedule in which all tasks complete: keyed by tower
name in configuration order, listed in time order -/
theorem parallel_eq_serial {γ : Type} (strategy : Strategy) (hs : strategy ≠ .invalid) (towers : List TowerCfg)
    (nTime : ℕ) (single : TowerCfg → ℕ → γ) (sched : List ℕ)
    (hall : ∀ i, i < max (towers.length * nTime) (max towers.length nTime) → i ∈ sched) :
    runParallel strategy towers nTime single sched = .ok (serialRef towers nTime single) := by
  cases strategy with
  | invalid => exact absurd rfl hs
  | towers =>
    simp only [runParallel, serialRef]
    rw [poolMap_eq_map _ towers sched (fun i hi => hall i (by omega))]
    simp [List.filterMap_map, Function.comp_def]
  | time =>
    simp only [runParallel, serialRef]
    congr 1
    apply List.map_congr_left
    intro t _
    rw [poolMap_eq_map _ (List.range nTime) sched (fun i hi => hall i (by simp at hi; omega))]
  | both =>
    simp only [runParallel, serialRef]
    have hlen : (towers.flatMap (fun t => (List.range nTime).map (fun i => (t, i)))).length = towers.length * nTime := by
      induction towers with
      | nil => simp
      | cons t ts ih => simp [List.flatMap_cons, ih]; ring
    rw [poolMap_eq_map _ _ sched (fun i hi => hall i (by rw [hlen] at hi; omega))]
    have hnest : (towers.flatMap (fun t => (List.range nTime).map (fun i => (t, i)))).map
        (fun (p : TowerCfg × ℕ) => some (single p.1 p.2))
        = (towers.map (fun t => (List.range nTime).map (fun i => some (single t i)))).flatten := by
      simp only [List.flatMap_def, List.map_flatten, List.map_map]
      congr 1
      apply List.map_congr_left
      intro t _
      simp only [List.map_map, Function.comp_def]
    rw [hnest]
    have hl : (towers.map (fun t => (List.range nTime).map (fun i => some (single t i)))).length = towers.length := by simp
    conv_lhs => rw [← hl]
    rw [regroup_flatten nTime _ (by intro l hl'; simp only [List.mem_map] at hl'; obtain ⟨t, _, rfl⟩ := hl'; simp)]
    rw [List.zip_map_right]
    have hzip : ∀ (l : List TowerCfg) (g : TowerCfg × TowerCfg → V × List (Option γ)),
        (l.zip l).map g = l.map (fun t => g (t, t)) := by
      intro l g
      induction l with
      | nil => rfl
      | cons a l ih => simp [List.zip_cons_cons, ih]
    simp only [List.map_map, Function.comp_def]
    rw [hzip]
    rfl

/-- an unknown strategy is rejected -/
theorem invalid_strategy_rejected {γ : Type} (towers : List TowerCfg) (nTime : ℕ) (single : TowerCfg → ℕ → γ)
    (sched : List ℕ) : runParallel Strategy.invalid towers nTime single sched = .error .valueError := rfl

/-! non-vacuity: three tasks, two workers, completion order 2, 0, 1 -/
example : poolMap (fun x : ℕ => x * 10) [1, 2, 3] [2, 0, 1] = [some 10, some 20, some 30] := by decide

end BLDFM.C14
