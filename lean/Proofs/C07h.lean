/-
  C07 (field level) — MIRRORING IN y IN FOOTPRINT MODE, by conjugating the footprint-mode x-mirror (C07g) with the axis swap:
  wind component `v ↦ -v`, the on-grid tower mirrored in y (`j_m ↦ ny - 1 - j_m`); with an odd retained-mode count in y both padded-domain
  fields of the mirrored request are the y-mirrored fields, `field'[J, I] = field[Ny - 1 - J, I]`.  With `mirrorX_footprint_field` this
  completes the mirror clauses of C07 in both modes (the Nyquist components excluded, as in the statement).
-/
import Proofs.C07f
import Proofs.C07g

open BLDFM BLDFM.Spec BLDFM.Index

namespace BLDFM.C07

/-- the x-mirror image of a footprint request whose tower sits on grid column `im` -/
noncomputable def mirrorXfpOf (r : SolveReq ℝ) (im : ℕ) : SolveReq ℝ :=
  { r with P := mirrorX r.P, xm := ((r.nx - 1 - im : ℕ) : ℝ) * (geom RC r).dx }

/-- the y-mirror image of a footprint request whose tower sits on grid row `jm` -/
noncomputable def mirrorYfpOf (r : SolveReq ℝ) (jm : ℕ) : SolveReq ℝ :=
  { r with P := mirrorY r.P, ym := ((r.ny - 1 - jm : ℕ) : ℝ) * (geom RC r).dy }

theorem mirrorXfpOf_pair (r : SolveReq ℝ) (im : ℕ) : MirroredXfp r (mirrorXfpOf r im) im := rfl

theorem mirrorYfp_is_conjugate (r : SolveReq ℝ) (jm : ℕ) :
    mirrorYfpOf r jm = transposeOf (mirrorXfpOf (transposeOf r) jm) := rfl

/-- MIRROR IN y, footprint mode, field form -/
theorem mirrorY_footprint_field (r : SolveReq ℝ) (hg : GeomOK (geom RC r)) (hp : r.precision = .double) (hfp : r.footprint = true)
    (im jm : ℕ) (hjm : jm < r.ny) (hxm : r.xm = im * (geom RC r).dx) (hym : r.ym = jm * (geom RC r).dy)
    (hdx : (geom RC r).dx ≠ 0) (hdy : (geom RC r).dy ≠ 0) (hodd : (geom RC r).nly % 2 = 1)
    (l J I : ℕ) (hJ : J < (geom RC r).nye) :
    (fieldsAt RC (mirrorYfpOf r jm) (geom RC (mirrorYfpOf r jm)) (srcSpectrum RC (mirrorYfpOf r jm) (geom RC (mirrorYfpOf r jm))).get l).1.get J I
      = (fieldsAt RC r (geom RC r) (srcSpectrum RC r (geom RC r)).get l).1.get ((geom RC r).nye - 1 - J) I ∧
    (fieldsAt RC (mirrorYfpOf r jm) (geom RC (mirrorYfpOf r jm)) (srcSpectrum RC (mirrorYfpOf r jm) (geom RC (mirrorYfpOf r jm))).get l).2.get J I
      = (fieldsAt RC r (geom RC r) (srcSpectrum RC r (geom RC r)).get l).2.get ((geom RC r).nye - 1 - J) I := by
  rw [mirrorYfp_is_conjugate]
  set r1 := transposeOf r with hr1
  set r2 := mirrorXfpOf r1 jm with hr2
  have t01 : Transposed r r1 := transposeOf_pair r
  have t23 : Transposed r2 (transposeOf r2) := transposeOf_pair r2
  have m12 : MirroredXfp r1 r2 jm := mirrorXfpOf_pair r1 jm
  have hg1 : GeomOK (geom RC r1) := tr_geomOK t01 hg
  have hg2 : GeomOK (geom RC r2) := by rw [mxfp_geom m12]; exact hg1
  have hN : (geom RC r1).nxe = (geom RC r).nye := tr_nxe t01
  have hfp1 : r1.footprint = true := hfp
  have hp1 : r1.precision = .double := hp
  -- the tower of the transposed request: column `jm`, row `im`
  have hxm1 : r1.xm = jm * (geom RC r1).dx := by rw [tr_dx t01]; exact hym
  have hym1 : r1.ym = im * (geom RC r1).dy := by rw [tr_dy t01]; exact hxm
  have hdx1 : (geom RC r1).dx ≠ 0 := by rw [tr_dx t01]; exact hdy
  have hdy1 : (geom RC r1).dy ≠ 0 := by rw [tr_dy t01]; exact hdx
  -- step 3 → 2 : transpose
  have s32 := transpose_field t23 hg2 l J I
  -- step 2 → 1 : footprint-mode x-mirror of the transposed request
  have s21 := mirrorX_footprint_field m12 hg1 hp1 hfp1 im (show jm < r1.nx from hjm) hxm1 hym1 hdx1 hdy1
    (by rw [(tr_nl t01).1]; exact hodd) l I J (by rw [hN]; exact hJ)
  -- step 1 → 0 : transpose back
  have s10 := transpose_field t01 hg l I ((geom RC r1).nxe - 1 - J)
  rw [hN] at s21 s10
  exact ⟨s32.1.trans (s21.1.trans s10.1), s32.2.trans (s21.2.trans s10.2)⟩

end BLDFM.C07
